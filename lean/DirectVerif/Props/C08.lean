import DirectVerif.Lemmas.C08Sound
import DirectVerif.Lemmas.C08Enum
import DirectVerif.Lemmas.C08Consist
import DirectVerif.Lemmas.C08Shape
import DirectVerif.Lemmas.C08Tags
import DirectVerif.Lemmas.C08PrePost
import DirectVerif.Lemmas.C08Err
import DirectVerif.Lemmas.C08Given
import DirectVerif.Lemmas.C08Ext
import DirectVerif.Lemmas.C08Recon
/-!
# C08 — the training transform pipeline is scale-equivariant and self-consistent

Property theorems only.  They are about `Model/Pipeline.lean`: the builder `build : Config → List Stage`
(tied to `build_supervised_mri_transforms` / `build_mri_transforms` by `Bridge/C08.lean`), the stage
programs `compile`, their semantics `run` (what the driver executes) and the degree rules `opDeg`.

* `stage_sound` — every primitive is homogeneous of the degree its rule claims, for every `c > 0`;
  `stage_program_sound` lifts this to the program of any stage.
* `pipeline_degrees_ok` — for **every** configuration of the 24 builder flags that is valid, the composed
  pipeline type-checks, all normalised outputs have degree 0 and the scaling factor degree 1.
* `pipeline_equivariant` — soundness ∘ type check: `run (c·x)` equals `run x` on every normalised key
  and the scaling factor is multiplied by `c`.
* `masked_is_mask_of_normalised`, `target_is_recon_of_normalised` (+ the SSL variant).
* `shape_tags`, `crop_shape` (all flags), `same_filename_same_mask`, `same_filename_same_crop`, `wrapper_equiv`.
* witnesses that the check rejects the mutants the property is about (`*_rejected`).
* phase 3: the second builder pair (`prepost_degrees_ok`, `prepost_equivariant`, `prepost_consistent`), samples that
  already contain masks / maps (`given_*`), the `IndexError` branch of the percentile scaling (`runE_*`).
-/
set_option linter.unusedSectionVars false
set_option linter.unusedSimpArgs false
namespace DirectVerif.C08
open DirectVerif DirectVerif.Pipeline

variable {K : Type} [Field K] [LinearOrder K] [IsStrictOrderedRing K]

/-! ## stage soundness -/

/-- **Every primitive operation is homogeneous of the degree its typing rule claims**: scaling the
`i`-th argument by `c ^ dsᵢ` scales the result by `c ^ d`, for every `c > 0`, every field, every tensor
size (`safeDivide : d₁, d₂ ↦ d₂ − d₁`, percentile / max of the modulus `1 ↦ 1`, the relative threshold
`1 ↦ 0`, RSS `d ↦ d`, masking `(0, d) ↦ d`, SENSE combination `(d₁, d₂) ↦ d₁ + d₂`, …). -/
theorem stage_sound {sqrt : K → K} (hs : SqrtHom sqrt) {X : Ext K} (hX : ExtHom X) (c : K) (hc : 0 < c)
    (m : Meta) (op : Op) (ds : List Int) (vs : List (Val K)) (d : Int) (hlen : ds.length = vs.length)
    (h : opDeg op ds = .ok d) :
    evalOp (fieldOps sqrt) X m op (List.zipWith (fun d v => scaleV (c ^ d) v) ds vs)
      = scaleV (c ^ d) (evalOp (fieldOps sqrt) X m op vs) :=
  evalOp_hom hs hX c hc m op ds vs d hlen h

/-- … and so is the program of every stage (every transform class), from any store the static
environment describes. -/
theorem stage_program_sound {sqrt : K → K} (hs : SqrtHom sqrt) {X : Ext K} (hX : ExtHom X) (c : K) (hc : 0 < c)
    (m : Meta) (st : Stage) (e e' : TEnv) (s : Store K) (ha : Agree e s)
    (ht : typeProgram (compile st) e = .ok e') :
    ∃ s', exec (fieldOps sqrt) X m (compile st) s = .ok s' ∧ Agree e' s' ∧
      exec (fieldOps sqrt) X m (compile st) (scaleS c e s) = .ok (scaleS c e' s') :=
  exec_sound hs hX c hc m (compile st) e e' s ha ht

/-- the relative threshold of `ComputeZeroPadding` is homogeneous … -/
example : thrCurrent.homogeneous = true := by decide
/-- … an absolute one (`kspace < eps`) is not, and the pipeline built with it is rejected -/
theorem absolute_threshold_rejected :
    (ThrPred.mk true .x .eps).homogeneous = false ∧
    degreesOk false ([Stage.toTensor, .computeZeroPadding .kspace .padding ⟨true, .x, .eps⟩]
                     ++ (build {}).drop 2) = false := by decide

/-! ## the static check holds for every valid configuration -/

theorem canon_eq (c : Config) :
    canon c = canonOf c.paddingEps c.maskFunc c.bodyCoil c.estimateSmaps c.smapType c.deleteAcsMask c.deleteKspace
      c.recon c.scalingKey c.ssl c.splitKeepAcs := rfl

/-- **`pipeline_degrees_ok`**: for every combination of the builder flags (crop none / tuple / key and
centre / random, rescale, pad, the three augmentations, zero-padding stage, coil compression and coil
padding, body-coil image, sensitivity maps off / unit / RSS ± Gaussian, both delete flags, all six
reconstruction types, scaling on `kspace` / `masked_kspace`, percentile or maximum,
seeding, supervised and SSL with the three splitters ± kept ACS) that is `valid`, the composed stage
list type-checks from a raw sample, every normalised output has degree 0, the scaling factor has
degree 1, the network inputs are present and no temporaries leak. -/
theorem pipeline_degrees_ok (c : Config) (hv : c.valid = true) : degreesOk c.ssl (build c) = true := by
  apply degreesOk_of_canon
  have hsk : c.scalingKey = .key .maskedKspace ∨ c.scalingKey = .key .kspace := by
    simp only [Config.valid, Bool.and_eq_true, Bool.or_eq_true, beq_iff_eq] at hv
    exact hv.1.1.1.2
  have hmf : c.maskFunc = true := by
    simp only [Config.valid, Bool.and_eq_true] at hv; exact hv.1.1.1.1
  have h := enum_all c.recon c.scalingKey c.ssl hsk
  have h2 := allB_spec (allB_spec (allB_spec (allSMap_spec (allB_spec (allB_spec (allB_spec h c.paddingEps)
    c.bodyCoil) c.estimateSmaps) c.smapType) c.deleteAcsMask) c.deleteKspace) c.splitKeepAcs
  simp only [chk] at h2
  rw [canon_eq, hmf]
  have hv' : (canonOf c.paddingEps true c.bodyCoil c.estimateSmaps c.smapType c.deleteAcsMask c.deleteKspace
      c.recon c.scalingKey c.ssl c.splitKeepAcs).valid = true := by
    simpa [Config.valid, canonOf, hmf] using hv
  simp only [hv', Bool.not_true, Bool.false_or] at h2
  exact h2

/-- the hypothesis is satisfiable: the default configuration and an SSL one are valid -/
example : (({} : Config).valid = true) ∧ (({ ssl := true, recon := .sense, smapType := .unit } : Config).valid = true) := by
  decide

/-- moving `ComputeImage` in front of `Normalize` (target computed from the un-normalised k-space) is
rejected: the target then has degree 1 -/
theorem recon_before_normalize_rejected :
    degreesOk false [.toTensor, .createSamplingMask false (some [.filename]) false,
      .applyMask .samplingMask .kspace .maskedKspace,
      .computeImage .kspace .target .rss,
      .computeScalingFactor (.key .maskedKspace) true .scalingFactor,
      .normalize .scalingFactor [.kspace, .maskedKspace]] = false := by decide

/-- dropping `Normalize` is rejected -/
theorem dropped_normalize_rejected :
    degreesOk false [.toTensor, .createSamplingMask false (some [.filename]) false,
      .applyMask .samplingMask .kspace .maskedKspace,
      .computeScalingFactor (.key .maskedKspace) true .scalingFactor,
      .computeImage .kspace .target .rss] = false := by decide

/-- normalising only one of the two k-spaces is rejected -/
theorem partial_normalize_rejected :
    degreesOk false [.toTensor, .createSamplingMask false (some [.filename]) false,
      .applyMask .samplingMask .kspace .maskedKspace,
      .computeScalingFactor (.key .maskedKspace) true .scalingFactor,
      .normalize .scalingFactor [.kspace],
      .computeImage .kspace .target .rss] = false := by decide

/-! ## equivariance -/

/-- the raw sample as a store -/
def rawStore (x : Val K) : Store K := fun k => if k = .kspace then some x else none

theorem rawStore_scale (c : K) (x : Val K) : rawStore (scaleV c x) = scaleS c initEnv (rawStore x) := by
  funext k
  unfold rawStore scaleS initEnv
  by_cases hk : k = .kspace <;> simp [hk]

theorem agree_init (x : Val K) : Agree initEnv (rawStore x) := by
  intro k; unfold initEnv rawStore; by_cases hk : k = .kspace <;> simp [hk]

/-- **`pipeline_equivariant`** (soundness ∘ type check), for *any* stage list that passes the static
check: over every ordered field, for every square-root function and externals with the recorded
homogeneity, every raw sample `x`, every metadata and every `c > 0`, the run on `c·x` succeeds exactly
like the run on `x`; every normalised key that is present holds the *same* tensor; the scaling factor is
multiplied by `c`. -/
theorem pipeline_equivariant {sqrt : K → K} (hs : SqrtHom sqrt) {X : Ext K} (hX : ExtHom X) (m : Meta)
    (ssl : Bool) (l : List Stage) (hl : degreesOk ssl l = true) (c : K) (hc : 0 < c) (x : Val K) :
    ∃ out outc, run (fieldOps sqrt) X m l x = .ok out
      ∧ run (fieldOps sqrt) X m l (scaleV c x) = .ok outc
      ∧ (∀ k ∈ normalisedKeys, outc k = out k)
      ∧ (∃ sf, out .scalingFactor = some sf ∧ outc .scalingFactor = some (scaleV c sf))
      ∧ (∃ t, out .target = some t) := by
  unfold degreesOk at hl
  cases ht : typeProgram (program l) initEnv with
  | error er => simp [ht] at hl
  | ok e =>
    simp only [ht, finalOk, Bool.and_eq_true] at hl
    obtain ⟨⟨⟨⟨hsf, hnorm⟩, htg⟩, _⟩, _⟩ := hl
    obtain ⟨out, h1, h2, h3⟩ := exec_sound hs hX c hc m (program l) initEnv e (rawStore x) (agree_init x) ht
    refine ⟨out, scaleS c e out, h1, ?_, ?_, ?_, ?_⟩
    · have : run (fieldOps sqrt) X m l (scaleV c x) = exec (fieldOps sqrt) X m (program l) (rawStore (scaleV c x)) := rfl
      rw [this, rawStore_scale, h3]
    · intro k hk
      have hk' := List.all_eq_true.mp hnorm k hk
      unfold degIsOrAbsent at hk'
      unfold scaleS
      cases hek : e k with
      | none =>
        have := h2 k; simp only [hek, Option.isSome_none] at this
        cases hok : out k with
        | none => rfl
        | some v => simp [hok] at this
      | some d =>
        simp only [hek, beq_iff_eq] at hk'; subst hk'
        cases hok : out k with
        | none => rfl
        | some v => simp
    · unfold degIs at hsf
      cases hek : e .scalingFactor with
      | none => simp [hek] at hsf
      | some d =>
        simp only [hek, beq_iff_eq] at hsf; subst hsf
        have := h2 .scalingFactor; simp only [hek, Option.isSome_some] at this
        cases hok : out .scalingFactor with
        | none => simp [hok] at this
        | some v => exact ⟨v, rfl, by simp [scaleS, hek, hok]⟩
    · unfold degIs at htg
      cases hek : e .target with
      | none => simp [hek] at htg
      | some d =>
        have := h2 .target; simp only [hek, Option.isSome_some] at this
        cases hok : out .target with
        | none => simp [hok] at this
        | some v => exact ⟨v, rfl⟩

/-- the pipeline the repository builds, for every valid configuration -/
theorem build_equivariant {sqrt : K → K} (hs : SqrtHom sqrt) {X : Ext K} (hX : ExtHom X) (m : Meta)
    (cfg : Config) (hv : cfg.valid = true) (c : K) (hc : 0 < c) (x : Val K) :
    ∃ out outc, run (fieldOps sqrt) X m (build cfg) x = .ok out
      ∧ run (fieldOps sqrt) X m (build cfg) (scaleV c x) = .ok outc
      ∧ (∀ k ∈ normalisedKeys, outc k = out k)
      ∧ (∃ sf, out .scalingFactor = some sf ∧ outc .scalingFactor = some (scaleV c sf))
      ∧ (∃ t, out .target = some t) :=
  pipeline_equivariant hs hX m cfg.ssl (build cfg) (pipeline_degrees_ok cfg hv) c hc x

/-- non-vacuity of the hypotheses: identity externals are homogeneous, a (degenerate) square root
exists in every field, and hence the default pipeline runs to completion on *every* raw sample — which
is also the hypothesis `run … = .ok out` of the self-consistency theorems below.  (Over ℝ the real
square root satisfies `SqrtHom`; the driver executes the same `run` over ℚ with the exact root.) -/
example : ExtHom (idExt (K := K)) := idExt_hom
example : SqrtHom (K := K) (fun _ => 0) := zeroSqrt_hom
example (m : Meta) (x : Val K) : ∃ out, run (fieldOps (fun _ => (0 : K))) idExt m (build {}) x = .ok out := by
  obtain ⟨out, _, h, _⟩ := build_equivariant zeroSqrt_hom idExt_hom m {} (by decide) 1 one_pos x
  exact ⟨out, h⟩
example (m : Meta) (x : Val K) :
    ∃ out, run (fieldOps (fun _ => (0 : K))) idExt m (build { ssl := true, recon := .senseMod }) x = .ok out := by
  obtain ⟨out, _, h, _⟩ := build_equivariant zeroSqrt_hom idExt_hom m { ssl := true, recon := .senseMod } (by decide) 1 one_pos x
  exact ⟨out, h⟩

/-! ## self-consistency of the outputs -/

/-- **`masked_is_mask_of_normalised`** — supervised pipeline, every valid configuration, every raw
sample on which the pipeline succeeds: there is one tensor `kn` (the *normalised fully sampled
k-space* `safeDiv(scaling_factor, kfull)`, `kfull` being the pre-processed k-space that reached
`ApplyMask`) such that `masked_kspace = applyMask(sampling_mask, kn)`, the output `kspace` — when it is
not deleted — is `kn`, and (**`target_is_recon_of_normalised`**) `target = ComputeImage(kn)` with the
sensitivity map of the output sample. -/
theorem masked_is_mask_of_normalised {sqrt : K → K} (X : Ext K) (m : Meta) (cfg : Config)
    (hv : cfg.valid = true) (hssl : cfg.ssl = false) (x : Val K) (out : Store K)
    (h : run (fieldOps sqrt) X m (build cfg) x = .ok out) :
    ∃ kfull mask sf kn, out .samplingMask = some mask ∧ out .scalingFactor = some sf
      ∧ kn = evalOp (fieldOps sqrt) X m .safeDiv [sf, kfull]
      ∧ out .maskedKspace = some (evalOp (fieldOps sqrt) X m .applyMask [mask, kn])
      ∧ out .target = some (reconVal (fieldOps sqrt) X m cfg.recon kn ((out .sensitivityMap).getD Val.empty))
      ∧ (out .kspace = some kn ∨ (cfg.deleteKspace = true ∧ out .kspace = none)) := by
  obtain ⟨kfull, mask, sf, a1, a2, a3, a4, a5⟩ := sup_final (fieldOps sqrt) X m cfg hv hssl x out h
  refine ⟨kfull, mask, sf, _, a1, a2, rfl, ?_, a4, a5⟩
  rw [a3, safeDiv_applyMask_comm]

/-- the target alone (same hypotheses) -/
theorem target_is_recon_of_normalised {sqrt : K → K} (X : Ext K) (m : Meta) (cfg : Config)
    (hv : cfg.valid = true) (hssl : cfg.ssl = false) (x : Val K) (out : Store K)
    (h : run (fieldOps sqrt) X m (build cfg) x = .ok out) :
    ∃ kfull sf, out .scalingFactor = some sf
      ∧ out .target = some (reconVal (fieldOps sqrt) X m cfg.recon (evalOp (fieldOps sqrt) X m .safeDiv [sf, kfull])
                              ((out .sensitivityMap).getD Val.empty)) := by
  obtain ⟨kfull, mask, sf, a1, a2, a3, a4, a5⟩ := sup_final (fieldOps sqrt) X m cfg hv hssl x out h
  exact ⟨kfull, sf, a2, a4⟩

/-- SSL pipeline, every valid configuration: `input_kspace` and the output `kspace` are the input /
target split masks applied to the normalised masked k-space `applyMask(sampling_mask, kfull / s)`, and
`target = ComputeImage(kspace)`. -/
theorem ssl_consistent {sqrt : K → K} (X : Ext K) (m : Meta) (cfg : Config)
    (hv : cfg.valid = true) (hssl : cfg.ssl = true) (x : Val K) (out : Store K)
    (h : run (fieldOps sqrt) X m (build cfg) x = .ok out) :
    ∃ kfull mask sf im tm mkn, out .scalingFactor = some sf
      ∧ mkn = evalOp (fieldOps sqrt) X m .applyMask [mask, evalOp (fieldOps sqrt) X m .safeDiv [sf, kfull]]
      ∧ out .inputSamplingMask = some im ∧ out .targetSamplingMask = some tm
      ∧ out .inputKspace = some (evalOp (fieldOps sqrt) X m .applyMask [im, mkn])
      ∧ out .kspace = some (evalOp (fieldOps sqrt) X m .applyMask [tm, mkn])
      ∧ out .target = some (reconVal (fieldOps sqrt) X m cfg.recon (evalOp (fieldOps sqrt) X m .applyMask [tm, mkn])
                              ((out .sensitivityMap).getD Val.empty)) := by
  obtain ⟨kfull, mask, sf, im, tm, a1, a2, a3, a4, a5, a6⟩ := ssl_final (fieldOps sqrt) X m cfg hv hssl x out h
  refine ⟨kfull, mask, sf, im, tm, _, a1, rfl, a2, a3, ?_, ?_, ?_⟩
  · rw [a4, safeDiv_applyMask_comm]
  · rw [a5, safeDiv_applyMask_comm]
  · rw [a6, safeDiv_applyMask_comm]

/-- the hypotheses of the three theorems are satisfiable: with identity externals and a one-coil 1×1
sample the default pipeline runs to completion over `ℚ`-like scalars (executed by the driver on every
run; here: the static check, which `pipeline_equivariant` turns into success of `run`) -/
example : degreesOk false (build {}) = true := pipeline_degrees_ok {} (by decide)

/-! ## crop shape -/

/-- **`shape_tags`** — for **every** valid configuration of the 24 flags in which a tuple crop is not followed by
pad / rescale (then `CreateSamplingMask` would build the mask for the crop shape while the k-space has another
one: the code raises, see the evidence notes): the shape-tag interpreter succeeds on the composed pipeline —
every broadcast (mask × k-space, padding × mask, map × image, scaling factor × k-space) is between equal shapes
or with a scalar — and every tensor output carries the tag `finalSp cfg` (`padded` if `pad`, else `rescaled` if
`rescale`, else `cropped` if `crop` is a tuple **or a sample key** such as `reconstruction_size`, else `raw`); the
scaling factor is a scalar.  Tags do not depend on the rank: the statement covers 2-D and 3-D samples (a 2-tuple
crop of a 3-D sample keeps the slice axis). -/
theorem shape_tags (cfg : Config) (hv : cfg.valid = true)
    (hc : cfg.crop = .tuple → cfg.rescale = false ∧ cfg.pad = false) :
    ∃ ed, typeProgram (program (build cfg)) initEnv = .ok ed
      ∧ absProgram opSp (program (build cfg)) initSp = .ok (tagEnv (finalSp cfg) ed) := by
  have h := pipeline_degrees_ok cfg hv
  unfold degreesOk at h
  cases hd : typeProgram (program (build cfg)) initEnv with
  | error er => simp [hd] at h
  | ok ed => exact ⟨ed, rfl, shape_tags_of_degrees cfg hc ed hd⟩

/-- **`crop_shape`** (full): with a crop — tuple or sample key, centre or random — and no later change of the
spatial size, every tensor the pipeline outputs (masked k-space, k-space, target, sensitivity map, all masks,
body-coil image, the SSL inputs) has the crop shape tag; for all other flags.  The sizes behind the tag are
C10's `center_crop_length`; the real shapes (2-D and 3-D) are checked by the oracle. -/
theorem crop_shape (cfg : Config) (hv : cfg.valid = true) (hcrop : cfg.crop ≠ .none)
    (hr : cfg.rescale = false) (hp : cfg.pad = false) :
    ∃ e, absProgram opSp (program (build cfg)) initSp = .ok e
      ∧ ∀ k t, e k = some t → k ≠ .scalingFactor → t = .cropped := by
  obtain ⟨ed, _, h⟩ := shape_tags cfg hv (fun _ => ⟨hr, hp⟩)
  refine ⟨_, h, ?_⟩
  intro k t hk hne
  have hf : finalSp cfg = .cropped := by
    unfold finalSp; simp [hr, hp]; cases hcr : cfg.crop <;> simp_all
  unfold tagEnv at hk
  cases hek : ed k with
  | none => simp [hek] at hk
  | some d => simp [hek, tagOf, hne, hf] at hk; exact hk.symm

example : ({ crop := .name, imageCenterCrop := false, ssl := true } : Config).valid = true := by decide

/-- a sampling mask generated for the un-cropped shape is rejected (`shape=` dropped from
`CreateSamplingMask` while the k-space is cropped … is fine: the mask then takes the k-space's shape;
but a mask created *before* the crop and not cropped with it is rejected) -/
theorem mask_before_crop_rejected :
    cropShapeOk [.toTensor, .createSamplingMask false (some [.filename]) false,
      .cropKspace true true, .deleteKeys [.acsMask],
      .applyMask .samplingMask .kspace .maskedKspace,
      .computeScalingFactor (.key .maskedKspace) true .scalingFactor,
      .normalize .scalingFactor [.kspace, .maskedKspace], .computeImage .kspace .target .rss] = false := by decide

/-! ## one mask per file name -/

/-- **`same_filename_same_mask`** — the mask generator is called with a seed computed from the file name
only: two samples with the same file name (any slice numbers, any k-space *values*) and the same shape
get identical generated sampling / ACS masks. -/
theorem same_filename_same_mask {sqrt : K → K} (X : Ext K) (m m' : Meta) (hf : m.filename = m'.filename)
    (src : MaskSrc) (fromCrop : Bool) (x x' : Val K)
    (hshape : x.nc = x'.nc ∧ x.ns = x'.ns ∧ x.data.length = x'.data.length) :
    evalOp (fieldOps sqrt) X m (.extMask src (seedOf true [.filename]) fromCrop) [x]
      = evalOp (fieldOps sqrt) X m' (.extMask src (seedOf true [.filename]) fromCrop) [x'] := by
  obtain ⟨h1, h2, h3⟩ := hshape
  simp [evalOp, seedOf, seedVal, hf, h1, h2, h3]

/-- **`same_filename_same_crop`** — the random crop (`image_center_crop = False`, seeding enabled) is
taken at an offset seeded by the file name only (`cropSeedFields`, translated from `CropKspace.__call__`
and bridged): for two slices of one file the crop *operator* is the same function of the tensor. -/
theorem same_filename_same_crop {sqrt : K → K} (X : Ext K) (m m' : Meta) (hf : m.filename = m'.filename)
    (center : Bool) (x : Val K) :
    evalOp (fieldOps sqrt) X m (.lin (.crop center true)) [x]
      = evalOp (fieldOps sqrt) X m' (.lin (.crop center true)) [x] := by
  simp [evalOp, cropSeedFields, seedVal, hf]

/-- … and that is the seed of *every* sampling / ACS mask generation in the composed pipeline, for every
configuration with `use_seed` (no `slice_no`, no unseeded draw). -/
theorem mask_seeds_filename_only (cfg : Config) (hu : cfg.useSeed = true) :
    seedsOk (program (build cfg)) = true := seedsOk_build cfg hu

/-- a seed that also mentions the slice number is rejected -/
theorem slice_seed_rejected :
    seedsOk (program [.createSamplingMask false (some [.filename, .sliceNo]) false]) = false := by decide

/-- … and with such a seed two slices of one file do get different seeds -/
example : seedVal ⟨[102], [48]⟩ [.filename, .sliceNo] ≠ seedVal ⟨[102], [49]⟩ [.filename, .sliceNo] := by decide

/-! ## `ModuleWrapper` -/

/-- toggling out undoes toggling in, for tensors of every shape and for plain values -/
theorem toggle_roundtrip {α β} (e : Entry α β) (h : ∀ l, e ≠ .vals l) : e.toggleIn.toggleOut = e := by
  cases e with
  | tensor t => simp [Entry.toggleIn, Entry.toggleOut, Shaped.unsqueeze0, Shaped.squeeze0]
  | val v => rfl
  | vals l => exact absurd rfl (h l)

/-- **`wrapper_equiv`** — applying a wrapped module (`toggle_dims=True`) to an un-batched sample equals the
un-batched transformation `g`, whenever the module's `forward` acts on a batch of one as `g` acts on its single
element (`forward ∘ toggleIn = toggleIn ∘ g` — checked on every wrapped module class by the oracle, which
compares the wrapper with `forward` on a batch of two copies) and `g` produces tensors / plain values. -/
theorem wrapper_equiv {α β} (forward g : WSample α β → WSample α β) (s : WSample α β)
    (hlift : forward (fun k => (s k).map Entry.toggleIn) = fun k => (g s k).map Entry.toggleIn)
    (hplain : ∀ k e, g s k = some e → ∀ l, e ≠ .vals l) :
    wrapToggle forward s = g s := by
  funext k
  unfold wrapToggle
  rw [hlift]
  cases hk : g s k with
  | none => simp [hk]
  | some e => simp [hk, toggle_roundtrip e (hplain k e hk)]

/-- the hypotheses are satisfiable: the identity module -/
example {α β} (s : WSample α β) (h : ∀ k e, s k = some e → ∀ l, e ≠ .vals l) : wrapToggle id s = s :=
  wrapper_equiv id id s rfl h

/-! ## phase 3 — `build_pre_mri_transforms` ++ `build_post_mri_transforms` -/

/-- **`prepost_degrees_ok`**: the pre-transform followed by the post-transform (the CPU / GPU split of the same
pipeline, with `ComputeImage` *before* `Normalize` and `Normalize`'s default key list) type-checks for every valid
combination of its flags: the target — computed from the un-normalised k-space — is normalised afterwards, and so
is the body-coil image. -/
theorem prepost_degrees_ok (c : Config) (hv : c.validPP = true) : degreesOk false (buildPrePost c) = true := by
  have h0 := prepost_degrees_canon c hv
  rw [degreesOk_eq_from] at h0 ⊢
  exact degreesOkFrom_of_rel initEnv false (buildPrePost c) (buildPrePost (canon c)) (rel_buildPP c) h0

example : ({} : Config).validPP = true ∧ ({ recon := .senseMod, smapType := .unit, bodyCoil := true } : Config).validPP = true := by
  decide

/-- … hence it is scale-equivariant (same statement as `build_equivariant`) -/
theorem prepost_equivariant {sqrt : K → K} (hs : SqrtHom sqrt) {X : Ext K} (hX : ExtHom X) (m : Meta)
    (cfg : Config) (hv : cfg.validPP = true) (c : K) (hc : 0 < c) (x : Val K) :
    ∃ out outc, run (fieldOps sqrt) X m (buildPrePost cfg) x = .ok out
      ∧ run (fieldOps sqrt) X m (buildPrePost cfg) (scaleV c x) = .ok outc
      ∧ (∀ k ∈ normalisedKeys, outc k = out k)
      ∧ (∃ sf, out .scalingFactor = some sf ∧ outc .scalingFactor = some (scaleV c sf))
      ∧ (∃ t, out .target = some t) :=
  pipeline_equivariant hs hX m false (buildPrePost cfg) (prepost_degrees_ok cfg hv) c hc x

/-- static degree of an output key of a stage list (from the raw sample) -/
def degOf (l : List Stage) (k : Key) : Option Int :=
  match typeProgram (program l) initEnv with
  | .ok e => e k
  | .error _ => none

/-- in the pre/post pair the body-coil image is a normalised output too (it is *not* in the single-builder
pipeline, whose `Normalize` is given `[kspace, masked_kspace]` only: there it keeps degree 1) -/
theorem body_coil_image_degree :
    degOf (buildPrePost { bodyCoil := true }) .bodyCoilImage = some 0
    ∧ degOf (build { bodyCoil := true }) .bodyCoilImage = some 1 := by decide

/-- **`prepost_consistent`** — every valid configuration, every raw sample on which the pair succeeds:
`masked_kspace = applyMask(sampling_mask, kfull / s)`, the output `kspace` (when kept) is `kfull / s`, and
`target = ComputeImage(kfull) / s` — the reconstruction of the *un-normalised* k-space, normalised afterwards. -/
theorem prepost_consistent {sqrt : K → K} (X : Ext K) (m : Meta) (cfg : Config) (hv : cfg.validPP = true)
    (x : Val K) (out : Store K) (h : run (fieldOps sqrt) X m (buildPrePost cfg) x = .ok out) :
    ∃ kfull mask sf, out .samplingMask = some mask ∧ out .scalingFactor = some sf
      ∧ out .maskedKspace = some (evalOp (fieldOps sqrt) X m .applyMask [mask, evalOp (fieldOps sqrt) X m .safeDiv [sf, kfull]])
      ∧ out .target = some (evalOp (fieldOps sqrt) X m .safeDiv
            [sf, reconVal (fieldOps sqrt) X m cfg.recon kfull ((out .sensitivityMap).getD Val.empty)])
      ∧ (out .kspace = some (evalOp (fieldOps sqrt) X m .safeDiv [sf, kfull]) ∨ (cfg.deleteKspace = true ∧ out .kspace = none)) := by
  obtain ⟨kfull, mask, sf, a1, a2, a3, a4, a5⟩ := prepost_final (fieldOps sqrt) X m cfg hv x out h
  refine ⟨kfull, mask, sf, a1, a2, ?_, a4, a5⟩
  rw [a3, safeDiv_applyMask_comm]

/-- **`prepost_target_is_recon_of_normalised`** — although the pre/post pair reconstructs *before* it normalises, its
target is the reconstruction of the normalised fully sampled k-space, as the property demands: for a positive scalar
scaling factor `s`, `ComputeImage(kfull) / s = ComputeImage(kfull / s)` for all six reconstruction types (homogeneity of
`ComputeImage`, `reconVal_scale`, with the sensitivity map of the output sample). -/
theorem prepost_target_is_recon_of_normalised {sqrt : K → K} (hs : SqrtHom sqrt) {X : Ext K} (hX : ExtHom X) (m : Meta)
    (cfg : Config) (hv : cfg.validPP = true) (x : Val K) (out : Store K)
    (h : run (fieldOps sqrt) X m (buildPrePost cfg) x = .ok out) :
    ∃ kfull sf, out .scalingFactor = some sf ∧
      ∀ s, sf.data = [s] → 0 < s →
        out .target = some (reconVal (fieldOps sqrt) X m cfg.recon (evalOp (fieldOps sqrt) X m .safeDiv [sf, kfull])
                              ((out .sensitivityMap).getD Val.empty)) := by
  obtain ⟨kfull, mask, sf, _, a2, _, a4, _⟩ := prepost_final (fieldOps sqrt) X m cfg hv x out h
  refine ⟨kfull, sf, a2, ?_⟩
  intro s hsf hpos
  rw [a4, recon_normalise_comm hs hX m cfg.recon sf kfull _ s hsf hpos]

/-- moving `ComputeImage` behind `Normalize`'s key list (dropping `target` from the default keys) is rejected -/
theorem post_target_not_normalised_rejected :
    degreesOk false (buildPre {} ++ [.estimateSensitivityMap .kspace .rssEstimate false, .deleteKeys [.acsMask],
      .computeImage .kspace .target .rss, .applyMask .samplingMask .kspace .maskedKspace,
      .computeScalingFactor (.key .maskedKspace) true .scalingFactor,
      .normalize .scalingFactor [.maskedKspace, .kspace, .bodyCoilImage]]) = false := by decide

/-! ## phase 3 — samples that already contain tensor entries -/

theorem givenStore_scale (c : K) (x : Val K) (g : Given K) :
    givenStore (scaleV c x) g
      = scaleS c (givenEnv g.samplingMask.isSome g.acsMask.isSome g.sensitivityMap.isSome) (givenStore x g) := by
  funext k
  unfold givenStore scaleS givenEnv
  cases k <;> simp <;> (first | (cases g.samplingMask <;> simp) | (cases g.acsMask <;> simp) | (cases g.sensitivityMap <;> simp))

theorem agree_given (x : Val K) (g : Given K) :
    Agree (givenEnv g.samplingMask.isSome g.acsMask.isSome g.sensitivityMap.isSome) (givenStore x g) := by
  intro k; unfold givenEnv givenStore
  cases k <;> simp <;> (first | (cases g.samplingMask <;> simp) | (cases g.acsMask <;> simp) | (cases g.sensitivityMap <;> simp))

/-- **`pipeline_equivariant_from`** — `pipeline_equivariant` from *any* initial sample the static environment
`e0` describes (keys present, degrees): for a stage list that passes the static check from `e0`, the run on the
scaled sample (every entry scaled by `c ^ degree`) succeeds like the run on the sample, the normalised keys hold
the same tensors, the scaling factor is multiplied by `c`. -/
theorem pipeline_equivariant_from {sqrt : K → K} (hs : SqrtHom sqrt) {X : Ext K} (hX : ExtHom X) (m : Meta)
    (e0 : TEnv) (s0 : Store K) (ha : Agree e0 s0)
    (ssl : Bool) (l : List Stage) (hl : degreesOkFrom e0 ssl l = true) (c : K) (hc : 0 < c) :
    ∃ out outc, runFrom (fieldOps sqrt) X m l s0 = .ok out
      ∧ runFrom (fieldOps sqrt) X m l (scaleS c e0 s0) = .ok outc
      ∧ (∀ k ∈ normalisedKeys, outc k = out k)
      ∧ (∃ sf, out .scalingFactor = some sf ∧ outc .scalingFactor = some (scaleV c sf))
      ∧ (∃ t, out .target = some t) := by
  unfold degreesOkFrom at hl
  cases ht : typeProgram (program l) e0 with
  | error er => simp [ht] at hl
  | ok e =>
    simp only [ht, finalOk, Bool.and_eq_true] at hl
    obtain ⟨⟨⟨⟨hsf, hnorm⟩, htg⟩, _⟩, _⟩ := hl
    obtain ⟨out, h1, h2, h3⟩ := exec_sound hs hX c hc m (program l) e0 e s0 ha ht
    refine ⟨out, scaleS c e out, h1, h3, ?_, ?_, ?_⟩
    · intro k hk
      have hk' := List.all_eq_true.mp hnorm k hk
      unfold degIsOrAbsent at hk'
      unfold scaleS
      cases hek : e k with
      | none =>
        have := h2 k; simp only [hek, Option.isSome_none] at this
        cases hok : out k with
        | none => rfl
        | some v => simp [hok] at this
      | some d =>
        simp only [hek, beq_iff_eq] at hk'; subst hk'
        cases hok : out k with
        | none => rfl
        | some v => simp
    · unfold degIs at hsf
      cases hek : e .scalingFactor with
      | none => simp [hek] at hsf
      | some d =>
        simp only [hek, beq_iff_eq] at hsf; subst hsf
        have := h2 .scalingFactor; simp only [hek, Option.isSome_some] at this
        cases hok : out .scalingFactor with
        | none => simp [hok] at this
        | some v => exact ⟨v, rfl, by simp [scaleS, hek, hok]⟩
    · unfold degIs at htg
      cases hek : e .target with
      | none => simp [hek] at htg
      | some d =>
        have := h2 .target; simp only [hek, Option.isSome_some] at this
        cases hok : out .target with
        | none => simp [hok] at this
        | some v => exact ⟨v, rfl⟩

/-- **`given_masks_equivariant`** (scenario A) — prospectively under-sampled data: the sample brings
`sampling_mask` and `acs_mask`, no mask function is configured.  Every configuration valid for such a sample is
scale-equivariant; the given masks are not scaled. -/
theorem given_masks_equivariant {sqrt : K → K} (hs : SqrtHom sqrt) {X : Ext K} (hX : ExtHom X) (m : Meta)
    (cfg : Config) (hmf : cfg.maskFunc = false) (hv : cfg.validG true true false = true)
    (mask acs : Val K) (c : K) (hc : 0 < c) (x : Val K) :
    ∃ out outc, runFrom (fieldOps sqrt) X m (build cfg) (givenStore x ⟨some mask, some acs, none⟩) = .ok out
      ∧ runFrom (fieldOps sqrt) X m (build cfg) (givenStore (scaleV c x) ⟨some mask, some acs, none⟩) = .ok outc
      ∧ (∀ k ∈ normalisedKeys, outc k = out k)
      ∧ (∃ sf, out .scalingFactor = some sf ∧ outc .scalingFactor = some (scaleV c sf))
      ∧ (∃ t, out .target = some t) := by
  rw [givenStore_scale]
  exact pipeline_equivariant_from hs hX m _ _ (agree_given x ⟨some mask, some acs, none⟩) cfg.ssl (build cfg)
    (givenA_degrees_ok cfg hmf hv) c hc

/-- **`given_map_equivariant`** (scenario B) — the dataset provides the sensitivity map (so SENSE targets are
possible without estimating maps); a mask function is configured. -/
theorem given_map_equivariant {sqrt : K → K} (hs : SqrtHom sqrt) {X : Ext K} (hX : ExtHom X) (m : Meta)
    (cfg : Config) (hmf : cfg.maskFunc = true) (hv : cfg.validG false false true = true)
    (smap : Val K) (c : K) (hc : 0 < c) (x : Val K) :
    ∃ out outc, runFrom (fieldOps sqrt) X m (build cfg) (givenStore x ⟨none, none, some smap⟩) = .ok out
      ∧ runFrom (fieldOps sqrt) X m (build cfg) (givenStore (scaleV c x) ⟨none, none, some smap⟩) = .ok outc
      ∧ (∀ k ∈ normalisedKeys, outc k = out k)
      ∧ (∃ sf, out .scalingFactor = some sf ∧ outc .scalingFactor = some (scaleV c sf))
      ∧ (∃ t, out .target = some t) := by
  rw [givenStore_scale]
  exact pipeline_equivariant_from hs hX m _ _ (agree_given x ⟨none, none, some smap⟩) cfg.ssl (build cfg)
    (givenB_degrees_ok cfg hmf hv) c hc

/-- the hypotheses are satisfiable: inference on pre-masked data without maps; SENSE with dataset maps and no
estimation -/
example : ({ maskFunc := false, estimateSmaps := false } : Config).validG true true false = true
    ∧ ({ recon := .sense, estimateSmaps := false } : Config).validG false false true = true := by decide

/-- a sample-provided sampling mask *without* the ACS mask makes the crop stage fail (`CropKspace` crops
`sample["acs_mask"]` whenever `sampling_mask` is present): rejected statically -/
theorem given_mask_without_acs_crop_rejected :
    degreesOkFrom (givenEnv true false false) false
      (build { maskFunc := false, estimateSmaps := false, crop := .tuple }) = false := by decide

/-! ## phase 3 — the `IndexError` branch of the percentile scaling -/

/-- `runE` refines `run`: when it completes, `run` completes with the same sample; when it fails with an error of
`run`, `run` fails with it; and a run that `run` completes is either completed by `runE` or hits the
`IndexError` of `torch.kthvalue` -/
theorem runE_refines_run (S : Ops K) (X : Ext K) (m : Meta) (l : List Stage) (x : Val K) :
    (∀ out, runE S X m l x = .ok out → run S X m l x = .ok out)
    ∧ (∀ e, runE S X m l x = .error (.base e) → run S X m l x = .error e)
    ∧ (∀ out, run S X m l x = .ok out → runE S X m l x = .ok out ∨ ∃ k, runE S X m l x = .error (.indexError k)) :=
  ⟨fun out h => execE_ok S X m _ _ out h, fun e h => execE_base S X m _ _ e h,
   fun out h => exec_ok_cases S X m _ _ out h⟩

/-- **`runE_equivariant`** — for any stage list that passes the static check: the refined run on `c·x` is the
refined run on `x` mapped through the scaling.  In particular the `IndexError` (the scaling tensor is identically
zero) is raised for `c·x` exactly when it is raised for `x`, for the same key; it is the *only* error a
well-typed pipeline has. -/
theorem runE_equivariant {sqrt : K → K} (hs : SqrtHom sqrt) {X : Ext K} (hX : ExtHom X) (m : Meta)
    (ssl : Bool) (l : List Stage) (hl : degreesOk ssl l = true) (c : K) (hc : 0 < c) (x : Val K) :
    ∃ e, typeProgram (program l) initEnv = .ok e
      ∧ runE (fieldOps sqrt) X m l (scaleV c x) = (runE (fieldOps sqrt) X m l x).map (scaleS c e)
      ∧ (∀ er, runE (fieldOps sqrt) X m l x = .error er → ∃ k, er = .indexError k) := by
  unfold degreesOk at hl
  cases ht : typeProgram (program l) initEnv with
  | error er => simp [ht] at hl
  | ok e =>
    refine ⟨e, rfl, ?_, ?_⟩
    · have : runE (fieldOps sqrt) X m l (scaleV c x) = execE (fieldOps sqrt) X m (program l) (rawStore (scaleV c x)) := rfl
      rw [this, rawStore_scale]
      exact execE_sound hs hX c hc m (program l) initEnv e (rawStore x) (agree_init x) ht
    · intro er her
      cases er with
      | indexError k => exact ⟨k, rfl⟩
      | base b =>
        exfalso
        have h1 := execE_base (fieldOps sqrt) X m _ _ b her
        obtain ⟨out, h2, _⟩ := exec_sound hs hX c hc m (program l) initEnv e (rawStore x) (agree_init x) ht
        have : exec (fieldOps sqrt) X m (program l) (rawStore x) = .error b := h1
        rw [h2] at this
        cases this

/-- the error branch is inhabited and is what the percentile does on an all-zero sample (a coil whose entries merely
*cancel* goes through since the repair of the coil test); with the maximum instead of the percentile the all-zero
sample goes through too (scaling factor 0, all outputs 0 by the safe division) -/
def intOps : Ops Int where
  zero := 0
  one := 1
  add := (· + ·)
  mul := (· * ·)
  div := (· / ·)
  neg := (- ·)
  lt := fun a b => decide (a < b)
  isZero := fun a => a == 0
  sqrt := fun a => (Nat.sqrt a.toNat : Int)
  ofNat := fun n => (n : Int)

def intExt : Ext Int where
  lin := fun _ _ v => v
  crop := fun _ _ v => v
  mask := fun _ _ _ _ _ len => List.replicate (len / 2) true
  split := fun input _ _ ms => (ms.headD []).map fun b => b && input
  eps := 0
  kOf := fun _ => 1
  padCoilsTo := 0
  espirit := fun v => v

example : isIndexError (runE intOps intExt ⟨[], []⟩ (build {}) ⟨1, 1, true, [0, 0, 0, 0]⟩) = true := by decide
example : isOk (runE intOps intExt ⟨[], []⟩ (build {}) ⟨1, 1, true, [3, -3, 4, -4]⟩) = true := by decide

/-- **`coil_selection_pinned_violates`** — the pinned (pre-repair) coil test `data[_].sum(...).bool()` drops a coil
whose entries cancel: for the one-coil sample `[3 − 3i, 4 − 4i]` nothing is left and `torch.kthvalue` raised
`IndexError` on a non-zero k-space; the repaired test `(data[_] != 0).any()` keeps the coil.  (With PadKspace and
un-centred operators the sum is *theoretically* zero, so float32 noise decided: repro in the evidence notes.) -/
theorem coil_selection_pinned_violates :
    (kthSelectionPinned intOps ⟨1, 1, true, [3, -3, 4, -4]⟩).isEmpty = true
    ∧ (kthSelection intOps ⟨1, 1, true, [3, -3, 4, -4]⟩).isEmpty = false := by decide
example : isOk (runE intOps intExt ⟨[], []⟩ (build { percentile := false }) ⟨1, 1, true, [0, 0, 0, 0]⟩) = true := by decide
example : isOk (runE intOps intExt ⟨[], []⟩ (build {}) ⟨1, 1, true, [3, 0, 0, 4]⟩) = true := by decide
example : isIndexError (runE intOps intExt ⟨[], []⟩ (buildPrePost {}) ⟨2, 1, true, [0, 0, 0, 0]⟩) = true := by decide

/-! ## phase 3 — the homogeneity of the externals as a theorem -/

/-- **`linear_externals_hom`** — externals that act on the flat data as matrices whose coefficients depend on the
operator, the metadata and the sizes only (a DFT in real/imaginary form, crop, zero pad, interpolating resize,
flip, rotation, Gaussian weighting) satisfy `ExtHom`: for them the hypothesis of the equivariance theorems holds. -/
theorem linear_externals_hom (sqrt : K → K) (L : LinearExt K) (X : Ext K) : ExtHom (L.toExt (fieldOps sqrt) X) :=
  linearExt_hom sqrt L X

/-- **`driver_externals_hom`** — the externals of the *executed* model (identity operators; C10's `centerCrop` lifted
along both spatial axes for k-space and for sample-provided masks) satisfy `ExtHom` -/
theorem driver_externals_hom (l : Driver.C08.Line) : ExtHom (Driver.C08.mkExt l) := driver_ext_hom l

/-- the driver's scalar operations are the field operations of `ℚ` with the driver's square root: the theorems
about `fieldOps` speak about the `def`s the driver runs -/
theorem driver_ops_eq : Driver.C08.ratOps = fieldOps Driver.C08.ratSqrt := by
  unfold Driver.C08.ratOps fieldOps
  congr 1

/-- hence, for the executed model, equivariance needs no assumption about the externals: for every line of the
protocol (every crop size, mask, table), every valid configuration and every square root with `SqrtHom` -/
theorem driver_build_equivariant {sqrt : Rat → Rat} (hs : SqrtHom sqrt) (l : Driver.C08.Line) (m : Meta)
    (cfg : Config) (hv : cfg.valid = true) (c : Rat) (hc : 0 < c) (x : Val Rat) :
    ∃ out outc, run (fieldOps sqrt) (Driver.C08.mkExt l) m (build cfg) x = .ok out
      ∧ run (fieldOps sqrt) (Driver.C08.mkExt l) m (build cfg) (scaleV c x) = .ok outc
      ∧ (∀ k ∈ normalisedKeys, outc k = out k)
      ∧ (∃ sf, out .scalingFactor = some sf ∧ outc .scalingFactor = some (scaleV c sf)) := by
  obtain ⟨out, outc, h1, h2, h3, h4, _⟩ := build_equivariant hs (driver_ext_hom l) m cfg hv c hc x
  exact ⟨out, outc, h1, h2, h3, h4⟩

end DirectVerif.C08
