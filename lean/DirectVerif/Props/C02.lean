import DirectVerif.Model.Complex
import DirectVerif.Lemmas.C02Tensor
import DirectVerif.Lemmas.C02Sums
import Mathlib.Data.Complex.Basic
import Mathlib.Data.Complex.BigOperators
import Mathlib.Data.Matrix.Mul
import Mathlib.Algebra.BigOperators.Group.List.Basic
import Mathlib.Algebra.BigOperators.Fin
/-!
# C02 — the real-pair complex helpers are native complex arithmetic; coil expand / reduce are linear,
mutually adjoint, and `reduce ∘ expand = id` for unit root-sum-of-squares maps

All statements are about the definitions of `Model/Complex.lean` (the ones the driver executes over
`Rat`), instantiated at `ℝ` and read in `ℂ` through `toC ⟨re, im⟩ = re + im·i`.

Layers: scalar helpers → fibre (list) level → matrices (abstract four-product formula **and** the row-list
`rmm` / `cmm` the driver runs) → coil operators for arbitrary finite index types (`expand`, `reduce`, `adjoint`,
`reduce_expand_id`) → **the flat row-major tensor operators themselves** (`expandOp_refines`, `reduceOp_refines`,
`adjoint_tensor`, `reduce_expand_id_tensor`, `expandOp_linear`, `reduceOp_linear`, `rssSqReal_eq_rssSqT_real`; index
arithmetic in `Lemmas/C02Tensor.lean`, sum re-indexing in `Lemmas/C02Sums.lean`) → what a well-formed row of the
translated call-site table means (`wf_site_axis`, `wf_inlineReduce_denotes`, `wf_inlineExpand_denotes`).

**Float-range note (`C02_float_range_note`).**  Every theorem below is over `ℝ` / `ℂ`, where the squares
`b₀² + b₁²`, `a₀² + a₁²` and the products `aᵢ bⱼ` always exist.  In float32 the *same formulas* leave
the representable range although operands and exact result are ordinary float32 numbers; on the
current tree (known findings, keys `float-range:<helper>:<class>` of `harness/props/c02.py`):

* `complex_division`: `1e20 / 1e20 = nan` (`overflow-nan`), `(3e19+4e19i) / 1e19 = 3 + inf·i`
  (`numerator-overflow-inf`), `1 / 1e20 = 0` (`divisor-square-overflow-zero`), `1e-30 / 1e-30 = 0`
  (`underflow-zero`: `b₀² + b₁²` underflows to 0 and `safe_divide` then treats `b` as zero — so
  `cdiv_eq` holds in `ℝ` for *every* `b ≠ 0`, in float32 only for `|b| ≳ 1e-19`), `1e-37 / 1e-9 = 0`
  (`numerator-underflow-zero`), `1e-37 / 1e-8 = 1.4e-29` (`underflow-inaccurate`, denormal numerator);
* `modulus`, `root_sum_of_squares`: `|3e19+4e19i| = inf`, `|3e-30+4e-30i| = 0`,
  `|3e-23+4e-23i| = 5.29e-23` (`overflow-inf`, `underflow-zero`, `underflow-inaccurate`) — so
  `modulus_sq_eq_normSq` / `rssSq_eq` describe the float32 code only while the squares stay in range.

`complex_multiplication`, `conjugate`, `complex_dot_product`, `complex_mm/bmm`, `expand_operator`,
`reduce_operator` show no such deviation (their float32 result is non-finite only when the exact
result is).  A range-safe division (Smith's algorithm) / `hypot`-style modulus would remove the
findings; no theorem here claims anything about float32 rounding, overflow or underflow.
-/
namespace DirectVerif.C02
open DirectVerif DirectVerif.Cx
open scoped BigOperators ComplexConjugate

/-- the pair stored on the last axis, read as a complex number -/
def toC (a : Cpx ℝ) : ℂ := ⟨a.re, a.im⟩
/-- a complex number stored as a pair -/
def ofC (z : ℂ) : Cpx ℝ := ⟨z.re, z.im⟩

@[simp] theorem toC_ofC (z : ℂ) : toC (ofC z) = z := rfl
@[simp] theorem ofC_toC (a : Cpx ℝ) : ofC (toC a) = a := rfl
theorem toC_injective : Function.Injective toC := fun a b h => by
  have := congrArg ofC h; simpa using this

/-! ## scalar helpers = native complex arithmetic -/

/-- `complex_multiplication` is complex multiplication -/
theorem cmul_eq (a b : Cpx ℝ) : toC (cmul a b) = toC a * toC b := by
  apply Complex.ext <;> simp [toC, cmul]

/-- `conjugate` is complex conjugation -/
theorem conj_eq (a : Cpx ℝ) : toC (Cx.conj a) = conj (toC a) := by
  apply Complex.ext <;> simp [toC, Cx.conj]

/-- `(data**2).sum(-1)` is `|z|²` (so `modulus = √normSq = ‖z‖`)
(over `ℝ`; float-range note: in float32 the square overflows for `|z| ≳ 1.8e19` and underflows for `|z| ≲ 1e-19`) -/
theorem modulus_sq_eq_normSq (a : Cpx ℝ) : modSq a = Complex.normSq (toC a) := by
  simp [modSq, toC, Complex.normSq_apply]

theorem cdivDen_eq_normSq (b : Cpx ℝ) : cdivDen b = Complex.normSq (toC b) := by
  simp [cdivDen, toC, Complex.normSq_apply]

/-- the numerators of `complex_division` are `a · conj b` -/
theorem cdivNum_eq (a b : Cpx ℝ) : toC (cdivNum a b) = toC a * conj (toC b) := by
  apply Complex.ext
  · simp [toC, cdivNum]
  · simp [toC, cdivNum]
    ring

/-- `complex_division` is complex division wherever the divisor is non-zero
(over `ℝ`; see the float-range note at the top: in float32 `cdivDen b` can be `0` or `inf` for `b ≠ 0`) -/
theorem cdiv_eq (a b : Cpx ℝ) (hb : toC b ≠ 0) : toC (cdiv a b) = toC a / toC b := by
  have hn : Complex.normSq (toC b) ≠ 0 := fun h => hb (Complex.normSq_eq_zero.mp h)
  have hd : cdivDen b ≠ 0 := by rw [cdivDen_eq_normSq]; exact hn
  apply Complex.ext
  · simp only [cdiv, safeDiv, if_neg hd, toC, Complex.div_re]
    simp only [cdivNum, cdivDen, Complex.normSq_apply]
    ring
  · simp only [cdiv, safeDiv, if_neg hd, toC, Complex.div_im]
    simp only [cdivNum, cdivDen, Complex.normSq_apply]
    ring

/-- … and yields zero where the divisor is zero (no NaN / inf) -/
theorem cdiv_zero (a b : Cpx ℝ) (hb : toC b = 0) : cdiv a b = ⟨0, 0⟩ := by
  have hd : cdivDen b = 0 := by rw [cdivDen_eq_normSq, hb]; simp
  simp [cdiv, safeDiv, hd]

/-- in `ℂ` the two cases agree with Mathlib's total division (`z / 0 = 0`) -/
theorem cdiv_eq_total (a b : Cpx ℝ) : toC (cdiv a b) = toC a / toC b := by
  by_cases hb : toC b = 0
  · rw [cdiv_zero a b hb, hb, div_zero]; rfl
  · exact cdiv_eq a b hb

/-! ## sums along a fibre -/

theorem toC_add (a b : Cpx ℝ) : toC (a + b) = toC a + toC b := by
  apply Complex.ext <;> rfl

theorem toC_zero : toC (0 : Cpx ℝ) = 0 := by apply Complex.ext <;> rfl

theorem toC_sum (xs : List (Cpx ℝ)) : toC xs.sum = (xs.map toC).sum := by
  induction xs with
  | nil => exact toC_zero
  | cons x xs ih => rw [List.sum_cons, toC_add, ih, List.map_cons, List.sum_cons]

/-- `complex_dot_product` is `Σ conj(aᵢ)·bᵢ` -/
theorem cdot_eq_inner (a b : List (Cpx ℝ)) :
    toC (cdot a b) = (List.zipWith (fun x y => conj (toC x) * toC y) a b).sum := by
  rw [cdot, toC_sum, List.map_zipWith]
  simp only [cmul_eq, conj_eq]

/-- `reduce_operator` at one pixel is the same sum with the sensitivities conjugated -/
theorem reduceFibre_eq (s y : List (Cpx ℝ)) :
    toC (reduceFibre s y) = (List.zipWith (fun si yi => conj (toC si) * toC yi) s y).sum :=
  cdot_eq_inner s y

/-- `expand_operator` at one pixel multiplies by every sensitivity -/
theorem expandFibre_eq (s : List (Cpx ℝ)) (x : Cpx ℝ) :
    (expandFibre s x).map toC = s.map fun si => toC si * toC x := by
  simp [expandFibre, cmul_eq]

/-- the square of `root_sum_of_squares` is `Σ |xᵢ|²` -/
theorem rssSq_eq (xs : List (Cpx ℝ)) : rssSq xs = (xs.map fun x => Complex.normSq (toC x)).sum := by
  simp only [rssSq]
  exact congrArg List.sum (List.map_congr_left fun x _ => modulus_sq_eq_normSq x)

/-! ## matrices -/

/-- **`complex_mm` / `complex_bmm`**: the four real products assemble the complex matrix product,
for every index type (so also batch-wise). -/
theorem cmm_eq_matrix_mul {l m n : Type} [Fintype m] (A : Matrix l m ℂ) (B : Matrix m n ℂ) :
    cmmWith (fun (X : Matrix l m ℝ) (Y : Matrix m n ℝ) => X * Y)
        (A.map Complex.re) (A.map Complex.im) (B.map Complex.re) (B.map Complex.im)
      = ((A * B).map Complex.re, (A * B).map Complex.im) := by
  ext i j <;>
    simp [cmmWith, Matrix.mul_apply, Complex.re_sum, Complex.im_sum, Finset.sum_sub_distrib, Finset.sum_add_distrib]

/-- `complex_bmm`: the same, batch-wise (a batch of matrices is a matrix-valued function) -/
theorem cbmm_eq {β l m n : Type} [Fintype m] (A : β → Matrix l m ℂ) (B : β → Matrix m n ℂ) :
    cmmWith (fun (X : β → Matrix l m ℝ) (Y : β → Matrix m n ℝ) => fun b => X b * Y b)
        (fun b => (A b).map Complex.re) (fun b => (A b).map Complex.im)
        (fun b => (B b).map Complex.re) (fun b => (B b).map Complex.im)
      = (fun b => ((A b) * (B b)).map Complex.re, fun b => ((A b) * (B b)).map Complex.im) := by
  have h := fun b => cmm_eq_matrix_mul (A b) (B b)
  simp only [cmmWith, Prod.mk.injEq] at h ⊢
  exact ⟨funext fun b => (h b).1, funext fun b => (h b).2⟩

/-! ### the row-list products the driver executes (`rmm`, `cmm`) are Mathlib's matrix products -/

/-- a matrix as the list of its rows (how the driver slices the flat data of an `(n, m)` tensor) -/
def rowsOf {α : Type} {n m : ℕ} (A : Matrix (Fin n) (Fin m) α) : List (List α) :=
  List.ofFn fun i => List.ofFn fun j => A i j

theorem rowsOf_map {α β : Type} {n m : ℕ} (A : Matrix (Fin n) (Fin m) α) (f : α → β) :
    (rowsOf A).map (·.map f) = rowsOf (A.map f) := by
  simp [rowsOf, List.map_ofFn, Function.comp_def]

theorem sum_zipWith_mul_ofFn {m : ℕ} (a b : Fin m → ℝ) :
    (List.zipWith (· * ·) (List.ofFn a) (List.ofFn b)).sum = ∑ k, a k * b k := by
  induction m with
  | zero => simp
  | succ m ih =>
    rw [List.ofFn_succ, List.ofFn_succ, List.zipWith_cons_cons, List.sum_cons, Fin.sum_univ_succ, ih]

theorem range_map_eq_ofFn {α : Type} (p : ℕ) (g : ℕ → α) : (List.range p).map g = List.ofFn fun j : Fin p => g j := by
  apply List.ext_getElem <;> simp

/-- **`torch.mm` as modelled (`rmm`) is the real matrix product**, all sizes incl. `1 × m`, `n × 1`, `m = 0` -/
theorem rmm_eq_matrix_mul {n m p : ℕ} (X : Matrix (Fin n) (Fin m) ℝ) (Y : Matrix (Fin m) (Fin p) ℝ) :
    rmm p (rowsOf X) (rowsOf Y) = rowsOf (X * Y) := by
  unfold rmm rowsOf
  rw [List.map_ofFn]
  congr 1
  funext i
  simp only [Function.comp]
  rw [range_map_eq_ofFn]
  congr 1
  funext j
  rw [List.map_ofFn]
  have : ((fun r : List ℝ => r.getD (j : ℕ) 0) ∘ fun k => List.ofFn fun j' => Y k j') = fun k => Y k j := by
    funext k
    simp [List.getD_eq_getElem?_getD]
  rw [this, sum_zipWith_mul_ofFn, Matrix.mul_apply]

theorem addM_rowsOf {n p : ℕ} (X Y : Matrix (Fin n) (Fin p) ℝ) : addM (rowsOf X) (rowsOf Y) = rowsOf (X + Y) := by
  unfold addM rowsOf
  apply List.ext_getElem
  · simp
  · intro i _ _
    simp only [List.getElem_zipWith, List.getElem_ofFn]
    apply List.ext_getElem <;> simp

theorem subM_rowsOf {n p : ℕ} (X Y : Matrix (Fin n) (Fin p) ℝ) : subM (rowsOf X) (rowsOf Y) = rowsOf (X - Y) := by
  unfold subM rowsOf
  apply List.ext_getElem
  · simp
  · intro i _ _
    simp only [List.getElem_zipWith, List.getElem_ofFn]
    apply List.ext_getElem <;> simp

/-- **`complex_mm` as the driver executes it (`cmm` on row lists of pairs) is the complex matrix product**, for every
`n × m` by `m × p` (incl. `1 × m`, `n × 1`, `m = 0`); `complex_bmm` applies it to every batch element. -/
theorem cmm_eq_matrix_mul_rows {n m p : ℕ} (A : Matrix (Fin n) (Fin m) ℂ) (B : Matrix (Fin m) (Fin p) ℂ) :
    cmm p (rowsOf (A.map ofC)) (rowsOf (B.map ofC)) = rowsOf ((A * B).map ofC) := by
  have h := cmm_eq_matrix_mul A B
  simp only [cmmWith, Prod.mk.injEq] at h
  unfold cmm cmmWith
  simp only [rowsOf_map, Matrix.map_map]
  have e1 : (Cpx.re ∘ ofC : ℂ → ℝ) = Complex.re := rfl
  have e2 : (Cpx.im ∘ ofC : ℂ → ℝ) = Complex.im := rfl
  simp only [e1, e2, rmm_eq_matrix_mul]
  show List.zipWith _ (subM _ _) (addM _ _) = _
  rw [subM_rowsOf, addM_rowsOf, h.1, h.2]
  unfold rowsOf
  apply List.ext_getElem
  · simp
  · intro i _ _
    simp only [List.getElem_zipWith, List.getElem_ofFn]
    apply List.ext_getElem <;> simp [ofC]

/-! ## coil expand / reduce for an arbitrary finite coil index type `ι` and pixel index type `P`

`expand` / `reduce` are *computed with the model's* `cmul` and `conj` (the functions the driver
executes); for `ι = Fin c` they are the fibre functions `expandFibre` / `reduceFibre` of the model
(`reduce_eq_reduceFibre`, `expand_eq_expandFibre`). -/
section Coil
variable {ι P : Type}

/-- `expand_operator`: coil `i`, pixel `p` ↦ `Sᵢ(p) · x(p)` -/
def expand (S : ι → P → ℂ) (x : P → ℂ) : ι → P → ℂ :=
  fun i p => toC (cmul (ofC (S i p)) (ofC (x p)))

/-- `reduce_operator`: pixel `p` ↦ `Σᵢ conj(Sᵢ(p)) · yᵢ(p)` -/
def reduce [Fintype ι] (S : ι → P → ℂ) (y : ι → P → ℂ) : P → ℂ :=
  fun p => ∑ i, toC (cmul (Cx.conj (ofC (S i p))) (ofC (y i p)))

theorem expand_apply (S : ι → P → ℂ) (x : P → ℂ) (i : ι) (p : P) : expand S x i p = S i p * x p := by
  simp [expand, cmul_eq]

theorem reduce_apply [Fintype ι] (S : ι → P → ℂ) (y : ι → P → ℂ) (p : P) :
    reduce S y p = ∑ i, conj (S i p) * y i p := by
  simp [reduce, cmul_eq, conj_eq]

/-- **expand is ℂ-linear** in the image -/
theorem expand_linear (S : ι → P → ℂ) (a : ℂ) (x x' : P → ℂ) :
    expand S (a • x + x') = a • expand S x + expand S x' := by
  funext i p
  simp only [expand_apply, Pi.add_apply, Pi.smul_apply, smul_eq_mul]
  ring

/-- **reduce is ℂ-linear** in the coil data -/
theorem reduce_linear [Fintype ι] (S : ι → P → ℂ) (a : ℂ) (y y' : ι → P → ℂ) :
    reduce S (a • y + y') = a • reduce S y + reduce S y' := by
  funext p
  simp only [reduce_apply, Pi.add_apply, Pi.smul_apply, smul_eq_mul, Finset.mul_sum, ← Finset.sum_add_distrib]
  exact Finset.sum_congr rfl fun i _ => by ring

/-- **adjointness** `⟪E_S x, y⟫ = ⟪x, R_S y⟫` (inner product `⟪u, v⟫ = Σ conj(u)·v` over coils × pixels,
resp. pixels) for arbitrary sensitivity maps, any finite coil and pixel index types. -/
theorem adjoint [Fintype ι] [Fintype P] (S : ι → P → ℂ) (x : P → ℂ) (y : ι → P → ℂ) :
    ∑ i, ∑ p, conj (expand S x i p) * y i p = ∑ p, conj (x p) * reduce S y p := by
  simp only [expand_apply, reduce_apply, Finset.mul_sum, map_mul]
  rw [Finset.sum_comm]
  exact Finset.sum_congr rfl fun p _ => Finset.sum_congr rfl fun i _ => by ring

/-- **reduce ∘ expand = id** whenever the maps have unit root-sum-of-squares at every pixel -/
theorem reduce_expand_id [Fintype ι] (S : ι → P → ℂ) (h : ∀ p, ∑ i, Complex.normSq (S i p) = 1) (x : P → ℂ) :
    reduce S (expand S x) = x := by
  funext p
  simp only [reduce_apply, expand_apply]
  have e : ∀ i, conj (S i p) * (S i p * x p) = ((Complex.normSq (S i p) : ℝ) : ℂ) * x p := fun i => by
    rw [← mul_assoc, mul_comm (conj (S i p)), Complex.mul_conj]
  simp only [e, ← Finset.sum_mul, ← Complex.ofReal_sum, h p, Complex.ofReal_one, one_mul]

/-- without the normalisation, `reduce ∘ expand` multiplies by `Σᵢ |Sᵢ|²` (= rss²) -/
theorem reduce_expand [Fintype ι] (S : ι → P → ℂ) (x : P → ℂ) (p : P) :
    reduce S (expand S x) p = ((∑ i, Complex.normSq (S i p) : ℝ) : ℂ) * x p := by
  simp only [reduce_apply, expand_apply]
  have e : ∀ i, conj (S i p) * (S i p * x p) = ((Complex.normSq (S i p) : ℝ) : ℂ) * x p := fun i => by
    rw [← mul_assoc, mul_comm (conj (S i p)), Complex.mul_conj]
  simp only [e, ← Finset.sum_mul, ← Complex.ofReal_sum]

end Coil

/-! ### the list (coil-axis fibre) functions of the model are the `Fin c` instance -/

theorem sum_zipWith_ofFn {α β : Type} (f : α → β → ℂ) :
    ∀ {c : ℕ} (a : Fin c → α) (b : Fin c → β),
      (List.zipWith f (List.ofFn a) (List.ofFn b)).sum = ∑ i, f (a i) (b i)
  | 0, _, _ => by simp
  | c + 1, a, b => by
    rw [List.ofFn_succ, List.ofFn_succ, List.zipWith_cons_cons, List.sum_cons, Fin.sum_univ_succ,
      sum_zipWith_ofFn f (fun i => a i.succ) (fun i => b i.succ)]

theorem reduce_eq_reduceFibre {P : Type} {c : ℕ} (S y : Fin c → P → ℂ) (p : P) :
    reduce S y p = toC (reduceFibre (List.ofFn fun i => ofC (S i p)) (List.ofFn fun i => ofC (y i p))) := by
  rw [reduceFibre_eq, sum_zipWith_ofFn, reduce_apply]
  simp

theorem expand_eq_expandFibre {P : Type} {c : ℕ} (S : Fin c → P → ℂ) (x : P → ℂ) (p : P) :
    (List.ofFn fun i => expand S x i p) = (expandFibre (List.ofFn fun i => ofC (S i p)) (ofC (x p))).map toC := by
  simp [expandFibre, expand, List.map_ofFn, Function.comp_def]

/-! ## the tensor-level operators the driver executes refine to `expand` / `reduce`

`expandOp` / `reduceOp` / `rssSqT` act on flat row-major `Tensor (Cpx ℝ)` with torch broadcasting, `unsqueeze`
and `alongAxis` sums, the coil axis at an arbitrary position `pre.length` of the shape `pre ++ [c] ++ post`.
Through the index views `coilFn` (entry `[o, j, i]` ↦ coil `j`, pixel `(o, i)`) and `pixFn` they **are** the
Finset-indexed `expand` / `reduce` above (`expandOp_refines`, `reduceOp_refines`, proved from the index-form
lemmas of `Lemmas/C02Tensor.lean`), so adjointness, `R ∘ E = id` and linearity hold for the tensors themselves:
the inner products are the model's own `cdot` on the flat data. -/
section TensorLevel
open DirectVerif.C02T DirectVerif.C02S DirectVerif.TensorLift

/-- coil data / sensitivity maps of shape `pre ++ [c] ++ post` (`Q = prod pre`, `P = prod post`) as a function of
coil `j` and pixel `(o, i)` -/
def coilFn (Q c P : ℕ) (t : Tensor (Cpx ℝ)) : Fin c → Fin Q × Fin P → ℂ :=
  fun j p => toC (t.data.getD (pos3 c P p.1 j p.2) default)

/-- an image of shape `pre ++ post` as a function of the pixel `(o, i)` -/
def pixFn (Q P : ℕ) (t : Tensor (Cpx ℝ)) : Fin Q × Fin P → ℂ :=
  fun p => toC (t.data.getD (p.1 * P + p.2) default)

/-- the hypotheses under which the driver calls the coil operators: image `x` of shape `pre ++ post`, coil-shaped
tensors of shape `pre ++ [c] ++ post`, `dim` naming the coil axis in either Python form -/
structure CoilAxis (pre post : List ℕ) (d : ℤ) : Prop where
  unsq : unsqAxis (pre.length + post.length) d = pre.length
  norm : normAxis (pre.length + 1 + post.length) d = pre.length

theorem CoilAxis.nonneg (pre post : List ℕ) : CoilAxis pre post (pre.length : ℤ) :=
  ⟨unsqAxis_nonneg _ _, normAxis_nonneg _ _⟩

theorem CoilAxis.neg (pre post : List ℕ) : CoilAxis pre post ((pre.length : ℤ) - ((pre.length + 1 + post.length : ℕ) : ℤ)) := by
  constructor
  · have e : ((pre.length : ℤ) - ((pre.length + 1 + post.length : ℕ) : ℤ)) =
        (pre.length : ℤ) - (((pre.length + post.length : ℕ) : ℤ) + 1) := by push_cast; ring
    rw [e]; exact unsqAxis_neg _ _ (by omega)
  · exact normAxis_neg _ _ (by omega)

variable {pre post : List ℕ} {c : ℕ} {d : ℤ}

/-- **refinement (expand)**: the tensor `expand_operator(x, S, d)` the driver computes, read through the index
view, is `expand` of the views -/
theorem expandOp_refines (x S : Tensor (Cpx ℝ)) (hx : x.shape = pre ++ post) (hS : S.shape = pre ++ [c] ++ post)
    (hd : CoilAxis pre post d) :
    coilFn (prod pre) c (prod post) (expandOp x S d) =
      expand (coilFn (prod pre) c (prod post) S) (pixFn (prod pre) (prod post) x) := by
  funext j p
  obtain ⟨_, _, h⟩ := expandOp_spec x S pre post c d hx hS hd.unsq
  simp only [coilFn, pixFn, expand, ofC_toC]
  rw [h p.1 j p.2 p.1.isLt j.isLt p.2.isLt]

theorem list_sum_fin {n : ℕ} (f : ℕ → ℂ) : ((List.range n).map f).sum = ∑ j : Fin n, f j := by
  rw [list_sum_range_map, Finset.sum_range]

/-- **refinement (reduce)**: likewise `reduce_operator(y, S, d)` is `reduce` of the views -/
theorem reduceOp_refines (y S : Tensor (Cpx ℝ)) (hy : y.shape = pre ++ [c] ++ post) (hS : S.shape = pre ++ [c] ++ post)
    (wy : y.data.length = prod y.shape) (wS : S.data.length = prod S.shape) (hd : CoilAxis pre post d) :
    pixFn (prod pre) (prod post) (reduceOp y S d) =
      reduce (coilFn (prod pre) c (prod post) S) (coilFn (prod pre) c (prod post) y) := by
  funext p
  obtain ⟨_, _, h⟩ := reduceOp_spec y S pre post c d hy hS wy wS hd.norm
  simp only [pixFn, reduce, coilFn, ofC_toC]
  rw [h p.1 p.2 p.1.isLt p.2.isLt, toC_sum, List.map_map]
  exact list_sum_fin (fun j => toC (cmul (Cx.conj (S.data.getD (pos3 c (prod post) p.1 j p.2) default))
    (y.data.getD (pos3 c (prod post) p.1 j p.2) default)))

/-- the square of `root_sum_of_squares(S, d)` the driver computes is `Σ_j |S_j|²` of the view -/
theorem rssSqT_refines (S : Tensor (Cpx ℝ)) (hS : S.shape = pre ++ [c] ++ post) (wS : S.data.length = prod S.shape)
    (hd : CoilAxis pre post d) (p : Fin (prod pre) × Fin (prod post)) :
    (rssSqT S d).data.getD (p.1 * prod post + p.2) default =
      ∑ j, Complex.normSq (coilFn (prod pre) c (prod post) S j p) := by
  obtain ⟨_, _, h⟩ := rssSqT_spec S pre post c d hS wS hd.norm
  rw [h p.1 p.2 p.1.isLt p.2.isLt, list_sum_range_map, Finset.sum_range]
  exact Finset.sum_congr rfl fun j _ => modulus_sq_eq_normSq _

/-! ### the model's `cdot` on flat data is the inner product over coils × pixels / over pixels -/

theorem cdot_flat (a b : List (Cpx ℝ)) (N : ℕ) (ha : a.length = N) (hb : b.length = N) :
    toC (cdot a b) = ∑ k ∈ Finset.range N, conj (toC (a.getD k default)) * toC (b.getD k default) := by
  rw [cdot_eq_inner, zipWith_eq_range_map _ a b default default N ha hb, list_sum_range_map]

theorem cdot_coil (a b : Tensor (Cpx ℝ)) (Q c P : ℕ) (ha : a.data.length = Q * (c * P)) (hb : b.data.length = Q * (c * P)) :
    toC (cdot a.data b.data) = ∑ j, ∑ p, conj (coilFn Q c P a j p) * coilFn Q c P b j p := by
  rw [cdot_flat _ _ _ ha hb, sum_range_pos3, Finset.sum_comm]
  simp only [Fintype.sum_prod_type, coilFn, pos3]
  rw [Finset.sum_range]
  refine Finset.sum_congr rfl fun j _ => ?_
  rw [Finset.sum_range]
  refine Finset.sum_congr rfl fun o _ => ?_
  rw [Finset.sum_range]

theorem cdot_pix (a b : Tensor (Cpx ℝ)) (Q P : ℕ) (ha : a.data.length = Q * P) (hb : b.data.length = Q * P) :
    toC (cdot a.data b.data) = ∑ p, conj (pixFn Q P a p) * pixFn Q P b p := by
  rw [cdot_flat _ _ _ ha hb, sum_range_mul]
  simp only [Fintype.sum_prod_type, pixFn]
  rw [Finset.sum_range]
  refine Finset.sum_congr rfl fun o _ => ?_
  rw [Finset.sum_range]

/-- **adjointness of the tensor-level operators**: `⟪expand_operator(x, S, d), y⟫ = ⟪x, reduce_operator(y, S, d)⟫`
with both inner products computed by the model's `cdot` (= `complex_dot_product` over all axes) on the flat
row-major data — arbitrary sensitivity maps, every shape `pre ++ [c] ++ post`, either Python form of `d`. -/
theorem adjoint_tensor (x y S : Tensor (Cpx ℝ)) (hx : x.shape = pre ++ post) (hy : y.shape = pre ++ [c] ++ post)
    (hS : S.shape = pre ++ [c] ++ post) (wx : x.data.length = prod x.shape) (wy : y.data.length = prod y.shape)
    (wS : S.data.length = prod S.shape) (hd : CoilAxis pre post d) :
    cdot (expandOp x S d).data y.data = cdot x.data (reduceOp y S d).data := by
  apply toC_injective
  have hE := (expandOp_spec x S pre post c d hx hS hd.unsq).2.1
  have hR := (reduceOp_spec y S pre post c d hy hS wy wS hd.norm).2.1
  rw [cdot_coil _ _ (prod pre) c (prod post) hE (by rw [wy, hy, prod3]),
    cdot_pix _ _ (prod pre) (prod post) (by rw [wx, hx, prod_append]) hR,
    expandOp_refines x S hx hS hd, reduceOp_refines y S hy hS wy wS hd]
  exact adjoint _ _ _

/-- the `rss` op of the driver on the real layout `(…, 2)` is `rssSqT` of the complex view (over `ℝ`), so
`rssSqT_refines` / `reduce_expand_id_tensor` speak about `root_sum_of_squares` as it is executed -/
theorem rssSqReal_eq_rssSqT_real (t : Tensor ℝ) (z : Tensor (Cpx ℝ)) (h : viewAsComplex t = some z)
    (w : t.data.length = prod t.shape) (dim : ℤ) : rssSqReal t dim (-1) = rssSqT z dim :=
  C02T.rssSqReal_eq_rssSqT t z h w add_zero dim

/-- … and `modulus(data)²` on the real layout is `|z|²` entrywise -/
theorem modSqAxis_last_real (t : Tensor ℝ) (z : Tensor (Cpx ℝ)) (h : viewAsComplex t = some z)
    (w : t.data.length = prod t.shape) : modSqAxis t (-1) = ⟨z.shape, z.data.map fun a => Complex.normSq (toC a)⟩ := by
  rw [C02T.modSqAxis_last t z h w add_zero]
  have : (modSq : Cpx ℝ → ℝ) = fun a => Complex.normSq (toC a) := funext modulus_sq_eq_normSq
  simp only [modSqT, mapT, this]

/-! ### a well-formed tensor is determined by its view -/

theorem pix_ext (t t' : Tensor (Cpx ℝ)) (Q P : ℕ) (hs : t.shape = t'.shape) (l : t.data.length = Q * P)
    (l' : t'.data.length = Q * P) (hv : pixFn Q P t = pixFn Q P t') : t = t' := by
  obtain ⟨s, D⟩ := t
  obtain ⟨s', D'⟩ := t'
  simp only at hs l l'
  subst hs
  congr 1
  apply ext_getD _ _ default (by rw [l, l'])
  intro k hk
  rw [l] at hk
  have hP : 0 < P := Nat.pos_of_ne_zero fun h => by subst h; simp at hk
  have hq : k / P < Q := Nat.div_lt_of_lt_mul (by rwa [Nat.mul_comm] at hk)
  have := congrFun hv (⟨k / P, hq⟩, ⟨k % P, Nat.mod_lt _ hP⟩)
  simp only [pixFn, Nat.div_add_mod'] at this
  exact toC_injective this

theorem coil_ext (t t' : Tensor (Cpx ℝ)) (Q c P : ℕ) (hs : t.shape = t'.shape) (l : t.data.length = Q * (c * P))
    (l' : t'.data.length = Q * (c * P)) (hv : coilFn Q c P t = coilFn Q c P t') : t = t' := by
  obtain ⟨s, D⟩ := t
  obtain ⟨s', D'⟩ := t'
  simp only at hs l l'
  subst hs
  congr 1
  apply ext_getD _ _ default (by rw [l, l'])
  intro k hk
  rw [l] at hk
  obtain ⟨o, j, i, ho, hj, hi, rfl⟩ := idx3_decomp k Q c P hk
  have := congrFun (congrFun hv ⟨j, hj⟩) (⟨o, ho⟩, ⟨i, hi⟩)
  simp only [coilFn, pos3] at this
  exact toC_injective this

/-- **`reduce_operator(expand_operator(x, S, d), S, d) = x`** — as tensors (shape and data) — whenever the square of
`root_sum_of_squares(S, d)` the driver computes is `1` at every pixel -/
theorem reduce_expand_id_tensor (x S : Tensor (Cpx ℝ)) (hx : x.shape = pre ++ post) (hS : S.shape = pre ++ [c] ++ post)
    (wx : x.data.length = prod x.shape) (wS : S.data.length = prod S.shape) (hd : CoilAxis pre post d)
    (hU : ∀ o i, o < prod pre → i < prod post → (rssSqT S d).data.getD (o * prod post + i) default = 1) :
    reduceOp (expandOp x S d) S d = x := by
  obtain ⟨hEs, hEl, _⟩ := expandOp_spec x S pre post c d hx hS hd.unsq
  have wE : (expandOp x S d).data.length = prod (expandOp x S d).shape := by rw [hEl, hEs, prod3]
  obtain ⟨hRs, hRl, _⟩ := reduceOp_spec (expandOp x S d) S pre post c d hEs hS wE wS hd.norm
  apply pix_ext _ _ (prod pre) (prod post) (by rw [hRs, hx]) hRl (by rw [wx, hx, prod_append])
  rw [reduceOp_refines _ S hEs hS wE wS hd, expandOp_refines x S hx hS hd]
  apply reduce_expand_id
  intro p
  rw [← rssSqT_refines S hS wS hd p]
  exact hU p.1 p.2 p.1.isLt p.2.isLt

/-- `a·x + x'` on tensors, with the model's `cmul` and `+` -/
def axpy (a : Cpx ℝ) (x x' : Tensor (Cpx ℝ)) : Tensor (Cpx ℝ) :=
  ⟨x.shape, List.zipWith (fun u v => cmul a u + v) x.data x'.data⟩

theorem axpy_getD (a : Cpx ℝ) (x x' : Tensor (Cpx ℝ)) (N k : ℕ) (l : x.data.length = N) (l' : x'.data.length = N) (hk : k < N) :
    toC ((axpy a x x').data.getD k default) = toC a * toC (x.data.getD k default) + toC (x'.data.getD k default) := by
  simp only [axpy]
  rw [zipWith_eq_range_map _ _ _ default default N l l']
  simp [List.getD_eq_getElem?_getD, List.getElem?_range hk, toC_add, cmul_eq]

theorem pixFn_axpy (a : Cpx ℝ) (x x' : Tensor (Cpx ℝ)) (Q P : ℕ) (l : x.data.length = Q * P) (l' : x'.data.length = Q * P) :
    pixFn Q P (axpy a x x') = toC a • pixFn Q P x + pixFn Q P x' := by
  funext p
  simp only [pixFn, Pi.add_apply, Pi.smul_apply, smul_eq_mul]
  exact axpy_getD a x x' _ _ l l' (idx2_lt _ _ _ _ p.1.isLt p.2.isLt)

theorem coilFn_axpy (a : Cpx ℝ) (y y' : Tensor (Cpx ℝ)) (Q c P : ℕ) (l : y.data.length = Q * (c * P))
    (l' : y'.data.length = Q * (c * P)) :
    coilFn Q c P (axpy a y y') = toC a • coilFn Q c P y + coilFn Q c P y' := by
  funext j p
  simp only [coilFn, Pi.add_apply, Pi.smul_apply, smul_eq_mul]
  exact axpy_getD a y y' _ _ l l' (pos3_lt _ _ _ _ _ _ p.1.isLt j.isLt p.2.isLt)

/-- **`expand_operator` is ℂ-linear in the image, at tensor level**: `E(a·x + x') = a·E(x) + E(x')` -/
theorem expandOp_linear (a : Cpx ℝ) (x x' S : Tensor (Cpx ℝ)) (hx : x.shape = pre ++ post) (hx' : x'.shape = pre ++ post)
    (hS : S.shape = pre ++ [c] ++ post) (wx : x.data.length = prod x.shape) (wx' : x'.data.length = prod x'.shape)
    (hd : CoilAxis pre post d) :
    expandOp (axpy a x x') S d = axpy a (expandOp x S d) (expandOp x' S d) := by
  have lx : x.data.length = prod pre * prod post := by rw [wx, hx, prod_append]
  have lx' : x'.data.length = prod pre * prod post := by rw [wx', hx', prod_append]
  obtain ⟨s1, l1, _⟩ := expandOp_spec (axpy a x x') S pre post c d hx hS hd.unsq
  obtain ⟨s2, l2, _⟩ := expandOp_spec x S pre post c d hx hS hd.unsq
  obtain ⟨s3, l3, _⟩ := expandOp_spec x' S pre post c d hx' hS hd.unsq
  apply coil_ext _ _ (prod pre) c (prod post) (by rw [s1]; exact s2.symm) l1 (by simp [axpy, l2, l3])
  rw [expandOp_refines _ S (show (axpy a x x').shape = pre ++ post from hx) hS hd, pixFn_axpy a x x' _ _ lx lx',
    expand_linear, coilFn_axpy a _ _ _ _ _ l2 l3, expandOp_refines x S hx hS hd, expandOp_refines x' S hx' hS hd]

/-- **`reduce_operator` is ℂ-linear in the coil data, at tensor level**: `R(a·y + y') = a·R(y) + R(y')` -/
theorem reduceOp_linear (a : Cpx ℝ) (y y' S : Tensor (Cpx ℝ)) (hy : y.shape = pre ++ [c] ++ post)
    (hy' : y'.shape = pre ++ [c] ++ post) (hS : S.shape = pre ++ [c] ++ post) (wy : y.data.length = prod y.shape)
    (wy' : y'.data.length = prod y'.shape) (wS : S.data.length = prod S.shape) (hd : CoilAxis pre post d) :
    reduceOp (axpy a y y') S d = axpy a (reduceOp y S d) (reduceOp y' S d) := by
  have ly : y.data.length = prod pre * (c * prod post) := by rw [wy, hy, prod3]
  have ly' : y'.data.length = prod pre * (c * prod post) := by rw [wy', hy', prod3]
  have wA : (axpy a y y').data.length = prod (axpy a y y').shape := by
    show (List.zipWith _ y.data y'.data).length = prod y.shape
    rw [List.length_zipWith, ly, ly', hy, prod3, Nat.min_self]
  obtain ⟨s1, l1, _⟩ := reduceOp_spec (axpy a y y') S pre post c d hy hS wA wS hd.norm
  obtain ⟨s2, l2, _⟩ := reduceOp_spec y S pre post c d hy hS wy wS hd.norm
  obtain ⟨s3, l3, _⟩ := reduceOp_spec y' S pre post c d hy' hS wy' wS hd.norm
  apply pix_ext _ _ (prod pre) (prod post) (by rw [s1]; exact s2.symm) l1 (by simp [axpy, l2, l3])
  rw [reduceOp_refines _ S (show (axpy a y y').shape = pre ++ [c] ++ post from hy) hS wA wS hd, coilFn_axpy a y y' _ _ _ ly ly',
    reduce_linear, pixFn_axpy a _ _ _ _ l2 l3, reduceOp_refines y S hy hS wy wS hd, reduceOp_refines y' S hy' hS wy' wS hd]

end TensorLevel

/-! ### non-vacuity -/

/-- a unit-RSS pair of maps on one pixel: `S = (3/5, 4/5 i)` -/
example : ∑ i : Fin 2, Complex.normSq ((![(3 / 5 : ℂ), (4 / 5 : ℂ) * Complex.I] : Fin 2 → ℂ) i) = 1 := by
  simp [Fin.sum_univ_succ]; norm_num
example : cmul (⟨1, 2⟩ : Cpx Int) ⟨3, 4⟩ = ⟨-5, 10⟩ := by decide
example : Cx.conj (⟨1, 2⟩ : Cpx Int) = ⟨1, -2⟩ := by decide
example : cdiv (⟨1, 2⟩ : Cpx ℝ) ⟨0, 0⟩ = ⟨0, 0⟩ := cdiv_zero _ _ rfl
example : cdiv (⟨-5, 10⟩ : Cpx ℝ) ⟨3, 4⟩ = ⟨1, 2⟩ := by
  simp [cdiv, safeDiv, cdivNum, cdivDen]; norm_num
example : reduceFibre [(⟨0, 1⟩ : Cpx Int), ⟨1, 0⟩] (expandFibre [⟨0, 1⟩, ⟨1, 0⟩] ⟨2, 3⟩) = ⟨4, 6⟩ := by decide
example : toC ⟨3, 4⟩ ≠ 0 := by simp [toC, Complex.ext_iff]


/-! ## call-site table: what a well-formed row means (for **every** table; `Bridge/C02.coil_sites_wf` decides the
generated one) -/
section Sites

theorem isCoil_axis (s : CoilSite) (coil : Int) (h : s.dim.isCoil s.declared = true)
    (hdecl : s.declared = none ∨ s.declared = some coil) : s.axis coil = coil := by
  unfold CoilSite.axis
  unfold DimForm.isCoil at h
  split <;> simp_all

/-- a well-formed site operates along the coil axis of its class -/
theorem wf_site_axis (s : CoilSite) (coil : Int) (h : s.wf = true) (hk : s.kind ≠ .conjProduct)
    (hdecl : s.declared = none ∨ s.declared = some coil) : s.axis coil = coil := by
  apply isCoil_axis s coil _ hdecl
  unfold CoilSite.wf at h
  split at h <;> simp_all

variable {R : Type} [Add R] [Sub R] [Mul R] [Neg R] [Zero R] [Inhabited R]

/-- a well-formed inline reduce site **is** `reduce_operator` along the coil axis -/
theorem wf_inlineReduce_denotes (s : CoilSite) (S y : Tensor (Cpx R)) (coil : Int) (h : s.wf = true)
    (hk : s.kind = .inlineReduce) (hdecl : s.declared = none ∨ s.declared = some coil) :
    s.denote S y coil = some (reduceOp y S coil) := by
  have hax := wf_site_axis s coil h (by rw [hk]; decide) hdecl
  unfold CoilSite.wf at h
  rw [hk] at h
  simp only [Bool.and_eq_true] at h
  unfold CoilSite.denote
  simp only [hk, h.1.2, hax, if_true]
  rfl

/-- a well-formed inline expand site **is** `expand_operator` along the coil axis -/
theorem wf_inlineExpand_denotes (s : CoilSite) (S x : Tensor (Cpx R)) (coil : Int) (h : s.wf = true)
    (hk : s.kind = .inlineExpand) (hdecl : s.declared = none ∨ s.declared = some coil) :
    s.denote S x coil = some (expandOp x S coil) := by
  have hax := wf_site_axis s coil h (by rw [hk]; decide) hdecl
  unfold CoilSite.wf at h
  rw [hk] at h
  simp only [Bool.and_eq_true, Bool.not_eq_true'] at h
  unfold CoilSite.denote
  simp only [hk, h.2, hax]
  rfl

/-- … whereas conjugating the data instead of the sensitivity map is a different map (one coil, one pixel) -/
theorem inline_conj_on_data_differs :
    ∃ s y : List (Cpx Int), (List.zipWith (fun si yi => cmul si (Cx.conj yi)) s y).sum ≠ reduceFibre s y :=
  ⟨[⟨0, 1⟩], [⟨1, 0⟩], by decide⟩

example : (⟨"f.py", "C.forward", .inlineReduce, .attr "_coil_dim", .omitted, some 1, "sensitivity_map", "", "y"⟩ : CoilSite).wf = true := by decide
example : (⟨"f.py", "C.forward", .inlineReduce, .attr "_coil_dim", .omitted, some 1, "y", "", "sensitivity_map"⟩ : CoilSite).wf = false := by decide
example : (⟨"f.py", "C.forward", .reduceCall, .lit 2, .omitted, some 1, "", "", ""⟩ : CoilSite).wf = false := by decide

end Sites

/-! ## call histories: the modelled operators are functions of their arguments

`Bridge/C02.helper_state_uses_none` decides that the real helpers keep no state between calls; the model of a call history
is therefore the list of the individual results, and the result of a call does not depend on what was called before. -/
section History
variable {R : Type} [Add R] [Sub R] [Mul R] [Neg R] [Zero R] [Inhabited R]

/-- one call of a coil / complex helper -/
inductive CoilCall (R : Type) where
  | expand (x S : Tensor (Cpx R)) (d : Int)
  | reduce (y S : Tensor (Cpx R)) (d : Int)
  | conj (a : Tensor (Cpx R))
  | cmul (a b : Tensor (Cpx R))

def CoilCall.eval : CoilCall R → Tensor (Cpx R)
  | .expand x S d => expandOp x S d
  | .reduce y S d => reduceOp y S d
  | .conj a => conjT a
  | .cmul a b => cmulT a b

/-- the results of a history of calls -/
def runHistory (h : List (CoilCall R)) : List (Tensor (Cpx R)) := h.map CoilCall.eval

/-- **history independence**: the result of the last call is the same after any two histories -/
theorem history_independent (h h' : List (CoilCall R)) (c : CoilCall R) :
    (runHistory (h ++ [c])).getLast? = (runHistory (h' ++ [c])).getLast? := by
  simp [runHistory]

/-- … in particular `reduce_operator` after any history is `reduceOp` of its own arguments (so `adjoint_tensor` /
`reduce_expand_id_tensor` apply at every step of a history) -/
theorem reduce_after_history (h : List (CoilCall R)) (y S : Tensor (Cpx R)) (d : Int) :
    (runHistory (h ++ [.reduce y S d])).getLast? = some (reduceOp y S d) := by
  simp [runHistory, CoilCall.eval]

example : (runHistory [CoilCall.conj (⟨[1], [⟨1, 2⟩]⟩ : Tensor (Cpx Int)), .conj ⟨[1], [⟨3, 4⟩]⟩]).getLast? =
    some ⟨[1], [⟨3, -4⟩]⟩ := by decide

end History

/-! ## size uniformity

`reduceOp_spec` / `expandOp_spec` hold for **every** coil count with one formula.  An accumulation over complete groups of
`g` coils only (`range(0, c - g + 1, g)`) agrees with it when `g ∣ c` and drops the last `c % g` coils otherwise. -/
section Groups

/-- `reduce` at one pixel accumulated over the complete groups of `g` coils only -/
def reduceFibreGroups {R : Type} [Add R] [Sub R] [Mul R] [Neg R] [Zero R] (g : ℕ) (s y : List (Cpx R)) : Cpx R :=
  ((List.range (s.length / g)).map fun k => reduceFibre ((s.drop (k * g)).take g) ((y.drop (k * g)).take g)).sum

/-- three coils in groups of two: the third coil is dropped -/
theorem grouped_reduce_drops_tail :
    ∃ s y : List (Cpx Int), reduceFibreGroups 2 s y ≠ reduceFibre s y :=
  ⟨[⟨1, 0⟩, ⟨1, 0⟩, ⟨1, 0⟩], [⟨1, 0⟩, ⟨1, 0⟩, ⟨1, 0⟩], by decide⟩

example : reduceFibreGroups 2 [(⟨1, 0⟩ : Cpx Int), ⟨0, 1⟩, ⟨1, 1⟩, ⟨2, 0⟩] [⟨1, 0⟩, ⟨1, 0⟩, ⟨1, 0⟩, ⟨1, 0⟩] =
    reduceFibre [⟨1, 0⟩, ⟨0, 1⟩, ⟨1, 1⟩, ⟨2, 0⟩] [⟨1, 0⟩, ⟨1, 0⟩, ⟨1, 0⟩, ⟨1, 0⟩] := by decide

end Groups

/-! ### non-vacuity of the tensor-level statements -/
open DirectVerif.C02T in
example : CoilAxis [2] [3] 1 := CoilAxis.nonneg [2] [3]
example : CoilAxis [2] [3] (-2) := by simpa using CoilAxis.neg [2] [3]
/-- hypotheses of `reduce_expand_id_tensor` / `adjoint_tensor` are satisfiable: one coil, `S = i`, `x = 2 + 3i` -/
example : reduceOp (expandOp (⟨[], [⟨2, 3⟩]⟩ : Tensor (Cpx ℝ)) ⟨[1], [⟨0, 1⟩]⟩ 0) ⟨[1], [⟨0, 1⟩]⟩ 0 = ⟨[], [⟨2, 3⟩]⟩ := by
  apply reduce_expand_id_tensor (pre := []) (post := []) (c := 1) (d := 0) _ _ rfl rfl rfl rfl ⟨by decide, by decide⟩
  intro o i ho hi
  rw [(C02T.rssSqT_spec _ [] [] 1 0 rfl rfl (by decide)).2.2 o i ho hi]
  have ho : o = 0 := by simpa [TensorLift.prod_nil] using ho
  have hi : i = 0 := by simpa [TensorLift.prod_nil] using hi
  subst ho hi
  simp [C02T.pos3, modSq, TensorLift.prod_nil]
example : rowsOf (Matrix.of ![![(1 : ℝ), 2], ![3, 4]]) = [[1, 2], [3, 4]] := by simp [rowsOf, List.ofFn_succ]
example : viewAsComplex (viewAsReal (⟨[1], [⟨1, 2⟩]⟩ : Tensor (Cpx Int))) = some ⟨[1], [⟨1, 2⟩]⟩ := by decide

end DirectVerif.C02
