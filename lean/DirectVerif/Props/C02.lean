import DirectVerif.Model.Complex
import Mathlib.Data.Complex.Basic
import Mathlib.Data.Complex.BigOperators
import Mathlib.Data.Matrix.Mul
import Mathlib.Algebra.BigOperators.Group.List.Basic
import Mathlib.Algebra.BigOperators.Fin
/-!
# C02 — the real-pair complex helpers are native complex arithmetic; coil expand / reduce are linear,
mutually adjoint, and `reduce ∘ expand = id` for unit root-sum-of-squares maps

All statements are about the definitions of `Model/Complex.lean` (the ones the driver executes over
`Rat`), instantiated at `ℝ` and read in `ℂ` through `toC ⟨re, im⟩ = re + im·i`.

**Float-range note (`C02_float_range_note`).**  Every theorem below is over `ℝ` / `ℂ`, where the squares
`b₀² + b₁²`, `a₀² + a₁²` and the products `aᵢ bⱼ` always exist.  In float32 the *same formulas* leave
the representable range although operands and exact result are ordinary float32 numbers; on the
current tree (known findings, keys `float-range:<helper>:<class>` of `harness/props/c02.py`):

* `complex_division`: `1e20 / 1e20 = nan` (`overflow-nan`), `(3e19+4e19i) / 1e19 = 3 + inf·i`
  (`numerator-overflow-inf`), `1 / 1e20 = 0` (`divisor-square-overflow-zero`), `1e-30 / 1e-30 = 0`
  (`underflow-zero`: `b₀² + b₁²` underflows to 0 and `safe_divide` then treats `b` as zero — so
  `cdiv_eq` holds in `ℝ` for *every* `b ≠ 0`, in float32 only for `|b| ≳ 1e-19`), `1e-37 / 1e-9 = 0`
  (`numerator-underflow-zero`), `1e-37 / 1e-8 = 1.4e-29` (`underflow-inaccurate`, denormal numerator);
* `modulus`, `root_sum_of_squares`: `|3e19+4e19i| = inf`, `|3e-30+4e-30i| = 0`,
  `|3e-23+4e-23i| = 5.29e-23` (`overflow-inf`, `underflow-zero`, `underflow-inaccurate`) — so
  `modulus_sq_eq_normSq` / `rssSq_eq` describe the float32 code only while the squares stay in range.

`complex_multiplication`, `conjugate`, `complex_dot_product`, `complex_mm/bmm`, `expand_operator`,
`reduce_operator` show no such deviation (their float32 result is non-finite only when the exact
result is).  A range-safe division (Smith's algorithm) / `hypot`-style modulus would remove the
findings; no theorem here claims anything about float32 rounding, overflow or underflow.
-/
namespace DirectVerif.C02
open DirectVerif DirectVerif.Cx
open scoped BigOperators ComplexConjugate

/-- the pair stored on the last axis, read as a complex number -/
def toC (a : Cpx ℝ) : ℂ := ⟨a.re, a.im⟩
/-- a complex number stored as a pair -/
def ofC (z : ℂ) : Cpx ℝ := ⟨z.re, z.im⟩

@[simp] theorem toC_ofC (z : ℂ) : toC (ofC z) = z := rfl
@[simp] theorem ofC_toC (a : Cpx ℝ) : ofC (toC a) = a := rfl
theorem toC_injective : Function.Injective toC := fun a b h => by
  have := congrArg ofC h; simpa using this

/-! ## scalar helpers = native complex arithmetic -/

/-- `complex_multiplication` is complex multiplication -/
theorem cmul_eq (a b : Cpx ℝ) : toC (cmul a b) = toC a * toC b := by
  apply Complex.ext <;> simp [toC, cmul]

/-- `conjugate` is complex conjugation -/
theorem conj_eq (a : Cpx ℝ) : toC (Cx.conj a) = conj (toC a) := by
  apply Complex.ext <;> simp [toC, Cx.conj]

/-- `(data**2).sum(-1)` is `|z|²` (so `modulus = √normSq = ‖z‖`)
(over `ℝ`; float-range note: in float32 the square overflows for `|z| ≳ 1.8e19` and underflows for `|z| ≲ 1e-19`) -/
theorem modulus_sq_eq_normSq (a : Cpx ℝ) : modSq a = Complex.normSq (toC a) := by
  simp [modSq, toC, Complex.normSq_apply]

theorem cdivDen_eq_normSq (b : Cpx ℝ) : cdivDen b = Complex.normSq (toC b) := by
  simp [cdivDen, toC, Complex.normSq_apply]

/-- the numerators of `complex_division` are `a · conj b` -/
theorem cdivNum_eq (a b : Cpx ℝ) : toC (cdivNum a b) = toC a * conj (toC b) := by
  apply Complex.ext
  · simp [toC, cdivNum]
  · simp [toC, cdivNum]
    ring

/-- `complex_division` is complex division wherever the divisor is non-zero
(over `ℝ`; see the float-range note at the top: in float32 `cdivDen b` can be `0` or `inf` for `b ≠ 0`) -/
theorem cdiv_eq (a b : Cpx ℝ) (hb : toC b ≠ 0) : toC (cdiv a b) = toC a / toC b := by
  have hn : Complex.normSq (toC b) ≠ 0 := fun h => hb (Complex.normSq_eq_zero.mp h)
  have hd : cdivDen b ≠ 0 := by rw [cdivDen_eq_normSq]; exact hn
  apply Complex.ext
  · simp only [cdiv, safeDiv, if_neg hd, toC, Complex.div_re]
    simp only [cdivNum, cdivDen, Complex.normSq_apply]
    ring
  · simp only [cdiv, safeDiv, if_neg hd, toC, Complex.div_im]
    simp only [cdivNum, cdivDen, Complex.normSq_apply]
    ring

/-- … and yields zero where the divisor is zero (no NaN / inf) -/
theorem cdiv_zero (a b : Cpx ℝ) (hb : toC b = 0) : cdiv a b = ⟨0, 0⟩ := by
  have hd : cdivDen b = 0 := by rw [cdivDen_eq_normSq, hb]; simp
  simp [cdiv, safeDiv, hd]

/-- in `ℂ` the two cases agree with Mathlib's total division (`z / 0 = 0`) -/
theorem cdiv_eq_total (a b : Cpx ℝ) : toC (cdiv a b) = toC a / toC b := by
  by_cases hb : toC b = 0
  · rw [cdiv_zero a b hb, hb, div_zero]; rfl
  · exact cdiv_eq a b hb

/-! ## sums along a fibre -/

theorem toC_add (a b : Cpx ℝ) : toC (a + b) = toC a + toC b := by
  apply Complex.ext <;> rfl

theorem toC_zero : toC (0 : Cpx ℝ) = 0 := by apply Complex.ext <;> rfl

theorem toC_sum (xs : List (Cpx ℝ)) : toC xs.sum = (xs.map toC).sum := by
  induction xs with
  | nil => exact toC_zero
  | cons x xs ih => rw [List.sum_cons, toC_add, ih, List.map_cons, List.sum_cons]

/-- `complex_dot_product` is `Σ conj(aᵢ)·bᵢ` -/
theorem cdot_eq_inner (a b : List (Cpx ℝ)) :
    toC (cdot a b) = (List.zipWith (fun x y => conj (toC x) * toC y) a b).sum := by
  rw [cdot, toC_sum, List.map_zipWith]
  simp only [cmul_eq, conj_eq]

/-- `reduce_operator` at one pixel is the same sum with the sensitivities conjugated -/
theorem reduceFibre_eq (s y : List (Cpx ℝ)) :
    toC (reduceFibre s y) = (List.zipWith (fun si yi => conj (toC si) * toC yi) s y).sum :=
  cdot_eq_inner s y

/-- `expand_operator` at one pixel multiplies by every sensitivity -/
theorem expandFibre_eq (s : List (Cpx ℝ)) (x : Cpx ℝ) :
    (expandFibre s x).map toC = s.map fun si => toC si * toC x := by
  simp [expandFibre, cmul_eq]

/-- the square of `root_sum_of_squares` is `Σ |xᵢ|²` -/
theorem rssSq_eq (xs : List (Cpx ℝ)) : rssSq xs = (xs.map fun x => Complex.normSq (toC x)).sum := by
  simp only [rssSq]
  exact congrArg List.sum (List.map_congr_left fun x _ => modulus_sq_eq_normSq x)

/-! ## matrices -/

/-- **`complex_mm` / `complex_bmm`**: the four real products assemble the complex matrix product,
for every index type (so also batch-wise). -/
theorem cmm_eq_matrix_mul {l m n : Type} [Fintype m] (A : Matrix l m ℂ) (B : Matrix m n ℂ) :
    cmmWith (fun (X : Matrix l m ℝ) (Y : Matrix m n ℝ) => X * Y)
        (A.map Complex.re) (A.map Complex.im) (B.map Complex.re) (B.map Complex.im)
      = ((A * B).map Complex.re, (A * B).map Complex.im) := by
  ext i j <;>
    simp [cmmWith, Matrix.mul_apply, Complex.re_sum, Complex.im_sum, Finset.sum_sub_distrib, Finset.sum_add_distrib]

/-- `complex_bmm`: the same, batch-wise (a batch of matrices is a matrix-valued function) -/
theorem cbmm_eq {β l m n : Type} [Fintype m] (A : β → Matrix l m ℂ) (B : β → Matrix m n ℂ) :
    cmmWith (fun (X : β → Matrix l m ℝ) (Y : β → Matrix m n ℝ) => fun b => X b * Y b)
        (fun b => (A b).map Complex.re) (fun b => (A b).map Complex.im)
        (fun b => (B b).map Complex.re) (fun b => (B b).map Complex.im)
      = (fun b => ((A b) * (B b)).map Complex.re, fun b => ((A b) * (B b)).map Complex.im) := by
  have h := fun b => cmm_eq_matrix_mul (A b) (B b)
  simp only [cmmWith, Prod.mk.injEq] at h ⊢
  exact ⟨funext fun b => (h b).1, funext fun b => (h b).2⟩

/-! ## coil expand / reduce for an arbitrary finite coil index type `ι` and pixel index type `P`

`expand` / `reduce` are *computed with the model's* `cmul` and `conj` (the functions the driver
executes); for `ι = Fin c` they are the fibre functions `expandFibre` / `reduceFibre` of the model
(`reduce_eq_reduceFibre`, `expand_eq_expandFibre`). -/
section Coil
variable {ι P : Type}

/-- `expand_operator`: coil `i`, pixel `p` ↦ `Sᵢ(p) · x(p)` -/
def expand (S : ι → P → ℂ) (x : P → ℂ) : ι → P → ℂ :=
  fun i p => toC (cmul (ofC (S i p)) (ofC (x p)))

/-- `reduce_operator`: pixel `p` ↦ `Σᵢ conj(Sᵢ(p)) · yᵢ(p)` -/
def reduce [Fintype ι] (S : ι → P → ℂ) (y : ι → P → ℂ) : P → ℂ :=
  fun p => ∑ i, toC (cmul (Cx.conj (ofC (S i p))) (ofC (y i p)))

theorem expand_apply (S : ι → P → ℂ) (x : P → ℂ) (i : ι) (p : P) : expand S x i p = S i p * x p := by
  simp [expand, cmul_eq]

theorem reduce_apply [Fintype ι] (S : ι → P → ℂ) (y : ι → P → ℂ) (p : P) :
    reduce S y p = ∑ i, conj (S i p) * y i p := by
  simp [reduce, cmul_eq, conj_eq]

/-- **expand is ℂ-linear** in the image -/
theorem expand_linear (S : ι → P → ℂ) (a : ℂ) (x x' : P → ℂ) :
    expand S (a • x + x') = a • expand S x + expand S x' := by
  funext i p
  simp only [expand_apply, Pi.add_apply, Pi.smul_apply, smul_eq_mul]
  ring

/-- **reduce is ℂ-linear** in the coil data -/
theorem reduce_linear [Fintype ι] (S : ι → P → ℂ) (a : ℂ) (y y' : ι → P → ℂ) :
    reduce S (a • y + y') = a • reduce S y + reduce S y' := by
  funext p
  simp only [reduce_apply, Pi.add_apply, Pi.smul_apply, smul_eq_mul, Finset.mul_sum, ← Finset.sum_add_distrib]
  exact Finset.sum_congr rfl fun i _ => by ring

/-- **adjointness** `⟪E_S x, y⟫ = ⟪x, R_S y⟫` (inner product `⟪u, v⟫ = Σ conj(u)·v` over coils × pixels,
resp. pixels) for arbitrary sensitivity maps, any finite coil and pixel index types. -/
theorem adjoint [Fintype ι] [Fintype P] (S : ι → P → ℂ) (x : P → ℂ) (y : ι → P → ℂ) :
    ∑ i, ∑ p, conj (expand S x i p) * y i p = ∑ p, conj (x p) * reduce S y p := by
  simp only [expand_apply, reduce_apply, Finset.mul_sum, map_mul]
  rw [Finset.sum_comm]
  exact Finset.sum_congr rfl fun p _ => Finset.sum_congr rfl fun i _ => by ring

/-- **reduce ∘ expand = id** whenever the maps have unit root-sum-of-squares at every pixel -/
theorem reduce_expand_id [Fintype ι] (S : ι → P → ℂ) (h : ∀ p, ∑ i, Complex.normSq (S i p) = 1) (x : P → ℂ) :
    reduce S (expand S x) = x := by
  funext p
  simp only [reduce_apply, expand_apply]
  have e : ∀ i, conj (S i p) * (S i p * x p) = ((Complex.normSq (S i p) : ℝ) : ℂ) * x p := fun i => by
    rw [← mul_assoc, mul_comm (conj (S i p)), Complex.mul_conj]
  simp only [e, ← Finset.sum_mul, ← Complex.ofReal_sum, h p, Complex.ofReal_one, one_mul]

/-- without the normalisation, `reduce ∘ expand` multiplies by `Σᵢ |Sᵢ|²` (= rss²) -/
theorem reduce_expand [Fintype ι] (S : ι → P → ℂ) (x : P → ℂ) (p : P) :
    reduce S (expand S x) p = ((∑ i, Complex.normSq (S i p) : ℝ) : ℂ) * x p := by
  simp only [reduce_apply, expand_apply]
  have e : ∀ i, conj (S i p) * (S i p * x p) = ((Complex.normSq (S i p) : ℝ) : ℂ) * x p := fun i => by
    rw [← mul_assoc, mul_comm (conj (S i p)), Complex.mul_conj]
  simp only [e, ← Finset.sum_mul, ← Complex.ofReal_sum]

end Coil

/-! ### the list (coil-axis fibre) functions of the model are the `Fin c` instance -/

theorem sum_zipWith_ofFn {α β : Type} (f : α → β → ℂ) :
    ∀ {c : ℕ} (a : Fin c → α) (b : Fin c → β),
      (List.zipWith f (List.ofFn a) (List.ofFn b)).sum = ∑ i, f (a i) (b i)
  | 0, _, _ => by simp
  | c + 1, a, b => by
    rw [List.ofFn_succ, List.ofFn_succ, List.zipWith_cons_cons, List.sum_cons, Fin.sum_univ_succ,
      sum_zipWith_ofFn f (fun i => a i.succ) (fun i => b i.succ)]

theorem reduce_eq_reduceFibre {P : Type} {c : ℕ} (S y : Fin c → P → ℂ) (p : P) :
    reduce S y p = toC (reduceFibre (List.ofFn fun i => ofC (S i p)) (List.ofFn fun i => ofC (y i p))) := by
  rw [reduceFibre_eq, sum_zipWith_ofFn, reduce_apply]
  simp

theorem expand_eq_expandFibre {P : Type} {c : ℕ} (S : Fin c → P → ℂ) (x : P → ℂ) (p : P) :
    (List.ofFn fun i => expand S x i p) = (expandFibre (List.ofFn fun i => ofC (S i p)) (ofC (x p))).map toC := by
  simp [expandFibre, expand, List.map_ofFn, Function.comp_def]

/-! ### non-vacuity -/

/-- a unit-RSS pair of maps on one pixel: `S = (3/5, 4/5 i)` -/
example : ∑ i : Fin 2, Complex.normSq ((![(3 / 5 : ℂ), (4 / 5 : ℂ) * Complex.I] : Fin 2 → ℂ) i) = 1 := by
  simp [Fin.sum_univ_succ]; norm_num
example : cmul (⟨1, 2⟩ : Cpx Int) ⟨3, 4⟩ = ⟨-5, 10⟩ := by decide
example : Cx.conj (⟨1, 2⟩ : Cpx Int) = ⟨1, -2⟩ := by decide
example : cdiv (⟨1, 2⟩ : Cpx ℝ) ⟨0, 0⟩ = ⟨0, 0⟩ := cdiv_zero _ _ rfl
example : cdiv (⟨-5, 10⟩ : Cpx ℝ) ⟨3, 4⟩ = ⟨1, 2⟩ := by
  simp [cdiv, safeDiv, cdivNum, cdivDen]; norm_num
example : reduceFibre [(⟨0, 1⟩ : Cpx Int), ⟨1, 0⟩] (expandFibre [⟨0, 1⟩, ⟨1, 0⟩] ⟨2, 3⟩) = ⟨4, 6⟩ := by decide
example : toC ⟨3, 4⟩ ≠ 0 := by simp [toC, Complex.ext_iff]

end DirectVerif.C02
