import DirectVerif.Lemmas.C03
/-!
# C03 — under-sampling never leaks or alters k-space

Property theorems only; all statements are about the definitions of `Model/Mask.lean` that the
driver executes.  Values are `FVal` constructors, so `= .posZero` is "exactly +0 (not −0)" and
`= srcAt k …` is "bit-identical to the input entry", for ±0, ±∞ and finite extremes alike.
Flat positions `fl` range over the row-major positions of the (broadcast) output; `srcAt t d sR fl`
is the entry of `t` that output position `fl` reads under numpy broadcasting.
-/
namespace DirectVerif.C03
open DirectVerif DirectVerif.Mask

/-- pointwise description of `torch.where(pred m, +0, k)` with broadcasting -/
theorem where_pointwise {μ} [Inhabited μ] (f : μ → FVal → FVal) (m : Tensor μ) (k o : Tensor FVal)
    (h : whereWith f m k = some o) :
    outShapeR m.shape.reverse k.shape.reverse = some o.shape.reverse ∧
    o.data.length = prodR o.shape.reverse ∧
    ∀ fl, fl < prodR o.shape.reverse →
      o.data[fl]? = some (f (srcAt m default o.shape.reverse fl) (srcAt k .posZero o.shape.reverse fl)) := by
  obtain ⟨sR, hs, rfl⟩ := whereWith_some f m k o h
  simp only [List.reverse_reverse]
  refine ⟨hs, by simp, ?_⟩
  intro fl hfl
  simp [List.getElem?_map, List.getElem?_range hfl]

theorem applyMask_ok {μ} [Inhabited μ] [MaskVal μ] (m : Tensor μ) (k o : Tensor FVal)
    (h : applyMask m k = .ok o) :
    k.shape.getLast? = some 2 ∧ whereWith whereZero m k = some o := by
  unfold applyMask at h
  split at h
  · cases h
  · rename_i h2
    cases hw : whereWith whereZero m k with
    | none => simp [hw] at h
    | some o' => simp [hw] at h; subst h; exact ⟨by simpa using h2, rfl⟩

/-- **On the support the masked k-space is the input k-space, bit-identical** (any value: −0, ±∞,
±3.4e38 …), for every mask element type, every broadcastable mask shape. -/
theorem mask_on_support {μ} [Inhabited μ] [MaskVal μ] (m : Tensor μ) (k o : Tensor FVal)
    (h : applyMask m k = .ok o) (fl : Nat) (hfl : fl < prodR o.shape.reverse)
    (hm : MaskVal.eqConst (srcAt m default o.shape.reverse fl) 0 = false) :
    o.data[fl]? = some (srcAt k .posZero o.shape.reverse fl) := by
  obtain ⟨_, hw⟩ := applyMask_ok m k o h
  obtain ⟨_, _, hp⟩ := where_pointwise _ m k o hw
  rw [hp fl hfl]; simp [whereZero, hm]

/-- **Off the support the masked k-space is exactly `+0`** whatever the input entry is. -/
theorem mask_off_support {μ} [Inhabited μ] [MaskVal μ] (m : Tensor μ) (k o : Tensor FVal)
    (h : applyMask m k = .ok o) (fl : Nat) (hfl : fl < prodR o.shape.reverse)
    (hm : MaskVal.eqConst (srcAt m default o.shape.reverse fl) 0 = true) :
    o.data[fl]? = some .posZero := by
  obtain ⟨_, hw⟩ := applyMask_ok m k o h
  obtain ⟨_, _, hp⟩ := where_pointwise _ m k o hw
  rw [hp fl hfl]; simp [whereZero, hm]

/-- integer / boolean masks: "set" means `≠ 0` -/
theorem mask_on_support_int (m : Tensor Int) (k o : Tensor FVal) (h : applyMask m k = .ok o)
    (fl : Nat) (hfl : fl < prodR o.shape.reverse) (hm : srcAt m default o.shape.reverse fl ≠ 0) :
    o.data[fl]? = some (srcAt k .posZero o.shape.reverse fl) :=
  mask_on_support m k o h fl hfl (by simpa [MaskVal.eqConst] using hm)

theorem mask_off_support_int (m : Tensor Int) (k o : Tensor FVal) (h : applyMask m k = .ok o)
    (fl : Nat) (hfl : fl < prodR o.shape.reverse) (hm : srcAt m default o.shape.reverse fl = 0) :
    o.data[fl]? = some .posZero :=
  mask_off_support m k o h fl hfl (by simpa [MaskVal.eqConst] using hm)

/-- float masks: an entry is "unset" exactly when it is `+0` or `−0` -/
theorem float_mask_off_iff (v : FVal) (hv : v.wf = true) :
    MaskVal.eqConst v 0 = true ↔ (v = .posZero ∨ v = .negZero) := by
  cases v <;> simp_all [MaskVal.eqConst, FVal.eqInt, FVal.wf]

/-- the output has the broadcast shape and exactly that many entries, and keeps the complex axis -/
theorem mask_shape {μ} [Inhabited μ] [MaskVal μ] (m : Tensor μ) (k o : Tensor FVal)
    (h : applyMask m k = .ok o) :
    outShapeR m.shape.reverse k.shape.reverse = some o.shape.reverse ∧
    o.data.length = prodR o.shape.reverse ∧ o.shape.getLast? = some 2 := by
  obtain ⟨h2, hw⟩ := applyMask_ok m k o h
  obtain ⟨hs, hl, _⟩ := where_pointwise _ m k o hw
  refine ⟨hs, hl, ?_⟩
  rw [List.getLast?_eq_head?_reverse] at h2 ⊢
  cases hk : k.shape.reverse with
  | nil => simp [hk] at h2
  | cons a t =>
    simp [hk] at h2; subst h2
    rw [hk] at hs
    exact outShapeR_head_two _ _ _ hs

/-- **Broadcasting lemma** (multi-index form): at every in-range output index the result is the
elementwise kernel applied to the mask entry and the k-space entry selected by numpy's index map
(`bIdx`: extra leading axes dropped, length-1 axes read entry 0). -/
theorem mask_pointwise_idx {μ} [Inhabited μ] [MaskVal μ] (m : Tensor μ) (k o : Tensor FVal)
    (h : applyMask m k = .ok o) (idx : List Nat) (hi : inRange o.shape idx) :
    getIdx o .posZero idx =
      whereZero (getIdx m default (bIdx m.shape idx)) (getIdx k .posZero (bIdx k.shape idx)) := by
  obtain ⟨_, hw⟩ := applyMask_ok m k o h
  obtain ⟨_, _, hp⟩ := where_pointwise _ m k o hw
  have hlt := ravelR_lt _ _ hi
  have := hp _ hlt
  simp only [getIdx, bIdx, List.reverse_reverse, List.getD_eq_getElem?_getD, this, Option.getD_some,
    srcAt, unravelR_ravelR _ _ hi]

theorem bIdxR_one (s : List Nat) (i : Nat) (is : List Nat) :
    bIdxR (1 :: s) (i :: is) = 0 :: bIdxR s is := by simp [bIdxR]
theorem bIdxR_full (n : Nat) (hn : n ≠ 1) (s : List Nat) (i : Nat) (is : List Nat) :
    bIdxR (n :: s) (i :: is) = i :: bIdxR s is := by simp [bIdxR, hn]
theorem bIdxR_extra (is : List Nat) : bIdxR [] is = [] := by cases is <;> rfl

/-- **Idempotence**: masking an already masked k-space changes nothing (not even a sign bit). -/
theorem mask_idempotent {μ} [Inhabited μ] [MaskVal μ] (m : Tensor μ) (k o : Tensor FVal)
    (h : applyMask m k = .ok o) : applyMask m o = .ok o := by
  obtain ⟨_, _, hlast⟩ := mask_shape m k o h
  obtain ⟨_, hw⟩ := applyMask_ok m k o h
  obtain ⟨sR, hs, rfl⟩ := whereWith_some _ m k o hw
  have hs' := outShapeR_idem _ _ _ hs
  unfold applyMask
  simp only [hlast, ne_eq, not_true_eq_false, if_false]
  unfold whereWith
  simp only [List.reverse_reverse, hs']
  congr 2
  apply List.map_congr_left
  intro fl hfl
  have hlt : fl < prodR sR := by simpa using hfl
  rw [srcAt_self sR _ _ fl hlt]
  simp only [List.getD_eq_getElem?_getD, List.getElem?_map, List.getElem?_range hlt, Option.map_some,
    Option.getD_some]
  unfold whereZero
  split <;> simp_all

/-- **Non-interference**: two k-spaces that agree on the support give the same masked k-space —
no unsampled value reaches the output. -/
theorem mask_noninterference {μ} [Inhabited μ] [MaskVal μ] (m : Tensor μ) (k k' : Tensor FVal)
    (h : agreeOnSupport m k k') : applyMask m k = applyMask m k' := by
  obtain ⟨hshape, hag⟩ := h
  have hw : whereWith whereZero m k = whereWith whereZero m k' := by
    unfold whereWith
    rw [← hshape]
    cases hs : outShapeR m.shape.reverse k.shape.reverse with
    | none => rfl
    | some sR =>
      simp only
      congr 2
      apply List.map_congr_left
      intro fl hfl
      have hlt : fl < prodR sR := by simpa using hfl
      unfold whereZero
      cases hm : MaskVal.eqConst (srcAt m default sR fl) 0 with
      | true => simp
      | false => simp [hag sR hs fl hlt hm]
  unfold applyMask
  rw [hw, hshape]

/-- same for the bare `torch.where` used by `MRILogLikelihood` / `ConjGrad` (no complex assert) -/
theorem where_noninterference {μ} [Inhabited μ] [MaskVal μ] (m : Tensor μ) (k k' : Tensor FVal)
    (h : agreeOnSupport m k k') : whereWith whereZero m k = whereWith whereZero m k' := by
  obtain ⟨hshape, hag⟩ := h
  unfold whereWith
  rw [← hshape]
  cases hs : outShapeR m.shape.reverse k.shape.reverse with
  | none => rfl
  | some sR =>
    simp only
    congr 2
    apply List.map_congr_left
    intro fl hfl
    have hlt : fl < prodR sR := by simpa using hfl
    unfold whereZero
    cases hm : MaskVal.eqConst (srcAt m default sR fl) 0 with
    | true => simp
    | false => simp [hag sR hs fl hlt hm]

/-- `apply_padding`: padded positions (`padding == 1`) become exactly `+0`, all others are
bit-identical; `None` is the identity. -/
theorem padding_pointwise {μ} [Inhabited μ] [MaskVal μ] (p : Tensor μ) (d o : Tensor FVal)
    (h : applyPadding (some p) d = .ok o) (fl : Nat) (hfl : fl < prodR o.shape.reverse) :
    o.data[fl]? = some (if MaskVal.eqConst (srcAt p default o.shape.reverse fl) 1 then .posZero
                        else srcAt d .posZero o.shape.reverse fl) := by
  unfold applyPadding at h
  cases hw : whereWith wherePad p d with
  | none => simp [hw] at h
  | some o' =>
    simp [hw] at h; subst h
    obtain ⟨_, _, hp⟩ := where_pointwise _ p d o' hw
    rw [hp fl hfl]; rfl

theorem padding_none {μ} [Inhabited μ] [MaskVal μ] (d : Tensor FVal) :
    applyPadding (none : Option (Tensor μ)) d = .ok d := rfl

/-- mask given as a mask function: the mask is `mask_func(shape = kspace.shape[1:], seed)` for any
seed, it is returned unchanged, and the k-space is masked with it. -/
theorem mask_func_path {μ} [Inhabited μ] [MaskVal μ] (mf : List Nat → Option Int → Tensor μ)
    (k o : Tensor FVal) (seed : Option Int) (mk : Tensor μ)
    (h : applyMaskFunc mf k seed = .ok (o, mk)) :
    mk = mf (k.shape.drop 1) seed ∧ applyMask mk k = .ok o := by
  unfold applyMaskFunc at h
  split at h
  · cases h
  · rename_i h2
    simp only at h
    cases hw : whereWith whereZero (mf (k.shape.drop 1) seed) k with
    | none => rw [hw] at h; cases h
    | some o' =>
      rw [hw] at h
      injection h with h
      injection h with h1 h3
      subst h1 h3
      refine ⟨rfl, ?_⟩
      unfold applyMask
      rw [if_neg h2, hw]

/-! ## `ApplyMaskModule` on sample dicts -/

/-- **`apply_mask_module_ignores_existing_target`**: whatever is already stored under the target key
(nothing, stale k-space of the same or another shape) has no influence on the result. -/
theorem apply_mask_module_ignores_existing_target {μ} [Inhabited μ] [MaskVal μ] (s : Sample μ)
    (t' : Option (Tensor FVal)) : applyMaskModule { s with target := t' } = applyMaskModule s := rfl

/-- the module is `apply_mask` of the current input and the current mask -/
theorem apply_mask_module_eq {μ} [Inhabited μ] [MaskVal μ] (k : Tensor FVal) (m : Tensor μ)
    (t : Option (Tensor FVal)) :
    applyMaskModule { input := some k, mask := some m, target := t } = ModRes.ofRes (applyMask m k) := rfl

/-- missing keys are rejected, never defaulted -/
theorem apply_mask_module_missing {μ} [Inhabited μ] [MaskVal μ] (s : Sample μ)
    (h : s.input = none ∨ s.mask = none) : applyMaskModule s = .valueError := by
  unfold applyMaskModule
  rcases h with h | h
  · rw [h]
  · rw [h]; cases s.input <;> rfl

/-- **Histories**: applying the module repeatedly to the same dict with new masks, every step's
result is `apply_mask(input, current mask)` — for any initial stale target, any number of steps. -/
theorem module_history {μ} [Inhabited μ] [MaskVal μ] (k : Tensor FVal) (t : Option (Tensor FVal))
    (ms : List (Tensor μ)) :
    moduleHistory k t ms = ms.map fun m => ModRes.ofRes (applyMask m k) := by
  induction ms generalizing t with
  | nil => rfl
  | cons m ms ih => simp only [moduleHistory, List.map_cons, ih, apply_mask_module_eq]

/-- hence each step is bit-identical to the input on the current mask's support and `+0` off it -/
theorem module_history_step {μ} [Inhabited μ] [MaskVal μ] (k : Tensor FVal) (t : Option (Tensor FVal))
    (ms : List (Tensor μ)) (i : Nat) (m : Tensor μ) (o : Tensor FVal) (hm : ms[i]? = some m)
    (ho : (moduleHistory k t ms)[i]? = some (.ok o)) : applyMask m k = .ok o := by
  rw [module_history, List.getElem?_map, hm] at ho
  simp only [Option.map_some, Option.some.injEq] at ho
  cases ha : applyMask m k <;> simp_all [ModRes.ofRes]

/-! ## operators -/

theorem runStages_append {V} (ops : Ops V) (a b : List Stage) (x : V) :
    runStages ops (a ++ b) x = (runStages ops a x).bind (runStages ops b) := by
  induction a generalizing x with
  | nil => simp [runStages]
  | cons st rest ih =>
    cases st <;> simp only [List.cons_append, runStages, ih]
    cases ops.mask x <;> simp [ih]

/-- any operator whose **last** stage is the mask returns a masked tensor, whatever the other
stages (Fourier transform, coil expansion, …) do -/
theorem last_mask_output {V} (ops : Ops V) (stages : List Stage) (hwf : stages.getLast? = some .mask)
    (x o : V) (h : runStages ops stages x = some o) : ∃ v, ops.mask v = some o := by
  obtain ⟨pre, rfl⟩ : ∃ pre, stages = pre ++ [.mask] := by
    rcases List.eq_nil_or_concat stages with h0 | ⟨pre, b, rfl⟩
    · subst h0; simp at hwf
    · refine ⟨pre, ?_⟩
      simp at hwf; subst hwf; simp
  rw [runStages_append] at h
  cases hp : runStages ops pre x with
  | none => simp [hp] at h
  | some v =>
    simp [hp, runStages] at h
    exact ⟨v, by cases hm : ops.mask v <;> simp_all⟩

/-- any operator whose **first** stage is the mask only sees the masked input -/
theorem first_mask_input {V} (ops : Ops V) (stages : List Stage) (hwf : stages.head? = some .mask)
    (y y' : V) (h : ops.mask y = ops.mask y') : runStages ops stages y = runStages ops stages y' := by
  cases stages with
  | nil => simp at hwf
  | cons st rest =>
    simp at hwf; subst hwf
    simp [runStages, h]

/-- **The masked forward operator's output is exactly `+0` off the support** for arbitrary
`forward_operator` and `expand_operator`. -/
theorem fwdOp_supported {μ} [Inhabited μ] [MaskVal μ] (expand F : Tensor FVal → Tensor FVal)
    (m : Tensor μ) (x o : Tensor FVal) (h : fwdOp expand F m x = some o) (fl : Nat)
    (hfl : fl < prodR o.shape.reverse)
    (hm : MaskVal.eqConst (srcAt m default o.shape.reverse fl) 0 = true) :
    o.data[fl]? = some .posZero := by
  obtain ⟨v, hv⟩ := last_mask_output _ fwdStages (by decide) x o h
  have : applyMask m v = .ok o := by
    cases ha : applyMask m v <;> simp_all [Res.toOption]
  exact mask_off_support m v o this fl hfl hm

/-- … and on the support it is the un-masked `F (expand x)` entry, bit-identical -/
theorem fwdOp_on_support {μ} [Inhabited μ] [MaskVal μ] (expand F : Tensor FVal → Tensor FVal)
    (m : Tensor μ) (x o : Tensor FVal) (h : fwdOp expand F m x = some o) (fl : Nat)
    (hfl : fl < prodR o.shape.reverse)
    (hm : MaskVal.eqConst (srcAt m default o.shape.reverse fl) 0 = false) :
    o.data[fl]? = some (srcAt (F (expand x)) .posZero o.shape.reverse fl) := by
  have hv : (applyMask m (F (expand x))).toOption = some o := by
    simpa [fwdOp, fwdStages, runStages] using h
  have : applyMask m (F (expand x)) = .ok o := by
    cases ha : applyMask m (F (expand x)) <;> simp_all [Res.toOption]
  exact mask_on_support m _ o this fl hfl hm

/-- **The masked backward operator does not depend on unsampled entries of its input** for
arbitrary `backward_operator` and `reduce_operator`. -/
theorem bwdOp_noninterference {μ} [Inhabited μ] [MaskVal μ] (Finv reduce : Tensor FVal → Tensor FVal)
    (m : Tensor μ) (y y' : Tensor FVal) (h : agreeOnSupport m y y') :
    bwdOp Finv reduce m y = bwdOp Finv reduce m y' := by
  unfold bwdOp
  apply first_mask_input _ bwdStages (by decide)
  simp only [mask_noninterference m y y' h]

/-- same for `ConjGrad._A_star_op` -/
theorem aStarOp_noninterference {μ} [Inhabited μ] [MaskVal μ] (Finv reduce : Tensor FVal → Tensor FVal)
    (m : Tensor μ) (y y' : Tensor FVal) (h : agreeOnSupport m y y') :
    aStarOp Finv reduce m y = aStarOp Finv reduce m y' := by
  unfold aStarOp
  apply first_mask_input _ bwdStages (by decide)
  simp only [where_noninterference m y y' h]

/-- **`MRILogLikelihood` does not depend on unsampled entries of the data `y`** … -/
theorem loglik_noninterference_y {μ I O} [Inhabited μ] [MaskVal μ] (pre : I → Tensor FVal)
    (F B : Tensor FVal → Tensor FVal) (sub : Tensor FVal → Tensor FVal → Tensor FVal)
    (scale : Tensor FVal → Tensor FVal) (post : Tensor FVal → O) (m : Tensor μ) (x : I)
    (y y' : Tensor FVal) (h : agreeOnSupport m y y') :
    loglik pre F B sub scale post m x y = loglik pre F B sub scale post m x y' := by
  unfold loglik
  rw [where_noninterference m y y' h]

/-- … **nor on unsampled entries of the prediction `F (E x)`**: two forward operators whose
outputs agree on the support give the same log-likelihood gradient. -/
theorem loglik_noninterference_fx {μ I O} [Inhabited μ] [MaskVal μ] (pre : I → Tensor FVal)
    (F F' B : Tensor FVal → Tensor FVal) (sub : Tensor FVal → Tensor FVal → Tensor FVal)
    (scale : Tensor FVal → Tensor FVal) (post : Tensor FVal → O) (m : Tensor μ) (x : I)
    (y : Tensor FVal) (h : agreeOnSupport m (F (pre x)) (F' (pre x))) :
    loglik pre F B sub scale post m x y = loglik pre F' B sub scale post m x y := by
  unfold loglik
  rw [where_noninterference m _ _ h]

/-- **`loglik_noninterference`**: both at once — changing the unsampled entries of the data and of
the prediction (through any other forward operator) leaves the output unchanged. -/
theorem loglik_noninterference {μ I O} [Inhabited μ] [MaskVal μ] (pre : I → Tensor FVal)
    (F F' B : Tensor FVal → Tensor FVal) (sub : Tensor FVal → Tensor FVal → Tensor FVal)
    (scale : Tensor FVal → Tensor FVal) (post : Tensor FVal → O) (m : Tensor μ) (x : I)
    (y y' : Tensor FVal) (hy : agreeOnSupport m y y')
    (hf : agreeOnSupport m (F (pre x)) (F' (pre x))) :
    loglik pre F B sub scale post m x y = loglik pre F' B sub scale post m x y' := by
  rw [loglik_noninterference_y pre F B sub scale post m x y y' hy,
    loglik_noninterference_fx pre F F' B sub scale post m x y' hf]

/-- the concrete `error` tensor the driver computes is an instance of `loglik`, hence inherits both -/
theorem loglikError_noninterference {μ} [Inhabited μ] [MaskVal μ] (m : Tensor μ)
    (fx fx' y y' : Tensor FVal) (s : Int) (h1 : agreeOnSupport m fx fx') (h2 : agreeOnSupport m y y') :
    loglikError m fx y s = loglikError m fx' y' s := by
  unfold loglikError
  rw [loglik_noninterference_y _ _ _ _ _ _ m () y y' h2]
  unfold loglik
  simp only [id]
  rw [where_noninterference m fx fx' h1]

/-! ## every masking site under `direct/nn` (table generated by the AST scan) -/

/-- a well-formed `where` site computes exactly the model kernel `mask == 0 ? +0 : data` -/
theorem wf_where_site_kernel {μ} [MaskVal μ] (w : WhereSite) (h : w.wf = true) (mv : μ) (kv : FVal) :
    w.kernel mv kv = whereZero mv kv := by
  obtain ⟨pe, pl, tb, eb⟩ := w
  simp only [WhereSite.wf, Bool.and_eq_true, beq_iff_eq] at h
  obtain ⟨⟨⟨h1, h2⟩, h3⟩, h4⟩ := h
  subst h1 h2 h3 h4
  simp only [WhereSite.kernel, whereZero, Branch.pick, if_true]

/-- … hence, at **every** well-formed site, the masked quantity is `+0` off the support, bit-identical
on it, and does not depend on unsampled entries of its operand (for every mask type / shape). -/
theorem wf_site_pointwise {μ} [Inhabited μ] [MaskVal μ] (w : WhereSite) (h : w.wf = true)
    (m : Tensor μ) (k : Tensor FVal) : whereWith w.kernel m k = whereWith whereZero m k := by
  have : (w.kernel : μ → FVal → FVal) = whereZero := by
    funext mv kv; exact wf_where_site_kernel w h mv kv
  rw [this]

theorem wf_site_noninterference {μ} [Inhabited μ] [MaskVal μ] (w : WhereSite) (h : w.wf = true)
    (m : Tensor μ) (k k' : Tensor FVal) (hk : agreeOnSupport m k k') :
    whereWith w.kernel m k = whereWith w.kernel m k' := by
  rw [wf_site_pointwise w h, wf_site_pointwise w h]
  exact where_noninterference m k k' hk

theorem wf_site_off_support {μ} [Inhabited μ] [MaskVal μ] (w : WhereSite) (h : w.wf = true)
    (m : Tensor μ) (k o : Tensor FVal) (ho : whereWith w.kernel m k = some o) (fl : Nat)
    (hfl : fl < prodR o.shape.reverse)
    (hm : MaskVal.eqConst (srcAt m default o.shape.reverse fl) 0 = true) :
    o.data[fl]? = some .posZero := by
  rw [wf_site_pointwise w h] at ho
  obtain ⟨_, _, hp⟩ := where_pointwise _ m k o ho
  rw [hp fl hfl]; simp [whereZero, hm]

/-- a site that is not of the accepted form is rejected by the decidable predicate: the product form
is flagged, a `where` with another predicate or constant is not well-formed -/
example : Site.wf { file := "f", func := "g", form := .flagged "multiplication by the mask", operand := "x",
                    mask := "m", zeroDtypeOf := "" } = false := by decide
example : (WhereSite.wf { predEq := true, predLit := 1, thenB := .const .posZero, elseB := .data }) = false := by decide
example : (WhereSite.wf { predEq := true, predLit := 0, thenB := .const .negZero, elseB := .data }) = false := by decide
example : (WhereSite.wf { predEq := true, predLit := 0, thenB := .const .posZero, elseB := .data }) = true := by decide

/-- why the code must be a `where` and not a product: `kspace * mask` leaves `−0` for negative
entries and NaN for infinite ones at unsampled positions. -/
theorem mul_variant_violates :
    mulMask 0 (.fin (-3)) = some .negZero ∧ mulMask 0 .posInf = none ∧
    whereZero (0 : Int) (.fin (-3)) = .posZero ∧ whereZero (0 : Int) .posInf = .posZero := by decide

/-! ## non-vacuity: the hypotheses are met by concrete tensors -/

/-- mask `(2,1)` broadcast over k-space `(2,2,2)` holding `−0, +∞, −∞, 7 …` -/
def exK : Tensor FVal :=
  { shape := [2, 2, 2], data := [.negZero, .posInf, .fin 3, .fin (-4), .negInf, .fin 7, .negZero, .fin 9] }
def exM : Tensor Int := { shape := [2, 1], data := [0, 1] }
def exO : Tensor FVal :=
  { shape := [2, 2, 2], data := [.posZero, .posZero, .fin 3, .fin (-4), .posZero, .posZero, .negZero, .fin 9] }

example : applyMask exM exK = .ok exO := by decide
example : applyMask exM exO = .ok exO := mask_idempotent exM exK exO (by decide)
example : srcAt exM default exO.shape.reverse 6 ≠ 0 ∧ exO.data[6]? = some .negZero := by decide
example : srcAt exM default exO.shape.reverse 4 = 0 ∧ exO.data[4]? = some .posZero := by decide
example : fwdOp id id exM exK = some exO := by decide
example : bwdOp id id exM exK = some exO := by decide
/-- a stale same-shape target and a second application with another mask -/
def exM2 : Tensor Int := { shape := [2, 1], data := [1, 0] }
example : moduleHistory exK (some exK) [exM, exM2] =
    [.ok exO, ModRes.ofRes (applyMask exM2 exK)] := by decide
example : applyMaskModule { input := some exK, mask := some exM, target := some exK } = .ok exO := by decide
example : applyMaskModule ({ input := some exK, mask := none, target := none } : Sample Int) = .valueError := by
  decide
example : applyMask ({ shape := [3], data := [1, 1, 1] } : Tensor Int) exK = .runtimeError := by decide
example : applyMask exM ({ shape := [2, 3], data := [] } : Tensor FVal) = .assertionError := by decide
example : agreeOnSupport exM exK exO := by
  refine ⟨rfl, ?_⟩
  intro sR hs fl hfl hm
  have : sR = [2, 2, 2] := by
    have : outShapeR exM.shape.reverse exK.shape.reverse = some [2, 2, 2] := by decide
    rw [this] at hs; exact (Option.some.inj hs).symm
  subst this
  have hfl' : fl < 8 := hfl
  have h8 : ∀ fl, fl < 8 → MaskVal.eqConst (srcAt exM default [2, 2, 2] fl) 0 = false →
      srcAt exK .posZero [2, 2, 2] fl = srcAt exO .posZero [2, 2, 2] fl := by decide
  exact h8 fl hfl' hm

/-! ## phase 3 — hard data consistency of the SSL / JSSL / VSharp engines -/

/-- `x + (+0)` and `(+0) + x` are `x` with the sign of a zero forgotten — for every value class -/
theorem add_posZero_right (v : FVal) : FVal.add v .posZero = some v.unsign := by cases v <;> rfl
theorem add_posZero_left (v : FVal) : FVal.add .posZero v = some v.unsign := by cases v <;> rfl

/-- `~mask` read under broadcasting: set exactly where the mask is unset (no default value involved) -/
theorem notMask_entry (m : Tensor Int) (kR sR : List Nat) (hwf : m.data.length = prodR m.shape.reverse)
    (h : outShapeR m.shape.reverse kR = some sR) (fl : Nat) (hfl : fl < prodR sR) :
    srcAt (notMask m) default sR fl = if srcAt m default sR fl == 0 then 1 else 0 :=
  srcAt_map (fun v : Int => if v == 0 then 1 else 0) m.shape m.data default default kR sR hwf h fl hfl

theorem addT_some (a b o : Tensor FVal) (h : addT a b = some o) :
    a.shape = b.shape ∧ o.shape = a.shape ∧
    o.data = List.zipWith (fun u v => (FVal.add u v).getD (.fin 0)) a.data b.data := by
  unfold addT at h
  split at h
  · rename_i hs
    injection h with h; subst h
    exact ⟨hs, rfl, rfl⟩
  · cases h

theorem hardDC_some (m : Tensor Int) (y p o : Tensor FVal) (h : hardDC m y p = some o) :
    ∃ q, applyMask (notMask m) p = .ok q ∧ addT y q = some o := by
  unfold hardDC at h
  cases hq : applyMask (notMask m) p with
  | ok q => rw [hq] at h; exact ⟨q, rfl, h⟩
  | assertionError => rw [hq] at h; cases h
  | runtimeError => rw [hq] at h; cases h

/-- **Hard data consistency, sampled positions**: where the mask is set the output is the *measured* value (sign of a
zero aside), whatever the network predicted there — `inf`, `-0`, anything. -/
theorem hardDC_sampled (m : Tensor Int) (y p o : Tensor FVal) (h : hardDC m y p = some o)
    (hwf : m.data.length = prodR m.shape.reverse) (fl : Nat) (hfl : fl < prodR o.shape.reverse)
    (hm : srcAt m default o.shape.reverse fl ≠ 0) :
    o.data[fl]? = (y.data[fl]?).map FVal.unsign := by
  obtain ⟨q, hq, ha⟩ := hardDC_some m y p o h
  obtain ⟨hs, hos, hd⟩ := addT_some y q o ha
  obtain ⟨_, hw⟩ := applyMask_ok _ p q hq
  obtain ⟨hsh, _, hp⟩ := where_pointwise _ _ p q hw
  have hqo : q.shape = o.shape := by rw [hos, hs]
  rw [hqo] at hsh hp
  have hn := notMask_entry m p.shape.reverse o.shape.reverse hwf hsh fl hfl
  have hm0 : srcAt m (0 : Int) o.shape.reverse fl ≠ 0 := hm
  have hqv : q.data[fl]? = some .posZero := by
    rw [hp fl hfl, hn]
    simp [whereZero, MaskVal.eqConst, hm0]
  rw [hd, List.getElem?_zipWith, hqv]
  cases y.data[fl]? with
  | none => rfl
  | some a => simp [add_posZero_right]

/-- **Hard data consistency, unsampled positions**: the output is `measured + prediction`; for a properly masked
measurement (`+0` there) it is the prediction (sign of a zero aside). -/
theorem hardDC_unsampled (m : Tensor Int) (y p o : Tensor FVal) (h : hardDC m y p = some o)
    (hwf : m.data.length = prodR m.shape.reverse) (fl : Nat) (hfl : fl < prodR o.shape.reverse)
    (hm : srcAt m default o.shape.reverse fl = 0) (hy : y.data[fl]? = some .posZero) :
    o.data[fl]? = some (srcAt p .posZero o.shape.reverse fl).unsign := by
  obtain ⟨q, hq, ha⟩ := hardDC_some m y p o h
  obtain ⟨hs, hos, hd⟩ := addT_some y q o ha
  obtain ⟨_, hw⟩ := applyMask_ok _ p q hq
  obtain ⟨hsh, _, hp⟩ := where_pointwise _ _ p q hw
  have hqo : q.shape = o.shape := by rw [hos, hs]
  rw [hqo] at hsh hp
  have hn := notMask_entry m p.shape.reverse o.shape.reverse hwf hsh fl hfl
  have hm0 : srcAt m (0 : Int) o.shape.reverse fl = 0 := hm
  have hqv : q.data[fl]? = some (srcAt p .posZero o.shape.reverse fl) := by
    rw [hp fl hfl, hn]
    simp [whereZero, MaskVal.eqConst, hm0]
  rw [hd, List.getElem?_zipWith, hqv, hy]
  simp [add_posZero_left]

/-- **The prediction at sampled positions never reaches the data-consistent output**: two predictions that agree
wherever the mask is *unset* give the same output. -/
theorem hardDC_prediction_noninterference (m : Tensor Int) (y p p' : Tensor FVal)
    (h : agreeOnSupport (notMask m) p p') : hardDC m y p = hardDC m y p' := by
  unfold hardDC
  rw [mask_noninterference (notMask m) p p' h]

/-- same for the whole SSL / JSSL iteration output (padding and target projection included) -/
theorem sslOutput_prediction_noninterference (m : Tensor Int) (y p p' : Tensor FVal) (pad tgt : Option (Tensor Int))
    (h : agreeOnSupport (notMask m) p p') : sslOutput m y p pad tgt = sslOutput m y p' pad tgt := by
  unfold sslOutput
  rw [hardDC_prediction_noninterference m y p p' h]

/-- SSL training: the output k-space is exactly `+0` off the *target* mask -/
theorem sslOutput_off_target (m t : Tensor Int) (y p o : Tensor FVal) (pad : Option (Tensor Int))
    (h : sslOutput m y p pad (some t) = some o) (fl : Nat) (hfl : fl < prodR o.shape.reverse)
    (ht : srcAt t default o.shape.reverse fl = 0) : o.data[fl]? = some .posZero := by
  unfold sslOutput at h
  cases hh : hardDC m y p with
  | none => simp [hh] at h
  | some o1 =>
    simp only [hh] at h
    cases hp : applyPadding pad o1 with
    | ok o2 =>
      simp only [hp] at h
      have : applyMask t o2 = .ok o := by
        cases ha : applyMask t o2 <;> simp_all [Res.toOption]
      exact mask_off_support_int t o2 o this fl hfl ht
    | assertionError => simp [hp] at h
    | runtimeError => simp [hp] at h

/-- inference: the output k-space is exactly `+0` inside the zero-padding -/
theorem sslOutput_in_padding (m pad : Tensor Int) (y p o : Tensor FVal)
    (h : sslOutput m y p (some pad) none = some o) (fl : Nat) (hfl : fl < prodR o.shape.reverse)
    (hp1 : srcAt pad default o.shape.reverse fl = 1) : o.data[fl]? = some .posZero := by
  unfold sslOutput at h
  cases hh : hardDC m y p with
  | none => simp [hh] at h
  | some o1 =>
    simp only [hh] at h
    cases hp : applyPadding (some pad) o1 with
    | ok o2 =>
      simp only [hp, Option.some.injEq] at h
      subst h
      have hp0 : srcAt pad (0 : Int) o2.shape.reverse fl = 1 := hp1
      rw [padding_pointwise pad o1 o2 hp fl hfl]
      simp [MaskVal.eqConst, hp0]
    | assertionError => simp [hp] at h
    | runtimeError => simp [hp] at h

/-! ## phase 3 — the mask-function path of the pipeline: `CreateSamplingMask` → `ApplyMask` -/

theorem create_mask_shape_default (ks : List Nat) : createMaskShape none ks = some (ks.drop 1) := rfl
theorem create_mask_shape_empty (ks : List Nat) : createMaskShape (some []) ks = some (ks.drop 1) := rfl

/-- **`pipeline_mask_path`**: the masked k-space the pipeline produces is `apply_mask(kspace, m)` with
`m = apply_padding(mask_func(shape, seed(filename)), padding)` and `shape` as `CreateSamplingMask` computes it -/
theorem pipeline_mask_path {π} [Inhabited π] [MaskVal π] (mf : List Nat → Option (List Int) → Tensor FVal)
    (opt : Option (List (Option Nat))) (useSeed : Bool) (fn : List Int) (pad : Option (Tensor π))
    (k o m : Tensor FVal) (h : pipelineMasked mf opt useSeed fn pad k = some (o, m)) :
    ∃ shp, createMaskShape opt k.shape = some shp ∧
      applyPadding pad (mf shp (seedOf useSeed fn)) = .ok m ∧ applyMask m k = .ok o := by
  unfold pipelineMasked createSamplingMask at h
  cases hs : createMaskShape opt k.shape with
  | none => simp [hs] at h
  | some shp =>
    simp only [hs] at h
    cases hp : applyPadding pad (mf shp (seedOf useSeed fn)) with
    | ok m' =>
      simp only [hp, Res.toOption] at h
      cases ha : applyMask m' k with
      | ok o' =>
        simp only [ha, Option.map_some, Option.some.injEq, Prod.mk.injEq] at h
        obtain ⟨h1, h2⟩ := h
        subst h1 h2
        exact ⟨shp, rfl, hp, ha⟩
      | assertionError => simp [ha] at h
      | runtimeError => simp [ha] at h
    | assertionError => simp [hp, Res.toOption] at h
    | runtimeError => simp [hp, Res.toOption] at h

/-- with the default options and no padding this is exactly the mask-function path of `apply_mask`
(`mask_func_path`): the mask function sees `kspace.shape[1:]` -/
theorem pipeline_default_is_mask_func_path (mf : List Nat → Option (List Int) → Tensor FVal) (useSeed : Bool)
    (fn : List Int) (k o m : Tensor FVal)
    (h : pipelineMasked mf none useSeed fn (none : Option (Tensor Int)) k = some (o, m)) :
    m = mf (k.shape.drop 1) (seedOf useSeed fn) ∧ applyMask m k = .ok o := by
  obtain ⟨shp, hs, hp, ha⟩ := pipeline_mask_path mf none useSeed fn none k o m h
  rw [create_mask_shape_default] at hs
  injection hs with hs; subst hs
  rw [padding_none] at hp
  injection hp with hp
  exact ⟨hp.symm, ha⟩

/-- same file name ⇒ same seed ⇒ same mask request (the seed is a function of the file name only) -/
theorem seedOf_filename_only (useSeed : Bool) (fn : List Int) :
    seedOf useSeed fn = if useSeed then some fn else none := rfl

/-- the stored sampling mask is unset wherever the padding is 1, for any mask function -/
theorem sampling_mask_padding_cleared {π} [Inhabited π] [MaskVal π]
    (mf : List Nat → Option (List Int) → Tensor FVal) (opt : Option (List (Option Nat))) (useSeed : Bool)
    (fn : List Int) (pad : Tensor π) (k m : Tensor FVal)
    (h : createSamplingMask mf opt useSeed fn (some pad) k = some m) (fl : Nat)
    (hfl : fl < prodR m.shape.reverse) (hp1 : MaskVal.eqConst (srcAt pad default m.shape.reverse fl) 1 = true) :
    m.data[fl]? = some .posZero := by
  unfold createSamplingMask at h
  cases hs : createMaskShape opt k.shape with
  | none => simp [hs] at h
  | some shp =>
    simp only [hs] at h
    cases hp : applyPadding (some pad) (mf shp (seedOf useSeed fn)) with
    | ok m' =>
      simp only [hp, Res.toOption, Option.some.injEq] at h
      subst h
      rw [padding_pointwise pad _ m' hp fl hfl]
      simp [hp1]
    | assertionError => simp [hp, Res.toOption] at h
    | runtimeError => simp [hp, Res.toOption] at h

/-- **`pipeline_padding_zero`**: in the documented layout (padding and sampling mask of the same shape) the masked
k-space is exactly `+0` at every position inside the zero-padding — whatever the mask function returned there and
whatever the k-space holds. -/
theorem pipeline_padding_zero {π} [Inhabited π] [MaskVal π] (mf : List Nat → Option (List Int) → Tensor FVal)
    (opt : Option (List (Option Nat))) (useSeed : Bool) (fn : List Int) (pad : Tensor π) (k o m : Tensor FVal)
    (h : pipelineMasked mf opt useSeed fn (some pad) k = some (o, m)) (hlay : m.shape = pad.shape) (fl : Nat)
    (hfl : fl < prodR o.shape.reverse)
    (hp1 : MaskVal.eqConst (srcAt pad default o.shape.reverse fl) 1 = true) :
    o.data[fl]? = some .posZero := by
  obtain ⟨shp, _, hp, ha⟩ := pipeline_mask_path mf opt useSeed fn (some pad) k o m h
  obtain ⟨hsh, _, _⟩ := mask_shape m k o ha
  have hidx := srcAt_index_lt _ _ _ hsh fl hfl
  -- the entry of the stored mask that this output position reads
  have hm' := padding_pointwise pad _ m hp _ hidx
  have hpad : srcAt pad default m.shape.reverse
      (ravelR m.shape.reverse (bIdxR m.shape.reverse (unravelR o.shape.reverse fl))) =
      srcAt pad default o.shape.reverse fl := by
    simp only [srcAt, ← hlay, bIdxR_unravelR_self, ravelR_unravelR _ _ hidx]
  rw [hpad, hp1] at hm'
  apply mask_off_support m k o ha fl hfl
  simp only [srcAt, List.getD_eq_getElem?_getD, hm']
  rfl

/-! ## phase 3 — the ACS sites of the data pipeline (repaired: `apply_mask`; pinned: `kspace * acs_mask + 0.0`) -/

/-- **as repaired**: the ACS k-space does not depend on any entry outside the ACS mask (±∞ included) … -/
theorem acs_noninterference (m : Tensor Int) (k k' : Tensor FVal) (h : agreeOnSupport m k k') :
    acsKspace m k = acsKspace m k' := mask_noninterference m k k' h

/-- … and is exactly `+0` there -/
theorem acs_off_mask_zero (m : Tensor Int) (k o : Tensor FVal) (h : acsKspace m k = .ok o) (fl : Nat)
    (hfl : fl < prodR o.shape.reverse) (hm : srcAt m default o.shape.reverse fl = 0) :
    o.data[fl]? = some .posZero := mask_off_support_int m k o h fl hfl hm


/-- for finite k-space values the product form **is** the `where` form (the `+ 0.0` removes the `-0` a product leaves) -/
theorem mul_plus_zero_eq_where_of_finite (mv : Int) (hmv : mv = 0 ∨ mv = 1) (kv : FVal)
    (hf : kv.isFinite = true) (hw : kv.wf = true) : mulPlusZero mv kv = (whereZero mv kv).unsign := by
  rcases hmv with rfl | rfl
  · cases kv with
    | fin q =>
      by_cases hq : q < 0 <;>
        simp [mulPlusZero, FVal.mulInt, FVal.add, whereZero, MaskVal.eqConst, FVal.unsign, hq]
    | posInf => simp [FVal.isFinite] at hf
    | negInf => simp [FVal.isFinite] at hf
    | posZero => decide
    | negZero => decide
  · cases kv with
    | fin q =>
      simp [mulPlusZero, FVal.mulInt, FVal.add, whereZero, MaskVal.eqConst, FVal.unsign]
    | posInf => simp [FVal.isFinite] at hf
    | negInf => simp [FVal.isFinite] at hf
    | posZero => decide
    | negZero => decide

/-- **Finding of phase 3 (repaired in /repo)**: for an infinite entry outside the ACS mask the product form is NaN (the
ill-formed value `fin 0`), where `torch.where(acs_mask == 0, 0, kspace)` gives `+0`: a value from a location that is
not sampled reached the ACS image, hence the sensitivity map. -/
theorem acs_mul_pinned_violates :
    mulPlusZero 0 .posInf = .fin 0 ∧ mulPlusZero 0 .negInf = .fin 0 ∧ (FVal.fin 0).wf = false ∧
    whereZero (0 : Int) .posInf = .posZero := by decide

/-- the pinned product form: non-interference held only when all entries involved are finite
(`acs_mul_pinned_violates` is the witness for the rest) -/
theorem acs_pinned_noninterference_partial (m : Tensor Int) (k k' : Tensor FVal) (h : agreeOnSupport m k k')
    (hm : ∀ sR fl, srcAt m default sR fl = 0 ∨ srcAt m default sR fl = 1)
    (hk : ∀ sR fl, (srcAt k .posZero sR fl).isFinite = true ∧ (srcAt k .posZero sR fl).wf = true)
    (hk' : ∀ sR fl, (srcAt k' .posZero sR fl).isFinite = true ∧ (srcAt k' .posZero sR fl).wf = true) :
    acsKspacePinned m k = acsKspacePinned m k' := by
  obtain ⟨hshape, hag⟩ := h
  unfold acsKspacePinned whereWith
  rw [← hshape]
  cases hs : outShapeR m.shape.reverse k.shape.reverse with
  | none => rfl
  | some sR =>
    simp only
    congr 2
    apply List.map_congr_left
    intro fl hfl
    have hlt : fl < prodR sR := by simpa using hfl
    rw [mul_plus_zero_eq_where_of_finite _ (hm sR fl) _ (hk sR fl).1 (hk sR fl).2,
      mul_plus_zero_eq_where_of_finite _ (hm sR fl) _ (hk' sR fl).1 (hk' sR fl).2]
    unfold whereZero
    cases hmz : MaskVal.eqConst (srcAt m default sR fl) 0 with
    | true => simp
    | false => simp [hag sR hs fl hlt hmz]

/-! ## phase 3 — non-vacuity -/

def exY : Tensor FVal :=      -- measured k-space, masked with `exM` (rows 0 unsampled)
  { shape := [2, 2, 2], data := [.posZero, .posZero, .fin 3, .fin (-4), .posZero, .posZero, .negZero, .fin 9] }
def exP : Tensor FVal :=      -- a prediction with extreme values at sampled positions
  { shape := [2, 2, 2], data := [.fin 5, .negZero, .posInf, .negInf, .fin (-6), .fin 7, .posInf, .fin 1] }
def exD : Tensor FVal :=
  { shape := [2, 2, 2], data := [.fin 5, .posZero, .fin 3, .fin (-4), .fin (-6), .fin 7, .posZero, .fin 9] }
def exMfull : Tensor Int := { shape := [2, 2, 1], data := [0, 1, 0, 1] }

example : hardDC exMfull exY exP = some exD := by decide
example : exMfull.data.length = prodR exMfull.shape.reverse := by decide
example : sslOutput exMfull exY exP none (some { shape := [2, 1, 1], data := [1, 0] }) =
    some { shape := [2, 2, 2], data := [.fin 5, .posZero, .fin 3, .fin (-4), .posZero, .posZero, .posZero, .posZero] } := by
  decide
example : createMaskShape (some [none, some 4]) [3, 5, 4, 2] = some [5, 4, 2] := by decide
example : createMaskShape (some [some 5, some 4]) [3, 5, 4, 2] = some [5, 4, 2] := by decide
example : createMaskShape (some [none, none, none]) [3, 5, 4, 2] = none := by decide   -- IndexError
def exMf (shp : List Nat) (_ : Option (List Int)) : Tensor FVal :=
  { shape := [shp.getD 0 0, 1, 1], data := [.fin 1, .posZero] }
def exPad : Tensor Int := { shape := [2, 1, 1], data := [1, 0] }
def exZero : Tensor FVal := { shape := [2, 2, 2], data := List.replicate 8 .posZero }
example : pipelineMasked exMf none true [102] (some exPad) exK =
    some (exZero, { shape := [2, 1, 1], data := [.posZero, .posZero] }) := by decide
def exAcs : Tensor FVal :=    -- `fin 0` = NaN where an infinite entry met a zero mask entry
  { shape := [2, 2, 2], data := [.posZero, .fin 0, .fin 3, .fin (-4), .fin 0, .posZero, .posZero, .fin 9] }
example : acsKspacePinned exM exK = some exAcs := by decide
example : acsKspace exM exK = .ok exO := by decide
example : mulPlusZero 1 (.fin (-4)) = (whereZero (1 : Int) (.fin (-4))).unsign := by decide

/-! ## phase 3 — broadcasting of the documented mask layouts over coil, slice / time frame and complex axis -/

theorem canonical_outShape_2d (c h w : Nat) : outShapeR [1, w, h, 1] [2, w, h, c] = some [2, w, h, c] := by
  have e1 : ∀ n : Nat, (1 = n) = (n = 1) := fun n => propext eq_comm
  by_cases hc : c = 1 <;> simp [outShapeR, bShapeR, hc, e1]

/-- 2-D multi-coil data: the same `(h, w)` pattern masks every coil and both complex components -/
theorem mask_canonical_2d {μ} [Inhabited μ] [MaskVal μ] (m : Tensor μ) (k o : Tensor FVal) (c h w : Nat)
    (hm : m.shape = [1, h, w, 1]) (hk : k.shape = [c, h, w, 2]) (hok : applyMask m k = .ok o)
    (ic ih iw ir : Nat) (hc : ic < c) (hh : ih < h) (hw : iw < w) (hr : ir < 2) :
    o.shape = [c, h, w, 2] ∧
    getIdx o .posZero [ic, ih, iw, ir] =
      whereZero (getIdx m default [0, ih, iw, 0]) (getIdx k .posZero [ic, ih, iw, ir]) := by
  obtain ⟨hsh, _, _⟩ := mask_shape m k o hok
  rw [hm, hk] at hsh
  simp only [List.reverse_cons, List.reverse_nil, List.nil_append, List.cons_append] at hsh
  rw [canonical_outShape_2d c h w] at hsh
  have hos : o.shape = [c, h, w, 2] := by
    have := congrArg List.reverse (Option.some.inj hsh)
    simpa using this.symm
  refine ⟨hos, ?_⟩
  have hin : inRange o.shape [ic, ih, iw, ir] := by
    rw [hos]; simp [inRange, inRangeR]; omega
  rw [mask_pointwise_idx m k o hok _ hin, hm, hk]
  have h1 : (if h = 1 then 0 else ih) = ih := by split <;> omega
  have h2 : (if w = 1 then 0 else iw) = iw := by split <;> omega
  have h3 : (if c = 1 then 0 else ic) = ic := by split <;> omega
  simp [bIdx, bIdxR, h1, h2, h3]


/-- the broadcast shape of a canonical 3-D / dynamic mask `(1, t', h, w, 1)` (`t' = 1`: one pattern for every slice;
`t' = s`: one pattern per slice / time frame) against k-space `(c, s, h, w, 2)` -/
theorem canonical_outShape (c s h w t' : Nat) (ht : t' = 1 ∨ t' = s) :
    outShapeR [1, w, h, t', 1] [2, w, h, s, c] = some [2, w, h, s, c] := by
  have e1 : ∀ n : Nat, (1 = n) = (n = 1) := fun n => propext eq_comm
  by_cases hc : c = 1 <;> by_cases hs : s = 1 <;> rcases ht with h1 | h1 <;>
    simp [outShapeR, bShapeR, hc, hs, h1, e1]

theorem mask_canonical_3d {μ} [Inhabited μ] [MaskVal μ] (m : Tensor μ) (k o : Tensor FVal) (c s h w t' : Nat)
    (ht : t' = 1 ∨ t' = s) (hm : m.shape = [1, t', h, w, 1]) (hk : k.shape = [c, s, h, w, 2])
    (hok : applyMask m k = .ok o) (ic is ih iw ir : Nat) (hc : ic < c) (hs : is < s) (hh : ih < h) (hw : iw < w)
    (hr : ir < 2) :
    o.shape = [c, s, h, w, 2] ∧
    getIdx o .posZero [ic, is, ih, iw, ir] =
      whereZero (getIdx m default [0, if t' = 1 then 0 else is, ih, iw, 0]) (getIdx k .posZero [ic, is, ih, iw, ir]) := by
  obtain ⟨hsh, _, _⟩ := mask_shape m k o hok
  rw [hm, hk] at hsh
  simp only [List.reverse_cons, List.reverse_nil, List.nil_append, List.cons_append] at hsh
  rw [canonical_outShape c s h w t' ht] at hsh
  have hos : o.shape = [c, s, h, w, 2] := by
    have := congrArg List.reverse (Option.some.inj hsh)
    simpa using this.symm
  refine ⟨hos, ?_⟩
  have hin : inRange o.shape [ic, is, ih, iw, ir] := by
    rw [hos]; simp [inRange, inRangeR]; omega
  rw [mask_pointwise_idx m k o hok _ hin, hm, hk]
  have h1 : (if h = 1 then 0 else ih) = ih := by split <;> omega
  have h2 : (if w = 1 then 0 else iw) = iw := by split <;> omega
  have h3 : (if c = 1 then 0 else ic) = ic := by split <;> omega
  have h4 : (if s = 1 then 0 else is) = is := by split <;> omega
  simp [bIdx, bIdxR, h1, h2, h3, h4]
  

example : applyMask ({ shape := [1, 2, 1, 1, 1], data := [0, 1] } : Tensor Int)
    { shape := [1, 2, 1, 1, 2], data := [.fin 1, .fin 2, .fin 3, .negZero] } =
    .ok { shape := [1, 2, 1, 1, 2], data := [.posZero, .posZero, .fin 3, .negZero] } := by decide

/-! ## phase 3 — why no state may survive a call -/

/-- the slot always holds a correct pair when the key determines the result -/
theorem memo_transparent {A K R} [DecidableEq K] (key : A → K) (f : A → R)
    (hkey : ∀ a b, key a = key b → f a = f b) (s : Memo A K R)
    (hs : ∀ k r, s.slot = some (k, r) → ∀ a, key a = k → f a = r) (as : List A) :
    Memo.run key f s as = as.map f := by
  induction as generalizing s with
  | nil => rfl
  | cons a as ih =>
    unfold Memo.run Memo.call
    cases hslot : s.slot with
    | none =>
      simp only [List.map_cons, List.cons.injEq, true_and]
      apply ih
      intro k r h b hb
      simp only [Option.some.injEq, Prod.mk.injEq] at h
      obtain ⟨h1, h2⟩ := h
      subst h1 h2
      exact hkey _ _ hb
    | some kr =>
      obtain ⟨k, r⟩ := kr
      by_cases hk : k = key a
      · simp only [hk, if_true, List.map_cons, List.cons.injEq]
        refine ⟨(hs k r hslot a hk.symm).symm, ih s hs⟩
      · simp only [hk, if_false, List.map_cons, List.cons.injEq, true_and]
        apply ih
        intro k' r' h b hb
        simp only [Option.some.injEq, Prod.mk.injEq] at h
        obtain ⟨h1, h2⟩ := h
        subst h1 h2
        exact hkey _ _ hb

/-- **a complete key is harmless**: every call history returns what the stateless operator returns -/
theorem memo_complete_key_transparent {A K R} [DecidableEq K] (key : A → K) (f : A → R)
    (hkey : ∀ a b, key a = key b → f a = f b) (as : List A) :
    Memo.run key f ⟨none⟩ as = as.map f :=
  memo_transparent key f hkey ⟨none⟩ (by intro k r h; cases h) as

/-- **an incomplete key leaks**: memoising `apply_mask` under the k-space alone (tensor identity / address / shape),
the second call with another mask returns the first call's support — an unsampled value of the current mask
(here `+∞` at position 1 … ) reaches the output -/
theorem memo_kspace_only_key_violates :
    Memo.run (fun (a : Tensor Int × Tensor FVal) => a.2) (fun a => applyMask a.1 a.2) ⟨none⟩ [(exM, exK), (exM2, exK)] =
      [.ok exO, .ok exO] ∧ applyMask exM2 exK ≠ .ok exO := by decide


/-- the history the driver executes is the stateless map -/
theorem mask_history_stateless (calls : List (Tensor Int × Tensor FVal)) :
    maskHistory calls = calls.map fun a => applyMask a.1 a.2 :=
  memo_complete_key_transparent (fun a => a) _ (by intro a b h; rw [h]) calls

end DirectVerif.C03
