import DirectVerif.Lemmas.C03
/-!
# C03 — under-sampling never leaks or alters k-space

Property theorems only; all statements are about the definitions of `Model/Mask.lean` that the
driver executes.  Values are `FVal` constructors, so `= .posZero` is "exactly +0 (not −0)" and
`= srcAt k …` is "bit-identical to the input entry", for ±0, ±∞ and finite extremes alike.
Flat positions `fl` range over the row-major positions of the (broadcast) output; `srcAt t d sR fl`
is the entry of `t` that output position `fl` reads under numpy broadcasting.
-/
namespace DirectVerif.C03
open DirectVerif DirectVerif.Mask

/-- pointwise description of `torch.where(pred m, +0, k)` with broadcasting -/
theorem where_pointwise {μ} [Inhabited μ] (f : μ → FVal → FVal) (m : Tensor μ) (k o : Tensor FVal)
    (h : whereWith f m k = some o) :
    outShapeR m.shape.reverse k.shape.reverse = some o.shape.reverse ∧
    o.data.length = prodR o.shape.reverse ∧
    ∀ fl, fl < prodR o.shape.reverse →
      o.data[fl]? = some (f (srcAt m default o.shape.reverse fl) (srcAt k .posZero o.shape.reverse fl)) := by
  obtain ⟨sR, hs, rfl⟩ := whereWith_some f m k o h
  simp only [List.reverse_reverse]
  refine ⟨hs, by simp, ?_⟩
  intro fl hfl
  simp [List.getElem?_map, List.getElem?_range hfl]

theorem applyMask_ok {μ} [Inhabited μ] [MaskVal μ] (m : Tensor μ) (k o : Tensor FVal)
    (h : applyMask m k = .ok o) :
    k.shape.getLast? = some 2 ∧ whereWith whereZero m k = some o := by
  unfold applyMask at h
  split at h
  · cases h
  · rename_i h2
    cases hw : whereWith whereZero m k with
    | none => simp [hw] at h
    | some o' => simp [hw] at h; subst h; exact ⟨by simpa using h2, rfl⟩

/-- **On the support the masked k-space is the input k-space, bit-identical** (any value: −0, ±∞,
±3.4e38 …), for every mask element type, every broadcastable mask shape. -/
theorem mask_on_support {μ} [Inhabited μ] [MaskVal μ] (m : Tensor μ) (k o : Tensor FVal)
    (h : applyMask m k = .ok o) (fl : Nat) (hfl : fl < prodR o.shape.reverse)
    (hm : MaskVal.eqConst (srcAt m default o.shape.reverse fl) 0 = false) :
    o.data[fl]? = some (srcAt k .posZero o.shape.reverse fl) := by
  obtain ⟨_, hw⟩ := applyMask_ok m k o h
  obtain ⟨_, _, hp⟩ := where_pointwise _ m k o hw
  rw [hp fl hfl]; simp [whereZero, hm]

/-- **Off the support the masked k-space is exactly `+0`** whatever the input entry is. -/
theorem mask_off_support {μ} [Inhabited μ] [MaskVal μ] (m : Tensor μ) (k o : Tensor FVal)
    (h : applyMask m k = .ok o) (fl : Nat) (hfl : fl < prodR o.shape.reverse)
    (hm : MaskVal.eqConst (srcAt m default o.shape.reverse fl) 0 = true) :
    o.data[fl]? = some .posZero := by
  obtain ⟨_, hw⟩ := applyMask_ok m k o h
  obtain ⟨_, _, hp⟩ := where_pointwise _ m k o hw
  rw [hp fl hfl]; simp [whereZero, hm]

/-- integer / boolean masks: "set" means `≠ 0` -/
theorem mask_on_support_int (m : Tensor Int) (k o : Tensor FVal) (h : applyMask m k = .ok o)
    (fl : Nat) (hfl : fl < prodR o.shape.reverse) (hm : srcAt m default o.shape.reverse fl ≠ 0) :
    o.data[fl]? = some (srcAt k .posZero o.shape.reverse fl) :=
  mask_on_support m k o h fl hfl (by simpa [MaskVal.eqConst] using hm)

theorem mask_off_support_int (m : Tensor Int) (k o : Tensor FVal) (h : applyMask m k = .ok o)
    (fl : Nat) (hfl : fl < prodR o.shape.reverse) (hm : srcAt m default o.shape.reverse fl = 0) :
    o.data[fl]? = some .posZero :=
  mask_off_support m k o h fl hfl (by simpa [MaskVal.eqConst] using hm)

/-- float masks: an entry is "unset" exactly when it is `+0` or `−0` -/
theorem float_mask_off_iff (v : FVal) (hv : v.wf = true) :
    MaskVal.eqConst v 0 = true ↔ (v = .posZero ∨ v = .negZero) := by
  cases v <;> simp_all [MaskVal.eqConst, FVal.eqInt, FVal.wf]

/-- the output has the broadcast shape and exactly that many entries, and keeps the complex axis -/
theorem mask_shape {μ} [Inhabited μ] [MaskVal μ] (m : Tensor μ) (k o : Tensor FVal)
    (h : applyMask m k = .ok o) :
    outShapeR m.shape.reverse k.shape.reverse = some o.shape.reverse ∧
    o.data.length = prodR o.shape.reverse ∧ o.shape.getLast? = some 2 := by
  obtain ⟨h2, hw⟩ := applyMask_ok m k o h
  obtain ⟨hs, hl, _⟩ := where_pointwise _ m k o hw
  refine ⟨hs, hl, ?_⟩
  rw [List.getLast?_eq_head?_reverse] at h2 ⊢
  cases hk : k.shape.reverse with
  | nil => simp [hk] at h2
  | cons a t =>
    simp [hk] at h2; subst h2
    rw [hk] at hs
    exact outShapeR_head_two _ _ _ hs

/-- **Broadcasting lemma** (multi-index form): at every in-range output index the result is the
elementwise kernel applied to the mask entry and the k-space entry selected by numpy's index map
(`bIdx`: extra leading axes dropped, length-1 axes read entry 0). -/
theorem mask_pointwise_idx {μ} [Inhabited μ] [MaskVal μ] (m : Tensor μ) (k o : Tensor FVal)
    (h : applyMask m k = .ok o) (idx : List Nat) (hi : inRange o.shape idx) :
    getIdx o .posZero idx =
      whereZero (getIdx m default (bIdx m.shape idx)) (getIdx k .posZero (bIdx k.shape idx)) := by
  obtain ⟨_, hw⟩ := applyMask_ok m k o h
  obtain ⟨_, _, hp⟩ := where_pointwise _ m k o hw
  have hlt := ravelR_lt _ _ hi
  have := hp _ hlt
  simp only [getIdx, bIdx, List.reverse_reverse, List.getD_eq_getElem?_getD, this, Option.getD_some,
    srcAt, unravelR_ravelR _ _ hi]

theorem bIdxR_one (s : List Nat) (i : Nat) (is : List Nat) :
    bIdxR (1 :: s) (i :: is) = 0 :: bIdxR s is := by simp [bIdxR]
theorem bIdxR_full (n : Nat) (hn : n ≠ 1) (s : List Nat) (i : Nat) (is : List Nat) :
    bIdxR (n :: s) (i :: is) = i :: bIdxR s is := by simp [bIdxR, hn]
theorem bIdxR_extra (is : List Nat) : bIdxR [] is = [] := by cases is <;> rfl

/-- **Idempotence**: masking an already masked k-space changes nothing (not even a sign bit). -/
theorem mask_idempotent {μ} [Inhabited μ] [MaskVal μ] (m : Tensor μ) (k o : Tensor FVal)
    (h : applyMask m k = .ok o) : applyMask m o = .ok o := by
  obtain ⟨_, _, hlast⟩ := mask_shape m k o h
  obtain ⟨_, hw⟩ := applyMask_ok m k o h
  obtain ⟨sR, hs, rfl⟩ := whereWith_some _ m k o hw
  have hs' := outShapeR_idem _ _ _ hs
  unfold applyMask
  simp only [hlast, ne_eq, not_true_eq_false, if_false]
  unfold whereWith
  simp only [List.reverse_reverse, hs']
  congr 2
  apply List.map_congr_left
  intro fl hfl
  have hlt : fl < prodR sR := by simpa using hfl
  rw [srcAt_self sR _ _ fl hlt]
  simp only [List.getD_eq_getElem?_getD, List.getElem?_map, List.getElem?_range hlt, Option.map_some,
    Option.getD_some]
  unfold whereZero
  split <;> simp_all

/-- **Non-interference**: two k-spaces that agree on the support give the same masked k-space —
no unsampled value reaches the output. -/
theorem mask_noninterference {μ} [Inhabited μ] [MaskVal μ] (m : Tensor μ) (k k' : Tensor FVal)
    (h : agreeOnSupport m k k') : applyMask m k = applyMask m k' := by
  obtain ⟨hshape, hag⟩ := h
  have hw : whereWith whereZero m k = whereWith whereZero m k' := by
    unfold whereWith
    rw [← hshape]
    cases hs : outShapeR m.shape.reverse k.shape.reverse with
    | none => rfl
    | some sR =>
      simp only
      congr 2
      apply List.map_congr_left
      intro fl hfl
      have hlt : fl < prodR sR := by simpa using hfl
      unfold whereZero
      cases hm : MaskVal.eqConst (srcAt m default sR fl) 0 with
      | true => simp
      | false => simp [hag sR hs fl hlt hm]
  unfold applyMask
  rw [hw, hshape]

/-- same for the bare `torch.where` used by `MRILogLikelihood` / `ConjGrad` (no complex assert) -/
theorem where_noninterference {μ} [Inhabited μ] [MaskVal μ] (m : Tensor μ) (k k' : Tensor FVal)
    (h : agreeOnSupport m k k') : whereWith whereZero m k = whereWith whereZero m k' := by
  obtain ⟨hshape, hag⟩ := h
  unfold whereWith
  rw [← hshape]
  cases hs : outShapeR m.shape.reverse k.shape.reverse with
  | none => rfl
  | some sR =>
    simp only
    congr 2
    apply List.map_congr_left
    intro fl hfl
    have hlt : fl < prodR sR := by simpa using hfl
    unfold whereZero
    cases hm : MaskVal.eqConst (srcAt m default sR fl) 0 with
    | true => simp
    | false => simp [hag sR hs fl hlt hm]

/-- `apply_padding`: padded positions (`padding == 1`) become exactly `+0`, all others are
bit-identical; `None` is the identity. -/
theorem padding_pointwise {μ} [Inhabited μ] [MaskVal μ] (p : Tensor μ) (d o : Tensor FVal)
    (h : applyPadding (some p) d = .ok o) (fl : Nat) (hfl : fl < prodR o.shape.reverse) :
    o.data[fl]? = some (if MaskVal.eqConst (srcAt p default o.shape.reverse fl) 1 then .posZero
                        else srcAt d .posZero o.shape.reverse fl) := by
  unfold applyPadding at h
  cases hw : whereWith wherePad p d with
  | none => simp [hw] at h
  | some o' =>
    simp [hw] at h; subst h
    obtain ⟨_, _, hp⟩ := where_pointwise _ p d o' hw
    rw [hp fl hfl]; rfl

theorem padding_none {μ} [Inhabited μ] [MaskVal μ] (d : Tensor FVal) :
    applyPadding (none : Option (Tensor μ)) d = .ok d := rfl

/-- mask given as a mask function: the mask is `mask_func(shape = kspace.shape[1:], seed)` for any
seed, it is returned unchanged, and the k-space is masked with it. -/
theorem mask_func_path {μ} [Inhabited μ] [MaskVal μ] (mf : List Nat → Option Int → Tensor μ)
    (k o : Tensor FVal) (seed : Option Int) (mk : Tensor μ)
    (h : applyMaskFunc mf k seed = .ok (o, mk)) :
    mk = mf (k.shape.drop 1) seed ∧ applyMask mk k = .ok o := by
  unfold applyMaskFunc at h
  split at h
  · cases h
  · rename_i h2
    simp only at h
    cases hw : whereWith whereZero (mf (k.shape.drop 1) seed) k with
    | none => rw [hw] at h; cases h
    | some o' =>
      rw [hw] at h
      injection h with h
      injection h with h1 h3
      subst h1 h3
      refine ⟨rfl, ?_⟩
      unfold applyMask
      rw [if_neg h2, hw]

/-! ## `ApplyMaskModule` on sample dicts -/

/-- **`apply_mask_module_ignores_existing_target`**: whatever is already stored under the target key
(nothing, stale k-space of the same or another shape) has no influence on the result. -/
theorem apply_mask_module_ignores_existing_target {μ} [Inhabited μ] [MaskVal μ] (s : Sample μ)
    (t' : Option (Tensor FVal)) : applyMaskModule { s with target := t' } = applyMaskModule s := rfl

/-- the module is `apply_mask` of the current input and the current mask -/
theorem apply_mask_module_eq {μ} [Inhabited μ] [MaskVal μ] (k : Tensor FVal) (m : Tensor μ)
    (t : Option (Tensor FVal)) :
    applyMaskModule { input := some k, mask := some m, target := t } = ModRes.ofRes (applyMask m k) := rfl

/-- missing keys are rejected, never defaulted -/
theorem apply_mask_module_missing {μ} [Inhabited μ] [MaskVal μ] (s : Sample μ)
    (h : s.input = none ∨ s.mask = none) : applyMaskModule s = .valueError := by
  unfold applyMaskModule
  rcases h with h | h
  · rw [h]
  · rw [h]; cases s.input <;> rfl

/-- **Histories**: applying the module repeatedly to the same dict with new masks, every step's
result is `apply_mask(input, current mask)` — for any initial stale target, any number of steps. -/
theorem module_history {μ} [Inhabited μ] [MaskVal μ] (k : Tensor FVal) (t : Option (Tensor FVal))
    (ms : List (Tensor μ)) :
    moduleHistory k t ms = ms.map fun m => ModRes.ofRes (applyMask m k) := by
  induction ms generalizing t with
  | nil => rfl
  | cons m ms ih => simp only [moduleHistory, List.map_cons, ih, apply_mask_module_eq]

/-- hence each step is bit-identical to the input on the current mask's support and `+0` off it -/
theorem module_history_step {μ} [Inhabited μ] [MaskVal μ] (k : Tensor FVal) (t : Option (Tensor FVal))
    (ms : List (Tensor μ)) (i : Nat) (m : Tensor μ) (o : Tensor FVal) (hm : ms[i]? = some m)
    (ho : (moduleHistory k t ms)[i]? = some (.ok o)) : applyMask m k = .ok o := by
  rw [module_history, List.getElem?_map, hm] at ho
  simp only [Option.map_some, Option.some.injEq] at ho
  cases ha : applyMask m k <;> simp_all [ModRes.ofRes]

/-! ## operators -/

theorem runStages_append {V} (ops : Ops V) (a b : List Stage) (x : V) :
    runStages ops (a ++ b) x = (runStages ops a x).bind (runStages ops b) := by
  induction a generalizing x with
  | nil => simp [runStages]
  | cons st rest ih =>
    cases st <;> simp only [List.cons_append, runStages, ih]
    cases ops.mask x <;> simp [ih]

/-- any operator whose **last** stage is the mask returns a masked tensor, whatever the other
stages (Fourier transform, coil expansion, …) do -/
theorem last_mask_output {V} (ops : Ops V) (stages : List Stage) (hwf : stages.getLast? = some .mask)
    (x o : V) (h : runStages ops stages x = some o) : ∃ v, ops.mask v = some o := by
  obtain ⟨pre, rfl⟩ : ∃ pre, stages = pre ++ [.mask] := by
    rcases List.eq_nil_or_concat stages with h0 | ⟨pre, b, rfl⟩
    · subst h0; simp at hwf
    · refine ⟨pre, ?_⟩
      simp at hwf; subst hwf; simp
  rw [runStages_append] at h
  cases hp : runStages ops pre x with
  | none => simp [hp] at h
  | some v =>
    simp [hp, runStages] at h
    exact ⟨v, by cases hm : ops.mask v <;> simp_all⟩

/-- any operator whose **first** stage is the mask only sees the masked input -/
theorem first_mask_input {V} (ops : Ops V) (stages : List Stage) (hwf : stages.head? = some .mask)
    (y y' : V) (h : ops.mask y = ops.mask y') : runStages ops stages y = runStages ops stages y' := by
  cases stages with
  | nil => simp at hwf
  | cons st rest =>
    simp at hwf; subst hwf
    simp [runStages, h]

/-- **The masked forward operator's output is exactly `+0` off the support** for arbitrary
`forward_operator` and `expand_operator`. -/
theorem fwdOp_supported {μ} [Inhabited μ] [MaskVal μ] (expand F : Tensor FVal → Tensor FVal)
    (m : Tensor μ) (x o : Tensor FVal) (h : fwdOp expand F m x = some o) (fl : Nat)
    (hfl : fl < prodR o.shape.reverse)
    (hm : MaskVal.eqConst (srcAt m default o.shape.reverse fl) 0 = true) :
    o.data[fl]? = some .posZero := by
  obtain ⟨v, hv⟩ := last_mask_output _ fwdStages (by decide) x o h
  have : applyMask m v = .ok o := by
    cases ha : applyMask m v <;> simp_all [Res.toOption]
  exact mask_off_support m v o this fl hfl hm

/-- … and on the support it is the un-masked `F (expand x)` entry, bit-identical -/
theorem fwdOp_on_support {μ} [Inhabited μ] [MaskVal μ] (expand F : Tensor FVal → Tensor FVal)
    (m : Tensor μ) (x o : Tensor FVal) (h : fwdOp expand F m x = some o) (fl : Nat)
    (hfl : fl < prodR o.shape.reverse)
    (hm : MaskVal.eqConst (srcAt m default o.shape.reverse fl) 0 = false) :
    o.data[fl]? = some (srcAt (F (expand x)) .posZero o.shape.reverse fl) := by
  have hv : (applyMask m (F (expand x))).toOption = some o := by
    simpa [fwdOp, fwdStages, runStages] using h
  have : applyMask m (F (expand x)) = .ok o := by
    cases ha : applyMask m (F (expand x)) <;> simp_all [Res.toOption]
  exact mask_on_support m _ o this fl hfl hm

/-- **The masked backward operator does not depend on unsampled entries of its input** for
arbitrary `backward_operator` and `reduce_operator`. -/
theorem bwdOp_noninterference {μ} [Inhabited μ] [MaskVal μ] (Finv reduce : Tensor FVal → Tensor FVal)
    (m : Tensor μ) (y y' : Tensor FVal) (h : agreeOnSupport m y y') :
    bwdOp Finv reduce m y = bwdOp Finv reduce m y' := by
  unfold bwdOp
  apply first_mask_input _ bwdStages (by decide)
  simp only [mask_noninterference m y y' h]

/-- same for `ConjGrad._A_star_op` -/
theorem aStarOp_noninterference {μ} [Inhabited μ] [MaskVal μ] (Finv reduce : Tensor FVal → Tensor FVal)
    (m : Tensor μ) (y y' : Tensor FVal) (h : agreeOnSupport m y y') :
    aStarOp Finv reduce m y = aStarOp Finv reduce m y' := by
  unfold aStarOp
  apply first_mask_input _ bwdStages (by decide)
  simp only [where_noninterference m y y' h]

/-- **`MRILogLikelihood` does not depend on unsampled entries of the data `y`** … -/
theorem loglik_noninterference_y {μ I O} [Inhabited μ] [MaskVal μ] (pre : I → Tensor FVal)
    (F B : Tensor FVal → Tensor FVal) (sub : Tensor FVal → Tensor FVal → Tensor FVal)
    (scale : Tensor FVal → Tensor FVal) (post : Tensor FVal → O) (m : Tensor μ) (x : I)
    (y y' : Tensor FVal) (h : agreeOnSupport m y y') :
    loglik pre F B sub scale post m x y = loglik pre F B sub scale post m x y' := by
  unfold loglik
  rw [where_noninterference m y y' h]

/-- … **nor on unsampled entries of the prediction `F (E x)`**: two forward operators whose
outputs agree on the support give the same log-likelihood gradient. -/
theorem loglik_noninterference_fx {μ I O} [Inhabited μ] [MaskVal μ] (pre : I → Tensor FVal)
    (F F' B : Tensor FVal → Tensor FVal) (sub : Tensor FVal → Tensor FVal → Tensor FVal)
    (scale : Tensor FVal → Tensor FVal) (post : Tensor FVal → O) (m : Tensor μ) (x : I)
    (y : Tensor FVal) (h : agreeOnSupport m (F (pre x)) (F' (pre x))) :
    loglik pre F B sub scale post m x y = loglik pre F' B sub scale post m x y := by
  unfold loglik
  rw [where_noninterference m _ _ h]

/-- **`loglik_noninterference`**: both at once — changing the unsampled entries of the data and of
the prediction (through any other forward operator) leaves the output unchanged. -/
theorem loglik_noninterference {μ I O} [Inhabited μ] [MaskVal μ] (pre : I → Tensor FVal)
    (F F' B : Tensor FVal → Tensor FVal) (sub : Tensor FVal → Tensor FVal → Tensor FVal)
    (scale : Tensor FVal → Tensor FVal) (post : Tensor FVal → O) (m : Tensor μ) (x : I)
    (y y' : Tensor FVal) (hy : agreeOnSupport m y y')
    (hf : agreeOnSupport m (F (pre x)) (F' (pre x))) :
    loglik pre F B sub scale post m x y = loglik pre F' B sub scale post m x y' := by
  rw [loglik_noninterference_y pre F B sub scale post m x y y' hy,
    loglik_noninterference_fx pre F F' B sub scale post m x y' hf]

/-- the concrete `error` tensor the driver computes is an instance of `loglik`, hence inherits both -/
theorem loglikError_noninterference {μ} [Inhabited μ] [MaskVal μ] (m : Tensor μ)
    (fx fx' y y' : Tensor FVal) (s : Int) (h1 : agreeOnSupport m fx fx') (h2 : agreeOnSupport m y y') :
    loglikError m fx y s = loglikError m fx' y' s := by
  unfold loglikError
  rw [loglik_noninterference_y _ _ _ _ _ _ m () y y' h2]
  unfold loglik
  simp only [id]
  rw [where_noninterference m fx fx' h1]

/-! ## every masking site under `direct/nn` (table generated by the AST scan) -/

/-- a well-formed `where` site computes exactly the model kernel `mask == 0 ? +0 : data` -/
theorem wf_where_site_kernel {μ} [MaskVal μ] (w : WhereSite) (h : w.wf = true) (mv : μ) (kv : FVal) :
    w.kernel mv kv = whereZero mv kv := by
  obtain ⟨pe, pl, tb, eb⟩ := w
  simp only [WhereSite.wf, Bool.and_eq_true, beq_iff_eq] at h
  obtain ⟨⟨⟨h1, h2⟩, h3⟩, h4⟩ := h
  subst h1 h2 h3 h4
  simp only [WhereSite.kernel, whereZero, Branch.pick, if_true]

/-- … hence, at **every** well-formed site, the masked quantity is `+0` off the support, bit-identical
on it, and does not depend on unsampled entries of its operand (for every mask type / shape). -/
theorem wf_site_pointwise {μ} [Inhabited μ] [MaskVal μ] (w : WhereSite) (h : w.wf = true)
    (m : Tensor μ) (k : Tensor FVal) : whereWith w.kernel m k = whereWith whereZero m k := by
  have : (w.kernel : μ → FVal → FVal) = whereZero := by
    funext mv kv; exact wf_where_site_kernel w h mv kv
  rw [this]

theorem wf_site_noninterference {μ} [Inhabited μ] [MaskVal μ] (w : WhereSite) (h : w.wf = true)
    (m : Tensor μ) (k k' : Tensor FVal) (hk : agreeOnSupport m k k') :
    whereWith w.kernel m k = whereWith w.kernel m k' := by
  rw [wf_site_pointwise w h, wf_site_pointwise w h]
  exact where_noninterference m k k' hk

theorem wf_site_off_support {μ} [Inhabited μ] [MaskVal μ] (w : WhereSite) (h : w.wf = true)
    (m : Tensor μ) (k o : Tensor FVal) (ho : whereWith w.kernel m k = some o) (fl : Nat)
    (hfl : fl < prodR o.shape.reverse)
    (hm : MaskVal.eqConst (srcAt m default o.shape.reverse fl) 0 = true) :
    o.data[fl]? = some .posZero := by
  rw [wf_site_pointwise w h] at ho
  obtain ⟨_, _, hp⟩ := where_pointwise _ m k o ho
  rw [hp fl hfl]; simp [whereZero, hm]

/-- a site that is not of the accepted form is rejected by the decidable predicate: the product form
is flagged, a `where` with another predicate or constant is not well-formed -/
example : Site.wf { file := "f", func := "g", form := .flagged "multiplication by the mask", operand := "x",
                    mask := "m", zeroDtypeOf := "" } = false := by decide
example : (WhereSite.wf { predEq := true, predLit := 1, thenB := .const .posZero, elseB := .data }) = false := by decide
example : (WhereSite.wf { predEq := true, predLit := 0, thenB := .const .negZero, elseB := .data }) = false := by decide
example : (WhereSite.wf { predEq := true, predLit := 0, thenB := .const .posZero, elseB := .data }) = true := by decide

/-- why the code must be a `where` and not a product: `kspace * mask` leaves `−0` for negative
entries and NaN for infinite ones at unsampled positions. -/
theorem mul_variant_violates :
    mulMask 0 (.fin (-3)) = some .negZero ∧ mulMask 0 .posInf = none ∧
    whereZero (0 : Int) (.fin (-3)) = .posZero ∧ whereZero (0 : Int) .posInf = .posZero := by decide

/-! ## non-vacuity: the hypotheses are met by concrete tensors -/

/-- mask `(2,1)` broadcast over k-space `(2,2,2)` holding `−0, +∞, −∞, 7 …` -/
def exK : Tensor FVal :=
  { shape := [2, 2, 2], data := [.negZero, .posInf, .fin 3, .fin (-4), .negInf, .fin 7, .negZero, .fin 9] }
def exM : Tensor Int := { shape := [2, 1], data := [0, 1] }
def exO : Tensor FVal :=
  { shape := [2, 2, 2], data := [.posZero, .posZero, .fin 3, .fin (-4), .posZero, .posZero, .negZero, .fin 9] }

example : applyMask exM exK = .ok exO := by decide
example : applyMask exM exO = .ok exO := mask_idempotent exM exK exO (by decide)
example : srcAt exM default exO.shape.reverse 6 ≠ 0 ∧ exO.data[6]? = some .negZero := by decide
example : srcAt exM default exO.shape.reverse 4 = 0 ∧ exO.data[4]? = some .posZero := by decide
example : fwdOp id id exM exK = some exO := by decide
example : bwdOp id id exM exK = some exO := by decide
/-- a stale same-shape target and a second application with another mask -/
def exM2 : Tensor Int := { shape := [2, 1], data := [1, 0] }
example : moduleHistory exK (some exK) [exM, exM2] =
    [.ok exO, ModRes.ofRes (applyMask exM2 exK)] := by decide
example : applyMaskModule { input := some exK, mask := some exM, target := some exK } = .ok exO := by decide
example : applyMaskModule ({ input := some exK, mask := none, target := none } : Sample Int) = .valueError := by
  decide
example : applyMask ({ shape := [3], data := [1, 1, 1] } : Tensor Int) exK = .runtimeError := by decide
example : applyMask exM ({ shape := [2, 3], data := [] } : Tensor FVal) = .assertionError := by decide
example : agreeOnSupport exM exK exO := by
  refine ⟨rfl, ?_⟩
  intro sR hs fl hfl hm
  have : sR = [2, 2, 2] := by
    have : outShapeR exM.shape.reverse exK.shape.reverse = some [2, 2, 2] := by decide
    rw [this] at hs; exact (Option.some.inj hs).symm
  subst this
  have hfl' : fl < 8 := hfl
  have h8 : ∀ fl, fl < 8 → MaskVal.eqConst (srcAt exM default [2, 2, 2] fl) 0 = false →
      srcAt exK .posZero [2, 2, 2] fl = srcAt exO .posZero [2, 2, 2] fl := by decide
  exact h8 fl hfl' hm

end DirectVerif.C03
