import DirectVerif.Model.Shift
import DirectVerif.Model.Fft
import DirectVerif.Lemmas.C01Shift
/-!
# C01 — Fourier operators are exact inverse pairs; shift helpers are mutual inverses and equal the
reference shift for odd and even lengths

Property theorems only.  Part 1 is about `Model/Shift.lean` (`rollOne`, `fftshift1`, `ifftshift1`:
the one-axis list functions the driver applies along every requested axis).  Part 2 is about
`Model/Fft.lean` (`fft2`, `ifft2` = interpretation of the plan the translator regenerates from the
source), over an abstract per-axis transform pair.  The concrete DFT statement is in
`Props/C01Dft.lean`-free form at the end (see the comment there).
-/
namespace DirectVerif.C01
open DirectVerif DirectVerif.Shift DirectVerif.Fft

/-! ## Part 1: roll / fftshift / ifftshift on one axis, every length, every element type -/

theorem rollOne_length {α} (s : Int) (xs : List α) : (rollOne s xs).length = xs.length :=
  C01L.rollOne_length s xs

/-- index form, integer version: `(rollOne s xs)[i] = xs[(i - s) mod n]` -/
theorem rollOne_getElem?_int {α} (s : Int) (xs : List α) (i : Nat) (hi : i < xs.length) :
    (rollOne s xs)[i]? = xs[(((i : Int) - s) % (xs.length : Int)).toNat]? :=
  C01L.rollOne_getElem?_int s xs i hi

/-- **index form**: `(rollOne s xs)[i] = xs[(i + n - s % n) % n]` (Python `%`), for every shift
(also negative and larger than `n`). -/
theorem rollOne_getElem? {α} (s : Int) (xs : List α) (i : Nat) (hi : i < xs.length) :
    (rollOne s xs)[i]? = xs[(i + xs.length - (s % (xs.length : Int)).toNat) % xs.length]? := by
  rw [C01L.rollOne_getElem?_int s xs i hi, C01L.srcIdx_nat s xs.length i hi]

theorem rollOne_getElem {α} (s : Int) (xs : List α) (i : Nat) (hi : i < xs.length) :
    (rollOne s xs)[i]'(by rw [rollOne_length]; exact hi) =
      xs[(i + xs.length - (s % (xs.length : Int)).toNat) % xs.length]'(Nat.mod_lt _ (by omega)) := by
  have h := rollOne_getElem? s xs i hi
  rw [List.getElem?_eq_getElem (by rw [rollOne_length]; exact hi),
    List.getElem?_eq_getElem (Nat.mod_lt _ (by omega))] at h
  exact Option.some.inj h

/-- `roll_one_dim` equals the reference (numpy) roll `out[j] = x[(j - shift) mod n]`. -/
theorem rollOne_eq_rollRef {α} [Inhabited α] (s : Int) (xs : List α) : rollOne s xs = rollRef s xs := by
  apply List.ext_getElem?
  intro i
  by_cases hi : i < xs.length
  · rw [rollOne_getElem?_int s xs i hi]
    have hn : 0 < xs.length := by omega
    simp only [rollRef, List.getElem?_map, List.getElem?_range hi, Option.map_some,
      Int.fmod_eq_emod_of_nonneg _ (Int.natCast_nonneg xs.length), List.getD_eq_getElem?_getD]
    have := C01L.srcIdx_lt s xs.length i hn
    rw [List.getElem?_eq_getElem this]
    rfl
  · rw [List.getElem?_eq_none (by rw [rollOne_length]; omega),
      List.getElem?_eq_none (by simp [rollRef]; omega)]

/-- rolling by a multiple of the length is the identity -/
theorem rollOne_of_emod_zero {α} (s : Int) (xs : List α) (h : s % (xs.length : Int) = 0) :
    rollOne s xs = xs := by
  simp only [rollOne]
  split
  · rfl
  · rw [Int.fmod_eq_emod_of_nonneg _ (Int.natCast_nonneg xs.length), h]; rfl

/-- **composition of rolls adds the shifts** (mod `n`) -/
theorem rollOne_add {α} (s t : Int) (xs : List α) : rollOne s (rollOne t xs) = rollOne (s + t) xs := by
  apply List.ext_getElem?
  intro i
  by_cases hi : i < xs.length
  · have hn : 0 < xs.length := by omega
    have hl := rollOne_length t xs
    rw [rollOne_getElem?_int s _ i (by omega), hl]
    have hj := C01L.srcIdx_lt s xs.length i hn
    rw [rollOne_getElem?_int t xs _ hj, rollOne_getElem?_int (s + t) xs i hi]
    have h0 : 0 ≤ ((i : Int) - s) % (xs.length : Int) := Int.emod_nonneg _ (by omega)
    rw [Int.toNat_of_nonneg h0, Int.emod_sub_emod, Int.sub_sub]
  · rw [List.getElem?_eq_none (by simp only [rollOne_length]; omega),
      List.getElem?_eq_none (by simp only [rollOne_length]; omega)]

/-- a roll only permutes the entries (used for energy preservation) -/
theorem rollOne_perm {α} (s : Int) (xs : List α) : (rollOne s xs).Perm xs := by
  simp only [rollOne]
  split
  · exact List.Perm.refl _
  · split
    · exact List.Perm.refl _
    · exact List.perm_append_comm.trans (by rw [List.take_append_drop])

theorem shift_amounts_sum (n : Int) : fftshiftAmount n + ifftshiftAmount n = n := by
  unfold fftshiftAmount ifftshiftAmount; omega

/-- **fftshift ∘ ifftshift = id** for every length (odd and even) -/
theorem fftshift_ifftshift_id {α} (xs : List α) : fftshift1 (ifftshift1 xs) = xs := by
  unfold fftshift1 ifftshift1
  rw [rollOne_length, rollOne_add, shift_amounts_sum]
  exact rollOne_of_emod_zero _ xs Int.emod_self

/-- **ifftshift ∘ fftshift = id** for every length (odd and even) -/
theorem ifftshift_fftshift_id {α} (xs : List α) : ifftshift1 (fftshift1 xs) = xs := by
  unfold fftshift1 ifftshift1
  rw [rollOne_length, rollOne_add, Int.add_comm, shift_amounts_sum]
  exact rollOne_of_emod_zero _ xs Int.emod_self

theorem fftshift1_length {α} (xs : List α) : (fftshift1 xs).length = xs.length := rollOne_length _ xs
theorem ifftshift1_length {α} (xs : List α) : (ifftshift1 xs).length = xs.length := rollOne_length _ xs

/-- a roll by `c` sends entry `i` to position `(i + c) mod n` -/
theorem rollOne_sends {α} (c : Nat) (xs : List α) (i : Nat) (hi : i < xs.length) :
    (rollOne (c : Int) xs)[(i + c) % xs.length]? = xs[i]? := by
  have hn : 0 < xs.length := by omega
  rw [rollOne_getElem?_int _ xs _ (Nat.mod_lt _ hn), Int.natCast_emod, Int.emod_sub_emod]
  congr 1
  rw [Int.natCast_add, Int.add_sub_cancel, Int.emod_eq_of_lt (by omega) (by omega)]
  rfl

/-- **`fftshift` is numpy's `fftshift`**: entry `i` moves to `(i + n / 2) mod n`, odd and even `n` -/
theorem fftshift1_eq_ref {α} (xs : List α) (i : Nat) (hi : i < xs.length) :
    (fftshift1 xs)[(i + xs.length / 2) % xs.length]? = xs[i]? := by
  have := rollOne_sends (xs.length / 2) xs i hi
  simpa [fftshift1, fftshiftAmount] using this

/-- **`ifftshift` is numpy's `ifftshift`**: entry `i` moves to `(i - n / 2) mod n = (i + (n+1)/2) mod n` -/
theorem ifftshift1_eq_ref {α} (xs : List α) (i : Nat) (hi : i < xs.length) :
    (ifftshift1 xs)[(i + (xs.length + 1) / 2) % xs.length]? = xs[i]? := by
  have := rollOne_sends ((xs.length + 1) / 2) xs i hi
  simpa [ifftshift1, ifftshiftAmount] using this

/-- the two shifts differ exactly for odd lengths (why swapping them is invisible on even sizes) -/
theorem shifts_agree_iff_even (n : Nat) : fftshiftAmount n = ifftshiftAmount n ↔ n % 2 = 0 := by
  unfold fftshiftAmount ifftshiftAmount; omega

example : fftshift1 [0, 1, 2, 3, 4] = [3, 4, 0, 1, 2] := by decide
example : ifftshift1 [0, 1, 2, 3, 4] = [2, 3, 4, 0, 1] := by decide
example : fftshift1 [0, 1, 2, 3] = [2, 3, 0, 1] ∧ ifftshift1 [0, 1, 2, 3] = [2, 3, 0, 1] := by decide
example : fftshift1 (fftshift1 [0, 1, 2]) ≠ [0, 1, 2] := by decide   -- the wrong pairing fails on odd n
example : rollOne (-7) [0, 1, 2, 3, 4] = rollOne 3 [0, 1, 2, 3, 4] := by decide

end DirectVerif.C01
