import DirectVerif.Model.Shift
import DirectVerif.Model.Fft
import DirectVerif.Lemmas.C01Shift
import Mathlib.Algebra.BigOperators.Group.List.Basic
/-!
# C01 — Fourier operators are exact inverse pairs; shift helpers are mutual inverses and equal the
reference shift for odd and even lengths

Property theorems only.  Part 1 is about `Model/Shift.lean` (`rollOne`, `fftshift1`, `ifftshift1`:
the one-axis list functions the driver applies along every requested axis).  Part 2 is about
`Model/Fft.lean` (`fft2`, `ifft2` = interpretation of the plan the translator regenerates from the
source), over an abstract per-axis transform pair.  Two further modules are obligations of the same
check: `Lemmas/TensorLiftC01.lean` (the n-D statements on the tensors and the `alongAxis` the driver
runs) and `Lemmas/C01Dft.lean` (Mathlib's `ZMod.dft` as the transform: `fft2_eq_centered_dft`,
`ifft2_fft2_id_dft`, `fft2_energy_dft`).
-/
namespace DirectVerif.C01
open DirectVerif DirectVerif.Shift DirectVerif.Fft

/-! ## Part 1: roll / fftshift / ifftshift on one axis, every length, every element type -/

theorem rollOne_length {α} (s : Int) (xs : List α) : (rollOne s xs).length = xs.length :=
  C01L.rollOne_length s xs

/-- index form, integer version: `(rollOne s xs)[i] = xs[(i - s) mod n]` -/
theorem rollOne_getElem?_int {α} (s : Int) (xs : List α) (i : Nat) (hi : i < xs.length) :
    (rollOne s xs)[i]? = xs[(((i : Int) - s) % (xs.length : Int)).toNat]? :=
  C01L.rollOne_getElem?_int s xs i hi

/-- **index form**: `(rollOne s xs)[i] = xs[(i + n - s % n) % n]` (Python `%`), for every shift
(also negative and larger than `n`). -/
theorem rollOne_getElem? {α} (s : Int) (xs : List α) (i : Nat) (hi : i < xs.length) :
    (rollOne s xs)[i]? = xs[(i + xs.length - (s % (xs.length : Int)).toNat) % xs.length]? := by
  rw [C01L.rollOne_getElem?_int s xs i hi, C01L.srcIdx_nat s xs.length i hi]

theorem rollOne_getElem {α} (s : Int) (xs : List α) (i : Nat) (hi : i < xs.length) :
    (rollOne s xs)[i]'(by rw [rollOne_length]; exact hi) =
      xs[(i + xs.length - (s % (xs.length : Int)).toNat) % xs.length]'(Nat.mod_lt _ (by omega)) := by
  have h := rollOne_getElem? s xs i hi
  rw [List.getElem?_eq_getElem (by rw [rollOne_length]; exact hi),
    List.getElem?_eq_getElem (Nat.mod_lt _ (by omega))] at h
  exact Option.some.inj h

/-- `roll_one_dim` equals the reference (numpy) roll `out[j] = x[(j - shift) mod n]`. -/
theorem rollOne_eq_rollRef {α} [Inhabited α] (s : Int) (xs : List α) : rollOne s xs = rollRef s xs := by
  apply List.ext_getElem?
  intro i
  by_cases hi : i < xs.length
  · rw [rollOne_getElem?_int s xs i hi]
    have hn : 0 < xs.length := by omega
    simp only [rollRef, List.getElem?_map, List.getElem?_range hi, Option.map_some,
      Int.fmod_eq_emod_of_nonneg _ (Int.natCast_nonneg xs.length), List.getD_eq_getElem?_getD]
    have := C01L.srcIdx_lt s xs.length i hn
    rw [List.getElem?_eq_getElem this]
    rfl
  · rw [List.getElem?_eq_none (by rw [rollOne_length]; omega),
      List.getElem?_eq_none (by simp [rollRef]; omega)]

/-- rolling by a multiple of the length is the identity -/
theorem rollOne_of_emod_zero {α} (s : Int) (xs : List α) (h : s % (xs.length : Int) = 0) :
    rollOne s xs = xs := by
  simp only [rollOne]
  split
  · rfl
  · rw [Int.fmod_eq_emod_of_nonneg _ (Int.natCast_nonneg xs.length), h]; rfl

/-- **composition of rolls adds the shifts** (mod `n`) -/
theorem rollOne_add {α} (s t : Int) (xs : List α) : rollOne s (rollOne t xs) = rollOne (s + t) xs := by
  apply List.ext_getElem?
  intro i
  by_cases hi : i < xs.length
  · have hn : 0 < xs.length := by omega
    have hl := rollOne_length t xs
    rw [rollOne_getElem?_int s _ i (by omega), hl]
    have hj := C01L.srcIdx_lt s xs.length i hn
    rw [rollOne_getElem?_int t xs _ hj, rollOne_getElem?_int (s + t) xs i hi]
    have h0 : 0 ≤ ((i : Int) - s) % (xs.length : Int) := Int.emod_nonneg _ (by omega)
    rw [Int.toNat_of_nonneg h0, Int.emod_sub_emod, Int.sub_sub]
  · rw [List.getElem?_eq_none (by simp only [rollOne_length]; omega),
      List.getElem?_eq_none (by simp only [rollOne_length]; omega)]

/-- a roll only permutes the entries (used for energy preservation) -/
theorem rollOne_perm {α} (s : Int) (xs : List α) : (rollOne s xs).Perm xs := by
  simp only [rollOne]
  split
  · exact List.Perm.refl _
  · split
    · exact List.Perm.refl _
    · exact List.perm_append_comm.trans (by rw [List.take_append_drop])

theorem shift_amounts_sum (n : Int) : fftshiftAmount n + ifftshiftAmount n = n := by
  unfold fftshiftAmount ifftshiftAmount; omega

/-- **fftshift ∘ ifftshift = id** for every length (odd and even) -/
theorem fftshift_ifftshift_id {α} (xs : List α) : fftshift1 (ifftshift1 xs) = xs := by
  unfold fftshift1 ifftshift1
  rw [rollOne_length, rollOne_add, shift_amounts_sum]
  exact rollOne_of_emod_zero _ xs Int.emod_self

/-- **ifftshift ∘ fftshift = id** for every length (odd and even) -/
theorem ifftshift_fftshift_id {α} (xs : List α) : ifftshift1 (fftshift1 xs) = xs := by
  unfold fftshift1 ifftshift1
  rw [rollOne_length, rollOne_add, Int.add_comm, shift_amounts_sum]
  exact rollOne_of_emod_zero _ xs Int.emod_self

theorem fftshift1_length {α} (xs : List α) : (fftshift1 xs).length = xs.length := rollOne_length _ xs
theorem ifftshift1_length {α} (xs : List α) : (ifftshift1 xs).length = xs.length := rollOne_length _ xs

/-- a roll by `c` sends entry `i` to position `(i + c) mod n` -/
theorem rollOne_sends {α} (c : Nat) (xs : List α) (i : Nat) (hi : i < xs.length) :
    (rollOne (c : Int) xs)[(i + c) % xs.length]? = xs[i]? := by
  have hn : 0 < xs.length := by omega
  rw [rollOne_getElem?_int _ xs _ (Nat.mod_lt _ hn), Int.natCast_emod, Int.emod_sub_emod]
  congr 1
  rw [Int.natCast_add, Int.add_sub_cancel, Int.emod_eq_of_lt (by omega) (by omega)]
  rfl

/-- **`fftshift` is numpy's `fftshift`**: entry `i` moves to `(i + n / 2) mod n`, odd and even `n` -/
theorem fftshift1_eq_ref {α} (xs : List α) (i : Nat) (hi : i < xs.length) :
    (fftshift1 xs)[(i + xs.length / 2) % xs.length]? = xs[i]? := by
  have := rollOne_sends (xs.length / 2) xs i hi
  simpa [fftshift1, fftshiftAmount] using this

/-- **`ifftshift` is numpy's `ifftshift`**: entry `i` moves to `(i - n / 2) mod n = (i + (n+1)/2) mod n` -/
theorem ifftshift1_eq_ref {α} (xs : List α) (i : Nat) (hi : i < xs.length) :
    (ifftshift1 xs)[(i + (xs.length + 1) / 2) % xs.length]? = xs[i]? := by
  have := rollOne_sends ((xs.length + 1) / 2) xs i hi
  simpa [ifftshift1, ifftshiftAmount] using this

/-- the two shifts differ exactly for odd lengths (why swapping them is invisible on even sizes) -/
theorem shifts_agree_iff_even (n : Nat) : fftshiftAmount n = ifftshiftAmount n ↔ n % 2 = 0 := by
  unfold fftshiftAmount ifftshiftAmount; omega

example : fftshift1 [0, 1, 2, 3, 4] = [3, 4, 0, 1, 2] := by decide
example : ifftshift1 [0, 1, 2, 3, 4] = [2, 3, 4, 0, 1] := by decide
example : fftshift1 [0, 1, 2, 3] = [2, 3, 0, 1] ∧ ifftshift1 [0, 1, 2, 3] = [2, 3, 0, 1] := by decide
example : fftshift1 (fftshift1 [0, 1, 2]) ≠ [0, 1, 2] := by decide   -- the wrong pairing fails on odd n
example : rollOne (-7) [0, 1, 2, 3, 4] = rollOne 3 [0, 1, 2, 3, 4] := by decide

/-! ## Part 2: `fft2` / `ifft2` as interpreted plans

`Backend` abstracts what the plan calls: the two shifts, `torch.fft.fftn/ifftn` for a given `norm`,
and the two layout views.  `Lawful` lists the laws; they are *proved* for the one-axis list backend
(from Part 1, for every length) and for the n-D per-axis backend (from per-axis laws), and *assumed*
only for `torch.fft` itself (`inv_fwd`/`fwd_inv`: `ifftn(norm) ∘ fftn(norm) = id`). -/

structure Lawful {X} (B : Backend X) : Prop where
  fshift_ishift : ∀ x, B.fshift (B.ishift x) = x
  ishift_fshift : ∀ x, B.ishift (B.fshift x) = x
  inv_fwd : ∀ nm x, B.transform true nm (B.transform false nm x) = x
  fwd_inv : ∀ nm x, B.transform false nm (B.transform true nm x) = x
  viewC_viewR : ∀ x, B.viewComplex (B.viewReal x) = x
  viewR_viewC : ∀ x, B.viewReal (B.viewComplex x) = x

/-- **the backward transform undoes the forward transform** for every combination of
`centered`, `normalized`, `complex_input` — for any lawful backend. -/
theorem ifft2_fft2_id_of_lawful {X} {B : Backend X} (h : Lawful B) (cfg : Cfg) (x : X) :
    ifft2 B cfg (fft2 B cfg x) = x := by
  obtain ⟨c, n, ci⟩ := cfg
  cases c <;> cases n <;> cases ci <;>
    simp [ifft2, fft2, runData, fft2Plan, ifft2Plan, Guard.holds, applyOp, h.fshift_ishift,
      h.ishift_fshift, h.inv_fwd, h.viewC_viewR, h.viewR_viewC]

theorem fft2_ifft2_id_of_lawful {X} {B : Backend X} (h : Lawful B) (cfg : Cfg) (x : X) :
    fft2 B cfg (ifft2 B cfg x) = x := by
  obtain ⟨c, n, ci⟩ := cfg
  cases c <;> cases n <;> cases ci <;>
    simp [ifft2, fft2, runData, fft2Plan, ifft2Plan, Guard.holds, applyOp, h.fshift_ishift,
      h.ishift_fshift, h.fwd_inv, h.viewC_viewR, h.viewR_viewC]

/-- the one-axis list backend is lawful for **every length** (odd, even, 1, 0) as soon as the
transform pair is an inverse pair -/
theorem listBackend_lawful {α} (F : Bool → Norm → List α → List α)
    (hif : ∀ nm xs, F true nm (F false nm xs) = xs) (hfi : ∀ nm xs, F false nm (F true nm xs) = xs) :
    Lawful (listBackend F) where
  fshift_ishift := fftshift_ifftshift_id
  ishift_fshift := ifftshift_fftshift_id
  inv_fwd := hif
  fwd_inv := hfi
  viewC_viewR := fun _ => rfl
  viewR_viewC := fun _ => rfl

/-- **`ifft2 ∘ fft2 = id`** on one axis: every length, every element type, all 8 flag combinations -/
theorem ifft2_fft2_id {α} (F : Bool → Norm → List α → List α)
    (hif : ∀ nm xs, F true nm (F false nm xs) = xs) (hfi : ∀ nm xs, F false nm (F true nm xs) = xs)
    (cfg : Cfg) (xs : List α) :
    ifft2 (listBackend F) cfg (fft2 (listBackend F) cfg xs) = xs :=
  ifft2_fft2_id_of_lawful (listBackend_lawful F hif hfi) cfg xs

/-- **`fft2 ∘ ifft2 = id`** on one axis -/
theorem fft2_ifft2_id {α} (F : Bool → Norm → List α → List α)
    (hif : ∀ nm xs, F true nm (F false nm xs) = xs) (hfi : ∀ nm xs, F false nm (F true nm xs) = xs)
    (cfg : Cfg) (xs : List α) :
    fft2 (listBackend F) cfg (ifft2 (listBackend F) cfg xs) = xs :=
  fft2_ifft2_id_of_lawful (listBackend_lawful F hif hfi) cfg xs

/-! ### n-D: per-axis application along a duplicate-free axis tuple -/

theorem applyAxes_cons {X} (op : Nat → X → X) (d : Nat) (ds : List Nat) (x : X) :
    applyAxes op (d :: ds) x = applyAxes op ds (op d x) := rfl

/-- an operator on axis `d` moves through operators on other axes -/
theorem applyAxes_comm {X} (f : X → X) (g : Nat → X → X) (ds : List Nat)
    (hc : ∀ d' ∈ ds, ∀ x, f (g d' x) = g d' (f x)) (x : X) :
    f (applyAxes g ds x) = applyAxes g ds (f x) := by
  induction ds generalizing x with
  | nil => rfl
  | cons d ds ih =>
    rw [applyAxes_cons, applyAxes_cons, ih (fun d' hd' => hc d' (List.mem_cons_of_mem _ hd')),
      hc d (List.mem_cons_self ..)]

/-- per-axis inverse pairs that commute across different axes cancel along any duplicate-free
axis list (pair, triple, …) -/
theorem applyAxes_cancel {X} (f g : Nat → X → X) (dims : List Nat) (hnd : dims.Nodup)
    (hinv : ∀ d x, f d (g d x) = x)
    (hcomm : ∀ d d', d ≠ d' → ∀ x, f d (g d' x) = g d' (f d x)) (x : X) :
    applyAxes f dims (applyAxes g dims x) = x := by
  induction dims generalizing x with
  | nil => rfl
  | cons d ds ih =>
    rw [List.nodup_cons] at hnd
    rw [applyAxes_cons, applyAxes_cons,
      applyAxes_comm (f d) g ds (fun d' hd' => hcomm d d' (fun e => hnd.1 (e ▸ hd'))),
      hinv, ih hnd.2]

/-- per-axis laws: each axis has mutually inverse shifts and an inverse transform pair, and the
operators involved commute when they act on *different* axes.  For the tensors the driver runs
(`Tensor.alongAxis` liftings) the shift laws and every commutation that involves a shift are
**proved** in `Lemmas/TensorLiftC01.lean` (`fftshift_ifftshift_id_nd`, `fftshift_comm_nd`,
`ifftshift_comm_nd`, `roll_comm_nd`: a roll is an index gather and commutes with *any* per-axis
operation on another axis).  Liftings of two *arbitrary* list functions along different axes do
**not** commute in general (`TensorLift.alongAxis_comm_fails_in_general`), so `comm_F` / `comm_F'`
(the per-axis factors of `torch.fft.fftn` / `ifftn` commute — true of the DFT, which is linear on
fibres) stay hypotheses about the external transform, like `inv_fwd` / `fwd_inv`. -/
structure AxisLaws {X} (sI sF : Nat → X → X) (F : Bool → Norm → Nat → X → X) (vC vR : X → X) : Prop where
  sF_sI : ∀ d x, sF d (sI d x) = x
  sI_sF : ∀ d x, sI d (sF d x) = x
  inv_fwd : ∀ nm d x, F true nm d (F false nm d x) = x
  fwd_inv : ∀ nm d x, F false nm d (F true nm d x) = x
  comm_sF_sI : ∀ d d', d ≠ d' → ∀ x, sF d (sI d' x) = sI d' (sF d x)
  comm_sI_sF : ∀ d d', d ≠ d' → ∀ x, sI d (sF d' x) = sF d' (sI d x)
  comm_F : ∀ nm d d', d ≠ d' → ∀ x, F true nm d (F false nm d' x) = F false nm d' (F true nm d x)
  comm_F' : ∀ nm d d', d ≠ d' → ∀ x, F false nm d (F true nm d' x) = F true nm d' (F false nm d x)
  vC_vR : ∀ x, vC (vR x) = x
  vR_vC : ∀ x, vR (vC x) = x

theorem axesBackend_lawful {X} {sI sF : Nat → X → X} {F : Bool → Norm → Nat → X → X} {vC vR : X → X}
    (h : AxisLaws sI sF F vC vR) (dims : List Nat) (hnd : dims.Nodup) :
    Lawful (axesBackend sI sF F vC vR dims) where
  fshift_ishift := applyAxes_cancel sF sI dims hnd h.sF_sI h.comm_sF_sI
  ishift_fshift := applyAxes_cancel sI sF dims hnd h.sI_sF h.comm_sI_sF
  inv_fwd := fun nm => applyAxes_cancel (F true nm) (F false nm) dims hnd (h.inv_fwd nm) (h.comm_F nm)
  fwd_inv := fun nm => applyAxes_cancel (F false nm) (F true nm) dims hnd (h.fwd_inv nm) (h.comm_F' nm)
  viewC_viewR := h.vC_vR
  viewR_viewC := h.vR_vC

/-- **n-D inverse law**: for every duplicate-free axis pair / triple / tuple and all 8 flag
combinations, `ifft2 ∘ fft2 = id` and `fft2 ∘ ifft2 = id`. -/
theorem ifft2_fft2_id_axes {X} {sI sF : Nat → X → X} {F : Bool → Norm → Nat → X → X} {vC vR : X → X}
    (h : AxisLaws sI sF F vC vR) (dims : List Nat) (hnd : dims.Nodup) (cfg : Cfg) (x : X) :
    ifft2 (axesBackend sI sF F vC vR dims) cfg (fft2 (axesBackend sI sF F vC vR dims) cfg x) = x ∧
    fft2 (axesBackend sI sF F vC vR dims) cfg (ifft2 (axesBackend sI sF F vC vR dims) cfg x) = x :=
  ⟨ifft2_fft2_id_of_lawful (axesBackend_lawful h dims hnd) cfg x,
   fft2_ifft2_id_of_lawful (axesBackend_lawful h dims hnd) cfg x⟩

/-! ### energy -/

/-- **energy preservation**: if the shifts, the views and the `norm="ortho"` transform preserve an
energy functional, the normalised `fft2` and `ifft2` preserve it, for every `centered` /
`complex_input`. -/
theorem fft2_energy_of_isometry {X R} (B : Backend X) (E : X → R)
    (hI : ∀ x, E (B.ishift x) = E x) (hS : ∀ x, E (B.fshift x) = E x)
    (hF : ∀ inv x, E (B.transform inv .ortho x) = E x)
    (hC : ∀ x, E (B.viewComplex x) = E x) (hR : ∀ x, E (B.viewReal x) = E x)
    (cfg : Cfg) (hn : cfg.normalized = true) (x : X) :
    E (fft2 B cfg x) = E x ∧ E (ifft2 B cfg x) = E x := by
  obtain ⟨c, n, ci⟩ := cfg
  subst hn
  cases c <;> cases ci <;>
    simp [ifft2, fft2, runData, fft2Plan, ifft2Plan, Guard.holds, applyOp, hI, hS, hF, hC, hR]

/-- the energy of one axis: any additive weight of the entries (e.g. `|·|²`) -/
def energy {α M} [AddCommMonoid M] (w : α → M) (xs : List α) : M := (xs.map w).sum

theorem energy_rollOne {α M} [AddCommMonoid M] (w : α → M) (s : Int) (xs : List α) :
    energy w (rollOne s xs) = energy w xs :=
  ((rollOne_perm s xs).map w).sum_eq

/-- **`fft2_energy`** on one axis, every length: shifts never change the energy, so the normalised
transforms preserve it as soon as the orthonormal per-axis transform is an isometry. -/
theorem fft2_energy {α M} [AddCommMonoid M] (w : α → M) (F : Bool → Norm → List α → List α)
    (hF : ∀ inv xs, energy w (F inv .ortho xs) = energy w xs)
    (cfg : Cfg) (hn : cfg.normalized = true) (xs : List α) :
    energy w (fft2 (listBackend F) cfg xs) = energy w xs ∧
    energy w (ifft2 (listBackend F) cfg xs) = energy w xs :=
  fft2_energy_of_isometry (listBackend F) (energy w)
    (fun x => energy_rollOne w _ x) (fun x => energy_rollOne w _ x) hF (fun _ => rfl) (fun _ => rfl) cfg hn xs

/-! ### which exception the glue raises -/

/-- a negative entry in `dim` is rejected with `TypeError` before anything else, for every flag
combination, shape and dtype -/
theorem fft2_rejects_negative_dim (cfg : Cfg) (dims : List Int) (s : VState) (h : ∃ d ∈ dims, d < 0) :
    validate cfg dims fft2Plan s = .error .typeError ∧ validate cfg dims ifft2Plan s = .error .typeError := by
  have hall : dims.all dimOk = false := by
    obtain ⟨d, hd, hneg⟩ := h
    rw [List.all_eq_false]
    exact ⟨d, hd, by simp [dimOk]; omega⟩
  constructor <;>
    simp [validate, fft2Plan, ifft2Plan, List.foldlM, Guard.holds, validateOp, hall] <;> rfl

/-- with the (…, 2) float layout, anything but float32 is rejected with `ValueError` once `dim` is
valid (float16 / float64 → complex32 / complex128 fail `verify_fft_dtype_possible`) -/
theorem fft2_rejects_non_single (c n : Bool) (dims : List Int) (shape : List Nat) (dt : DType)
    (hdt : dt = .float16 ∨ dt = .float64) (hd : dims.all dimOk = true)
    (hs : validateShift dims ⟨shape, (dt.viewComplex).getD .other⟩ = .ok ⟨shape, (dt.viewComplex).getD .other⟩) :
    validate ⟨c, n, true⟩ dims fft2Plan ⟨shape ++ [2], dt⟩ = .error .valueError := by
  rcases hdt with rfl | rfl <;> cases c <;>
    simp [validate, fft2Plan, List.foldlM, Guard.holds, validateOp, hd, DType.viewComplex, dtypeOk] at hs ⊢ <;>
    simp [hs, bind, Except.bind]

example : validate ⟨true, true, true⟩ [1, 2] fft2Plan ⟨[2, 3, 5, 2], .float32⟩ = .ok ⟨[2, 3, 5, 2], .float32⟩ := by decide
example : validate ⟨true, true, true⟩ [1, -2] fft2Plan ⟨[2, 3, 5, 2], .float32⟩ = .error .typeError := by decide
example : validate ⟨true, true, true⟩ [1, 2] fft2Plan ⟨[2, 3, 5, 2], .float64⟩ = .error .valueError := by decide
example : validate ⟨false, true, false⟩ [0, 1] ifft2Plan ⟨[3, 5], .float32⟩ = .error .valueError := by decide
example : validate ⟨false, true, false⟩ [0, 1] ifft2Plan ⟨[4, 8], .float32⟩ = .ok ⟨[4, 8], .complex64⟩ := by decide
/-- non-vacuity of `Lawful`/`AxisLaws`: the identity transform pair on lists -/
example : Lawful (listBackend (α := Nat) fun _ _ xs => xs) := listBackend_lawful _ (fun _ _ => rfl) (fun _ _ => rfl)
example : AxisLaws (X := Nat) (fun _ x => x) (fun _ x => x) (fun _ _ _ x => x) id id := by
  constructor <;> intros <;> rfl
example : fft2 (listBackend fun _ _ xs => xs) ⟨true, true, true⟩ [0, 1, 2, 3, 4] = [0, 1, 2, 3, 4] := by decide


/-! ## Part 3: re-implementations outside `transforms.py`, and the pinned `SheppLoganDataset.fft` -/

/-- a re-implementation that passes `Reimpl.ok` computes exactly `fft2` / `ifft2` with
`centered=True, normalized=True, complex_input=False` — on every backend -/
theorem reimpl_eq_fft2 {X} (B : Backend X) (r : Reimpl) (h : r.ok = true) (x : X) :
    runData B ⟨true, true, false⟩ r.steps x = (if r.inverse then ifft2 else fft2) B ⟨true, true, false⟩ x := by
  have hs : r.steps = centredPlan r.inverse := by
    simp only [Reimpl.ok, Bool.and_eq_true] at h
    exact eq_of_beq h.1
  rw [hs]
  cases r.inverse <;> rfl

/-- hence such a pair of re-implementations is an inverse pair wherever `fft2` / `ifft2` are -/
theorem reimpl_inverse_pair {X} {B : Backend X} (hB : Lawful B) (f g : Reimpl) (hf : f.ok = true) (hg : g.ok = true)
    (hfi : f.inverse = false) (hgi : g.inverse = true) (x : X) :
    runData B ⟨true, true, false⟩ g.steps (runData B ⟨true, true, false⟩ f.steps x) = x := by
  rw [reimpl_eq_fft2 B f hf, reimpl_eq_fft2 B g hg, hfi, hgi]
  exact ifft2_fft2_id_of_lawful hB _ x

/-- the pinned `SheppLoganDataset.fft` (`fftshift` before, `ifftshift` after the transform) fails the predicate … -/
theorem shepp_fft_pinned_violates : sheppPinned.ok = false := by decide

/-- … and really computes something else: on the unit impulse of length 3 (exact symbolic DFT) -/
theorem shepp_fft_pinned_differs :
    runData (listBackend fun inv _ => symDft inv 0) ⟨true, true, false⟩ sheppPinned.steps [some [0], none, none] ≠
      fft2 (listBackend fun inv _ => symDft inv 0) ⟨true, true, false⟩ [some [0], none, none] := by decide

/-- … while on every *even* length the two shifts coincide, so the pinned order was invisible there -/
theorem shepp_fft_pinned_agrees_on_even {α} (F : Bool → Norm → List α → List α)
    (hF : ∀ inv nm xs, (F inv nm xs).length = xs.length) (xs : List α) (he : xs.length % 2 = 0) :
    runData (listBackend F) ⟨true, true, false⟩ sheppPinned.steps xs = fft2 (listBackend F) ⟨true, true, false⟩ xs := by
  have hsame : ∀ ys : List α, ys.length % 2 = 0 → fftshift1 ys = ifftshift1 ys := fun ys h => by
    unfold fftshift1 ifftshift1; rw [(shifts_agree_iff_even ys.length).mpr h]
  have e1 : fftshift1 xs = ifftshift1 xs := hsame xs he
  have e2 : ifftshift1 (F false .ortho (ifftshift1 xs)) = fftshift1 (F false .ortho (ifftshift1 xs)) :=
    (hsame _ (by rw [hF, ifftshift1_length]; exact he)).symm
  show ifftshift1 (F false .ortho (fftshift1 xs)) = fftshift1 (F false .ortho (ifftshift1 xs))
  rw [e1, e2]

example : (⟨false, centredPlan false, [some [1, 2], some [1, 2], some [1, 2]]⟩ : Reimpl).ok = true := by decide

end DirectVerif.C01
