import DirectVerif.Lemmas.C04Loops
import DirectVerif.Lemmas.C04Interior
import DirectVerif.Lemmas.C04Poisson
import DirectVerif.Model.C04PoissonGen
import DirectVerif.Model.C04Tables
import DirectVerif.Lemmas.C04Circus
/-!
# C04 — every mask generator returns a boolean mask of the documented geometry

Property theorems only, about the executable model `Model/MaskGeom.lean` (the definitions the driver
runs).  `assemble g m shape spec returnAcs interior` is `mask_func(shape, return_acs)` of generator `g`
in mode `m` called through `__call__`, with the generator's random / rasterised interior an arbitrary
frame-indexed boolean array — so every statement holds for every draw.  The result type `Tensor Bool`
is the `.bool()` of `_reshape_and_add_coil_axis`.

Tie to the code: `Bridge/C04.lean` (translated guards, reshape assignments, broadcast branches,
return-wrapper table of all 14 `mask_func`, `build_masking_function` table) and the correspondence check.
-/
namespace DirectVerif.C04
open DirectVerif DirectVerif.MaskGeom

/-- numpy broadcasting of a tensor of shape `a` against one of shape `b` of equal rank -/
def Broadcasts (a b : List Nat) : Prop :=
  a.length = b.length ∧ ∀ (i x y : Nat), a[i]? = some x → b[i]? = some y → x = 1 ∨ x = y

/-! ## the documented geometry -/

/-- static mode: ones except rows and columns, leading coil axis of size one, last axis of size one -/
theorem mask_shape_static (pre : List Nat) (rows cols last : Nat) :
    maskShape .static (pre ++ [rows, cols, last]) = 1 :: (List.replicate pre.length 1 ++ [rows, cols, 1]) := by
  unfold maskShape; rw [maskShapeNoCoil_static]

/-- dynamic / multislice mode: additionally the frame axis `shape[-4]` -/
theorem mask_shape_framed (m : Mode) (hm : m.framed = true) (pre : List Nat) (frames rows cols last : Nat) :
    maskShape m (pre ++ [frames, rows, cols, last]) =
      1 :: (List.replicate pre.length 1 ++ [frames, rows, cols, 1]) := by
  unfold maskShape; rw [maskShapeNoCoil_framed m hm]

/-- every admissible shape has that form -/
theorem admissible_static (shape : List Nat) (h : 3 ≤ shape.length) :
    ∃ pre rows cols last, shape = pre ++ [rows, cols, last] := rank_decomp3 shape h

theorem admissible_framed (shape : List Nat) (h : 4 ≤ shape.length) :
    ∃ pre frames rows cols last, shape = pre ++ [frames, rows, cols, last] := rank_decomp4 shape h

theorem broadcasts_cons (x c : Nat) (s t : List Nat) (h : Broadcasts s t) (hx : x = 1 ∨ x = c) :
    Broadcasts (x :: s) (c :: t) := by
  refine ⟨by simp [h.1], ?_⟩
  intro i a b ha hb
  cases i with
  | zero => simp at ha hb; subst ha; subst hb; exact hx
  | succ i => simp at ha hb; exact h.2 i a b ha hb

theorem broadcasts_nil : Broadcasts [] [] := ⟨rfl, by intro i x y h; simp at h⟩

theorem broadcasts_ones_append (pre s t : List Nat) (h : Broadcasts s t) :
    Broadcasts (List.replicate pre.length 1 ++ s) (pre ++ t) := by
  induction pre with
  | nil => simpa using h
  | cons p ps ih =>
    simp only [List.length_cons, List.replicate_succ, List.cons_append]
    exact broadcasts_cons 1 p _ _ ih (Or.inl rfl)

/-- the returned shape broadcasts against `(coil, *shape)` for every coil count -/
theorem mask_shape_broadcasts (m : Mode) (shape : List Nat) (coil : Nat)
    (hr : neededRank m ≤ shape.length) : Broadcasts (maskShape m shape) (coil :: shape) := by
  cases hm : m.framed with
  | false =>
    have hm' : m = .static := by cases m <;> simp [Mode.framed] at hm ⊢
    subst hm'
    obtain ⟨pre, a, b, c, e⟩ := rank_decomp3 shape (by simpa [neededRank, Mode.framed] using hr)
    subst e
    rw [mask_shape_static]
    apply broadcasts_cons _ _ _ _ _ (Or.inl rfl)
    apply broadcasts_ones_append
    exact broadcasts_cons _ _ _ _ (broadcasts_cons _ _ _ _ (broadcasts_cons _ _ _ _ broadcasts_nil (Or.inl rfl))
      (Or.inr rfl)) (Or.inr rfl)
  | true =>
    obtain ⟨pre, f, a, b, c, e⟩ := rank_decomp4 shape (by simpa [neededRank, hm] using hr)
    subst e
    rw [mask_shape_framed m hm]
    apply broadcasts_cons _ _ _ _ _ (Or.inl rfl)
    apply broadcasts_ones_append
    exact broadcasts_cons _ _ _ _ (broadcasts_cons _ _ _ _ (broadcasts_cons _ _ _ _
      (broadcasts_cons _ _ _ _ broadcasts_nil (Or.inl rfl)) (Or.inr rfl)) (Or.inr rfl)) (Or.inr rfl)

/-- **Shape contract.**  Whatever generator, mode, shape, ACS specification, branch and interior:
when the call returns, the tensor has the documented shape, its data fill that shape, and it
broadcasts against `(coil, *shape)`. -/
theorem shape_contract (g : Gen) (m : Mode) (shape : List Nat) (spec : AcsSpec) (racs : Bool)
    (interior : List (List Bool)) (t : Tensor Bool) (h : assemble g m shape spec racs interior = .ok t) :
    t.shape = maskShape m shape ∧ t.data.length = prod t.shape ∧
    ∀ coil, Broadcasts t.shape (coil :: shape) := by
  obtain ⟨_, _, hs, _, hr, hl⟩ := assemble_ok_iff g m shape spec racs interior t h
  refine ⟨hs, ?_, ?_⟩
  · rw [hs, hl]; unfold maskShape; rw [prod_cons]; omega
  · intro coil; rw [hs]; exact mask_shape_broadcasts m shape coil hr

/-- number of entries: `frames · rows · cols` -/
theorem mask_numel_static (pre : List Nat) (rows cols last : Nat) :
    prod (maskShape .static (pre ++ [rows, cols, last])) = rows * cols := by
  unfold maskShape; rw [prod_cons, prod_maskShapeNoCoil_static]; omega

theorem mask_numel_framed (m : Mode) (hm : m.framed = true) (pre : List Nat) (frames rows cols last : Nat) :
    prod (maskShape m (pre ++ [frames, rows, cols, last])) = frames * rows * cols := by
  unfold maskShape; rw [prod_cons, prod_maskShapeNoCoil_framed m hm]; omega

/-! ## the call returns (no error) on admissible inputs -/

theorem assembleFrames_some (fam : Family) (rows cols : Nat) (spec : AcsSpec) (racs : Bool)
    (interior : List (List Bool)) (h : ∀ p ∈ interior, (acsFrame fam rows cols spec p).isSome) :
    ∃ frames, assembleFrames fam rows cols spec racs interior = some frames ∧ frames.length = interior.length ∧
      frames = interior.map fun p => frameData fam rows (framePattern racs p ((acsFrame fam rows cols spec p).getD [])) := by
  unfold assembleFrames
  have : (interior.all fun p => (acsFrame fam rows cols spec p).isSome) = true := List.all_eq_true.mpr h
  simp [this]

/-- one pattern per frame, each of the right size, and an ACS that can be built: the call returns -/
theorem assemble_returns (g : Gen) (m : Mode) (shape : List Nat) (spec : AcsSpec) (racs : Bool)
    (interior : List (List Bool)) (hc : callRejects m.framed shape.length = false)
    (hk : g.isKt = true → shape.length = 4 ∨ shape.length = 5)
    (hF : interior.length = framesOf m shape)
    (hlen : ∀ p ∈ interior, p.length = patLen g.family (rowsOf shape) (colsOf shape))
    (hacs : ∀ p ∈ interior, (acsFrame g.family (rowsOf shape) (colsOf shape) spec p).isSome) :
    ∃ t, assemble g m shape spec racs interior = .ok t := by
  have hrank : neededRank m ≤ shape.length := by
    unfold callRejects at hc; unfold neededRank
    cases hm : m.framed <;> simp [hm] at hc ⊢ <;> omega
  obtain ⟨frames, hfr, hfl, hfe⟩ := assembleFrames_some g.family (rowsOf shape) (colsOf shape) spec racs interior hacs
  -- every frame has rows * cols entries
  have hflat : frames.flatten.length = interior.length * (rowsOf shape * colsOf shape) := by
    rw [length_flatten_uniform frames (rowsOf shape * colsOf shape), hfl]
    intro x hx
    rw [hfe] at hx
    obtain ⟨p, hp, e⟩ := List.mem_map.mp hx
    subst e
    obtain ⟨a, ea⟩ := Option.isSome_iff_exists.mp (hacs p hp)
    have hal := acsFrame_length _ _ _ _ p a (hlen p hp) ea
    rw [ea, Option.getD_some]
    apply frameData_length
    rw [framePattern_length racs p a (by rw [hal, hlen p hp]), hal]
  have hprod : prod (maskShapeNoCoil m shape) = framesOf m shape * (rowsOf shape * colsOf shape) := by
    cases hm : m.framed with
    | false =>
      have hm' : m = .static := by cases m <;> simp [Mode.framed] at hm ⊢
      subst hm'
      obtain ⟨pre, a, b, c, e⟩ := rank_decomp3 shape (by simpa [neededRank, Mode.framed] using hrank)
      subst e
      rw [prod_maskShapeNoCoil_static, framesOf_static, rowsOf_decomp, colsOf_decomp]; omega
    | true =>
      obtain ⟨pre, f, a, b, c, e⟩ := rank_decomp4 shape (by simpa [neededRank, hm] using hrank)
      subst e
      have e2 : pre ++ [f, a, b, c] = (pre ++ [f]) ++ [a, b, c] := by simp
      rw [prod_maskShapeNoCoil_framed m hm, framesOf_framed m hm, e2, rowsOf_decomp, colsOf_decomp, Nat.mul_assoc]
  unfold assemble callGuard
  simp only [hc, Bool.false_eq_true, if_false]
  have hkt : (if g.isKt = true then ktGuard shape.length else Except.ok ()) = Except.ok () := by
    by_cases hkk : g.isKt = true
    · simp [hkk, ktGuard, hk hkk]
    · simp [hkk]
  rw [hkt]
  simp only [hfr]
  unfold reshapeAndAddCoil
  have h1 : ¬ shape.length < neededRank m := by omega
  simp only [h1, if_false, List.length_map, hflat, hprod, hF, ne_eq, not_true_eq_false]
  exact ⟨_, rfl⟩

/-- the line generators (FastMRI*/Cartesian* × Random/Equispaced/Magic, Gaussian1D) return for every
number of centre columns, every mode and every admissible shape -/
theorem line_generator_returns (g : Gen) (hg : g.family = .line) (m : Mode) (shape : List Nat) (l : Int) (racs : Bool)
    (interior : List (List Bool)) (hc : callRejects m.framed shape.length = false)
    (hF : interior.length = framesOf m shape) (hlen : ∀ p ∈ interior, p.length = colsOf shape) :
    ∃ t, assemble g m shape (.lines l) racs interior = .ok t := by
  apply assemble_returns g m shape (.lines l) racs interior hc ?_ hF
  · intro p hp; rw [hg]; exact hlen p hp
  · intro p _; rw [hg]; simp [acsFrame]
  · intro hk; cases g <;> simp [Gen.family, Gen.isKt] at hg hk

/-- the disc generators (Gaussian2D, Radial, Spiral, VariableDensityPoisson) return for every radius -/
theorem disc_generator_returns (g : Gen) (hg : g.family = .disc) (hk : g.isKt = false) (m : Mode) (shape : List Nat)
    (radius : Int) (racs : Bool) (interior : List (List Bool)) (hc : callRejects m.framed shape.length = false)
    (hF : interior.length = framesOf m shape) (hlen : ∀ p ∈ interior, p.length = rowsOf shape * colsOf shape) :
    ∃ t, assemble g m shape (.disc radius) racs interior = .ok t := by
  apply assemble_returns g m shape (.disc radius) racs interior hc ?_ hF
  · intro p hp; rw [hg]; exact hlen p hp
  · intro p _; rw [hg]; simp [acsFrame]
  · intro h; rw [hk] at h; cases h

/-! ## each frame its own pattern; line generators sample whole columns -/

/-- **Per-frame pattern.**  Frame `f` of the returned data is the frame pattern built from
`interior[f]` alone (`pattern ∨ acs`, or the ACS when `return_acs`). -/
theorem per_frame_pattern (g : Gen) (m : Mode) (shape : List Nat) (spec : AcsSpec) (racs : Bool)
    (interior : List (List Bool)) (t : Tensor Bool) (h : assemble g m shape spec racs interior = .ok t)
    (hlen : ∀ p ∈ interior, p.length = patLen g.family (rowsOf shape) (colsOf shape))
    (f : Nat) (hf : f < interior.length) (k : Nat) (hk : k < rowsOf shape * colsOf shape) :
    t.data[f * (rowsOf shape * colsOf shape) + k]? =
      (frameData g.family (rowsOf shape) (framePattern racs interior[f]
        ((acsFrame g.family (rowsOf shape) (colsOf shape) spec interior[f]).getD [])))[k]? :=
  assemble_frame g m shape spec racs interior t h hlen f hf k hk

/-- cell `(f, r, c)` of a line generator's mask: the column pattern of frame `f` at column `c`,
`interior[f][c] ∨ acs[c]` — independent of the row `r` -/
theorem line_cell (g : Gen) (hg : g.family = .line) (m : Mode) (shape : List Nat) (l : Int)
    (interior : List (List Bool)) (t : Tensor Bool) (h : assemble g m shape (.lines l) false interior = .ok t)
    (hlen : ∀ p ∈ interior, p.length = colsOf shape)
    (f : Nat) (hf : f < interior.length) (r c : Nat) (hr : r < rowsOf shape) (hc : c < colsOf shape) :
    t.data[f * (rowsOf shape * colsOf shape) + (r * colsOf shape + c)]? =
      some (interior[f].getD c false || (centerMask (colsOf shape) l).getD c false) := by
  have hlen' : ∀ p ∈ interior, p.length = patLen g.family (rowsOf shape) (colsOf shape) := by
    intro p hp; rw [hg]; exact hlen p hp
  rw [per_frame_pattern g m shape (.lines l) false interior t h hlen' f hf _ (cell_lt _ _ r c hr hc)]
  have hp : interior[f].length = colsOf shape := hlen _ (List.getElem_mem hf)
  simp only [hg, acsFrame, Option.getD_some, frameData, framePattern, Bool.false_eq_true, if_false]
  have hol : (orL interior[f] (centerMask (colsOf shape) l)).length = colsOf shape := by
    rw [length_orL _ _ (by rw [hp, length_centerMask]), length_centerMask]
  have := getElem?_tileRows (rowsOf shape) (orL interior[f] (centerMask (colsOf shape) l)) r c hr (by rw [hol]; exact hc)
  rw [hol] at this
  rw [this, getElem?_orL _ _ c (by rw [hp]; exact hc) (by rw [length_centerMask]; exact hc)]

/-- **Line generators sample whole columns**: all rows of a frame are identical (line and Kt-line
families, both branches, every interior). -/
theorem rows_identical (g : Gen) (hg : g.family ≠ .disc) (m : Mode) (shape : List Nat) (spec : AcsSpec) (racs : Bool)
    (interior : List (List Bool)) (t : Tensor Bool) (h : assemble g m shape spec racs interior = .ok t)
    (hlen : ∀ p ∈ interior, p.length = colsOf shape)
    (f : Nat) (hf : f < interior.length) (r r' c : Nat) (hr : r < rowsOf shape) (hr' : r' < rowsOf shape)
    (hc : c < colsOf shape) :
    t.data[f * (rowsOf shape * colsOf shape) + (r * colsOf shape + c)]? =
      t.data[f * (rowsOf shape * colsOf shape) + (r' * colsOf shape + c)]? := by
  have hpl : patLen g.family (rowsOf shape) (colsOf shape) = colsOf shape := by
    cases hf' : g.family <;> simp [patLen, hf'] at hg ⊢
  have hlen' : ∀ p ∈ interior, p.length = patLen g.family (rowsOf shape) (colsOf shape) := by
    intro p hp; rw [hpl]; exact hlen p hp
  obtain ⟨_, hsome, _, _, _, _⟩ := assemble_ok_iff g m shape spec racs interior t h
  rw [per_frame_pattern g m shape spec racs interior t h hlen' f hf _ (cell_lt _ _ r c hr hc),
    per_frame_pattern g m shape spec racs interior t h hlen' f hf _ (cell_lt _ _ r' c hr' hc)]
  obtain ⟨a, ea⟩ := Option.isSome_iff_exists.mp (hsome _ (List.getElem_mem hf))
  have hal := acsFrame_length _ _ _ _ _ a (hlen' _ (List.getElem_mem hf)) ea
  rw [ea, Option.getD_some]
  have hpat : (framePattern racs interior[f] a).length = colsOf shape := by
    rw [framePattern_length racs _ a (by rw [hal, hlen' _ (List.getElem_mem hf)]), hal, hpl]
  have hfd : frameData g.family (rowsOf shape) (framePattern racs interior[f] a) =
      tileRows (rowsOf shape) (framePattern racs interior[f] a) := by
    cases hf' : g.family <;> simp [frameData, hf'] at hg ⊢
  rw [hfd]
  have h1 := getElem?_tileRows (rowsOf shape) (framePattern racs interior[f] a) r c hr (by rw [hpat]; exact hc)
  have h2 := getElem?_tileRows (rowsOf shape) (framePattern racs interior[f] a) r' c hr' (by rw [hpat]; exact hc)
  rw [hpat] at h1 h2
  rw [h1, h2]

/-- what a well-formed assembly table (the decidable predicate discharged on the table extracted from the
source, `Bridge.C04.assembly_table_ok`) means: for every generator the translated frame expressions
are, cell by cell, the model's `framePattern` of the frame's own interior and ACS -/
theorem assembly_table_sound (tbl : List (String × BExp × BExp)) (h : assemblyTableOk tbl = true) (g : Gen)
    (hg : g ∈ Gen.all) : ∃ m a, tbl.lookup g.name = some (m, a) ∧
      ∀ acs draw other cond : Bool,
        m.eval acs draw other cond = (framePattern false [draw] [acs]).getD 0 false ∧
        a.eval acs draw other cond = (framePattern true [draw] [acs]).getD 0 false := by
  unfold assemblyTableOk at h
  have hg' := List.all_eq_true.mp h g hg
  cases hl : tbl.lookup g.name with
  | none => simp [hl] at hg'
  | some ma =>
    obtain ⟨m, a⟩ := ma
    refine ⟨m, a, rfl, ?_⟩
    simp only [hl, allBool, Bool.and_eq_true, beq_iff_eq] at hg'
    intro acs draw other cond
    have : (framePattern false [draw] [acs]).getD 0 false = (draw || acs) ∧
        (framePattern true [draw] [acs]).getD 0 false = acs := by
      simp [framePattern, orL]
    rw [this.1, this.2]
    cases acs <;> cases draw <;> cases other <;> cases cond <;> simp_all

/-- what a well-formed class table (`Bridge.C04.class_table_ok`, extracted from *all* classes deriving from
`BaseMaskFunc`) means: each of the 14 generators of the property is a class of the module whose `mask_func` returns
only through the reshape wrapper, and any other class that does not is one of the declared out-of-scope classes -/
theorem class_table_sound (tbl : List (String × Bool)) (h : C04Tables.classTableOk tbl = true) :
    (∀ g ∈ Gen.all, tbl.lookup (g.name ++ "MaskFunc") = some true) ∧
    (∀ r ∈ tbl, r.2 = false → r.1 ∈ C04Tables.outOfScope) := by
  unfold C04Tables.classTableOk at h
  simp only [Bool.and_eq_true, List.all_eq_true] at h
  constructor
  · intro g hg
    have := h.1 (g.name ++ "MaskFunc") (by unfold C04Tables.inScope; exact List.mem_map.mpr ⟨g, hg, rfl⟩)
    simpa using this
  · intro r hr hf
    have := h.2 r hr
    simp only [hf, Bool.false_or] at this
    exact List.contains_iff_mem.mp this

/-- a well-formed state table has no write outside construction -/
theorem state_table_sound (tbl : List C04Tables.StateRow) (h : C04Tables.stateTableOk tbl = true) :
    ∀ r ∈ tbl, r.2.2.2 = true := by
  unfold C04Tables.stateTableOk at h
  exact List.all_eq_true.mp h

/-! ## rank checks -/

theorem call_rejects_low_rank (g : Gen) (m : Mode) (shape : List Nat) (spec : AcsSpec) (racs : Bool)
    (interior : List (List Bool)) (h : shape.length < 3) :
    assemble g m shape spec racs interior = .error .valueError := by
  unfold assemble callGuard callRejects
  have : ((shape.length : Int) < 3) := by omega
  simp [this]

theorem call_rejects_framed_rank3 (g : Gen) (m : Mode) (hm : m.framed = true) (shape : List Nat) (spec : AcsSpec)
    (racs : Bool) (interior : List (List Bool)) (h : shape.length < 4) :
    assemble g m shape spec racs interior = .error .valueError := by
  unfold assemble callGuard callRejects
  have : ((shape.length : Int) < 4) := by omega
  simp [this, hm]

theorem kt_rejects_rank (g : Gen) (hk : g.isKt = true) (m : Mode) (shape : List Nat) (spec : AcsSpec)
    (racs : Bool) (interior : List (List Bool)) (h : shape.length ≠ 4 ∧ shape.length ≠ 5) :
    assemble g m shape spec racs interior = .error .valueError := by
  unfold assemble
  cases hcg : callGuard m shape.length with
  | error e =>
    unfold callGuard at hcg
    split at hcg
    · simp only [Except.error.injEq] at hcg; subst hcg; rfl
    · cases hcg
  | ok u =>
    have : ¬ (shape.length = 4 ∨ shape.length = 5) := by omega
    simp [hk, ktGuard, this]

/-- the reshape itself: a pattern with the wrong number of entries cannot be reshaped -/
theorem reshape_rejects_wrong_size (m : Mode) (mask : Tensor Int) (shape : List Nat)
    (hr : neededRank m ≤ shape.length) (h : mask.data.length ≠ prod (maskShapeNoCoil m shape)) :
    reshapeAndAddCoil m mask shape = .error .runtimeError := by
  unfold reshapeAndAddCoil
  have : ¬ shape.length < neededRank m := by omega
  simp [this, h]

/-- `_broadcast_mask` accepts exactly 1-D and 2-D inputs -/
theorem broadcast_rejects_rank (t : Tensor Int) (rows : Nat) (h : t.shape.length ≠ 1 ∧ t.shape.length ≠ 2) :
    broadcastRows t rows = .error .valueError := by
  unfold broadcastRows
  match hs : t.shape with
  | [] => rfl
  | [_] => simp [hs] at h
  | [_, _] => simp [hs] at h
  | _ :: _ :: _ :: _ => rfl

/-- rows of a broadcast 1-D mask are the mask -/
theorem broadcast_rows_1d (n rows : Nat) (data : List Int) (hn : data.length = n) (r c : Nat) (hr : r < rows) (hc : c < n) :
    ∃ t, broadcastRows ({ shape := [n], data := data } : Tensor Int) rows = .ok t ∧ t.shape = [rows, n] ∧
      t.data[r * n + c]? = data[c]? := by
  refine ⟨_, rfl, rfl, ?_⟩
  have := getElem?_tileRows rows data r c hr (by omega)
  rw [hn] at this
  exact this

/-! ## the generators return: Gaussian rejection loop -/

/-- when the loop exits it has added exactly `need = nonzero_count + 1` new cells, kept every cell
that was set, and kept the size -/
theorem gaussian_loop_adds_exactly (need : Nat) (mask : List Bool) (cands : List Int)
    (h : (gaussLoop need mask cands).2 = 0) :
    (gaussLoop need mask cands).1.count true = mask.count true + need ∧
    (gaussLoop need mask cands).1.length = mask.length ∧
    ∀ i, mask.getD i false = true → (gaussLoop need mask cands).1.getD i false = true :=
  gaussLoop_adds need mask cands h

/-- **termination**: on every fair candidate stream (each cell keeps being proposed) the loop exits
after finitely many candidates whenever the request fits into the free cells … -/
theorem gaussian_loop_terminates (stream : Nat → Int) (mask : List Bool) (need : Nat)
    (fair : ∀ k i, i < mask.length → ∃ j, k ≤ j ∧ stream j = (i : Int))
    (h : need ≤ freeCount mask) :
    ∃ fuel, (gaussLoop need mask ((List.range fuel).map stream)).2 = 0 := by
  obtain ⟨fuel, hf⟩ := gaussLoop_terminates stream mask.length fair need mask rfl h 0
  exact ⟨fuel, by simpa using hf⟩

/-- … and only then: if more cells are requested than are free, no candidate list of any length makes
the loop exit (the real loop does not return) -/
theorem gaussian_loop_stuck_if_infeasible (need : Nat) (mask : List Bool) (cands : List Int)
    (h : freeCount mask < need) : (gaussLoop need mask cands).2 ≠ 0 :=
  gaussLoop_stuck need mask cands h

theorem count_true_add_false (l : List Bool) : l.count true + l.count false = l.length := by
  induction l with
  | nil => rfl
  | cons x xs ih => cases x <;> simp <;> omega

/-- for every acceleration ≥ 1 the request of `Gaussian1DMaskFunc` fits: with `x = n / R ≤ n` the
request `round(x − l − 1) + 1` is at most `n − l`, the number of free columns
(stated on integers: any `need ≤ n − l`) -/
theorem gaussian1d_request_fits (n l need : Nat) (hl : l ≤ n) (h : need ≤ n - l) :
    need ≤ freeCount (centerMask n l) := by
  unfold freeCount
  have h1 := count_true_add_false (centerMask n l)
  rw [count_centerMask n l hl, length_centerMask] at h1
  omega

/-! ## the generators return: VD-Poisson bisection wrapper -/

/-- **termination** of the repaired loop on every finite ordered grid of slopes, for every midpoint
function with `lo ≤ mid ≤ hi` and every verdict function: measure = grid points strictly between -/
theorem bisection_terminates (mid : Nat → Nat → Nat)
    (hmid : ∀ lo hi, lo < hi → lo ≤ mid lo hi ∧ mid lo hi ≤ hi) (f : Nat → Verdict) (lo hi : Nat) :
    bisect mid f (hi - lo + 1) lo hi ≠ .outOfFuel :=
  bisect_fuel mid hmid f _ lo hi (by omega)

/-- a mask is returned only when the realised acceleration is within the tolerance; otherwise the
documented `ValueError` is raised -/
theorem bisection_post (mid : Nat → Nat → Nat) (f : Nat → Verdict) (fuel lo hi : Nat) :
    (∃ p, bisect mid f fuel lo hi = .returned p ∧ f p = .within) ∨
    bisect mid f fuel lo hi = .valueError ∨ bisect mid f fuel lo hi = .outOfFuel := by
  cases h : bisect mid f fuel lo hi with
  | returned p => exact Or.inl ⟨p, rfl, bisect_returned mid f fuel lo hi p h⟩
  | valueError => exact Or.inr (Or.inl rfl)
  | outOfFuel => exact Or.inr (Or.inr rfl)

/-- together: with enough fuel the wrapper returns within tolerance or raises `ValueError` -/
theorem bisection_returns_or_raises (mid : Nat → Nat → Nat)
    (hmid : ∀ lo hi, lo < hi → lo ≤ mid lo hi ∧ mid lo hi ≤ hi) (f : Nat → Verdict) (lo hi : Nat) :
    (∃ p, bisect mid f (hi - lo + 1) lo hi = .returned p ∧ f p = .within) ∨
    bisect mid f (hi - lo + 1) lo hi = .valueError := by
  rcases bisection_post mid f (hi - lo + 1) lo hi with h | h | h
  · exact Or.inl h
  · exact Or.inr h
  · exact absurd h (bisection_terminates mid hmid f lo hi)

/-- the pinned tree's loop (no stop when the midpoint equals an end point) spins forever on two
adjacent floats when the acceleration stays below the target, where the repaired loop raises -/
theorem bisection_pinned_violates :
    (∀ fuel, bisectPinned (fun lo hi => (lo + hi) / 2) (fun _ => .below) fuel 0 1 = .outOfFuel) ∧
    bisect (fun lo hi => (lo + hi) / 2) (fun _ => .below) 2 0 1 = .valueError :=
  ⟨bisectPinned_spins _ _ 0 1 (by omega) rfl rfl, by decide⟩

/-! ## the generators return: CIRCUS largest-sampled-disc search -/

/-- the search over the radii `1, 1 + eps, …` returns at the first radius whose disc has more than 10 %
unsampled cells, and only then: within any finite number of radii it returns iff such a radius is among
them (on a fully sampled grid it never does — `C06.circus_disc_full_never_returns`) -/
theorem circus_disc_returns_iff (rows cols : Nat) (mask : List Bool) (thr : List Int) :
    (circusDisc rows cols mask thr).isSome ↔
      ∃ t ∈ thr, 10 * (diskLe rows cols t).count true > 11 * (andL (diskLe rows cols t) mask).count true := by
  have h := circusDisc_none_iff rows cols mask thr
  constructor
  · intro hs
    apply Classical.byContradiction
    intro hn
    have : circusDisc rows cols mask thr = none := h.mpr (fun t ht hc => hn ⟨t, ht, hc⟩)
    rw [this] at hs; cases hs
  · intro ⟨t, ht, hc⟩
    cases hr : circusDisc rows cols mask thr with
    | some r => rfl
    | none => exact absurd hc (h.mp hr t ht)

/-- **the search returns promptly**: whenever fewer than 10/11 of the cells are sampled
(`11·|mask| < 10·rows·cols` — every CIRCUS pattern with acceleration ≥ 1.1 on the grid) the loop has returned by
the first radius whose disc covers the whole grid (`radius² ≥ (rows/2)² + (cols/2)²`, i.e. after at most
`10·√((rows/2)² + (cols/2)²)` increments of `eps = 0.1`); `n` = how many radii that takes.  The converse
boundary is `C06.circus_disc_full_never_returns`. -/
theorem circus_disc_returns_promptly (rows cols : Nat) (mask : List Bool) (thr : List Int) (n : Nat)
    (hlen : mask.length = rows * cols) (hfar : ∃ t ∈ thr.take n, farSq rows cols ≤ t)
    (hsparse : 11 * mask.count true < 10 * (rows * cols)) :
    ∃ r, circusDisc rows cols mask thr = some r ∧ circusDisc rows cols mask (thr.take n) = some r := by
  have h := circusDisc_returns_of_sparse rows cols mask (thr.take n) hlen hfar hsparse
  obtain ⟨r, hr⟩ := Option.isSome_iff_exists.mp h
  exact ⟨r, by rw [circusDisc_take rows cols mask thr n h, hr], hr⟩

/-- the hypotheses are satisfiable: a 3 × 3 grid with one sampled cell, radii² 1, 1, 2 (`farSq = 2`) -/
example : ∃ r, circusDisc 3 3 [false, false, false, false, true, false, false, false, false] [1, 1, 2, 3] = some r ∧
    circusDisc 3 3 [false, false, false, false, true, false, false, false, false] ([1, 1, 2, 3].take 3) = some r :=
  circus_disc_returns_promptly 3 3 _ _ 3 rfl ⟨2, by decide, by decide⟩ (by decide)

/-! ## interiors that are pure integer logic: k-t grid helpers, CIRCUS ordering, `_poisson` active lists -/

/-- `linear_indices_to_2d_coordinates` inverts the trajectory index on the grid (1-based `x ∈ [1, row]`) -/
theorem kt_linear2d_grid (n x y : Int) (hn : 0 < n) (hx1 : 1 ≤ x) (hxn : x ≤ n) :
    linear2d ((y - 1) * n + x) n = (x, y) := linear2d_grid n x y hn hx1 hxn

/-- `resolve_duplicates_on_kt_grid` never changes the number of k-t samples (every duplicate is moved, none
is dropped or added) -/
theorem kt_resolve_keeps_count (phase time : List Int) (ny nt : Nat) (p t : List Int)
    (h : resolveDuplicates phase time ny nt = some (p, t)) :
    p.length = min phase.length time.length ∧ t.length = min phase.length time.length :=
  resolveDuplicates_length phase time ny nt p t h

/-- a duplicate-free trajectory is returned as it is (as coordinates) -/
theorem kt_resolve_identity_of_nodup (phase time : List Int) (ny nt : Nat)
    (h : (List.zipWith (trajIndex ny nt) phase time).Nodup) :
    resolveDuplicates phase time ny nt =
      some (((List.zipWith (trajIndex ny nt) phase time).map fun v => (linear2d v ny).1 - halfUp ny),
            ((List.zipWith (trajIndex ny nt) phase time).map fun v => (linear2d v ny).2 - halfUp nt)) :=
  resolveDuplicates_of_nodup phase time ny nt h

/-- **KtUniform**: for every width, frame count and every set `ind` of flat indices of the Toeplitz array the
detour through `(ph, ti)`, `resolve_duplicates_on_kt_grid` and back yields `inds = ind` exactly: the pattern
lies on the grid, nothing is `< 0`, and `inds <= 0` happens exactly for the legitimate sample `ind = 0`
(column 0 of frame 0) — which the clamp `inds[inds <= 0] = 1` then misplaces. -/
theorem kt_uniform_inds_eq_flat (n nt : Nat) (hn : 0 < n) (ind : List Int) (hnd : ind.Nodup) :
    ∃ ph ti, resolveDuplicates (ind.map fun f => f % n - ((n / 2 : Nat) : Int))
        (ind.map fun f => f / n - ((nt / 2 : Nat) : Int)) n nt = some (ph, ti) ∧ ktInds n nt ph ti = ind :=
  ktUniform_inds_eq_flat n nt hn ind hnd

/-- the clamp as coded: with phase offset 0 (N = 4, nt = 2, combs `[0, 2]` / `[0]`) the Toeplitz array samples
column 0 in frame 0; the code drops it and sets column 0 of frame 1 instead -/
theorem kt_uniform_clamp_misplaces_origin :
    (ktUniformFlat false 4 2 [0, 2] [0]).map (ktUniformFrames 4 2) =
      some [[true, false, true, false], [false, true, false, true]] ∧
    (ktUniformFlat true 4 2 [0, 2] [0]).map (ktUniformFrames 4 2) =
      some [[false, false, true, false], [true, true, false, true]] := by decide

/-- … and when that cell is already sampled the frame budget loses a sample (combs `[0, 2]` / `[0, 1]`) -/
theorem kt_uniform_clamp_loses_sample :
    ((ktUniformFlat false 4 2 [0, 2] [0, 1]).map fun f => f.count true) = some 5 ∧
    ((ktUniformFlat true 4 2 [0, 2] [0, 1]).map fun f => f.count true) = some 4 := by decide

/-- CIRCUS: the perimeter of nested square `sq` has `K = 4 (J − 1)` cells (`J = side − 2 sq`), all on the grid:
every `indices_idx ∈ [0, K)` addresses a cell of the `max_dim × max_dim` array -/
theorem circus_square_perimeter (side sq : Nat) (h : 2 * sq + 2 ≤ side) :
    (squareOrdered side sq).length = 4 * (side - 2 * sq - 1) ∧
    ∀ rc ∈ squareOrdered side sq, rc.1 < side ∧ rc.2 < side :=
  ⟨length_squareOrdered side sq h, fun rc hm => squareOrdered_on_grid side sq h rc hm⟩

/-- `_poisson.pyx` (known finding generator-crashes/VariableDensityPoisson/active-list-overrun): a candidate
can be accepted into a cell that is already sampled — radius 1, cell (0,0) sampled, candidate (0.8, 0.8):
distance² = 1.28 ≥ 1 from every sampled cell, yet `int(q) = (0,0)` … -/
theorem poisson_accepts_occupied_cell :
    poissonAccept 2 2 10 10 [true, false, false, false] 8 8 = true ∧
    [true, false, false, false].getD (poissonCell 2 10 8 8) false = true := by decide

/-- … so `num_actives` grows without a new cell being sampled and passes the capacity `nx·ny` of `pxs/pys`:
four such acceptances on a 2 × 2 grid (the kernel then writes `pxs[4]`, out of bounds) -/
theorem poisson_active_list_overrun_witness :
    poissonOverrun 2 2 (poissonRun false 2 2 10 10 { mask := [false, false, false, false], actives := [(0, 0)] }
      [(0, some (8, 8)), (0, some (8, 8)), (0, some (8, 8)), (0, some (8, 8))]) = true := by decide

/-- why the code clips the radii at one pixel (`Bridge.C04.poisson_radius_floor_eq`) and why that is the least
it must do: with a radius of at least √2 pixels an accepted candidate always samples a NEW cell (for every grid,
mask and candidate) … -/
theorem poisson_large_radius_safe (nx ny : Nat) (den r : Int) (hden : 0 < den) (hr : 2 * (den * den) ≤ r * r)
    (mask : List Bool) (qx qy : Int) (h : poissonAccept nx ny den r mask qx qy = true) :
    mask.getD (poissonCell ny den qx qy) false = false :=
  poissonAccept_cell_free nx ny den r hden hr mask qx qy h

/-- … while with a radius below one pixel (0.3 here — what non-square k-spaces get along the short axis when the
clip is removed) candidates one radius away from a sampled cell's corner stay in that very cell and are
accepted again and again: three acceptances overrun the lists of a 1 × 2 grid -/
theorem poisson_subpixel_radius_overrun_witness :
    poissonOverrun 1 2 (poissonRun false 1 2 10 3 { mask := [true, false], actives := [(0, 0)] }
      [(0, some (4, 4)), (0, some (4, 4)), (0, some (4, 4))]) = true := by decide

/-- with the suggested guard (refuse a candidate whose cell is sampled) `num_actives ≤ #sampled + 1 ≤ nx·ny + 1`
for every run: the lists need one more slot than they have, never more (`_partial`: the initial point is not
marked in the mask, so capacity `nx·ny` is still one short in the worst case) -/
theorem poisson_guard_bound_partial (nx ny : Nat) (den r : Int) (hden : 0 < den)
    (evs : List (Nat × Option (Int × Int))) (p0 : Nat × Nat) :
    (poissonRun true nx ny den r { mask := List.replicate (nx * ny) false, actives := [p0] } evs).actives.length
      ≤ nx * ny + 1 :=
  poissonRun_guard_invariant nx ny den r hden evs _ (by simp) (by simp)

/-! ## `_poisson.pyx`: the executable kernel model (`Model/C04Poisson.lean`, run by the driver and compared bit for
bit with the real kernel: mask, number of `rand()` calls)

`kernel env fuel` is one call `poisson(nx, ny, max_attempts, mask, radius_x, radius_y, seed)`: `env.draws` is the
libc stream after `srand(seed)`, `env.trig` the `cos`/`sin` values, everything else is computed (exact IEEE
arithmetic on dyadic rationals).  All statements are for every grid size, every radius table, every `rand()` stream
and every trig table — in particular they do not depend on the `cos`/`sin` values being right. -/

section PoissonKernel
open DirectVerif.C04Poisson

/-- the invariant of `while num_actives > 0` holds of the state in which a run stops, however it stops -/
theorem poisson_kernel_invariant (env : Env) (fuel : Nat) (st0 : St) (h0 : init env = .ok st0) :
    Inv env (kernel env fuel).st := by
  unfold kernel; rw [h0]; exact (run_inv env fuel st0 (init_inv env st0 h0)).1

/-- **the mask is a boolean array of the requested shape**: `nx·ny` entries (row-major `nx × ny`), of type `Bool` -/
theorem poisson_mask_shape (env : Env) (fuel : Nat) (st0 : St) (h0 : init env = .ok st0) :
    (kernel env fuel).st.mask.size = env.nx * env.ny :=
  (poisson_kernel_invariant env fuel st0 h0).maskSize

/-- **every written cell is inside the grid**: a candidate that passes `qx >= 0 and qx < nx and qy >= 0 and qy < ny`
is stored at `(int(qx), int(qy))` with `int(qx) < nx`, `int(qy) < ny` (for every float value of the candidate) … -/
theorem poisson_written_cell_in_grid (env : Env) (px py r1 : Nat) (c s : Dy)
    (h : (attempt env px py r1 c s).inGrid = true) :
    (attempt env px py r1 c s).cx < env.nx ∧ (attempt env px py r1 c s).cy < env.ny :=
  attempt_cell_in_grid env px py r1 c s h

/-- … so that no run ever stops for a write to `mask` or a read of `radius_x/radius_y` outside the `nx × ny`
arrays (every active point stays on the grid) -/
theorem poisson_grid_accesses_in_bounds (env : Env) (fuel : Nat) :
    (kernel env fuel).halt ≠ some .cellOutOfGrid ∧ (kernel env fuel).halt ≠ some .readOutOfGrid := by
  unfold kernel
  cases h0 : init env with
  | error h =>
    rcases init_ok_or_harness env h h0 with e | e <;> subst e <;> simp
  | ok st0 =>
    have := run_inv env fuel st0 (init_inv env st0 h0)
    exact ⟨this.2.1, this.2.2.1⟩

/-- the active points themselves are on the grid at every stop -/
theorem poisson_actives_on_grid (env : Env) (fuel : Nat) (st0 : St) (h0 : init env = .ok st0)
    (j : Nat) (hj : j < (kernel env fuel).st.acts.size) :
    (kernel env fuel).st.acts[j].1 < env.nx ∧ (kernel env fuel).st.acts[j].2 < env.ny :=
  (poisson_kernel_invariant env fuel st0 h0).actsGrid j hj

/-- **active-list accounting**: `num_actives = 1 + accepted − removed`, the number of sampled cells is
`accepted − stale` (`stale` = candidates accepted into a cell that was already sampled), every outer iteration
accepts or removes, and `num_actives` never exceeds the capacity `nx·ny` of `pxs`/`pys` while the run goes on -/
theorem poisson_active_list_accounting (env : Env) (fuel : Nat) (st0 : St) (h0 : init env = .ok st0) :
    let st := (kernel env fuel).st
    st.acts.size + st.removals = st.accepts + 1 ∧ st.mask.count true + st.stale = st.accepts ∧
    st.iters = st.accepts + st.removals ∧ st.acts.size ≤ st.maxna ∧ st.maxna ≤ max 1 (env.nx * env.ny) := by
  have h := poisson_kernel_invariant env fuel st0 h0
  exact ⟨h.actives, h.sampled, h.iters, h.maxLe, h.maxCap⟩

/-- **when the active lists overrun** (known finding `generator-crashes/VariableDensityPoisson/active-list-overrun`):
the run stops with `overrun` exactly at an accepted candidate with `num_actives = nx·ny`; at that moment
`sampled + stale = nx·ny + removed − 1`, i.e. the stale acceptances make up for every removal and every cell
that is still unsampled, minus the one slot the (never sampled) initial point occupies -/
theorem poisson_overrun_condition (env : Env) (fuel : Nat) (st0 : St) (h0 : init env = .ok st0)
    (hcap : 1 ≤ env.nx * env.ny) (h : (kernel env fuel).halt = some .overrun) :
    let st := (kernel env fuel).st
    st.acts.size = env.nx * env.ny ∧ st.mask.count true + st.stale + 1 = env.nx * env.ny + st.removals ∧
    (env.nx * env.ny - st.mask.count true) + st.removals ≤ st.stale + 1 := by
  have hi := poisson_kernel_invariant env fuel st0 h0
  have hge : env.nx * env.ny ≤ (kernel env fuel).st.acts.size := by
    unfold kernel at h ⊢; rw [h0] at h ⊢
    exact (run_inv env fuel st0 (init_inv env st0 h0)).2.2.2.2.2.1 h
  have h1 := hi.actives; have h2 := hi.sampled; have h4 := hi.maxLe; have h5 := hi.maxCap
  have hc : (kernel env fuel).st.mask.count true ≤ env.nx * env.ny := by
    rw [← hi.maskSize]; exact Array.count_le_size
  refine ⟨by omega, by omega, by omega⟩

/-- one outer iteration stops with `overrun` iff a candidate was accepted while `num_actives = capacity`
(nothing else is checked before the write `pxs[num_actives] = …`) -/
theorem poisson_overrun_iff (env : Env) (st : St) (i : Nat) (o : Option (Nat × Nat)) (pos att : Nat) :
    bookkeep env st i o pos att = .error .overrun ↔ o.isSome = true ∧ env.nx * env.ny ≤ st.acts.size :=
  bookkeep_overrun_iff env st i o pos att

/-- the lists are one slot short even when every accepted candidate samples a *new* cell: on a 1 × 2 grid with
radius 1 (recorded stream, `srand(233)`) the first candidate fills `pxs[1]`, the second is accepted with
`num_actives = 2 = nx·ny` … -/
def overrunFreshEnv : Env :=
  { nx := 1, ny := 2, maxAttempts := 1, rx := #[⟨1, 0⟩, ⟨1, 0⟩], ry := #[⟨1, 0⟩, ⟨1, 0⟩],
    draws := #[2119191493, 490991862, 1073400032, 143212267, 230293729, 2000467226, 206076552, 461922739],
    trig := #[(⟨11304517, -24⟩, ⟨7038722625899749, -53⟩, ⟨2810072161451269, -52⟩),
              (⟨5668645, -22⟩, ⟨489840355056453, -51⟩, ⟨8791503923649091, -53⟩)] }

theorem poisson_current_overruns_fresh :
    (kernel overrunFreshEnv 10).halt = some .overrun ∧ (kernel overrunFreshEnv 10).st.stale = 0 ∧
    (kernel overrunFreshEnv 10).st.removals = 0 := by decide +kernel

/-- … and with stale acceptances also after removals: 2 × 2 grid, radius 1, `max_attempts = 10`, `srand(272)` —
4 candidates accepted of which 2 into sampled cells, 1 removal, then the 19th attempt succeeds and `pxs[4]` is written -/
def overrunStaleEnv : Env :=
  { nx := 2, ny := 2, maxAttempts := 10, rx := #[⟨1, 0⟩, ⟨1, 0⟩, ⟨1, 0⟩, ⟨1, 0⟩], ry := #[⟨1, 0⟩, ⟨1, 0⟩, ⟨1, 0⟩, ⟨1, 0⟩],
    draws := #[989179677, 1796212363, 639933494, 1174831724, 68468417, 1154851320, 367063606, 468517877, 1209813154,
      1072413098, 89939010, 2983851, 257327310, 1168910928, 379258639, 1028723530, 1835872748, 718019376, 38654896,
      2093711427, 274612389, 1535066740, 1322673789, 816706788, 1960667519, 1752444601, 2103020991, 286662702,
      222572669, 582944072, 1084297580, 1211752346, 231672787, 1724231074, 239100422, 300141204, 731598746,
      606164028, 768659081, 1941411901, 1678577127, 858598092, 1944395752, 1935904437, 2027509020, 176170743],
    trig := #[(⟨6721871, -25⟩, ⟨2206767167244393, -51⟩, ⟨7169376126566315, -55⟩),
      (⟨11499159, -23⟩, ⟨223670472767585, -50⟩, ⟨8827673287439329, -53⟩),
      (⟨13160489, -22⟩, ⟨-9007131191165135, -53⟩, ⟨4482047069350211, -60⟩),
      (⟨2343511, -28⟩, ⟨9006856004183195, -53⟩, ⟨1258146905591693, -57⟩),
      (⟨14344695, -22⟩, ⟨-8660267787174661, -53⟩, ⟨-1237881281568591, -52⟩),
      (⟨12624337, -22⟩, ⟨-8929178536298315, -53⟩, ⟨4731864886517655, -55⟩),
      (⟨8811423, -22⟩, ⟨-2276761051849829, -52⟩, ⟨121428544109859, -47⟩),
      (⟨3211713, -19⟩, ⟨8895954171432107, -53⟩, ⟨-352813494851243, -51⟩),
      (⟨2354763, -19⟩, ⟨-3949468655387785, -54⟩, ⟨-4394031825943971, -52⟩),
      (⟨2505625, -20⟩, ⟨-6577913789646005, -53⟩, ⟨6153103980154375, -53⟩),
      (⟨10752865, -21⟩, ⟨907854808504273, -51⟩, ⟨-8242719985624733, -53⟩),
      (⟨5462755, -23⟩, ⟨7163878159724009, -53⟩, ⟨2729857511264829, -52⟩),
      (⟨13306333, -22⟩, ⟨-9002903867943397, -53⟩, ⟨-8900393687738761, -58⟩),
      (⟨11372211, -24⟩, ⟨3507994400709795, -52⟩, ⟨2824249438034891, -52⟩),
      (⟨14733147, -24⟩, ⟨5751683554094929, -53⟩, ⟨6931650215364347, -53⟩),
      (⟨4716433, -21⟩, ⟨-88294797585051, -47⟩, ⟨1753520388556439, -51⟩),
      (⟨1317073, -19⟩, ⟨-7280848283586647, -53⟩, ⟨2651362229402089, -52⟩),
      (⟨11878561, -21⟩, ⟨3667877329939957, -52⟩, ⟨-163328243789589, -48⟩),
      (⟨8647761, -24⟩, ⟨7836917355935067, -53⟩, ⟨4439860895439225, -53⟩)] }

theorem poisson_current_overruns_stale :
    (kernel overrunStaleEnv 50).halt = some .overrun ∧ (kernel overrunStaleEnv 50).st.stale = 2 ∧
    (kernel overrunStaleEnv 50).st.removals = 1 ∧ (kernel overrunStaleEnv 50).st.acts.size = 4 := by decide +kernel

/-- **the attempt loop terminates**: `while not done and k < max_attempts` makes at most `k` further attempts
(exactly `k` when none succeeds), each consuming two `rand()` values -/
theorem poisson_attempt_loop_terminates (env : Env) (mask : Array Bool) (px py k pos att : Nat)
    (o : Option (Nat × Nat)) (pos' att' : Nat) (h : attempts env mask px py k pos att = .ok (o, pos', att')) :
    att ≤ att' ∧ att' ≤ att + k ∧ pos' = pos + 2 * (att' - att) ∧ (o = none → att' = att + k) := by
  obtain ⟨a, b, c, _, e⟩ := attempts_spec env mask px py k pos att o pos' att' h
  exact ⟨a, b, c, e⟩

/-- **how long the outer loop can run**: every iteration accepts or removes, removals never exceed acceptances
by more than one, acceptances are sampled cells plus stale ones — so
`iterations ≤ 2·(sampled + stale) + 1 ≤ 2·(nx·ny + stale) + 1` -/
theorem poisson_iterations_bound (env : Env) (fuel : Nat) (st0 : St) (h0 : init env = .ok st0) :
    let st := (kernel env fuel).st
    st.iters ≤ 2 * (st.mask.count true + st.stale) + 1 ∧ st.iters ≤ 2 * (env.nx * env.ny + st.stale) + 1 := by
  have hi := poisson_kernel_invariant env fuel st0 h0
  have h1 := hi.actives; have h2 := hi.sampled; have h3 := hi.iters
  have hc : (kernel env fuel).st.mask.count true ≤ env.nx * env.ny := by
    rw [← hi.maskSize]; exact Array.count_le_size
  refine ⟨by omega, by omega⟩

/-- **the kernel returns, or accepts into sampled cells again and again**: with more than `2·(nx·ny + S) + 1`
iterations of fuel the run has ended (`num_actives = 0`, or one of the stops above) unless more than `S`
candidates were accepted into cells that were already sampled.
`_partial`: full statement "the kernel always returns" is false for adversarial streams (stale acceptance and
removal can alternate for ever) and holds with probability one for the real generator; what bounds `stale` is
float geometry (`C04.poisson_large_radius_safe`: none when every radius is at least √2 pixels). -/
theorem poisson_returns_or_stale_partial (env : Env) (fuel S : Nat) (st0 : St) (h0 : init env = .ok st0)
    (hf : 2 * (env.nx * env.ny + S) + 1 < fuel) :
    (kernel env fuel).halt ≠ some .outOfFuel ∨ S < (kernel env fuel).st.stale := by
  by_cases hh : (kernel env fuel).halt = some .outOfFuel
  · right
    have hb := (poisson_iterations_bound env fuel st0 h0).2
    have hi0 := init_inv env st0 h0
    have : (kernel env fuel).st.iters = st0.iters + fuel := by
      unfold kernel at hh ⊢; rw [h0] at hh ⊢
      exact (run_inv env fuel st0 hi0).2.2.2.2.1 hh
    have hi00 : st0.iters = 0 := by
      unfold init at h0
      split at h0
      · dsimp only at h0
        split at h0
        · cases h0
        · simp only [Except.ok.injEq] at h0; subst h0; rfl
      · cases h0
    omega
  · exact Or.inl hh

/-- `rand()` calls of a run: two for the initial point, one per outer iteration, two per attempt; at most
`max_attempts` attempts per iteration -/
theorem poisson_draws_bound (env : Env) (fuel : Nat) (st0 : St) (h0 : init env = .ok st0) :
    let st := (kernel env fuel).st
    st.pos = 2 + st.iters + 2 * st.att ∧ st.att ≤ st.iters * env.maxAttempts ∧
    st.pos ≤ 2 + st.iters * (1 + 2 * env.maxAttempts) := by
  have hi := poisson_kernel_invariant env fuel st0 h0
  have h1 := hi.draws; have h2 := hi.attLe
  refine ⟨h1, h2, ?_⟩
  rw [Nat.mul_add, Nat.mul_one, h1]
  have : 2 * (kernel env fuel).st.att ≤ (kernel env fuel).st.iters * (2 * env.maxAttempts) := by
    rw [Nat.mul_comm 2 env.maxAttempts, ← Nat.mul_assoc]; omega
  omega

/-- a run that ends normally ends with an empty active list -/
theorem poisson_done_no_actives (env : Env) (fuel : Nat) (h : (kernel env fuel).halt = none) :
    (kernel env fuel).st.acts.size = 0 := by
  unfold kernel at h ⊢
  cases h0 : init env with
  | error e => rw [h0] at h; cases h
  | ok st0 => rw [h0] at h; exact (run_inv env fuel st0 (init_inv env st0 h0)).2.2.2.1 h

/-- `randint(upper)` for `rand() = RAND_MAX` is `upper` itself, one past the documented range `{0, …, upper−1}`
(observation: probability 2⁻³¹ per draw; the model stops with `badIndex`, the compiled kernel would read
`pxs[num_actives]`) -/
theorem poisson_randint_rand_max : randint randMax 7 = 7 ∧ randint (randMax - 1) 7 = 6 ∧ randint 0 7 = 0 := by
  decide +kernel

/-- non-vacuity: the hypotheses `init env = .ok _` hold, and a recorded run that ends normally -/
example : (init overrunStaleEnv).toOption.isSome = true := by decide +kernel
example : (kernel { overrunStaleEnv with maxAttempts := 0 } 50).halt = none ∧
    (kernel { overrunStaleEnv with maxAttempts := 0 } 50).st.removals = 1 := by decide +kernel

/-- `VariableDensityPoissonMaskFunc.mask_func` around the kernel (`assemblePoisson`, what the driver runs for the
generator-level comparison) is the generic assembly `interior ∨ ACS disc` of `assemble` with the (corner-cropped)
kernel mask as interior — so `shape_contract`, `per_frame_pattern` and `C06.acs_subset_mask` apply to it, with and
without `crop_corner` -/
theorem poisson_assemble_eq_assemble (m : Mode) (shape : List Nat) (radius : Int) (crop : Option (List Bool))
    (ks : List (List Bool)) :
    assemblePoisson m shape radius crop ks = assemble .poisson m shape (.disc radius) false (ks.map (cropKernel crop)) := by
  unfold assemblePoisson assemble
  cases callGuard m shape.length with
  | error e => rfl
  | ok u =>
    simp only [Gen.isKt, Bool.false_eq_true, if_false, Gen.family]
    unfold assembleFrames
    simp only [acsFrame, Option.isSome_some, List.all_eq_true, implies_true, if_true, Option.getD_some, frameData,
      framePattern, Bool.false_eq_true, if_false, List.length_map, List.map_map]
    have e : (poissonFrame (rowsOf shape) (colsOf shape) radius crop) =
        ((fun p => orL p (centeredDisk (rowsOf shape) (colsOf shape) radius)) ∘ cropKernel crop) := by
      funext p; rfl
    rw [e]

/-- the documented shape of what `assemblePoisson` returns -/
theorem poisson_assemble_shape_contract (m : Mode) (shape : List Nat) (radius : Int) (crop : Option (List Bool))
    (ks : List (List Bool)) (t : Tensor Bool) (h : assemblePoisson m shape radius crop ks = .ok t) :
    t.shape = maskShape m shape ∧ t.data.length = prod t.shape ∧ ∀ coil, Broadcasts t.shape (coil :: shape) := by
  rw [poisson_assemble_eq_assemble] at h
  exact shape_contract _ _ _ _ _ _ t h

/-- the order before the repair `2480376` cropped the ACS disc as well: 3 × 3 grid, disc of radius 2 (all 9 cells),
crop keeping only the centre — pinned frame 1 cell, repaired frame the whole disc -/
theorem poisson_crop_pinned_violates :
    (poissonFramePinned 3 3 2 (some [false, false, false, false, true, false, false, false, false])
      (List.replicate 9 false)).count true = 1 ∧
    (poissonFrame 3 3 2 (some [false, false, false, false, true, false, false, false, false])
      (List.replicate 9 false)).count true = 9 := by decide

end PoissonKernel

/-! ## non-vacuity / regression examples -/

example : maskShape .static [7, 9, 12, 2] = [1, 1, 9, 12, 1] := by decide
example : maskShape .dynamic [7, 3, 9, 12, 2] = [1, 1, 3, 9, 12, 1] := by decide
example : maskShape .multislice [3, 9, 12, 2] = [1, 3, 9, 12, 1] := by decide
example : Broadcasts (maskShape .dynamic [7, 3, 9, 12, 2]) [5, 7, 3, 9, 12, 2] :=
  mask_shape_broadcasts .dynamic _ 5 (by decide)
example : (assemble .fastmriRandom .dynamic [2, 2, 4, 1] (.lines 2) false
    [[true, false, false, false], [false, false, false, true]]).toOption.map (·.data) =
    some [true, true, true, false, true, true, true, false, false, true, true, true, false, true, true, true] := by decide
example : (assemble .ktUniform .dynamic [1, 1, 2, 2, 4, 1] (.lines 2) false []).toOption = none := by decide
example : (assemble .gaussian2d .static [5, 5, 2] (.disc 2) true [[]]).toOption.map (·.data.count true) = some 9 := by decide
example : (gaussLoop 2 [false, true, false, false] [1, 7, 0, 0, 3]).2 = 0 := by decide
example : gaussLoop 2 [false, true, false, false] [1, 7, 0, 0, 3] = ([true, true, false, true], 0) := by decide
example : (gaussLoop 3 [false, true, true, false] [0, 3, 1, 2, 0, 3]).2 = 1 := by decide
/-- the hypotheses of `gaussian_loop_terminates` are satisfiable: the round-robin stream is fair -/
example : ∃ fuel, (gaussLoop 2 [false, true, false] ((List.range fuel).map fun j => (((j % 3 : Nat)) : Int))).2 = 0 :=
  gaussian_loop_terminates (fun j => ((j % 3 : Nat) : Int)) [false, true, false] 2
    (fun k i hi => ⟨3 * k + i, by omega, by simp at hi; omega⟩) (by decide)
/-- … and of `assemble_returns` / `shape_contract` -/
example : ∃ t, assemble .fastmriMagic .multislice [3, 2, 5, 4, 2] (.lines 1) false [List.replicate 4 false, List.replicate 4 true] = .ok t :=
  line_generator_returns _ rfl _ _ _ _ _ (by decide) (by decide) (by decide)
example : bisect (fun lo hi => (lo + hi) / 2) (fun p => if p = 5 then .within else if p < 5 then .below else .above) 20 0 16
    = .returned 5 := by decide

end DirectVerif.C04
