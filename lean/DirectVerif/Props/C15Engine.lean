import DirectVerif.Lemmas.C15Engine
import DirectVerif.Lemmas.C15Prune
/-!
# C15 (continued) — the code around the checkpoint core

`Checkpointer.load` argument forms, what `Engine.train` does before the loop (resume / initialization /
start_with_validation), `training_loop` with its validation / checkpoint / log events and the training-mode flags of the
models, DataParallel wrappers and strict model loading, `save(**kwargs)`, `save_to_disk`, scheduler + optimiser state,
the trainer's milestones, and which resumes are aligned with the accumulation windows.

Statements are about `Model/C15Engine.lean` (`C15E.load`, `trainStartT`, `vloop`, `vprocess`, `Api.roundTrip`, `Lr.step`,
`solverSteps`) — the definitions the driver executes against the real code — and connect them to the core machine of
`Model/Train.lean` / `Model/Ckpt.lean`.
-/
namespace DirectVerif.C15
open DirectVerif DirectVerif.Ckpt DirectVerif.Train DirectVerif.C15E

variable {P O G B L Sc : Type}

/-! ## `Checkpointer.load(iteration)` -/

/-- what 'latest' returns is what loading its label explicitly returns -/
theorem loadIter_of_loadLatest {S} (decode : Bytes → Option S) (d : Dir) (it : Int) (s : S)
    (h : loadLatest decode d = .ok it s) : loadIter decode d it = .ok it s := by
  unfold loadLatest at h
  unfold loadIter
  cases h1 : d .last with
  | none => rw [h1] at h; cases h
  | some txt =>
    rw [h1] at h
    simp only at h
    cases h2 : parseInt (readline txt) with
    | none => rw [h2] at h; cases h
    | some it' =>
      rw [h2] at h
      simp only at h
      cases h3 : d (.model it') with
      | none => rw [h3] at h; cases h
      | some b =>
        rw [h3] at h
        simp only at h
        cases h4 : decode b with
        | none => rw [h4] at h; cases h
        | some s' =>
          rw [h4] at h
          simp only at h
          injection h with e1 e2
          subst e1; subst e2
          simp [h3, h4]

/-- **argument forms of `load`**: `None` loads nothing, `"latest"` and `-1` (the default of `Engine.predict`) read
`last_model.txt`, any other integer names its file, anything else is rejected -/
theorem load_argument_forms {S} (decode : Bytes → Option S) (d : Dir) :
    load decode d .none = .none ∧ load decode d .latest = loadLatest decode d ∧
    load decode d (.int (-1)) = loadLatest decode d ∧
    load decode d .otherStr = .error .valueError ∧ load decode d .notIntNorStr = .error .valueError ∧
    ∀ n : Int, n ≠ -1 → load decode d (.int n) = loadIter decode d n := by
  refine ⟨rfl, rfl, rfl, rfl, rfl, ?_⟩
  intro n hn
  have : some n ∉ latestAliases := by
    simp [latestAliases]; omega
  simp [load, loadT, isLatest, this]

/-- after a completed save of label `it`, `load(it)`, `load("latest")` and `load(-1)` all return it -/
theorem load_by_label_equals_latest {S} (decode : Bytes → Option S) (d : Dir) (it : Nat) (chunks : List Bytes) (s : S)
    (hdec : decode chunks.flatten = some s) :
    let d' := run d (saveOps it chunks)
    load decode d' (.int it) = .ok it s ∧ load decode d' .latest = .ok it s ∧ load decode d' (.int (-1)) = .ok it s := by
  intro d'
  have hl : loadLatest decode d' = .ok it s := save_then_load decode d it chunks s hdec
  refine ⟨?_, hl, hl⟩
  rw [(load_argument_forms decode d').2.2.2.2.2 (it : Int) (by omega)]
  exact loadIter_of_loadLatest decode d' it s hl

/-! ## `Engine.train` before the loop -/

theorem initActs_pos (start : Nat) (hs : 0 < start) (init : Bool) (tbl : List InitBranch) (p : Bool) :
    initActs start init tbl p = initActs 1 init tbl p := by
  induction tbl generalizing p with
  | nil => rfl
  | cons b rest ih =>
    have he : b.cond.eval start init = b.cond.eval 1 init := by
      cases b.cond <;> simp [InitCond.eval, hs]
    simp only [initActs, he, ih]

/-- **an initialization checkpoint never restores the training state**: for every well-formed chain, when the process
does not resume from a checkpoint (no 'latest', or `resume=False`) the initialization file only provides the model
weights — optimiser state, `last_epoch`, scaler and the iteration counter are those of a fresh run — and a validation
is forced before the first iteration -/
theorem initialization_never_restores_training_state (tbl : List InitBranch) (hwf : wfInit tbl = true)
    (r : Run P O G B L Sc) (v : VCfg P) (a : StartArgs) (file : Snap P O Sc) (d : Dir)
    (hinit : a.init = true) (hno : a.resume = false ∨ loadLatest r.decode d = .none) :
    ∃ plan s, vstartT tbl r v a file d = some (plan, s) ∧ plan.startIter = 0 ∧ plan.swv = true ∧
      s.theta = v.enter file.theta ∧ s.ostate = r.init.ostate ∧ s.epoch = r.init.epoch ∧
      s.scaler = r.init.scaler ∧ s.grad = r.init.grad := by
  simp only [wfInit, Bool.and_eq_true, beq_iff_eq, Bool.not_eq_true'] at hwf
  obtain ⟨⟨⟨⟨⟨_, _⟩, _⟩, hm⟩, hv⟩, hf⟩ := hwf
  have hlat : (if a.resume = true then loadLatest r.decode d else LoadResult.none) = .none := by
    rcases hno with h | h
    · simp [h]
    · simp [h]
  simp only [vstartT, trainStartT]
  rw [hlat, hinit]
  simp only [hm, hv, hf, Bool.or_true, Bool.false_eq_true, if_false, if_true]
  refine ⟨_, _, rfl, rfl, rfl, ?_⟩
  cases hl : loadLatest r.decode d <;> simp [initModelsOnly]

/-- **a resumed run ignores the initialization checkpoint**: for every well-formed chain, when 'latest' holds a
checkpoint labelled `label ≥ 0` and `resume=True`, training starts at `label + 1` from the restored state whatever
`initialization` says, and `start_with_validation` is the caller's -/
theorem resume_wins_over_initialization (tbl : List InitBranch) (hwf : wfInit tbl = true)
    (r : Run P O G B L Sc) (v : VCfg P) (a : StartArgs) (file : Snap P O Sc) (d : Dir)
    (label : Nat) (c : Snap P O Sc) (hres : a.resume = true) (hl : loadLatest r.decode d = .ok label c) :
    ∃ plan, vstartT tbl r v a file d = some (plan, { restore r.ops.zero c with theta := v.enter c.theta }) ∧
      plan.startIter = label + 1 ∧ plan.swv = a.swv ∧ plan.initModels = false := by
  simp only [wfInit, Bool.and_eq_true, beq_iff_eq, Bool.not_eq_true'] at hwf
  obtain ⟨⟨⟨⟨⟨h1, h2⟩, _⟩, _⟩, _⟩, _⟩ := hwf
  have hst : (resumeStart (label : Int)).toNat = label + 1 := by unfold resumeStart; omega
  have hacts : initActs (label + 1) a.init tbl false = [] := by
    rw [initActs_pos _ (by omega)]
    cases a.init
    · exact h2
    · exact h1
  simp only [vstartT, trainStartT, hres, if_true, hl, hst, hacts, List.contains_nil, Bool.or_false, Bool.false_eq_true, if_false]
  exact ⟨_, rfl, rfl, rfl, rfl⟩

/-- the chain read from `Engine.train` is well formed; the "initialization also when resuming" chain (`elif` → `if`) and
the "load the whole initialization checkpoint" chain are rejected -/
theorem init_table_wf :
    wfInit initTable = true ∧
    wfInit [⟨.resumedAndInit, false, []⟩, ⟨.init, false, [.loadModels, .swvTrue]⟩] = false ∧
    wfInit [⟨.resumedAndInit, false, []⟩, ⟨.init, true, [.loadFull, .swvTrue]⟩] = false := by
  decide

/-! ## `training_loop` with validation data and mode flags -/

/-- **Every history of interruptions ends on the uninterrupted trajectory — with validation data, mode-dependent
additional models and any `start_with_validation` flags** (the engine as it is now: `validation_loop` ends with
`models_training_mode()`).  Same statement as `interrupted_history_equals_uninterrupted`, for the machine `vprocess`
that also performs the validations (before the first iteration when asked, at every `validation_steps`-th iteration, at
the last one) and tracks the training-mode flags of the models inside the parameters. -/
theorem interrupted_history_with_validation (r : Run P O G B L Sc) (hr : r.Ok) (v : VCfg P) (hv : v.Ok r)
    (file : Snap P O Sc) (d0 : Dir) (h0 : loadLatest r.decode d0 = .none) (stops : List (Stop × Bool))
    (ha : r.AlignedHist (stops.map (·.1)) d0) (swv : Bool) :
    ∃ d plan s dfin ev, vhistory r v file stops d0 = some d ∧
      vprocess r v ⟨true, false, swv⟩ file .finish d = some (plan, s, dfin, ev) ∧
      s = runRange r.ops r.lrAt r.cfg r.batch r.init 0 r.total := by
  obtain ⟨d, hd, hinv, hal⟩ := r.history_inv hr (stops.map (·.1)) d0 (Or.inl h0) ha
  have hvh := vhistory_eq_history v r hv hr file stops d0 (Or.inl h0) ha
  have hp := vprocess_eq_process v r hv hr swv file .finish d hinv
  obtain ⟨start, hst, e⟩ := r.process_eq hr .finish d hinv hal
  rw [e] at hp
  cases hx : vprocess r v ⟨true, false, swv⟩ file .finish d with
  | none => rw [hx] at hp; simp at hp
  | some x =>
    obtain ⟨plan, s, dfin, ev⟩ := x
    rw [hx] at hp
    simp only [Option.map_some, Option.some.injEq] at hp
    refine ⟨d, plan, s, dfin, ev, by rw [hvh, hd], hx, ?_⟩
    have : s = (r.loop .finish r.total start (r.U start) d).1 := by rw [← hp]
    rw [this]
    exact r.loop_finish hr r.total start d hst (by omega)

/-- the hypotheses `Run.Ok` and `VCfg.Ok` are jointly satisfiable: integer toy with the mode flag inside the parameters
(`enter` = all models in training mode; a validation ends in training mode; the optimiser leaves the flag alone), a
two-way codec -/
example : ∃ (r : Run (Bool × Int) Unit Int Int Int Unit) (v : VCfg (Bool × Int)), r.Ok ∧ v.Ok r ∧ v.hasVal = true :=
  ⟨{ ops := C15E.Toy.intOpsMode, lrAt := fun _ => 1, cfg := { k := 1 }, batch := fun _ => 1,
     init := ⟨(true, 0), (), 0, 0, ()⟩, total := 12, ckSteps := 3,
     encode := fun c => [[if c.theta.1 then 1 else 0, if c.theta.2 < 0 then 1 else 0, c.theta.2.natAbs], [c.epoch]],
     decode := fun b => match b with
       | [f, s, a, e] => some ⟨(f == 1, if s = 1 then -(a : Int) else (a : Int)), (), e, ()⟩
       | _ => none },
   C15E.Toy.intVNow 4,
   { table := rfl, label := rfl, init := rfl, save := by decide,
     codec := by
       intro c
       obtain ⟨⟨fl, th⟩, u, e, sc⟩ := c
       cases fl <;> by_cases h : th < 0
       · simp [h]; omega
       · simp [h]; omega
       · simp [h]; omega
       · simp [h]; omega },
   { after := fun _ => rfl, idem := fun _ => rfl, opt := fun _ _ _ _ h => h ▸ rfl, init := rfl },
   rfl⟩

/-- **the pinned tree violated the property through the mode flags**: `validation_loop` ended with `self.model.train()`,
so after the first validation (iteration 8) the additional models stayed in eval mode; a process stopped after
iteration 9 and resumed at 10 trains them in training mode again (gradient `2·b` instead of `b`): the resumed run ends
at `θ = −23`, the uninterrupted one at `θ = −21` — while with the code as it is now both end at `−24` -/
theorem validation_mode_pinned_violates :
    let r : Run (Bool × Int) Unit Int Int Int Unit :=
      { ops := C15E.Toy.intOpsMode, lrAt := fun _ => 1, cfg := { k := 1 }, batch := fun _ => 1,
        init := ⟨(true, 0), (), 0, 0, ()⟩, total := 12, ckSteps := 3, encode := fun _ => [], decode := fun _ => none }
    let run (v : VCfg (Bool × Int)) (stop : Stop) (start : Nat) (s : St (Bool × Int) Unit Int Unit) :=
      (vloop r v stop none start false 12 start { s with theta := v.enter s.theta } Dir.empty []).1
    let resumed (v : VCfg (Bool × Int)) :=
      run v .finish 10 (restore 0 (snapshot (run v (.vanishAfter 9) 0 r.init)))
    (run (C15E.Toy.intVPinned 4) .finish 0 r.init).theta = (false, -21) ∧
    (resumed (C15E.Toy.intVPinned 4)).theta = (false, -23) ∧
    (run (C15E.Toy.intVNow 4) .finish 0 r.init).theta = (true, -24) ∧
    (resumed (C15E.Toy.intVNow 4)).theta = (true, -24) := by
  decide

/-! ## bookkeeping events: checkpoints, logs, validations -/

/-- **the events of a process that runs to the end** are the optional validation before its first iteration followed by
the schedule of every iteration from `start_iter` on -/
theorem finished_process_events (r : Run P O G B L Sc) (v : VCfg P) (start : Nat) (swv : Bool)
    (s : St P O G Sc) (d : Dir) :
    (vloop r v .finish none start swv r.total start s d []).2.2 =
      (if swv = true ∧ start < r.total then [Event.validate start] else [])
        ++ schedule r.ckSteps v.valSteps r.total start (r.total - start) := by
  have := vloop_finish_events r v start swv r.total start s d [] (Nat.le_refl _) (by omega)
  simpa using this

/-- **a resume neither repeats nor skips bookkeeping**: the schedule of the uninterrupted run is the schedule up to the
checkpointed iteration `t` followed by the schedule of the resumed process (which starts at `t + 1`) -/
theorem resume_events_are_suffix (ck vs total t : Nat) (ht : t + 1 ≤ total) :
    schedule ck vs total 0 total = schedule ck vs total 0 (t + 1) ++ schedule ck vs total (t + 1) (total - (t + 1)) := by
  have := schedule_add ck vs total 0 (t + 1) (total - (t + 1))
  rw [show t + 1 + (total - (t + 1)) = total by omega, Nat.zero_add] at this
  exact this

/-- **the last iteration is checkpointed, logged and validated exactly once** — also when `num_iterations − 1` is a
multiple of `checkpoint_steps` / `validation_steps` (the guards are disjunctions, not two calls) -/
theorem final_iteration_bookkeeping (ck vs total : Nat) (h : 6 ≤ total) :
    bookkeeping ck vs total (total - 1) =
      [.iter (total - 1), .save ((total - 1 : Nat) : Int), .log (total - 1), .validate (total - 1)] := by
  have h1 : total - 1 + 1 = total := by omega
  have h5 : 5 ≤ total - 1 := by omega
  simp [bookkeeping, ckptGuard, logGuard, valGuard, h1, h5]

/-- **resuming a finished run does nothing**: 'latest' = `num_iterations − 1` gives `start_iter = num_iterations`; the
loop body is not entered — no iteration, no save, no validation (not even with `start_with_validation`) -/
theorem resume_finished_run_does_nothing (r : Run P O G B L Sc) (v : VCfg P) (stop : Stop) (swv : Bool)
    (s : St P O G Sc) (d : Dir) (die : Option Die) : vloop r v stop die r.total swv r.total r.total s d [] = (s, d, []) := by
  cases h : r.total with
  | zero => rfl
  | succ n => rw [vloop, if_pos (by omega)]

/-! ## DataParallel wrappers, strict model loading, `save_to_disk`, concurrent writers -/

/-- **a model is never loaded partially**: when `_load_model` succeeds, every parameter of the loaded module carries the
value stored in the file under its own key (missing keys raise `NotImplementedError` instead; unexpected keys in the file
are ignored) -/
theorem load_model_never_partial (m m' : Api.Module) (sd : Api.SD) (h : Api.loadModel m sd = .ok m') :
    m'.dp = m.dp ∧ m'.params.map (·.1) = m.params.map (·.1) ∧
    ∀ nv ∈ m'.params, sd.lookup (m.dp, nv.1) = some nv.2 := by
  unfold Api.loadModel at h
  split at h
  · cases h
  · rename_i hany
    injection h with h
    subst h
    refine ⟨rfl, by simp [List.map_map, Function.comp_def], ?_⟩
    intro nv hnv
    simp only [List.mem_map] at hnv
    obtain ⟨x, hx, rfl⟩ := hnv
    simp only [Bool.not_eq_true, List.any_eq_false, Api.Module.stateDict, List.mem_map] at hany
    have := hany ((m.dp, x.1), x.2) ⟨x, hx, rfl⟩
    cases hl : List.lookup (m.dp, x.1) sd with
    | none => simp [hl] at this
    | some v => simp

/-- a module whose keys are not all in the file is rejected -/
theorem missing_keys_rejected (m : Api.Module) (sd : Api.SD) (n v : Nat) (hn : (n, v) ∈ m.params)
    (hmiss : sd.lookup (m.dp, n) = none) : Api.loadModel m sd = .error .missingKeys := by
  unfold Api.loadModel
  rw [if_pos]
  simp only [List.any_eq_true, Api.Module.stateDict, List.mem_map]
  exact ⟨((m.dp, n), v), ⟨(n, v), hn, rfl⟩, by simp [hmiss]⟩

/-- **wrappers are transparent because the constructor strips them**: whatever the `DataParallel` /
`DistributedDataParallel` wrapping of the saver's and the loader's module, after `_remove_module_attribute` the keys of the
stored `state_dict` are the loader's keys — nothing is missing (same parameter names) -/
theorem dp_wrappers_transparent (saver loader : Api.Module) (hn : loader.params.map (·.1) = saver.params.map (·.1)) :
    ∃ m', Api.loadModel (Api.unwrapIf true loader) (Api.unwrapIf true saver).stateDict = .ok m' ∧ m'.dp = false := by
  have hall : ∀ nv ∈ loader.params, ((Api.unwrapIf true saver).stateDict.lookup (false, nv.1)).isSome = true := by
    intro nv hnv
    have hmem : nv.1 ∈ saver.params.map (·.1) := by rw [← hn]; exact List.mem_map.mpr ⟨nv, hnv, rfl⟩
    obtain ⟨x, hx, hx1⟩ := List.mem_map.mp hmem
    cases hl : List.lookup (false, nv.1) (Api.unwrapIf true saver).stateDict with
    | some v => rfl
    | none =>
      rw [List.lookup_eq_none_iff] at hl
      have := hl ((false, x.1), x.2) (by
        simp only [Api.unwrapIf, if_true, Api.Module.stateDict, List.mem_map]
        exact ⟨x, hx, rfl⟩)
      simp [hx1] at this
  unfold Api.loadModel
  rw [if_neg]
  · exact ⟨_, rfl, rfl⟩
  · simp only [Bool.not_eq_true, List.any_eq_false, Api.Module.stateDict, Api.unwrapIf, if_true, List.mem_map]
    rintro kv ⟨nv, hnv, rfl⟩
    have := hall nv hnv
    simp only [Api.unwrapIf, if_true, Api.Module.stateDict] at this
    simpa using this

/-- … and **every** `*model` key has to be unwrapped: a constructor that only unwrapped `model` would store a wrapped
additional model under `module.`-prefixed keys, which an unwrapped loader rejects (`NotImplementedError`) -/
theorem unwrap_regex_models_needed :
    let saver : Api.Objs := ⟨⟨true, [(0, 5)]⟩, some ⟨true, [(0, 7), (1, 8)]⟩, []⟩
    let loader : Api.Objs := ⟨⟨false, [(0, 1)]⟩, some ⟨false, [(0, 1), (1, 1)]⟩, []⟩
    Api.roundTrip latestAliases {} saver [] 3 {} loader (.load (.int 3))
      = .loaded (some 3) ⟨⟨false, [(0, 5)]⟩, some ⟨false, [(0, 7), (1, 8)]⟩, []⟩ [Api.dateKey, Api.iterKey] ∧
    Api.roundTrip latestAliases { unwrapRegex := false } saver [] 3 { unwrapRegex := false } loader (.load (.int 3))
      = .missingKeys := by
  decide

/-- a Checkpointer with `save_to_disk = False` (every rank but 0 in `Engine.train`) never touches the directory -/
theorem save_disabled_writes_nothing (t : List Stmt) (d : Dir) (it : Int) (chunks : List Bytes) :
    Api.saveIf false t d it chunks = d := rfl

/-- **why only one rank may write**: two processes running the (well-formed) save of the same label concurrently share
the temporary's name; if the second one opens (truncates) it while the first is between two writes, the first one's
`os.replace` puts an incomplete file in place and then switches the pointer to it: `load('latest')` fails -/
theorem two_writers_violates :
    let a := saveOps 5 (chunk (toyEncode 1 10) [3, 4])
    let b := saveOps 5 (chunk (toyEncode 1 10) [3, 4])
    wfSave saveTable = true ∧
    loadLatest toyDecode (run Dir.empty (a.take 2 ++ b.take 1 ++ a.drop 2)) = .error .corrupt := by
  decide

/-- `save(**kwargs)`: keyword arguments override the checkpointable of the same name and are appended otherwise;
`__datetime__` always comes last; `only_models` leaves everything but the models alone — concrete instances -/
example :
    let o : Api.Objs := ⟨⟨false, [(0, 5)]⟩, none, [(3, 30), (6, 60), (7, 70)]⟩
    (Api.fileOf o [(3, 31), (9, 90)]).others = [(3, 31), (6, 60), (9, 90), (Api.dateKey, 0)] ∧
    Api.roundTrip latestAliases {} o [(3, 31)] 4 {} ⟨⟨false, [(0, 1)]⟩, none, [(3, 1), (6, 2)]⟩ (.load .latest)
      = .loaded (some 4) ⟨⟨false, [(0, 5)]⟩, none, [(3, 31), (6, 2)]⟩ [6, Api.dateKey, Api.iterKey] ∧
    Api.roundTrip latestAliases {} o [] 4 {} ⟨⟨false, [(0, 1)]⟩, none, [(3, 1)]⟩ .modelsFromFile
      = .loaded none ⟨⟨false, [(0, 5)]⟩, none, [(3, 1)]⟩ [3, 6, Api.dateKey] ∧
    Api.roundTrip latestAliases { saveToDisk := false } o [] 4 {} ⟨⟨false, [(0, 1)]⟩, none, []⟩ (.load .latest) = .nothing := by
  decide

/-! ## scheduler and optimiser state -/

/-- **closed-form schedulers do not read the optimiser's current learning rate**: `step()` writes
`f base_lr (last_epoch + 1)` whatever `param_groups[0]["lr"]` was -/
theorem closed_form_step_ignores_optimizer_lr (f : Rat → Int → Rat) (o o' : Lr.Opt) (s : Lr.Sch) :
    (Lr.step f (o, s)).1.lr = (Lr.step f (o', s)).1.lr ∧ (Lr.step f (o, s)).2 = (Lr.step f (o', s)).2 :=
  ⟨rfl, rfl⟩

theorem lr_steps_sched (f : Rat → Int → Rat) (o o' : Lr.Opt) (s : Lr.Sch) (n : Nat) :
    (Lr.steps f (o, s) n).2 = (Lr.steps f (o', s) n).2 ∧
    (Lr.steps f (o, s) (n + 1)).1.lr = (Lr.steps f (o', s) (n + 1)).1.lr := by
  induction n with
  | zero => exact ⟨rfl, rfl⟩
  | succ n ih =>
    have hstep : ∀ x y : Lr.Opt × Lr.Sch, x.2 = y.2 →
        (Lr.step f x).2 = (Lr.step f y).2 ∧ (Lr.step f x).1.lr = (Lr.step f y).1.lr := by
      intro x y h; simp only [Lr.step, h, and_self]
    have h2 : (Lr.steps f (o, s) (n + 1)).2 = (Lr.steps f (o', s) (n + 1)).2 := (hstep _ _ ih.1).1
    exact ⟨h2, (hstep _ _ h2).2⟩

/-- **what has to be restored**: with optimiser (its `param_groups`) and scheduler both restored the resumed objects *are*
the saved ones; if only the scheduler is restored, the first iteration after the resume runs at the rate the fresh
constructor wrote (`f lr' 0`, the warm-up start value) and every later one at the right rate; if only the optimiser is
restored, the schedule restarts at `last_epoch = 0` -/
theorem what_resume_must_restore (f : Rat → Int → Rat) (lr' : Rat) (saved : Lr.Opt × Lr.Sch) (n : Nat) :
    Lr.resume f lr' saved true true = saved ∧
    (Lr.resume f lr' saved false true).1.lr = f lr' 0 ∧
    (Lr.steps f (Lr.resume f lr' saved false true) (n + 1)).1.lr = (Lr.steps f saved (n + 1)).1.lr ∧
    (Lr.steps f (Lr.resume f lr' saved false true) n).2 = (Lr.steps f saved n).2 ∧
    (Lr.resume f lr' saved true false).2.lastEpoch = 0 := by
  obtain ⟨o, s⟩ := saved
  have := lr_steps_sched f (Lr.construct f lr').1 o s n
  refine ⟨rfl, ?_, this.2, this.1, ?_⟩
  · simp [Lr.resume, Lr.construct, Lr.step]
  · simp [Lr.resume, Lr.construct, Lr.step]

/-- a **chained** scheduler (new rate computed from the current one, as torch's own `MultiStepLR`) would not have this
property: after a resume that does not restore the optimiser's `param_groups` it stays wrong for ever, the closed form
recovers at the next `step()` (halving at epoch 2, saved at epoch 3, fresh optimiser at rate 1) -/
theorem chained_scheduler_would_drift :
    let f : Rat → Int → Rat := fun base e => if e ≥ 2 then base / 2 else base
    let g : Rat → Int → Rat := fun cur e => if e = 2 then cur / 2 else cur
    let saved : Lr.Opt × Lr.Sch := (⟨1 / 2, 1⟩, ⟨3, 4, 1⟩)
    let fresh : Lr.Opt × Lr.Sch := (⟨1, 1⟩, saved.2)
    (Lr.step f fresh).1.lr = 1 / 2 ∧ (Lr.stepChained g fresh).1.lr = 1 ∧ (Lr.stepChained g saved).1.lr = 1 / 2 := by
  simp [Lr.step, Lr.stepChained]

/-! ## the trainer's milestones -/

theorem sorted_map_range' (a s : Int) (hs : 0 < s) : ∀ n k : Nat,
    Sched.sorted ((List.range' k n).map fun (i : Nat) => a + s * (i : Int)) = true
  | 0, _ => rfl
  | 1, _ => rfl
  | n + 2, k => by
    have ih := sorted_map_range' a s hs (n + 1) (k + 1)
    simp only [List.range'_succ, List.map_cons] at ih ⊢
    simp only [Sched.sorted, Bool.and_eq_true, decide_eq_true_eq]
    refine ⟨?_, ih⟩
    have : s * ((k + 1 : Nat) : Int) = s * (k : Int) + s := by
      rw [Int.natCast_succ, Int.mul_add, Int.mul_one]
    omega

/-- **the milestones `direct/train.py` hands to `WarmupMultiStepLR` are increasing** (so its constructor never raises, and
`bisect_right` counts correctly): `list(range(lr_step_size, num_iterations, lr_step_size))` -/
theorem solver_steps_sorted (step total : Int) : Sched.sorted (solverSteps step total) = true := by
  unfold solverSteps pyRange
  by_cases hs : step ≤ 0
  · rw [if_pos hs]; rfl
  · rw [if_neg hs, List.range_eq_range']
    exact sorted_map_range' step step (by omega) _ 0

/-! ## which resumes are aligned with the accumulation windows -/

/-- a SIGINT checkpoint (label `j − 1`) is at a window boundary iff the interrupted iteration opens a window -/
theorem kill_checkpoint_aligned_iff (k j : Nat) :
    (resumeStart (killLabel (j : Int))).toNat % k = 0 ↔ j % k = 0 := by
  have : (resumeStart (killLabel (j : Int))).toNat = j := by unfold resumeStart killLabel; omega
  rw [this]

/-- **when `gradient_steps` divides `checkpoint_steps` (the usual configuration) no periodic checkpoint is at a window
boundary**: a label `t` with `t % checkpoint_steps = 0` has `(t + 1) % k = 1` — every resume from a periodic checkpoint is
the mid-window resume of the known finding C16 `resume-mid-window` -/
theorem periodic_checkpoints_misaligned_when_k_divides_period (k ck t : Nat) (hk : 2 ≤ k) (hd : ck % k = 0)
    (ht : t % ck = 0) : (t + 1) % k = 1 := by
  have h1 : k ∣ ck := Nat.dvd_of_mod_eq_zero hd
  have h2 : ck ∣ t := Nat.dvd_of_mod_eq_zero ht
  have h3 : t % k = 0 := Nat.mod_eq_zero_of_dvd (Nat.dvd_trans h1 h2)
  rw [Nat.add_mod, h3, Nat.zero_add, Nat.mod_mod, Nat.mod_eq_of_lt (by omega)]

example : (2 : Nat) ≤ 2 ∧ 4 % 2 = 0 ∧ 8 % 4 = 0 ∧ (8 + 1) % 2 = 1 := by decide

/-- **for `k ≥ 2` two consecutive periodic checkpoints are never both aligned**, whatever `checkpoint_steps` is: the
alignment hypothesis of the history theorem can only hold for hand-picked stop points (e.g. SIGINTs at window starts) -/
theorem consecutive_periodic_checkpoints_never_both_aligned (k ck m : Nat) (hk : 2 ≤ k) :
    ¬ ((m * ck + 1) % k = 0 ∧ ((m + 1) * ck + 1) % k = 0) := by
  rintro ⟨h1, h2⟩
  have hsub : ((m + 1) * ck + 1 - (m * ck + 1)) % k = 0 := Nat.sub_mod_eq_zero_of_mod_eq (by rw [h1, h2])
  have hck : ck % k = 0 := by
    have : (m + 1) * ck + 1 - (m * ck + 1) = ck := by rw [Nat.add_mul]; omega
    rwa [this] at hsub
  have := periodic_checkpoints_misaligned_when_k_divides_period k ck (m * ck) hk hck (by simp)
  omega

/-- **exactly what a misaligned resume does, for every `k ≥ 2` and every checkpoint label `t`** (integer toy: every batch
gradient is `k`, learning rate 1): at the end of the window in which it resumed, the resumed run is off by exactly
`r = (t + 1) % k` — the `r` gradients that were in the accumulator when the checkpoint was written are lost, the divisor
stays `k`.  (`r = 0`: nothing is lost — `resume_equals_uninterrupted`.) -/
theorem misaligned_resume_differs (k t : Nat) (hk : 2 ≤ k) :
    let cfg : Cfg := { k := k }
    let batch : Nat → Int := fun _ => (k : Int)
    let init : St Int Unit Int Unit := ⟨0, (), 0, 0, ()⟩
    let U := runRange Toy.intOps (fun _ => (1 : Int)) cfg batch init 0
    let r := (t + 1) % k
    (runRange Toy.intOps (fun _ => (1 : Int)) cfg batch (restore 0 (snapshot (U (t + 1)))) (t + 1) (k - r)).theta
      = (U (t + 1 + (k - r))).theta + (r : Int) := by
  intro cfg batch init U r
  have hrk : r < k := Nat.mod_lt _ (by omega)
  -- the last window boundary before t + 1
  have hb : (t + 1 - r) % k = 0 := Nat.sub_mod_eq_zero_of_mod_eq (by simp [r])
  have hsplit : t + 1 = (t + 1 - r) + r := by have : r ≤ t + 1 := Nat.mod_le _ _; omega
  have hS : (U (t + 1 - r)).grad = 0 := by
    by_cases h0 : t + 1 - r = 0
    · rw [h0]; rfl
    · exact runRange_grad_zero Toy.intOps _ cfg batch init 0 (t + 1 - r) (by simpa using hb) (by omega)
  have hU : U (t + 1) = { U (t + 1 - r) with grad := (r : Int) * k, epoch := (U (t + 1 - r)).epoch + r } := by
    show runRange _ _ _ _ _ 0 (t + 1) = _
    conv => lhs; rw [hsplit]
    rw [runRange_add, Nat.zero_add,
      runRange_no_boundary Toy.intOps _ cfg batch _ (t + 1 - r) r
        (fun j hj => mod_window k (t + 1 - r) 0 j hb (by omega))]
    have hw : windowSum Toy.intOps batch (U (t + 1 - r)).theta (t + 1 - r) r (U (t + 1 - r)).grad
        = (U (t + 1 - r)).grad + (r : Int) * k := windowSum_const k _ _ _ _
    rw [hw, hS, Int.zero_add]
  have hres := intToy_first_step k hk (restore 0 (snapshot (U (t + 1)))) (t + 1) r rfl hrk
  have hun := intToy_first_step k hk (U (t + 1)) (t + 1) r rfl hrk
  have hadd : U (t + 1 + (k - r)) = runRange Toy.intOps (fun _ => (1 : Int)) cfg batch (U (t + 1)) (t + 1) (k - r) := by
    show runRange _ _ _ _ _ 0 (t + 1 + (k - r)) = _
    rw [runRange_add, Nat.zero_add]
  rw [hadd, hres, hun]
  have hkpos : (k : Int) ≠ 0 := by omega
  have e1 : (restore (0 : Int) (snapshot (U (t + 1)))).grad = 0 := rfl
  have e2 : (restore (0 : Int) (snapshot (U (t + 1)))).theta = (U (t + 1)).theta := rfl
  rw [e1, e2, hU]
  simp only
  rw [Int.zero_add, Int.mul_ediv_cancel _ hkpos, ← Int.add_mul, Int.mul_ediv_cancel _ hkpos]
  omega

/-- **which resumes are equal**: on the integer toy the resumed run agrees with the uninterrupted one at the end of the
window **iff** the checkpoint was written at a window boundary; together with `resume_equals_uninterrupted` (aligned ⇒
equal, for every model / loss / optimiser) and `periodic_checkpoints_misaligned_when_k_divides_period` this is the known
finding C16 `resume-mid-window`, exactly -/
theorem resume_equal_iff_aligned (k t : Nat) (hk : 2 ≤ k) :
    let cfg : Cfg := { k := k }
    let batch : Nat → Int := fun _ => (k : Int)
    let init : St Int Unit Int Unit := ⟨0, (), 0, 0, ()⟩
    let U := runRange Toy.intOps (fun _ => (1 : Int)) cfg batch init 0
    (runRange Toy.intOps (fun _ => (1 : Int)) cfg batch (restore 0 (snapshot (U (t + 1)))) (t + 1)
        (k - (t + 1) % k)).theta = (U (t + 1 + (k - (t + 1) % k))).theta ↔ (t + 1) % k = 0 := by
  intro cfg batch init U
  have key := misaligned_resume_differs k t hk
  simp only at key
  show (runRange Toy.intOps (fun _ => (1 : Int)) { k := k } (fun _ => (k : Int))
        (restore 0 (snapshot (runRange Toy.intOps (fun _ => (1 : Int)) { k := k } (fun _ => (k : Int))
          ⟨0, (), 0, 0, ()⟩ 0 (t + 1)))) (t + 1) (k - (t + 1) % k)).theta
      = (runRange Toy.intOps (fun _ => (1 : Int)) { k := k } (fun _ => (k : Int)) ⟨0, (), 0, 0, ()⟩ 0
          (t + 1 + (k - (t + 1) % k))).theta ↔ _
  rw [key]
  generalize (runRange Toy.intOps (fun _ => (1 : Int)) { k := k } (fun _ => (k : Int)) ⟨0, (), 0, 0, ()⟩ 0
          (t + 1 + (k - (t + 1) % k))).theta = X
  generalize (t + 1) % k = q
  omega

/-! ## save routines that delete older checkpoints (`max_to_keep`-style pruning) -/

/-- **Crash safety with pruning**: for *any* statement table accepted by `wfSaveX` (a well-formed core followed by
pruning statements only: nothing is deleted before `last_model.txt` has been switched to the new checkpoint), any
directory, label, chunking, any set `dels` of labels whose `model_<j>.pt` the pruning removes — as long as it does not
contain the new label — and any crash point (between and after the deletions included): `load('latest')` gives what it
gave before, or the new checkpoint. -/
theorem crash_safe_with_pruning {S} (decode : Bytes → Option S) (t : List Stmt) (hwf : wfSaveX t = true)
    (d : Dir) (it : Nat) (chunks : List Bytes) (s : S) (hdec : decode chunks.flatten = some s)
    (dels : List Int) (hd : (it : Int) ∉ dels) (n : Nat) (m : Option Nat) :
    let d' := run d (crashAt (opsOfX t it chunks dels) n m)
    loadLatest decode d' = loadLatest decode d ∨ loadLatest decode d' = .ok it s :=
  crash_safe_of_wfX decode t hwf d it chunks s hdec dels hd _ (crashAt_crashOf _ n m)

/-- … and the completed save (deletions included) is what `load('latest')` returns -/
theorem save_with_pruning_then_load {S} (decode : Bytes → Option S) (t : List Stmt) (hwf : wfSaveX t = true)
    (d : Dir) (it : Nat) (chunks : List Bytes) (s : S) (hdec : decode chunks.flatten = some s)
    (dels : List Int) (hd : (it : Int) ∉ dels) :
    loadLatest decode (run d (opsOfX t it chunks dels)) = .ok it s :=
  save_then_load_of_wfX decode t hwf d it chunks s hdec dels hd

/-- every well-formed table without pruning is a well-formed table with pruning; pruning at the end is accepted, pruning
between the two renames (or anywhere before the pointer moved) is rejected -/
theorem wf_tables_with_pruning :
    wfTables.all wfSaveX = true ∧ wfSaveX (saveTable ++ [.prune]) = true ∧
    wfSaveX [.openW .modelTmp, .writePayload .modelTmp, .closeF .modelTmp, .replace .modelTmp .model, .prune,
             .openW .lastTmp, .writeLabel .lastTmp, .closeF .lastTmp, .replace .lastTmp .last] = false ∧
    wfSaveX (.prune :: saveTable) = false := by
  decide

/-- **pruning before the pointer moved is not crash safe** (keep only the newest checkpoint, pruning right after the new
file was renamed into place): after a complete save at 5, the save at 12 deletes `model_5.pt` while `last_model.txt` still
names it — a crash right there makes `load('latest')` raise FileNotFoundError although `model_12.pt` is complete.  And
**the new label must not be among the deleted ones**: "keep the highest label" after re-saving a lower one (a restart over
an old directory) deletes the checkpoint just written. -/
theorem prune_before_pointer_violates :
    let tP : List Stmt := [.openW .modelTmp, .writePayload .modelTmp, .closeF .modelTmp, .replace .modelTmp .model, .prune,
                           .openW .lastTmp, .writeLabel .lastTmp, .closeF .lastTmp, .replace .lastTmp .last]
    let d := run Dir.empty (saveOps 5 (chunk (toyEncode 1 10) [3, 4]))
    loadLatest toyDecode d = .ok 5 1 ∧
    loadLatest toyDecode (run d (crashAt (opsOfX tP 12 (chunk (toyEncode 2 10) [3, 4]) [5]) 7 none)) = .error .fileNotFound ∧
    loadLatest toyDecode (run d (opsOfX tP 12 (chunk (toyEncode 2 10) [3, 4]) [5])) = .ok 12 2 ∧
    -- a well-formed table, but the pruning rule deletes the label just saved (12 exists, 5 is re-saved, "keep the highest")
    loadLatest toyDecode (run (run d (saveOps 12 (chunk (toyEncode 2 10) [3, 4])))
      (opsOfX (saveTable ++ [.prune]) 5 (chunk (toyEncode 3 10) [3, 4]) [5])) = .error .fileNotFound := by
  decide

example : wfSaveX (saveTable ++ [.prune]) = true ∧ ((7 : Nat) : Int) ∉ ([5, 6] : List Int) := by decide

/-! ## the second failure mode of a save: an exception raised inside a write (Python unwinds) -/

/-- **Exception safety of a save**: for every table whose core is well formed (`wfSave`) and whose exceptional path only
closes files (`wfUnwind`: no rename, no write, no deletion while an exception unwinds), any directory, label, chunking:
if the write that is operation `n` raises after `m` bytes — the enclosing `with` / `finally` clean-up runs, then the
exception leaves `save` — `load('latest')` gives what it gave before the save or the new checkpoint.  (Process death at
the same point: `crash_safe_all_wf_tables`.) -/
theorem exception_safe {S} (decode : Bytes → Option S) (xt : List XStmt) (hwf : wfSave (xt.map (·.stmt)) = true)
    (hun : wfUnwind xt = true) (d : Dir) (it : Nat) (chunks : List Bytes) (s : S)
    (hdec : decode chunks.flatten = some s) (n m : Nat) :
    let d' := run d (excOps xt it chunks n m)
    loadLatest decode d' = loadLatest decode d ∨ loadLatest decode d' = .ok it s := by
  show loadLatest decode (run d (excOps xt it chunks n m)) = _ ∨
    loadLatest decode (run d (excOps xt it chunks n m)) = _
  rw [run_excOps xt hun d it chunks n m]
  exact crash_safe_of_wf decode _ hwf d it chunks s hdec _ (crashAt_crashOf _ n (some m))

/-- the table as it is now (two `with open(tmp)` blocks: unwinding only closes the temporary) satisfies both predicates;
a context manager that closes **and renames** in a `finally` does not -/
theorem unwind_tables :
    wfUnwind saveTableX = true ∧ saveTableX.map (·.stmt) = saveTable ∧
    wfUnwind [⟨.openW .modelTmp, none⟩, ⟨.writePayload .modelTmp, none⟩, ⟨.closeF .modelTmp, some 1⟩,
              ⟨.replace .modelTmp .model, some 1⟩, ⟨.openW .lastTmp, none⟩, ⟨.writeLabel .lastTmp, none⟩,
              ⟨.closeF .lastTmp, some 5⟩, ⟨.replace .lastTmp .last, some 5⟩] = false := by
  decide

/-- **renaming on the exceptional path is not safe** (`finally: f.close(); os.replace(tmp, path)`): after a complete save
of label 5, a second save of label 5 (kill path after the periodic checkpoint of the same iteration) whose first payload
write raises after one byte renames the truncated temporary over the only good `model_5.pt`: `load('latest')` fails —
while the same exception under the table as it is now leaves the old checkpoint in place -/
theorem rename_on_unwind_violates :
    let bad : List XStmt :=
      [⟨.openW .modelTmp, none⟩, ⟨.writePayload .modelTmp, none⟩, ⟨.closeF .modelTmp, some 1⟩,
       ⟨.replace .modelTmp .model, some 1⟩, ⟨.openW .lastTmp, none⟩, ⟨.writeLabel .lastTmp, none⟩,
       ⟨.closeF .lastTmp, some 5⟩, ⟨.replace .lastTmp .last, some 5⟩]
    let d := run Dir.empty (saveOps 5 (chunk (toyEncode 1 10) [3, 4]))
    loadLatest toyDecode d = .ok 5 1 ∧
    loadLatest toyDecode (run d (excOps bad 5 (chunk (toyEncode 2 10) [3, 4]) 1 1)) = .error .corrupt ∧
    loadLatest toyDecode (run d (excOps saveTableX 5 (chunk (toyEncode 2 10) [3, 4]) 1 1)) = .ok 5 1 := by
  decide

/-! ## deaths at statement boundaries outside the kill path; what may be inside the kill path's `try` -/

/-- **a process that dies at any statement boundary of an iteration outside the kill path** (signal after `_do_iteration`
returned: during the optimiser step, after it, around `lr_scheduler.step()`, at the entry of the periodic save, inside
`write_to_logs`) **keeps the directory invariant**: nothing is saved on the way out, so 'latest' is still absent or the
uninterrupted run's state after its label — the next resume is on the uninterrupted trajectory
(`interrupted_history_with_validation`) -/
theorem death_outside_kill_path_keeps_invariant (r : Run P O G B L Sc) (hr : r.Ok) (v : VCfg P) (hv : v.Ok r)
    (stop : Stop) (x : Die) (hx : x.wf r) (start : Nat) (swv : Bool) (it : Nat) (d : Dir) (hd : r.Inv d) :
    r.Inv (vloop r v stop (some x) start swv r.total it (r.U it) d []).2.1 :=
  vloop_inv v r hv hr stop (some x) (fun y hy => by cases hy; exact hx) start swv r.total it d [] hd

/-- **why only `_do_iteration` may be inside the `try` that routes to the kill path**: the kill path stores the current
state under `iter_idx − 1`.  If the optimiser step were inside that `try` and the signal arrived right after it, the
checkpoint labelled 6 would already contain iteration 7's update; the resumed process (starting at 7) applies it again:
`θ = −53` instead of `−45` (integer toy, lr `= last_epoch + 1`, gradients 1) -/
theorem kill_path_after_step_violates :
    let cfg : Cfg := { k := 1 }
    let lrAt : Nat → Int := fun e => e + 1
    let batch : Nat → Int := fun _ => 1
    let init : St Int Unit Int Unit := ⟨0, (), 0, 0, ()⟩
    let U := runRange Toy.intOps lrAt cfg batch init 0
    -- iteration 7 interrupted after `optimizer.step()` (4 statements of the loop table), saved by the kill path
    let part := iterT (loopTable.take 4) Toy.intOps lrAt cfg (U 7) 7 (batch 7)
    let start := (resumeStart (killLabel 7)).toNat
    wfTry tryEvents = true ∧ wfTry [.backward, .divGrad, .clip, .optStep, .scalerUpdate, .zeroGrad] = false ∧
    (runRange Toy.intOps lrAt cfg batch (restore 0 (snapshot part)) start (9 - start)).theta = -53 ∧
    (U 9).theta = -45 := by
  decide

end DirectVerif.C15
