import DirectVerif.Lemmas.C14Plumbing
import DirectVerif.Lemmas.C14Loop
import DirectVerif.Props.C10
import Mathlib.Data.List.Perm.Basic
/-!
# C14 — volume reconstruction returns each volume once with its slices in order

Property theorems only (loop invariant and helpers: `Lemmas/C14Recon.lean`).  All statements are about
`Model/Recon.lean` (`reconstruct`, `processSlice`, `predict`), the definitions the driver executes
against the real `reconstruct_volumes` / `predict` / `_process_output`.
-/
namespace DirectVerif.C14
open DirectVerif DirectVerif.Sampler DirectVerif.Recon

/-! ## the assembly loop -/

/-- **Specification of the loop.**  Let the loader deliver, volume after volume (pairwise distinct
filenames, sizes as registered in the sampler), each volume's processed slices cut into *any* non-empty
consecutive pieces (batches of any sizes).  Then the generator yields exactly one tuple per volume, in
order, whose `k`-th slice is the `k`-th processed slice of that volume — nothing dropped, duplicated or
attributed to another volume — and ends without an exception. -/
theorem reconstruct_spec {β} (sizeOf : Nat → Option Nat) (zero : β) (vs : List (Nat × List (List β)))
    (hv : ∀ v ∈ vs, v.2 ≠ [] ∧ (∀ p ∈ v.2, p ≠ []) ∧ sizeOf v.1 = some v.2.flatten.length)
    (hd : vs.Pairwise fun a b => a.1 ≠ b.1) :
    reconstruct sizeOf zero RState.init (vs.flatMap fun v => volBatches v.1 v.2) =
      (vs.map fun v => (v.2.flatten, v.1), none) :=
  reconstruct_volumes_spec sizeOf zero vs RState.init hv hd
    (fun _ _ => Or.inl ⟨rfl, rfl, rfl⟩)

/-- one output per volume -/
theorem reconstruct_count {β} (sizeOf : Nat → Option Nat) (zero : β) (vs : List (Nat × List (List β)))
    (hv : ∀ v ∈ vs, v.2 ≠ [] ∧ (∀ p ∈ v.2, p ≠ []) ∧ sizeOf v.1 = some v.2.flatten.length)
    (hd : vs.Pairwise fun a b => a.1 ≠ b.1) :
    (reconstruct sizeOf zero RState.init (vs.flatMap fun v => volBatches v.1 v.2)).1.length = vs.length := by
  rw [reconstruct_spec sizeOf zero vs hv hd]; simp

theorem chunksOf_ne_nil {α} (k : Nat) (hk : 0 < k) (xs : List α) (hx : xs ≠ []) : chunksOf k xs ≠ [] := by
  rw [chunksOf_cons_step k xs hk hx]; simp

theorem chunksOf_piece_ne_nil {α} (k : Nat) (hk : 0 < k) (xs : List α) :
    ∀ p ∈ chunksOf k xs, p ≠ [] := by
  intro p hp
  obtain ⟨j, hj, hlt⟩ := chunksOf_mem k hk xs p hp
  intro e
  have := congrArg List.length (hj.symm.trans e)
  simp only [List.length_take, List.length_drop, List.length_nil] at this
  omega

/-- **Independence of the batch size**: cutting every volume into batches of `bs` gives the same
output for every `bs > 0`. -/
theorem reconstruct_independent_of_batch_size {β} (sizeOf : Nat → Option Nat) (zero : β)
    (vols : List (Nat × List β)) (hv : ∀ v ∈ vols, v.2 ≠ [] ∧ sizeOf v.1 = some v.2.length)
    (hd : vols.Pairwise fun a b => a.1 ≠ b.1) (bs : Nat) (hbs : 0 < bs) :
    reconstruct sizeOf zero RState.init (vols.flatMap fun v => volBatches v.1 (chunksOf bs v.2)) =
      (vols.map fun v => (v.2, v.1), none) := by
  have h := reconstruct_spec sizeOf zero (vols.map fun v => (v.1, chunksOf bs v.2))
    (by
      intro w hw
      rw [List.mem_map] at hw
      obtain ⟨v, hv', rfl⟩ := hw
      obtain ⟨h1, h2⟩ := hv v hv'
      exact ⟨chunksOf_ne_nil bs hbs _ h1, chunksOf_piece_ne_nil bs hbs _, by
        simp only [chunksOf_flatten bs hbs]; exact h2⟩)
    (by rw [List.pairwise_map]; exact hd)
  simp only [List.flatMap_map, List.map_map] at h
  rw [h]
  congr 1
  apply List.map_congr_left
  intro v _
  simp [chunksOf_flatten bs hbs]

/-! ## `_process_output` -/

/-- scaling factor `k` is applied to batch element `k` (and to no other) -/
theorem process_output_eq_map {α σ} (mul : α → σ → α) (res : Option (Nat × Nat)) (fwd : Nat → Img α)
    (scale : Nat → σ) (idxs : List Nat) :
    processOutput mul res (idxs.map fwd) (idxs.map scale) =
      (idxs.map fun i => processSlice mul res (fwd i) (scale i)).mapM id := by
  unfold processOutput
  congr 1
  induction idxs with
  | nil => rfl
  | cons i is ih => simp [ih]

/-- **Pointwise**: pixel `(i, j)` of the processed slice is pixel `(i + ⌊(H-h)/2⌋, j + ⌊(W-w)/2⌋)` of the
model output multiplied by that slice's scaling factor. -/
theorem process_output_pointwise {α σ} (mul : α → σ → α) (h w : Nat) (img out : Img α) (s : σ)
    (hout : processSlice mul (some (h, w)) img s = some out) (i j : Nat) (hi : i < h) (hj : j < w)
    (hH : h ≤ img.length) (hW : ∀ row ∈ img, row.length = (img.headD []).length)
    (hw : w ≤ (img.headD []).length) :
    (out[i]?.bind (·[j]?)) =
      ((img[i + (img.length - h) / 2]?.bind (·[j + ((img.headD []).length - w) / 2]?)).map (mul · s)) := by
  unfold processSlice cropImg at hout
  simp only [List.length_map] at hout
  split at hout
  · simp only [Option.some.injEq] at hout
    subst hout
    rw [List.getElem?_map,
      C10.center_crop_window h _ (by simpa using hH) i hi, List.length_map, List.getElem?_map]
    cases hrow : img[i + (img.length - h) / 2]? with
    | none => simp
    | some row =>
      have hmem : row ∈ img := List.mem_of_getElem? hrow
      have hlen := hW row hmem
      simp only [Option.map_some, Option.bind_some]
      rw [C10.center_crop_window w _ (by simp only [List.length_map]; omega) j hj, List.length_map,
        List.getElem?_map, hlen]
  · simp at hout

/-- without a crop the slice is the scaled model output -/
theorem process_output_no_crop {α σ} (mul : α → σ → α) (img : Img α) (s : σ) :
    processSlice mul none img s = some (img.map fun row => row.map (mul · s)) := rfl

/-- complex data: both parts are scaled by the slice's own factor, then the modulus is taken -/
theorem process_output_complex_no_crop {α σ} (mul : α → σ → α) (modulus : α → α → α) (img : Img (α × α))
    (s : σ) :
    processSliceC mul modulus none img s =
      some (img.map fun row => row.map fun p => modulus (mul p.1 s) (mul p.2 s)) := rfl

/-! ## `predict`: sampler → loader → assembly loop -/

theorem loaderBatches_vols {β} (fname : Nat → Nat) (out : Nat → β) (bs : Nat) (hbs : 0 < bs)
    (vols : List Vol) (hf : ∀ v ∈ vols, ∀ i ∈ v.indices, fname i = v.id) :
    loaderBatches fname out (vols.flatMap fun v => chunksOf bs v.indices) =
      (vols.map fun v => (v.id, (chunksOf bs v.indices).map fun p => p.map out)).flatMap
        fun v => volBatches v.1 v.2 := by
  unfold loaderBatches
  rw [List.flatMap_map, List.map_flatMap]
  apply flatMap_congr'
  intro v hv
  simp only [volBatches, List.map_map]
  apply List.map_congr_left
  intro p hp
  simp only [Function.comp, List.length_map]
  congr 1
  apply List.ext_getElem?
  intro k
  rw [List.getElem?_map, List.getElem?_replicate]
  by_cases hk : k < p.length
  · simp only [hk, if_true, List.getElem?_eq_getElem hk, Option.map_some]
    congr 1
    apply hf v hv
    obtain ⟨j, hj, _⟩ := chunksOf_mem bs hbs _ p hp
    have hmem : p[k] ∈ p := List.getElem_mem hk
    have hsub : ∀ x ∈ p, x ∈ v.indices := by
      intro x hx
      rw [hj] at hx
      exact List.mem_of_mem_drop (List.mem_of_mem_take hx)
    exact hsub _ hmem
  · simp only [hk, if_false, List.getElem?_eq_none (Nat.le_of_not_lt hk), Option.map_none]

/-- **End to end**: for every layout of non-empty volumes, every world size, rank and batch size, rank
`rank` yields exactly its volumes (C13: `rankVols`), each once, in order, slice `k` = processed output of
the volume's `k`-th dataset item; no exception.  The right-hand side does not mention `bs`. -/
theorem predict_spec {β} (layout : List Nat) (hl : ∀ n ∈ layout, 0 < n) (world rank bs : Nat)
    (hbs : 0 < bs) (out : Nat → β) (zero : β) :
    predict layout world rank bs out zero =
      ((rankVols layout world rank 0).map fun v => (v.indices.map out, v.id), none) := by
  unfold predict
  dsimp only
  have hpos := rankVols_pos layout world rank 0 hl
  have hpw := rankVols_pairwise layout world rank
  rw [bvs_iterate_eq _ bs hbs hpos, loaderBatches_vols _ out bs hbs]
  · have h := reconstruct_spec (lookupSize (rankVols layout world rank 0)) zero
      ((rankVols layout world rank 0).map fun v => (v.id, (chunksOf bs v.indices).map fun p => p.map out))
      (by
        intro w hw
        rw [List.mem_map] at hw
        obtain ⟨v, hv, rfl⟩ := hw
        have hvp := hpos v hv
        have hne : v.indices ≠ [] := by
          intro e
          have := congrArg List.length e
          simp only [Vol.indices, List.length_range', List.length_nil] at this
          omega
        refine ⟨?_, ?_, ?_⟩
        · intro e
          exact chunksOf_ne_nil bs hbs _ hne (List.map_eq_nil_iff.mp e)
        · intro p hp
          rw [List.mem_map] at hp
          obtain ⟨q, hq, rfl⟩ := hp
          intro e
          exact chunksOf_piece_ne_nil bs hbs _ q hq (List.map_eq_nil_iff.mp e)
        · simp only [lookupSize, find?_of_pairwise_id _ hpw v hv, Option.map_some, Option.some.injEq]
          rw [← List.map_flatten, chunksOf_flatten bs hbs, List.length_map, Vol.indices,
            List.length_range', Vol.size])
      (by
        rw [List.pairwise_map]
        exact hpw.imp (fun h => by omega))
    rw [h]
    congr 1
    rw [List.map_map]
    apply List.map_congr_left
    intro v _
    simp only [Function.comp]
    rw [← List.map_flatten, chunksOf_flatten bs hbs]
  · intro v hv i hi
    have hv' := mem_of_mem_rankVols layout world rank 0 v hv
    rw [Vol.indices, mem_range'_iff] at hi
    have hvp := hpos v hv
    unfold fnameOfIndex
    have hfind := find?_of_pairwise_range (volumes layout) (volsFrom_pairwise 0 0 layout) v hv' i
      (by omega) (by omega)
    rw [hfind]
    rfl

/-- **Across ranks**: the outputs of ranks `0 … world-1` together are every volume of the dataset
exactly once, in dataset order — independent of the world size and of the batch size. -/
theorem predict_all_ranks {β} (layout : List Nat) (hl : ∀ n ∈ layout, 0 < n) (world : Nat)
    (hw : 0 < world) (bs : Nat) (hbs : 0 < bs) (out : Nat → β) (zero : β) :
    (List.range world).flatMap (fun r => (predict layout world r bs out zero).1) =
      (volumes layout).map fun v => (v.indices.map out, v.id) := by
  have : ∀ r, (predict layout world r bs out zero).1 =
      (rankVols layout world r 0).map fun v => (v.indices.map out, v.id) := by
    intro r; rw [predict_spec layout hl world r bs hbs out zero]
  simp only [this]
  rw [← List.map_flatMap, rank_volumes_cover' layout world hw 0]
  simp [applyLimit]

-- hypotheses are satisfiable / the model computes what one expects
example : predict [2, 3, 1] 2 0 2 (fun i => 10 * i) 0 = ([([0, 10], 0), ([20, 30, 40], 1)], none) := by decide
example : predict [2, 3, 1] 2 1 4 (fun i => 10 * i) 0 = ([([50], 2)], none) := by decide
example : predict [2] 3 2 4 (fun i => 10 * i) 0 = ([], none) := by decide
example : ∀ n ∈ [2, 3, 1], 0 < n := by decide

/-- the loop relies on the sampler: a batch mixing two volumes (what the pre-repair
`BatchVolumeSampler` produced in its second pass, `C13.bvs_pinned_second_pass_violates`) raises
`ValueError` before anything is yielded -/
theorem reconstruct_mixed_batch_raises :
    reconstruct (lookupSize (volumes [2, 3])) 0 RState.init
      (loaderBatches (fnameOfIndex (volumes [2, 3])) (fun i => (10 * i : Nat)) [[0, 1, 2, 3], [4]]) =
      ([], some RErr.valueError) := by decide

/-! ## phase 2: `Engine.predict` with its plumbing, the data loader, `write_output_to_h5` -/

/-- `predict` always asks `build_batch_sampler` for the `"sequential"` sampler, which exists -/
theorem predict_uses_sequential_sampler :
    buildBatchSampler (some "sequential") false = .ok .batchVolumeOverSequential := by
  simp [buildBatchSampler]

/-- only `"random"` (with a list of datasets) and `"sequential"` are accepted -/
theorem build_batch_sampler_rejects (t : Option String) (l : Bool) (h1 : t ≠ some "random")
    (h2 : t ≠ some "sequential") : buildBatchSampler t l = .error .valueError := by
  simp [buildBatchSampler, h1, h2]

/-- **`Engine.predict`, end to end, with the processing inside the loop.**  For every in-order loader
(`num_workers`, `prefetch_factor` are not visible to the result), every layout of non-empty volumes whose
items share, per volume, one `reconstruction_size` header from which `_compute_resolution(crop, …)`
obtains a resolution `res` that `center_crop` accepts for every slice (`out i` = the processed slice,
possibly of a different spatial shape per volume): rank `rank` yields exactly its volumes, each once,
slice `k` = `out` of the volume's `k`-th item. -/
theorem predict_full_spec {α σ} (mul : α → σ → α) (layout : List Nat) (hl : ∀ n ∈ layout, 0 < n)
    (world rank bs : Nat) (hbs : 0 < bs) (key : CropKey) (fwd : Nat → Img α) (scale : Nat → σ)
    (recon : Nat → List Nat) (deliver : Loader) (hd : InOrder deliver) (out : Nat → Img α)
    (hout : ∀ v ∈ rankVols layout world rank 0, ∃ res,
      computeResolution key (recon v.start) = .ok res ∧
      ∀ i ∈ v.indices, recon i = recon v.start ∧ processSlice mul res (fwd i) (scale i) = some (out i)) :
    predictFull mul layout world rank bs key fwd scale recon deliver =
      ((rankVols layout world rank 0).map fun v => (v.indices.map out, v.id), none) := by
  rw [← predict_spec layout hl world rank bs hbs out []]
  unfold predictFull predict
  simp only [predict_uses_sequential_sampler, hd _]
  have hpos := rankVols_pos layout world rank 0 hl
  rw [bvs_iterate_eq _ bs hbs hpos, ← reconstructP_ok]
  congr 1
  unfold loaderBatches
  rw [List.map_map]
  apply List.map_congr_left
  intro p hp
  rw [List.mem_flatMap] at hp
  obtain ⟨v, hv, hpv⟩ := hp
  obtain ⟨res, hres, hall⟩ := hout v hv
  have hne := chunksOf_piece_ne_nil bs hbs _ p hpv
  have hsub : ∀ i ∈ p, i ∈ v.indices := by
    intro i hi
    obtain ⟨j, hj, _⟩ := chunksOf_mem bs hbs _ p hpv
    rw [hj] at hi
    exact List.mem_of_mem_drop (List.mem_of_mem_take hi)
  simp only [Function.comp]
  rw [processBatch_piece mul key fwd scale recon out p hne (recon v.start) res hres
    (fun i hi => (hall i (hsub i hi)).1) (fun i hi => (hall i (hsub i hi)).2)]

-- per-volume shapes and header-driven crops: volume 0 is 2x3 cropped to 1x3, volume 1 is 3x2 cropped to 1x2
example :
    predictFull (fun (x : Int) (s : Int) => x * s) [1, 2] 1 0 2 .header
      (fun i => if i = 0 then [[1, 2, 3], [4, 5, 6]] else [[10 * i, 1], [2, 3], [4, 5]])
      (fun i => (i : Int) + 1) (fun i => if i = 0 then [1, 3, 1] else [1, 2, 1]) id =
    ([([[[1, 2, 3]]], 0), ([[[4, 6]], [[6, 9]]], 1)], none) := by decide

/-- the loop trusts the loader's order: if a loader delivered a volume's batches out of order, the
volume would be yielded with its slices permuted and **no exception** (slice numbers are never read) -/
theorem loader_reorder_misorders_slices :
    reconstruct (lookupSize (volumes [4])) 0 RState.init
      (loaderBatches (fnameOfIndex (volumes [4])) (fun i => (10 * i : Nat)) [[2, 3], [0, 1]]) =
      ([([20, 30, 0, 10], 0)], none) := by decide

/-- an unsupported `crop` value raises `ValueError` on the first batch; `"header"` needs a 3-entry size -/
theorem compute_resolution_cases (r : List Nat) :
    computeResolution .none r = .ok none ∧ computeResolution .other r = .error .valueError ∧
      computeResolution .header [5, 7, 1] = .ok (some (5, 7)) ∧
      computeResolution .header [5, 7] = .error .indexError := by
  refine ⟨rfl, rfl, by simp [computeResolution], by simp [computeResolution]⟩

/-- **h5 round trip**: after `write_output_to_h5(output, dir)` with pairwise distinct basenames, the file
of every tuple holds, under the output key, exactly that volume's (channel-0) slices in order — whatever
was in the directory before. -/
theorem write_roundtrip {γ δ} (base : Nat → Nat) (chan0 : δ → γ) (key : String) (d : Dir γ)
    (output : List (δ × Nat)) (hd : output.Pairwise fun a b => base a.2 ≠ base b.2) (o : δ × Nat)
    (ho : o ∈ output) :
    readFile (writeOutput base chan0 key d output) (base o.2) = some (key, chan0 o.1) :=
  writeOutput_read base chan0 key output hd d o ho

/-- files of other names are left alone -/
theorem write_leaves_others {γ δ} (base : Nat → Nat) (chan0 : δ → γ) (key : String) (d : Dir γ)
    (output : List (δ × Nat)) (m : Nat) (h : ∀ o ∈ output, base o.2 ≠ m) :
    readFile (writeOutput base chan0 key d output) m = readFile d m :=
  writeOutput_read_untouched base chan0 key output d m h

/-- Files are named by the **basename** only: two volumes whose paths differ only in the directory
collide and the later one silently replaces the earlier one (outside C14's statement, which is about
the tuples yielded; recorded as a note). -/
theorem write_collision_last_wins :
    readFile (writeOutput (fun f => f % 10) id "reconstruction" [] [([1, 2], 3), ([7, 8, 9], 13)]) 3 =
      some ("reconstruction", [7, 8, 9]) := by decide

/-- **All ranks write into one directory**: with distinct basenames every volume of the dataset ends up
in its own file holding its processed slices in order, for every world size and batch size. -/
theorem predict_write_all_ranks {β} (layout : List Nat) (hl : ∀ n ∈ layout, 0 < n) (world : Nat)
    (hw : 0 < world) (bs : Nat) (hbs : 0 < bs) (out : Nat → β) (zero : β) (base : Nat → Nat)
    (hb : ∀ a b, base a = base b → a = b) (key : String) (v : Vol) (hv : v ∈ volumes layout) :
    readFile (writeOutput base id key []
        ((List.range world).flatMap fun r => (predict layout world r bs out zero).1)) (base v.id) =
      some (key, v.indices.map out) := by
  rw [predict_all_ranks layout hl world hw bs hbs out zero]
  have hpw : ((volumes layout).map fun v => (v.indices.map out, v.id)).Pairwise
      fun a b => base a.2 ≠ base b.2 := by
    rw [List.pairwise_map]
    exact (volsFrom_pairwise 0 0 layout).imp (fun h e => by have := hb _ _ e; omega)
  exact write_roundtrip base id key [] _ hpw (v.indices.map out, v.id)
    (List.mem_map.mpr ⟨v, hv, rfl⟩)

/-! ## phase 3: what the loop reads, which delivery orders it tolerates, the loss list -/

/-- **`slice_no` is never read**: whatever the items report as `slice_no` (position in the volume, file
coordinates after a `slice_data` filter, gaps, a permutation, a constant), the generator yields the same —
the `k`-th slice of a volume is the `k`-th slice *delivered* for it. -/
theorem reconstruct_ignores_slice_no {β ℓ} (sizeOf : Nat → Option Nat) (zero : β)
    (g : LBatch β ℓ → List Int) (bs : List (LBatch β ℓ)) :
    reconstructL sizeOf zero LState.init (bs.map fun b => { b with sliceNos := g b }) =
      reconstructL sizeOf zero LState.init bs :=
  reconstructL_sliceNos_irrelevant sizeOf zero g bs LState.init

/-- the loop with the loss list yields the same volumes as the loop without -/
theorem reconstructL_volumes {β ℓ} (sizeOf : Nat → Option Nat) (zero : β) (bs : List (LBatch β ℓ)) :
    ((reconstructL sizeOf zero LState.init bs).1.map fun y => (y.1, y.2.2)) =
        (reconstruct sizeOf zero RState.init (bs.map LBatch.erase)).1 ∧
      (reconstructL sizeOf zero LState.init bs).2 =
        (reconstruct sizeOf zero RState.init (bs.map LBatch.erase)).2 :=
  reconstructL_erase sizeOf zero bs LState.init

/-- **Specification of the loop with `slice_no` and `loss_dict_list`.**  For well-formed streams (as in
`reconstruct_spec`; each piece carries arbitrary slice numbers and the loss dict of its batch): one yield
per volume, slices in delivery order, and the loss list of the `k`-th yield is the list of the loss dicts
of the **first batch** of volumes `0 … k` (`yieldsFrom`, `loss_list_of_kth_yield`). -/
theorem reconstructL_spec {β ℓ} (sizeOf : Nat → Option Nat) (zero : β) (d : ℓ)
    (vs : List (Nat × List (List (β × Int) × ℓ)))
    (hv : ∀ v ∈ vs, v.2 ≠ [] ∧ (∀ p ∈ v.2, p.1 ≠ []) ∧ sizeOf v.1 = some (piecesOuts v.2).length)
    (hd : vs.Pairwise fun a b => a.1 ≠ b.1) :
    reconstructL sizeOf zero LState.init (vs.flatMap fun v => volBatchesL v.1 v.2) =
      (yieldsFrom [] vs d, none) :=
  reconstructL_volumes_spec sizeOf zero d vs RState.init [] hv hd (fun _ _ => Or.inl ⟨rfl, rfl, rfl⟩)

/-- the loss list yielded with the `k`-th volume: first-batch loss dicts of volumes `0 … k` — a running
list over the whole loader, **not** the losses of that volume's batches (outside C14's statement, which
is about the volumes; recorded as a note) -/
theorem loss_list_of_kth_yield {β ℓ} (d : ℓ) (vs : List (Nat × List (List (β × Int) × ℓ))) (k : Nat)
    (hk : k < vs.length) :
    ((yieldsFrom [] vs d)[k]?).map (·.2.1) =
      some ((vs.take (k + 1)).map fun v => (v.2.head?.map (·.2)).getD d) := by
  simpa using yieldsFrom_losses d vs [] k hk

/-- witness: volume 1 (two batches with losses 30 and 40) is yielded with the list `[10, 30]` — the loss
of volume 0's batch is in it, the loss 40 of its own second batch is not -/
theorem loss_list_not_per_volume :
    reconstructL (ℓ := Nat) (fun f => if f = 0 then some 1 else some 2) (0 : Nat) LState.init
        [⟨[0], [0], [5], 10⟩, ⟨[1], [0], [6], 30⟩, ⟨[1], [1], [7], 40⟩] =
      ([([5], [10], 0), ([6, 7], [10, 30], 1)], none) := by decide

/-- **Tolerated reorderings.**  Let the loader deliver the volumes of `vs` in another order (`hvol`) and,
inside a volume, its batches in another order (`hpieces`), but every volume's batches *contiguously*.
Then the generator still yields every volume exactly once without an exception, in the delivered volume
order, and the slices of a volume are its pieces **in the delivered order**: the output for a volume is
right iff the delivered pieces concatenate to the volume (`v'.2.flatten = v.2.flatten`), in particular
for every reordering of whole volumes. -/
theorem reconstruct_reordered {β} (sizeOf : Nat → Option Nat) (zero : β) (vs vs' : List (Nat × List (List β)))
    (hv : ∀ v ∈ vs, v.2 ≠ [] ∧ (∀ p ∈ v.2, p ≠ []) ∧ sizeOf v.1 = some v.2.flatten.length)
    (hd : vs.Pairwise fun a b => a.1 ≠ b.1)
    (hvol : (vs'.map (·.1)).Perm (vs.map (·.1)))
    (hpieces : ∀ v' ∈ vs', ∃ v ∈ vs, v.1 = v'.1 ∧ v'.2.Perm v.2) :
    reconstruct sizeOf zero RState.init (vs'.flatMap fun v => volBatches v.1 v.2) =
      (vs'.map fun v => (v.2.flatten, v.1), none) := by
  apply reconstruct_spec
  · intro v' hv'
    obtain ⟨v, hvm, hid, hp⟩ := hpieces v' hv'
    obtain ⟨h1, h2, h3⟩ := hv v hvm
    refine ⟨?_, ?_, ?_⟩
    · intro e
      rw [e] at hp
      exact h1 (List.Perm.eq_nil hp.symm)
    · intro p hpm
      exact h2 p (hp.mem_iff.mp hpm)
    · rw [← hid, h3, hp.flatten.length_eq]
  · have h1 : (vs.map (·.1)).Pairwise (· ≠ ·) := by rw [List.pairwise_map]; exact hd
    have h2 := (hvol.pairwise_iff (R := fun (a b : Nat) => a ≠ b) (fun h => h.symm)).mpr h1
    rw [List.pairwise_map] at h2
    exact h2

/-- … so the set of outputs does not depend on the order in which whole volumes arrive -/
theorem reconstruct_any_volume_order {β} (sizeOf : Nat → Option Nat) (zero : β)
    (vs vs' : List (Nat × List (List β)))
    (hv : ∀ v ∈ vs, v.2 ≠ [] ∧ (∀ p ∈ v.2, p ≠ []) ∧ sizeOf v.1 = some v.2.flatten.length)
    (hd : vs.Pairwise fun a b => a.1 ≠ b.1) (hp : vs'.Perm vs) :
    (reconstruct sizeOf zero RState.init (vs'.flatMap fun v => volBatches v.1 v.2)).1.Perm
        (reconstruct sizeOf zero RState.init (vs.flatMap fun v => volBatches v.1 v.2)).1 ∧
      (reconstruct sizeOf zero RState.init (vs'.flatMap fun v => volBatches v.1 v.2)).2 = none := by
  rw [reconstruct_spec sizeOf zero vs hv hd,
    reconstruct_reordered sizeOf zero vs vs' hv hd (hp.map _)
      (fun v' hv' => ⟨v', hp.mem_iff.mp hv', rfl, List.Perm.refl _⟩)]
  exact ⟨hp.map _, rfl⟩

/-- **Not tolerated (1): batches of one volume out of order.**  As soon as two batches may be in flight
(`k ≥ 2`), a loader that hands over whichever is ready can deliver the two batches `p`, `q` of a volume
swapped; the volume is then yielded as `q ++ p`, silently. -/
theorem window_two_can_misorder {β} (k : Nat) (hk : 2 ≤ k) (sizeOf : Nat → Option Nat) (zero : β) (f : Nat)
    (p q : List β) (hp : p ≠ []) (hq : q ≠ []) (hs : sizeOf f = some (q.length + p.length)) :
    ∃ ys ∈ windowOrders k (volBatches f [p, q]),
      reconstruct sizeOf zero RState.init ys = ([(q ++ p, f)], none) := by
  refine ⟨volBatches f [q, p], windowOrders_swap k hk _ _, ?_⟩
  have := reconstruct_spec sizeOf zero [(f, [q, p])]
    (by
      intro v hv
      simp only [List.mem_singleton] at hv
      subst hv
      refine ⟨by simp, ?_, by simpa using hs⟩
      intro x hx
      simp only [List.mem_cons, List.not_mem_nil, or_false] at hx
      rcases hx with rfl | rfl <;> assumption)
    (by simp)
  simpa using this

/-- **Not tolerated (2): interleaved volumes.**  A batch of another file makes the loop forget the volume
it was assembling: the next step does not depend on `curr_volume` / `slice_counter` of the interrupted
volume at all. -/
theorem filename_change_discards_partial_volume {β} (sizeOf : Nat → Option Nat) (zero : β)
    (s1 s2 : RState β) (g1 g2 f : Nat) (h1 : s1.last = some g1) (h1' : g1 ≠ f) (h2 : s2.last = some g2)
    (h2' : g2 ≠ f) (b : RBatch β) (hb : filenameOf b.fnames = some f) :
    rstep sizeOf zero s1 b = rstep sizeOf zero s2 b := by
  unfold rstep
  simp [hb, h1, h1', h2, h2']

/-- witness: two 4-slice volumes delivered alternately in batches of 2 — nothing is yielded and no
exception is raised (both volumes are silently lost) -/
theorem interleaved_volumes_are_lost :
    reconstruct (lookupSize (volumes [4, 4])) 0 RState.init
      (loaderBatches (fnameOfIndex (volumes [4, 4])) (fun i => (10 * i : Nat)) [[0, 1], [4, 5], [2, 3], [6, 7]]) =
      ([], none) := by decide

theorem flatMap_singleton_map {α γ} (f : α → γ) (l : List α) : l.flatMap (fun a => [f a]) = l.map f := by
  induction l with
  | nil => rfl
  | cons a l ih => simp [ih]

/-- **Tolerated for every window**: when every volume fits into one batch (batch size ≥ every volume),
every delivery order of a loader with any number `k` of batches in flight yields every volume exactly
once, correctly assembled, without an exception (only the order of the tuples follows the delivery). -/
theorem single_batch_volumes_any_order {β} (sizeOf : Nat → Option Nat) (zero : β) (vols : List (Nat × List β))
    (hv : ∀ v ∈ vols, v.2 ≠ [] ∧ sizeOf v.1 = some v.2.length)
    (hd : vols.Pairwise fun a b => a.1 ≠ b.1) (k : Nat) (hk : 0 < k) (ys : List (RBatch β))
    (hy : ys ∈ windowOrders k (vols.map fun v => (⟨List.replicate v.2.length v.1, v.2⟩ : RBatch β))) :
    (reconstruct sizeOf zero RState.init ys).1.Perm (vols.map fun v => (v.2, v.1)) ∧
      (reconstruct sizeOf zero RState.init ys).2 = none := by
  have hperm := windowOrders_perm k hk _ ys hy
  have hc := congrFun (congrFun (List.eq_map_comp_perm
    (fun (v : Nat × List β) => (⟨List.replicate v.2.length v.1, v.2⟩ : RBatch β))) ys) vols
  have : ∃ vols' : List (Nat × List β), ys = vols'.map (fun (v : Nat × List β) => (⟨List.replicate v.2.length v.1, v.2⟩ : RBatch β)) ∧
      vols'.Perm vols := by
    have h' : Relation.Comp (fun (a : List (RBatch β)) (b : List (Nat × List β)) =>
        a = List.map (fun v => (⟨List.replicate v.2.length v.1, v.2⟩ : RBatch β)) b) List.Perm ys vols := by
      rw [hc]; exact hperm
    exact h'
  obtain ⟨vols', rfl, hp⟩ := this
  have hspec := reconstruct_reordered sizeOf zero (vols.map fun v => (v.1, [v.2])) (vols'.map fun v => (v.1, [v.2]))
    (by
      intro w hw
      rw [List.mem_map] at hw
      obtain ⟨v, hvm, rfl⟩ := hw
      obtain ⟨h1, h2⟩ := hv v hvm
      refine ⟨by simp, ?_, by simpa using h2⟩
      intro x hx
      simp only [List.mem_singleton] at hx
      subst hx; exact h1)
    (by rw [List.pairwise_map]; exact hd)
    (by simp only [List.map_map]; exact hp.map _)
    (by
      intro w hw
      rw [List.mem_map] at hw
      obtain ⟨v, hvm, rfl⟩ := hw
      exact ⟨(v.1, [v.2]), List.mem_map.mpr ⟨v, hp.mem_iff.mp hvm, rfl⟩, rfl, List.Perm.refl _⟩)
  have hb : ((vols'.map fun v => (v.1, [v.2])).flatMap fun v => volBatches v.1 v.2) =
      vols'.map (fun (v : Nat × List β) => (⟨List.replicate v.2.length v.1, v.2⟩ : RBatch β)) := by
    rw [List.flatMap_map]
    simp only [volBatches, List.map_cons, List.map_nil]
    exact flatMap_singleton_map _ _
  rw [hb] at hspec
  rw [hspec]
  refine ⟨?_, rfl⟩
  simp only [List.map_map]
  exact (hp.map _).trans (by simp [Function.comp_def])

/-- **`Engine.predict` with a loader that keeps one batch in flight** (and torch's default
`in_order=True` for any number of workers): `predict_full_spec` applies. -/
theorem predict_full_spec_window_one {α σ} (mul : α → σ → α) (layout : List Nat) (hl : ∀ n ∈ layout, 0 < n)
    (world rank bs : Nat) (hbs : 0 < bs) (key : CropKey) (fwd : Nat → Img α) (scale : Nat → σ)
    (recon : Nat → List Nat) (deliver : Loader) (hd : ∀ b, deliver b ∈ windowOrders 1 b) (out : Nat → Img α)
    (hout : ∀ v ∈ rankVols layout world rank 0, ∃ res,
      computeResolution key (recon v.start) = .ok res ∧
      ∀ i ∈ v.indices, recon i = recon v.start ∧ processSlice mul res (fwd i) (scale i) = some (out i)) :
    predictFull mul layout world rank bs key fwd scale recon deliver =
      ((rankVols layout world rank 0).map fun v => (v.indices.map out, v.id), none) :=
  predict_full_spec mul layout hl world rank bs hbs key fwd scale recon deliver
    (fun b => by have := hd b; rw [windowOrders_one] at this; simpa using this) out hout

/-! ### the hypotheses of `predict_full_spec` discharged for the two supported `crop` values -/

/-- `crop=None` (or `""`): **unconditional** — for every layout of non-empty volumes, world size, rank,
batch size, in-order loader, model outputs of any (per-item) shapes, scaling factors and headers, rank
`rank` yields exactly its volumes, each once, slice `k` = model output of the volume's `k`-th item times
that item's scaling factor. -/
theorem predict_full_no_crop {α σ} (mul : α → σ → α) (layout : List Nat) (hl : ∀ n ∈ layout, 0 < n)
    (world rank bs : Nat) (hbs : 0 < bs) (fwd : Nat → Img α) (scale : Nat → σ) (recon : Nat → List Nat)
    (deliver : Loader) (hd : InOrder deliver) :
    predictFull mul layout world rank bs .none fwd scale recon deliver =
      ((rankVols layout world rank 0).map fun v =>
        (v.indices.map fun i => (fwd i).map fun row => row.map (mul · (scale i)), v.id), none) := by
  have h0 : predictFull mul layout world rank bs .none fwd scale recon deliver =
      predictFull mul layout world rank bs .none fwd scale (fun _ => []) deliver := rfl
  rw [h0]
  exact predict_full_spec mul layout hl world rank bs hbs .none fwd scale (fun _ => []) deliver hd
    (fun i => (fwd i).map fun row => row.map (mul · (scale i)))
    (fun v _ => ⟨none, rfl, fun i _ => ⟨rfl, rfl⟩⟩)

/-- **Across ranks, with the processing inside**: for `crop=None` the outputs of ranks `0 … world-1`
together are every volume of the dataset exactly once, in dataset order, slice `k` = scaled model output
of the volume's `k`-th item — independent of world size, batch size and (in-order) loader. -/
theorem predict_full_all_ranks_no_crop {α σ} (mul : α → σ → α) (layout : List Nat) (hl : ∀ n ∈ layout, 0 < n)
    (world : Nat) (hw : 0 < world) (bs : Nat) (hbs : 0 < bs) (fwd : Nat → Img α) (scale : Nat → σ)
    (recon : Nat → List Nat) (deliver : Loader) (hd : InOrder deliver) :
    (List.range world).flatMap
        (fun r => (predictFull mul layout world r bs .none fwd scale recon deliver).1) =
      (volumes layout).map fun v =>
        (v.indices.map fun i => (fwd i).map fun row => row.map (mul · (scale i)), v.id) := by
  have : ∀ r, (predictFull mul layout world r bs .none fwd scale recon deliver).1 =
      (rankVols layout world r 0).map fun v =>
        (v.indices.map fun i => (fwd i).map fun row => row.map (mul · (scale i)), v.id) := by
    intro r; rw [predict_full_no_crop mul layout hl world r bs hbs fwd scale recon deliver hd]
  simp only [this]
  rw [← List.map_flatMap, rank_volumes_cover' layout world hw 0]
  simp [applyLimit]

/-- `center_crop` accepts every size that is positive and fits -/
theorem processSlice_header_ok {α σ} (mul : α → σ → α) (h w : Nat) (img : Img α) (s : σ) (hh : 0 < h)
    (hH : h ≤ img.length) (hw : 0 < w) (hW : w ≤ (img.headD []).length) :
    processSlice mul (some (h, w)) img s =
      some ((Crop.centerCrop h (img.map fun row => row.map (mul · s))).map (Crop.centerCrop w)) := by
  unfold processSlice cropImg
  have e : ((img.map fun row => row.map (mul · s)).headD []).length = (img.headD []).length := by
    cases img with
    | nil => rfl
    | cons r rs => simp
  simp only [List.length_map, e, Crop.centerCropOk]
  have h1 : (decide ((0 : Int) < (h : Int)) && decide ((h : Int) ≤ (img.length : Int))) = true := by
    simp only [Bool.and_eq_true, decide_eq_true_eq]; omega
  have h2 : (decide ((0 : Int) < (w : Int)) && decide ((w : Int) ≤ ((img.headD []).length : Int))) = true := by
    simp only [Bool.and_eq_true, decide_eq_true_eq]; omega
  simp only [h1, h2, Bool.and_self, if_true]

/-- `crop="header"`: every volume of the rank carries **its own** header `reconstruction_size = (x, y, z)`
(the same for all its items) with `0 < x ≤ height`, `0 < y ≤ width` of the volume's model outputs.  Then
rank `rank` yields exactly its volumes, each once, slice `k` = the centre `x × y` window (C10) of the
model output of the volume's `k`-th item times that item's scaling factor — volumes with different image
shapes and different headers in one loader included. -/
theorem predict_full_header {α σ} (mul : α → σ → α) (layout : List Nat) (hl : ∀ n ∈ layout, 0 < n)
    (world rank bs : Nat) (hbs : 0 < bs) (fwd : Nat → Img α) (scale : Nat → σ) (recon : Nat → List Nat)
    (deliver : Loader) (hd : InOrder deliver)
    (hhdr : ∀ v ∈ rankVols layout world rank 0, ∃ x y z, 0 < x ∧ 0 < y ∧
      ∀ i ∈ v.indices, recon i = [x, y, z] ∧ x ≤ (fwd i).length ∧ y ≤ ((fwd i).headD []).length) :
    predictFull mul layout world rank bs .header fwd scale recon deliver =
      ((rankVols layout world rank 0).map fun v =>
        (v.indices.map fun i =>
          (Crop.centerCrop ((recon i).getD 0 0) ((fwd i).map fun row => row.map (mul · (scale i)))).map
            (Crop.centerCrop ((recon i).getD 1 0)), v.id), none) := by
  apply predict_full_spec mul layout hl world rank bs hbs .header fwd scale recon deliver hd
  intro v hv
  obtain ⟨x, y, z, hx, hy, hall⟩ := hhdr v hv
  have hpos := rankVols_pos layout world rank 0 hl v hv
  have hstart : v.start ∈ v.indices := by
    rw [Vol.indices, mem_range'_iff]; omega
  refine ⟨some (x, y), ?_, ?_⟩
  · rw [(hall v.start hstart).1]; simp [computeResolution]
  · intro i hi
    obtain ⟨h1, h2, h3⟩ := hall i hi
    refine ⟨by rw [h1, (hall v.start hstart).1], ?_⟩
    rw [processSlice_header_ok mul x y (fwd i) (scale i) hx h2 hy h3, h1]
    rfl

example : ∃ x y z, 0 < x ∧ 0 < y ∧ ∀ i ∈ ([0, 1] : List Nat),
    (fun _ => [1, 2, 1]) i = [x, y, z] ∧ x ≤ ([[1, 2, 3], [4, 5, 6]] : Img Int).length ∧
      y ≤ (([[1, 2, 3], [4, 5, 6]] : Img Int).headD []).length := ⟨1, 2, 1, by decide⟩

-- hypotheses are satisfiable / the definitions compute what one expects
example : windowOrders 2 [1, 2, 3] = [[1, 2, 3], [1, 3, 2], [2, 1, 3], [2, 3, 1]] := by decide
-- a slow first batch may arrive arbitrarily late, a batch at most `k - 1` positions early
example : [2, 3, 4, 1] ∈ windowOrders 2 [1, 2, 3, 4] ∧ [3, 1, 2, 4] ∉ windowOrders 2 [1, 2, 3, 4] := by decide
example : windowOrders 1 [1, 2, 3] = [[1, 2, 3]] := by decide
example : reconstructL (ℓ := Nat) (fun _ => some 2) (0 : Nat) LState.init
    ((volBatchesL 7 [([(5, 3), (6, 9)], 11)])) = ([([5, 6], [11], 7)], none) := by decide
example : stateWritesOk expectedStateWrites = true := by decide

/-! ## Phase 4 — the 3-D branch of `evaluate`: `volume.transpose(1, 2).reshape(sc * z, c, x, y)`

`evalReshape` (what the driver executes against the real `evaluate` with `ndim = 3`) merges the slice and the
frame axis.  Row `j` of the tensor handed to the metrics is frame `j % z` of slice `j / z`
(`eval3d_rows_spec`, `eval3d_entry`); `j ↦ (j / z, j % z)` enumerates the (slice, frame) pairs in
lexicographic order, every pair exactly once, for every `sc` and `z`, empty volumes and `z = 0` included
(`eval3d_index_enum`, `eval3d_index_bij`). -/


/-- the rows of the merged tensor, in order, are the (slice, frame) pairs in lexicographic order: every pair
exactly once, none out of order, for all `sc`, `z` -/
theorem eval3d_index_enum (sc z : Nat) :
    (List.range (sc * z)).map (evalSrc z) =
      (List.range sc).flatMap fun s => (List.range z).map fun t => (s, t) := by
  induction sc with
  | zero => simp
  | succ n ih =>
    rw [Nat.succ_mul, List.range_add, List.map_append, ih, List.range_succ, List.flatMap_append]
    congr 1
    simp only [List.flatMap_cons, List.flatMap_nil, List.append_nil, List.map_map]
    apply List.map_congr_left
    intro t ht
    have htz : t < z := List.mem_range.mp ht
    simp only [Function.comp, evalSrc, Prod.mk.injEq]
    constructor
    · rw [Nat.mul_comm, Nat.mul_add_div (by omega), Nat.div_eq_of_lt htz]; omega
    · rw [Nat.mul_comm, Nat.mul_add_mod, Nat.mod_eq_of_lt htz]

/-- `evalSrc z` is a bijection `[0, sc * z) → [0, sc) × [0, z)` with inverse `(s, t) ↦ s * z + t`, strictly monotone
for the lexicographic order -/
theorem eval3d_index_bij (sc z : Nat) :
    (∀ j, j < sc * z → (evalSrc z j).1 < sc ∧ (evalSrc z j).2 < z ∧ (evalSrc z j).1 * z + (evalSrc z j).2 = j) ∧
    (∀ s t, s < sc → t < z → s * z + t < sc * z ∧ evalSrc z (s * z + t) = (s, t)) ∧
    (∀ j j', j < j' → j' < sc * z →
      (evalSrc z j).1 < (evalSrc z j').1 ∨ ((evalSrc z j).1 = (evalSrc z j').1 ∧ (evalSrc z j).2 < (evalSrc z j').2)) := by
  refine ⟨?_, ?_, ?_⟩
  · intro j hj
    have hz : 0 < z := by
      rcases Nat.eq_zero_or_pos z with h | h
      · subst h; simp at hj
      · exact h
    refine ⟨(Nat.div_lt_iff_lt_mul hz).mpr hj, Nat.mod_lt _ hz, ?_⟩
    simp only [evalSrc]; rw [Nat.mul_comm]; exact Nat.div_add_mod j z
  · intro s t hs ht
    refine ⟨?_, ?_⟩
    · calc s * z + t < s * z + z := by omega
        _ = (s + 1) * z := by rw [Nat.succ_mul]
        _ ≤ sc * z := Nat.mul_le_mul_right z hs
    · simp only [evalSrc, Prod.mk.injEq]
      constructor
      · rw [Nat.mul_comm, Nat.mul_add_div (by omega), Nat.div_eq_of_lt ht]; omega
      · rw [Nat.mul_comm, Nat.mul_add_mod, Nat.mod_eq_of_lt ht]
  · intro j j' hlt hj'
    simp only [evalSrc]
    have hz : 0 < z := by
      rcases Nat.eq_zero_or_pos z with h | h
      · subst h; simp at hj'
      · exact h
    have h1 := Nat.div_add_mod j z
    have h2 := Nat.div_add_mod j' z
    have hle : j / z ≤ j' / z := Nat.div_le_div_right (by omega)
    rcases Nat.lt_or_eq_of_le hle with h | h
    · exact Or.inl h
    · refine Or.inr ⟨h, ?_⟩
      rw [h] at h1; omega



/-- the tensor the metrics see, row by row: row `j` collects frame `j % z` of every channel of slice `j / z` -/
theorem eval3d_rows_spec {β} (z : Nat) (vol : List (List (List β))) :
    evalReshape z vol =
      (List.range (vol.length * z)).map fun j => (vol.getD (evalSrc z j).1 []).filterMap (·[(evalSrc z j).2]?) := by
  have hvol : vol = (List.range vol.length).map fun s => vol.getD s [] := by
    apply List.ext_getElem
    · simp
    · intro i h1 h2; simp [List.getElem?_eq_getElem h1]
  have h : evalReshape z vol =
      ((List.range vol.length).flatMap fun s => (List.range z).map fun t => (s, t)).map
        fun p => (vol.getD p.1 []).filterMap (·[p.2]?) := by
    conv_lhs => rw [hvol]
    simp only [evalReshape, transpose12, List.map_map, List.flatMap_def, Function.comp_def]
    rw [List.map_flatten, List.map_map]
    simp only [Function.comp_def, List.map_map]
  rw [h, ← eval3d_index_enum, List.map_map]
  rfl

theorem filterMap_get {β} (t : Nat) (s : List (List β)) (h : ∀ r ∈ s, t < r.length) (ch : Nat) :
    (s.filterMap (·[t]?))[ch]? = s[ch]?.bind (·[t]?) := by
  induction s generalizing ch with
  | nil => simp
  | cons r rest ih =>
    have hr : t < r.length := h r (by simp)
    have : r[t]? = some r[t] := List.getElem?_eq_getElem hr
    rw [List.filterMap_cons, this]
    cases ch with
    | zero => simp [this]
    | succ k => simpa using ih (fun r' hr' => h r' (by simp [hr'])) k

/-- element form: row `j`, channel `ch` of the tensor the metrics see is frame `j % z` of channel `ch` of slice `j / z` -/
theorem eval3d_entry {β} (z : Nat) (vol : List (List (List β)))
    (hshape : ∀ s ∈ vol, ∀ r ∈ s, r.length = z) (j ch : Nat) (hj : j < vol.length * z) :
    (evalReshape z vol)[j]?.bind (·[ch]?) = (vol[j / z]?.bind (·[ch]?)).bind (·[j % z]?) := by
  have hz : 0 < z := by
    rcases Nat.eq_zero_or_pos z with h | h
    · subst h; simp at hj
    · exact h
  have hs : j / z < vol.length := (Nat.div_lt_iff_lt_mul hz).mpr hj
  rw [eval3d_rows_spec, List.getElem?_map, List.getElem?_range hj]
  simp only [Option.map_some, Option.bind_some, evalSrc]
  have hget : vol.getD (j / z) [] = vol[j / z] := by simp [List.getD, hs]
  rw [hget, filterMap_get]
  · simp [hs]
  · intro r hr
    rw [hshape _ (List.getElem_mem hs) r hr]; exact Nat.mod_lt _ hz

/-- `sc * z` rows -/
theorem eval3d_length {β} (z : Nat) (vol : List (List (List β))) : (evalReshape z vol).length = vol.length * z := by
  rw [eval3d_rows_spec]; simp

example : evalReshape 3 [[[1, 2, 3], [4, 5, 6]], [[7, 8, 9], [10, 11, 12]]] =
    [[1, 4], [2, 5], [3, 6], [7, 10], [8, 11], [9, 12]] := by decide
example : evalReshape 2 [[[1, 2]], [], [[5, 6]]] = [[1], [2], [], [], [5], [6]] := by decide

end DirectVerif.C14
