import DirectVerif.Lemmas.C14Plumbing
import DirectVerif.Props.C10
/-!
# C14 — volume reconstruction returns each volume once with its slices in order

Property theorems only (loop invariant and helpers: `Lemmas/C14Recon.lean`).  All statements are about
`Model/Recon.lean` (`reconstruct`, `processSlice`, `predict`), the definitions the driver executes
against the real `reconstruct_volumes` / `predict` / `_process_output`.
-/
namespace DirectVerif.C14
open DirectVerif DirectVerif.Sampler DirectVerif.Recon

/-! ## the assembly loop -/

/-- **Specification of the loop.**  Let the loader deliver, volume after volume (pairwise distinct
filenames, sizes as registered in the sampler), each volume's processed slices cut into *any* non-empty
consecutive pieces (batches of any sizes).  Then the generator yields exactly one tuple per volume, in
order, whose `k`-th slice is the `k`-th processed slice of that volume — nothing dropped, duplicated or
attributed to another volume — and ends without an exception. -/
theorem reconstruct_spec {β} (sizeOf : Nat → Option Nat) (zero : β) (vs : List (Nat × List (List β)))
    (hv : ∀ v ∈ vs, v.2 ≠ [] ∧ (∀ p ∈ v.2, p ≠ []) ∧ sizeOf v.1 = some v.2.flatten.length)
    (hd : vs.Pairwise fun a b => a.1 ≠ b.1) :
    reconstruct sizeOf zero RState.init (vs.flatMap fun v => volBatches v.1 v.2) =
      (vs.map fun v => (v.2.flatten, v.1), none) :=
  reconstruct_volumes_spec sizeOf zero vs RState.init hv hd
    (fun _ _ => Or.inl ⟨rfl, rfl, rfl⟩)

/-- one output per volume -/
theorem reconstruct_count {β} (sizeOf : Nat → Option Nat) (zero : β) (vs : List (Nat × List (List β)))
    (hv : ∀ v ∈ vs, v.2 ≠ [] ∧ (∀ p ∈ v.2, p ≠ []) ∧ sizeOf v.1 = some v.2.flatten.length)
    (hd : vs.Pairwise fun a b => a.1 ≠ b.1) :
    (reconstruct sizeOf zero RState.init (vs.flatMap fun v => volBatches v.1 v.2)).1.length = vs.length := by
  rw [reconstruct_spec sizeOf zero vs hv hd]; simp

theorem chunksOf_ne_nil {α} (k : Nat) (hk : 0 < k) (xs : List α) (hx : xs ≠ []) : chunksOf k xs ≠ [] := by
  rw [chunksOf_cons_step k xs hk hx]; simp

theorem chunksOf_piece_ne_nil {α} (k : Nat) (hk : 0 < k) (xs : List α) :
    ∀ p ∈ chunksOf k xs, p ≠ [] := by
  intro p hp
  obtain ⟨j, hj, hlt⟩ := chunksOf_mem k hk xs p hp
  intro e
  have := congrArg List.length (hj.symm.trans e)
  simp only [List.length_take, List.length_drop, List.length_nil] at this
  omega

/-- **Independence of the batch size**: cutting every volume into batches of `bs` gives the same
output for every `bs > 0`. -/
theorem reconstruct_independent_of_batch_size {β} (sizeOf : Nat → Option Nat) (zero : β)
    (vols : List (Nat × List β)) (hv : ∀ v ∈ vols, v.2 ≠ [] ∧ sizeOf v.1 = some v.2.length)
    (hd : vols.Pairwise fun a b => a.1 ≠ b.1) (bs : Nat) (hbs : 0 < bs) :
    reconstruct sizeOf zero RState.init (vols.flatMap fun v => volBatches v.1 (chunksOf bs v.2)) =
      (vols.map fun v => (v.2, v.1), none) := by
  have h := reconstruct_spec sizeOf zero (vols.map fun v => (v.1, chunksOf bs v.2))
    (by
      intro w hw
      rw [List.mem_map] at hw
      obtain ⟨v, hv', rfl⟩ := hw
      obtain ⟨h1, h2⟩ := hv v hv'
      exact ⟨chunksOf_ne_nil bs hbs _ h1, chunksOf_piece_ne_nil bs hbs _, by
        simp only [chunksOf_flatten bs hbs]; exact h2⟩)
    (by rw [List.pairwise_map]; exact hd)
  simp only [List.flatMap_map, List.map_map] at h
  rw [h]
  congr 1
  apply List.map_congr_left
  intro v _
  simp [chunksOf_flatten bs hbs]

/-! ## `_process_output` -/

/-- scaling factor `k` is applied to batch element `k` (and to no other) -/
theorem process_output_eq_map {α σ} (mul : α → σ → α) (res : Option (Nat × Nat)) (fwd : Nat → Img α)
    (scale : Nat → σ) (idxs : List Nat) :
    processOutput mul res (idxs.map fwd) (idxs.map scale) =
      (idxs.map fun i => processSlice mul res (fwd i) (scale i)).mapM id := by
  unfold processOutput
  congr 1
  induction idxs with
  | nil => rfl
  | cons i is ih => simp [ih]

/-- **Pointwise**: pixel `(i, j)` of the processed slice is pixel `(i + ⌊(H-h)/2⌋, j + ⌊(W-w)/2⌋)` of the
model output multiplied by that slice's scaling factor. -/
theorem process_output_pointwise {α σ} (mul : α → σ → α) (h w : Nat) (img out : Img α) (s : σ)
    (hout : processSlice mul (some (h, w)) img s = some out) (i j : Nat) (hi : i < h) (hj : j < w)
    (hH : h ≤ img.length) (hW : ∀ row ∈ img, row.length = (img.headD []).length)
    (hw : w ≤ (img.headD []).length) :
    (out[i]?.bind (·[j]?)) =
      ((img[i + (img.length - h) / 2]?.bind (·[j + ((img.headD []).length - w) / 2]?)).map (mul · s)) := by
  unfold processSlice cropImg at hout
  simp only [List.length_map] at hout
  split at hout
  · simp only [Option.some.injEq] at hout
    subst hout
    rw [List.getElem?_map,
      C10.center_crop_window h _ (by simpa using hH) i hi, List.length_map, List.getElem?_map]
    cases hrow : img[i + (img.length - h) / 2]? with
    | none => simp
    | some row =>
      have hmem : row ∈ img := List.mem_of_getElem? hrow
      have hlen := hW row hmem
      simp only [Option.map_some, Option.bind_some]
      rw [C10.center_crop_window w _ (by simp only [List.length_map]; omega) j hj, List.length_map,
        List.getElem?_map, hlen]
  · simp at hout

/-- without a crop the slice is the scaled model output -/
theorem process_output_no_crop {α σ} (mul : α → σ → α) (img : Img α) (s : σ) :
    processSlice mul none img s = some (img.map fun row => row.map (mul · s)) := rfl

/-- complex data: both parts are scaled by the slice's own factor, then the modulus is taken -/
theorem process_output_complex_no_crop {α σ} (mul : α → σ → α) (modulus : α → α → α) (img : Img (α × α))
    (s : σ) :
    processSliceC mul modulus none img s =
      some (img.map fun row => row.map fun p => modulus (mul p.1 s) (mul p.2 s)) := rfl

/-! ## `predict`: sampler → loader → assembly loop -/

theorem loaderBatches_vols {β} (fname : Nat → Nat) (out : Nat → β) (bs : Nat) (hbs : 0 < bs)
    (vols : List Vol) (hf : ∀ v ∈ vols, ∀ i ∈ v.indices, fname i = v.id) :
    loaderBatches fname out (vols.flatMap fun v => chunksOf bs v.indices) =
      (vols.map fun v => (v.id, (chunksOf bs v.indices).map fun p => p.map out)).flatMap
        fun v => volBatches v.1 v.2 := by
  unfold loaderBatches
  rw [List.flatMap_map, List.map_flatMap]
  apply flatMap_congr'
  intro v hv
  simp only [volBatches, List.map_map]
  apply List.map_congr_left
  intro p hp
  simp only [Function.comp, List.length_map]
  congr 1
  apply List.ext_getElem?
  intro k
  rw [List.getElem?_map, List.getElem?_replicate]
  by_cases hk : k < p.length
  · simp only [hk, if_true, List.getElem?_eq_getElem hk, Option.map_some]
    congr 1
    apply hf v hv
    obtain ⟨j, hj, _⟩ := chunksOf_mem bs hbs _ p hp
    have hmem : p[k] ∈ p := List.getElem_mem hk
    have hsub : ∀ x ∈ p, x ∈ v.indices := by
      intro x hx
      rw [hj] at hx
      exact List.mem_of_mem_drop (List.mem_of_mem_take hx)
    exact hsub _ hmem
  · simp only [hk, if_false, List.getElem?_eq_none (Nat.le_of_not_lt hk), Option.map_none]

/-- **End to end**: for every layout of non-empty volumes, every world size, rank and batch size, rank
`rank` yields exactly its volumes (C13: `rankVols`), each once, in order, slice `k` = processed output of
the volume's `k`-th dataset item; no exception.  The right-hand side does not mention `bs`. -/
theorem predict_spec {β} (layout : List Nat) (hl : ∀ n ∈ layout, 0 < n) (world rank bs : Nat)
    (hbs : 0 < bs) (out : Nat → β) (zero : β) :
    predict layout world rank bs out zero =
      ((rankVols layout world rank 0).map fun v => (v.indices.map out, v.id), none) := by
  unfold predict
  dsimp only
  have hpos := rankVols_pos layout world rank 0 hl
  have hpw := rankVols_pairwise layout world rank
  rw [bvs_iterate_eq _ bs hbs hpos, loaderBatches_vols _ out bs hbs]
  · have h := reconstruct_spec (lookupSize (rankVols layout world rank 0)) zero
      ((rankVols layout world rank 0).map fun v => (v.id, (chunksOf bs v.indices).map fun p => p.map out))
      (by
        intro w hw
        rw [List.mem_map] at hw
        obtain ⟨v, hv, rfl⟩ := hw
        have hvp := hpos v hv
        have hne : v.indices ≠ [] := by
          intro e
          have := congrArg List.length e
          simp only [Vol.indices, List.length_range', List.length_nil] at this
          omega
        refine ⟨?_, ?_, ?_⟩
        · intro e
          exact chunksOf_ne_nil bs hbs _ hne (List.map_eq_nil_iff.mp e)
        · intro p hp
          rw [List.mem_map] at hp
          obtain ⟨q, hq, rfl⟩ := hp
          intro e
          exact chunksOf_piece_ne_nil bs hbs _ q hq (List.map_eq_nil_iff.mp e)
        · simp only [lookupSize, find?_of_pairwise_id _ hpw v hv, Option.map_some, Option.some.injEq]
          rw [← List.map_flatten, chunksOf_flatten bs hbs, List.length_map, Vol.indices,
            List.length_range', Vol.size])
      (by
        rw [List.pairwise_map]
        exact hpw.imp (fun h => by omega))
    rw [h]
    congr 1
    rw [List.map_map]
    apply List.map_congr_left
    intro v _
    simp only [Function.comp]
    rw [← List.map_flatten, chunksOf_flatten bs hbs]
  · intro v hv i hi
    have hv' := mem_of_mem_rankVols layout world rank 0 v hv
    rw [Vol.indices, mem_range'_iff] at hi
    have hvp := hpos v hv
    unfold fnameOfIndex
    have hfind := find?_of_pairwise_range (volumes layout) (volsFrom_pairwise 0 0 layout) v hv' i
      (by omega) (by omega)
    rw [hfind]
    rfl

/-- **Across ranks**: the outputs of ranks `0 … world-1` together are every volume of the dataset
exactly once, in dataset order — independent of the world size and of the batch size. -/
theorem predict_all_ranks {β} (layout : List Nat) (hl : ∀ n ∈ layout, 0 < n) (world : Nat)
    (hw : 0 < world) (bs : Nat) (hbs : 0 < bs) (out : Nat → β) (zero : β) :
    (List.range world).flatMap (fun r => (predict layout world r bs out zero).1) =
      (volumes layout).map fun v => (v.indices.map out, v.id) := by
  have : ∀ r, (predict layout world r bs out zero).1 =
      (rankVols layout world r 0).map fun v => (v.indices.map out, v.id) := by
    intro r; rw [predict_spec layout hl world r bs hbs out zero]
  simp only [this]
  rw [← List.map_flatMap, rank_volumes_cover' layout world hw 0]
  simp [applyLimit]

-- hypotheses are satisfiable / the model computes what one expects
example : predict [2, 3, 1] 2 0 2 (fun i => 10 * i) 0 = ([([0, 10], 0), ([20, 30, 40], 1)], none) := by decide
example : predict [2, 3, 1] 2 1 4 (fun i => 10 * i) 0 = ([([50], 2)], none) := by decide
example : predict [2] 3 2 4 (fun i => 10 * i) 0 = ([], none) := by decide
example : ∀ n ∈ [2, 3, 1], 0 < n := by decide

/-- the loop relies on the sampler: a batch mixing two volumes (what the pre-repair
`BatchVolumeSampler` produced in its second pass, `C13.bvs_pinned_second_pass_violates`) raises
`ValueError` before anything is yielded -/
theorem reconstruct_mixed_batch_raises :
    reconstruct (lookupSize (volumes [2, 3])) 0 RState.init
      (loaderBatches (fnameOfIndex (volumes [2, 3])) (fun i => (10 * i : Nat)) [[0, 1, 2, 3], [4]]) =
      ([], some RErr.valueError) := by decide

/-! ## phase 2: `Engine.predict` with its plumbing, the data loader, `write_output_to_h5` -/

/-- `predict` always asks `build_batch_sampler` for the `"sequential"` sampler, which exists -/
theorem predict_uses_sequential_sampler :
    buildBatchSampler (some "sequential") false = .ok .batchVolumeOverSequential := by
  simp [buildBatchSampler]

/-- only `"random"` (with a list of datasets) and `"sequential"` are accepted -/
theorem build_batch_sampler_rejects (t : Option String) (l : Bool) (h1 : t ≠ some "random")
    (h2 : t ≠ some "sequential") : buildBatchSampler t l = .error .valueError := by
  simp [buildBatchSampler, h1, h2]

/-- **`Engine.predict`, end to end, with the processing inside the loop.**  For every in-order loader
(`num_workers`, `prefetch_factor` are not visible to the result), every layout of non-empty volumes whose
items share, per volume, one `reconstruction_size` header from which `_compute_resolution(crop, …)`
obtains a resolution `res` that `center_crop` accepts for every slice (`out i` = the processed slice,
possibly of a different spatial shape per volume): rank `rank` yields exactly its volumes, each once,
slice `k` = `out` of the volume's `k`-th item. -/
theorem predict_full_spec {α σ} (mul : α → σ → α) (layout : List Nat) (hl : ∀ n ∈ layout, 0 < n)
    (world rank bs : Nat) (hbs : 0 < bs) (key : CropKey) (fwd : Nat → Img α) (scale : Nat → σ)
    (recon : Nat → List Nat) (deliver : Loader) (hd : InOrder deliver) (out : Nat → Img α)
    (hout : ∀ v ∈ rankVols layout world rank 0, ∃ res,
      computeResolution key (recon v.start) = .ok res ∧
      ∀ i ∈ v.indices, recon i = recon v.start ∧ processSlice mul res (fwd i) (scale i) = some (out i)) :
    predictFull mul layout world rank bs key fwd scale recon deliver =
      ((rankVols layout world rank 0).map fun v => (v.indices.map out, v.id), none) := by
  rw [← predict_spec layout hl world rank bs hbs out []]
  unfold predictFull predict
  simp only [predict_uses_sequential_sampler, hd _]
  have hpos := rankVols_pos layout world rank 0 hl
  rw [bvs_iterate_eq _ bs hbs hpos, ← reconstructP_ok]
  congr 1
  unfold loaderBatches
  rw [List.map_map]
  apply List.map_congr_left
  intro p hp
  rw [List.mem_flatMap] at hp
  obtain ⟨v, hv, hpv⟩ := hp
  obtain ⟨res, hres, hall⟩ := hout v hv
  have hne := chunksOf_piece_ne_nil bs hbs _ p hpv
  have hsub : ∀ i ∈ p, i ∈ v.indices := by
    intro i hi
    obtain ⟨j, hj, _⟩ := chunksOf_mem bs hbs _ p hpv
    rw [hj] at hi
    exact List.mem_of_mem_drop (List.mem_of_mem_take hi)
  simp only [Function.comp]
  rw [processBatch_piece mul key fwd scale recon out p hne (recon v.start) res hres
    (fun i hi => (hall i (hsub i hi)).1) (fun i hi => (hall i (hsub i hi)).2)]

-- per-volume shapes and header-driven crops: volume 0 is 2x3 cropped to 1x3, volume 1 is 3x2 cropped to 1x2
example :
    predictFull (fun (x : Int) (s : Int) => x * s) [1, 2] 1 0 2 .header
      (fun i => if i = 0 then [[1, 2, 3], [4, 5, 6]] else [[10 * i, 1], [2, 3], [4, 5]])
      (fun i => (i : Int) + 1) (fun i => if i = 0 then [1, 3, 1] else [1, 2, 1]) id =
    ([([[[1, 2, 3]]], 0), ([[[4, 6]], [[6, 9]]], 1)], none) := by decide

/-- the loop trusts the loader's order: if a loader delivered a volume's batches out of order, the
volume would be yielded with its slices permuted and **no exception** (slice numbers are never read) -/
theorem loader_reorder_misorders_slices :
    reconstruct (lookupSize (volumes [4])) 0 RState.init
      (loaderBatches (fnameOfIndex (volumes [4])) (fun i => (10 * i : Nat)) [[2, 3], [0, 1]]) =
      ([([20, 30, 0, 10], 0)], none) := by decide

/-- an unsupported `crop` value raises `ValueError` on the first batch; `"header"` needs a 3-entry size -/
theorem compute_resolution_cases (r : List Nat) :
    computeResolution .none r = .ok none ∧ computeResolution .other r = .error .valueError ∧
      computeResolution .header [5, 7, 1] = .ok (some (5, 7)) ∧
      computeResolution .header [5, 7] = .error .indexError := by
  refine ⟨rfl, rfl, by simp [computeResolution], by simp [computeResolution]⟩

/-- **h5 round trip**: after `write_output_to_h5(output, dir)` with pairwise distinct basenames, the file
of every tuple holds, under the output key, exactly that volume's (channel-0) slices in order — whatever
was in the directory before. -/
theorem write_roundtrip {γ δ} (base : Nat → Nat) (chan0 : δ → γ) (key : String) (d : Dir γ)
    (output : List (δ × Nat)) (hd : output.Pairwise fun a b => base a.2 ≠ base b.2) (o : δ × Nat)
    (ho : o ∈ output) :
    readFile (writeOutput base chan0 key d output) (base o.2) = some (key, chan0 o.1) :=
  writeOutput_read base chan0 key output hd d o ho

/-- files of other names are left alone -/
theorem write_leaves_others {γ δ} (base : Nat → Nat) (chan0 : δ → γ) (key : String) (d : Dir γ)
    (output : List (δ × Nat)) (m : Nat) (h : ∀ o ∈ output, base o.2 ≠ m) :
    readFile (writeOutput base chan0 key d output) m = readFile d m :=
  writeOutput_read_untouched base chan0 key output d m h

/-- Files are named by the **basename** only: two volumes whose paths differ only in the directory
collide and the later one silently replaces the earlier one (outside C14's statement, which is about
the tuples yielded; recorded as a note). -/
theorem write_collision_last_wins :
    readFile (writeOutput (fun f => f % 10) id "reconstruction" [] [([1, 2], 3), ([7, 8, 9], 13)]) 3 =
      some ("reconstruction", [7, 8, 9]) := by decide

/-- **All ranks write into one directory**: with distinct basenames every volume of the dataset ends up
in its own file holding its processed slices in order, for every world size and batch size. -/
theorem predict_write_all_ranks {β} (layout : List Nat) (hl : ∀ n ∈ layout, 0 < n) (world : Nat)
    (hw : 0 < world) (bs : Nat) (hbs : 0 < bs) (out : Nat → β) (zero : β) (base : Nat → Nat)
    (hb : ∀ a b, base a = base b → a = b) (key : String) (v : Vol) (hv : v ∈ volumes layout) :
    readFile (writeOutput base id key []
        ((List.range world).flatMap fun r => (predict layout world r bs out zero).1)) (base v.id) =
      some (key, v.indices.map out) := by
  rw [predict_all_ranks layout hl world hw bs hbs out zero]
  have hpw : ((volumes layout).map fun v => (v.indices.map out, v.id)).Pairwise
      fun a b => base a.2 ≠ base b.2 := by
    rw [List.pairwise_map]
    exact (volsFrom_pairwise 0 0 layout).imp (fun h e => by have := hb _ _ e; omega)
  exact write_roundtrip base id key [] _ hpw (v.indices.map out, v.id)
    (List.mem_map.mpr ⟨v, hv, rfl⟩)

end DirectVerif.C14
