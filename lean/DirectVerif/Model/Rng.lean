/-!
# Random streams, `temp_seed` and seeded generator calls (C05) — import-free model

Mirrors `direct/common/subsample.py`:

```
@contextlib.contextmanager
def temp_seed(rng, seed):
    state = rng.get_state()      -- save the private stream
    rng.seed(seed)               -- seed it (seed = None ⇒ numpy seeds from OS entropy)
    try:     yield               -- body
    finally: rng.set_state(state)  -- ALWAYS restore (also for seed = None, also on return/raise)
```

A mask generator call is `with temp_seed(self.rng, seed): <body>`; the body draws from `self.rng`
(`choose_acceleration`, offsets, per-frame draws, the integer seeds handed to the Cython kernels).

Streams are abstract (`Ops`): `seedTo : Seed → σ`, `draw : σ → Req → Val × σ`.
The explicit state is: one private stream per generator instance, the global numpy / torch / python
streams, the libc `rand` state (a stream like the others: `srand(v)` puts it into `srandTo v`, every
`rand()` loop of a Cython kernel draws from it), and the OS entropy counter.

*Which* stream a draw statement reads and whether it is lexically inside the `with` is not assumed:
it is a **table** (`List Site`) generated from the source by the translator.  The semantics below is
parametric in the table, so a draw moved outside the scope or switched to a global stream is
modelled (and breaks the theorems' premise `tableOk`).
-/
namespace DirectVerif.Rng

/-- which stream a draw statement reads -/
inductive Src where
  | priv         -- `self.rng.*`
  | fresh        -- a `np.random.RandomState()` built locally (`integerize_seed`)
  | npGlobal     -- `np.random.*`
  | torchGlobal  -- `torch.rand*`, `torch.manual_seed`, …
  | pyGlobal     -- `random.*`
  | unknown      -- some other object whose name mentions `rng`/`random`
deriving DecidableEq, Repr

/-- one static draw/seed statement of the source -/
structure Site where
  src : Src
  /-- lexically inside `with temp_seed(<that stream>, seed)` -/
  inScope : Bool
deriving DecidableEq, Repr

/-- a site is admissible when it reads the private stream (or the locally built one of
`integerize_seed`) inside the `temp_seed` scope -/
def Site.ok (s : Site) : Bool := s.inScope && (s.src == .priv || s.src == .fresh)

abbrev Table := List Site

def tableOk (t : Table) : Bool := t.all Site.ok

/-- sites the walk did not list are treated as draws from the global numpy stream -/
def lookup (t : Table) (i : Nat) : Site := t.getD i ⟨.unknown, false⟩

/-- abstract stream operations -/
structure Ops (σ Seed Req Val : Type) where
  /-- `RandomState.seed(s)` -/
  seedTo : Seed → σ
  /-- any draw method: request ↦ value and advanced stream -/
  draw : σ → Req → Val × σ
  /-- `integerize_seed` on a given seed (a function of the seed alone: fresh stream seeded by it) -/
  intz : Seed → Seed
  /-- the n-th seed handed out by the OS (`seed(None)`, `RandomState()`) -/
  entropy : Nat → Seed
  /-- libc `srand(v)` with the integer `v` a kernel was handed: the state of the C generator afterwards -/
  srandTo : Val → σ

/-- the explicit state -/
structure State (σ Val : Type) where
  priv : Nat → σ          -- instance ↦ its private `RandomState`
  np : σ
  torch : σ
  py : σ
  libc : σ                -- state of libc's `rand()` (process global, shared by all Cython kernels)
  ent : Nat               -- OS entropy consumed so far

def State.setPriv {σ Val} (st : State σ Val) (i : Nat) (s : σ) : State σ Val :=
  { st with priv := fun j => if j = i then s else st.priv j }

/-- body of a generator call as an interaction tree: every node is one executed statement -/
inductive Prog (Req Val Out : Type) where
  | ret (o : Out)
  /-- a draw at static site `site` -/
  | draw (site : Nat) (r : Req) (k : Val → Prog Req Val Out)
  /-- `<stream>.seed(integerize_seed(seed))` at static site `site` -/
  | reseed (site : Nat) (k : Prog Req Val Out)
  /-- libc `srand(v)` (first statement of every Cython kernel; `v` is the integer it was handed) -/
  | srand (v : Val) (k : Prog Req Val Out)
  /-- the `rand()` loop of a Cython kernel run with arguments `r`: reads and advances the libc state; the
  value stands for everything the loop computed from the numbers it drew -/
  | crand (r : Req) (k : Val → Prog Req Val Out)

section
variable {σ Seed Req Val Out : Type}

/-- the seed actually used by `rng.seed(seed)`: `None` takes fresh OS entropy (counter `e`) -/
def effSeedE (O : Ops σ Seed Req Val) (seed : Option Seed) (e : Nat) : Seed × Nat :=
  match seed with
  | some s => (s, e)
  | none => (O.entropy e, e + 1)

def effSeed (O : Ops σ Seed Req Val) (seed : Option Seed) (st : State σ Val) : Seed × State σ Val :=
  ((effSeedE O seed st.ent).1, { st with ent := (effSeedE O seed st.ent).2 })

/-- General semantics of the body for an arbitrary table.
`cur` is the private stream as seeded by `temp_seed` (what in-scope statements see); `outer` is the
saved state of the instance's stream (what statements outside the `with` see and what `finally`
puts back). -/
def interp (t : Table) (O : Ops σ Seed Req Val) (seed : Option Seed) :
    Prog Req Val Out → σ → σ → State σ Val → Out × σ × State σ Val
  | .ret o, _, outer, st => (o, outer, st)
  | .draw site r k, cur, outer, st =>
    match (lookup t site).src, (lookup t site).inScope with
    | .priv, true => interp t O seed (k (O.draw cur r).1) (O.draw cur r).2 outer st
    | .priv, false => interp t O seed (k (O.draw outer r).1) cur (O.draw outer r).2 st
    | .fresh, true =>
      interp t O seed (k (O.draw (O.seedTo (effSeed O seed st).1) r).1) cur outer (effSeed O seed st).2
    | .fresh, false =>
      interp t O seed (k (O.draw (O.seedTo (O.entropy st.ent)) r).1) cur outer { st with ent := st.ent + 1 }
    | .torchGlobal, _ => interp t O seed (k (O.draw st.torch r).1) cur outer { st with torch := (O.draw st.torch r).2 }
    | .pyGlobal, _ => interp t O seed (k (O.draw st.py r).1) cur outer { st with py := (O.draw st.py r).2 }
    | _, _ => interp t O seed (k (O.draw st.np r).1) cur outer { st with np := (O.draw st.np r).2 }
  | .reseed site k, cur, outer, st =>
    let s := O.seedTo (O.intz (effSeed O seed st).1)
    let st' := (effSeed O seed st).2
    match (lookup t site).src, (lookup t site).inScope with
    | .priv, true => interp t O seed k s outer st'
    | .priv, false => interp t O seed k cur s st'
    | .fresh, _ => interp t O seed k cur outer st'
    | .torchGlobal, _ => interp t O seed k cur outer { st' with torch := s }
    | .pyGlobal, _ => interp t O seed k cur outer { st' with py := s }
    | _, _ => interp t O seed k cur outer { st' with np := s }
  | .srand v k, cur, outer, st => interp t O seed k cur outer { st with libc := O.srandTo v }
  | .crand r k, cur, outer, st =>
    interp t O seed (k (O.draw st.libc r).1) cur outer { st with libc := (O.draw st.libc r).2 }

/-- a generator call on instance `i` as the code performs it for an arbitrary table -/
def call (t : Table) (O : Ops σ Seed Req Val) (prog : Prog Req Val Out) (seed : Option Seed) (i : Nat)
    (st : State σ Val) : Out × State σ Val :=
  let saved := st.priv i                                   -- state = rng.get_state()
  let cur := O.seedTo (effSeed O seed st).1                -- rng.seed(seed)
  let r := interp t O seed prog cur saved (effSeed O seed st).2
  (r.1, r.2.2.setPriv i r.2.1)                             -- finally: rng.set_state(state)

/-! ### the well-scoped reading: body reads only the (seeded) private stream -/

/-- result of running a body that only reads the in-scope private stream -/
structure RunRes (σ Req Val Out : Type) where
  out : Out
  cur : σ
  ent : Nat
  libc : σ
  /-- the request sequence (site, request) on the private stream in execution order -/
  trace : List (Nat × Req)

/-- the body when every statement is a private in-scope draw (or the local stream of
`integerize_seed`): reads `cur`, the seed, OS entropy (only when unseeded); writes libc -/
def runIn (t : Table) (O : Ops σ Seed Req Val) (seed : Option Seed) :
    Prog Req Val Out → σ → Nat → σ → RunRes σ Req Val Out
  | .ret o, cur, e, l => ⟨o, cur, e, l, []⟩
  | .draw site r k, cur, e, l =>
    if (lookup t site).src = .priv then
      let res := runIn t O seed (k (O.draw cur r).1) (O.draw cur r).2 e l
      { res with trace := (site, r) :: res.trace }
    else
      let res := runIn t O seed (k (O.draw (O.seedTo (effSeedE O seed e).1) r).1) cur (effSeedE O seed e).2 l
      { res with trace := (site, r) :: res.trace }
  | .reseed site k, cur, e, l =>
    if (lookup t site).src = .priv then
      runIn t O seed k (O.seedTo (O.intz (effSeedE O seed e).1)) (effSeedE O seed e).2 l
    else runIn t O seed k cur (effSeedE O seed e).2 l
  | .srand v k, cur, e, _ => runIn t O seed k cur e (O.srandTo v)
  | .crand r k, cur, e, l => runIn t O seed (k (O.draw l r).1) cur e (O.draw l r).2

/-- `temp_seed` exactly as coded: save, seed, run the body, restore -/
def tempSeed (O : Ops σ Seed Req Val) (seed : Option Seed) (i : Nat)
    (body : State σ Val → Out × State σ Val) (st : State σ Val) : Out × State σ Val :=
  let saved := st.priv i
  let st1 := ((effSeed O seed st).2).setPriv i (O.seedTo (effSeed O seed st).1)
  let r := body st1
  (r.1, r.2.setPriv i saved)

/-- the body of a well-scoped generator as a state transformer: it works on `self.rng` only -/
def bodyIn (t : Table) (O : Ops σ Seed Req Val) (seed : Option Seed) (i : Nat) (prog : Prog Req Val Out)
    (st : State σ Val) : Out × State σ Val :=
  let res := runIn t O seed prog (st.priv i) st.ent st.libc
  (res.out, ({ st with ent := res.ent, libc := res.libc } : State σ Val).setPriv i res.cur)

/-- every site index used by the program is listed in the table -/
inductive SitesIn (n : Nat) : Prog Req Val Out → Prop where
  | ret (o) : SitesIn n (.ret o)
  | draw {site r k} : site < n → (∀ v, SitesIn n (k v)) → SitesIn n (.draw site r k)
  | reseed {site k} : site < n → SitesIn n k → SitesIn n (.reseed site k)
  | srand {v k} : SitesIn n k → SitesIn n (.srand v k)
  | crand {r k} : (∀ x, SitesIn n (k x)) → SitesIn n (.crand r k)

/-- **libc discipline of a body**: no `rand()` loop runs before an `srand` of the same call.  The flag says
whether libc has already been seeded during this call. -/
inductive LibcOk : Bool → Prog Req Val Out → Prop where
  | ret {b} (o) : LibcOk b (.ret o)
  | draw {b site r k} : (∀ v, LibcOk b (k v)) → LibcOk b (.draw site r k)
  | reseed {b site k} : LibcOk b k → LibcOk b (.reseed site k)
  | srand {b v k} : LibcOk true k → LibcOk b (.srand v k)
  | crand {r k} : (∀ x, LibcOk true (k x)) → LibcOk true (.crand r k)

/-- a body that never touches libc (every generator without a Cython kernel) -/
inductive NoLibc : Prog Req Val Out → Prop where
  | ret (o) : NoLibc (.ret o)
  | draw {site r k} : (∀ v, NoLibc (k v)) → NoLibc (.draw site r k)
  | reseed {site k} : NoLibc k → NoLibc (.reseed site k)

/-- one Cython kernel run as the `.pyx` performs it.  `srandFirst` is the generated fact "`srand(seed)` on the
int parameter, once, before any `rand()`"; when it does not hold the loop reads whatever state libc is in. -/
def kernelProg (srandFirst : Bool) (v : Val) (r : Req) (k : Val → Prog Req Val Out) : Prog Req Val Out :=
  if srandFirst then .srand v (.crand r k) else .crand r fun x => .srand v (k x)

/-- sequential composition -/
def Prog.bind {X : Type} : Prog Req Val X → (X → Prog Req Val Out) → Prog Req Val Out
  | .ret x, f => f x
  | .draw site r k, f => .draw site r (fun v => (k v).bind f)
  | .reseed site k, f => .reseed site (k.bind f)
  | .srand v k, f => .srand v (k.bind f)
  | .crand r k, f => .crand r (fun x => (k x).bind f)

/-- shape shared by every `mask_func`: leading draws (`choose_acceleration`, …) produce `x`; then
`if return_acs: return acsOf x`, else the remaining draws produce the mask (which ORs in the same
ACS block computed from the same `x`) -/
def withAcs {X : Type} (lead : Prog Req Val X) (acsOf : X → Out) (rest : X → Prog Req Val Out)
    (returnAcs : Bool) : Prog Req Val Out :=
  lead.bind fun x => if returnAcs then .ret (acsOf x) else rest x

/-! ### op histories -/

/-- operations of a history: `G` generator configurations, `A` call arguments (shape, return_acs) -/
inductive Op (Seed Req G A : Type) where
  /-- `gen(shape, return_acs, seed)` on instance `inst` -/
  | call (g : G) (a : A) (inst : Nat) (seed : Option Seed)
  /-- a new generator object: `self.rng = np.random.RandomState()` (seeded by the OS) -/
  | newInst (inst : Nat)
  /-- somebody draws from a global stream (0 numpy, 1 torch, 2 python, other = libc `rand()`) -/
  | drawGlobal (which : Nat) (r : Req)
  /-- somebody seeds a global stream (libc: `srand`) -/
  | seedGlobal (which : Nat) (s : Seed)
  /-- `copy.deepcopy` / pickle round trip / `fork` of a generator object: `dst` becomes a copy of `src`
  (same class and options — hence the same body — and a private stream in the same state) -/
  | clone (src dst : Nat)

def step {G A : Type} (t : Table) (O : Ops σ Seed Req Val) (body : G → A → Prog Req Val Out)
    (st : State σ Val) : Op Seed Req G A → State σ Val × Option Out
  | .call g a i seed => let r := call t O (body g a) seed i st; (r.2, some r.1)
  | .newInst i => (({ st with ent := st.ent + 1 } : State σ Val).setPriv i (O.seedTo (O.entropy st.ent)), none)
  | .drawGlobal w r =>
    if w = 0 then ({ st with np := (O.draw st.np r).2 }, none)
    else if w = 1 then ({ st with torch := (O.draw st.torch r).2 }, none)
    else if w = 2 then ({ st with py := (O.draw st.py r).2 }, none)
    else ({ st with libc := (O.draw st.libc r).2 }, none)
  | .seedGlobal w s =>
    if w = 0 then ({ st with np := O.seedTo s }, none)
    else if w = 1 then ({ st with torch := O.seedTo s }, none)
    else if w = 2 then ({ st with py := O.seedTo s }, none)
    else ({ st with libc := O.seedTo s }, none)
  | .clone s d => (st.setPriv d (st.priv s), none)

/-- run a history, collecting the state after every op and every output -/
def run {G A : Type} (t : Table) (O : Ops σ Seed Req Val) (body : G → A → Prog Req Val Out) :
    State σ Val → List (Op Seed Req G A) → State σ Val × List (Option Out)
  | st, [] => (st, [])
  | st, op :: ops =>
    let r := step t O body st op
    let rest := run t O body r.1 ops
    (rest.1, r.2 :: rest.2)

/-- what the property observes of a history: the output of its last op -/
def observe {G A : Type} (t : Table) (O : Ops σ Seed Req Val) (body : G → A → Prog Req Val Out)
    (st : State σ Val) (ops : List (Op Seed Req G A)) : Option Out :=
  ((run t O body st ops).2.getLast?).join

end

/-! ### structural facts of the source that the table walk also emits -/

/-- the statement skeleton of `temp_seed` the model above mirrors -/
def tempSeedShape : List String := ["get_state", "seed", "try", "yield", "finally", "set_state"]

/-- the generated tables are plain data; stream codes: 0 `self.rng`, 1 local `RandomState()`,
2 `np.random`, 3 torch, 4 python `random`, other = unknown -/
def srcOfCode (c : Nat) : Src :=
  if c = 0 then .priv else if c = 1 then .fresh else if c = 2 then .npGlobal
  else if c = 3 then .torchGlobal else if c = 4 then .pyGlobal else .unknown

def Table.ofCodes (l : List (Nat × Bool)) : Table := l.map fun (c, s) => ⟨srcOfCode c, s⟩

/-- a Cython kernel call site `(inScope, seedFromPrivateDraw)`: it is inside the scope and its integer
seed argument is a draw from `self.rng` inside the scope (possibly passed through a helper's
parameter) -/
def kernelCallOk (k : Bool × Bool) : Bool := k.1 && k.2

/-- per kernel call site the transformations applied to the derived integer seed between the in-scope `self.rng` draw
and the kernel (`seed = seed or …`, `if seed:`, `abs`, `%`, …, also through helper parameters): the seed must be **passed
unchanged**, otherwise some value of the draw (0 is one) is replaced by something that is not a function of the call's seed -/
def kernelSeedsUnchanged (l : List (String × List String)) : Bool := l.all fun k => k.2.isEmpty

/-- ordered libc events of one `.pyx` kernel body, cdef helpers expanded, in execution order of the straight-line
prefix: `"srand:seed"` (`srand` of the int parameter `seed`), `"srand:other"`, `"rand"` (a `rand()` or a helper
that calls it), `"pyrand"` (a numpy / python / torch generator used inside the kernel).  The kernel is admissible
when the first event is `srand(seed)`, there is no second `srand`, and nothing but libc draws follows. -/
def pyxSrandFirst (evs : List String) : Bool :=
  evs.head? == some "srand:seed" &&
    (evs.filter fun e => e == "srand:seed" || e == "srand:other").length == 1

/-- the generated `.pyx` table `(kernel, events)`: every kernel seeds first and does draw -/
def pyxTableOk (t : List (String × List String)) : Bool :=
  !t.isEmpty && t.all fun k => pyxSrandFirst k.2 && k.2.contains "rand" &&
    k.2.all fun e => e == "srand:seed" || e == "rand"

/-- the generators the property quantifies over -/
def expectedGenerators : List String :=
  ["FastMRIRandom", "FastMRIEquispaced", "FastMRIMagic", "CartesianRandom", "CartesianEquispaced",
   "CartesianMagic", "Gaussian1D", "Gaussian2D", "Radial", "Spiral", "VariableDensityPoisson",
   "KtRadial", "KtUniform", "KtGaussian1D"]

/-- per generator `(name, scopeOverSeedParam, sites, acsLead)`: its `mask_func` has exactly one
`with temp_seed(self.rng, seed)` over its own `seed` parameter, at least one draw, every site index
is in range, and at least one draw (`choose_acceleration`) precedes the `return_acs` return, all of
them being draws of the mask branch too -/
def genOk (n : Nat) (g : String × Bool × List Nat × List Nat) : Bool :=
  g.2.1 && !g.2.2.1.isEmpty && g.2.2.1.all (· < n) && !g.2.2.2.isEmpty && g.2.2.2.all (g.2.2.1.contains ·)

def gensOk (n : Nat) (gs : List (String × Bool × List Nat × List Nat)) : Bool :=
  gs.map (·.1) == expectedGenerators && gs.all (genOk n)

/-- `CreateSamplingMask.__call__`: `seed = None if not use_seed else tuple(map(ord, str(filename)))`, then
`mask_func(shape=shape, seed=seed, return_acs=…)` — the seed handed to the generator -/
def transformSeed {Seed F : Type} (useSeed : Bool) (seedOf : F → Seed) (filename : F) : Option Seed :=
  if useSeed then some (seedOf filename) else none

/-- generated facts about the seed plumbing `(fact, holds)`: all must hold -/
def plumbingOk (t : List (String × Bool)) : Bool := !t.isEmpty && t.all fun f => f.2

/-- the body of a call is modelled as a program of its arguments and of the values it draws: it has no
memory of earlier calls.  That is admissible only if `mask_func` and its helpers never write instance
state (`self.<attr> = …`, `self.<attr>[…] = …`, `self.<attr>.append(…)`, …): the generated list of such
writes must be empty -/
def selfWritesOk (l : List (String × String × String)) : Bool := l.isEmpty

/-- closed-world reading of the RNG-access table: every callable reachable from a `mask_func` was either walked
(functions of `direct.*`, nested functions, the `.pyx` kernels) or belongs to an external library and is not one
of its random-number entry points; calls the walk could not resolve are listed and must be absent -/
def reachClosed (unresolved : List (String × String)) : Bool := unresolved.isEmpty

/-- consumers of the generators outside `subsample.py` `(site, seed expression class)`: the seed handed to
`mask_func` is the caller's own `seed` parameter or the file-name tuple — never slice-, time- or hash-dependent.
Classes: 0 = `tuple(map(ord, str(sample["filename"])))` guarded by `use_seed`, 1 = a parameter passed through,
other = anything else. -/
def consumersOk (l : List (String × Nat)) : Bool := !l.isEmpty && l.all fun c => c.2 == 0 || c.2 == 1

end DirectVerif.Rng
