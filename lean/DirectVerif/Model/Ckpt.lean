/-!
# Checkpoint directory machine (C15) — import-free, executable

Mirrors `direct/checkpointer.py` as it is **now** in /repo:

* `Checkpointer.save(iteration)` = `saveTable` : the serialised state is written through
  `model_<it>.pt.tmp` and `os.replace`d to `model_<it>.pt`; then `str(iteration)` is written through
  `last_model.txt.tmp` and `os.replace`d to `last_model.txt`.
* `saveTablePinned` mirrors the pinned tree (open-truncate / write / close **in place**) and is kept as
  a regression example (`Props/C15.lean : crash_pinned_violates`).
* `Checkpointer.load("latest")` = `loadLatest`: `last_model.txt` missing → nothing loaded; otherwise
  `int(f.readline())` (`ValueError` on empty / garbage), `model_<it>.pt` must exist
  (`FileNotFoundError`) and be loadable (a file is loadable iff all its bytes were written — this is the
  assumption about `torch.save` / `torch.load`, carried by the `decode` parameter).

File system: `open(…, "w")` truncates, `write` appends, `os.replace` is atomic, `close` changes
nothing, `os.remove` / `Path.unlink` removes the name.  The current `save` deletes nothing; `Stmt.prune` / `opsOfX` /
`wfSaveX` describe save routines that also delete older checkpoints (`max_to_keep`-style options), so that such a change is
translated instead of ignored (`Props/C15Engine.lean : crash_safe_with_pruning`, `prune_before_pointer_violates`).  A **crash** is a prefix of the operation list whose last `write` may be cut at any length
(`CrashOf`, enumerated by `crashAt`).
-/
namespace DirectVerif.Ckpt

/-- canonical names of the files of an experiment directory -/
inductive FName where
  | model (it : Int)      -- `model_<it>.pt`
  | modelTmp (it : Int)   -- `model_<it>.pt.tmp`
  | last                  -- `last_model.txt`
  | lastTmp               -- `last_model.txt.tmp`
  | other (n : Nat)       -- anything else (metrics.json, …)
deriving DecidableEq, Repr

abbrev Bytes := List Nat

/-- directory = name ↦ content -/
abbrev Dir := FName → Option Bytes

def Dir.empty : Dir := fun _ => none
def Dir.set (d : Dir) (f : FName) (v : Option Bytes) : Dir := fun g => if g = f then v else d g

inductive FsOp where
  | openTrunc (f : FName)               -- `open(f, "w"/"wb")`  (O_WRONLY|O_CREAT|O_TRUNC)
  | write (f : FName) (chunk : Bytes)   -- `write(fd, chunk)`   (appends)
  | close (f : FName)
  | replace (src dst : FName)           -- `os.replace(src, dst)` (atomic rename)
  | unlink (f : FName)                  -- `os.remove(f)` / `Path.unlink()` (pruning of old checkpoints)
deriving DecidableEq, Repr

def applyOp (d : Dir) : FsOp → Dir
  | .openTrunc f => d.set f (some [])
  | .write f c => match d f with
    | some b => d.set f (some (b ++ c))
    | none => d
  | .close _ => d
  | .replace src dst => match d src with
    | some b => (d.set dst (some b)).set src none
    | none => d
  | .unlink f => d.set f none

def run (d : Dir) (ops : List FsOp) : Dir := ops.foldl applyOp d

/-! ## statement table of `Checkpointer.save` (the translator regenerates this from /repo) -/

inductive FKind where
  | model | modelTmp | last | lastTmp
deriving DecidableEq, Repr

inductive Stmt where
  | openW (f : FKind)          -- `with open(path, "w"|"wb") as f:`
  | writePayload (f : FKind)   -- `torch.save(data, f)`      → write*
  | writeLabel (f : FKind)     -- `f.write(str(iteration))`
  | closeF (f : FKind)         -- end of the `with` block
  | replace (src dst : FKind)  -- `os.replace(src, dst)`
  | prune                      -- deletion of older `model_<j>.pt` files (which ones depends on the directory: `opsOfX`)
deriving DecidableEq, Repr

/-- the code as it is now -/
def saveTable : List Stmt :=
  [.openW .modelTmp, .writePayload .modelTmp, .closeF .modelTmp, .replace .modelTmp .model,
   .openW .lastTmp, .writeLabel .lastTmp, .closeF .lastTmp, .replace .lastTmp .last]

/-- the pinned tree: both files written in place -/
def saveTablePinned : List Stmt :=
  [.openW .model, .writePayload .model, .closeF .model,
   .openW .last, .writeLabel .last, .closeF .last]

/-- "every final name is only ever the target of a replace; `last_model.txt` is replaced after
`model_<it>.pt`; every replaced temporary was opened, written and closed just before" -/
def Stmt.mentions (k : FKind) : Stmt → Bool
  | .openW f | .writePayload f | .writeLabel f | .closeF f => f == k
  | .replace src dst => src == k || dst == k
  | .prune => false

/-- structural reading of well-formedness: final names are never opened / written / closed, only replaced from
their temporary; each temporary is opened, written completely, closed, then renamed — in this order, once; the
pointer is switched only after the checkpoint file is in place -/
def wfSaveStruct (t : List Stmt) : Bool :=
  t.all (fun s => match s with
    | .openW f | .writePayload f | .writeLabel f | .closeF f => f != .model && f != .last
    | .replace src dst => (src == .modelTmp && dst == .model) || (src == .lastTmp && dst == .last)
    | .prune => false)
  && t.filter (Stmt.mentions .modelTmp)
      == [.openW .modelTmp, .writePayload .modelTmp, .closeF .modelTmp, .replace .modelTmp .model]
  && t.filter (Stmt.mentions .lastTmp)
      == [.openW .lastTmp, .writeLabel .lastTmp, .closeF .lastTmp, .replace .lastTmp .last]
  && t.idxOf (.replace .modelTmp .model) < t.idxOf (.replace .lastTmp .last)

/-- all ways of merging two sequences keeping the order inside each -/
def interleave {α} : List α → List α → List (List α)
  | [], ys => [ys]
  | x :: xs, ys =>
    (List.range (ys.length + 1)).flatMap fun i => (interleave xs (ys.drop i)).map fun r => ys.take i ++ x :: r

def seqModel : List Stmt := [.openW .modelTmp, .writePayload .modelTmp, .closeF .modelTmp]
def seqLast : List Stmt := [.openW .lastTmp, .writeLabel .lastTmp, .closeF .lastTmp]

/-- the well-formed save routines: the checkpoint is written completely to its temporary and renamed; the pointer
is written completely to its temporary and renamed **after** the checkpoint's rename; the writing of the pointer's
temporary may be interleaved in any way with what precedes -/
def wfTables : List (List Stmt) :=
  (List.range 4).flatMap fun i =>
    (interleave seqModel (seqLast.take i)).map fun a =>
      a ++ [.replace .modelTmp .model] ++ seqLast.drop i ++ [.replace .lastTmp .last]

/-- **decidable well-formedness of a save table** -/
def wfSave (t : List Stmt) : Bool := wfTables.contains t

def FKind.name (it : Int) : FKind → FName
  | .model => .model it
  | .modelTmp => .modelTmp it
  | .last => .last
  | .lastTmp => .lastTmp

/-! ## `str(iteration)` and `int(f.readline())` -/

def digitsFuel : Nat → Nat → List Nat
  | 0, _ => []
  | f + 1, n => if n < 10 then [48 + n] else digitsFuel f (n / 10) ++ [48 + n % 10]

/-- decimal digits (code points) of a natural number -/
def digits (n : Nat) : List Nat := digitsFuel (n + 1) n

/-- `str(it)` as code points -/
def strInt (it : Int) : Bytes := if it < 0 then 45 :: digits it.natAbs else digits it.natAbs

def isDigit (c : Nat) : Bool := 48 ≤ c && c ≤ 57
def isSpace (c : Nat) : Bool := c == 32 || (9 ≤ c && c ≤ 13)
def strip (s : Bytes) : Bytes := ((s.dropWhile isSpace).reverse.dropWhile isSpace).reverse
def readline (s : Bytes) : Bytes := s.takeWhile (· != 10)

def parseNat (s : Bytes) : Option Nat :=
  if s ≠ [] ∧ s.all isDigit then some (s.foldl (fun a c => 10 * a + (c - 48)) 0) else none

/-- Python `int(str)` for ASCII input without underscores: strip, optional sign, digits -/
def parseInt (s : Bytes) : Option Int :=
  let t := strip s
  match parseNat t with
  | some n => some (Int.ofNat n)
  | none => match t with
    | 43 :: r => (parseNat r).map Int.ofNat
    | 45 :: r => (parseNat r).map fun n => - Int.ofNat n
    | _ => none

/-! ## instantiation of the table: the operation list of one `save` -/

def instStmt (it : Int) (chunks : List Bytes) : Stmt → List FsOp
  | .openW f => [.openTrunc (f.name it)]
  | .writePayload f => chunks.map (.write (f.name it))
  | .writeLabel f => [.write (f.name it) (strInt it)]
  | .closeF f => [.close (f.name it)]
  | .replace s d => [.replace (s.name it) (d.name it)]
  | .prune => []        -- nothing to delete (no pruning option set / nothing old enough); see `opsOfX`

def opsOf (t : List Stmt) (it : Int) (chunks : List Bytes) : List FsOp := t.flatMap (instStmt it chunks)

/-- the operations `Checkpointer.save(it)` performs now; `chunks` = the successive `write`s of
`torch.save` (their concatenation is the serialised state) -/
def saveOps (it : Int) (chunks : List Bytes) : List FsOp := opsOf saveTable it chunks
def saveOpsPinned (it : Int) (chunks : List Bytes) : List FsOp := opsOf saveTablePinned it chunks

/-! ### save routines that also delete older checkpoints (`max_to_keep`-style pruning)

`dels` = the labels whose `model_<j>.pt` the pruning statement removes in this particular save (a function of the
directory listing in the code; a parameter here). -/

def instStmtX (it : Int) (chunks : List Bytes) (dels : List Int) : Stmt → List FsOp
  | .prune => dels.map fun j => .unlink (.model j)
  | s => instStmt it chunks s

def opsOfX (t : List Stmt) (it : Int) (chunks : List Bytes) (dels : List Int) : List FsOp :=
  t.flatMap (instStmtX it chunks dels)

/-- **well-formed save table with pruning**: a well-formed core (`wfSave`) followed by pruning statements only — i.e.
nothing is deleted before `last_model.txt` has been switched to the new checkpoint -/
def wfSaveX (t : List Stmt) : Bool :=
  let core := t.filter (· != .prune)
  wfSave core && t == core ++ List.replicate (t.length - core.length) .prune

/-! ## crashes -/

/-- `p` is what has been executed when the process dies somewhere inside `ops`: a prefix, the last
`write` possibly cut short -/
inductive CrashOf : List FsOp → List FsOp → Prop where
  | nil (ops) : CrashOf ops []
  | cons (o ops p) : CrashOf ops p → CrashOf (o :: ops) (o :: p)
  | cut (f c ops) (m : Nat) : CrashOf (.write f c :: ops) [.write f (c.take m)]

/-- executable enumeration: `n` complete operations, then (optionally) `m` bytes of the next write -/
def crashAt (ops : List FsOp) (n : Nat) (m : Option Nat) : List FsOp :=
  ops.take n ++
    match m, ops[n]? with
    | some m, some (.write f c) => [.write f (c.take m)]
    | _, _ => []

/-! ## the second way a save can fail: an **exception** raised inside one of its `write` calls

(a second Ctrl-C, a signal handler that raises, a full disk …): Python unwinds, the `with` blocks / `finally` clauses
that enclose the failing statement run their clean-up, then the exception leaves `save` and the process ends.  The
translator records for every statement whether it is such a clean-up and for which region. -/

structure XStmt where
  stmt : Stmt
  /-- `some a`: the statement is also executed while an exception raised by statement `i` with `a ≤ i <` (its own
  index) unwinds (`__exit__` of the `with` block opened at `a - 1`, or a `finally` clause protecting `a …`) -/
  unwindFrom : Option Nat := none
deriving DecidableEq, Repr

/-- the code as it is now: two `with open(tmp) as f:` blocks — on unwinding only the file is closed -/
def saveTableX : List XStmt :=
  [⟨.openW .modelTmp, none⟩, ⟨.writePayload .modelTmp, none⟩, ⟨.closeF .modelTmp, some 1⟩, ⟨.replace .modelTmp .model, none⟩,
   ⟨.openW .lastTmp, none⟩, ⟨.writeLabel .lastTmp, none⟩, ⟨.closeF .lastTmp, some 5⟩, ⟨.replace .lastTmp .last, none⟩]

/-- **"no rename (nothing but closing a file) on the exceptional path"** -/
def wfUnwind (xt : List XStmt) : Bool :=
  xt.all fun x => x.unwindFrom.isNone || (match x.stmt with | .closeF _ => true | _ => false)

/-- index of the statement the `n`-th operation of the instantiated table belongs to -/
def stmtOfOp (it : Int) (chunks : List Bytes) : List Stmt → Nat → Nat
  | [], _ => 0
  | s :: r, n =>
    let k := (instStmt it chunks s).length
    if n < k then 0 else stmtOfOp it chunks r (n - k) + 1

/-- the clean-up operations executed while an exception raised by statement `i` unwinds -/
def unwindOps (xt : List XStmt) (it : Int) (chunks : List Bytes) (i : Nat) : List FsOp :=
  (xt.zipIdx.filter fun xj => decide (xj.2 > i) && (match xj.1.unwindFrom with | some a => decide (a ≤ i) | none => false)).flatMap
    fun xj => instStmt it chunks xj.1.stmt

/-- everything executed when the `write` that is operation `n` raises after `m` bytes: the operations before it, the
partial write, the clean-up of the enclosing blocks -/
def excOps (xt : List XStmt) (it : Int) (chunks : List Bytes) (n m : Nat) : List FsOp :=
  let t := xt.map (·.stmt)
  crashAt (opsOf t it chunks) n (some m) ++ unwindOps xt it chunks (stmtOfOp it chunks t n)

/-! ## `Checkpointer.load("latest")` -/

inductive LoadErr where
  | valueError | fileNotFound | corrupt
deriving DecidableEq, Repr

inductive LoadResult (S : Type) where
  | none                          -- `{}` : no `last_model.txt`, nothing loaded, training starts from scratch
  | ok (it : Int) (s : S)
  | error (e : LoadErr)
deriving DecidableEq, Repr

def loadLatest {S} (decode : Bytes → Option S) (d : Dir) : LoadResult S :=
  match d .last with
  | none => .none
  | some txt =>
    match parseInt (readline txt) with
    | none => .error .valueError
    | some it =>
      match d (.model it) with
      | none => .error .fileNotFound
      | some b =>
        match decode b with
        | none => .error .corrupt
        | some s => .ok it s

/-- a sequence of complete saves -/
def runSaves (d : Dir) (saves : List (Int × List Bytes)) : Dir :=
  saves.foldl (fun d s => run d (saveOps s.1 s.2)) d

/-! ## a concrete codec for the driver and the regression witnesses:
state id `sid`, total size `n ≥ 2`: `[n, sid, 0, 0, …]`; loadable iff all `n` bytes are there -/

def toyEncode (sid n : Nat) : Bytes := n :: sid :: List.replicate (n - 2) 0
def toyDecode (b : Bytes) : Option Nat :=
  match b with
  | n :: sid :: _ => if b.length == n then some sid else none
  | _ => none

/-- split `b` into chunks of the given sizes (the rest, if any, as a last chunk) -/
def chunk (b : Bytes) : List Nat → List Bytes
  | [] => if b.isEmpty then [] else [b]
  | k :: ks => b.take k :: chunk (b.drop k) ks

/-! ## what a checkpoint contains and what `load` restores (`Checkpointer.__init__/save/load_from_path`)

Keys of the key universe used by the trainer: 0 `model`, 1 `sensitivity_model`, 2 another `*model`, 3 `optimizer`,
4 `lr_scheduler`, 5 `scaler`, 6 `__author__` (metadata `__x__`), 7 an object that is not a `HasStateDict`
(e.g. a number, or a `torch.amp.GradScaler` that is not a `torch.cuda.amp.GradScaler`).  An object's state is
abstracted to an identifier. -/
namespace Bundle

abbrev Key := Nat
/-- `re.match("^.*model$", key)` -/
def isModelKey (k : Key) : Bool := k ≤ 2
/-- `key.startswith("__") and key.endswith("__")` -/
def isMeta (k : Key) : Bool := k == 6
/-- `isinstance(obj, get_args(HasStateDict))` -/
def hasStateDict (k : Key) : Bool := k ≤ 5

/-- key ↦ state; `model` (key 0) is always there -/
abbrev Objs := List (Key × Nat)

/-- the dict written by `save`: the model, metadata as is, every `HasStateDict`; anything else is skipped with a warning -/
def save (objs : Objs) : Objs := objs.filter fun kv => kv.1 == 0 || isMeta kv.1 || hasStateDict kv.1

inductive Mode where
  | full                         -- `load(iteration)`
  | onlyModels                   -- `load_models_from_file(path)`
  | select (keys : List Key)     -- `load(iteration, checkpointable_objects={key: …})` — only the *keys* matter
deriving DecidableEq, Repr

/-- does `load_from_path` restore key `k` (other than `model`, which is always restored)? -/
def restores (objs file : Objs) (mode : Mode) (k : Key) : Bool :=
  let requested := match mode with
    | .full | .onlyModels => k != 0 && (objs.lookup k).isSome      -- `for key in self.checkpointables`
    | .select keys =>       -- an empty dict is falsy: `load` then falls back to all of `self.checkpointables`
      if keys.isEmpty then k != 0 && (objs.lookup k).isSome else keys.contains k
  let skipped := match mode with
    | .onlyModels => !isModelKey k
    | _ => false
  requested && !skipped && (file.lookup k).isSome && !isMeta k

inductive Err where
  | keyError
deriving DecidableEq, Repr

/-- a requested, stored key that the loader does not hold: `self.checkpointables[key]` raises `KeyError`
(`model` itself is not in `self.checkpointables`) -/
def missing (objs file : Objs) : Mode → Bool
  | .select keys => keys.any fun k => restores objs file (.select keys) k && (k == 0 || (objs.lookup k).isNone)
  | _ => false

/-- the loader's objects after `load_from_path` -/
def loaded (objs file : Objs) (mode : Mode) : Objs :=
  objs.map fun kv =>
    if kv.1 == 0 || restores objs file mode kv.1 then (kv.1, (file.lookup kv.1).getD kv.2) else kv

/-- `load_from_path`: new states of the loader's objects, or the `KeyError` -/
def load (objs file : Objs) (mode : Mode) : Except Err Objs :=
  if missing objs file mode then .error .keyError else .ok (loaded objs file mode)

/-- the dict `load` returns: whatever was not consumed -/
def leftover (objs file : Objs) (mode : Mode) : List Key :=
  (file.filter fun kv => !(restores objs file mode kv.1)).map (·.1)

end Bundle

end DirectVerif.Ckpt
