import DirectVerif.Model.MaskGeom
/-!
# C04 — structural tables about *all* mask-function classes and their callers

Well-formedness predicates for three tables extracted from the source on every run
(`harness/translate/recipes/c04.py`); `Bridge/C04.lean` decides them on the generated tables.

* `stateTableOk`   — no mask-function class writes instance / class / module state outside construction
                     (a generator call is a function of its arguments and the seeded draws only);
* `classTableOk`   — every class of `direct/common/subsample.py` with a concrete `mask_func` returns only through
                     `self._reshape_and_add_coil_axis(…, shape)`, except the classes listed as out of the property's
                     scope; the 14 generators of the property are all present;
* `callSitesOk`    — every caller outside `subsample.py` invokes the mask function object itself (`__call__`, hence the
                     rank guards) with keyword arguments among `shape`, `seed`, `return_acs`.
-/
namespace DirectVerif.C04Tables
open DirectVerif DirectVerif.MaskGeom

/-- `(class, method, what is written, written only while constructing)` — one row per write to `self.…`,
`cls.…`, a class attribute or a `global` in any method of a class deriving from `BaseMaskFunc` -/
abbrev StateRow := String × String × String × Bool

def stateTableOk (tbl : List StateRow) : Bool := tbl.all fun r => r.2.2.2

/-- class names of the generators of the property -/
def inScope : List String := Gen.all.map fun g => g.name ++ "MaskFunc"

/-- classes with a concrete `mask_func` that the property does not quantify over (their returns need not be
wrapped; reported) -/
def outOfScope : List String := ["CalgaryCampinasMaskFunc"]

/-- `(class, every return of its (own or inherited) mask_func is wrapped)` -/
def classTableOk (tbl : List (String × Bool)) : Bool :=
  inScope.all (fun c => tbl.lookup c == some true) && tbl.all fun r => r.2 || outOfScope.contains r.1

/-- `(file, enclosing function, callee, keyword names, number of positional arguments)` -/
abbrev CallRow := String × String × String × List String × Nat

def callSitesOk (tbl : List CallRow) : Bool :=
  !tbl.isEmpty && tbl.all fun r =>
    (r.2.2.1 == "self.mask_func" || r.2.2.1 == "mask_func") && r.2.2.2.2 == 0 && r.2.2.2.1.contains "shape" &&
    r.2.2.2.1.all fun k => ["shape", "seed", "return_acs"].contains k

/-- the tables as they are in the repaired tree (fallback of the translator) -/
def stateTable : List StateRow :=
  [("BaseMaskFunc", "__init__", "self.center_fractions", true), ("BaseMaskFunc", "__init__", "self.accelerations", true),
   ("BaseMaskFunc", "__init__", "self.uniform_range", true), ("BaseMaskFunc", "__init__", "self.mode", true),
   ("BaseMaskFunc", "__init__", "self.rng", true)]

end DirectVerif.C04Tables
