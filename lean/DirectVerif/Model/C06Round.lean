import DirectVerif.Model.Basic
/-!
# C06 — the float glue of the ACS width, exactly

`num_low_freqs = int(round(num_cols * center_fraction))` and
`target_cols_to_sample = int(round(num_cols / acceleration))` are binary64 computations:
one correctly rounded multiplication / division of exactly representable operands, then Python's
`round` (half-even, exact on the double).  A double is given by its exact value `num / den`
(`float.as_integer_ratio()`); everything below is integer arithmetic.

* `roundHalfEven num den`    — Python `round(x)` for the non-negative rational `x = num / den`
* `floorLog2Q num den`       — `e` with `2^e ≤ num / den < 2^(e+1)`
* `fl53 num den`             — the binary64 nearest to `num / den` (ties to even; normal range), as a fraction
* `roundMul n cfNum cfDen`   — `int(round(n * cf))`
* `roundQuot n aNum aDen`    — `int(round(n / a))`
* `truncQ num den`           — `int(x)` for `x ≥ 0`
-/
namespace DirectVerif.C06Round

/-- Python `round(x)` (half to even) of the non-negative rational `num / den`, `den > 0`. -/
def roundHalfEven (num den : Nat) : Nat :=
  let q := num / den
  let r := num % den
  if 2 * r < den then q else if 2 * r > den then q + 1 else if q % 2 = 0 then q else q + 1

/-- `int(x)` for `x = num / den ≥ 0` -/
def truncQ (num den : Nat) : Nat := num / den

/-- `e : Int` with `2^e ≤ num / den < 2^(e+1)` for `num, den > 0` -/
def floorLog2Q (num den : Nat) : Int :=
  let e0 : Int := (Nat.log2 num : Int) - (Nat.log2 den : Int)
  -- 2^e0 ≤ num/den  ⇔  den * 2^e0 ≤ num
  if e0 ≥ 0 then (if den * 2 ^ e0.toNat ≤ num then e0 else e0 - 1)
  else (if den ≤ num * 2 ^ (-e0).toNat then e0 else e0 - 1)

/-- mantissa precision of binary64 -/
def prec : Nat := 53

/-- the binary64 nearest to `num / den` (round to nearest, ties to even), as a fraction `(n', d')`;
exponent range is not modelled (the values here are between 2^-30 and 2^30). -/
def fl53 (num den : Nat) : Nat × Nat :=
  if num = 0 ∨ den = 0 then (0, 1) else
  let e := floorLog2Q num den
  -- scale so that the quotient lies in [2^52, 2^53): multiply by 2^(52 - e)
  let s : Int := (prec : Int) - 1 - e
  let m := if s ≥ 0 then roundHalfEven (num * 2 ^ s.toNat) den else roundHalfEven num (den * 2 ^ (-s).toNat)
  -- value = m * 2^(-s)
  if s ≥ 0 then (m, 2 ^ s.toNat) else (m * 2 ^ (-s).toNat, 1)

/-- `round(x)` where `x` is the binary64 result of one operation with exact value `num / den` -/
def roundFl (num den : Nat) : Nat :=
  let p := fl53 num den
  roundHalfEven p.1 p.2

/-- `int(x)` for such an `x` (what a truncating rewrite of the glue would compute) -/
def truncFl (num den : Nat) : Nat :=
  let p := fl53 num den
  truncQ p.1 p.2

/-- `int(round(n * cf))`, `cf = cfNum / cfDen` an exact double -/
def roundMul (n cfNum cfDen : Nat) : Nat := roundFl (n * cfNum) cfDen

/-- `int(round(n / a))`, `a = aNum / aDen` an exact double (or an int, `aDen = 1`) -/
def roundQuot (n aNum aDen : Nat) : Nat := roundFl (n * aDen) aNum

/-- Random / Equispaced: `int(round(num_cols * cf)) if cf < 1.0 else int(cf)` on the translator's Int parameters -/
def numLowFraction (n a b : Int) : Int :=
  if a < 1 * b then ((roundMul n.toNat a.toNat b.toNat : Nat) : Int) else ((truncQ a.toNat b.toNat : Nat) : Int)

/-- Magic, before the cap: `cf if cf > 1 else int(round(num_cols * cf))` (a count is an integer-valued `cf`) -/
def numLowMagicRaw (n a b : Int) : Int :=
  if a > 1 * b then ((truncQ a.toNat b.toNat : Nat) : Int) else ((roundMul n.toNat a.toNat b.toNat : Nat) : Int)

/-- constructor guard of the FastMRI* generators, per centre fraction: `0 < cf < 1` -/
def fractionAccepted (a b _isInt : Int) : Bool := decide (0 * b < a) && decide (a < 1 * b)

/-- constructor guard of the Cartesian* generators, per line count: `1 < cf and isinstance(cf, int)` -/
def countAccepted (a b isInt : Int) : Bool := decide (1 * b < a) && (isInt != 0)

end DirectVerif.C06Round
