import DirectVerif.Model.MaskGeom
import DirectVerif.Model.C04Poisson
/-!
# C04 — `VariableDensityPoissonMaskFunc.poisson` / `mask_func` around the kernel

One frame is what the last bisection step leaves in `mask`:
`mask = kernel_mask | centered_disk_mask(...)`, then `mask *= r < 1` when `crop_corner` (the comparison `r < 1`
is float glue and enters as a boolean array).  `mask_func` stacks the frames and reshapes; nothing is OR-ed
afterwards, so with `crop_corner` the corners of the ACS disc are cropped as well.
-/
namespace DirectVerif.C04Poisson
open DirectVerif DirectVerif.MaskGeom

/-- one frame returned by `poisson(...)` for the kernel's mask `k` -/
def poissonFrame (rows cols : Nat) (radius : Int) (crop : Option (List Bool)) (k : List Bool) : List Bool :=
  let m := orL k (centeredDisk rows cols radius)
  match crop with
  | none => m
  | some c => andL m c

/-- `VariableDensityPoissonMaskFunc.mask_func(shape)` (mask branch) through `__call__`, given the kernel masks of
the frames -/
def assemblePoisson (m : Mode) (shape : List Nat) (radius : Int) (crop : Option (List Bool))
    (ks : List (List Bool)) : Except Err (Tensor Bool) :=
  match callGuard m shape.length with
  | .error e => .error e
  | .ok () =>
    let rows := rowsOf shape
    let cols := colsOf shape
    let frames := ks.map (poissonFrame rows cols radius crop)
    reshapeAndAddCoil m { shape := [frames.length, rows, cols], data := (frames.flatten.map fun b => if b then 1 else 0) } shape

/-- the kernel mask of one frame from recorded inputs (`none` = the run did not end normally) -/
def kernelMask (env : Env) (fuel : Nat) : Except Halt (List Bool) :=
  match kernel env fuel with
  | ⟨some h, _⟩ => .error h
  | ⟨none, st⟩ => .ok st.mask.toList

end DirectVerif.C04Poisson
