import DirectVerif.Model.MaskGeom
import DirectVerif.Model.C04Poisson
/-!
# C04 — `VariableDensityPoissonMaskFunc.poisson` / `mask_func` around the kernel

One frame is what the last bisection step leaves in `mask` (tree after the C06 repair `2480376`):
`mask *= r < 1` when `crop_corner` (the comparison `r < 1` is float glue and enters as a boolean array), then
`mask = mask | centered_disk_mask(...)` — the ACS disc is never cropped.  `mask_func` stacks the frames and
reshapes.  `poissonFramePinned` is the order before the repair (`(kernel | disc) * crop`).
-/
namespace DirectVerif.C04Poisson
open DirectVerif DirectVerif.MaskGeom

/-- the kernel's mask after `if self.crop_corner: mask *= r < 1` -/
def cropKernel (crop : Option (List Bool)) (k : List Bool) : List Bool :=
  match crop with
  | none => k
  | some c => andL k c

/-- one frame returned by `poisson(...)` for the kernel's mask `k` -/
def poissonFrame (rows cols : Nat) (radius : Int) (crop : Option (List Bool)) (k : List Bool) : List Bool :=
  orL (cropKernel crop k) (centeredDisk rows cols radius)

/-- the order before the repair: the disc was cropped as well -/
def poissonFramePinned (rows cols : Nat) (radius : Int) (crop : Option (List Bool)) (k : List Bool) : List Bool :=
  cropKernel crop (orL k (centeredDisk rows cols radius))

/-- `VariableDensityPoissonMaskFunc.mask_func(shape)` (mask branch) through `__call__`, given the kernel masks of
the frames -/
def assemblePoisson (m : Mode) (shape : List Nat) (radius : Int) (crop : Option (List Bool))
    (ks : List (List Bool)) : Except Err (Tensor Bool) :=
  match callGuard m shape.length with
  | .error e => .error e
  | .ok () =>
    let rows := rowsOf shape
    let cols := colsOf shape
    let frames := ks.map (poissonFrame rows cols radius crop)
    reshapeAndAddCoil m { shape := [frames.length, rows, cols], data := (frames.flatten.map fun b => if b then 1 else 0) } shape

/-- the kernel mask of one frame from recorded inputs (`none` = the run did not end normally) -/
def kernelMask (env : Env) (fuel : Nat) : Except Halt (List Bool) :=
  match kernel env fuel with
  | ⟨some h, _⟩ => .error h
  | ⟨none, st⟩ => .ok st.mask.toList

end DirectVerif.C04Poisson
