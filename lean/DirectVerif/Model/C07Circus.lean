import DirectVerif.Model.MaskBudget
import DirectVerif.Model.MaskInterior
/-!
# C07 — budget arithmetic of the CIRCUS (radial / spiral) patterns

```
max_dim = max(shape) - max(shape) % 2;  min_dim = min(shape) - min(shape) % 2;  num_nested_squares = max_dim // 2
M = int(np.prod(shape) / (acceleration * (max_dim / 2 - (max_dim - min_dim) * (1 + min_dim / max_dim) / 4)))
for square_id in range(num_nested_squares):  for m in range(M):  mask[ordered_indices[indices_idx(m)]] = 1
```
with `acceleration` replaced by `adjusted_accel = (R * (L - rows*cols)) / (L * R - rows*cols)` when a centre disc of `L`
cells is requested.  The docstrings promise no number; what the arithmetic guarantees is one-sided: every nested square
receives `M` picks, so the pattern has **at most** `M · num_nested_squares` cells (`circus_count_le_picks`), which for an
even square grid is at most `rows·cols / acceleration` (`circus_even_square_budget`).  There is no lower side: inner
squares have fewer than `M` perimeter cells and golden-ratio picks collide.
-/
namespace DirectVerif.MaskBudget
open DirectVerif.MaskGeom

/-- `max_dim / 2 - (max_dim - min_dim) * (1 + min_dim / max_dim) / 4` -/
def circusDenom (maxd mind : Rat) : Rat := maxd / 2 - (maxd - mind) * (1 + mind / maxd) / 4

/-- `M = int(prod / (acceleration * denom))` (truncation = floor: the quotient is positive) -/
def circusM (prod a maxd mind : Rat) : Int := (prod / (a * circusDenom maxd mind)).floor

/-- total number of picks over the nested squares -/
def circusPicks (picks : List (List Nat)) : Nat := (picks.map List.length).sum

/-- is the traced `M` of the real (binary64) computation admissible: the exact floor, or one less when the exact
quotient is a whole number (the double quotient may then fall just below it) -/
def circusMAdmissible (prod a maxd mind : Rat) (mReal : Int) : Bool :=
  let q := prod / (a * circusDenom maxd mind)
  mReal == q.floor || (q.den == 1 && mReal == q.floor - 1)

end DirectVerif.MaskBudget
