import DirectVerif.Model.Pipeline
/-!
# C08 — more of `direct/data/mri_transforms.py` inside the model (phase 3)

Import-free and executable, on top of `Model/Pipeline.lean`:

1. **The second pair of builders** `build_pre_mri_transforms` / `build_post_mri_transforms` (the CPU / GPU
   split of the same pipeline).  They re-implement the mechanism with a *different order*: the target is
   computed from the un-normalised k-space and normalised afterwards by `NormalizeModule`'s default key list.
2. **The error branch of the percentile scaling**: `torch.kthvalue` raises `IndexError` when the scaling tensor is
   identically zero (no coil has a non-zero entry; `execE` / `runE` refine `exec` / `run` with that check).
3. **Samples that already contain tensor entries** (`sampling_mask` / `acs_mask` of prospectively under-sampled
   data, `sensitivity_map` from the dataset): `runFrom`, `givenEnv`, `Config.validG`.
(The structural tables of the builders' signatures and of the `ModuleWrapper` aliases are in
`Model/PipelineTables.lean`.)
-/
namespace DirectVerif.Pipeline

/-! ## `build_pre_mri_transforms` / `build_post_mri_transforms` -/

/-- `NormalizeModule`'s default `keys_to_normalize`, restricted to the tensor keys of the model
(`initial_image` / `initial_kspace` are dataset-provided entries outside the quantifier) -/
def defaultNormKeys : List Key := [.maskedKspace, .target, .kspace, .bodyCoilImage]

/-- `build_pre_mri_transforms`: no `RandomReverse`, no coil compression, the ACS mask is always requested,
`PadCoilDimension` is composed unconditionally (a no-op when `pad_coils` is `None`: `padCoilsTo = 0`) -/
def buildPre (c : Config) : List Stage :=
  [.toTensor]
  ++ opt (c.crop != .none) [.cropKspace c.imageCenterCrop c.useSeed]
  ++ opt c.rescale [.rescaleKspace .kspace]
  ++ opt c.pad [.padKspace .kspace]
  ++ opt c.rotation [.randomRotation]
  ++ opt c.flip [.randomFlip]
  ++ opt c.paddingEps [.computeZeroPadding .kspace .padding thrCurrent, .applyZeroPadding .kspace .padding]
  ++ opt c.maskFunc [.createSamplingMask (c.crop == .tuple) (seedOf c.useSeed [.filename]) true]
  ++ [.padCoilDimension .kspace]
  ++ opt (c.bodyCoil && c.maskFunc) [.estimateBodyCoilImage (seedOf c.useSeed [.filename])]

/-- `build_post_mri_transforms`: `ComputeImage` *before* `ApplyMask` / `ComputeScalingFactor` / `Normalize`;
the target is normalised by `Normalize`'s default key list -/
def buildPost (c : Config) : List Stage :=
  opt c.estimateSmaps [.estimateSensitivityMap .kspace c.smapType c.smapGaussian]
  ++ opt c.deleteAcsMask [.deleteKeys [.acsMask]]
  ++ [.computeImage .kspace .target c.recon, .applyMask .samplingMask .kspace .maskedKspace]
  ++ [.computeScalingFactor c.scalingKey c.percentile .scalingFactor, .normalize .scalingFactor defaultNormKeys]
  ++ opt c.deleteKspace [.deleteKeys [.kspace]]

/-- the pre-transform (data loader) followed by the post-transform (engine) -/
def buildPrePost (c : Config) : List Stage := buildPre c ++ buildPost c

/-- list normal forms (what the translator emits, see `Lemmas/C08NF.lean`) -/
def buildPreNF (c : Config) : List Stage :=
  .toTensor ::
  (opt (c.crop != .none) [.cropKspace c.imageCenterCrop c.useSeed] ++
  (opt c.rescale [.rescaleKspace .kspace] ++
  (opt c.pad [.padKspace .kspace] ++
  (opt c.rotation [.randomRotation] ++
  (opt c.flip [.randomFlip] ++
  (opt c.paddingEps [.computeZeroPadding .kspace .padding thrCurrent, .applyZeroPadding .kspace .padding] ++
  (opt c.maskFunc [.createSamplingMask (c.crop == .tuple) (seedOf c.useSeed [.filename]) true] ++
  (.padCoilDimension .kspace ::
  (opt (c.bodyCoil && c.maskFunc) [.estimateBodyCoilImage (seedOf c.useSeed [.filename])] ++ [])))))))))

def buildPostNF (c : Config) : List Stage :=
  opt c.estimateSmaps [.estimateSensitivityMap .kspace c.smapType c.smapGaussian] ++
  (opt c.deleteAcsMask [.deleteKeys [.acsMask]] ++
  (.computeImage .kspace .target c.recon ::
  (.applyMask .samplingMask .kspace .maskedKspace ::
  (.computeScalingFactor c.scalingKey c.percentile .scalingFactor ::
  (.normalize .scalingFactor defaultNormKeys ::
  (opt c.deleteKspace [.deleteKeys [.kspace]] ++ []))))))

/-! ## the error branch of the percentile scaling -/

variable {K : Type}

/-- errors of the refined execution: those of `exec`, or the `IndexError` of `torch.kthvalue` on an empty
selection (raised while computing the value of key `k`) -/
inductive ErrE | base (e : Err) | indexError (k : Key)
  deriving DecidableEq, Repr, Inhabited

/-- the entries `ComputeScalingFactor`'s percentile branch keeps: the coils with some non-zero entry -/
def kthSelection (S : Ops K) (x : Val K) : List K := nonzeroCoils S (x.data.length / x.nc) x.nc x.data

/-- … and what it kept before the repair (coils whose entries do not sum to zero) -/
def kthSelectionPinned (S : Ops K) (x : Val K) : List K := nonzeroCoilsPinned S (x.data.length / x.nc) x.nc x.data

/-- `torch.kthvalue(tview, int((1 - p) * n) + 1)` is defined iff `tview` is not empty -/
def instrDefined (S : Ops K) (i : Instr) (s : Store K) : Bool :=
  match i with
  | .assign guards _ .kthModulus [a] =>
      if guards.all (fun g => (s g).isSome) then
        match s a with
        | some x => !(kthSelection S x).isEmpty
        | none => true          -- the missing key is `execInstr`'s `KeyError`
      else true
  | _ => true

def instrDst : Instr → Key
  | .assign _ d _ _ => d
  | .delete k => k
  | .move _ d => d
  | .require k => k

/-- `exec` with the definedness check in front of every instruction -/
def execE (S : Ops K) (X : Ext K) (m : Meta) : List Instr → Store K → Except ErrE (Store K)
  | [], s => .ok s
  | i :: is, s =>
      if instrDefined S i s then
        match execInstr S X m i s with
        | .ok s' => execE S X m is s'
        | .error e => .error (.base e)
      else .error (.indexError (instrDst i))

/-- the composed transform applied to a raw sample, with the `IndexError` branch -/
def runE (S : Ops K) (X : Ext K) (m : Meta) (l : List Stage) (kspace : Val K) : Except ErrE (Store K) :=
  execE S X m (program l) (fun k => if k = .kspace then some kspace else none)

def isIndexError {α} : Except ErrE α → Bool
  | .error (.indexError _) => true
  | _ => false

def isOk {ε α} : Except ε α → Bool
  | .ok _ => true
  | .error _ => false

/-! ## samples that already contain tensor entries -/

/-- tensor entries a dataset may put into the raw sample next to `kspace` (`ToTensor` converts them) -/
structure Given (K : Type) where
  samplingMask : Option (Val K) := none
  acsMask : Option (Val K) := none
  sensitivityMap : Option (Val K) := none

def givenStore (x : Val K) (g : Given K) : Store K := fun k =>
  match k with
  | .kspace => some x
  | .samplingMask => g.samplingMask
  | .acsMask => g.acsMask
  | .sensitivityMap => g.sensitivityMap
  | _ => none

/-- static environment of such a sample: the k-space has degree 1, given masks / maps degree 0 -/
def givenEnv (gm ga gs : Bool) : TEnv := fun k =>
  match k with
  | .kspace => some 1
  | .samplingMask => if gm then some 0 else none
  | .acsMask => if ga then some 0 else none
  | .sensitivityMap => if gs then some 0 else none
  | _ => none

def runFrom (S : Ops K) (X : Ext K) (m : Meta) (l : List Stage) (s0 : Store K) : Except Err (Store K) :=
  exec S X m (program l) s0

def degreesOkFrom (e0 : TEnv) (ssl : Bool) (l : List Stage) : Bool :=
  match typeProgram (program l) e0 with
  | .error _ => false
  | .ok e => finalOk ssl e

/-- configurations that are meaningful for a sample with the given entries: a sampling mask comes from the
mask function or from the sample; the RSS map estimate and the kept-ACS split need an ACS mask from one of the
two; the crop stage crops both given masks; SENSE needs estimated or given maps -/
def Config.validG (gm ga gs : Bool) (c : Config) : Bool :=
  (c.maskFunc || gm)
  && (c.scalingKey == .key .maskedKspace || c.scalingKey == .key .kspace)
  && (!(c.recon == .sense || c.recon == .senseMod) || c.estimateSmaps || gs)
  && (!c.estimateSmaps || c.smapType != .espirit)
  && (!(c.estimateSmaps && c.smapType == .rssEstimate) || c.maskFunc || ga)
  && (!c.splitKeepAcs || (c.ssl && ((c.estimateSmaps && c.maskFunc) || ga)))
  && (!(gm && c.crop != .none) || ga)

end DirectVerif.Pipeline
