import DirectVerif.Model.MaskBudget
/-!
# C07 — budget of the Magic (offset-sampling) line masks: `MagicMaskFunc.mask_func`

```
target_cols_to_sample = int(round(num_cols / acceleration))
num_low_freqs = max(min(num_low_freqs, target_cols_to_sample), 1)
adjusted_target_cols_to_sample = target_cols_to_sample - num_low_freqs
adjusted_acceleration = 0
if adjusted_target_cols_to_sample > 0:
    adjusted_acceleration = int(round(num_cols / adjusted_target_cols_to_sample))
for each frame:
    offset = self.rng.randint(0, high=adjusted_acceleration)          # ValueError when high <= 0
    if offset % 2 == 0: offset_pos = offset + 1; offset_neg = offset + 2
    else:               offset_pos = offset - 1 + 3; offset_neg = offset - 1 + 0
    poslen = (num_cols + 1) // 2; neglen = num_cols - (num_cols + 1) // 2
    mask_positive[offset_pos::adjusted_acceleration] = True
    mask_negative[offset_neg::adjusted_acceleration] = True
    mask_negative = np.flip(mask_negative)
    mask = np.fft.fftshift(np.concatenate((mask_positive, mask_negative))) | acs_mask
```

The adjusted acceleration is rounded to an **integer**, so the realised count deviates from `N / R` by
design (inherited from fastMRI); what the code realises is characterised exactly (`magicCountFormula`,
theorem `magic_count_formula`) and bracketed (`magic_budget_bounds`) in `Props/C07.lean`.
-/
namespace DirectVerif.MaskBudget

/-- `target_cols_to_sample = int(round(num_cols / acceleration))` -/
def magicTarget (N : Int) (R : Rat) : Int := roundHalfEven ((N : Rat) / R)

/-- `num_low_freqs = max(min(num_low_freqs, target_cols_to_sample), 1)` -/
def magicLow (l target : Int) : Int := max (min l target) 1

/-- `adjusted_target_cols_to_sample = target_cols_to_sample - num_low_freqs` -/
def magicRest (target L : Int) : Int := target - L

/-- `adjusted_acceleration = 0`, and `int(round(num_cols / rest))` when `rest > 0` -/
def magicAdj (N rest : Int) : Int := if rest > 0 then roundHalfEven ((N : Rat) / (rest : Rat)) else 0

def magicOffPos (offset : Int) : Int := if offset % 2 = 0 then offset + 1 else offset - 1 + 3
def magicOffNeg (offset : Int) : Int := if offset % 2 = 0 then offset + 2 else offset - 1 + 0
def magicPosLen (N : Int) : Int := (N + 1) / 2
def magicNegLen (N : Int) : Int := N - (N + 1) / 2

/-- `m = zeros(len); m[off::step] = True` (for `off ≥ 0`, `step ≥ 1`) -/
def strided (len off step : Nat) : List Bool :=
  (List.range len).map fun i => decide (off ≤ i ∧ (i - off) % step = 0)

/-- `np.fft.fftshift` of a 1-D array (roll by `n // 2`) -/
def fftshift1 {α} (xs : List α) : List α :=
  xs.drop (xs.length - xs.length / 2) ++ xs.take (xs.length - xs.length / 2)

/-- `np.fft.fftshift(np.concatenate((mask_positive, np.flip(mask_negative))))` -/
def magicRow (N adj off : Nat) : List Bool :=
  fftshift1 (strided (magicPosLen N).toNat (magicOffPos off).toNat adj ++
    (strided (magicNegLen N).toNat (magicOffNeg off).toNat adj).reverse)

/-- one frame: `np.logical_or(row, acs_mask)` -/
def magicMask (N L adj off : Nat) : List Bool :=
  (List.range N).map fun (i : Nat) => (magicRow N adj off).getD i false || inAcs N L (i : Int)

/-- realised number of sampled columns of one frame -/
def magicCount (N L adj off : Nat) : Nat := countTrue (magicMask N L adj off)

/-- the arithmetic of one call before the frames: `(target, num_low_freqs, adjusted_acceleration)` from the width, the
raw ACS request (`int(round(num_cols * cf))` or the configured count) and the acceleration -/
def magicParams (N lRaw : Int) (R : Rat) : Int × Int × Int :=
  let t := magicTarget N R
  let L := magicLow lRaw t
  (t, L, magicAdj N (magicRest t L))

/-- one frame of a call; `rng.randint(0, high=adjusted_acceleration)` raises `ValueError` when the ACS block already
uses up the budget (`adjusted_acceleration = 0`) -/
def magicFrame (N lRaw : Int) (R : Rat) (off : Int) : Except String (List Bool) :=
  let p := magicParams N lRaw R
  if p.2.2 ≤ 0 then .error "ValueError"
  else .ok (magicMask N.toNat p.2.1.toNat p.2.2.toNat off.toNat)

/-! ### closed form of the count -/

/-- number of `i < x` with `off ≤ i` and `(i - off) % step = 0` -/
def strideCount (off step x : Nat) : Nat := if x ≤ off then 0 else (x - off - 1) / step + 1

/-- ACS columns on the non-negative-frequency half (columns `N/2 …`) and on the negative half -/
def magicPosIn (N L : Nat) : Nat := ((acsPad N L).toNat + L) - N / 2
def magicNegIn (N L : Nat) : Nat := N / 2 - (acsPad N L).toNat

/-- `#ACS + #(positive-half comb points outside the ACS) + #(negative-half comb points outside the ACS)` -/
def magicCountFormula (N L adj off : Nat) : Nat :=
  L + (strideCount (magicOffPos off).toNat adj (magicPosLen N).toNat - strideCount (magicOffPos off).toNat adj (magicPosIn N L))
    + (strideCount (magicOffNeg off).toNat adj (magicNegLen N).toNat - strideCount (magicOffNeg off).toNat adj (magicNegIn N L))

/-! ### structure of the frame loop, as data (compared with the generated table) -/

/-- the offset draw, the two strided assignments, which half is flipped, the concatenation order, the shift and the
final union with the ACS row (`magicRow` / `magicMask` / `magicFrame` mirror exactly this) -/
def expectedMagicPlan : List String := [
  "offset=self.rng.randint(0,high=adjusted_acceleration)",
  "mask_positive[offset_pos::adjusted_acceleration]=True",
  "mask_negative[offset_neg::adjusted_acceleration]=True",
  "mask_negative=np.flip(mask_negative)",
  "mask.append(np.fft.fftshift(np.concatenate((mask_positive,mask_negative))))",
  "mask[i]=np.logical_or(mask[i],acs_mask[i])"]

end DirectVerif.MaskBudget
