import DirectVerif.Model.MaskGeom
/-!
# C04 / C06 — interiors of the mask generators that are pure integer / boolean logic

* `linear2d`, `findNearestEmpty`, `resolveDuplicates` — `KtBaseMaskFunc.linear_indices_to_2d_coordinates`,
  `find_nearest_empty_location`, `resolve_duplicates_on_kt_grid`
* `toeplitz`, `ktUniformFlat` — `KtUniformMaskFunc.mask_func` after the two seeded draws (the comb index
  lists `np.arange(start, n, step).astype(int)` are inputs: the step is a float)
* `ktGaussianFlat` — `KtGaussian1DMaskFunc.mask_func` given the recorded `rng.choice` draws per frame
* `squareOrdered`, `circusFrame` — `CIRCUSMaskFunc.get_square_ordered_idxs` and the radial / spiral mask given
  the per-square perimeter positions (float-derived integers computed by the caller), pad and centre crop
* `PoissonState`, `poissonAccept`, … — the active-list bookkeeping of `direct/common/_poisson.pyx`

Everything is total and executable; Python errors are `none`.
-/
namespace DirectVerif.MaskGeom
open DirectVerif

/-! ## k-t grid helpers -/

/-- `ceil((n + 1) / 2)` -/
def halfUp (n : Int) : Int := (n + 2) / 2

/-- `linear_indices_to_2d_coordinates(idx, row_length)`:
`x = idx - floor((idx - 1) / row) * row`, `y = ceil(idx / row)` -/
def linear2d (idx row : Int) : Int × Int := (idx - ((idx - 1) / row) * row, -((-idx) / row))

/-- distance key of `find_nearest_empty_location`: `(x - x0)²` in the same row, `inf` (= `none`) otherwise -/
def nearKey (target row e : Int) : Option Int :=
  let p0 := linear2d target row
  let p := linear2d e row
  if p.2 = p0.2 then some ((p.1 - p0.1) * (p.1 - p0.1)) else none

/-- `a < b` for keys with `none = inf` -/
def keyLt : Option Int → Option Int → Bool
  | some a, some b => a < b
  | some _, none => true
  | none, _ => false

/-- `np.argmin`: position of the first minimum (`0` for an all-`inf` list) -/
def argminKey : List (Option Int) → Nat
  | [] => 0
  | k :: ks =>
    let rec go (best : Option Int) (bestPos pos : Nat) : List (Option Int) → Nat
      | [] => bestPos
      | x :: xs => if keyLt x best then go x pos (pos + 1) xs else go best bestPos (pos + 1) xs
    go k 0 1 ks

/-- `find_nearest_empty_location(target, empty, row)`; `none` = `argmin` of an empty sequence (ValueError) -/
def findNearestEmpty (target : Int) (empty : List Int) (row : Int) : Option Int :=
  match empty with
  | [] => none
  | _ => empty[argminKey (empty.map (nearKey target row))]?

/-- positions whose value occurred earlier, as `(value, position)` -/
def dupPositions (traj : List Int) : List (Int × Nat) :=
  ((List.range traj.length).filter fun k => (traj.take k).contains (traj.getD k 0)).map fun k => (traj.getD k 0, k)

/-- stable insertion into a list sorted by value (positions arrive in ascending order) -/
def insertByValue (a : Int × Nat) : List (Int × Nat) → List (Int × Nat)
  | [] => [a]
  | b :: bs => if a.1 < b.1 then a :: b :: bs else b :: insertByValue a bs

def sortByValue (l : List (Int × Nat)) : List (Int × Nat) := l.foldl (fun acc a => insertByValue a acc) []

/-- `duplicate_indices`: for each repeated value in ascending order, all its positions but the first -/
def duplicateIndices (traj : List Int) : List Nat := (sortByValue (dupPositions traj)).map (·.2)

/-- the relocation loop -/
def relocate : List Nat → List Int → List Int → Int → Option (List Int)
  | [], traj, _, _ => some traj
  | d :: ds, traj, empty, row =>
    match findNearestEmpty (traj.getD d 0) empty row with
    | none => none
    | some e => relocate ds (traj.set d e) (empty.filter (· != e)) row

/-- trajectory index `(time_corrected - 1) * ny + phase_corrected` -/
def trajIndex (ny nt : Int) (phase time : Int) : Int := (time + halfUp nt - 1) * ny + (phase + halfUp ny)

/-- `resolve_duplicates_on_kt_grid(phase, time, ny, nt)` -/
def resolveDuplicates (phase time : List Int) (ny nt : Nat) : Option (List Int × List Int) :=
  let traj := List.zipWith (trajIndex ny nt) phase time
  let empty := (irange 1 (ny * nt + 1)).filter fun v => !traj.contains v
  match relocate (duplicateIndices traj) traj empty ny with
  | none => none
  | some traj' =>
    let xy := traj'.map fun v => linear2d v ny
    some (xy.map fun p => p.1 - halfUp ny, xy.map fun p => p.2 - halfUp nt)

/-- `inds = num_cols * (ti + nt // 2) + (ph + num_cols // 2)` -/
def ktInds (n nt : Nat) (ph ti : List Int) : List Int :=
  List.zipWith (fun p t => (n : Int) * (t + ((nt / 2 : Nat) : Int)) + (p + ((n / 2 : Nat) : Int))) ph ti

/-- `arr = zeros(size); arr[inds] = 1` with Python's negative-index wrap; `none` = IndexError -/
def setFlat (size : Nat) (inds : List Int) : Option (List Bool) :=
  if inds.all fun i => decide (-(size : Int) ≤ i ∧ i < size) then
    let norm : List Nat := inds.map fun (i : Int) => (if i < 0 then i + (size : Int) else i).toNat
    some ((List.range size).map fun k => norm.contains k)
  else none

/-! ## KtUniform -/

/-- `zeros(n)` with ones at the given (non-negative, in-range) indices -/
def comb (n : Nat) (idx : List Int) : List Bool := (List.range n).map fun (k : Nat) => idx.contains (Int.ofNat k)

/-- `scipy.linalg.toeplitz(c, r)` flattened row-major (`len(c)` rows, `len(r)` columns) -/
def toeplitz (c r : List Bool) : List Bool :=
  (List.range (c.length * r.length)).map fun f =>
    let i := f / r.length
    let j := f % r.length
    if j ≤ i then c.getD (i - j) false else r.getD (j - i) false

/-- the k-t sample array of `KtUniformMaskFunc` (shape `(num_cols, nt)`, flat) from the two comb index lists;
`clamp = true` is the code (`inds[inds <= 0] = 1`) -/
def ktUniformFlat (clamp : Bool) (n nt : Nat) (pIdx tIdx : List Int) : Option (List Bool) :=
  let top := toeplitz (comb n pIdx) (comb nt tIdx)
  let ind : List Int := ((List.range (n * nt)).filter fun f => top.getD f false).map Int.ofNat
  let ph := ind.map fun f => f % n - ((n / 2 : Nat) : Int)
  let ti := ind.map fun f => f / n - ((nt / 2 : Nat) : Int)
  match resolveDuplicates ph ti n nt with
  | none => none
  | some (ph', ti') =>
    let inds := ktInds n nt ph' ti'
    setFlat (n * nt) (if clamp then inds.map fun i => if i ≤ 0 then 1 else i else inds)

/-- frame `t` of the KtUniform pattern: `mask[t, :, c] = samp[c, t]` -/
def ktUniformFrames (n nt : Nat) (flat : List Bool) : List (List Bool) :=
  (List.range nt).map fun t => (List.range n).map fun c => flat.getD (c * nt + t) false

/-! ## KtGaussian1D -/

/-- the k-t sample array of `KtGaussian1DMaskFunc` (shape `(nt, num_cols)`, flat) from the per-frame
`rng.choice` draws (`tr` phase-encode values for each `i` in `range(-nt // 2, nt // 2)`) -/
def ktGaussianFlat (n nt : Nat) (draws : List (List Int)) : Option (List Bool) :=
  let t0 : Int := -(((nt : Int) + 1) / 2)          -- `-nt // 2`
  let ti : List Int := ((List.range draws.length).zip draws).flatMap fun (k, d) => d.map fun _ => t0 + (k : Int)
  let ph : List Int := draws.flatten
  match resolveDuplicates ph ti n nt with
  | none => none
  | some (ph', ti') => setFlat (nt * n) (ktInds n nt ph' ti')

/-- frame `t`: `mask[t, :, c] = samp[t, c]` -/
def ktGaussianFrames (n nt : Nat) (flat : List Bool) : List (List Bool) :=
  (List.range nt).map fun t => (List.range n).map fun c => flat.getD (t * n + c) false

/-! ## CIRCUS -/

/-- `range(a, b)` / `range(a, b, -1)` as lists of naturals -/
def upRange (a b : Nat) : List Nat := (List.range (b - a)).map (a + ·)
def downRange (a b : Nat) : List Nat := (List.range (a - b)).map (a - ·)

/-- `get_square_ordered_idxs(square_side_size, square_id)`: the perimeter of the nested square, clockwise
from its top-left corner, as `(row, col)` -/
def squareOrdered (side sq : Nat) : List (Nat × Nat) :=
  (upRange sq (side - sq)).map (fun col => (sq, col)) ++
  (upRange (sq + 1) (side - (sq + 1))).map (fun row => (row, side - (sq + 1))) ++
  (downRange (side - (sq + 1)) sq).map (fun col => (side - (sq + 1), col)) ++
  (downRange (side - (sq + 1)) sq).map (fun row => (row, sq))

/-- the `max_dim × max_dim` array after the loop over the nested squares: `picks[s]` are the perimeter
positions `indices_idx` chosen on square `s`; `none` = IndexError -/
def circusSquare (side : Nat) (picks : List (List Nat)) : Option (List Bool) :=
  let cells : List (Option (Nat × Nat)) :=
    ((List.range picks.length).zip picks).flatMap fun (s, ps) => ps.map fun p => (squareOrdered side s)[p]?
  if cells.all Option.isSome then
    let arr := (cells.filterMap id).foldl (fun (a : Array Bool) (rc : Nat × Nat) => a.set! (rc.1 * side + rc.2) true)
      (Array.replicate (side * side) false)
    some arr.toList
  else none

/-- `np.pad(mask, ((rows % 2, 0), (cols % 2, 0)))` then `T.center_crop(mask, (rows, cols))` -/
def circusCrop (side rows cols : Nat) (sqm : List Bool) : List Bool :=
  let pr := rows % 2
  let pc := cols % 2
  let lowR := (side + pr - rows) / 2
  let lowC := (side + pc - cols) / 2
  (List.range (rows * cols)).map fun k =>
    let x := k / cols + lowR      -- in the padded array
    let y := k % cols + lowC
    if pr ≤ x ∧ pc ≤ y then sqm.getD ((x - pr) * side + (y - pc)) false else false

def circusSide (rows cols : Nat) : Nat := max rows cols - max rows cols % 2

/-- one frame of `circus_radial_mask` / `circus_spiral_mask` -/
def circusFrame (rows cols : Nat) (picks : List (List Nat)) : Option (List Bool) :=
  (circusSquare (circusSide rows cols) picks).map (circusCrop (circusSide rows cols) rows cols)

/-! ## `_poisson.pyx`: active-list bookkeeping

Coordinates are exact rationals with a common denominator `den` (a candidate `q = (qx, qy) / den`), the
radii are constant (`rx = ry = r / den`); only what decides acceptance and the list sizes is modelled. -/

/-- `VariableDensityPoissonMaskFunc.poisson` clips both per-pixel radii from below at one pixel before they
reach the kernel (`np.clip(…, 1, None)`); for non-square k-spaces the unclipped radius along the short axis
is `(1 + r·slope)·short/long < 1` near the centre. -/
def poissonRadiusFloor : List (String × Int) := [("radius_x", 1), ("radius_y", 1)]

structure PoissonState where
  mask : List Bool            -- nx × ny, row-major
  actives : List (Nat × Nat)  -- `pxs[:num_actives], pys[:num_actives]`
deriving Repr, DecidableEq

/-- the test of the kernel: candidate on the grid and no sampled cell `(x, y)` of the window with
`((qx - x) / rx)² + ((qy - y) / ry)² < 1` -/
def poissonAccept (nx ny : Nat) (den r : Int) (mask : List Bool) (qx qy : Int) : Bool :=
  decide (0 ≤ qx ∧ qx < nx * den ∧ 0 ≤ qy ∧ qy < ny * den) &&
  (List.range (nx * ny)).all fun k =>
    let x : Int := (k / ny : Nat)
    let y : Int := (k % ny : Nat)
    !(mask.getD k false && decide ((qx - x * den) * (qx - x * den) + (qy - y * den) * (qy - y * den) < r * r))

/-- cell a candidate is stored in: `int(qx), int(qy)` -/
def poissonCell (ny : Nat) (den qx qy : Int) : Nat := (qx / den).toNat * ny + (qy / den).toNat

/-- one outer iteration for the chosen active point `i`: `some q` = an attempt succeeded with candidate
`q`, `none` = all attempts failed.  `guard = true` is the suggested repair (refuse an occupied cell). -/
def poissonStep (guard : Bool) (nx ny : Nat) (den r : Int) (s : PoissonState) (i : Nat)
    (cand : Option (Int × Int)) : PoissonState :=
  match cand with
  | some (qx, qy) =>
    if poissonAccept nx ny den r s.mask qx qy && (!guard || !(s.mask.getD (poissonCell ny den qx qy) false)) then
      { mask := s.mask.set (poissonCell ny den qx qy) true,
        actives := s.actives ++ [((qx / den).toNat, (qy / den).toNat)] }
    else s
  | none =>
    -- `num_actives -= 1; pxs[i] = pxs[num_actives]`
    match s.actives.getLast? with
    | none => s
    | some l => { s with actives := (s.actives.set i l).dropLast }

def poissonRun (guard : Bool) (nx ny : Nat) (den r : Int) (s : PoissonState) :
    List (Nat × Option (Int × Int)) → PoissonState
  | [] => s
  | (i, c) :: rest => poissonRun guard nx ny den r (poissonStep guard nx ny den r s i c) rest

/-- the kernel writes `pxs[num_actives]` on acceptance: in bounds iff `num_actives < nx * ny` -/
def poissonOverrun (nx ny : Nat) (s : PoissonState) : Bool := decide (nx * ny < s.actives.length)

end DirectVerif.MaskGeom
