import DirectVerif.Model.Sampler
/-!
# C13 — `BatchVolumeSampler` as an object with several live iterators

`iter(bs)` returns a *generator object*: the body of `__iter__` does not run before the first `next`,
it runs from `yield` to `yield`, it can be abandoned at any `yield` (early `break`, exception in the
consumer, `next(iter(bs))` peek, `islice`, a dropped `DataLoader` iterator), and any number of them can be
alive over one sampler object (`zip(bs, bs)`).  The machine below keeps

* the object: everything `__iter__` / `__len__` read from `self` (`self.end_of_volume`, `self.sampler`
  — its index list, rebuilt by `iter(self.sampler)` = `iter(self.indices)` —, `self.batch_size`,
  `self.__num_batches`): the structure `BVS`;
* per generator: program counter and locals (`batch`, `next_value`, the local `end_of_volume` iterator,
  the inner `iter(self.sampler)`).

`resume` is the code between two suspension points, in the order the statements are executed
(`batch = []` and the advance of `next_value` happen when the generator is *resumed*, not before the
`yield`).  Nothing on the object is written (`Gen.C13.bvs_iter_self_writes = []`, Bridge/C13).
-/
namespace DirectVerif.Sampler

/-- a generator object created by `BatchVolumeSampler.__iter__` -/
inductive GenSt where
  /-- created by `iter(bs)`, body not entered: nothing has been read from `self` yet -/
  | fresh
  /-- suspended at `yield batch` inside the loop, having just appended `idx`; the locals `next_value`,
  `end_of_volume` (remaining), and the remaining inner iterator -/
  | atYield (idx : Nat) (next : Option Nat) (it : List Nat) (rest : List Nat)
  /-- suspended at the trailing `if len(batch) > 0: yield batch` -/
  | atTail
  /-- returned (every further `next` raises `StopIteration`) -/
  | done
deriving Repr, DecidableEq

/-- run the loop from its head (`for idx in …`) to the next suspension point or to the end:
the yielded batch (`none` = the generator returns) and the new generator state -/
def loopHead (bs : Nat) : List Nat → Option Nat → List Nat → List Nat → Option (List Nat) × GenSt
  | batch, _, _, [] => if batch.length > 0 then (some batch, .atTail) else (none, .done)
  | batch, next, it, idx :: rest =>
    let batch' := batch ++ [idx]
    if yieldCond batch'.length bs next idx then (some batch', .atYield idx next it rest)
    else
      let st := if isVolEnd next idx then pyNext it next else (next, it)
      loopHead bs batch' st.1 st.2 rest

/-- `next(gen)`: what is yielded (`none` = `StopIteration`) and the generator afterwards.  Reads
`self.end_of_volume`, `self.sampler`, `self.batch_size`; writes nothing on `self`. -/
def BVS.resume (b : BVS) : GenSt → Option (List Nat) × GenSt
  | .fresh =>
    let st := pyNext b.ends none              -- end_of_volume = iter(self.end_of_volume); next_value = next(…, None)
    loopHead b.bs [] st.1 st.2 b.indices      -- batch = []; for idx in self.sampler
  | .atYield idx next it rest =>              -- batch = []; if idx == next_value - 1: next_value = next(…)
    let st := if isVolEnd next idx then pyNext it next else (next, it)
    loopHead b.bs [] st.1 st.2 rest
  | .atTail => (none, .done)
  | .done => (none, .done)

/-- the sampler object together with the generator objects handed out so far (`none` = abandoned:
deleted, closed, or killed by an exception thrown into it) -/
structure Machine where
  obj : BVS
  gens : List (Option GenSt)
deriving Repr, DecidableEq

def Machine.init (b : BVS) : Machine := { obj := b, gens := [] }

/-- operations of a client: `iter(bs)` (returns handle = number of `iter` calls before it), `next(it_h)`,
abandon `it_h`, `len(bs)` -/
inductive MOp where
  | iter
  | next (h : Nat)
  | abandon (h : Nat)
  | len
deriving Repr, DecidableEq

inductive MOut where
  | handle (h : Nat)
  | batch (b : List Nat)
  | stop                     -- StopIteration
  | len (n : Nat)
  | closed
  | bad                      -- no such live generator (the harness never does this)
deriving Repr, DecidableEq

def MOut.ofOpt : Option (List Nat) → MOut
  | some b => .batch b
  | none => .stop

def Machine.step (m : Machine) : MOp → Machine × MOut
  | .iter => ({ m with gens := m.gens ++ [some .fresh] }, .handle m.gens.length)
  | .len => (m, .len m.obj.numBatches)
  | .next h =>
    match m.gens[h]? with
    | some (some g) =>
      let r := m.obj.resume g
      ({ m with gens := m.gens.set h (some r.2) }, MOut.ofOpt r.1)
    | _ => (m, .bad)
  | .abandon h =>
    match m.gens[h]? with
    | some (some _) => ({ m with gens := m.gens.set h none }, .closed)
    | _ => (m, .bad)

/-- the object state after a history -/
def Machine.exec (m : Machine) : List MOp → Machine
  | [] => m
  | op :: ops => (m.step op).1.exec ops

/-- the answers of a history -/
def Machine.run (m : Machine) : List MOp → List MOut
  | [] => []
  | op :: ops => (m.step op).2 :: (m.step op).1.run ops

/-- the answers to the `next h` operations of a history, in order -/
def nextOuts (h : Nat) : List MOp → List MOut → List MOut
  | op :: ops, o :: outs => if op = .next h then o :: nextOuts h ops outs else nextOuts h ops outs
  | _, _ => []

/-- what a generator will still yield if it is run to the end (specification function; `fresh` reads
the object) -/
def BVS.remaining (b : BVS) : GenSt → List (List Nat)
  | .fresh => b.iterate
  | .atYield idx next it rest =>
    let st := if isVolEnd next idx then pyNext it next else (next, it)
    (iterLoop b.bs [] st.1 st.2 rest).1
  | .atTail => []
  | .done => []

/-! ## what the translator reports about the classes, and what the machine relies on -/

/-- structural facts read from `direct/data/samplers.py` (Gen/C13) -/
structure IterTables where
  iterWrites : List String        -- attributes of `self` written / advanced in `BatchVolumeSampler.__iter__`
  iterReads : List String         -- attributes of `self` read there
  otherWrites : List String       -- … written by any other method except `__init__`
  initIterators : List String     -- attributes bound to one-shot iterators (or advanced) in `__init__`
  rebuilds : Bool                 -- `end_of_volume = iter(self.end_of_volume); next_value = next(end_of_volume, None)`
  lenIsCount : Bool               -- `__len__` returns the count of `__init__`
  seqIterPlain : Bool             -- `DistributedSequentialSampler.__iter__` = `iter(self.indices)`
  seqWrites : List String         -- attributes written by its methods other than `__init__`

/-- the attributes the object state `BVS` carries: `self.batch_size`, `self.end_of_volume`, `self.sampler` -/
def modelledAttrs : List String := ["batch_size", "end_of_volume", "sampler"]

/-- **`__iter__` reads no state of `self` that `__iter__`/`__next__`/any method writes, and every attribute it
reads is a plain (re-iterable) value carried by the model's object** — the reason why `Machine.step` returns the
object unchanged and why a fresh generator depends on the object only. -/
def IterTables.wf (t : IterTables) : Bool :=
  t.iterWrites.isEmpty && t.otherWrites.isEmpty && t.initIterators.isEmpty && t.seqWrites.isEmpty &&
    t.iterReads.all (fun a => modelledAttrs.contains a) && t.rebuilds && t.lenIsCount && t.seqIterPlain

/-- `DistributedSequentialSampler.__init__` as data flow (locals inlined, so their names and the number of intermediate
locals do not matter): world size and (global) rank default to `communication`'s; `self.volume_indices` holds the dataset's
ranges of the volumes in chunk `rank` of `chunks(LIMIT(all volumes), num_replicas)` — the limit is applied to the list
that is distributed over the ranks (`rankVols`), not to a rank's chunk -/
def expectedSeqInitOrder : List String :=
  ["default: num_replicas=communication.get_world_size()",
   "default: rank=communication.get_rank()",
   "volume_indices: {_: dataset.volume_indices[_] for _ in list(chunks(LIMIT(list(dataset.volume_indices.keys()), limit_number_of_volumes), num_replicas))[rank]}"]

/-- `ConcatDatasetBatchSampler`: per-member shuffling samplers, weights = lengths, and what `__next__` returns with its
locals inlined: the member is drawn with probability proportional to its length, then that member's own batch generator is
advanced (`Sampler.concatRun`) -/
def expectedConcatNextFlow : List String :=
  ["self.samplers=[DistributedSampler(len(_), shuffle=True, seed=seed) for _ in datasets]",
   "self.weights=np.asarray([len(_) for _ in datasets])",
   "self.cumulative_sizes=self.cumsum(datasets)",
   "return next(self._batch_samplers[random.choices(range(len(self.weights)), weights=self.weights / self.weights.sum())[0]])"]

/-- `DistributedSampler.__init__`: without an explicit seed every process takes the *shared* seed (rank 0's, through
`all_gather`) — the rank streams are strided views of one stream (`distStream`) only if all ranks seed alike —;
rank and world size come from `communication` -/
def expectedDistInit : List String :=
  ["if seed is None",
   "  seed=communication.shared_random_seed()",
   "self._seed=int(seed)",
   "self._rank=communication.get_rank()",
   "self._world_size=communication.get_world_size()"]

end DirectVerif.Sampler
