import DirectVerif.Model.Recon
/-!
# C14 (phase 3) — what else the assembly loop of `reconstruct_volumes` carries and tolerates

* `LBatch` — a collated batch with **everything the loop could look at**: the filenames, the elements'
  `slice_no`, the processed outputs and the batch's loss dict.  `rstepL` / `reconstructL` are `rstep` /
  `reconstruct` of `Model/Recon.lean` with the `loss_dict_list` bookkeeping exactly as coded:

  ```
  loss_dict_list = []                      # before the loop, never cleared
  for data in data_loader:
      …
      if curr_volume is None:              # first batch of a volume
          volume_size = …; curr_volume = zeros(…)
          loss_dict_list.append(loss_dict)
      …
      if slice_counter == volume_size:
          yield curr_volume, [curr_target,] reduce_list_of_dicts(loss_dict_list), filename
  ```
  `slice_no` is a field of the batch that no definition reads (the written window is
  `[slice_counter, slice_counter + n)`): the `k`-th slice of the output is the `k`-th slice *delivered*.

* `windowOrders k` — the delivery orders of a loader that keeps `k` batches in flight and hands over
  whichever of them is ready first (torch's `DataLoader(in_order=False)`; `k = num_workers * prefetch_factor`).
  `k = 1` (and torch's default `in_order=True` for every `k`) is in-order delivery.

* structure tables compared with what the translator reads (Bridge/C14).
-/
namespace DirectVerif.Recon
open DirectVerif

structure LBatch (β ℓ : Type) where
  fnames : List Nat
  sliceNos : List Int
  outs : List β
  loss : ℓ
deriving Repr

/-- what `rstep` sees of a batch -/
def LBatch.erase {β ℓ} (b : LBatch β ℓ) : RBatch β := ⟨b.fnames, b.outs⟩

/-- the assembly state together with `loss_dict_list` -/
structure LState (β ℓ : Type) where
  st : RState β
  losses : List ℓ
deriving Repr

def LState.init {β ℓ} : LState β ℓ := ⟨RState.init, []⟩

/-- does a batch with these filenames enter the `if curr_volume is None:` branch (after the reset
performed when the filename changed)? -/
def allocates {β} (s : RState β) (fnames : List Nat) : Bool :=
  match filenameOf fnames with
  | none => false
  | some f => s.cur.isNone || (s.last.getD f != f)

/-- one loop iteration with the loss list; the yielded triple is `(volume, loss_dict_list, filename)`
(the code yields `reduce_list_of_dicts(loss_dict_list)`, the mean of the list) -/
def rstepL {β ℓ} (sizeOf : Nat → Option Nat) (zero : β) (s : LState β ℓ) (b : LBatch β ℓ) :
    Except RErr (LState β ℓ × Option (List β × List ℓ × Nat)) :=
  match rstep sizeOf zero s.st b.erase with
  | .error e => .error e
  | .ok (st', y) =>
    let ls := if allocates s.st b.fnames then s.losses ++ [b.loss] else s.losses
    .ok (⟨st', ls⟩, y.map fun (v, f) => (v, ls, f))

def reconstructL {β ℓ} (sizeOf : Nat → Option Nat) (zero : β) :
    LState β ℓ → List (LBatch β ℓ) → List (List β × List ℓ × Nat) × Option RErr
  | _, [] => ([], none)
  | s, b :: bs =>
    match rstepL sizeOf zero s b with
    | .error e => ([], some e)
    | .ok (s', y) =>
      let r := reconstructL sizeOf zero s' bs
      (y.toList ++ r.1, r.2)

/-- the batches of volume `f` delivered as the consecutive pieces `ps`; every piece = (processed slices
with their `slice_no`, loss dict of the batch) -/
def volBatchesL {β ℓ} (f : Nat) (ps : List (List (β × Int) × ℓ)) : List (LBatch β ℓ) :=
  ps.map fun p => ⟨List.replicate p.1.length f, p.1.map (·.2), p.1.map (·.1), p.2⟩

/-- what the loop yields for the volumes `vs` when `loss_dict_list` holds `ls` before the first of them -/
def yieldsFrom {β ℓ} : List ℓ → List (Nat × List (List (β × Int) × ℓ)) → ℓ → List (List β × List ℓ × Nat)
  | _, [], _ => []
  | ls, v :: vs, d =>
    let ls' := ls ++ [(v.2.head?.map (·.2)).getD d]
    ((v.2.flatMap fun p => p.1.map (·.1)), ls', v.1) :: yieldsFrom ls' vs d

/-! ## delivery orders of a loader with `k` batches in flight -/

/-- all delivery orders: `infl` = the batches in flight (submitted to the workers, not yet handed over),
`rest` = the batches not yet submitted.  One step hands over **any** batch in flight and submits the next
one (`fuel` = number of batches).  A batch may thus arrive at most `k - 1` positions early, and
arbitrarily late. -/
def windowOrdersAux {α} : Nat → List α → List α → List (List α)
  | 0, _, _ => [[]]
  | fuel + 1, infl, rest =>
    if infl.isEmpty then [[]] else
    (List.range infl.length).flatMap fun i =>
      match infl[i]? with
      | none => []
      | some x => (windowOrdersAux fuel (infl.eraseIdx i ++ rest.take 1) (rest.drop 1)).map (x :: ·)

def windowOrders {α} (k : Nat) (xs : List α) : List (List α) :=
  windowOrdersAux xs.length (xs.take k) (xs.drop k)

/-! ## structure tables (phase 3) -/

/-- keys of the batch dict the loop body of `reconstruct_volumes` reads (`data[...]`, `data.get(...)`),
directly or inside private module-level helpers the batch is handed to (followed transitively, whatever
they are called), and the other calls that receive the whole dict — **`slice_no` is not among them** -/
def expectedLoopReads : List String :=
  ["call self._do_iteration(data, loss_fns=loss_fns, regularizer_fns=regularizer_fns)",
   "data.get('reconstruction_size')",
   "data['filename']",
   "data['scaling_factor']",
   "data['target']"]

/-- the `curr_target` / `loss_dict_list` / yield statements of `reconstruct_volumes`, in source order -/
def expectedTargetFacts : List String :=
  ["init[curr_target=None;loss_dict_list=[]]",
   "TGT=_process_output(data['target'], scaling_factors=SCALE, resolution=RES, complex_axis=self._complex_dim)",
   "alloc loss_dict_list.append(ITER.data_dict)",
   "alloc if add_target: curr_target=a fresh zero buffer like curr_volume (distinct tensor)",
   "if add_target: write curr_target[same window as curr_volume]=TGT.cpu()",
   "yield when add_target: (curr_volume, curr_target, reduce_list_of_dicts(loss_dict_list), FILENAME)",
   "yield when not add_target: (curr_volume, reduce_list_of_dicts(loss_dict_list), FILENAME)"]

/-- attributes of `self`, globals and nonlocals **written** by the functions on the reconstruction path.
`reconstruct_volumes`, `evaluate`, `_process_output`, `_compute_resolution`, `_get_filename_from_batch`,
`write_output_to_h5`, `build_loader`, `build_batch_sampler` keep all state in locals; `predict` sets
`self.ndim` and `self.checkpointer` before the loop is entered. -/
def expectedStateWrites : List (String × List String) :=
  [("MRIModelEngine.reconstruct_volumes", []),
   ("MRIModelEngine.evaluate", []),
   ("_process_output", []),
   ("_compute_resolution", []),
   ("_get_filename_from_batch", []),
   ("Engine.predict", ["self.checkpointer", "self.ndim"]),
   ("Engine.build_loader", []),
   ("Engine.build_batch_sampler", []),
   ("write_output_to_h5", [])]

/-- a state-write table is harmless for the loop when no function other than `Engine.predict` writes
anything, and `predict` writes only `ndim` / `checkpointer` (neither is read by `reconstruct_volumes`),
and the loop, its helpers and its callers are all listed -/
def stateWritesOk (t : List (String × List String)) : Bool :=
  (t.all fun e =>
    e.2.isEmpty || (e.1 == "Engine.predict" && e.2.all fun w => w == "self.ndim" || w == "self.checkpointer"))
  && ["MRIModelEngine.reconstruct_volumes", "MRIModelEngine.evaluate", "_process_output", "_compute_resolution",
      "_get_filename_from_batch", "Engine.predict", "Engine.build_loader", "Engine.build_batch_sampler",
      "write_output_to_h5"].all fun f => t.any fun e => e.1 == f

/-- the callers of `reconstruct_volumes`: `Engine.predict` (Recon.expectedPredictFacts),
`MRIModelEngine.evaluate` and, through it, `Engine.validation_loop`; the callers of `predict` and
`write_output_to_h5` in `direct/inference.py`; and every call site of the three in the package -/
def expectedCallerFacts : List String :=
  ["reconstruct_volumes: early exits in the loop over the batches: none",
   "evaluate: iterates self.reconstruct_volumes(data_loader, loss_fns=loss_fns, add_target=True, crop=self.cfg.validation.crop)",
   "evaluate: early exits in the loop over the volumes: none",
   "evaluate: the yielded tuple has 4 components",
   "evaluate: per-volume metrics keyed by yielded[3].name",
   "evaluate: losses collect yielded[2]",
   "validation_loop: early exits in the loop over the datasets: none",
   "validation_loop: per DATASET in validation_datasets: self.evaluate(self.build_loader(DATASET, batch_sampler=self.build_batch_sampler(DATASET, batch_size=self.cfg.validation.batch_size, sampler_type='sequential', limit_number_of_volumes=None), num_workers=num_workers), loss_fns)",
   "inference_on_environment: env.engine.predict(dataset, experiment_path, checkpoint=checkpoint, num_workers=num_workers, batch_size=batch_size, crop=crop)",
   "setup_inference_save_to_h5: (batch_size, crop)=(env.cfg.validation.batch_size, env.cfg.validation.crop)",
   "setup_inference_save_to_h5: (batch_size, crop)=(env.cfg.inference.batch_size, env.cfg.inference.crop)",
   "setup_inference_save_to_h5: inference_on_environment(env=env, data_root=data_root, dataset_cfg=dataset_cfg, transforms=transforms, experiment_path=base_directory / run_name, checkpoint=checkpoint, num_workers=num_workers, filenames_filter=curr_filenames_filter, batch_size=batch_size, crop=crop)",
   "setup_inference_save_to_h5: write_output_to_h5(output, output_directory, output_key='reconstruction')",
   "site direct/engine.py: self.reconstruct_volumes",
   "site direct/inference.py: env.engine.predict",
   "site direct/inference.py: write_output_to_h5",
   "site direct/nn/mri_models.py: self.reconstruct_volumes"]

/-! ## Phase 4 — the 3-D branch of `MRIModelEngine.evaluate`

```
sc, c, z, x, y = volume.shape
volume_for_eval = volume.clone().transpose(1, 2).reshape(sc * z, c, x, y)
```
A yielded 3-D volume is modelled as `vol[s][ch][t]` (slice, channel, frame; an entry is an image).
`transpose(1, 2)` swaps the channel and the frame axis of every slice (`transpose12`), and the `reshape`
of a tensor of logical shape `(sc, z, c, …)` to `(sc * z, c, …)` is the row-major merge of the two
leading axes, i.e. list concatenation (`evalReshape`). -/

/-- `s.transpose(0, 1)` of one slice `s[ch][t]` with `z` frames: `[t][ch]` -/
def transpose12 {β} (z : Nat) (s : List (List β)) : List (List β) :=
  (List.range z).map fun t => s.filterMap (·[t]?)

/-- `volume.transpose(1, 2).reshape(sc * z, c, x, y)`: row `j` of the result, channel `ch` -/
def evalReshape {β} (z : Nat) (vol : List (List (List β))) : List (List β) :=
  (vol.map (transpose12 z)).flatten

/-- the (slice, frame) pair that row `j` of the merged tensor comes from -/
def evalSrc (z j : Nat) : Nat × Nat := (j / z, j % z)

/-- what the translator must read in the `ndim == 3` branch of `evaluate` (`ROWS` = the translated kernel
`Gen.C14.eval3d_rows`, `d0 * d2` up to commutativity) -/
def expectedEval3dFacts : List String :=
  ["dims of VOL.shape: 5",
   "ndim == 3: EVAL_VOL=VOL.clone().transpose(1, 2).reshape(ROWS, d1, d3, d4)",
   "ndim == 3: EVAL_TGT=TGT.clone().transpose(1, 2).reshape(ROWS, d1, d3, d4)",
   "otherwise: EVAL_VOL=VOL.clone()",
   "otherwise: EVAL_TGT=TGT.clone()",
   "metric_fn(EVAL_TGT, EVAL_VOL)"]

end DirectVerif.Recon
