import DirectVerif.Model.Basic
/-!
# C18 — batch separability (models of the normalisation code in `direct/nn` and of coil reduction)

* batched operations are functions `List Sample → List Sample'` (axis 0 = the list);
  `Separable f := ∃ f₁, ∀ xs, f xs = xs.map f₁` — the output of a sample does not depend on its companions;
* reductions are described the way the code writes them: a (reshaped) view of some rank whose leading axis may or may
  not be the batch, and the list of reduced axes (`Red`); `reduceAt` is the semantics of reducing one axis of a nested
  tensor;
* executable integer models of `NormUnetModel2d.norm` / `NormConv2dGRU.norm` (group statistics as exact integers),
  of `reduce_operator` / `expand_operator` and of `StandardizationLayer` on Gaussian integers;
* modules as state machines (`Module`), for "no hidden state across calls".
-/
namespace DirectVerif.BatchSep

/-- a batched operation is separable when it is the per-sample map of some function -/
def Separable {α β : Type} (f : List α → List β) : Prop := ∃ f₁ : α → β, ∀ xs, f xs = xs.map f₁

/-! ## nested tensors and single-axis reductions -/

inductive NT where
  | leaf : Int → NT
  | node : List NT → NT
deriving Repr, Inhabited

/-- reduce axis `d` with the combining function `comb` (sum / mean / std … of the sub-tensors along that axis):
axis 0 combines the children of the root, axis `d + 1` recurses into every child. -/
def reduceAt (comb : List NT → NT) : Nat → NT → NT
  | 0, .node xs => comb xs
  | 0, t => t
  | d + 1, .node xs => .node (xs.map (reduceAt comb d))
  | _ + 1, t => t

/-- a batch (list of samples) viewed as one tensor, reduced along axis `d`, viewed as a batch again -/
def batchedReduce (comb : List NT → NT) (d : Nat) (batch : List NT) : List NT :=
  match reduceAt comb d (.node batch) with
  | .node ys => ys
  | t => [t]

/-! ## the reduction table extracted from the code -/

/-- one reduction call: in function `fn`, operation `op` (`mean`, `std`, `sum`, …) applied to a view of rank `rank`
whose axis 0 is the batch iff `batchFirst`, over the axes `axes` (Python convention: negative = from the end; the empty
list = *all* axes, as in `x.mean()`). -/
structure Red where
  fn : String
  op : String
  rank : Nat
  axes : List Int
  batchFirst : Bool
deriving Repr, DecidableEq

def normAxis (rank : Nat) (a : Int) : Int := if a < 0 then a + rank else a

/-- the reduction never touches the batch axis (and is a valid torch call: axes in range, no axis named twice) -/
def Red.perSample (r : Red) : Bool :=
  r.batchFirst && !r.axes.isEmpty && (r.axes.all fun a => decide (0 < normAxis r.rank a) && decide (normAxis r.rank a < r.rank))
    && decide ((r.axes.map (normAxis r.rank)).Nodup)

/-- the axes as naturals, largest first (so that reducing one does not renumber the next) -/
def Red.natAxes (r : Red) : List Nat :=
  ((r.axes.map fun a => (normAxis r.rank a).toNat).mergeSort (· ≥ ·))

/-- the batched operation a table entry denotes: reduce the listed axes one after the other (all of them when the list is
empty) -/
def Red.apply (r : Red) (comb : List NT → NT) (batch : List NT) : List NT :=
  if r.axes.isEmpty then [comb batch]
  else r.natAxes.foldl (fun b d => batchedReduce comb d b) batch

abbrev Table := List Red

def Table.wf (t : Table) : Bool := t.all Red.perSample

/-! ## exact integer model of the group normalisation statistics -/

/-- statistics of one group as exact integers: `(n, S, Q)` with `S = Σ x`, `Q = Σ (n·x − S)²`, so that
`mean = S / n` and the unbiased `std² = Q / (n² (n − 1))`. -/
def groupStat (xs : List Int) : List Int :=
  let n : Int := xs.length
  let s := xs.foldl (· + ·) 0
  [n, s, (xs.map fun x => (n * x - s) * (n * x - s)).foldl (· + ·) 0]

/-- `input.reshape(b, groups, -1)` of one sample (flat, row-major) followed by `mean(-1)`, `std(-1)`: per-group
statistics of that sample only -/
def sampleStats (groups : Nat) (sample : List Int) : List Int :=
  if groups = 0 ∨ sample.length % groups ≠ 0 then []
  else
    let size := sample.length / groups
    (List.range groups).flatMap fun g => groupStat ((sample.drop (g * size)).take size)

/-- `NormUnetModel2d.norm` / `NormUnetModel3d.norm` / `NormConv2dGRU.norm` on a batch: statistics sample by sample -/
def normBatch (groups : Nat) (batch : List (List Int)) : List (List Int) := batch.map (sampleStats groups)

/-- what a reshape that merges the batch into the groups (`reshape(groups, -1)`) would compute — kept as the
counter-model: statistics of a sample then depend on its companions -/
def normWholeBatch (groups : Nat) (batch : List (List Int)) : List (List Int) :=
  batch.map fun _ => sampleStats groups batch.flatten

/-! ## Gaussian integers, coil reduction / expansion, StandardizationLayer -/

abbrev G := Int × Int

def cadd (a b : G) : G := (a.1 + b.1, a.2 + b.2)
def csub (a b : G) : G := (a.1 - b.1, a.2 - b.2)
def cmul (a b : G) : G := (a.1 * b.1 - a.2 * b.2, a.1 * b.2 + a.2 * b.1)
def conj (a : G) : G := (a.1, -a.2)
def csum (xs : List G) : G := xs.foldr cadd (0, 0)

/-- `reduce_operator` at one pixel: `Σ_coils conj(S_i) · x_i` over the list of `(S_i, x_i)` -/
def reducePix (sx : List (G × G)) : G := csum (sx.map fun p => cmul (conj p.1) p.2)

/-- `expand_operator` at one pixel: `S_i · x` for every coil -/
def expandPix (s : List G) (x : G) : List G := s.map fun si => cmul si x

/-- a data-consistency step at one pixel: `Σ_i conj(S_i) · (S_i · x − y_i)` -/
def dcPix (sy : List (G × G)) (x : G) : G := csum (sy.map fun p => cmul (conj p.1) (csub (cmul p.1 x) p.2))

/-- `StandardizationLayer.forward` at one pixel: for every coil `[combined, combined − S_i · combined]` with
`combined = reduce(coil_images, S)` (4 channels per coil) -/
def standardizePix (sx : List (G × G)) : List (List Int) :=
  let c := reducePix sx
  sx.map fun p =>
    let r := csub c (cmul p.1 c)
    [c.1, c.2, r.1, r.2]

/-! ## modules as state machines -/

/-- a module call: state (attributes, buffers) and input to new state and output -/
abbrev Module (σ ι ο : Type) := σ → ι → σ × ο

/-- run a history of calls, return the final state and all outputs -/
def runCalls {σ ι ο : Type} (m : Module σ ι ο) : σ → List ι → σ × List ο
  | s, [] => (s, [])
  | s, x :: xs =>
    let (s', y) := m s x
    let (s'', ys) := runCalls m s' xs
    (s'', y :: ys)

/-- table of `(class.method, number of assignments to self.* inside it)` -/
abbrev Writes := List (String × Nat)
def Writes.none (t : Writes) : Bool := t.all fun e => e.2 == 0

/-- one reduction call of the complete scan: `kind` 0 = over `axes`, 1 = over all axes, 2 = unresolved -/
structure Row where
  fn : String
  op : String
  kind : Nat
  axes : List Int
deriving Repr, DecidableEq

/-- the reduction leaves the batch axis alone: explicit axes, none of them 0 (negative axes address the trailing
complex / spatial / flattened axes of tensors of rank ≥ 3) -/
def Row.safe (r : Row) : Bool := r.kind == 0 && !r.axes.isEmpty && r.axes.all (· != 0)

/-- reductions over all axes that provably do not reach the output: `RIM.forward` computes `grad.abs().max()` only to
emit a warning -/
def allowedGlobal : List (String × String) := [("RIM.forward", "max")]

/-- FINDING (current tree): the stopping test of `ConjGrad.cg` averages the residual norm over the *batch*
(`rk_norm_sq_new.abs().sqrt().mean() < tol`): the number of CG iterations a sample gets depends on its companions -/
def pendingGlobal : List (String × String) := [("ConjGrad.cg", "mean")]

/-- rows of the complete scan that are not `safe` syntactically but are per-sample for a stated reason -/
def allowedRows : List (String × String) :=
  [("RIM.forward", "max"),                     -- `grad.abs().max() > 150` only triggers a warning
   ("ConjGrad.cg", "complex_dot_product"),     -- `dim = torch.arange(1, x.ndim - 1)`: starts at 1
   ("_PRP", "complex_dot_product"), ("_DY", "complex_dot_product"), ("_BAN", "complex_dot_product")]  -- same `dim`, passed by `cg`

/-- the one pending / known batch-coupled reduction -/
def pendingRows : List (String × String) := [("ConjGrad.cg", "mean")]

def Row.accounted (r : Row) : Bool := r.safe || allowedRows.contains (r.fn, r.op) || pendingRows.contains (r.fn, r.op)


/-! # Phase 3 — the batched primitives of whole forward passes

Everything below mirrors how `direct/nn` writes its forward passes: operations *along an axis* of the batch tensor
(`mapAt` / `batchedAlong`: reductions, `select`, `narrow`, `cumsum`, `softmax`, … — anything that looks at one axis),
`permute` as a product of adjacent axis swaps, `cat` / `stack` along an axis, the `batch * coil` fold of
`MultiCoil.forward` with its un-fold, and the raw syntactic record (`Prim`) the translator emits for every such call
site together with the decidable judgement `Prim.ok`. -/

/-- apply `g` to every sub-tensor at depth `d` (`g` sees the sub-tensor whose axis 0 is axis `d` of the whole) -/
def mapAt (g : NT → NT) : Nat → NT → NT
  | 0, t => g t
  | d + 1, .node xs => .node (xs.map (mapAt g d))
  | _ + 1, t => t

def unbatch : NT → List NT
  | .node ys => ys
  | t => [t]

/-- an operation acting along axis `d` of the batch tensor, viewed as a batch again -/
def batchedAlong (g : NT → NT) (d : Nat) (batch : List NT) : List NT := unbatch (mapAt g d (.node batch))

def NT.children : NT → List NT
  | .node xs => xs
  | _ => []

/-- swap axes 0 and 1 of a (rectangular) nested tensor -/
def transpose01 : NT → NT
  | .node rows =>
    .node ((List.range ((rows.head?.map fun r => r.children.length).getD 0)).map fun j =>
      .node (rows.map fun r => r.children.getD j (.leaf 0)))
  | t => t

/-- swap axes `d` and `d + 1` -/
def swapAt (d : Nat) : NT → NT := mapAt transpose01 d

/-- positions swapped while inserting `a` in front of the sorted list (bubble it to its place) -/
def insertSwaps (a : Nat) : List Nat → Nat → List Nat
  | [], _ => []
  | x :: xs, off => if x < a then off :: insertSwaps a xs (off + 1) else []

def insertSorted (a : Nat) : List Nat → List Nat
  | [] => [a]
  | x :: xs => if x < a then x :: insertSorted a xs else a :: x :: xs

/-- insertion sort of an axis permutation by adjacent swaps: `(sorted list, positions swapped, in order)` -/
def sortSwaps : List Nat → List Nat × List Nat
  | [] => ([], [])
  | a :: rest =>
    let r := sortSwaps rest
    (insertSorted a r.1, r.2.map (· + 1) ++ insertSwaps a r.1 0)

/-- `torch.permute(perm)`: undo the sorting swaps in reverse order, starting from the identity layout -/
def permuteNT (perm : List Nat) (t : NT) : NT := (sortSwaps perm).2.reverse.foldl (fun t d => swapAt d t) t

def batchedPermute (perm : List Nat) (batch : List NT) : List NT :=
  (sortSwaps perm).2.reverse.foldl (fun b d => batchedAlong transpose01 d b) batch

/-- concatenate two tensors along axis `d` -/
def catAt : Nat → NT → NT → NT
  | 0, .node xs, .node ys => .node (xs ++ ys)
  | d + 1, .node xs, .node ys => .node (List.zipWith (catAt d) xs ys)
  | _, t, _ => t

def batchedCat (d : Nat) (a b : List NT) : List NT := unbatch (catAt d (.node a) (.node b))

/-! ## `batch * coil` folds (`MultiCoil.forward` with `coil_to_batch`, `x.reshape(batch * coil, …)`) -/

/-- `x.reshape(batch * coil, …)` of a `(batch, coil, …)` tensor: row-major, sample after sample -/
def mergeBC {α : Type} (xs : List (List α)) : List α := xs.flatten

/-- `y.reshape(batch, coil, …)`: sample `n` gets rows `n·c … n·c + c − 1` -/
def unmergeBC {α : Type} (b c : Nat) (ys : List α) : List (List α) :=
  (List.range b).map fun n => (ys.drop (n * c)).take c

/-- the un-fold a coil-major reading would do (`torch.stack(y.split(batch), dim=coil_dim)`): sample `n`, coil `j` is
row `j·b + n` — kept as the counter-model -/
def unmergeCB {α : Type} [Inhabited α] (b c : Nat) (ys : List α) : List (List α) :=
  (List.range b).map fun n => (List.range c).map fun j => ys.getD (j * b + n) default

/-- `MultiCoil.forward` with `coil_to_batch=True`: fold, apply the model row by row, un-fold -/
def multiCoilFold {α β : Type} (f : α → β) (c : Nat) (xs : List (List α)) : List (List β) :=
  unmergeBC xs.length c ((mergeBC xs).map f)

/-- generic row-major reshape of the leading two axes into `rows` rows of `len` entries (flat data) -/
def rowsOf {α : Type} (rows len : Nat) (flat : List α) : List (List α) := unmergeBC rows len flat

/-! ## sums accumulated chunk by chunk (what a size-dependent "memory saving" path does to a coil sum) -/

/-- accumulate `Σ xs` over `m` consecutive chunks of `k` entries -/
def chunkSum (k m : Nat) (xs : List G) : G :=
  (List.range m).foldl (fun acc i => cadd acc (csum ((xs.drop (i * k)).take k))) (0, 0)

/-- `for i in range(n // k)`: the trailing `n % k` entries are never visited -/
def chunkSumFloor (k : Nat) (xs : List G) : G := chunkSum k (xs.length / k) xs

/-- `for i in range((n + k - 1) // k)` (or `torch.split`): every entry is visited -/
def chunkSumCeil (k : Nat) (xs : List G) : G := chunkSum k ((xs.length + k - 1) / k) xs

/-! ## the translator's record of one call site, and the judgement -/

/-- one batched primitive as the source writes it.
* `family` 0 reduction (`sum`, `mean`, `std`, `amax`, `reduce_operator`, …), 1 operation along an axis (`cat`, `stack`,
  `split`, `select`, `unsqueeze`, `softmax`, `flip`, a call handed `dim=`…), 2 `permute` (`form` 0, `args` the literal)
  or `transpose`-like (`form` 1, `args` the two axes), 3 `reshape` / `view`, 4 `flatten`, 5 subscript at the batch
  position, 6 functional with batch statistics or randomness, 7 whole-tensor query (`unique`, `nonzero`, …);
* families 0/1/4 — `form` 0: the axes in `args`; 1: no axis given (all axes); 3: an open range starting at `args[0]`;
  4: the axis is a parameter of the enclosing function (its call sites have their own rows);
* family 3 — `form`: first target extent is 0 the batch size, 1 the literal `-1`, 2 a product containing the batch size,
  3 another integer literal, 5 another named extent; `args = [rest]` with rest 0 "all remaining extents are 1",
  1 "the second extent restores the folded axis", 2 otherwise;
* family 8 — shape- or mode-dependent control flow: `form` 0 an `if` / conditional expression whose test reads
  `self.training`, 1 whose test reads a tensor extent, 2 a loop over `range(…)` whose bounds do arithmetic on an extent
  (`n // K`, a step: a partial / chunked iteration), 3 a loop over a full extent; `args` lists what the guarded region does:
  1 a reduction, 2 a call into /repo/direct, 4 a slice / narrow / split / select with computed bounds at the batch or coil
  position, 8 an accumulation (`x = x + …`), 32 building a Python list, 64 a slice at a later (spatial) position.  Accepted:
  full-extent loops, and branches / partial loops whose region neither reduces, nor slices the batch / coil axis, nor
  accumulates — "no shape- or mode-dependent branching that changes which elements are reduced";
* `sink` 1: the value only feeds the test of an `if` whose body is nothing but `warnings.warn(…)`. -/
structure Prim where
  fn : String
  family : Nat
  op : String
  form : Nat
  args : List Int
  sink : Nat
deriving Repr, DecidableEq, Inhabited

def axesAvoidBatch (form : Nat) (args : List Int) : Bool :=
  (form == 0 && !args.isEmpty && args.all (· != 0)) || (form == 3 && !args.isEmpty && args.all fun a => decide (1 ≤ a)) || form == 4

/-- the primitive cannot couple the samples of a batch -/
def Prim.ok (p : Prim) : Bool :=
  match p.family with
  | 0 => axesAvoidBatch p.form p.args || (p.form == 1 && p.sink == 1)
  | 1 => axesAvoidBatch p.form p.args
  | 2 => if p.form == 0 then p.args.head? == some 0 else p.form == 1 && !p.args.isEmpty && p.args.all (· != 0)
  | 3 => p.form == 0 || (p.form == 1 && p.args == [0]) || p.form == 2
  | 4 => p.form == 0 && !p.args.isEmpty && p.args.all (· != 0)
  | 6 => p.form == 0
  | 8 => p.form == 3 || !(p.args.contains 1 || p.args.contains 4 || p.args.contains 8)
  | _ => false

def Prim.isMerge (p : Prim) : Bool := p.family == 3 && p.form == 2
def Prim.isUnmerge (p : Prim) : Bool := p.family == 3 && p.form == 0 && p.args == [1]

/-- all call sites of one function -/
structure FuncRow where
  name : String
  prims : List Prim
deriving Repr, Inhabited

/-- every primitive is per-sample, and a `batch * coil` fold is un-folded again inside the same function -/
def FuncRow.ok (f : FuncRow) : Bool := f.prims.all Prim.ok && (!f.prims.any Prim.isMerge || f.prims.any Prim.isUnmerge)

/-- FINDING (current tree), as before: the batch-mean stopping test of `ConjGrad.cg` -/
def pendingPrims : List (String × String) := [("ConjGrad.cg", "mean")]

def Prim.accounted (p : Prim) : Bool := p.ok || pendingPrims.contains (p.fn, p.op)
def FuncRow.accounted (f : FuncRow) : Bool :=
  f.prims.all Prim.accounted && (!f.prims.any Prim.isMerge || f.prims.any Prim.isUnmerge)

/-- a zoo model: its name and the indices (into the function table) of the functions of `/repo/direct` that one
evaluation executes -/
abbrev ModelRow := String × List Nat

def ModelRow.ok (tbl : List FuncRow) (m : ModelRow) : Bool :=
  m.2.all fun i => match tbl[i]? with | some f => f.ok | none => false

def ModelRow.accounted (tbl : List FuncRow) (m : ModelRow) : Bool :=
  m.2.all fun i => match tbl[i]? with | some f => f.accounted | none => false

def ModelRow.prims (tbl : List FuncRow) (m : ModelRow) : List Prim :=
  m.2.flatMap fun i => match tbl[i]? with | some f => f.prims | none => []

/-! ## data-flow graphs over a primitive table -/

/-- a forward pass as a data-flow expression: the input batch, torch kernels that are per-sample by their contract
(convolution, activation, element-wise arithmetic, eval-mode normalisation layers — `kern`), a table primitive applied
to a sub-expression, and combinations of two branches sample by sample (skip connections, gates, `cat` / `stack` along a
non-batch axis — `zip`) -/
inductive Prog where
  | input : Prog
  | kern (name : String) (e : Prog) : Prog
  | prim (p : Prim) (e : Prog) : Prog
  | zip (name : String) (e₁ e₂ : Prog) : Prog
deriving Repr

def Prog.prims : Prog → List Prim
  | .input => []
  | .kern _ e => e.prims
  | .prim p e => p :: e.prims
  | .zip _ a b => a.prims ++ b.prims

/-- what the primitives and kernels denote -/
structure Interp where
  kern : String → NT → NT
  zip : String → NT → NT → NT
  prim : Prim → List NT → List NT

def Prog.eval (I : Interp) : Prog → List NT → List NT
  | .input, xs => xs
  | .kern n e, xs => (e.eval I xs).map (I.kern n)
  | .prim p e, xs => I.prim p (e.eval I xs)
  | .zip n a b, xs => List.zipWith (I.zip n) (a.eval I xs) (b.eval I xs)

def natAxis (rank : Nat) (a : Int) : Nat := (normAxis rank a).toNat

/-- `transpose(a, b)` as a permutation literal -/
def swapPerm (rank a b : Nat) : List Nat := (List.range rank).map fun i => if i = a then b else if i = b then a else i

/-- the standard interpretation: reductions and along-axis operations act through `batchedAlong` on the listed axes
(largest first), `permute` through adjacent swaps, a reshape that keeps the batch extent / the per-sample broadcast idiom
and the per-sample functionals act sample by sample; `rank` gives the rank of the operand (for negative axes), `along`
the per-axis action of every operation name.  Call sites that are *not* `ok` denote a reduction over the batch axis. -/
def alongSem (rank : Prim → Nat) (along : String → NT → NT) (opq : String → NT → NT) (p : Prim) (batch : List NT) : List NT :=
  if p.form == 0 then
    ((p.args.map (natAxis (rank p))).mergeSort (· ≥ ·)).foldl (fun b d => batchedAlong (along p.op) d b) batch
  else if p.form == 3 then
    -- an open range `k, k+1, …` of axes
    ((List.range (rank p)).filter fun d => decide ((p.args.headD 1).toNat ≤ d)).reverse.foldl (fun b d => batchedAlong (along p.op) d b) batch
  else batch.map (opq p.op)

def permSem (rank : Prim → Nat) (p : Prim) (batch : List NT) : List NT :=
  if p.form == 0 then batchedPermute (p.args.map Int.toNat) batch
  else batchedPermute (swapPerm (rank p) (natAxis (rank p) (p.args.headD 1)) (natAxis (rank p) (p.args.getD 1 1))) batch

def stdInterp (rank : Prim → Nat) (along : String → NT → NT) (opq : String → NT → NT) (zp : String → NT → NT → NT) : Interp where
  kern := opq
  zip := zp
  prim p := fun batch =>
    if p.ok then
      if p.family == 0 || p.family == 1 || p.family == 4 then alongSem rank along opq p batch
      else if p.family == 2 then permSem rank p batch
      else batch.map (opq p.op)
    else batchedAlong (along p.op) 0 batch

/-! ## effects: every way a forward pass could keep state between calls -/

/-- `kind` 0 assignment to `self.x`; 1 `setattr` / `register_buffer` / `__dict__` / `self.train()`; 2 in-place method or
item assignment on a `self.*` chain; 3 class attribute; 4 module-level name (`global`, `_CACHE[k] = …`); 5 memoising
decorator; 6 process-wide torch switch (`torch.backends.*`, `set_default_dtype`, `set_grad_enabled`, seeding, …);
7 mutable default argument; 8 in-place update of a parameter (the caller's object); 9 in-place method on a local tensor;
10 a read of a process-wide mode that is not an input of the call (`torch.is_grad_enabled()`, default dtype, RNG state) -/
structure EffRow where
  fn : String
  kind : Nat
  detail : String
deriving Repr, DecidableEq

/-- updates of the caller's *dictionary* by the engines' `forward_function` (`data["sensitivity_map"] = …`): the harness
hands every call its own dictionary, and the value written is a function of that call's inputs only -/
def allowedEffects : List (String × String) :=
  [("LPDNetEngine.forward_function", "data['sensitivity_map']"),
   ("MRIVarSplitNetEngine.forward_function", "data['sensitivity_map']"),
   ("VSharpNet3DEngine.forward_function", "data['sensitivity_map']"),
   ("VSharpNetEngine.forward_function", "data['sensitivity_map']"),
   -- CIRIM threads its own per-call list of hidden states through its cascades (created inside the same `forward`)
   ("RIMBlock.forward", "hidden_state[hs]")]

def EffRow.ok (r : EffRow) : Bool := r.kind == 9 || (r.kind == 8 && allowedEffects.contains (r.fn, r.detail))

/-- where state can live between calls -/
inductive Loc where
  | attr (name : String)       -- `self.x`, buffers, sub-module flags
  | cls (name : String)        -- class attributes, shared by all instances
  | glob (name : String)       -- module-level names, memo tables, default-argument objects
  | switch (name : String)     -- `torch.backends.*`, default dtype, grad mode, RNG state
deriving Repr, DecidableEq

abbrev Store := Loc → Int

def Store.write (s : Store) (l : Loc) (v : Int) : Store := fun l' => if l' = l then v else s l'

/-- a call described by what it does: reads the store and the input, returns the writes it performs and its output -/
abbrev Call (ι ο : Type) := Store → ι → List (Loc × Int) × ο

def applyWrites (s : Store) (ws : List (Loc × Int)) : Store := ws.foldl (fun s w => s.write w.1 w.2) s

def Call.toModule {ι ο : Type} (c : Call ι ο) : Module Store ι ο := fun s x => (applyWrites s (c s x).1, (c s x).2)

/-- a history that interleaves calls to two instances sharing class / module / process state: `Sum.inl` = first -/
def runTwo {ι ο : Type} (a b : Call ι ο) : Store → List (ι ⊕ ι) → Store × List ο
  | s, [] => (s, [])
  | s, .inl x :: rest =>
    let r := a s x
    let t := runTwo a b (applyWrites s r.1) rest
    (t.1, r.2 :: t.2)
  | s, .inr x :: rest =>
    let r := b s x
    let t := runTwo a b (applyWrites s r.1) rest
    (t.1, r.2 :: t.2)

/-! ## coil expressions: what a network may do with the coil axis -/

mutual
/-- coil-indexed values: the coil's own k-space / sensitivity entry, the same function applied to every coil
(`compute_model_per_coil`, `MultiCoil`, FFT, masking), element-wise combination of two coil tensors, an image broadcast to
every coil (`unsqueeze(coil_dim)`, `expand_operator`) -/
inductive CExpr (D : Type) where
  | k : CExpr D
  | s : CExpr D
  | perCoil (f : D → D) (e : CExpr D) : CExpr D
  | zip (g : D → D → D) (e₁ e₂ : CExpr D) : CExpr D
  | bcast (g : D → D → D) (i : IExpr D) (e : CExpr D) : CExpr D
/-- coil-free values: a sum over the coil axis, image-domain operations -/
inductive IExpr (D : Type) where
  | sum (e : CExpr D) : IExpr D
  | const (d : D) : IExpr D
  | op (f : D → D) (i : IExpr D) : IExpr D
  | op2 (g : D → D → D) (i₁ i₂ : IExpr D) : IExpr D
end

mutual
def CExpr.eval {D : Type} (add : D → D → D) (zero : D) : CExpr D → List (D × D) → List D
  | .k, inp => inp.map (·.1)
  | .s, inp => inp.map (·.2)
  | .perCoil f e, inp => (e.eval add zero inp).map f
  | .zip g a b, inp => List.zipWith g (a.eval add zero inp) (b.eval add zero inp)
  | .bcast g i e, inp => (e.eval add zero inp).map (g (i.eval add zero inp))
def IExpr.eval {D : Type} (add : D → D → D) (zero : D) : IExpr D → List (D × D) → D
  | .sum e, inp => (e.eval add zero inp).foldr add zero
  | .const d, _ => d
  | .op f i, inp => f (i.eval add zero inp)
  | .op2 g a b, inp => g (a.eval add zero inp) (b.eval add zero inp)
end

/-- reorder the coils: `σ` lists, for every new position, the old coil index -/
def gather {α : Type} (σ : List Nat) (xs : List α) : List α := σ.filterMap fun i => xs[i]?

/-- operations outside the language, kept as counter-models: singling out coil `j`, and a convolution that treats the
coils as channels (`out_i = Σ_j w i j · x_j` with weights depending on the coil *positions*) -/
def selectCoil {D : Type} (zero : D) (j : Nat) (xs : List D) : D := xs.getD j zero
def coilMix (w : Nat → Nat → Int) (xs : List Int) : List Int :=
  (List.range xs.length).map fun i => ((List.range xs.length).map fun j => w i j * xs.getD j 0).foldr (· + ·) 0

end DirectVerif.BatchSep
