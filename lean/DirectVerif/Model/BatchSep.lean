import DirectVerif.Model.Basic
/-!
# C18 — batch separability (models of the normalisation code in `direct/nn` and of coil reduction)

* batched operations are functions `List Sample → List Sample'` (axis 0 = the list);
  `Separable f := ∃ f₁, ∀ xs, f xs = xs.map f₁` — the output of a sample does not depend on its companions;
* reductions are described the way the code writes them: a (reshaped) view of some rank whose leading axis may or may
  not be the batch, and the list of reduced axes (`Red`); `reduceAt` is the semantics of reducing one axis of a nested
  tensor;
* executable integer models of `NormUnetModel2d.norm` / `NormConv2dGRU.norm` (group statistics as exact integers),
  of `reduce_operator` / `expand_operator` and of `StandardizationLayer` on Gaussian integers;
* modules as state machines (`Module`), for "no hidden state across calls".
-/
namespace DirectVerif.BatchSep

/-- a batched operation is separable when it is the per-sample map of some function -/
def Separable {α β : Type} (f : List α → List β) : Prop := ∃ f₁ : α → β, ∀ xs, f xs = xs.map f₁

/-! ## nested tensors and single-axis reductions -/

inductive NT where
  | leaf : Int → NT
  | node : List NT → NT
deriving Repr, Inhabited

/-- reduce axis `d` with the combining function `comb` (sum / mean / std … of the sub-tensors along that axis):
axis 0 combines the children of the root, axis `d + 1` recurses into every child. -/
def reduceAt (comb : List NT → NT) : Nat → NT → NT
  | 0, .node xs => comb xs
  | 0, t => t
  | d + 1, .node xs => .node (xs.map (reduceAt comb d))
  | _ + 1, t => t

/-- a batch (list of samples) viewed as one tensor, reduced along axis `d`, viewed as a batch again -/
def batchedReduce (comb : List NT → NT) (d : Nat) (batch : List NT) : List NT :=
  match reduceAt comb d (.node batch) with
  | .node ys => ys
  | t => [t]

/-! ## the reduction table extracted from the code -/

/-- one reduction call: in function `fn`, operation `op` (`mean`, `std`, `sum`, …) applied to a view of rank `rank`
whose axis 0 is the batch iff `batchFirst`, over the axes `axes` (Python convention: negative = from the end; the empty
list = *all* axes, as in `x.mean()`). -/
structure Red where
  fn : String
  op : String
  rank : Nat
  axes : List Int
  batchFirst : Bool
deriving Repr, DecidableEq

def normAxis (rank : Nat) (a : Int) : Int := if a < 0 then a + rank else a

/-- the reduction never touches the batch axis (and is a valid torch call: axes in range, no axis named twice) -/
def Red.perSample (r : Red) : Bool :=
  r.batchFirst && !r.axes.isEmpty && (r.axes.all fun a => decide (0 < normAxis r.rank a) && decide (normAxis r.rank a < r.rank))
    && decide ((r.axes.map (normAxis r.rank)).Nodup)

/-- the axes as naturals, largest first (so that reducing one does not renumber the next) -/
def Red.natAxes (r : Red) : List Nat :=
  ((r.axes.map fun a => (normAxis r.rank a).toNat).mergeSort (· ≥ ·))

/-- the batched operation a table entry denotes: reduce the listed axes one after the other (all of them when the list is
empty) -/
def Red.apply (r : Red) (comb : List NT → NT) (batch : List NT) : List NT :=
  if r.axes.isEmpty then [comb batch]
  else r.natAxes.foldl (fun b d => batchedReduce comb d b) batch

abbrev Table := List Red

def Table.wf (t : Table) : Bool := t.all Red.perSample

/-! ## exact integer model of the group normalisation statistics -/

/-- statistics of one group as exact integers: `(n, S, Q)` with `S = Σ x`, `Q = Σ (n·x − S)²`, so that
`mean = S / n` and the unbiased `std² = Q / (n² (n − 1))`. -/
def groupStat (xs : List Int) : List Int :=
  let n : Int := xs.length
  let s := xs.foldl (· + ·) 0
  [n, s, (xs.map fun x => (n * x - s) * (n * x - s)).foldl (· + ·) 0]

/-- `input.reshape(b, groups, -1)` of one sample (flat, row-major) followed by `mean(-1)`, `std(-1)`: per-group
statistics of that sample only -/
def sampleStats (groups : Nat) (sample : List Int) : List Int :=
  if groups = 0 ∨ sample.length % groups ≠ 0 then []
  else
    let size := sample.length / groups
    (List.range groups).flatMap fun g => groupStat ((sample.drop (g * size)).take size)

/-- `NormUnetModel2d.norm` / `NormUnetModel3d.norm` / `NormConv2dGRU.norm` on a batch: statistics sample by sample -/
def normBatch (groups : Nat) (batch : List (List Int)) : List (List Int) := batch.map (sampleStats groups)

/-- what a reshape that merges the batch into the groups (`reshape(groups, -1)`) would compute — kept as the
counter-model: statistics of a sample then depend on its companions -/
def normWholeBatch (groups : Nat) (batch : List (List Int)) : List (List Int) :=
  batch.map fun _ => sampleStats groups batch.flatten

/-! ## Gaussian integers, coil reduction / expansion, StandardizationLayer -/

abbrev G := Int × Int

def cadd (a b : G) : G := (a.1 + b.1, a.2 + b.2)
def csub (a b : G) : G := (a.1 - b.1, a.2 - b.2)
def cmul (a b : G) : G := (a.1 * b.1 - a.2 * b.2, a.1 * b.2 + a.2 * b.1)
def conj (a : G) : G := (a.1, -a.2)
def csum (xs : List G) : G := xs.foldr cadd (0, 0)

/-- `reduce_operator` at one pixel: `Σ_coils conj(S_i) · x_i` over the list of `(S_i, x_i)` -/
def reducePix (sx : List (G × G)) : G := csum (sx.map fun p => cmul (conj p.1) p.2)

/-- `expand_operator` at one pixel: `S_i · x` for every coil -/
def expandPix (s : List G) (x : G) : List G := s.map fun si => cmul si x

/-- a data-consistency step at one pixel: `Σ_i conj(S_i) · (S_i · x − y_i)` -/
def dcPix (sy : List (G × G)) (x : G) : G := csum (sy.map fun p => cmul (conj p.1) (csub (cmul p.1 x) p.2))

/-- `StandardizationLayer.forward` at one pixel: for every coil `[combined, combined − S_i · combined]` with
`combined = reduce(coil_images, S)` (4 channels per coil) -/
def standardizePix (sx : List (G × G)) : List (List Int) :=
  let c := reducePix sx
  sx.map fun p =>
    let r := csub c (cmul p.1 c)
    [c.1, c.2, r.1, r.2]

/-! ## modules as state machines -/

/-- a module call: state (attributes, buffers) and input to new state and output -/
abbrev Module (σ ι ο : Type) := σ → ι → σ × ο

/-- run a history of calls, return the final state and all outputs -/
def runCalls {σ ι ο : Type} (m : Module σ ι ο) : σ → List ι → σ × List ο
  | s, [] => (s, [])
  | s, x :: xs =>
    let (s', y) := m s x
    let (s'', ys) := runCalls m s' xs
    (s'', y :: ys)

/-- table of `(class.method, number of assignments to self.* inside it)` -/
abbrev Writes := List (String × Nat)
def Writes.none (t : Writes) : Bool := t.all fun e => e.2 == 0

/-- one reduction call of the complete scan: `kind` 0 = over `axes`, 1 = over all axes, 2 = unresolved -/
structure Row where
  fn : String
  op : String
  kind : Nat
  axes : List Int
deriving Repr, DecidableEq

/-- the reduction leaves the batch axis alone: explicit axes, none of them 0 (negative axes address the trailing
complex / spatial / flattened axes of tensors of rank ≥ 3) -/
def Row.safe (r : Row) : Bool := r.kind == 0 && !r.axes.isEmpty && r.axes.all (· != 0)

/-- reductions over all axes that provably do not reach the output: `RIM.forward` computes `grad.abs().max()` only to
emit a warning -/
def allowedGlobal : List (String × String) := [("RIM.forward", "max")]

/-- FINDING (current tree): the stopping test of `ConjGrad.cg` averages the residual norm over the *batch*
(`rk_norm_sq_new.abs().sqrt().mean() < tol`): the number of CG iterations a sample gets depends on its companions -/
def pendingGlobal : List (String × String) := [("ConjGrad.cg", "mean")]

/-- rows of the complete scan that are not `safe` syntactically but are per-sample for a stated reason -/
def allowedRows : List (String × String) :=
  [("RIM.forward", "max"),                     -- `grad.abs().max() > 150` only triggers a warning
   ("ConjGrad.cg", "complex_dot_product"),     -- `dim = torch.arange(1, x.ndim - 1)`: starts at 1
   ("_PRP", "complex_dot_product"), ("_DY", "complex_dot_product"), ("_BAN", "complex_dot_product")]  -- same `dim`, passed by `cg`

/-- the one pending / known batch-coupled reduction -/
def pendingRows : List (String × String) := [("ConjGrad.cg", "mean")]

def Row.accounted (r : Row) : Bool := r.safe || allowedRows.contains (r.fn, r.op) || pendingRows.contains (r.fn, r.op)

end DirectVerif.BatchSep
