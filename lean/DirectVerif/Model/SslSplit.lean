import DirectVerif.Model.Basic
/-!
# C11 — self-supervised mask splitting (models of `direct/ssl/ssl.py`, `direct/ssl/mask_fillers.py`,
`direct/ssl/_gaussian_fill.pyx`)

Boolean masks are flat row-major grids `List Bool` of length `nrow * ncol`; cell `(i, j)` has flat index
`i * ncol + j`.  Randomness is explicit:

* the Cython kernel `gaussian_fill` is a fold over the *candidate stream* (the truncated Box–Muller pairs
  it draws from libc `rand()`); a finite prefix of the stream is the fuel, and the kernel "has returned"
  within the prefix iff the loop guard is false after it;
* `rng.choice(..., replace=False, p=free/free.sum())` of the uniform splitter is the list of chosen flat
  indices;
* the requested sample count (`int(ceil(mask.sum() * ratio))`, a float32 product in torch) is an input
  `c` of the split functions; `ratioCeil` / `ratioFloor` are its exact-rational forms.

The model mirrors the code as it is now in /repo: the Gaussian request is capped at `#free - 1` before the
kernel is called (`gaussianSplit`; pre-repair `gaussianSplitPinned`), `uniform_fill` returns early when there
is nothing to draw (pre-repair `uniformFillPinned`), the half split honours the protected region (pre-repair
`halfSplitPinned`).
-/
namespace DirectVerif.SslSplit

abbrev Grid := List Bool

def gAnd (a b : Grid) : Grid := List.zipWith (fun x y => x && y) a b
def gOr (a b : Grid) : Grid := List.zipWith (fun x y => x || y) a b
def gNot (a : Grid) : Grid := a.map (fun x => !x)
/-- `a & ~b` -/
def gAndNot (a b : Grid) : Grid := List.zipWith (fun x y => x && !y) a b
def zeros (n : Nat) : Grid := List.replicate n false
/-- `mask.sum()` / `count_nonzero` -/
def cnt (g : Grid) : Nat := g.count true

/-! ## count expressions -/

/-- `int(ceil(S * ρ))` for the exact ratio `ρ = p / q`, `q > 0` -/
def ratioCeil (S p q : Int) : Int := -((-(S * p)) / q)
/-- `int(S * ρ)` (truncation of a non-negative product) for `ρ = p / q`, `q > 0` -/
def ratioFloor (S p q : Int) : Int := (S * p) / q
/-- the repaired cap: `min(nonzero_mask_count, int(temp_mask.sum()) - 1)` -/
def capRequest (c free : Int) : Int := min c (free - 1)

/-! ## the float32 product behind the requested count -/

/-- one attempt at exponent `e`: when `2^23 ≤ x / 2^e < 2^24` the nearest-even 24-bit significand times `2^e`,
as a fraction -/
def roundAt (num den : Nat) (e : Int) : Option (Nat × Nat) :=
  let N := if e ≥ 0 then num else num * 2 ^ (-e).toNat
  let D := if e ≥ 0 then den * 2 ^ e.toNat else den
  if 2 ^ 23 * D ≤ N ∧ N < 2 ^ 24 * D then
    let m0 := N / D
    let rem := N % D
    let m := if 2 * rem > D ∨ (2 * rem = D ∧ m0 % 2 = 1) then m0 + 1 else m0
    some (if e ≥ 0 then (m * 2 ^ e.toNat, 1) else (m, 2 ^ (-e).toNat))
  else none

/-- IEEE-754 binary32 round-to-nearest-even of the positive fraction `num / den` (normal range), as a fraction.
The exponent is found from `Nat.log2`; should neither guess normalise (it always does — the correspondence
check compares with torch), the value is returned unrounded, so the error bound holds by construction. -/
def roundF32 (num den : Nat) : Nat × Nat :=
  if num = 0 ∨ den = 0 then (num, den) else
  let l : Int := (Nat.log2 num : Int) - (Nat.log2 den : Int)
  match roundAt num den (l - 23) with
  | some r => r
  | none => match roundAt num den (l - 24) with
    | some r => r
    | none => (num, den)

/-- `torch.tensor(S) * ρ` with `ρ = p / q` a Python float: `S` is exact in float32 (`S < 2^24`), the ratio and
the product are each rounded once -/
def mulF32 (S p q : Nat) : Nat × Nat :=
  let r := roundF32 p q
  roundF32 (S * r.1) r.2

/-- `int(ceil(mask.sum() * ratio))` as torch computes it -/
def countCeilF32 (S p q : Nat) : Int :=
  let r := mulF32 S p q; -((-(r.1 : Int)) / (r.2 : Int))
/-- `int(count_nonzero(temp_mask) * ratio)` as torch computes it -/
def countFloorF32 (S p q : Nat) : Int :=
  let r := mulF32 S p q
  (r.1 : Int) / (r.2 : Int)

/-! ## the protected central region (`temp_mask[cx - a0//2 : cx + a0//2, cy - a1//2 : cy + a1//2] = False`) -/

def centre (n : Int) : Int := n / 2
def regionLo (n a : Int) : Int := centre n - a / 2
def regionHi (n a : Int) : Int := centre n + a / 2

/-- indices selected by the Python slice `[regionLo : regionHi]` on an axis of length `n`
(negative bounds wrap, out-of-range bounds are clipped — `pySlice`) -/
def regionIdx (n : Nat) (a : Int) : List Nat := pySlice (List.range n) (regionLo n a) (regionHi n a)

/-- is flat cell `k` inside the protected region as the code addresses it? -/
def protectedCell (nrow ncol : Nat) (a0 a1 : Int) (k : Nat) : Bool :=
  (regionIdx nrow a0).contains (k / ncol) && (regionIdx ncol a1).contains (k % ncol)

/-- `temp_mask[...] = False` -/
def clearProtected (nrow ncol : Nat) (a0 a1 : Int) (g : Grid) : Grid :=
  let rows := regionIdx nrow a0
  let cols := regionIdx ncol a1
  g.mapIdx fun k b => b && !(rows.contains (k / ncol) && cols.contains (k % ncol))

/-! ## the Cython kernel -/

/-- loop guard `while count <= nonzero_mask_count` -/
def loopGuard (count n : Int) : Bool := decide (count ≤ n)

/-- acceptance test `0 <= indx < nrow and 0 <= indy < ncol and mask[indx, indy] == 1 and
output_mask[indx, indy] != 1` (`m`, `o` the two cell values, read as 0 when out of range) -/
def acceptTest (indx indy nrow ncol m o : Int) : Bool :=
  ((decide (0 ≤ indx) && decide (indx < nrow)) && (decide (0 ≤ indy) && decide (indy < ncol)) &&
    (m == 1) && (o != 1))

def b2i (b : Bool) : Int := if b then 1 else 0

/-- row-major address of a candidate -/
def flatIdx (ncol : Nat) (c : Int × Int) : Nat := c.1.toNat * ncol + c.2.toNat

/-- the cell the kernel sets for candidate `c`, if it accepts it -/
def accepts (nrow ncol : Nat) (mask out : Grid) (c : Int × Int) : Option Nat :=
  let k := flatIdx ncol c
  if acceptTest c.1 c.2 nrow ncol (b2i (mask.getD k false)) (b2i (out.getD k false)) then some k else none

/-- one trip through the `while` loop: state `(count, output_mask)`; nothing is consumed any more once
the guard is false (the kernel has returned) -/
def fillStep (n : Int) (nrow ncol : Nat) (mask : Grid) (st : Int × Grid) (c : Int × Int) : Int × Grid :=
  if loopGuard st.1 n then
    match accepts nrow ncol mask st.2 c with
    | some k => (st.1 + 1, st.2.set k true)
    | none => st
  else st

def fillRun (n : Int) (nrow ncol : Nat) (mask : Grid) (st : Int × Grid) (cs : List (Int × Int)) : Int × Grid :=
  cs.foldl (fillStep n nrow ncol mask) st

/-- `gaussian_fill(n, nrow, ncol, …, mask, output_mask, seed)` replayed on a finite prefix `cs` of its
candidate stream: `none` = still looping when the prefix is exhausted. -/
def gaussianFill (n : Int) (nrow ncol : Nat) (mask out : Grid) (cs : List (Int × Int)) : Option Grid :=
  let st := fillRun n nrow ncol mask (0, out) cs
  if loopGuard st.1 n then none else some st.2

/-- the kernel called with the *uncapped* request (tree before the repair) -/
def gaussianFillPinned (c : Int) (nrow ncol : Nat) (mask : Grid) (cs : List (Int × Int)) : Option Grid :=
  gaussianFill c nrow ncol mask (zeros mask.length) cs

/-- a candidate list without its repetitions (first occurrences kept); repeated candidates cannot change the
state of the loop (`gaussianFill_dedup`), so long streams are replayed on their first occurrences -/
def dedupFrom (seen : List (Int × Int)) : List (Int × Int) → List (Int × Int)
  | [] => []
  | c :: cs => if seen.contains c then dedupFrom seen cs else c :: dedupFrom (c :: seen) cs
def dedup (cs : List (Int × Int)) : List (Int × Int) := dedupFrom [] cs

/-- the first `fuel` candidates of an infinite stream -/
def streamPrefix (s : Nat → Int × Int) (fuel : Nat) : List (Int × Int) := (List.range fuel).map s

/-! ## the three splitters -/

/-- masks after `mask & ~acs_mask` (keep_acs) and after clearing the protected region (not keep_acs) -/
def reducedMask (keep : Bool) (mask acs : Grid) : Grid := if keep then gAndNot mask acs else mask
def freeMask (keep : Bool) (a0 a1 : Int) (nrow ncol : Nat) (mask acs : Grid) : Grid :=
  if keep then reducedMask keep mask acs else clearProtected nrow ncol a0 a1 (reducedMask keep mask acs)

/-- `input_mask = mask & ~target_mask`, then `| acs_mask` on both when keep_acs -/
def finish (keep : Bool) (mask' acs target : Grid) : Grid × Grid :=
  let input := gAndNot mask' target
  if keep then (gOr input acs, gOr target acs) else (input, target)

/-- `_gaussian_split` with requested count `c` (before the cap) on the candidate prefix `cs` -/
def gaussianSplit (keep : Bool) (a0 a1 : Int) (nrow ncol : Nat) (mask acs : Grid) (c : Int)
    (cs : List (Int × Int)) : Option (Grid × Grid) :=
  let mask' := reducedMask keep mask acs
  let temp := freeMask keep a0 a1 nrow ncol mask acs
  let n := capRequest c (cnt temp)
  match gaussianFill n nrow ncol temp (zeros mask'.length) cs with
  | none => none
  | some target => some (finish keep mask' acs target)

/-- the tree before the repair: no cap -/
def gaussianSplitPinned (keep : Bool) (a0 a1 : Int) (nrow ncol : Nat) (mask acs : Grid) (c : Int)
    (cs : List (Int × Int)) : Option (Grid × Grid) :=
  let mask' := reducedMask keep mask acs
  let temp := freeMask keep a0 a1 nrow ncol mask acs
  match gaussianFillPinned c nrow ncol temp cs with
  | none => none
  | some target => some (finish keep mask' acs target)

inductive UErr where
  | nanProb      -- pre-repair only: `p = prob / prob.sum()` with no free cell, numpy raises ValueError
  | badDraw      -- the supplied list is not a possible result of `rng.choice(.., size, replace=False, p)`
deriving Repr, DecidableEq

/-- a possible result of `rng.choice(arange(N), size=count, replace=False, p=free/free.sum())` -/
def validChoice (count : Nat) (free : Grid) (chosen : List Nat) : Bool :=
  chosen.length == count && chosen.Nodup && chosen.all fun k => free.getD k false

/-- `output_mask[ind_x, ind_y] = True` for the unravelled chosen indices -/
def setAll (out : Grid) (chosen : List Nat) : Grid := chosen.foldl (fun o k => o.set k true) out

/-- `uniform_fill(count, nrow, ncol, free, rng)` given what `rng.choice` returned; the early return
`if nonzero_mask_count == 0 or prob.sum() == 0: return zeros` does not draw at all -/
def uniformFill (count : Nat) (free : Grid) (chosen : List Nat) : Except UErr Grid :=
  if count = 0 ∨ cnt free = 0 then .ok (zeros free.length)
  else if !validChoice count free chosen then .error .badDraw
  else .ok (setAll (zeros free.length) chosen)

/-- the tree before the repair: no early return, `0 / 0` probabilities make numpy raise -/
def uniformFillPinned (count : Nat) (free : Grid) (chosen : List Nat) : Except UErr Grid :=
  if cnt free = 0 then .error .nanProb
  else if !validChoice count free chosen then .error .badDraw
  else .ok (setAll (zeros free.length) chosen)

/-- `_uniform_split` with `count = int(count_nonzero(temp_mask) * ratio)` -/
def uniformSplit (keep : Bool) (a0 a1 : Int) (nrow ncol : Nat) (mask acs : Grid) (count : Nat)
    (chosen : List Nat) : Except UErr (Grid × Grid) :=
  let mask' := reducedMask keep mask acs
  let temp := freeMask keep a0 a1 nrow ncol mask acs
  match uniformFill count temp chosen with
  | .error e => .error e
  | .ok target => .ok (finish keep mask' acs target)

inductive Dir where
  | horizontal | vertical | diagLeft | diagRight
deriving Repr, DecidableEq

/-- `torch.linspace(-1, 1, n)[i]` as the exact fraction `coordNum / coordDen` (`[-1]` for `n = 1`) -/
def coordNum (n i : Nat) : Int := if n ≤ 1 then -1 else 2 * (i : Int) - ((n : Int) - 1)
def coordDen (n : Nat) : Int := if n ≤ 1 then 1 else (n : Int) - 1

/-- does cell `(i, j)` fall on the input side of the half split? -/
def inputSide (d : Dir) (nrow ncol i j : Nat) : Bool :=
  match d with
  | .horizontal => decide ((i : Int) < centre nrow)            -- `input_mask[:center_x] = mask[:center_x]`
  | .vertical => decide ((j : Int) < centre ncol)
  | .diagRight => decide (coordNum nrow i * coordDen ncol + coordNum ncol j * coordDen nrow ≤ 0)  -- xv + yv <= 0
  | .diagLeft => decide (coordNum nrow i * coordDen ncol - coordNum ncol j * coordDen nrow ≤ 0)   -- xv - yv <= 0

/-- the exact coordinates on a common positive scale: `xv[i] · s`, `yv[j] · s` with
`s = coordDen nrow · coordDen ncol` -/
def exactXs (nrow ncol : Nat) : List Int := (List.range nrow).map fun i => coordNum nrow i * coordDen ncol
def exactYs (nrow ncol : Nat) : List Int := (List.range ncol).map fun j => coordNum ncol j * coordDen nrow

/-- the side test on given coordinate vectors `xs`, `ys` (integers on one common positive scale — the float32
values of `torch.linspace` are dyadic rationals, so they can be carried exactly).  A float32 sum is rounded
to nearest, which never changes its sign and gives 0 only for an exact 0: `fl(x + y) <= 0 ⟺ x + y ≤ 0`. -/
def inputSideC (d : Dir) (xs ys : List Int) (nrow ncol i j : Nat) : Bool :=
  match d with
  | .horizontal => decide ((i : Int) < centre nrow)
  | .vertical => decide ((j : Int) < centre ncol)
  | .diagRight => decide (xs.getD i 0 + ys.getD j 0 ≤ 0)
  | .diagLeft => decide (xs.getD i 0 - ys.getD j 0 ≤ 0)

/-- the half split proper (all the pre-repair tree did: the protected region was **not used**) -/
def halfParts (d : Dir) (xs ys : List Int) (nrow ncol : Nat) (mask : Grid) : Grid × Grid :=
  (mask.mapIdx fun k b => b && inputSideC d xs ys nrow ncol (k / ncol) (k % ncol),
   mask.mapIdx fun k b => b && !inputSideC d xs ys nrow ncol (k / ncol) (k % ncol))

/-- the boolean grid `protected[cx - a0//2 : cx + a0//2, cy - a1//2 : cy + a1//2] = True` -/
def protectedGrid (nrow ncol : Nat) (a0 a1 : Int) (len : Nat) : Grid :=
  let rows := regionIdx nrow a0
  let cols := regionIdx ncol a1
  (List.range len).map fun k => rows.contains (k / ncol) && cols.contains (k % ncol)

/-- `_half_split`: when not keep_acs, `input | (mask & protected)`, `target & ~protected`; when keep_acs,
`| acs_mask` on both -/
def halfSplit (d : Dir) (xs ys : List Int) (keep : Bool) (a0 a1 : Int) (nrow ncol : Nat) (mask acs : Grid) : Grid × Grid :=
  let (input, target) := halfParts d xs ys nrow ncol mask
  if keep then (gOr input acs, gOr target acs)
  else
    let prot := protectedGrid nrow ncol a0 a1 mask.length
    (gOr input (gAnd mask prot), gAndNot target prot)

/-- the tree before the repair -/
def halfSplitPinned (d : Dir) (xs ys : List Int) (keep : Bool) (nrow ncol : Nat) (mask acs : Grid) : Grid × Grid :=
  let (input, target) := halfParts d xs ys nrow ncol mask
  if keep then (gOr input acs, gOr target acs) else (input, target)

/-! ## `forward`: seeds and k-spaces -/

/-- `tuple(map(ord, str(filename) + str(slice_no)))` on code points -/
def seedTuple (filename slice : List Nat) : List Nat := filename ++ slice
/-- `int(np.mean(seed))` — the integer handed to `srand` -/
def gaussianSeed (t : List Nat) : Int := (t.sum : Int) / (t.length : Int)

/-- `apply_mask(kspace, mask)` for a k-space `(coil, nrow, ncol, 2)` flattened row-major and a mask
`(1, nrow, ncol, 1)`: entries whose cell is not in the mask become 0 -/
def applyMaskK (cells : Nat) (m : Grid) (k : List Int) : List Int :=
  k.mapIdx fun idx v => if m.getD ((idx / 2) % cells) false then v else 0

/-- what `forward` stores for one sample given its two masks -/
structure SplitOut where
  inputMask : Grid
  targetMask : Grid
  inputK : List Int
  targetK : List Int
deriving Repr, DecidableEq

def splitOut (cells : Nat) (k : List Int) (m : Grid × Grid) : SplitOut :=
  { inputMask := m.1, targetMask := m.2, inputK := applyMaskK cells m.1 k, targetK := applyMaskK cells m.2 k }

/-- The random sources as the model sees them (trusted): the numpy `RandomState` of the splitter seeded
with a tuple, libc `rand()` after `srand(seed)`, and the ambient (history-dependent) state used when
seeding is off. -/
structure Sources where
  /-- `rng.seed(t); rng.randint(0, k)` -/
  ratioIdx : List Nat → Nat → Nat
  /-- …followed by `rng.choice(arange(N), size, replace=False, p=free/free.sum())` -/
  choice : List Nat → Nat → Grid → List Nat
  /-- the first `fuel` truncated Box–Muller candidates after `srand(seed)` for an `nrow × ncol` grid -/
  candidates : Int → Nat → Nat → Nat → List (Int × Int)

/-- ambient state: what an unseeded call reads (OS entropy for `rng.seed(None)`, the global numpy stream
for `np.random.randint(0, 1e5)`) -/
structure Ambient where
  entropy : List Nat
  globalDraw : Int

structure Cfg where
  keep : Bool
  a0 : Int
  a1 : Int
  useSeed : Bool
  /-- the requested count as a function of the number of sampled cells and the chosen ratio index -/
  request : Nat → Nat → Int
  nRatios : Nat

/-- one sample of `GaussianMaskSplitterModule.forward` -/
def forwardGaussian (src : Sources) (cfg : Cfg) (amb : Ambient) (fuel nrow ncol : Nat)
    (filename slice : List Nat) (mask acs : Grid) (k : List Int) : Option SplitOut :=
  let t := if cfg.useSeed then seedTuple filename slice else amb.entropy
  let seed := if cfg.useSeed then gaussianSeed t else amb.globalDraw
  let mask' := reducedMask cfg.keep mask acs
  let c := cfg.request (cnt mask') (src.ratioIdx t cfg.nRatios)
  (gaussianSplit cfg.keep cfg.a0 cfg.a1 nrow ncol mask acs c (src.candidates seed nrow ncol fuel)).map
    (splitOut (nrow * ncol) k)

/-- one sample of `UniformMaskSplitterModule.forward` -/
def forwardUniform (src : Sources) (cfg : Cfg) (amb : Ambient) (nrow ncol : Nat)
    (filename slice : List Nat) (mask acs : Grid) (k : List Int) : Except UErr SplitOut :=
  let t := if cfg.useSeed then seedTuple filename slice else amb.entropy
  let temp := freeMask cfg.keep cfg.a0 cfg.a1 nrow ncol mask acs
  let count := (cfg.request (cnt temp) (src.ratioIdx t cfg.nRatios)).toNat
  (uniformSplit cfg.keep cfg.a0 cfg.a1 nrow ncol mask acs count (src.choice t count temp)).map
    (splitOut (nrow * ncol) k)

/-- one sample of `HalfMaskSplitterModule.forward` (no randomness) -/
def forwardHalf (d : Dir) (xs ys : List Int) (keep : Bool) (a0 a1 : Int) (nrow ncol : Nat) (mask acs : Grid) (k : List Int) : SplitOut :=
  splitOut (nrow * ncol) k (halfSplit d xs ys keep a0 a1 nrow ncol mask acs)

/-! ## the SSL branch around the splitter: key plumbing and what the k-space loss sees -/

/-- provenance of a sample entry (symbolic): which tensor a key holds -/
inductive Prov where
  | fullK | maskedK | mask | acs | other
  | splitMask (input : Bool)            -- input (`true`) / target (`false`) sampling mask
  | restr (input : Bool) (k : Prov)     -- `apply_mask(k, input/target mask)`
  | flag (b : Bool)
  | image (k : Prov)                    -- `ComputeImage` of a k-space
deriving DecidableEq, Repr

abbrev Sample := List (String × Prov)
def sget (s : Sample) (k : String) : Option Prov := s.lookup k
def sdel (s : Sample) (k : String) : Sample := s.filter (fun e => e.1 != k)
/-- `sample[k] = v` -/
def sset (s : Sample) (k : String) (v : Prov) : Sample := (k, v) :: sdel s k

/-- the dictionary effect of the transforms at the tail of `build_mri_transforms` -/
inductive KeyOp where
  | addFlag (key : String) (v : Bool)                                   -- AddBooleanKeysModule
  | split (kspaceKey : String) (keep : Bool) (inPrefix tgPrefix maskKey acsKey : String)  -- MaskSplitter.forward
  | delete (keys : List String)                                         -- DeleteKeys
  | rename (olds news : List String)                                    -- RenameKeys
  | computeImage (kspaceKey targetKey : String)                         -- ComputeImage
deriving DecidableEq, Repr

def applyOp : KeyOp → Sample → Option Sample
  | .addFlag k v, s => some (sset s k (.flag v))
  | .split kk keep ip tp mk ak, s =>
    match sget s mk, sget s kk with
    | some .mask, some kv =>
      if keep && (sget s ak).isNone then none else
      some (sset (sset (sset (sset s (ip ++ kk) (.restr true kv)) (tp ++ kk) (.restr false kv))
        (ip ++ mk) (.splitMask true)) (tp ++ mk) (.splitMask false))
    | _, _ => none
  | .delete ks, s => some (ks.foldl sdel s)
  | .rename os ns, s =>
    some ((os.zip ns).foldl (fun s on => match sget s on.1 with
      | some v => sset (sdel s on.1) on.2 v
      | none => s) s)
  | .computeImage kk tk, s =>
    match sget s kk with
    | some v => some (sset s tk (.image v))
    | none => none

def runOps : List KeyOp → Sample → Option Sample
  | [], s => some s
  | op :: ops, s => match applyOp op s with
    | some s' => runOps ops s'
    | none => none

/-- keys the SSL engines read in `_do_iteration` / `compute_loss_on_data` -/
structure EngineReads where
  trainK : String
  trainMask : String
  evalK : String
  evalMask : String
  project : String        -- mask the prediction is projected on before the loss (training)
  lossK : String          -- reference of the k-space losses
  lossImage : String      -- reference of the image losses
deriving DecidableEq, Repr

/-- what `build_supervised_mri_transforms(delete_kspace=False, delete_acs_mask=False)` leaves in a sample -/
def preTail : Sample :=
  [("kspace", .fullK), ("masked_kspace", .maskedK), ("sampling_mask", .mask), ("acs_mask", .acs),
   ("sensitivity_map", .other), ("target", .image .fullK), ("scaling_factor", .other), ("filename", .other),
   ("slice_no", .other)]

/-- the plumbing is right: after the tail the engine's training input is the masked k-space restricted to the
input mask (with that mask), the prediction is projected on the target mask, the k-space loss is taken
against the masked k-space restricted to the target mask and the image loss against its reconstruction;
samples are flagged `is_ssl`; nothing fully sampled is left under the keys the engine reads. -/
def plumbingOk (tail : List KeyOp) (r : EngineReads) : Bool :=
  match runOps tail preTail with
  | none => false
  | some s =>
    sget s r.trainK == some (.restr true .maskedK) && sget s r.trainMask == some (.splitMask true) &&
    sget s r.project == some (.splitMask false) && sget s r.lossK == some (.restr false .maskedK) &&
    sget s r.lossImage == some (.image (.restr false .maskedK)) && sget s "is_ssl" == some (.flag true) &&
    !(s.any fun e => e.2 == .fullK || e.2 == .image .fullK)

/-- the tensors behind the symbols -/
structure Env where
  cells : Nat
  full : List Int
  masked : List Int
  input : Grid
  target : Grid

def denoteK (e : Env) : Prov → Option (List Int)
  | .fullK => some e.full
  | .maskedK => some e.masked
  | .restr b k => (denoteK e k).map (applyMaskK e.cells (if b then e.input else e.target))
  | _ => none

/-- `SSLMRIModelEngine._do_iteration` (training), k-space path: predict only on unmeasured locations
(`apply_mask(pred, ~input_mask)`), add the input k-space (data consistency), project on the target mask -/
def sslOutput (cells : Nat) (i t : Grid) (inK pred : List Int) : List Int :=
  applyMaskK cells t (List.zipWith (fun a b => a + b) inK (applyMaskK cells (gNot i) pred))

/-! ## shapes of the split masks through batch collation -/

/-- shape of a split mask as `forward` returns it for a per-sample sampling mask of shape `ms`
(`mask.reshape(sampling_mask[_].shape)`) -/
def splitMaskShape (ms : List Nat) : List Nat := ms
/-- before the repair: the squeezed 2-D mask with a leading and a trailing unit axis (`mask[None, ..., None]`) —
the slice axis of 3-D data is lost -/
def splitMaskShapePinned (ms : List Nat) : List Nat := 1 :: (ms.filter (· != 1)) ++ [1]
/-- right-aligned broadcasting of a mask shape against a k-space shape (torch semantics) -/
def broadcastsTo (m k : List Nat) : Bool :=
  decide (m.length ≤ k.length) && (List.zip m.reverse k.reverse).all fun ab => ab.1 == 1 || ab.1 == ab.2
/-- the batch axis of the collated mask meets the batch axis of the collated k-space -/
def batchAligned (m k : List Nat) : Bool := m.length == k.length

end DirectVerif.SslSplit
