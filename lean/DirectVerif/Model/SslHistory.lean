import DirectVerif.Model.SslSplit
/-!
# C11 — a splitter object over a *history* of calls, and the per-sample seed across interpreter processes

`MaskSplitter.forward` is called again and again on one object (one transform object per dataset, every epoch,
every validation round).  The property asks that the split of a sample be a function of (file name, slice,
mask) only, so nothing the object was asked before may enter.  The code as it is keeps nothing between calls
(`Bridge/C11.lean`: `state_writes_ok` — every write to `self` / a class / a module global is in an `__init__`),
which is the `memo = none` case below.  The general case — a bounded LRU memo of split results keyed by *part*
of the sample — is modelled too, because that is the shape realistic "speed-ups" of `forward` take: the theorems
say exactly when such a memo is invisible (the key determines the result) and exhibit the stale answer otherwise.

The per-sample seed is derived from the *characters* of `str(filename) + str(slice_no)`; a derivation that also
reads something private to the interpreter process (Python's salted `hash`, `id`, the pid, a clock) makes the
split differ between a run and its resumption, between data-loader workers, between training and inference.
-/
namespace DirectVerif.SslSplit

/-! ## call histories -/

/-- one call of a `forward` that memoises its results per `key x` in an insertion-ordered dictionary bounded by
`cap` entries (`OrderedDict`: hit → `move_to_end`, miss → compute, store, `popitem(last=False)` above `cap`);
`key = none` — no memo: the code as it is. -/
def memoStep {ι κ ο : Type} [BEq κ] (key : Option (ι → κ)) (cap : Nat) (f : ι → ο)
    (c : List (κ × ο)) (x : ι) : List (κ × ο) × ο :=
  match key with
  | none => (c, f x)
  | some kf =>
    match c.lookup (kf x) with
    | some v => (c.filter (fun e => !(e.1 == kf x)) ++ [(kf x, v)], v)
    | none =>
      let c' := c ++ [(kf x, f x)]
      (if c'.length > cap then c'.drop 1 else c', f x)

/-- the outputs of a whole history of calls on one object, starting from cache `c` -/
def runHist {ι κ ο : Type} [BEq κ] (key : Option (ι → κ)) (cap : Nat) (f : ι → ο) :
    List (κ × ο) → List ι → List ο
  | _, [] => []
  | c, x :: xs => (memoStep key cap f c x).2 :: runHist key cap f (memoStep key cap f c x).1 xs

/-- what a sample of `forward` consists of, as far as a split can depend on it -/
structure SampleIn where
  filename : List Nat
  slice : List Nat
  mask : Grid
  acs : Grid
deriving DecidableEq, Repr

/-- the parts of a sample a memo key may be built from -/
inductive KeyPart where
  | filename | slice | mask | acs
deriving DecidableEq, Repr

def partOf (x : SampleIn) : KeyPart → List Nat
  | .filename => x.filename
  | .slice => x.slice
  | .mask => x.mask.map (fun b => if b then 1 else 0)
  | .acs => x.acs.map (fun b => if b then 1 else 0)

def keyOf (parts : List KeyPart) (x : SampleIn) : List (List Nat) := parts.map (partOf x)

/-! ## where a function writes (translated table) -/

/-- one write to state that outlives the call: `func` (qualified name), `method` (its last component), `scope` (`self` / `class` / `global` /
`decorator`), `target` (attribute or name), `how` (`assign`, `augassign`, `subscript`, `del`, `call:<method>`,
`setattr`, `global`, `cache`) -/
structure StateWrite where
  func : String
  method : String
  scope : String
  target : String
  how : String
deriving DecidableEq, Repr

/-- **no state is kept between calls**: every write to an object attribute, a class attribute or a module global
happens in a constructor, by plain assignment to `self.<attr>` -/
def stateWritesOk (t : List StateWrite) : Bool :=
  t.all fun w => w.method == "__init__" && w.func != w.method && w.scope == "self" && w.how == "assign"

/-- the memo a table admits: none when it passes `stateWritesOk` (otherwise nothing is claimed — `some []`, the
coarsest key, stands for "some state of unknown shape") -/
def memoOfTable (t : List StateWrite) : Option (List KeyPart) := if stateWritesOk t then none else some []

/-- **no exit that skips steps** on `forward`'s path.  A row is (function, number of `return`s after which statements
that do something would still follow, every path ends in an explicit `return`/`raise`).  Returns of a constant and
`if c: return a` / `return b` decision trees (a conditional expression in statement form, in whatever helper) do not
count; `uniform_fill`'s modelled early return (nothing to draw) is the one admitted exception. -/
def exitsOk (t : List (String × Nat × Bool)) : Bool :=
  t.all fun r => (r.2.1 == 0 && r.2.2) || (r.1 == "fill:uniform_fill" && r.2.1 == 1 && r.2.2)

/-- every method `forward` can reach is in the scanned set (so the table speaks about all of them) -/
def reachCovered (scanned reach : List String) : Bool := reach.all scanned.contains

/-! ## the per-sample seed across interpreter processes -/

/-- callables a seed derivation may use and still be the same function of the characters of file name and slice
in every interpreter process -/
def processFreeCalls : List String :=
  ["tuple", "list", "map", "ord", "str", "int", "sum", "len", "min", "max", "abs", "zip", "enumerate", "sorted",
   "reversed", "np.mean", "np.sum", "numpy.mean", "numpy.sum", "bytes", "str.encode", "int.from_bytes",
   "zlib.crc32", "zlib.adler32", "binascii.crc32", "hashlib.sha256", "hashlib.md5", "hashlib.sha1"]

/-- the derivation calls nothing else (in particular not the salted builtin `hash`, `id`, `os.getpid`, `time.*`,
`random.*`, `uuid.*`) -/
def seedCallsOk (calls : List String) : Bool := calls.all processFreeCalls.contains

/-- an interpreter process, as far as a seed derivation could read it -/
structure Proc where
  salt : Nat

/-- a seed derivation: process, code points of `str(filename)`, of `str(slice_no)` ↦ seed tuple -/
abbrev SeedFn := Proc → List Nat → List Nat → List Nat

/-- the derivation of the code as it is -/
def seedOfCode : SeedFn := fun _ filename slice => seedTuple filename slice

/-- a derivation through Python's salted string hash (what `hash((str(filename), int(slice_no)))` amounts to) -/
def seedSalted : SeedFn := fun p filename slice => [(p.salt + (filename ++ slice).sum) % 2147483647]

/-- one seeded sample of `GaussianMaskSplitterModule.forward` in process `p` with seed derivation `d` -/
def forwardGaussianIn (d : SeedFn) (p : Proc) (src : Sources) (cfg : Cfg) (fuel nrow ncol : Nat)
    (filename slice : List Nat) (mask acs : Grid) (k : List Int) : Option SplitOut :=
  let t := d p filename slice
  let mask' := reducedMask cfg.keep mask acs
  let c := cfg.request (cnt mask') (src.ratioIdx t cfg.nRatios)
  (gaussianSplit cfg.keep cfg.a0 cfg.a1 nrow ncol mask acs c (src.candidates (gaussianSeed t) nrow ncol fuel)).map
    (splitOut (nrow * ncol) k)

def forwardUniformIn (d : SeedFn) (p : Proc) (src : Sources) (cfg : Cfg) (nrow ncol : Nat)
    (filename slice : List Nat) (mask acs : Grid) (k : List Int) : Except UErr SplitOut :=
  let t := d p filename slice
  let temp := freeMask cfg.keep cfg.a0 cfg.a1 nrow ncol mask acs
  let count := (cfg.request (cnt temp) (src.ratioIdx t cfg.nRatios)).toNat
  (uniformSplit cfg.keep cfg.a0 cfg.a1 nrow ncol mask acs count (src.choice t count temp)).map
    (splitOut (nrow * ncol) k)

/-! ## which sample keys an SSL / JSSL engine hands to its network -/

/-- does the engine train on the split input (`input_kspace`, `input_sampling_mask`)?  An SSL engine whenever it
trains, a joint (JSSL) engine only on samples flagged `is_ssl`; outside training always the un-split keys. -/
def engineUsesSplit (joint train isSsl : Bool) : Bool := train && (!joint || isSsl)

/-- one place in `direct/nn` that reads the split keys: a `_do_iteration` (computes the loss itself) or a
`forward_function` -/
structure EngineSite where
  name : String
  iteration : Bool
  joint : Bool
  /-- condition under which the split keys are read: `train` / `ssl&train` -/
  cond : String
  trainK : String
  trainMask : String
  evalK : String
  evalMask : String
  /-- mask the prediction is projected on before the k-space loss (`_do_iteration` sites) -/
  project : String
deriving DecidableEq, Repr

def engineSiteOk (s : EngineSite) : Bool :=
  s.cond == (if s.joint then "ssl&train" else "train") && s.trainK == "input_kspace" && s.evalK == "masked_kspace" &&
  ((s.trainMask == "input_sampling_mask" && s.evalMask == "sampling_mask") ||
    (!s.iteration && s.trainMask == "" && s.evalMask == "")) &&
  s.project == (if s.iteration then "target_sampling_mask" else "")

/-! ## enum-valued options (`HalfSplitType`, `MaskSplitterType`) handed over as members or as strings -/

/-- `DirectEnum` is a `str`-enum whose `__eq__` accepts plain strings of any case; `__hash__` is the hash of the
lower-cased value.  So an option may arrive as the member or as a lower / UPPER / MiXeD-case string. -/
inductive OptForm where
  | member | lower | upper | mixed
deriving DecidableEq, Repr

/-- how a piece of code tests an enum-valued value against a member -/
inductive CmpOp where
  | eq        -- `==`, `!=`, `in [..]` / `in (..)`, `match` value patterns: all go through `__eq__`
  | is_       -- identity: only the member itself
  | hashed    -- `in {..}` / dict lookup: `hash` first — a string hashes like the member only when it is lower-case
deriving DecidableEq, Repr

/-- does a value of that form pass the test against the member it denotes? -/
def cmpHolds : CmpOp → OptForm → Bool
  | .eq, _ => true
  | .is_, f => f == .member
  | .hashed, f => f == .member || f == .lower

/-- the branch a dispatch on the direction selects: the denoted one when the test recognises the value, none otherwise
(the code then falls through: empty masks for horizontal / vertical, the other diagonal for `diagonal_right`) -/
def resolveDir (op : CmpOp) (f : OptForm) (d : Dir) : Option Dir := if cmpHolds op f then some d else none

/-- classification of the operator texts the translator records -/
def cmpOfText (s : String) : Option CmpOp :=
  if ["==", "!=", "in-list", "in-tuple", "not-in-list", "not-in-tuple", "match"].contains s then some .eq
  else if ["is", "is-not"].contains s then some .is_
  else if ["in-set", "not-in-set", "in-dict", "dict-key"].contains s then some .hashed
  else none

/-- every comparison of an enum-valued value goes through `__eq__` -/
def enumComparesOk (t : List (String × String × String)) : Bool := t.all fun r => cmpOfText r.2.2 == some .eq

/-! ## constructor: admissible ratios -/

/-- `0 < r < 1` for the ratio `r = p / q`, `q > 0` -/
def ratioValid (p q : Int) : Bool := decide (0 < p) && decide (p < q)

end DirectVerif.SslSplit
