import DirectVerif.Model.MaskBudget
/-!
# C07 — what a process may carry from one generator call to the next

The budget theorems are about one call.  They apply to every call of a call history only if nothing the call
reads was written by an earlier call: no memoising decorator, no mutable default argument, no module-level
container, and — because the Cython kernels `gaussian_mask_1d/2d` and `_poisson` write **in place** — the array handed
to a kernel must be bound, in the same call, to a freshly allocated object (an allocation, a copy, or the result of a
module function that is not memoised and returns a fresh array).  These facts are extracted from the source as tables
(`Gen.C07.moduleCaches`, `mutableDefaults`, `moduleState`, `kernelArrays`) and decided by the predicates below.

`gaussCall` is a Gaussian call inside a process with a memoised centre disc: `shared = true` hands the memoised object
itself to the kernel (its writes go through to the memo — what an `lru_cache` around `centered_disk_mask` without a copy
does), `shared = false` is the code as it is.
-/
namespace DirectVerif.MaskBudget

/-- no memo, no mutable default, no module-level container -/
def noProcessState (caches : List (String × String)) (defaults : List (String × String × String))
    (state : List (String × String)) : Bool :=
  caches.isEmpty && defaults.isEmpty && state.isEmpty

/-- ways of binding a local that yield a new array (or keep it the same new array) -/
def freshKinds : List String := ["alloc", "copy", "fresh-call", "view"]

/-- the (function, kernel) pairs the table must cover — by at least one call each, however many call sites the
function spells them with (one per mode branch, or one loop over per-frame views) -/
def kernelSites : List String :=
  ["VariableDensityPoissonMaskFunc.poisson:_poisson",
   "Gaussian1DMaskFunc.mask_func:gaussian_mask_1d",
   "Gaussian2DMaskFunc.mask_func:gaussian_mask_2d"]

/-- every (function, kernel) pair is listed, the array is (a view of) a local, every assignment that precedes the call binds it to a fresh
object (or to a view of itself), and at least one of them really creates it -/
def kernelArraysOk (tbl : List (String × String × List String)) : Bool :=
  kernelSites.all (fun s => tbl.any fun r => r.1 == s) &&
  tbl.all fun r => r.2.2.all (fun k => freshKinds.contains k) && r.2.2.any (fun k => k != "view")

/-- does a table row hand a shared (not freshly bound) object to the kernel -/
def rowShared (r : String × String × List String) : Bool :=
  !(r.2.2.all (fun k => freshKinds.contains k) && r.2.2.any (fun k => k != "view"))

/-- process state relevant to the 2-D / 1-D Gaussian generators: a memoised centre region -/
structure Proc where
  memo : Option (List Bool)
deriving Repr, DecidableEq

/-- one static Gaussian call in a process; `disc` is the centre region of the request, `x` the target `N / R` -/
def gaussCall (shared : Bool) (disc : List Bool) (x : Rat) (cands : List Int) (p : Proc) : Option (List Bool) × Proc :=
  let start := if shared then p.memo.getD disc else disc
  match gaussLoop (gaussianRequest x (countTrue start)) cands 0 start with
  | none => (none, if shared then ⟨some start⟩ else p)
  | some m => (some m, if shared then ⟨some m⟩ else p)

/-- a history of calls with the same centre region -/
def runCalls (shared : Bool) (disc : List Bool) : List (Rat × List Int) → Proc → List (Option (List Bool))
  | [], _ => []
  | (x, cands) :: rest, p =>
    let r := gaussCall shared disc x cands p
    r.1 :: runCalls shared disc rest r.2

end DirectVerif.MaskBudget
