import DirectVerif.Model.Basic
/-!
# C10 — centre crop, bounding-box crop, zero padding (models of `direct/data/transforms.py`,
`direct/data/bbox.py`)

1-D list models that mirror the slicing the code performs on one axis; the n-D operations are the
per-axis application (`Tensor.alongAxis`).  Integer formulas are over `Int` with Python semantics so
that they can be compared literally with the translated definitions in `Gen/C10.lean`.
-/
namespace DirectVerif.Crop

/-- `center_crop`: `width_lower = (data.shape[-2] - shape[-2]) // 2`. -/
def centerCropLower (n s : Int) : Int := (n - s) / 2
/-- `center_crop`'s guard `0 < shape <= data.shape`. -/
def centerCropOk (n s : Int) : Bool := 0 < s && s ≤ n

/-- the window the code slices: `data[lower : lower + s]` -/
def centerCrop {α} (s : Nat) (xs : List α) : List α :=
  slice xs (centerCropLower xs.length s).toNat ((centerCropLower xs.length s).toNat + s)

/-- `crop_to_bbox` on one axis: `coord` may be negative, the window may exceed the axis or miss it
entirely. The code computes `l_offset = max(-coord, 0)`, `r_offset = max(coord + size - n, 0)`, copies
the region `data[i : max(i, j)]` with `i = coord + l_offset`, `j = coord + size - r_offset` into
`patch[l_offset : max(l_offset, size - r_offset)]` of a `size`-long patch filled with `fill`
(the `max` keeps both slices empty — instead of wrapping around — when the box misses the axis). -/
def bboxLOff (coord : Int) : Int := if -coord < 0 then 0 else -coord
def bboxROff (n coord size : Int) : Int := if coord + size - n < 0 then 0 else coord + size - n

inductive BBoxResult (α : Type) where
  | ok : List α → BBoxResult α
  | shapeError : BBoxResult α      -- torch raises when the region does not fit the patch slice
deriving Repr, DecidableEq

/-- region the code reads -/
def bboxRegion {α} (xs : List α) (coord size : Int) : List α :=
  let n : Int := xs.length
  let i := coord + bboxLOff coord
  let j := coord + size - bboxROff n coord size
  pySlice xs i (max i j)

/-- one-axis model of `crop_to_bbox` as coded (for a 1-D tensor) -/
def cropToBbox {α} (fill : α) (xs : List α) (coord size : Int) : BBoxResult α :=
  let n : Int := xs.length
  let l := bboxLOff coord
  let r := bboxROff n coord size
  let region := bboxRegion xs coord size
  if l = 0 ∧ r = 0 then .ok region
  else
    -- patch[l : max(l, size - r)] = region   (Python slice on a list of length `size`)
    let sz := size.toNat
    let lo := (min l size).toNat                    -- l ≥ 0
    let hi := (min (max l (size - r)) size).toNat
    let width := hi - lo
    if width = region.length then
      .ok (List.replicate lo fill ++ region ++ List.replicate (sz - lo - width) fill)
    else if region.length = 1 then                  -- broadcasting of a length-1 region
      .ok (List.replicate lo fill ++ List.replicate width (region.headD fill) ++ List.replicate (sz - lo - width) fill)
    else .shapeError

/-- the specification: element `i` of the window is `x[coord + i]` when addressed in range, else
`fill`. -/
def bboxSpec {α} (fill : α) (xs : List α) (coord : Int) (size : Nat) : List α :=
  (List.range size).map fun (i : Nat) =>
    let j : Int := coord + (i : Int)
    if 0 ≤ j ∧ j < xs.length then xs.getD j.toNat fill else fill

/-- `pad_tensor`, per axis: `diff = target - input; before = max(0, diff // 2);
after = max(0, diff - before)`. -/
def padBefore (target input : Int) : Int := max 0 ((target - input) / 2)
def padAfter (target input : Int) : Int := max 0 ((target - input) - padBefore target input)

/-- The flat pad list the code hands to `F.pad` for axes listed first-to-last:
it `extend`s `[first, second]` per axis and then reverses the whole list.  `F.pad` reads the list as
`(left_last, right_last, left_prev, right_prev, …)`.  `swap = false` is the repaired code
(`extend([pad_after, pad_before])`), `swap = true` the pinned tree (`extend([pad_before, pad_after])`)
which after reversal hands `(after, before)` as `(left, right)`. -/
def padPairs (swap : Bool) (dims : List (Int × Int)) : List Int :=
  (dims.flatMap fun (t, i) =>
    if swap then [padBefore t i, padAfter t i] else [padAfter t i, padBefore t i]).reverse

/-- `F.pad(x, [l, r], value=fill)` on one axis (non-negative amounts). -/
def fPad {α} (fill : α) (l r : Nat) (xs : List α) : List α :=
  List.replicate l fill ++ xs ++ List.replicate r fill

/-- `(left, right)` that `F.pad` applies to the `k`-th axis counted from the last one. -/
def padOfAxisFromLast (pad : List Int) (k : Nat) : Int × Int :=
  (pad.getD (2 * k) 0, pad.getD (2 * k + 1) 0)

/-- one-axis view of the repaired `pad_tensor` followed by nothing else -/
def padTo {α} (fill : α) (target : Nat) (xs : List α) : List α :=
  fPad fill (padBefore target xs.length).toNat (padAfter target xs.length).toNat xs

/-- one-axis view of the pinned (pre-repair) `pad_tensor`: before/after swapped -/
def padToSwapped {α} (fill : α) (target : Nat) (xs : List α) : List α :=
  fPad fill (padAfter target xs.length).toNat (padBefore target xs.length).toNat xs

/-- `crop_to_largest` (`direct/data/bbox.py`), one axis: every item is cropped to the bounding box
`crop_start = -((max_shape - shape) // 2)` (repaired in 40ede8a: `floor((max - n) / 2)` fill values before the data, the
convention of `center_crop` / `pad_tensor`), `size = max_shape`; the out-of-range part is filled with `pad_value`. -/
def cropToLargestStart (mx n : Int) : Int := -((mx - n) / 2)
/-- the pinned tree: `-(max_shape - shape) // 2` — unary minus binds tighter than `//`, i.e. `-ceil((max - n) / 2)` -/
def cropToLargestStartPinned (mx n : Int) : Int := (-(mx - n)) / 2
def cropToLargest1 {α} (fill : α) (mx : Nat) (xs : List α) : BBoxResult α :=
  cropToBbox fill xs (cropToLargestStart mx xs.length) mx
def cropToLargest1Pinned {α} (fill : α) (mx : Nat) (xs : List α) : BBoxResult α :=
  cropToBbox fill xs (cropToLargestStartPinned mx xs.length) mx

/-- dtype of the patch `crop_to_bbox` allocates when the box leaves the data.  `full` = `torch.full(size, pad_value,
dtype=data.dtype)` (repaired in 7c09337), `scaledOnes` = `pad_value * torch.ones(size, dtype=data.dtype)` (pinned tree:
the product of a Python int and a bool tensor is promoted to int64), `noDtype` = allocation without `dtype=` (default
float32 / float64; seeded C10-2). -/
inductive PatchAlloc | full | scaledOnes | noDtype
deriving DecidableEq, Repr
inductive ElemType | bool | int | float | complex
deriving DecidableEq, Repr
def patchDtype (a : PatchAlloc) (d : ElemType) : ElemType :=
  match a with
  | .full => d
  | .scaledOnes => if d = .bool then .int else d
  | .noDtype => .float
def PatchAlloc.ofString : String → Option PatchAlloc
  | "full" => some .full | "scaledOnes" => some .scaledOnes | "noDtype" => some .noDtype | _ => none

/-- `complex_center_crop`: bbox start for one cropped axis and the validity test
(`all(_ >= 0 for _ in bbox[:ndim])`). -/
def cccStart (n s : Int) : Int := (n - s) / 2

end DirectVerif.Crop

namespace DirectVerif.Crop

/-! ### `PadKspace` / `CropKspace`: the k-space transform is a plan of operator applications

The call sequence applied to `sample["kspace"]` is extracted from the source on every run
(`Gen.C10.padKspacePlan`, `Gen.C10.cropKspacePlan`) and must equal these. -/
inductive KOp where
  | backward | viewComplex | pad | viewReal | forward | crop
deriving Repr, DecidableEq

def KOp.ofString : String → Option KOp
  | "backward_operator" => some .backward
  | "view_as_complex" => some .viewComplex
  | "pad_tensor" => some .pad
  | "view_as_real" => some .viewReal
  | "forward_operator" => some .forward
  | "crop_func" => some .crop
  | _ => none

def padKspacePlan : List KOp := [.backward, .viewComplex, .pad, .viewReal, .forward]
def cropKspacePlan : List KOp := [.backward, .crop, .forward]

/-- the operators a plan is run with; `α` stands for tensors of any shape (k-space and image alike) -/
structure KOps (α : Type) where
  fwd : α → α
  bwd : α → α
  vc : α → α
  vr : α → α
  pad : α → α
  crop : α → α

def KOp.run {α} (o : KOps α) : KOp → α → α
  | .backward => o.bwd
  | .viewComplex => o.vc
  | .pad => o.pad
  | .viewReal => o.vr
  | .forward => o.fwd
  | .crop => o.crop

def runPlan {α} (o : KOps α) (plan : List KOp) (x : α) : α := plan.foldl (fun acc op => op.run o acc) x

end DirectVerif.Crop
