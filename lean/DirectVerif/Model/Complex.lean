import DirectVerif.Model.Basic
/-!
# C02 — real-pair complex helpers and coil expand / reduce (models of `direct/data/transforms.py`)

Scalars are a parameter `R` carrying only the core operation classes (`+ - * / -x 0`), so the same
definitions run over `Rat` (exact execution for the correspondence check on integer-valued float32
tensors) and are reasoned about over Mathlib's `ℝ` / `ℂ` in `Props/C02.lean`.

* scalar level: `cmul`, `conj`, `cdivNum` / `cdivDen` / `safeDiv` / `cdiv`, `modSq`;
* fibre (list) level: `cdot`, `rssSq`, `expandFibre`, `reduceFibre` — what happens along the coil axis
  at one pixel;
* matrix level: `cmmWith mm` — the four real products of `_complex_matrix_multiplication`;
* tensor level (flat row-major, torch broadcasting): `cmulT`, `conjT`, `sumAxis`, `unsqueeze`,
  `expandOp`, `reduceOp`, `cdotT`, `rssSqT`, with the coil axis as a parameter.
-/
namespace DirectVerif.Cx
open DirectVerif

/-- a complex number as the pair stored on the last tensor axis -/
structure Cpx (R : Type) where
  re : R
  im : R
deriving Repr, DecidableEq, Inhabited

section Scalar
variable {R : Type} [Add R] [Sub R] [Mul R] [Neg R] [Zero R]

instance : Add (Cpx R) := ⟨fun a b => ⟨a.re + b.re, a.im + b.im⟩⟩
instance : Zero (Cpx R) := ⟨⟨0, 0⟩⟩

/-- `complex_multiplication`: `re = a₀b₀ - a₁b₁`, `im = a₀b₁ + a₁b₀` -/
def cmul (a b : Cpx R) : Cpx R := ⟨a.re * b.re - a.im * b.im, a.re * b.im + a.im * b.re⟩

/-- `conjugate`: `data[..., 1] = data[..., 1] * -1.0` -/
def conj (a : Cpx R) : Cpx R := ⟨a.re, -a.im⟩

/-- `(data ** 2).sum(complex_axis)` — the squared modulus (`modulus` is its square root) -/
def modSq (a : Cpx R) : R := a.re * a.re + a.im * a.im

/-- numerators of `complex_division`: `a₀b₀ + a₁b₁`, `a₁b₀ - a₀b₁` -/
def cdivNum (a b : Cpx R) : Cpx R := ⟨a.re * b.re + a.im * b.im, a.im * b.re - a.re * b.im⟩
/-- `denominator = b₀² + b₁²` -/
def cdivDen (b : Cpx R) : R := b.re * b.re + b.im * b.im

/-- `safe_divide`: `torch.where(other == 0, 0, input / other)` -/
def safeDiv [Div R] [DecidableEq R] (a b : R) : R := if b = 0 then 0 else a / b

/-- `complex_division` -/
def cdiv [Div R] [DecidableEq R] (a b : Cpx R) : Cpx R :=
  ⟨safeDiv (cdivNum a b).re (cdivDen b), safeDiv (cdivNum a b).im (cdivDen b)⟩

/-! ### one fibre along the coil axis / the suppressed axes -/

/-- `complex_dot_product` on the flattened suppressed axes: `Σ conj(aᵢ) bᵢ` -/
def cdot (a b : List (Cpx R)) : Cpx R := (List.zipWith (fun x y => cmul (conj x) y) a b).sum

/-- square of `root_sum_of_squares` along the coil axis at one pixel -/
def rssSq (xs : List (Cpx R)) : R := (xs.map modSq).sum

/-- `expand_operator` at one pixel: `(S₁x, …, S_c x)` -/
def expandFibre (s : List (Cpx R)) (x : Cpx R) : List (Cpx R) := s.map fun si => cmul si x

/-- `reduce_operator` at one pixel: `Σᵢ conj(Sᵢ) yᵢ` -/
def reduceFibre (s y : List (Cpx R)) : Cpx R := (List.zipWith (fun si yi => cmul (conj si) yi) s y).sum

/-! ### matrices -/

/-- `_complex_matrix_multiplication` from four real products `mm` (`torch.mm` / `torch.bmm`):
`(mm(Ar,Br) - mm(Ai,Bi)) + i (mm(Ar,Bi) + mm(Ai,Br))` -/
def cmmWith {M N P : Type} [Add P] [Sub P] (mm : M → N → P) (Ar Ai : M) (Br Bi : N) : P × P :=
  (mm Ar Br - mm Ai Bi, mm Ar Bi + mm Ai Br)

end Scalar

/-! ### the real layout `(…, 2)` ↔ complex entries (`view_as_complex` / `view_as_real` / `tensor_to_complex_numpy`) -/
section Views
variable {R : Type}

/-- consecutive `(re, im)` pairs of the flat data of a `(…, 2)` tensor -/
def pairs : List R → List (Cpx R)
  | a :: b :: rest => ⟨a, b⟩ :: pairs rest
  | _ => []

def unpairs (zs : List (Cpx R)) : List R := zs.flatMap fun z => [z.re, z.im]

/-- `view_as_complex`: defined only when the last axis has length 2 -/
def viewAsComplex (t : Tensor R) : Option (Tensor (Cpx R)) :=
  if t.shape.getLast? = some 2 then some ⟨t.shape.dropLast, pairs t.data⟩ else none

/-- `view_as_real` -/
def viewAsReal (t : Tensor (Cpx R)) : Tensor R := ⟨t.shape ++ [2], unpairs t.data⟩

end Views

/-! ### tensors (flat row-major; torch broadcasting) -/
section TensorOps

/-- marker for "shapes do not broadcast" (ill-formed on purpose: `prod [] = 1 ≠ 0`) -/
def badT {α} : Tensor α := ⟨[], []⟩

/-- torch broadcasting of two shapes (right-aligned) -/
def bcastShape (a b : List Nat) : Option (List Nat) :=
  let n := max a.length b.length
  let a' := List.replicate (n - a.length) 1 ++ a
  let b' := List.replicate (n - b.length) 1 ++ b
  (List.zip a' b').mapM fun (x, y) => if x = y then some x else if x = 1 then some y else if y = 1 then some x else none

/-- row-major multi-index of flat position `k` -/
def unflatten (shape : List Nat) (k : Nat) : List Nat :=
  (shape.foldr (fun n (acc : List Nat × Nat) => ((acc.2 % n) :: acc.1, acc.2 / n)) ([], k)).1

/-- flat offset in a tensor of `shape` of the element that broadcasts to output index `idx` -/
def bcastOffset (shape idx : List Nat) : Nat :=
  let idx' := idx.drop (idx.length - shape.length)
  Tensor.offset shape (List.zipWith (fun n i => if n = 1 then 0 else i) shape idx')

def zipBcast {α β γ} [Inhabited α] [Inhabited β] (f : α → β → γ) (a : Tensor α) (b : Tensor β) : Tensor γ :=
  match bcastShape a.shape b.shape with
  | none => badT
  | some s =>
    let aa := a.data.toArray
    let bb := b.data.toArray
    ⟨s, (List.range (prod s)).map fun k =>
      let idx := unflatten s k
      f aa[bcastOffset a.shape idx]! bb[bcastOffset b.shape idx]!⟩

def mapT {α β} (f : α → β) (t : Tensor α) : Tensor β := ⟨t.shape, t.data.map f⟩

/-- Python axis normalisation for a tensor of rank `rank` -/
def normAxis (rank : Nat) (d : Int) : Nat := (if d < 0 then d + (rank : Int) else d).toNat

/-- `t.sum(d)` (no keepdim) -/
def sumAxis {α} [Add α] [Zero α] [Inhabited α] (t : Tensor α) (d : Int) : Tensor α :=
  let ax := normAxis t.shape.length d
  let r := t.alongAxis ax (fun fibre => [fibre.sum])
  ⟨r.shape.eraseIdx ax, r.data⟩

/-- insertion sort, descending (tiny lists of axes) -/
def sortDesc : List Nat → List Nat
  | [] => []
  | x :: xs => let r := sortDesc xs; (r.filter (· > x)) ++ [x] ++ (r.filter (· ≤ x))

/-- `t.sum(dims)` for a list of axes of the *original* tensor -/
def sumAxes {α} [Add α] [Zero α] [Inhabited α] (t : Tensor α) (ds : List Int) : Tensor α :=
  (sortDesc (ds.map (normAxis t.shape.length))).foldl (fun acc (ax : Nat) => sumAxis acc (Int.ofNat ax)) t

/-- `t.unsqueeze(d)` -/
def unsqueeze {α} (t : Tensor α) (d : Int) : Tensor α :=
  let ax := (if d < 0 then d + (t.shape.length : Int) + 1 else d).toNat
  ⟨t.shape.take ax ++ [1] ++ t.shape.drop ax, t.data⟩

variable {R : Type} [Add R] [Sub R] [Mul R] [Neg R] [Zero R] [Inhabited R]

def cmulT (a b : Tensor (Cpx R)) : Tensor (Cpx R) := zipBcast cmul a b
def conjT (a : Tensor (Cpx R)) : Tensor (Cpx R) := mapT conj a
def modSqT (a : Tensor (Cpx R)) : Tensor R := mapT modSq a
def cdivT [Div R] [DecidableEq R] (a b : Tensor (Cpx R)) : Tensor (Cpx R) := zipBcast cdiv a b

/-- `safe_divide(input, other)` on (broadcasting) real tensors -/
def safeDivT [Div R] [DecidableEq R] (a b : Tensor R) : Tensor R := zipBcast safeDiv a b

/-- `complex_dot_product(a, b, dim) = complex_multiplication(conjugate(a), b).sum(dim)` -/
def cdotT (a b : Tensor (Cpx R)) (dims : List Int) : Tensor (Cpx R) := sumAxes (cmulT (conjT a) b) dims

/-- `reduce_operator(coil_data, sensitivity_map, dim)
      = complex_multiplication(conjugate(sensitivity_map), coil_data).sum(dim)` -/
def reduceOp (coilData sens : Tensor (Cpx R)) (dim : Int) : Tensor (Cpx R) :=
  sumAxis (cmulT (conjT sens) coilData) dim

/-- `expand_operator(data, sensitivity_map, dim) = complex_multiplication(sensitivity_map, data.unsqueeze(dim))` -/
def expandOp (data sens : Tensor (Cpx R)) (dim : Int) : Tensor (Cpx R) :=
  cmulT sens (unsqueeze data dim)

/-- square of `root_sum_of_squares(data, dim)` on complex data: `(data**2).sum(complex_dim).sum(dim)` -/
def rssSqT (data : Tensor (Cpx R)) (dim : Int) : Tensor R := sumAxis (modSqT data) dim

/-- `modulus(data, complex_axis)` squared, on the real-layout tensor: `(data ** 2).sum(complex_axis)` -/
def modSqAxis (t : Tensor R) (complexAxis : Int) : Tensor R := sumAxis (mapT (fun x => x * x) t) complexAxis

/-- `root_sum_of_squares(data, dim, complex_dim)` squared, on the real-layout tensor, as coded:
data whose *last* axis has length 2 is taken to be complex -/
def rssSqReal (t : Tensor R) (dim complexDim : Int) : Tensor R :=
  if t.shape.getLast? = some 2 then sumAxis (sumAxis (mapT (fun x => x * x) t) complexDim) dim
  else sumAxis (mapT (fun x => x * x) t) dim

/-- `modulus_if_complex(data, complex_axis)` squared-or-unchanged: `(true, (data**2).sum(axis))` when that axis has
length 2 (`is_complex_data`), `(false, data)` otherwise -/
def modSqIfComplex (t : Tensor R) (complexAxis : Int) : Bool × Tensor R :=
  if t.shape.getD (normAxis t.shape.length complexAxis) 0 = 2 then (true, modSqAxis t complexAxis) else (false, t)

/-- real matrix product on row lists (what `torch.mm` computes): `A` is `n × m`, `B` is `m × p` (`p` explicit so that
`m = 0` gives the `n × p` zero matrix, as torch does) -/
def rmm (p : Nat) (A B : List (List R)) : List (List R) :=
  A.map fun row => (List.range p).map fun j => (List.zipWith (· * ·) row (B.map fun r => r.getD j 0)).sum

/-- entrywise sum / difference of row lists -/
def addM (A B : List (List R)) : List (List R) := List.zipWith (List.zipWith (· + ·)) A B
def subM (A B : List (List R)) : List (List R) := List.zipWith (List.zipWith (· - ·)) A B

instance : Add (List (List R)) := ⟨addM⟩
instance : Sub (List (List R)) := ⟨subM⟩

/-- `complex_mm` on row lists of pairs (`A` is `n × m`, `B` is `m × p`) -/
def cmm (p : Nat) (A B : List (List (Cpx R))) : List (List (Cpx R)) :=
  let parts := cmmWith (rmm p) (A.map (·.map Cpx.re)) (A.map (·.map Cpx.im)) (B.map (·.map Cpx.re)) (B.map (·.map Cpx.im))
  List.zipWith (List.zipWith fun r i => (⟨r, i⟩ : Cpx R)) parts.1 parts.2

end TensorOps

/-! ### call sites of the coil operators outside `direct/data/transforms.py` (structural table)

Every place under `direct/` that calls `reduce_operator` / `expand_operator` / `root_sum_of_squares`, or re-implements
them inline (`complex_multiplication(conjugate(S), y).sum(d)`, `complex_multiplication(S, x.unsqueeze(d))`,
`(S ** 2).sum(complex_dim).sum(coil_dim)`), is translated into a `CoilSite` row (`Gen.C02.coil_sites`).  A row is
well-formed when the axis argument is the class's coil-dimension attribute / a `coil_dim` parameter (or a literal equal
to the declared value), the conjugated operand of an inline reduce is the sensitivity map, and the unsqueezed operand
of an inline expand is the image. -/
section Sites

/-- how an axis argument is written at a call site -/
inductive DimForm where
  | attr (a : String)      -- `self.<a>`
  | name (n : String)      -- a local / parameter
  | lit (v : Int)          -- an integer literal
  | omitted                -- not given (the callee's default, 0)
  | other (src : String)   -- anything else
deriving Repr, DecidableEq

inductive SiteKind where
  | reduceCall | expandCall | rssCall      -- calls of the verified functions
  | inlineReduce                           -- complex_multiplication(conjugate(A), B) summed over an axis
  | inlineExpand                           -- complex_multiplication(A, B.unsqueeze(d)) (either order)
  | inlineRss                              -- (A ** 2).sum(cdim).sum(dim)
  | sensGrad                               -- complex_multiplication(A, conjugate(x).unsqueeze(d)): y · conj(x), not a coil combination
  | conjProduct                            -- complex_multiplication with one conjugated operand, not summed here
deriving Repr, DecidableEq

structure CoilSite where
  file : String
  func : String
  kind : SiteKind
  dim : DimForm                 -- the coil axis argument
  cdim : DimForm                -- inline rss: the complex axis argument
  declared : Option Int         -- literal value of the coil-dimension attribute declared by the enclosing class
  conjOperand : String          -- inline reduce: source text of the conjugated operand
  unsqOperand : String          -- inline expand: source text of the unsqueezed operand
  otherOperand : String         -- the remaining operand
deriving Repr, DecidableEq

def coilNames : List String := ["_coil_dim", "coil_dim"]
def complexNames : List String := ["_complex_dim", "complex_dim"]
def sensNames : List String := ["sensitivity_map", "sample['sensitivity_map']", "data['sensitivity_map']"]

/-- the axis argument names the coil axis -/
def DimForm.isCoil (d : DimForm) (declared : Option Int) : Bool :=
  match d with
  | .attr a => coilNames.contains a
  | .name n => coilNames.contains n
  | .lit v => declared == some v
  | .omitted => declared == some 0
  | .other _ => false

def DimForm.isComplex (d : DimForm) : Bool :=
  match d with
  | .attr a => complexNames.contains a
  | .name n => complexNames.contains n
  | .lit v => v == -1
  | _ => false

def CoilSite.wf (s : CoilSite) : Bool :=
  match s.kind with
  | .reduceCall | .expandCall | .rssCall | .sensGrad => s.dim.isCoil s.declared
  | .inlineReduce => s.dim.isCoil s.declared && sensNames.contains s.conjOperand && !sensNames.contains s.otherOperand
  | .inlineExpand => s.dim.isCoil s.declared && sensNames.contains s.otherOperand && !sensNames.contains s.unsqOperand
  | .inlineRss => s.dim.isCoil s.declared && s.cdim.isComplex
  | .conjProduct => true

/-- the axis a site operates on when the class's coil-dimension attribute / `coil_dim` parameter has the value `coil` -/
def CoilSite.axis (s : CoilSite) (coil : Int) : Int :=
  match s.dim with
  | .lit v => v
  | .omitted => 0
  | _ => coil

/-- what an inline site computes from the tensor bound to the sensitivity name (`S`) and the other operand (`o`) -/
def CoilSite.denote {R : Type} [Add R] [Sub R] [Mul R] [Neg R] [Zero R] [Inhabited R]
    (s : CoilSite) (S o : Tensor (Cpx R)) (coil : Int) : Option (Tensor (Cpx R)) :=
  let conjIsSens := sensNames.contains s.conjOperand
  let unsqIsSens := sensNames.contains s.unsqOperand
  match s.kind with
  | .inlineReduce =>
    some (sumAxis (if conjIsSens then cmulT (conjT S) o else cmulT (conjT o) S) (s.axis coil))
  | .inlineExpand =>
    some (if unsqIsSens then cmulT o (unsqueeze S (s.axis coil)) else cmulT S (unsqueeze o (s.axis coil)))
  | _ => none

/-- methods the oracle runs on the real classes; each must still contain a coil-operator site -/
def oracleMethods : List String :=
  ["CrossDomainNetwork._forward_operator", "CrossDomainNetwork._backward_operator", "IterDualNet._forward_operator",
   "IterDualNet._backward_operator", "JointICNet._forward_operator", "JointICNet._backward_operator",
   "LPDNet._forward_operator", "LPDNet._backward_operator", "MRIModelEngine._forward_operator",
   "MRIModelEngine._backward_operator", "RecurrentVarNet.compute_sense_init", "RIM.compute_sense_init",
   "Unet2d.compute_sense_init", "MRILogLikelihood.forward", "ComputeImageModule.forward"]

end Sites

end DirectVerif.Cx
