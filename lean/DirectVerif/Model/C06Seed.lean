import DirectVerif.Model.MaskGeom
import DirectVerif.Model.C06Round
/-!
# C06 — one mask-function OBJECT serving many requests: seeding, pair choice, call histories

`mask_func(shape, seed, return_acs)` is `with temp_seed(self.rng, seed): (cf, acc) = choose_acceleration(); …`.
Whether the ACS request and the mask request with the same arguments agree depends on three things outside
the geometry of `Model/MaskGeom.lean`:

* `temp_seed` must hand the caller's seed to `rng.seed` *unchanged* (`SeedArg`): `seed or None` replaces every
  falsy seed (`0`, `False`, `np.int64(0)`) by OS entropy;
* no per-object / per-class / per-module memory may be written in `mask_func`, `__call__` or their helpers
  (`MemoPolicy`): a memo of the ACS keyed by the shape alone returns the first block for every later seed;
* `__call__` must forward to `mask_func` after its guards (no other exit).

The translator extracts these facts from the source as tables (`Gen/C06.lean`); the predicates below are decided
on them in `Bridge/C06.lean`, and they select the machine (`callWith`) the property theorems are about.

The random stream is abstract (`RngOps`): all theorems hold for every seeding function, every entropy source and
every `randint`.  The glue from a configured (centre fraction, acceleration) pair to the ACS width is `numLow`
(exact binary64 arithmetic of `Model/C06Round.lean`).
-/
namespace DirectVerif.C06Seed
open DirectVerif DirectVerif.MaskGeom DirectVerif.C06Round

/-! ## translated facts and their predicates -/

/-- statement skeleton of `temp_seed` -/
def tempSeedShape : List String := ["get_state", "seed", "try", "yield", "finally", "set_state"]

/-- what `temp_seed(rng, seed)` hands to `rng.seed` (`$1` = its second parameter) -/
inductive SeedArg where
  | unchanged      -- `rng.seed(seed)`
  | orNone         -- `rng.seed(seed or None)` and the like: falsy seeds become OS entropy
  | opaque         -- anything else
deriving DecidableEq, Repr

def SeedArg.ofText (s : String) : SeedArg :=
  if s = "$1" then .unchanged
  else if s = "$1 or None" ∨ s = "$1 if $1 else None" ∨ s = "None if not $1 else $1" then .orNone
  else .opaque

/-- the arguments of all `rng.seed(…)` calls inside `temp_seed` -/
def SeedArg.ofTexts : List String → SeedArg
  | [s] => SeedArg.ofText s
  | _ => .opaque

/-- `temp_seed` is `state = rng.get_state(); rng.seed(seed); try: yield finally: rng.set_state(state)` and the
seed goes through unchanged -/
def seedPassOk (shape args : List String) : Bool :=
  shape == tempSeedShape && decide (SeedArg.ofTexts args = .unchanged)

/-- what an object remembers between calls -/
inductive MemoPolicy where
  | none           -- nothing is written outside the random stream (which `temp_seed` restores)
  | byShape        -- stands for "something is written": an ACS memo keyed by the requested shape
deriving DecidableEq, Repr

/-- instance / class / module state written in `mask_func`, `__call__` or a helper: `(generator, where, what)` -/
def MemoPolicy.ofWrites (w : List (String × String × String)) : MemoPolicy := if w.isEmpty then .none else .byShape

def stateWritesOk (w : List (String × String × String)) : Bool := w.isEmpty

/-- `__call__` of every class in scope: guards (`if …: raise`) followed by exactly one forwarding
`return self.mask_func(shape, *args, **kwargs)` -/
def callPlanOk (plans : List (String × List String)) : Bool :=
  !plans.isEmpty && plans.all fun p =>
    p.2.getLast? == some "forward" && (p.2.filter (· == "forward")).length == 1 &&
      p.2.all fun t => t == "guard" || t == "forward"

/-- per generator: one `with temp_seed(self.rng, seed)` over the parameter `seed`, which is never rebound, and the
`return_acs` return sits inside it after `choose_acceleration`: `(name, scope over seed, seed rebound, acs inside)` -/
def seedParamOk (rows : List (String × Bool × Bool × Bool)) : Bool :=
  Gen.all.all fun g =>
    match rows.lookup g.name with
    | some (scope, rebound, inside) => scope && !rebound && inside
    | none => false

/-- the callers: `CreateSamplingMask.__call__` derives the seed from the file name only, passes the same `shape` and
`seed` to the mask request (`return_acs=False`) and the ACS request (`return_acs=True`), draws nothing itself;
`integerize_seed` returns every int (0 included) unchanged; `BaseMaskFunc.__init__` stores the configured centre fractions
and accelerations as given -/
def plumbingOk (rows : List (String × Bool)) : Bool := decide (rows.length = 7) && rows.all (·.2)

/-! ## from a configured pair to the ACS specification -/

/-- one (centre fraction, acceleration) pair; both are exact doubles `num / den`; `radii` holds, for the disc
generators, `int(sqrt(rows * cols * cf / pi))` for the `(rows, cols)` in use (computed by the caller) -/
structure PairCfg where
  cfNum : Nat
  cfDen : Nat
  accNum : Nat
  accDen : Nat
  radii : List ((Nat × Nat) × Int)
deriving Repr

/-- `num_low_freqs` of the line generators, as each `mask_func` computes it -/
def numLow (g : Gen) (cols : Nat) (p : PairCfg) : Int :=
  let rounded : Int := roundMul cols p.cfNum p.cfDen
  let count : Int := truncQ p.cfNum p.cfDen
  match g with
  | .fastmriRandom | .cartesianRandom | .fastmriEquispaced | .cartesianEquispaced =>
    numLowFreqs (decide (p.cfNum < p.cfDen)) rounded count
  | .fastmriMagic | .cartesianMagic =>
    magicCap (numLowFreqs (!decide (p.cfNum > p.cfDen)) rounded count) (roundQuot cols p.accNum p.accDen)
  | _ => rounded

/-- the constructor guards: FastMRI* accept `0 < cf < 1`, Cartesian* accept Python ints `> 1` (`isInt`: the value is
an `int` object); the other generators have no guard -/
def ctorAccepts (g : Gen) (p : PairCfg) (isInt : Bool) : Bool :=
  match g with
  | .fastmriRandom | .fastmriEquispaced | .fastmriMagic => fractionAccepted p.cfNum p.cfDen (if isInt then 1 else 0)
  | .cartesianRandom | .cartesianEquispaced | .cartesianMagic => countAccepted p.cfNum p.cfDen (if isInt then 1 else 0)
  | _ => true

/-- ACS specification of a pair for a shape -/
def pairSpec (g : Gen) (shape : List Nat) (p : PairCfg) : AcsSpec :=
  match g.family with
  | .line | .ktLine => .lines (numLow g (colsOf shape) p)
  | .disc => .disc ((p.radii.lookup (rowsOf shape, colsOf shape)).getD 0)

/-! ## the object machine -/

/-- `np.random.RandomState` as far as the ACS is concerned -/
structure RngOps (σ Seed : Type) where
  seed : Seed → σ                 -- state after `rng.seed(s)`
  entropy : Nat → σ               -- state after `rng.seed(None)`: the k-th read of OS entropy
  falsy : Seed → Bool             -- Python truth value of the seed object is False
  choice : σ → Nat → Nat          -- first `rng.randint(0, k)` after seeding (`choose_acceleration`)

/-- configuration of one mask-function object -/
structure Cfg (σ : Type) where
  gen : Gen
  mode : Mode
  npairs : Nat
  spec : Nat → List Nat → AcsSpec                 -- ACS specification of the k-th pair for a shape
  interior : σ → List Nat → List (List Bool)      -- what the rest of the seeded stream rasterises, per frame

structure Obj (σ : Type) where
  rng : σ                                         -- state of `self.rng` between calls
  tick : Nat                                      -- how often OS entropy has been read
  memo : List (List Nat × Tensor Bool)            -- written by the `byShape` policy only

structure Call (Seed : Type) where
  shape : List Nat
  seed : Seed
  returnAcs : Bool

/-- random state inside the `with temp_seed(…)` block, and the entropy counter afterwards -/
def seededState {σ Seed} (a : SeedArg) (ops : RngOps σ Seed) (o : Obj σ) (s : Seed) : σ × Nat :=
  match a with
  | .unchanged => (ops.seed s, o.tick)
  | .orNone => if ops.falsy s then (ops.entropy o.tick, o.tick + 1) else (ops.seed s, o.tick)
  | .opaque => (ops.entropy o.tick, o.tick + 1)

/-- what a request computes from the seeded state -/
def compute {σ} (cfg : Cfg σ) (st : σ) (k : Nat) (shape : List Nat) (returnAcs : Bool) : Except Err (Tensor Bool) :=
  assemble cfg.gen cfg.mode shape (cfg.spec k shape) returnAcs (cfg.interior st shape)

/-- one `obj(shape, seed=…, return_acs=…)`; `temp_seed` restores `self.rng` on exit -/
def callWith {σ Seed} (a : SeedArg) (p : MemoPolicy) (ops : RngOps σ Seed) (cfg : Cfg σ) (o : Obj σ) (c : Call Seed) :
    Except Err (Tensor Bool) × Obj σ :=
  let st := seededState a ops o c.seed
  let fresh := compute cfg st.1 (ops.choice st.1 cfg.npairs) c.shape c.returnAcs
  match p, c.returnAcs with
  | .byShape, true =>
    match o.memo.lookup c.shape with
    | some t => (.ok t, { o with tick := st.2 })
    | none =>
      (fresh, { o with tick := st.2, memo := match fresh with | .ok t => (c.shape, t) :: o.memo | .error _ => o.memo })
  | _, _ => (fresh, { o with tick := st.2 })

/-- the code as it is: seed unchanged, nothing remembered -/
def call {σ Seed} (ops : RngOps σ Seed) (cfg : Cfg σ) (o : Obj σ) (c : Call Seed) : Except Err (Tensor Bool) × Obj σ :=
  callWith .unchanged .none ops cfg o c

/-- the answer a request gets from a brand-new object: a function of the arguments alone -/
def oneShot {σ Seed} (ops : RngOps σ Seed) (cfg : Cfg σ) (c : Call Seed) : Except Err (Tensor Bool) :=
  compute cfg (ops.seed c.seed) (ops.choice (ops.seed c.seed) cfg.npairs) c.shape c.returnAcs

/-- a history of requests on one object: all answers, final object -/
def runWith {σ Seed} (a : SeedArg) (p : MemoPolicy) (ops : RngOps σ Seed) (cfg : Cfg σ) :
    Obj σ → List (Call Seed) → List (Except Err (Tensor Bool)) × Obj σ
  | o, [] => ([], o)
  | o, c :: cs =>
    let r := callWith a p ops cfg o c
    let rest := runWith a p ops cfg r.2 cs
    (r.1 :: rest.1, rest.2)

def run {σ Seed} (ops : RngOps σ Seed) (cfg : Cfg σ) (o : Obj σ) (cs : List (Call Seed)) :
    List (Except Err (Tensor Bool)) × Obj σ := runWith .unchanged .none ops cfg o cs

/-- the answer to the last request of a history (`none` for the empty history) -/
def lastAnswer {σ Seed} (a : SeedArg) (p : MemoPolicy) (ops : RngOps σ Seed) (cfg : Cfg σ) (o : Obj σ)
    (cs : List (Call Seed)) : Option (Except Err (Tensor Bool)) := (runWith a p ops cfg o cs).1.getLast?

/-! ## a concrete stream for the driver and the witnesses: the seed -> choice table -/

/-- seeds are indices into a table of the values `RandomState(seed).randint(0, k)`; the entropy source is a
second table -/
def tableOps (choices entropy : List Nat) (falsy : List Bool) : RngOps Nat Nat where
  seed s := choices.getD s 0
  entropy k := entropy.getD k 0
  falsy s := falsy.getD s false
  choice st _ := st

/-- configuration built from pairs; requests for the ACS need no rasterised interior except for the number of
frames (one empty pattern per frame) -/
def pairsCfg (g : Gen) (m : Mode) (pairs : List PairCfg) : Cfg Nat where
  gen := g
  mode := g.effectiveMode m
  npairs := pairs.length
  spec k shape := match pairs[k]? with | some p => pairSpec g shape p | none => .lines 0
  interior _ shape := List.replicate (framesOf (g.effectiveMode m) shape) []

def newObj : Obj Nat := { rng := 0, tick := 0, memo := [] }

end DirectVerif.C06Seed
