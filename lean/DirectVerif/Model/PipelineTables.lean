import DirectVerif.Model.Pipeline
/-!
# C08 — structural tables of `direct/data/mri_transforms.py` (phase 3)

Hand-written mirrors of facts the translator regenerates from the source on every run
(`Gen.C08.supervised_params`, `…default_config`, `…wrappers`, `…stage_forms_*`); `Bridge/C08.lean` proves the generated
tables equal to / included in these, so that a new builder parameter, a changed default, a flipped `toggle_dims`
or a module composed un-wrapped changes a generated definition and breaks a bridge lemma.
-/
namespace DirectVerif.Pipeline

/-! ## structural tables of the builders' signatures -/

/-- how a builder parameter enters the stage table -/
inductive PClass
  | operator        -- forward / backward operator: run-time data
  | flag            -- truthiness decides a guard or a constructor flag
  | positive        -- `x > 0.0` decides a guard
  | enumP           -- an enum passed on to a constructor
  | crop            -- `crop` (absent / tuple / sample key)
  | hyper           -- numeric hyper-parameter, only passed on to constructors
  | transformsType  -- SUPERVISED / SSL_SSDU
  | unknown         -- not classified: the stage table may depend on it in a way the model does not know
  deriving DecidableEq, Repr, Inhabited

abbrev ParamTable := List (String × PClass)

def ParamTable.ok (t : ParamTable) : Bool := t.all fun p => p.2 != .unknown

/-- parameters of `build_supervised_mri_transforms`, in order -/
def supervisedParams : ParamTable :=
  [("forward_operator", .operator), ("backward_operator", .operator), ("mask_func", .flag), ("crop", .crop),
   ("crop_type", .hyper), ("rescale", .flag), ("rescale_mode", .hyper), ("rescale_2d_if_3d", .hyper),
   ("pad", .flag), ("image_center_crop", .flag), ("random_rotation_degrees", .hyper),
   ("random_rotation_probability", .positive), ("random_flip_type", .hyper), ("random_flip_probability", .positive),
   ("random_reverse_probability", .positive), ("padding_eps", .positive), ("estimate_body_coil_image", .flag),
   ("estimate_sensitivity_maps", .flag), ("sensitivity_maps_type", .enumP), ("sensitivity_maps_gaussian", .flag),
   ("sensitivity_maps_espirit_threshold", .hyper), ("sensitivity_maps_espirit_kernel_size", .hyper),
   ("sensitivity_maps_espirit_crop", .hyper), ("sensitivity_maps_espirit_max_iters", .hyper),
   ("delete_acs_mask", .flag), ("delete_kspace", .flag), ("image_recon_type", .enumP), ("compress_coils", .flag),
   ("pad_coils", .flag), ("scaling_key", .enumP), ("scale_percentile", .flag), ("use_seed", .flag)]

/-- the additional parameters of `build_mri_transforms` -/
def outerExtraParams : ParamTable :=
  [("transforms_type", .transformsType), ("mask_split_ratio", .hyper), ("mask_split_acs_region", .hyper),
   ("mask_split_keep_acs", .flag), ("mask_split_type", .enumP), ("mask_split_gaussian_std", .hyper),
   ("mask_split_half_direction", .hyper)]

def outerParams : ParamTable := supervisedParams ++ outerExtraParams

/-- parameters of `build_pre_mri_transforms` -/
def preParams : ParamTable :=
  [("forward_operator", .operator), ("backward_operator", .operator), ("mask_func", .flag), ("crop", .crop),
   ("crop_type", .hyper), ("rescale", .flag), ("rescale_mode", .hyper), ("rescale_2d_if_3d", .hyper),
   ("pad", .flag), ("image_center_crop", .flag), ("random_rotation_degrees", .hyper),
   ("random_rotation_probability", .positive), ("random_flip_type", .hyper), ("random_flip_probability", .positive),
   ("padding_eps", .positive), ("estimate_body_coil_image", .flag), ("use_seed", .flag), ("pad_coils", .flag)]

/-- parameters of `build_post_mri_transforms` -/
def postParams : ParamTable :=
  [("backward_operator", .operator), ("estimate_sensitivity_maps", .flag), ("sensitivity_maps_type", .enumP),
   ("sensitivity_maps_gaussian", .flag), ("sensitivity_maps_espirit_threshold", .hyper),
   ("sensitivity_maps_espirit_kernel_size", .hyper), ("sensitivity_maps_espirit_crop", .hyper),
   ("sensitivity_maps_espirit_max_iters", .hyper), ("delete_acs_mask", .flag), ("delete_kspace", .flag),
   ("image_recon_type", .enumP), ("scaling_key", .enumP), ("scale_percentile", .flag)]

/-- `ModuleWrapper` aliases: (alias, module class, `toggle_dims`) -/
abbrev WrapperTable := List (String × String × Bool)

def wrapperTable : WrapperTable :=
  [("ApplyMask", "ApplyMaskModule", false), ("ComputeImage", "ComputeImageModule", true),
   ("EstimateSensitivityMap", "EstimateSensitivityMapModule", true), ("DeleteKeys", "DeleteKeysModule", false),
   ("RenameKeys", "RenameKeysModule", false), ("CompressCoil", "CompressCoilModule", true),
   ("PadCoilDimension", "PadCoilDimensionModule", true), ("ComputeScalingFactor", "ComputeScalingFactorModule", true),
   ("Normalize", "NormalizeModule", false), ("WhitenData", "WhitenDataModule", false),
   ("GaussianMaskSplitter", "GaussianMaskSplitterModule", true), ("UniformMaskSplitter", "UniformMaskSplitterModule", true),
   ("HalfMaskSplitter", "HalfMaskSplitterModule", true)]

/-- modules whose `forward` indexes / reduces over a leading batch axis must be wrapped with `toggle_dims=True`;
the purely key-wise ones must not be (they would otherwise see list-valued metadata) -/
def batchedModules : List String :=
  ["ComputeImageModule", "EstimateSensitivityMapModule", "CompressCoilModule", "PadCoilDimensionModule",
   "ComputeScalingFactorModule", "GaussianMaskSplitterModule", "UniformMaskSplitterModule", "HalfMaskSplitterModule"]

def WrapperTable.ok (t : WrapperTable) : Bool :=
  t.all fun (_, mod, toggle) => toggle == batchedModules.contains mod

/-! ## in-place / aliasing facts of the stage programs (the model is pure; these are the syntactic facts that
make a pure model adequate) -/

/-- keys a stage list may write: everything but the raw `kspace` *array* is a fresh tensor; the table below lists,
for every stage, the keys its program assigns (read off `compile`) -/
def writes : List Instr → List Key
  | [] => []
  | .assign _ d _ _ :: r => d :: writes r
  | .move _ d :: r => d :: writes r
  | _ :: r => writes r

/-- no stage program writes a key outside the sample vocabulary it is documented to produce, and temporaries
are deleted at the end of the stage that introduces them -/
def tempsClean (p : List Instr) : Bool :=
  [Key.t1, .t2, .t3, .t4, .t5].all fun t =>
    !(writes p).contains t || p.contains (.delete t)


/-- how the builders compose the transform classes: (class, composed through its `ModuleWrapper` alias?) in source
order.  The single-builder pipeline runs on un-batched samples, so every `DirectModule` must go through its alias;
the post-transform runs on batches and composes the raw modules. -/
abbrev FormTable := List (String × Bool)

def supervisedForms : FormTable :=
  [("ToTensor", false), ("CropKspace", false), ("RescaleKspace", false), ("PadKspace", false), ("RandomRotation", false),
   ("RandomFlip", false), ("RandomReverse", false), ("ComputeZeroPadding", false), ("ApplyZeroPadding", false),
   ("CreateSamplingMask", false), ("CompressCoilModule", true), ("PadCoilDimensionModule", true),
   ("EstimateBodyCoilImage", false), ("EstimateSensitivityMapModule", true), ("DeleteKeysModule", true),
   ("ApplyMaskModule", true), ("ComputeScalingFactorModule", true), ("NormalizeModule", true),
   ("ComputeImageModule", true), ("DeleteKeysModule", true)]

/-- `AddBooleanKeysModule` writes a non-tensor entry only and is composed raw -/
def outerForms : FormTable :=
  [("AddBooleanKeysModule", false), ("GaussianMaskSplitterModule", true), ("UniformMaskSplitterModule", true),
   ("HalfMaskSplitterModule", true), ("DeleteKeysModule", true), ("RenameKeysModule", true), ("DeleteKeysModule", true),
   ("ComputeImageModule", true)]

def preForms : FormTable :=
  [("ToTensor", false), ("CropKspace", false), ("RescaleKspace", false), ("PadKspace", false), ("RandomRotation", false),
   ("RandomFlip", false), ("ComputeZeroPadding", false), ("ApplyZeroPadding", false), ("CreateSamplingMask", false),
   ("PadCoilDimensionModule", true), ("EstimateBodyCoilImage", false)]

def postForms : FormTable :=
  [("EstimateSensitivityMapModule", false), ("DeleteKeysModule", false), ("ComputeImageModule", false),
   ("ApplyMaskModule", false), ("ComputeScalingFactorModule", false), ("NormalizeModule", false), ("DeleteKeysModule", false)]

/-- in a pipeline applied to un-batched samples every batched module is composed through its alias -/
def FormTable.unbatchedOk (t : FormTable) : Bool :=
  t.all fun (cls, wrapped) => !batchedModules.contains cls || wrapped

/-- writes to instance / class / module state outside `__init__`, as (class, method, attribute, how).  The model is a
pure function of the sample (and of the externals): it is adequate for call histories on one transform object only
if no transform class keeps anything between calls — the translated table must be empty. -/
abbrev StateWrites := List (String × String × String × String)

def StateWrites.none (t : StateWrites) : Bool := t.isEmpty

/-- data-dependent `return sample` shortcuts of the stage classes (class, how many): an early exit whose condition looks
at the tensors skips the modelled program of the stage.  The two known ones are modelled (`padCoils` leaves a sample
with enough coils unchanged; coil compression is an external that is the identity when there are few enough coils). -/
def dataEarlyReturns : List (String × Nat) := [("CompressCoilModule", 1), ("PadCoilDimensionModule", 1)]

end DirectVerif.Pipeline
