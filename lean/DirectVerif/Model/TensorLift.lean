import DirectVerif.Model.Basic
/-!
# List-level (array-free) definition of the per-axis lifting `Tensor.alongAxis`

`Tensor.alongAxis` (in `Model/Basic.lean`) is written with arrays for speed.  `Tensor.alongAxisL`
below is the same function written with plain lists and total indexing (`List.getD`), split into the
three named stages so that each can be reasoned about separately:

* `fibre D n inner o i`   — the strided fibre `(D[o*n*inner + k*inner + i])_{k<n}` of the row-major
  data `D` seen as `outer × n × inner`;
* `fibres D outer n inner f` — `f` applied to every fibre, listed in `(o, i)` order;
* `gather F outer m inner` — re-interleave a list `F` of `outer*inner` result fibres of length `m`
  into row-major data `outer × m × inner`.

`Lemmas/TensorLift.lean` proves `alongAxis = alongAxisL` (for *every* tensor and function, no
side conditions) and the functorial laws (`alongAxis_id`, `alongAxis_comp`, …).
-/
namespace DirectVerif
namespace Tensor

/-- strided fibre number `(o, i)` of row-major data viewed as `outer × n × inner` -/
def fibre {α} [Inhabited α] (D : List α) (n inner o i : Nat) : List α :=
  (List.range n).map fun k => D.getD (o * n * inner + k * inner + i) default

/-- `f` applied to every fibre, in `(o, i)` lexicographic order -/
def fibres {α} [Inhabited α] (D : List α) (outer n inner : Nat) (f : List α → List α) : List (List α) :=
  (List.range outer).flatMap fun o => (List.range inner).map fun i => f (fibre D n inner o i)

/-- the common length of the result fibres (that of the first one; when there is no fibre at all,
`f` is probed with a default-filled list so that the result shape is still determined) -/
def outLen {α} [Inhabited α] (F : List (List α)) (n : Nat) (f : List α → List α) : Nat :=
  match F with
  | [] => (f ((List.range n).map fun _ => default)).length
  | x :: _ => x.length

/-- re-interleave `outer*inner` fibres of length `m` into row-major `outer × m × inner` data -/
def gather {α} [Inhabited α] (F : List (List α)) (outer m inner : Nat) : List α :=
  (List.range outer).flatMap fun o =>
    (List.range m).flatMap fun k =>
      (List.range inner).map fun i => (F.getD (o * inner + i) []).getD k default

/-- list-level `alongAxis` -/
def alongAxisL {α} [Inhabited α] (t : Tensor α) (axis : Nat) (f : List α → List α) : Tensor α :=
  let n := t.shape.getD axis 1
  let inner := prod (t.shape.drop (axis + 1))
  let outer := prod (t.shape.take axis)
  let F := fibres t.data outer n inner f
  let m := outLen F n f
  { shape := t.shape.set axis m, data := gather F outer m inner }

/-- `f` maps every list of length `n` to a list of length `m` -/
def LenUniform {α} (f : List α → List α) (n m : Nat) : Prop := ∀ xs : List α, xs.length = n → (f xs).length = m

/-- on lists of length `n`, `f` is an *index gather with fill*: `(f xs)[k] = xs[j]` when
`σ k = some j`, and the constant `c` when `σ k = none` (roll, flip, crop, slice, constant padding …) -/
structure IsGather {α} [Inhabited α] (f : List α → List α) (n m : Nat) (σ : Nat → Option Nat) (c : α) : Prop where
  len : LenUniform f n m
  bound : ∀ k j, k < m → σ k = some j → j < n
  get : ∀ xs : List α, xs.length = n → ∀ k, k < m →
    (f xs).getD k default = match σ k with | some j => xs.getD j default | none => c

end Tensor
end DirectVerif
