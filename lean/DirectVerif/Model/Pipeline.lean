import DirectVerif.Model.Basic
import DirectVerif.Model.Crop
/-!
# C08 — the training transform pipeline (`direct/data/mri_transforms.py`)

Three layers, all import-free and executable:

1. **Values and primitive operations** over an explicit scalar-operation record `Ops K`
   (`K = Rat` in the driver, an ordered field in the theorems).  A tensor is a flat row-major list
   plus the sizes needed for broadcasting (`coils × slices × pixels × (2 if complex)`).
2. **Stages as three-address programs**: every transform class of the builder is compiled to a few
   instructions `dst ← op(args)` / `delete` / `move` / `require` on a key→value store; the builder
   itself (`build : Config → List Stage`) mirrors `build_mri_transforms`.
3. **The degree type system**: `typeInstr` computes for every key a homogeneity degree in the input
   scale (a second instance of the same abstract interpreter computes spatial-shape tags) — a static
   analysis that the theorems of `Props/C08.lean` prove sound w.r.t. layer 2 and evaluate (`decide`)
   on the builder; `Gen/C08.lean` (translated from the current source) is tied to `build` by `Bridge/C08.lean`.
-/
namespace DirectVerif.Pipeline

/-! ## keys, configuration, stages -/

/-- tensor-valued keys of the sample dict (`filename`, `slice_no`, `is_ssl`, `scaling_diff`,
`original_size` are metadata and live in `Meta` / are ignored); `t1 … t5` are stage-local temporaries
(the locals of a `forward` method that hold tensors) -/
inductive Key
  | kspace | maskedKspace | samplingMask | acsMask | padding | sensitivityMap | scalingFactor | target
  | bodyCoilImage | inputMaskedKspace | targetMaskedKspace | inputSamplingMask | targetSamplingMask
  | inputKspace | t1 | t2 | t3 | t4 | t5
  deriving DecidableEq, Repr, Inhabited

/-- `ReconstructionType` -/
inductive Recon | ifft | rss | complex | complexMod | sense | senseMod
  deriving DecidableEq, Repr, Inhabited
/-- `SensitivityMapType` -/
inductive SMap | espirit | rssEstimate | unit
  deriving DecidableEq, Repr, Inhabited
/-- `scaling_key` (`None`, the given `"scaling_factor"`, or a tensor key) -/
inductive ScalingKey | none | given | key (k : Key)
  deriving DecidableEq, Repr, Inhabited
/-- `MaskSplitterType` -/
inductive Split | uniform | gaussian | half
  deriving DecidableEq, Repr, Inhabited
/-- `crop`: absent, a tuple of ints, or the name of a sample key (`"reconstruction_size"`) -/
inductive CropArg | none | tuple | name
  deriving DecidableEq, Repr, Inhabited
/-- fields of the sample a seed expression mentions -/
inductive SeedField | filename | sliceNo
  deriving DecidableEq, Repr, Inhabited

/-- the builder flags that decide *which* stages are composed and with which keys/types
(numeric hyper-parameters such as the crop size or `padding_eps`'s value are run-time data) -/
structure Config where
  crop : CropArg := .none
  imageCenterCrop : Bool := true
  rescale : Bool := false
  pad : Bool := false
  rotation : Bool := false         -- random_rotation_probability > 0
  flip : Bool := false
  reverse : Bool := false
  paddingEps : Bool := true        -- padding_eps > 0
  maskFunc : Bool := true
  compressCoils : Bool := false
  padCoils : Bool := false
  bodyCoil : Bool := false
  estimateSmaps : Bool := true
  smapType : SMap := .rssEstimate
  smapGaussian : Bool := false
  deleteAcsMask : Bool := true
  deleteKspace : Bool := true
  recon : Recon := .rss
  scalingKey : ScalingKey := .key .maskedKspace
  percentile : Bool := true        -- scale_percentile truthy
  useSeed : Bool := true
  ssl : Bool := false              -- transforms_type != SUPERVISED
  split : Split := .gaussian
  splitKeepAcs : Bool := false
  deriving DecidableEq, Repr, Inhabited

/-- expression language of `ComputeZeroPadding`'s threshold test (translated from the source) -/
inductive TE | x | mean | eps | lit (n : Nat) | mul (a b : TE) | add (a b : TE)
  deriving DecidableEq, Repr, Inhabited
/-- `lhs < rhs` (strict) or `lhs ≤ rhs` -/
structure ThrPred where
  strict : Bool
  lhs : TE
  rhs : TE
  deriving DecidableEq, Repr, Inhabited

/-- what `ComputeZeroPadding` does today: `kspace < torch.mean(kspace) * self.eps` -/
def thrCurrent : ThrPred := ⟨true, .x, .mul .mean .eps⟩

/-- homogeneity degree of a threshold expression in its tensor argument (`none` = not homogeneous) -/
def TE.deg : TE → Option Nat
  | .x => some 1 | .mean => some 1 | .eps => some 0 | .lit _ => some 0
  | .mul a b => match a.deg, b.deg with | some p, some q => some (p + q) | _, _ => none
  | .add a b => match a.deg, b.deg with | some p, some q => if p = q then some p else none | _, _ => none

/-- the test is *relative*: both sides have the same (defined) degree -/
def ThrPred.homogeneous (p : ThrPred) : Bool :=
  match p.lhs.deg, p.rhs.deg with | some a, some b => a == b | _, _ => false

/-- one entry of the composed transform list, with the constructor arguments that matter -/
inductive Stage
  | toTensor
  | cropKspace (center useSeed : Bool)
  | rescaleKspace (key : Key)
  | padKspace (key : Key)
  | randomRotation | randomFlip | randomReverse
  | computeZeroPadding (kspaceKey paddingKey : Key) (thr : ThrPred)
  | applyZeroPadding (kspaceKey paddingKey : Key)
  | createSamplingMask (shapeFromCrop : Bool) (seed : Option (List SeedField)) (returnAcs : Bool)
  | compressCoil (key : Key)
  | padCoilDimension (key : Key)
  | estimateBodyCoilImage (seed : Option (List SeedField))
  | estimateSensitivityMap (key : Key) (type : SMap) (gaussian : Bool)
  | deleteKeys (keys : List Key)
  | renameKeys (olds news : List Key)
  | applyMask (maskKey inKey outKey : Key)
  | computeScalingFactor (normalizeKey : ScalingKey) (percentile : Bool) (sfKey : Key)
  | normalize (sfKey : Key) (keys : List Key)
  | computeImage (kspaceKey targetKey : Key) (type : Recon)
  | addBooleanKeys
  | maskSplitter (type : Split) (keepAcs : Bool) (seed : Option (List SeedField)) (key : Key)
  deriving DecidableEq, Repr, Inhabited

/-! ## the builder (hand-written mirror of `build_supervised_mri_transforms` / `build_mri_transforms`) -/

def opt (b : Bool) (l : List Stage) : List Stage := if b then l else []

/-- `tuple(map(ord, str(sample["filename"])))` when `use_seed` -/
def seedOf (useSeed : Bool) (fields : List SeedField) : Option (List SeedField) :=
  if useSeed then some fields else none

def buildSupervised (c : Config) : List Stage :=
  [.toTensor]
  ++ opt (c.crop != .none) [.cropKspace c.imageCenterCrop c.useSeed]
  ++ opt c.rescale [.rescaleKspace .kspace]
  ++ opt c.pad [.padKspace .kspace]
  ++ opt c.rotation [.randomRotation]
  ++ opt c.flip [.randomFlip]
  ++ opt c.reverse [.randomReverse]
  ++ opt c.paddingEps [.computeZeroPadding .kspace .padding thrCurrent, .applyZeroPadding .kspace .padding]
  ++ opt c.maskFunc [.createSamplingMask (c.crop == .tuple) (seedOf c.useSeed [.filename]) c.estimateSmaps]
  ++ opt c.compressCoils [.compressCoil .kspace]
  ++ opt c.padCoils [.padCoilDimension .kspace]
  ++ opt (c.bodyCoil && c.maskFunc) [.estimateBodyCoilImage (seedOf c.useSeed [.filename])]
  ++ opt c.estimateSmaps [.estimateSensitivityMap .kspace c.smapType c.smapGaussian]
  ++ opt c.deleteAcsMask [.deleteKeys [.acsMask]]
  ++ [.applyMask .samplingMask .kspace .maskedKspace]
  ++ [.computeScalingFactor c.scalingKey c.percentile .scalingFactor,
      .normalize .scalingFactor [.kspace, .maskedKspace]]
  ++ [.computeImage .kspace .target c.recon]
  ++ opt c.deleteKspace [.deleteKeys [.kspace]]

def build (c : Config) : List Stage :=
  buildSupervised { c with deleteAcsMask := if !c.ssl then c.deleteAcsMask else false,
                           deleteKspace := if !c.ssl then c.deleteKspace else false }
  ++ [.addBooleanKeys]
  ++ opt c.ssl
      ([.maskSplitter c.split c.splitKeepAcs (seedOf c.useSeed [.filename, .sliceNo]) .maskedKspace,
        .deleteKeys [.acsMask]]
       ++ [.renameKeys [.inputMaskedKspace, .targetMaskedKspace] [.inputKspace, .kspace],
           .deleteKeys [.maskedKspace, .samplingMask]]
       ++ [.computeImage .kspace .target c.recon])

/-! ## primitive operations and three-address code -/

/-- external linear operators (FFT based / data movement / interpolation): parameters of the model,
assumed homogeneous of degree 1 (recorded assumption) -/
inductive Lin
  | bwd | fwd | crop (center seeded : Bool) | cropMask | rescale | pad | rotate | flip | reverse | compress
  | gaussWeight | id
  deriving DecidableEq, Repr, Inhabited

inductive MaskSrc | sampling | acs
  deriving DecidableEq, Repr, Inhabited

inductive Op
  | lin (l : Lin)                  -- [x]
  | applyMask                      -- [m, x]   where(m == 0, 0, x)
  | applyPadding                   -- [p, x]   where(p == 1, 0, x)
  | sumSlices                      -- [x]      Σ_slice x                   (`x.sum(0)` of a 3-D sample; identity in 2-D)
  | threshold (p : ThrPred)        -- [x]      x <  mean(x)·eps            (0/1 per pixel)
  | extMask (src : MaskSrc) (seed : Option (List SeedField)) (shapeFromCrop : Bool)   -- [x] (shape of x only)
  | rss                            -- [x]      sqrt Σ_{coil,complex} x²    (per pixel)
  | safeDiv                        -- [y, x]   where(y == 0, 0, x / y), y broadcast
  | divUnsafe                      -- [y, x]   x / y without the guard (not used by the current code)
  | copy                           -- [x]      x
  | unitMap                        -- [x]      zeros_like(x) with real part 1
  | kthModulus                     -- [x]      −kthvalue(−|x| of the non-zero coils, k)   (when every entry is zero
                                   --          `torch.kthvalue` raises on an empty tensor: `execE` in PipelinePrePost.lean)
  | maxModulus                     -- [x]      amax |x|
  | constOne                       -- [x]      1.0
  | sumCoils                       -- [x]      Σ_coil x  (complex)
  | modulus                        -- [x]      |x|
  | senseCombine                   -- [s, x]   Σ_coil conj(s)·x
  | padCoils                       -- [x]      cat([zeros, x])
  | split (input : Bool) (type : Split) (seed : Option (List SeedField))   -- [m] or [m, acs]
  | espirit                        -- [x]      opaque (outside the quantifier)
  deriving DecidableEq, Repr, Inhabited

inductive Instr
  | assign (guards : List Key) (dst : Key) (op : Op) (args : List Key)
      -- when every guard key is present: dst ← op(args) (a missing arg is a KeyError); else no-op
  | delete (k : Key)
  | move (src dst : Key)           -- `if src in sample: sample[dst] = sample.pop(src)`
  | require (k : Key)              -- KeyError / ValueError when absent
  deriving DecidableEq, Repr, Inhabited

def Key.prefixed (input : Bool) : Key → Key
  | .maskedKspace => if input then .inputMaskedKspace else .targetMaskedKspace
  | .samplingMask => if input then .inputSamplingMask else .targetSamplingMask
  | k => k

/-- each transform class as a short program: which sample keys its `forward` / `__call__` reads and writes,
under which presence guards, and which primitive it applies.  Locals holding tensors are temporaries
`t1 … t5` unless their value ends up under a sample key that is not touched in between (then they live
in that key).  `Gen.C08.compile` is this function translated from the current source; `Bridge/C08.lean`
proves them equal. -/
def compile : Stage → List Instr
  | .toTensor => [.require .kspace]
  | .cropKspace center useSeed =>
      [.assign [] .kspace (.lin .bwd) [.kspace],
       .assign [] .kspace (.lin (.crop center useSeed)) [.kspace],
       .assign [.samplingMask] .samplingMask (.lin .cropMask) [.samplingMask],
       .assign [.samplingMask] .acsMask (.lin .cropMask) [.acsMask],
       .assign [] .kspace (.lin .fwd) [.kspace]]
  | .rescaleKspace k => [.assign [] k (.lin .bwd) [k], .assign [] k (.lin .rescale) [k], .assign [] k (.lin .fwd) [k]]
  | .padKspace k => [.assign [] k (.lin .bwd) [k], .assign [] k (.lin .pad) [k], .assign [] k (.lin .fwd) [k]]
  | .randomRotation => [.assign [] .kspace (.lin .rotate) [.kspace],
                        .assign [.sensitivityMap] .sensitivityMap (.lin .rotate) [.sensitivityMap]]
  | .randomFlip => [.assign [] .kspace (.lin .flip) [.kspace],
                    .assign [.sensitivityMap] .sensitivityMap (.lin .flip) [.sensitivityMap]]
  | .randomReverse => [.assign [] .kspace (.lin .reverse) [.kspace],
                       .assign [.sensitivityMap] .sensitivityMap (.lin .reverse) [.sensitivityMap]]
  | .computeZeroPadding kk pk thr =>
      [.assign [] pk .modulus [kk], .assign [] pk .sumCoils [pk], .assign [] pk .sumSlices [pk],
       .assign [] pk (.threshold thr) [pk]]
  | .applyZeroPadding kk pk => [.assign [] kk .applyPadding [pk, kk]]
  | .createSamplingMask fromCrop seed returnAcs =>
      [.assign [] .samplingMask (.extMask .sampling seed fromCrop) [.kspace],
       .assign [.padding] .samplingMask .applyPadding [.padding, .samplingMask]]
      ++ (if returnAcs then [.assign [] .acsMask (.extMask .acs seed fromCrop) [.kspace]] else [])
  | .compressCoil k => [.assign [] k (.lin .compress) [k]]
  | .padCoilDimension k => [.assign [k] k .padCoils [k]]
  | .estimateBodyCoilImage seed =>
      [.assign [] .t1 (.extMask .acs seed false) [.kspace], .assign [] .bodyCoilImage .applyMask [.t1, .kspace],
       .assign [] .bodyCoilImage (.lin .bwd) [.bodyCoilImage], .assign [] .bodyCoilImage .rss [.bodyCoilImage],
       .delete .t1]
  | .estimateSensitivityMap kk ty gaussian =>
      (match ty with
       | .unit =>
           [.assign [] .t1 .unitMap [kk], .assign [] .t2 .rss [.t1], .assign [] .sensitivityMap .safeDiv [.t2, .t1],
            .delete .t1, .delete .t2]
       | .espirit =>
           [.assign [] .t1 .espirit [kk], .assign [] .t2 .rss [.t1], .assign [] .sensitivityMap .safeDiv [.t2, .t1],
            .delete .t1, .delete .t2]
       | .rssEstimate =>
           [.assign [] .t1 .applyMask [.acsMask, kk]]
           ++ (if gaussian then [.assign [] .t1 (.lin .gaussWeight) [.t1]] else [])
           ++ [.assign [] .t2 (.lin .bwd) [.t1], .assign [] .t3 .rss [.t2], .assign [] .t4 .safeDiv [.t3, .t2],
               .assign [] .t5 .rss [.t4], .assign [] .sensitivityMap .safeDiv [.t5, .t4],
               .delete .t1, .delete .t2, .delete .t3, .delete .t4, .delete .t5])
  | .deleteKeys ks => ks.map .delete
  | .renameKeys olds news => (olds.zip news).map fun (o, n) => .move o n
  | .applyMask mk ik ok => [.require ik, .require mk, .assign [] ok .applyMask [mk, ik]]
  | .computeScalingFactor nk pct sfk =>
      (match nk with
       | .given => [.assign [] sfk .copy [.scalingFactor]]
       | .none => [.assign [] sfk .constOne [.maskedKspace]]
       | .key k => [.assign [] sfk (if pct then .kthModulus else .maxModulus) [k]])
  | .normalize sfk keys => keys.map fun k => .assign [sfk, k] k .safeDiv [sfk, k]
  | .computeImage kk tk r =>
      (match r with
       | .ifft => [.assign [] tk (.lin .bwd) [kk]]
       | .rss => [.assign [] tk (.lin .bwd) [kk], .assign [] tk .rss [tk]]
       | .complex => [.assign [] tk (.lin .bwd) [kk], .assign [] tk .sumCoils [tk]]
       | .complexMod => [.assign [] tk (.lin .bwd) [kk], .assign [] tk .sumCoils [tk], .assign [] tk .modulus [tk]]
       | .sense => [.assign [] .t1 (.lin .bwd) [kk], .require .sensitivityMap,
                    .assign [] tk .senseCombine [.sensitivityMap, .t1], .delete .t1]
       | .senseMod => [.assign [] .t1 (.lin .bwd) [kk], .require .sensitivityMap,
                       .assign [] tk .senseCombine [.sensitivityMap, .t1], .assign [] tk .modulus [tk],
                       .delete .t1])
  | .addBooleanKeys => []
  | .maskSplitter ty keepAcs seed kk =>
      let margs := [Key.samplingMask] ++ (if keepAcs then [Key.acsMask] else [])
      [.assign [] .inputSamplingMask (.split true ty seed) margs,
       .assign [] .targetSamplingMask (.split false ty seed) margs,
       .assign [] (kk.prefixed true) .applyMask [.inputSamplingMask, kk],
       .assign [] (kk.prefixed false) .applyMask [.targetSamplingMask, kk]]

def program (l : List Stage) : List Instr := l.flatMap compile

/-! ## values and semantics -/

/-- scalar operations (explicit record: no type-class diamonds between model and Mathlib) -/
structure Ops (K : Type) where
  zero : K
  one : K
  add : K → K → K
  mul : K → K → K
  div : K → K → K
  neg : K → K
  lt : K → K → Bool
  isZero : K → Bool
  sqrt : K → K
  ofNat : Nat → K

/-- a tensor `coils × slices × pixels × (2 if complex)`, flat row-major -/
structure Val (K : Type) where
  nc : Nat := 1
  ns : Nat := 1
  cplx : Bool := false
  data : List K
  deriving Repr, DecidableEq, Inhabited

namespace Val
variable {K : Type}
def stride (v : Val K) : Nat := if v.cplx then 2 else 1
/-- elementwise map, sizes kept -/
def map (f : K → K) (v : Val K) : Val K := { v with data := v.data.map f }
def empty : Val K := { data := [] }
end Val

/-- sample metadata entering the seeds -/
structure Meta where
  filename : List Nat      -- code points of `str(sample["filename"])`
  sliceNo : List Nat       -- code points of `str(sample["slice_no"])`
  deriving Repr, DecidableEq, Inhabited

def seedVal (m : Meta) : List SeedField → List Nat
  | [] => []
  | .filename :: r => m.filename ++ seedVal m r
  | .sliceNo :: r => m.sliceNo ++ seedVal m r

/-- externals: FFT-based operators, mask generators, splitters, hyper-parameters.  A seed of `none`
stands for the unseeded global RNG state (`unseeded` then supplies whatever that state is). -/
structure Ext (K : Type) where
  lin : Lin → Meta → Val K → Val K
  crop : (center : Bool) → (seed : Option (List Nat)) → Val K → Val K   -- image-space crop, centred or at a seeded offset
  mask : MaskSrc → (seed : Option (List Nat)) → (fromCrop : Bool) → (nc ns len : Nat) → List Bool
  split : (input : Bool) → Split → (seed : Option (List Nat)) → List (List Bool) → List Bool
  eps : K
  kOf : Nat → Nat            -- `int((1 - percentile) * n) + 1`
  padCoilsTo : Nat
  espirit : Val K → Val K

variable {K : Type}

def pairs : List K → List (K × K)
  | a :: b :: t => (a, b) :: pairs t
  | _ => []

/-- pointwise sum of `blocks` consecutive chunks -/
def addLists (S : Ops K) : List K → List K → List K
  | a :: as, b :: bs => S.add a b :: addLists S as bs
  | [], bs => bs
  | as, [] => as

def sumBlocksAux (S : Ops K) (len : Nat) : Nat → List K → List K
  | 0, _ => List.replicate len S.zero
  | n + 1, xs => addLists S (xs.take len) (sumBlocksAux S len n (xs.drop len))

def sumBlocks (S : Ops K) (blocks : Nat) (xs : List K) : List K :=
  sumBlocksAux S (xs.length / blocks) blocks xs

def sumList (S : Ops K) (xs : List K) : K := xs.foldr S.add S.zero

def sqAbs (S : Ops K) (xs : List K) : List K := (pairs xs).map fun (a, b) => S.add (S.mul a a) (S.mul b b)
def modulusL (S : Ops K) (xs : List K) : List K := (sqAbs S xs).map S.sqrt

def maxL (S : Ops K) : List K → K
  | [] => S.zero
  | [a] => a
  | a :: t => let m := maxL S t; if S.lt a m then m else a

/-- descending insertion sort (stable; `kthvalue` of the negated values) -/
def insertDesc (S : Ops K) (a : K) : List K → List K
  | [] => [a]
  | b :: t => if S.lt b a then a :: b :: t else b :: insertDesc S a t
def sortDesc (S : Ops K) : List K → List K
  | [] => []
  | a :: t => insertDesc S a (sortDesc S t)

/-- broadcast read of a per-pixel (or scalar) tensor `y` at flat position `i` of a tensor with `stride` -/
def bget (S : Ops K) (y : List K) (stride i : Nat) : K := y.getD ((i / stride) % y.length) S.zero

def mapIdxAux (f : Nat → K → K) : Nat → List K → List K
  | _, [] => []
  | i, a :: t => f i a :: mapIdxAux f (i + 1) t
def mapIdx (f : Nat → K → K) (xs : List K) : List K := mapIdxAux f 0 xs

def evalTE (S : Ops K) (eps v m : K) : TE → K
  | .x => v | .mean => m | .eps => eps | .lit n => S.ofNat n
  | .mul a b => S.mul (evalTE S eps v m a) (evalTE S eps v m b)
  | .add a b => S.add (evalTE S eps v m a) (evalTE S eps v m b)

def evalThr (S : Ops K) (eps : K) (p : ThrPred) (v m : K) : Bool :=
  let l := evalTE S eps v m p.lhs
  let r := evalTE S eps v m p.rhs
  if p.strict then S.lt l r else !(S.lt r l)

def b2k (S : Ops K) (b : Bool) : K := if b then S.one else S.zero

/-- coils with at least one non-zero entry (`(data[_] != 0).flatten(1).any(dim=1)`, the repaired test) -/
def nonzeroCoils (S : Ops K) (chunk : Nat) : Nat → List K → List K
  | 0, _ => []
  | n + 1, xs =>
      let c := xs.take chunk
      (if c.all S.isZero then [] else c) ++ nonzeroCoils S chunk n (xs.drop chunk)

/-- the pinned (pre-repair) test: coils whose entries do not *sum* to zero (`data[_].sum(dim=…).bool()`) — a coil
whose entries cancel was dropped, and rounding noise decided when the sum was theoretically zero -/
def nonzeroCoilsPinned (S : Ops K) (chunk : Nat) : Nat → List K → List K
  | 0, _ => []
  | n + 1, xs =>
      let c := xs.take chunk
      (if S.isZero (sumList S c) then [] else c) ++ nonzeroCoilsPinned S chunk n (xs.drop chunk)

/-- complex product `conj(s)·x` summed over coils -/
def conjMul (S : Ops K) : List K → List K → List K
  | sr :: si :: s, xr :: xi :: x =>
      S.add (S.mul sr xr) (S.mul si xi) :: S.add (S.mul sr xi) (S.neg (S.mul si xr)) :: conjMul S s x
  | _, _ => []

/-- `CropKspace`'s random-crop seed: `tuple(map(ord, str(sample["filename"])))` -/
def cropSeedFields : List SeedField := [.filename]

def evalOp (S : Ops K) (X : Ext K) (m : Meta) : Op → List (Val K) → Val K
  | .lin (.crop center seeded), [x] => X.crop center (if seeded then some (seedVal m cropSeedFields) else none) x
  | .lin l, [x] => X.lin l m x
  | .applyMask, [mk, x] =>
      { x with data := mapIdx (fun i v => if S.isZero (bget S mk.data x.stride i) then S.zero else v) x.data }
  | .applyPadding, [p, x] =>
      { x with data := mapIdx (fun i v => if S.isZero (bget S p.data x.stride i) then v else S.zero) x.data }
  | .sumSlices, [x] => { nc := x.nc, cplx := x.cplx, data := sumBlocks S x.ns x.data }
  | .threshold p, [x] =>
      let mean := S.div (sumList S x.data) (S.ofNat x.data.length)
      { data := x.data.map fun v => b2k S (evalThr S X.eps p v mean) }
  | .extMask src seed fromCrop, [x] =>
      { data := (X.mask src (seed.map (seedVal m)) fromCrop x.nc x.ns x.data.length).map (b2k S) }
  | .rss, [x] => { ns := x.ns, data := (sumBlocks S x.nc (if x.cplx then sqAbs S x.data else x.data.map fun a => S.mul a a)).map S.sqrt }
  | .safeDiv, [y, x] =>
      { x with data := mapIdx (fun i v => let d := bget S y.data x.stride i
                                         if S.isZero d then S.zero else S.div v d) x.data }
  | .divUnsafe, [y, x] => { x with data := mapIdx (fun i v => S.div v (bget S y.data x.stride i)) x.data }
  | .copy, [x] => x
  | .unitMap, [x] => { x with data := mapIdx (fun i _ => if i % 2 = 0 then S.one else S.zero) x.data }
  | .kthModulus, [x] =>
      let sel := modulusL S (nonzeroCoils S (x.data.length / x.nc) x.nc x.data)
      { data := [(sortDesc S sel).getD (X.kOf sel.length - 1) S.zero] }
  | .maxModulus, [x] => { data := [maxL S (modulusL S x.data)] }
  | .constOne, [_] => { data := [S.one] }
  | .sumCoils, [x] => { ns := x.ns, cplx := x.cplx, data := sumBlocks S x.nc x.data }
  | .modulus, [x] => { nc := x.nc, ns := x.ns, data := modulusL S x.data }
  | .senseCombine, [s, x] => { ns := x.ns, cplx := true, data := sumBlocks S x.nc (conjMul S s.data x.data) }
  | .padCoils, [x] =>   -- (more coils than requested is a ValueError in the code: precondition)
      if x.nc ≥ X.padCoilsTo then x else
        { x with nc := X.padCoilsTo,
                 data := List.replicate ((X.padCoilsTo - x.nc) * (x.data.length / x.nc)) S.zero ++ x.data }
  | .split input ty seed, ms =>
      { data := (X.split input ty (seed.map (seedVal m)) (ms.map fun v => v.data.map fun a => !(S.isZero a))).map (b2k S) }
  | .espirit, [x] => X.espirit x
  | _, _ => Val.empty

abbrev Store (K : Type) := Key → Option (Val K)

def Store.set (s : Store K) (k : Key) (v : Option (Val K)) : Store K := fun k' => if k' = k then v else s k'

inductive Err | keyError (k : Key) | typeError (k : Key) | shapeMismatch (k : Key) | unsupported
  deriving DecidableEq, Repr, Inhabited

def getAll (s : Store K) : List Key → Except Err (List (Val K))
  | [] => .ok []
  | k :: ks => match s k with
      | none => .error (.keyError k)
      | some v => match getAll s ks with
          | .ok vs => .ok (v :: vs)
          | .error e => .error e

def execInstr (S : Ops K) (X : Ext K) (m : Meta) (i : Instr) (s : Store K) : Except Err (Store K) :=
  match i with
  | .assign guards dst op args =>
      if guards.all (fun g => (s g).isSome) then
        match getAll s args with
        | .ok vs => .ok (s.set dst (some (evalOp S X m op vs)))
        | .error e => .error e
      else .ok s
  | .delete k => .ok (s.set k none)
  | .move src dst => match s src with
      | some v => .ok ((s.set src none).set dst (some v))
      | none => .ok s
  | .require k => if (s k).isSome then .ok s else .error (.keyError k)

def exec (S : Ops K) (X : Ext K) (m : Meta) : List Instr → Store K → Except Err (Store K)
  | [], s => .ok s
  | i :: is, s => match execInstr S X m i s with
      | .ok s' => exec S X m is s'
      | .error e => .error e

/-- the composed transform applied to a raw sample -/
def run (S : Ops K) (X : Ext K) (m : Meta) (l : List Stage) (kspace : Val K) : Except Err (Store K) :=
  exec S X m (program l) (fun k => if k = .kspace then some kspace else none)

/-! ## the degree type system (static) -/

/-- static environment: key ↦ abstract value of the tensor stored under it, `none` = absent -/
abbrev AEnv (α : Type) := Key → Option α

def AEnv.set {α} (e : AEnv α) (k : Key) (t : Option α) : AEnv α := fun k' => if k' = k then t else e k'

def getAllA {α} (e : AEnv α) : List Key → Except Err (List α)
  | [] => .ok []
  | k :: ks => match e k with
      | none => .error (.keyError k)
      | some t => match getAllA e ks with
          | .ok ts => .ok (t :: ts)
          | .error er => .error er

/-- abstract execution of one instruction under a rule `Op → abstract args → abstract result`;
presence of keys is tracked exactly as `execInstr` does -/
def absInstr {α} (rule : Op → List α → Except Err α) (i : Instr) (e : AEnv α) : Except Err (AEnv α) :=
  match i with
  | .assign guards dst op args =>
      if guards.all (fun g => (e g).isSome) then
        match getAllA e args with
        | .ok ts => match rule op ts with
            | .ok t => .ok (e.set dst (some t))
            | .error er => .error er
        | .error er => .error er
      else .ok e
  | .delete k => .ok (e.set k none)
  | .move src dst => match e src with
      | some t => .ok ((e.set src none).set dst (some t))
      | none => .ok e
  | .require k => if (e k).isSome then .ok e else .error (.keyError k)

def absProgram {α} (rule : Op → List α → Except Err α) : List Instr → AEnv α → Except Err (AEnv α)
  | [], e => .ok e
  | i :: is, e => match absInstr rule i e with
      | .ok e' => absProgram rule is e'
      | .error er => .error er

/-- **degree rule** of every primitive: homogeneity degrees of the arguments ↦ degree of the result
(`safeDiv : d₁, d₂ ↦ d₂ − d₁` for `[divisor, dividend]`; percentile / max / rss / modulus / linear
maps `d ↦ d`; the relative threshold and the generated masks `↦ 0`; masking `(0, d) ↦ d`) -/
def opDeg : Op → List Int → Except Err Int
  | .lin _, [x] => .ok x
  | .applyMask, [m, x] => if m = 0 then .ok x else .error (.typeError .samplingMask)
  | .applyPadding, [p, x] => if p = 0 then .ok x else .error (.typeError .padding)
  | .sumSlices, [x] => .ok x
  | .threshold p, [_] => if p.homogeneous then .ok 0 else .error (.typeError .padding)
  | .extMask _ _ _, [_] => .ok 0
  | .rss, [x] => .ok x
  | .safeDiv, [y, x] => .ok (x - y)
  | .divUnsafe, [y, x] => .ok (x - y)
  | .copy, [x] => .ok x
  | .unitMap, [_] => .ok 0
  | .kthModulus, [x] => .ok x
  | .maxModulus, [x] => .ok x
  | .constOne, [_] => .ok 0
  | .sumCoils, [x] => .ok x
  | .modulus, [x] => .ok x
  | .senseCombine, [s, x] => .ok (s + x)
  | .padCoils, [x] => .ok x
  | .split _ _ _, [m] => if m = 0 then .ok 0 else .error (.typeError .samplingMask)
  | .split _ _ _, [m, a] => if m = 0 && a = 0 then .ok 0 else .error (.typeError .samplingMask)
  | _, _ => .error .unsupported

abbrev TEnv := AEnv Int
def typeInstr : Instr → TEnv → Except Err TEnv := absInstr opDeg
def typeProgram : List Instr → TEnv → Except Err TEnv := absProgram opDeg

/-- the raw sample: only `kspace`, of degree 1 -/
def initEnv : TEnv := fun k => if k = .kspace then some 1 else none

/-- output keys the property calls *normalised* -/
def normalisedKeys : List Key :=
  [.kspace, .maskedKspace, .target, .sensitivityMap, .samplingMask, .acsMask, .padding, .inputKspace,
   .inputSamplingMask, .targetSamplingMask, .inputMaskedKspace, .targetMaskedKspace]

def degIs (e : TEnv) (k : Key) (d : Int) : Bool :=
  match e k with | some t => t == d | none => false
def degIsOrAbsent (e : TEnv) (k : Key) (d : Int) : Bool :=
  match e k with | some t => t == d | none => true

/-- what the property requires of the final static environment -/
def finalOk (ssl : Bool) (e : TEnv) : Bool :=
  degIs e .scalingFactor 1 && normalisedKeys.all (fun k => degIsOrAbsent e k 0)
  && degIs e .target 0 && (if ssl then degIs e .inputKspace 0 && degIs e .kspace 0 else degIs e .maskedKspace 0)
  && [Key.t1, .t2, .t3, .t4, .t5].all (fun k => (e k).isNone)

/-- **well-typedness of a stage list**: it type-checks from the raw sample, the scaling factor has
degree 1, every normalised key that is present has degree 0, the network inputs are present and no
temporaries leak -/
def degreesOk (ssl : Bool) (l : List Stage) : Bool :=
  match typeProgram (program l) initEnv with
  | .error _ => false
  | .ok e => finalOk ssl e

/-- configurations the property quantifies over (see `properties.jsonl`): a mask function is given,
the scaling key is one of the two k-spaces (`ComputeScalingFactor` asserts a complex tensor, so e.g.
`body_coil_image` raises in the code — outside the model), SENSE reconstructions have maps, maps are not ESPIRiT (opaque eigen-iteration), ACS kept in the SSL split only
when there is an ACS mask -/
def Config.valid (c : Config) : Bool :=
  c.maskFunc
  && (c.scalingKey == .key .maskedKspace || c.scalingKey == .key .kspace)
  && (!(c.recon == .sense || c.recon == .senseMod) || c.estimateSmaps)
  && (!c.estimateSmaps || c.smapType != .espirit)
  && (!c.splitKeepAcs || (c.ssl && c.estimateSmaps))

/-! ## spatial shape tags (second, independent abstract interpretation — for `crop_shape`) -/

inductive Sp | raw | cropped | rescaled | padded | scalar
  deriving DecidableEq, Repr, Inhabited

def Lin.sp : Lin → Sp → Sp
  | .crop _ _, _ => .cropped | .cropMask, _ => .cropped | .rescale, _ => .rescaled | .pad, _ => .padded
  | _, s => s

/-- broadcast compatibility of a per-pixel / scalar operand with a tensor -/
def spCompat (small big : Sp) : Bool := small == big || small == .scalar

def opSp : Op → List Sp → Except Err Sp
  | .lin l, [x] => .ok (l.sp x)
  | .applyMask, [m, x] => if spCompat m x then .ok x else .error (.shapeMismatch .samplingMask)
  | .applyPadding, [p, x] => if spCompat p x then .ok x else .error (.shapeMismatch .padding)
  | .sumSlices, [x] => .ok x
  | .threshold _, [x] => .ok x
  | .extMask _ _ fromCrop, [x] => .ok (if fromCrop then .cropped else x)
  | .rss, [x] => .ok x
  | .safeDiv, [y, x] => if spCompat y x then .ok x else .error (.shapeMismatch .scalingFactor)
  | .divUnsafe, [y, x] => if spCompat y x then .ok x else .error (.shapeMismatch .scalingFactor)
  | .copy, [x] => .ok x
  | .unitMap, [x] => .ok x
  | .kthModulus, [_] => .ok .scalar
  | .maxModulus, [_] => .ok .scalar
  | .constOne, [_] => .ok .scalar
  | .sumCoils, [x] => .ok x
  | .modulus, [x] => .ok x
  | .senseCombine, [s, x] => if s == x then .ok x else .error (.shapeMismatch .sensitivityMap)
  | .padCoils, [x] => .ok x
  | .split _ _ _, [m] => .ok m
  | .split _ _ _, [m, a] => if m == a then .ok m else .error (.shapeMismatch .acsMask)
  | .espirit, [x] => .ok x
  | _, _ => .error .unsupported

def initSp : AEnv Sp := fun k => if k = .kspace then some .raw else none

/-- every tensor output (all keys but the scalar scaling factor) carries the crop shape, and all
broadcasts along the way were between equal shapes -/
def cropShapeOk (l : List Stage) : Bool :=
  match absProgram opSp (program l) initSp with
  | .error _ => false
  | .ok e => [Key.kspace, .maskedKspace, .target, .sensitivityMap, .samplingMask, .acsMask, .padding,
              .inputKspace, .inputSamplingMask, .targetSamplingMask, .bodyCoilImage].all fun k =>
      match e k with | some t => t == .cropped | none => true

/-- the seed expressions of the sampling-mask / ACS-mask generation mention the file name only -/
def seedsOk : List Instr → Bool
  | [] => true
  | .assign _ dst (.extMask _ (some fields) _) _ :: r =>
      ((dst != .samplingMask && dst != .acsMask) || fields.all (· == .filename)) && seedsOk r
  | .assign _ dst (.extMask _ none _) _ :: r => dst != .samplingMask && dst != .acsMask && seedsOk r
  | _ :: r => seedsOk r

/-! ## `ModuleWrapper` (`toggle_dims=True`): batch-of-one toggling around a module -/

/-- a tensor with its shape -/
structure Shaped (α : Type) where
  shape : List Nat
  data : List α
  deriving DecidableEq, Repr

/-- `v[None]` -/
def Shaped.unsqueeze0 {α} (t : Shaped α) : Shaped α := { t with shape := 1 :: t.shape }
/-- `v.squeeze(0)`: drops the leading axis when it has length one -/
def Shaped.squeeze0 {α} (t : Shaped α) : Shaped α :=
  match t.shape with
  | 1 :: r => { t with shape := r }
  | _ => t

/-- an entry of the sample dict: a tensor, a plain value, or (inside the wrapper) a list of values -/
inductive Entry (α β : Type)
  | tensor (t : Shaped α)
  | val (v : β)
  | vals (l : List β)
  deriving DecidableEq, Repr

/-- `sample[k] = v[None]` for tensors / arrays, `[v]` otherwise -/
def Entry.toggleIn {α β} : Entry α β → Entry α β
  | .tensor t => .tensor t.unsqueeze0
  | .val v => .vals [v]
  | .vals l => .vals l
/-- `sample[k] = v.squeeze(0)` for tensors, `v[0]` otherwise -/
def Entry.toggleOut {α β} : Entry α β → Entry α β
  | .tensor t => .tensor t.squeeze0
  | .vals (v :: _) => .val v
  | e => e

abbrev WSample (α β : Type) := Key → Option (Entry α β)

/-- `SubWrapper.__call__` with `toggle_dims`: toggle in, run `forward`, toggle out -/
def wrapToggle {α β} (forward : WSample α β → WSample α β) (s : WSample α β) : WSample α β :=
  fun k => (forward (fun k' => (s k').map Entry.toggleIn) k).map Entry.toggleOut

end DirectVerif.Pipeline
