import DirectVerif.Model.Basic
import DirectVerif.Model.Mask
/-!
# C09 — sensitivity maps are normalised and finite (models of `safe_divide`,
`root_sum_of_squares`, `EstimateSensitivityMapModule.forward`,
`MRIModelEngine.compute_sensitivity_map`)

The model is generic in the scalar type `α` (`Rat` for the exact execution in the driver, `ℝ` for
the theorems) **and in the two non-ring operations** `div` and `sqrt`, which are explicit
parameters (`Num α`).  Making `div` a parameter is what lets "no division by zero is ever used"
be a theorem: the results do not depend on what `div a 0` returns (NaN/Inf in float32).

A coil-sensitivity map is `S : List (List (α × α))`, indexed `[coil][pixel]` (pixels are the
flattened spatial axes, the pair is `(re, im)`), i.e. the layout `(coil, *spatial, complex=2)` of one
batch item with the coil axis first and the complex axis last.
-/
namespace DirectVerif.Sens

/-- the two operations that are not ring operations -/
structure Num (α : Type) where
  div : α → α → α
  sqrt : α → α

abbrev SMap (α : Type) := List (List (α × α))

section
variable {α : Type} [Zero α] [Add α] [Mul α] [DecidableEq α]

/-- `safe_divide`: `torch.where(other == 0, 0.0, input / other)` -/
def safeDivide (num : Num α) (a b : α) : α := if b = 0 then 0 else num.div a b

/-- the unguarded variant `input / other` (what `safe_divide` protects against) -/
def plainDivide (num : Num α) (a b : α) : α := num.div a b

/-- `(data ** 2).sum(complex_dim)` at one entry -/
def sq (c : α × α) : α := c.1 * c.1 + c.2 * c.2

/-- the values of all coils at pixel `p` (the fibre along the coil axis) -/
def fibre (S : SMap α) (p : Nat) : List (α × α) := S.filterMap (·[p]?)

/-- `(data ** 2).sum(complex_dim).sum(coil_dim)` at pixel `p` -/
def sumSqAt (S : SMap α) (p : Nat) : α := ((fibre S p).map sq).sum

/-- `torch.sqrt((data ** 2).sum(complex_dim).sum(coil_dim))` at pixel `p` — both
`root_sum_of_squares(acs_image, dim=coil_dim)` and `sensitivity_map_norm` -/
def normAt (num : Num α) (S : SMap α) (p : Nat) : α := num.sqrt (sumSqAt S p)

/-- divide every entry by a per-pixel divisor that is broadcast over coil and complex axes
(`unsqueeze(coil_dim).unsqueeze(complex_dim)`), with the given division -/
def divMapWith (dv : α → α → α) (S : SMap α) (n : Nat → α) : SMap α :=
  S.map fun coil => coil.mapIdx fun p c => (dv c.1 (n p), dv c.2 (n p))

/-- `safe_divide(S, norm.unsqueeze(coil_dim).unsqueeze(complex_dim))` -/
def divMap (num : Num α) (S : SMap α) (n : Nat → α) : SMap α := divMapWith (safeDivide num) S n

/-- `sensitivity_map = safe_divide(acs_image, rss(acs_image))` -/
def rssNormalise (num : Num α) (a : SMap α) : SMap α := divMap num a (normAt num a)

/-- the renormalisation step at the end of `EstimateSensitivityMapModule.forward` and of
`compute_sensitivity_map`: `safe_divide(S, sqrt((S**2).sum(complex).sum(coil)))` -/
def renorm (num : Num α) (S : SMap α) : SMap α := divMap num S (normAt num S)

/-- `SensitivityMapType.RSS_ESTIMATE`: order `safe_divide → norm over coil axis → safe_divide` -/
def estimateRSS (num : Num α) (acsImage : SMap α) : SMap α := renorm num (rssNormalise num acsImage)

/-- `MRIModelEngine.compute_sensitivity_map`: refine (only multi-coil data and only when a
sensitivity model exists), then renormalise.  `refine` is the network: arbitrary. -/
def computeSensitivityMap (num : Num α) (hasModel : Bool) (refine : SMap α → SMap α) (S : SMap α) :
    SMap α :=
  renorm num (if S.length > 1 ∧ hasModel = true then refine S else S)

/-- the same pipeline with the guard of `safe_divide` removed (for the witness theorems) -/
def renormUnguarded (num : Num α) (S : SMap α) : SMap α :=
  divMapWith (plainDivide num) S (normAt num S)

end

/-- `SensitivityMapType.UNIT`: `S[..., 0] = 1`, then the common renormalisation -/
def unitMap {α : Type} [Zero α] [One α] (coils pixels : Nat) : SMap α :=
  List.replicate coils (List.replicate pixels (1, 0))

def estimateUnit {α : Type} [Zero α] [One α] [Add α] [Mul α] [DecidableEq α] (num : Num α)
    (coils pixels : Nat) : SMap α :=
  renorm num (unitMap coils pixels)

/-! ## exact rational execution -/

/-- square root on rationals, exact on squares of rationals (the driver checks exactness) -/
def ratSqrt (q : Rat) : Rat :=
  if q.num < 0 then 0 else (Nat.sqrt q.num.toNat : Rat) / (Nat.sqrt q.den : Rat)

/-- division by zero yields a poison value: by `Props/C09` no result depends on it -/
def ratNum : Num Rat := { div := fun a b => if b = 0 then 1000003 else a / b, sqrt := ratSqrt }

/-- the axes the code reduces over / re-inserts, as the model assumes them: sum over the complex
axis (-1) then the coil axis (1), unsqueeze coil then complex -/
def normAxes : List Int × List Int := ([-1, 1], [1, -1])

/-- the norm computation as the model assumes it: (`torch.sqrt` applied, exponent, sum axes in
order, unsqueeze axes in order) -/
def normPlan : Bool × Int × List Int × List Int := (true, 2, normAxes.1, normAxes.2)

/-- statement order of the RSS branch + tail of `EstimateSensitivityMapModule.forward`
(= `estimateRSS`: `renorm ∘ rssNormalise`) -/
def estimateOrder : List String :=
  ["root_sum_of_squares", "safe_divide:acs_image/acs_image_rss", "norm",
   "safe_divide:sensitivity_map/sensitivity_map_norm"]

/-- statement order of `compute_sensitivity_map` (= `computeSensitivityMap`: refine, then `renorm`) -/
def engineOrder : List String :=
  ["refine", "norm", "safe_divide:sensitivity_map/sensitivity_map_norm"]

/-! ## layout: `(batch, coil, *spatial, complex = 2)` ↔ `[coil][pixel]`, reductions and unsqueezes -/

/-- entry `(b, c, p, k)` of a flat row-major tensor of shape `(B, C, P, 2)` (row-major offsets are
`Mask.ravelR`, whose inverse laws are proved in `Lemmas/C03`) -/
def flatEntry (B C P : Nat) (data : List Int) (b c p k : Nat) : Int :=
  data.getD (Mask.ravelR [2, P, C, B] [k, p, c, b]) 0

/-- batch item `b` of a `(B, C, P, 2)` tensor as a map `[coil][pixel] ↦ (re, im)` -/
def toSMap (B C P : Nat) (data : List Int) (b : Nat) : SMap Rat :=
  (List.range C).map fun c => (List.range P).map fun p =>
    ((flatEntry B C P data b c p 0 : Rat), (flatEntry B C P data b c p 1 : Rat))

/-- Python `shape` after `.sum(ax)` (axis removed), negative axes counted from the end -/
def pySumShape (s : List Nat) (ax : Int) : List Nat :=
  let i := (if ax < 0 then ax + s.length else ax).toNat
  s.take i ++ s.drop (i + 1)

/-- Python `shape` after `.unsqueeze(ax)` -/
def pyUnsqueeze (s : List Nat) (ax : Int) : List Nat :=
  let i := (if ax < 0 then ax + s.length + 1 else ax).toNat
  s.take i ++ [1] ++ s.drop i

/-- shape of the divisor the code builds from a `(…)` plan for a map of shape `s` -/
def divisorShape (plan : Bool × Int × List Int × List Int) (s : List Nat) : List Nat :=
  (plan.2.2.2).foldl pyUnsqueeze ((plan.2.2.1).foldl pySumShape s)

/-- accepted norm plans: square root of the sum of squares over complex (-1) then coil (1) axis,
re-inserted in either order (`unsqueeze(1).unsqueeze(-1)` or `unsqueeze(-1).unsqueeze(1)`) -/
def planWf (plan : Bool × Int × List Int × List Int) : Bool :=
  plan.1 && plan.2.1 == 2 && plan.2.2.1 == [-1, 1] && (plan.2.2.2 == [1, -1] || plan.2.2.2 == [-1, 1])

/-- functions with their own sensitivity-map normalisation that the oracle observes on the real module -/
def ownNormalisationCovered : List String := ["JointICNet.forward"]

/-- a sensitivity-map site `(file, function, kind)` is accounted for when it calls the verified
`compute_sensitivity_map`, or normalises itself inside a function the oracle observes -/
def sensSiteAccounted (s : String × String × String) : Bool :=
  s.2.2 == "call:compute_sensitivity_map" || (s.2.2 == "own-normalisation" && ownNormalisationCovered.contains s.2.1)

/-- keys the pipeline's `Normalize` may rescale: never the sensitivity map -/
def normalizeKeysAllowed : List String := ["KspaceKey.KSPACE", "KspaceKey.MASKED_KSPACE"]

end DirectVerif.Sens
