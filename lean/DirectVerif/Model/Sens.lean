import DirectVerif.Model.Basic
import DirectVerif.Model.Mask
/-!
# C09 — sensitivity maps are normalised and finite (models of `safe_divide`,
`root_sum_of_squares`, `EstimateSensitivityMapModule.forward`,
`MRIModelEngine.compute_sensitivity_map`)

The model is generic in the scalar type `α` (`Rat` for the exact execution in the driver, `ℝ` for
the theorems) **and in the two non-ring operations** `div` and `sqrt`, which are explicit
parameters (`Num α`).  Making `div` a parameter is what lets "no division by zero is ever used"
be a theorem: the results do not depend on what `div a 0` returns (NaN/Inf in float32).

A coil-sensitivity map is `S : List (List (α × α))`, indexed `[coil][pixel]` (pixels are the
flattened spatial axes, the pair is `(re, im)`), i.e. the layout `(coil, *spatial, complex=2)` of one
batch item with the coil axis first and the complex axis last.
-/
namespace DirectVerif.Sens

/-- the two operations that are not ring operations -/
structure Num (α : Type) where
  div : α → α → α
  sqrt : α → α

abbrev SMap (α : Type) := List (List (α × α))

section
variable {α : Type} [Zero α] [Add α] [Mul α] [DecidableEq α]

/-- `safe_divide`: `torch.where(other == 0, 0.0, input / other)` -/
def safeDivide (num : Num α) (a b : α) : α := if b = 0 then 0 else num.div a b

/-- the unguarded variant `input / other` (what `safe_divide` protects against) -/
def plainDivide (num : Num α) (a b : α) : α := num.div a b

/-- `(data ** 2).sum(complex_dim)` at one entry -/
def sq (c : α × α) : α := c.1 * c.1 + c.2 * c.2

/-- the values of all coils at pixel `p` (the fibre along the coil axis) -/
def fibre (S : SMap α) (p : Nat) : List (α × α) := S.filterMap (·[p]?)

/-- `(data ** 2).sum(complex_dim).sum(coil_dim)` at pixel `p` -/
def sumSqAt (S : SMap α) (p : Nat) : α := ((fibre S p).map sq).sum

/-- `torch.sqrt((data ** 2).sum(complex_dim).sum(coil_dim))` at pixel `p` — both
`root_sum_of_squares(acs_image, dim=coil_dim)` and `sensitivity_map_norm` -/
def normAt (num : Num α) (S : SMap α) (p : Nat) : α := num.sqrt (sumSqAt S p)

/-- divide every entry by a per-pixel divisor that is broadcast over coil and complex axes
(`unsqueeze(coil_dim).unsqueeze(complex_dim)`), with the given division -/
def divMapWith (dv : α → α → α) (S : SMap α) (n : Nat → α) : SMap α :=
  S.map fun coil => coil.mapIdx fun p c => (dv c.1 (n p), dv c.2 (n p))

/-- `safe_divide(S, norm.unsqueeze(coil_dim).unsqueeze(complex_dim))` -/
def divMap (num : Num α) (S : SMap α) (n : Nat → α) : SMap α := divMapWith (safeDivide num) S n

/-- `sensitivity_map = safe_divide(acs_image, rss(acs_image))` -/
def rssNormalise (num : Num α) (a : SMap α) : SMap α := divMap num a (normAt num a)

/-- the renormalisation step at the end of `EstimateSensitivityMapModule.forward` and of
`compute_sensitivity_map`: `safe_divide(S, sqrt((S**2).sum(complex).sum(coil)))` -/
def renorm (num : Num α) (S : SMap α) : SMap α := divMap num S (normAt num S)

/-- `SensitivityMapType.RSS_ESTIMATE`: order `safe_divide → norm over coil axis → safe_divide` -/
def estimateRSS (num : Num α) (acsImage : SMap α) : SMap α := renorm num (rssNormalise num acsImage)

/-- `MRIModelEngine.compute_sensitivity_map`: refine (only multi-coil data and only when a
sensitivity model exists), then renormalise.  `refine` is the network: arbitrary. -/
def computeSensitivityMap (num : Num α) (hasModel : Bool) (refine : SMap α → SMap α) (S : SMap α) :
    SMap α :=
  renorm num (if S.length > 1 ∧ hasModel = true then refine S else S)

/-- the same pipeline with the guard of `safe_divide` removed (for the witness theorems) -/
def renormUnguarded (num : Num α) (S : SMap α) : SMap α :=
  divMapWith (plainDivide num) S (normAt num S)

end

/-- `SensitivityMapType.UNIT`: `S[..., 0] = 1`, then the common renormalisation -/
def unitMap {α : Type} [Zero α] [One α] (coils pixels : Nat) : SMap α :=
  List.replicate coils (List.replicate pixels (1, 0))

def estimateUnit {α : Type} [Zero α] [One α] [Add α] [Mul α] [DecidableEq α] (num : Num α)
    (coils pixels : Nat) : SMap α :=
  renorm num (unitMap coils pixels)

/-! ## exact rational execution -/

/-- square root on rationals, exact on squares of rationals (the driver checks exactness) -/
def ratSqrt (q : Rat) : Rat :=
  if q.num < 0 then 0 else (Nat.sqrt q.num.toNat : Rat) / (Nat.sqrt q.den : Rat)

/-- division by zero yields a poison value: by `Props/C09` no result depends on it -/
def ratNum : Num Rat := { div := fun a b => if b = 0 then 1000003 else a / b, sqrt := ratSqrt }

/-- the axes the code reduces over / re-inserts, as the model assumes them: sum over the complex
axis (-1) then the coil axis (1), unsqueeze coil then complex -/
def normAxes : List Int × List Int := ([-1, 1], [1, -1])

/-- the norm computation as the model assumes it: (`torch.sqrt` applied, exponent, sum axes in
order, unsqueeze axes in order) -/
def normPlan : Bool × Int × List Int × List Int := (true, 2, normAxes.1, normAxes.2)

/-- statement order of the RSS branch + tail of `EstimateSensitivityMapModule.forward`
(= `estimateRSS`: `renorm ∘ rssNormalise`) -/
def estimateOrder : List String :=
  ["safe_divide:self.estimate_acs_image(sample)/rss(same)", "safe_divide:<maps>/norm(same)"]

/-- statement order of `compute_sensitivity_map` (= `computeSensitivityMap`: refine, then `renorm`) -/
def engineOrder : List String :=
  ["refine", "safe_divide:<maps>/norm(same)"]

/-! ## layout: `(batch, coil, *spatial, complex = 2)` ↔ `[coil][pixel]`, reductions and unsqueezes -/

/-- entry `(b, c, p, k)` of a flat row-major tensor of shape `(B, C, P, 2)` (row-major offsets are
`Mask.ravelR`, whose inverse laws are proved in `Lemmas/C03`) -/
def flatEntry (B C P : Nat) (data : List Int) (b c p k : Nat) : Int :=
  data.getD (Mask.ravelR [2, P, C, B] [k, p, c, b]) 0

/-- batch item `b` of a `(B, C, P, 2)` tensor as a map `[coil][pixel] ↦ (re, im)` -/
def toSMap (B C P : Nat) (data : List Int) (b : Nat) : SMap Rat :=
  (List.range C).map fun c => (List.range P).map fun p =>
    ((flatEntry B C P data b c p 0 : Rat), (flatEntry B C P data b c p 1 : Rat))

/-- Python `shape` after `.sum(ax)` (axis removed), negative axes counted from the end -/
def pySumShape (s : List Nat) (ax : Int) : List Nat :=
  let i := (if ax < 0 then ax + s.length else ax).toNat
  s.take i ++ s.drop (i + 1)

/-- Python `shape` after `.unsqueeze(ax)` -/
def pyUnsqueeze (s : List Nat) (ax : Int) : List Nat :=
  let i := (if ax < 0 then ax + s.length + 1 else ax).toNat
  s.take i ++ [1] ++ s.drop i

/-- shape of the divisor the code builds from a `(…)` plan for a map of shape `s` -/
def divisorShape (plan : Bool × Int × List Int × List Int) (s : List Nat) : List Nat :=
  (plan.2.2.2).foldl pyUnsqueeze ((plan.2.2.1).foldl pySumShape s)

/-- accepted norm plans: square root of the sum of squares over complex (-1) then coil (1) axis,
re-inserted in either order (`unsqueeze(1).unsqueeze(-1)` or `unsqueeze(-1).unsqueeze(1)`) -/
def planWf (plan : Bool × Int × List Int × List Int) : Bool :=
  plan.1 && plan.2.1 == 2 && plan.2.2.1 == [-1, 1] && (plan.2.2.2 == [1, -1] || plan.2.2.2 == [-1, 1])

/-- functions with their own sensitivity-map normalisation that the oracle observes on the real module -/
def ownNormalisationCovered : List String := ["JointICNet.forward"]

/-- a sensitivity-map site `(file, function, kind)` is accounted for when it calls the verified
`compute_sensitivity_map`, or normalises itself inside a function the oracle observes -/
def sensSiteAccounted (s : String × String × String) : Bool :=
  s.2.2 == "call:compute_sensitivity_map" || (s.2.2 == "own-normalisation" && ownNormalisationCovered.contains s.2.1)

/-- keys the pipeline's `Normalize` may rescale: never the sensitivity map -/
def normalizeKeysAllowed : List String := ["KspaceKey.KSPACE", "KspaceKey.MASKED_KSPACE"]


/-! ## phase 3: the ACS k-space (mask and Gaussian window), the three map types, the ESPIRiT tail,
the engine's choice of refinement model -/

section acs
variable {α : Type} [Zero α] [Add α] [Mul α] [DecidableEq α]

/-- multiply every entry of pixel `p` by `w p` (broadcast over coil and complex axes): `kspace * acs_mask`,
`… * gaussian_mask`, `… * (max_eig > crop)` -/
def weightPixels (w : Nat → α) (S : SMap α) : SMap α := divMapWith (fun a b => a * b) S w

/-- the scalar operations of the Gaussian window that are not ring operations: integer literals
and `x ↦ exp (-x)` -/
structure WinNum (α : Type) where
  ofInt : Int → α
  expNeg : α → α

/-- `torch.linspace(-1, 1, W)[j]`: the single point of `linspace(-1, 1, 1)` is the start value `-1`
(no division); for `W ≥ 2` it is `(2 j - (W - 1)) / (W - 1)` -/
def linspaceCoord (num : Num α) (wn : WinNum α) (W j : Nat) : α :=
  if W ≤ 1 then wn.ofInt (-1) else num.div (wn.ofInt (2 * (j : Int) - ((W : Int) - 1))) (wn.ofInt ((W : Int) - 1))

/-- the seeded variant `(arange(W) - W // 2) / (W // 2)` (for the witness theorem): divides by `0` at `W = 1` -/
def arangeCoord (num : Num α) (wn : WinNum α) (W j : Nat) : α :=
  num.div (wn.ofInt ((j : Int) - ((W / 2 : Nat) : Int))) (wn.ofInt ((W / 2 : Nat) : Int))

/-- `(gaussian_mask / sigma) ** 2` at column `j` -/
def gaussExponent (num : Num α) (coord : Nat → Nat → α) (sigma : α) (W j : Nat) : α :=
  num.div (coord W j) sigma * num.div (coord W j) sigma

/-- `torch.exp(-((gaussian_mask / sigma) ** 2))` at column `j` -/
def gaussWeight (num : Num α) (wn : WinNum α) (sigma : α) (W j : Nat) : α :=
  wn.expNeg (gaussExponent num (linspaceCoord num wn) sigma W j)

/-- `if self.gaussian_sigma == 0 or not self.gaussian_sigma`: `None` and `0` switch the window off -/
def gaussianActive (sigma : Option α) : Option α :=
  match sigma with
  | none => none
  | some s => if s = 0 then none else some s

/-- `T.apply_mask(kspace, acs_mask, return_mask=False)` = `torch.where(mask == 0, 0.0, kspace)`: entries off the
mask are exactly `0` whatever the data (also `±inf`), entries on the mask are the data unchanged (no
multiplication by the mask value) -/
def maskPixels (m : Nat → α) (S : SMap α) : SMap α :=
  S.map fun coil => coil.mapIdx fun p c => if m p = 0 then ((0 : α), (0 : α)) else c

/-- the masked (and weighted) k-space of `estimate_acs_image`; `W` = size of the width axis (dim -2), the
column of the flattened pixel `p` is `p % W` -/
def acsKspace (num : Num α) (wn : WinNum α) (sigma : Option α) (W : Nat) (k : SMap α) (m : Nat → α) : SMap α :=
  match gaussianActive sigma with
  | none => maskPixels m k
  | some s => weightPixels (fun p => gaussWeight num wn s W (p % W)) (maskPixels m k)

/-- `estimate_acs_image`: the backward operator `B` (inverse FFT) is arbitrary -/
def estimateAcsImage (num : Num α) (wn : WinNum α) (B : SMap α → SMap α) (sigma : Option α) (W : Nat)
    (k : SMap α) (m : Nat → α) : SMap α :=
  B (acsKspace num wn sigma W k m)

end acs

/-- `SensitivityMapType` -/
inductive MapType where
  | unit | rssEstimate | espirit
  deriving DecidableEq, Repr

/-- `EstimateSensitivityMapModule.forward`: the three branches all flow into the common renormalisation;
`calib` is the output of the ESPIRiT calibrator (arbitrary) -/
def forwardMap {α : Type} [Zero α] [One α] [Add α] [Mul α] [DecidableEq α] (num : Num α) (ty : MapType)
    (calib acsImage : SMap α) (coils pixels : Nat) : SMap α :=
  renorm num (match ty with
    | .unit => unitMap coils pixels
    | .rssEstimate => rssNormalise num acsImage
    | .espirit => calib)

/-- `if sample[self.kspace_key].ndim > 5: raise NotImplementedError` in the ESPIRiT branch (batched rank) -/
def espiritRankLimit : Int := 5
def espiritSupported (rank : Nat) : Bool := decide ((rank : Int) ≤ espiritRankLimit)

section espirit
variable {α : Type} [Zero α] [Add α] [Mul α] [DecidableEq α]

/-- ESPIRiT, last lines of `calculate_sensitivity_map`: `x * x.conj() / x.abs()` (an **unguarded**
division) -/
def espiritPhase (num : Num α) (c : α × α) : α × α := (num.div (sq c) (num.sqrt (sq c)), 0)

/-- … then `* (max_eig > crop)`; `keep p ∈ {0, 1}` -/
def espiritTail (num : Num α) (x : SMap α) (keep : Nat → α) : SMap α :=
  weightPixels keep (x.map fun coil => coil.map (espiritPhase num))

end espirit

/-! ### which refinement model the engine applies -/

/-- 0 = no refinement, 1 = `sensitivity_model` on 2-D data, 2 = `sensitivity_model_3d`, 3 = `sensitivity_model`
slice by slice on 3-D data, 4 = `KeyError` (2-D data, only a 3-D model registered) -/
def modelChoice (multicoil has2d has3d : Bool) (ndim : Int) : Nat :=
  if multicoil && (has2d || has3d) then
    if ndim = 2 then (if has2d then 1 else 4)
    else if has3d then 2 else (if has2d then 3 else 4)
  else 0

/-- apply a `permute` tuple to a shape -/
def permuteShape (perm : List Nat) (s : List Nat) : List Nat := perm.map fun i => s.getD i 0

/-- `q` undoes `p` (as `permute` tuples of the same length) -/
def permInverse (p q : List Nat) : Bool :=
  p.length == q.length && (List.range p.length).all fun i => p.getD (q.getD i p.length) p.length == i

/-- channel-first permutations of `compute_sensitivity_map` as the model assumes them -/
def permIn2d : List Nat := [0, 1, 4, 2, 3]
def permOut2d : List Nat := [0, 1, 3, 4, 2]
def permIn3d : List Nat := [0, 1, 5, 2, 3, 4]
def permOut3d : List Nat := [0, 1, 3, 4, 5, 2]

/-! ### structural tables (purity, single definition, option forwarding) -/

/-- an effect row `(function, kind, target)` of the (semantic) effects table is harmless: rows exist only for writes that
reach an input (a parameter or a view of one), instance state, dictionary keys of a parameter, in-place calls on inputs, and
for the return structure; the only admissible ones are the write of the output key and a single final return -/
def effectAllowed (e : String × String × String) : Bool :=
  (e.2.1 == "dict-key-write" && e.1 == "EstimateSensitivityMapModule.forward" && e.2.2 == "sensitivity_map") ||
  (e.2.1 == "return-count" && e.2.2 == "1")

/-- an enum-valued option may only be compared with `==` / `!=` (case-insensitive against every accepted string form);
`is`, `in <set/dict>`, `match`, hashed literals and look-ups distinguish a string in another case from the member.  A key
option (`kspace_key`) may in addition be used as a dictionary key, which is what it is. -/
def enumCompareOk (r : String × String × String) : Bool :=
  r.2.2 == "==" || r.2.2 == "!=" || (r.2.2 == "subscript-key" && r.2.1 == "kspace_key")

/-- forwarding rows `(builder, constructor keyword, expression)` required of every place that constructs the module -/
def forwardingRequired : List (String × String) :=
  [("kspace_key", "KspaceKey.KSPACE"), ("backward_operator", "backward_operator"),
   ("type_of_map", "sensitivity_maps_type"), ("gaussian_sigma", "sensitivity_maps_gaussian"),
   ("espirit_threshold", "sensitivity_maps_espirit_threshold"),
   ("espirit_kernel_size", "sensitivity_maps_espirit_kernel_size"),
   ("espirit_crop", "sensitivity_maps_espirit_crop"), ("espirit_max_iters", "sensitivity_maps_espirit_max_iters")]

def forwardingOk (site : String × List (String × String)) : Bool :=
  forwardingRequired.all fun r => site.2.contains r

/-- the branch table of `forward`: `(map type tested, what the branch leaves in sensitivity_map)` — `forwardMap` -/
def forwardBranches : List (String × String) :=
  [("UNIT", "unit-fill"), ("RSS_ESTIMATE", "safe_divide:self.estimate_acs_image(sample)/rss(same)"),
   ("else", "espirit_calibrator")]

/-- the only write to the output key is the guarded division of the common tail -/
def forwardOutputWrites : List String := ["safe_divide:<maps>/norm(same)"]

/-- the Gaussian window as the model assumes it: `linspace(-1, 1, size of the width axis)`, exponent divided by sigma -/
def windowLinspace : Int × Int × String × String := (-1, 1, "width_dim", "self.gaussian_sigma")

/-- guard of the window (`gaussianActive`), evaluated on the probe values None, 0, 0.0, 0.5, -2.0: on exactly for the
non-zero numbers -/
def windowOnFor : List String := ["0.5", "-2.0"]

/-- the ACS mask is applied by `apply_mask` (`maskPixels`) and by nothing else -/
def acsMaskPrimitives : List String := ["T.apply_mask"]

/-- `maskPixels`: the `torch.where` of `apply_mask` — (condition, value where it holds, value elsewhere) -/
def applyMaskWhere : String × String × String := ("mask == 0", "0", "kspace")

/-- the options `build_mri_transforms` must hand through unchanged -/
def passthroughRequired : List (String × String) :=
  ["estimate_sensitivity_maps", "sensitivity_maps_type", "sensitivity_maps_gaussian", "sensitivity_maps_espirit_threshold",
   "sensitivity_maps_espirit_kernel_size", "sensitivity_maps_espirit_crop", "sensitivity_maps_espirit_max_iters"].map fun n => (n, n)

/-- the one definition of `compute_sensitivity_map` -/
def computeDefs : List (String × String) := [("direct/nn/mri_models.py", "MRIModelEngine.compute_sensitivity_map")]

/-! ### exact rational execution of the window -/

/-- `exp (-x)` is replaced by the positive rational surrogate `1 / (1 + x)` (`x ≥ 0` is a square): by
`Props/C09.renorm_weight_invariant` the map does not depend on which positive weights are used when the
backward operator acts pixel-wise, which is the situation the driver is compared in -/
def ratWin : WinNum Rat := { ofInt := fun n => (n : Rat), expNeg := fun x => 1 / (1 + x) }

end DirectVerif.Sens
