/-!
# Basic executable vocabulary shared by all models (import-free)

* Python integer semantics: `//` is `Int.fdiv`, `%` is `Int.fmod` (the translator emits these).
* Flat row-major tensors `(shape, data)` and `alongAxis`, the lifting of a 1-D list function to one
  axis of an n-D tensor (this is how `narrow`/`cat`/slicing/`F.pad` act on one axis).
-/
namespace DirectVerif

/-- Python `a // b`. -/
@[inline] def pyDiv (a b : Int) : Int := Int.fdiv a b
/-- Python `a % b`. -/
@[inline] def pyMod (a b : Int) : Int := Int.fmod a b
/-- Python `max(a, b)` / `min(a, b)` on ints. -/
@[inline] def pyMax (a b : Int) : Int := if a ≥ b then a else b
@[inline] def pyMin (a b : Int) : Int := if a ≤ b then a else b

/-- Python slice `xs[lo:hi]` for already-normalised (non-negative) bounds. -/
def slice {α} (xs : List α) (lo hi : Nat) : List α := (xs.take hi).drop lo

/-- Python slice `xs[lo:hi]` with Python's treatment of negative and out-of-range bounds. -/
def pySlice {α} (xs : List α) (lo hi : Int) : List α :=
  let n : Int := xs.length
  let norm (i : Int) : Nat := (if i < 0 then max (i + n) 0 else min i n).toNat
  slice xs (norm lo) (norm hi)

/-- Split a list into consecutive chunks of length `k` (`k > 0`); `xs.length` a multiple of `k`. -/
def chunksOf {α} (k : Nat) (xs : List α) : List (List α) :=
  if _h : k = 0 ∨ xs = [] then [] else
    xs.take k :: chunksOf k (xs.drop k)
termination_by xs.length
decreasing_by
  have h1 : k ≠ 0 := fun e => _h (Or.inl e)
  have h2 : xs ≠ [] := fun e => _h (Or.inr e)
  have : 0 < xs.length := List.length_pos_iff.mpr h2
  simp only [List.length_drop]; omega

def prod (s : List Nat) : Nat := s.foldl (· * ·) 1

/-- A flat row-major tensor. -/
structure Tensor (α : Type) where
  shape : List Nat
  data : List α
deriving Repr, BEq, DecidableEq

namespace Tensor

def wellFormed {α} (t : Tensor α) : Bool := t.data.length == prod t.shape

/-- Apply `f` (a function on 1-D lists, all results of equal length) along `axis`.
Row-major: view as `outer × n × inner`; for each outer block and inner offset take the strided
fibre, apply `f`, and re-interleave. -/
def alongAxis {α} [Inhabited α] (t : Tensor α) (axis : Nat) (f : List α → List α) : Tensor α :=
  let n := t.shape.getD axis 1
  let inner := prod (t.shape.drop (axis + 1))
  let outer := prod (t.shape.take axis)
  let arr := t.data.toArray
  -- fibres indexed by (o, i)
  let fibres : List (List α) := (List.range outer).flatMap fun o =>
    (List.range inner).map fun i =>
      f ((List.range n).map fun k => arr[o * n * inner + k * inner + i]!)
  let m := match fibres with | [] => (f ((List.range n).map fun _ => default)).length | x :: _ => x.length
  let farr := fibres.toArray.map List.toArray
  let data := (List.range outer).flatMap fun o =>
    (List.range m).flatMap fun k =>
      (List.range inner).map fun i => (farr[o * inner + i]!)[k]!
  { shape := t.shape.set axis m, data := data }

/-- multi-index -> flat offset -/
def offset (shape idx : List Nat) : Nat :=
  (shape.zip idx).foldl (fun acc (n, i) => acc * n + i) 0

end Tensor

/-- integer lists `[a, a+1, …, b-1]` -/
def irange (a b : Int) : List Int := (List.range (b - a).toNat).map fun (k : Nat) => a + (k : Int)

end DirectVerif
