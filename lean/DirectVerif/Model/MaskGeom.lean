import DirectVerif.Model.Basic
/-!
# C04 / C06 — geometry of the sampling-mask generators (model of `direct/common/subsample.py`)

Everything is a small total executable function.  Masks are boolean lists (one row vector of a line
generator, or one flattened `rows × cols` frame of a 2-D generator); the random / rasterised interior
of a generator is an *input* (`interior : List (List Bool)`, one entry per frame) so that the
theorems hold for every draw.  Floating point glue (`round(num_cols * center_fraction)`,
`round(num_cols / acceleration)`, `int(sqrt(rows * cols * scale / pi))`, the radii `1, 1.1, 1.2, …`
of the CIRCUS disc search) is computed by the caller and enters as integers.

* `maskShape`, `reshapeAndAddCoil`  — `BaseMaskFunc._reshape_and_add_coil_axis`
* `callGuard`, `ktGuard`           — rank checks of `BaseMaskFunc.__call__` / `Kt*MaskFunc.mask_func`
* `broadcastRows`                  — `CartesianVerticalMaskFunc._broadcast_mask`
* `centerMask`                     — `CartesianVerticalMaskFunc.center_mask_func`
* `zeroPadStart`, `zeroPadRow`     — `KtBaseMaskFunc.zero_pad_to_center`
* `numLowFreqs`, `magicCap`        — the `num_low_freqs` glue
* `centeredDisk`, `circusDisc`     — `centered_disk_mask`, `CIRCUSMaskFunc.circular_centered_mask`
* `magicPattern`, `gaussLoop`      — interiors that are fully determined by integer draws
* `bisect`                         — the bisection wrapper of `VariableDensityPoissonMaskFunc.poisson`
* `assemble`                       — per generator: the final `pattern ∨ acs`, row tiling, reshape
-/
namespace DirectVerif.MaskGeom
open DirectVerif

/-! ## modes, errors -/

inductive Mode where
  | static | dynamic | multislice
deriving DecidableEq, Repr

/-- `self.mode in [MaskFuncMode.DYNAMIC, MaskFuncMode.MULTISLICE]` -/
def Mode.framed : Mode → Bool
  | .static => false
  | .dynamic => true
  | .multislice => true

inductive Err where
  | valueError | runtimeError | indexError
deriving DecidableEq, Repr

def Err.name : Err → String
  | .valueError => "ValueError"
  | .runtimeError => "RuntimeError"
  | .indexError => "IndexError"

/-! ## `__call__` guards -/

/-- `BaseMaskFunc.__call__`: `len(shape) < 3` → ValueError; framed mode and `len(shape) < 4` →
ValueError. -/
def callRejects (framed : Bool) (rank : Int) : Bool := rank < 3 || (framed && rank < 4)

def callGuard (m : Mode) (rank : Nat) : Except Err Unit :=
  if callRejects m.framed rank then .error .valueError else .ok ()

/-- `Kt*MaskFunc.mask_func`: `len(shape) not in [4, 5]` → ValueError. -/
def ktGuard (rank : Nat) : Except Err Unit :=
  if rank = 4 ∨ rank = 5 then .ok () else .error .valueError

/-! ## `_reshape_and_add_coil_axis` -/

/-- Python `xs[-k]` for `1 ≤ k ≤ len(xs)`. -/
def fromEnd (xs : List Nat) (k : Nat) : Nat := xs.getD (xs.length - k) 1
/-- Python `xs[-k] = v` for `1 ≤ k ≤ len(xs)`. -/
def setFromEnd (xs : List Nat) (k v : Nat) : List Nat := xs.set (xs.length - k) v

/-- The assignments `mask_shape[-k] = shape[-j]` the code performs unconditionally / only in the
framed modes, as data (compared with the translated tables). -/
def reshapeAssign : List (Nat × Nat) := [(2, 2), (3, 3)]
def reshapeAssignFramed : List (Nat × Nat) := [(4, 4)]

def applyAssign (shape : List Nat) (acc : List Nat) (tbl : List (Nat × Nat)) : List Nat :=
  tbl.foldl (fun a (kj : Nat × Nat) => setFromEnd a kj.1 (fromEnd shape kj.2)) acc

/-- `mask_shape`: ones, except `[-2] = num_cols`, `[-3] = num_rows` and, in the framed modes,
`[-4] = shape[-4]`. -/
def maskShapeNoCoil (m : Mode) (shape : List Nat) : List Nat :=
  let s := applyAssign shape (shape.map fun _ => 1) reshapeAssign
  if m.framed then applyAssign shape s reshapeAssignFramed else s

/-- shape of the returned tensor: a leading coil axis of size one (`mask[None, ...]`). -/
def maskShape (m : Mode) (shape : List Nat) : List Nat := 1 :: maskShapeNoCoil m shape

/-- smallest rank for which every negative index used exists -/
def neededRank (m : Mode) : Nat := if m.framed then 4 else 3

/-- `_reshape_and_add_coil_axis(mask, shape)`: `mask.reshape(*mask_shape).bool()[None, ...]`. -/
def reshapeAndAddCoil (m : Mode) (mask : Tensor Int) (shape : List Nat) : Except Err (Tensor Bool) :=
  if shape.length < neededRank m then .error .indexError
  else if mask.data.length ≠ prod (maskShapeNoCoil m shape) then .error .runtimeError
  else .ok { shape := maskShape m shape, data := mask.data.map (· != 0) }

/-! ## `_broadcast_mask` -/

/-- `np.tile(row, (num_rows, 1))` flattened -/
def tileRows {α} (numRows : Nat) (row : List α) : List α := (List.replicate numRows row).flatten

/-- The branches of `_broadcast_mask` as data: `(ndim, reps)` with `0` standing for `num_rows`;
the 2-D branch inserts the new axis at position 1 (`mask[:, np.newaxis, :]`). -/
def broadcastBranches : List (Nat × List Nat) := [(1, [0, 1]), (2, [1, 0, 1])]

/-- `_broadcast_mask(mask, num_rows)`: 1-D `(n)` → `(num_rows, n)`; 2-D `(f, n)` → `(f, num_rows, n)`;
anything else → ValueError. -/
def broadcastRows {α} (t : Tensor α) (numRows : Nat) : Except Err (Tensor α) :=
  match t.shape with
  | [n] => .ok { shape := [numRows, n], data := tileRows numRows t.data }
  | [f, n] => .ok { shape := [f, numRows, n], data := ((chunksOf n t.data).map (tileRows numRows)).flatten }
  | _ => .error .valueError

/-! ## the centre (ACS) block of the line generators -/

/-- `pad = (num_cols - num_low_freqs + 1) // 2` -/
def centerPad (n l : Int) : Int := (n - l + 1) / 2

/-- Python's normalisation of a slice bound on an axis of length `n`. -/
def normIdx (n : Nat) (i : Int) : Nat := (if i < 0 then max (i + n) 0 else min i n).toNat

/-- `mask = zeros(n); mask[lo:hi] = True` -/
def sliceMask (n : Nat) (lo hi : Int) : List Bool :=
  (List.range n).map fun i => decide (normIdx n lo ≤ i ∧ i < normIdx n hi)

/-- `center_mask_func(num_cols, num_low_freqs)` -/
def centerMask (n : Nat) (l : Int) : List Bool := sliceMask n (centerPad n l) (centerPad n l + l)

/-- `zero_pad_to_center`: start of the inserted block on one axis (repaired code) -/
def zeroPadStart (target current : Int) : Int := (target - current + 1) / 2
/-- the start used by the pinned tree (off-centre for odd differences) -/
def zeroPadStartPinned (target current : Int) : Int := (target - current) / 2

/-- one axis of `zero_pad_to_center(ones(l), [n])` with a given start formula: `none` when numpy
cannot broadcast the block into the slice (`l > n`). -/
def zeroPadRowWith (start : Int → Int → Int) (n l : Nat) : Option (List Bool) :=
  if l = n then some (List.replicate n true)
  else if n < l then none
  else some (sliceMask n (start n l) (start n l + l))

def zeroPadRow (n l : Nat) : Option (List Bool) := zeroPadRowWith zeroPadStart n l

/-- general 1-D `zero_pad_to_center(array, [target])` -/
def zeroPad1d {α} (fill : α) (xs : List α) (target : Nat) : Option (List α) :=
  if xs.length = target then some xs
  else if target < xs.length then none
  else
    let s := (zeroPadStart target xs.length).toNat
    some (List.replicate s fill ++ xs ++ List.replicate (target - s - xs.length) fill)

/-- number of true entries among the first `n` indices -/
def countIn (p : Nat → Bool) (n : Nat) : Nat := ((List.range n).filter p).length

/-- ACS columns strictly left / strictly right of the centre column `n / 2` -/
def leftCount (mask : List Bool) : Nat :=
  countIn (fun i => decide (i < mask.length / 2) && mask.getD i false) mask.length
def rightCount (mask : List Bool) : Nat :=
  countIn (fun i => decide (mask.length / 2 < i) && mask.getD i false) mask.length

/-! ## `num_low_freqs` glue -/

/-- Random / Equispaced: `if center_fraction < 1.0: int(round(num_cols * cf)) else int(cf)`;
`rounded` is `round(num_cols * cf)` (Python half-even rounding of the float product), `count` is
`int(cf)`. -/
def numLowFreqs (isFraction : Bool) (rounded count : Int) : Int := if isFraction then rounded else count

/-- Magic: `max(min(num_low_freqs, target_cols_to_sample), 1)` with
`target_cols_to_sample = int(round(num_cols / acceleration))`. -/
def magicCap (l target : Int) : Int := pyMax (pyMin l target) 1

/-- Python `round(a / b)` for positive integers (half-even), exact in integers. -/
def roundDiv (a b : Nat) : Nat :=
  let q := a / b
  let r := a % b
  if 2 * r < b then q else if 2 * r > b then q + 1 else if q % 2 = 0 then q else q + 1

/-- Magic: `adjusted_acceleration = round(num_cols / (target - num_low_freqs))`, `0` when the budget
is used up by the ACS block. -/
def magicAdjusted (n : Nat) (target l : Int) : Nat :=
  if target - l > 0 then roundDiv n (target - l).toNat else 0

/-! ## Magic interior (fully integer) -/

/-- `m = zeros(len); m[off::step] = True` -/
def strided (len off step : Nat) : List Bool :=
  (List.range len).map fun i => decide (off ≤ i ∧ step ≠ 0 ∧ (i - off) % step = 0)

/-- `np.fft.fftshift` of a 1-D array: roll by `n // 2`. -/
def npFftshift {α} (xs : List α) : List α :=
  let s := xs.length / 2
  if s = 0 then xs else xs.drop (xs.length - s) ++ xs.take (xs.length - s)

/-- `offset_pos`, `offset_neg`, `poslen`, `neglen` of `MagicMaskFunc.mask_func` -/
def magicOffPos (offset : Int) : Int := if offset % 2 = 0 then offset + 1 else offset - 1 + 3
def magicOffNeg (offset : Int) : Int := if offset % 2 = 0 then offset + 2 else offset - 1 + 0
def magicPosLen (n : Int) : Int := (n + 1) / 2
def magicNegLen (n : Int) : Int := n - (n + 1) / 2

/-- One frame of `MagicMaskFunc.mask_func` for the drawn `offset`. -/
def magicPattern (n adj offset : Nat) : List Bool :=
  npFftshift (strided (magicPosLen n).toNat (magicOffPos offset).toNat adj ++
    (strided (magicNegLen n).toNat (magicOffNeg offset).toNat adj).reverse)

/-! ## Gaussian rejection loop (`gaussian_mask_1d` / `gaussian_mask_2d`) -/

/-- `while count <= nonzero_count: draw ind; if 0 <= ind < n and mask[ind] != 1: mask[ind] = 1; count += 1`
over a finite candidate list (the fuel).  `need = nonzero_count + 1` cells are still to be added.
Returns the mask and the number of cells still missing (`0` = the loop has exited). 2-D candidates
are passed as flat indices, out-of-range ones as `-1`. -/
def gaussLoop : (need : Nat) → (mask : List Bool) → (cands : List Int) → List Bool × Nat
  | 0, mask, _ => (mask, 0)
  | need + 1, mask, [] => (mask, need + 1)
  | need + 1, mask, c :: cs =>
    if 0 ≤ c ∧ c < mask.length ∧ mask.getD c.toNat true = false then
      gaussLoop need (mask.set c.toNat true) cs
    else gaussLoop (need + 1) mask cs

/-- number of candidates consumed before the loop exits (the whole list if it does not) -/
def gaussConsumed : (need : Nat) → (mask : List Bool) → (cands : List Int) → Nat
  | 0, _, _ => 0
  | _ + 1, _, [] => 0
  | need + 1, mask, c :: cs =>
    if 0 ≤ c ∧ c < mask.length ∧ mask.getD c.toNat true = false then
      gaussConsumed need (mask.set c.toNat true) cs + 1
    else gaussConsumed (need + 1) mask cs + 1

/-- free cells -/
def freeCount (mask : List Bool) : Nat := mask.count false

/-! ## discs -/

/-- `centered_disk_mask((rows, cols), scale)` with `radius = int(sqrt(rows * cols * scale / pi))`:
`(x - rows // 2)² + (y - cols // 2)² < radius²`, flattened row-major. -/
def sq (a : Int) : Int := a * a

def inDisk (rows cols : Nat) (radius : Int) (x y : Nat) : Bool :=
  decide (sq ((x : Int) - (rows / 2 : Nat)) + sq ((y : Int) - (cols / 2 : Nat)) < sq radius)

def centeredDisk (rows cols : Nat) (radius : Int) : List Bool :=
  (List.range (rows * cols)).map fun k => inDisk rows cols radius (k / cols) (k % cols)

/-- CIRCUS: `disk = (Y - c0)² + (X - c1)² <= radius²` for a float radius, i.e. `d² ≤ thr` with
`thr = floor(radius²)`. -/
def inDiskLe (rows cols : Nat) (thr : Int) (x y : Nat) : Bool :=
  decide (sq ((x : Int) - (rows / 2 : Nat)) + sq ((y : Int) - (cols / 2 : Nat)) ≤ thr)

def diskLe (rows cols : Nat) (thr : Int) : List Bool :=
  (List.range (rows * cols)).map fun k => inDiskLe rows cols thr (k / cols) (k % cols)

def andL (a b : List Bool) : List Bool := List.zipWith (· && ·) a b
def orL (a b : List Bool) : List Bool := List.zipWith (· || ·) a b

/-- `CIRCUSMaskFunc.circular_centered_mask(mask, eps = 0.1)` over the finite list of thresholds
`floor(radius_k²)`, `radius_k = 1, 1 + eps, …` (the fuel): the first intersection `disk ∩ mask` with
`|disk| / |disk ∩ mask| > 1 + eps`, i.e. `10·|disk| > 11·|disk ∩ mask|`; `none` when the list is
exhausted (the real loop would still be running). -/
def circusDisc (rows cols : Nat) (mask : List Bool) : List Int → Option (List Bool)
  | [] => none
  | thr :: rest =>
    let disk := diskLe rows cols thr
    let inter := andL disk mask
    if 10 * disk.count true > 11 * inter.count true then some inter else circusDisc rows cols mask rest

/-! ## bisection wrapper of `VariableDensityPoissonMaskFunc.poisson` -/

/-- outcome of one evaluation: `|R_actual − R| < tol`, `R_actual < R`, or `R_actual ≥ R` (not within) -/
inductive Verdict where
  | within | below | above
deriving DecidableEq, Repr

inductive BisectResult where
  | returned (pos : Nat)     -- mask generated at grid point `pos`
  | valueError               -- "Cannot generate mask to satisfy accel"
  | outOfFuel                -- the loop is still running
deriving DecidableEq, Repr

/-- The repaired loop on an abstract finite grid of slopes (`lo hi : Nat` are grid positions,
`mid lo hi` the float midpoint, `f` the verdict at a grid point):
```
while lo < hi:
    m = mid(lo, hi); v = f(m)
    if v == within: break
    if m in (lo, hi): break
    if v == below: lo = m  else: hi = m
if last v != within: raise ValueError
``` -/
def bisect (mid : Nat → Nat → Nat) (f : Nat → Verdict) : (fuel : Nat) → (lo hi : Nat) → BisectResult
  | 0, _, _ => .outOfFuel
  | fuel + 1, lo, hi =>
    if lo < hi then
      let m := mid lo hi
      match f m with
      | .within => .returned m
      | .below => if m = lo ∨ m = hi then .valueError else bisect mid f fuel m hi
      | .above => if m = lo ∨ m = hi then .valueError else bisect mid f fuel lo m
    else .valueError   -- loop not entered again: the last verdict was not `within`

/-- the pinned tree's loop: no test for a midpoint that stopped moving -/
def bisectPinned (mid : Nat → Nat → Nat) (f : Nat → Verdict) : (fuel : Nat) → (lo hi : Nat) → BisectResult
  | 0, _, _ => .outOfFuel
  | fuel + 1, lo, hi =>
    if lo < hi then
      let m := mid lo hi
      match f m with
      | .within => .returned m
      | .below => bisectPinned mid f fuel m hi
      | .above => bisectPinned mid f fuel lo m
    else .valueError

/-- number of evaluations (`_poisson` calls) the repaired loop performs -/
def bisectCalls (mid : Nat → Nat → Nat) (f : Nat → Verdict) : (fuel : Nat) → (lo hi : Nat) → Nat
  | 0, _, _ => 0
  | fuel + 1, lo, hi =>
    if lo < hi then
      let m := mid lo hi
      match f m with
      | .within => 1
      | .below => if m = lo ∨ m = hi then 1 else bisectCalls mid f fuel m hi + 1
      | .above => if m = lo ∨ m = hi then 1 else bisectCalls mid f fuel lo m + 1
    else 0

/-! ## generators and their final assembly -/

inductive Gen where
  | fastmriRandom | cartesianRandom | fastmriEquispaced | cartesianEquispaced
  | fastmriMagic | cartesianMagic | gaussian1d | gaussian2d | radial | spiral | poisson
  | ktRadial | ktUniform | ktGaussian1d
deriving DecidableEq, Repr

def Gen.all : List Gen :=
  [.fastmriRandom, .cartesianRandom, .fastmriEquispaced, .cartesianEquispaced, .fastmriMagic,
   .cartesianMagic, .gaussian1d, .gaussian2d, .radial, .spiral, .poisson, .ktRadial, .ktUniform,
   .ktGaussian1d]

/-- class names (`build_masking_function` appends `"MaskFunc"` to the configured name) -/
def Gen.name : Gen → String
  | .fastmriRandom => "FastMRIRandom" | .cartesianRandom => "CartesianRandom"
  | .fastmriEquispaced => "FastMRIEquispaced" | .cartesianEquispaced => "CartesianEquispaced"
  | .fastmriMagic => "FastMRIMagic" | .cartesianMagic => "CartesianMagic"
  | .gaussian1d => "Gaussian1D" | .gaussian2d => "Gaussian2D" | .radial => "Radial"
  | .spiral => "Spiral" | .poisson => "VariableDensityPoisson" | .ktRadial => "KtRadial"
  | .ktUniform => "KtUniform" | .ktGaussian1d => "KtGaussian1D"

/-- how the ACS region of a generator is built -/
inductive Family where
  | line      -- `center_mask_func` block, rows tiled by `_broadcast_mask`
  | ktLine    -- `zero_pad_to_center` block, rows tiled by `np.tile`
  | disc      -- `centered_disk_mask`
deriving DecidableEq, Repr

def Gen.family : Gen → Family
  | .fastmriRandom | .cartesianRandom | .fastmriEquispaced | .cartesianEquispaced
  | .fastmriMagic | .cartesianMagic | .gaussian1d => .line
  | .ktUniform | .ktGaussian1d => .ktLine
  | .gaussian2d | .radial | .spiral | .poisson | .ktRadial => .disc

/-- the Kt generators fix `mode = DYNAMIC` in their constructor and do not accept a `mode` argument -/
def Gen.isKt : Gen → Bool
  | .ktRadial | .ktUniform | .ktGaussian1d => true
  | _ => false

/-- which of the keyword arguments `center_fractions, uniform_range, mode` the constructor accepts
(`build_masking_function` drops the others) -/
def Gen.accepts : Gen → Bool × Bool × Bool
  | .poisson => (true, false, true)
  | .ktRadial | .ktUniform | .ktGaussian1d => (true, true, false)
  | _ => (true, true, true)

/-- only these constructors have a `crop_corner` parameter -/
def Gen.acceptsCropCorner : Gen → Bool
  | .poisson | .ktRadial => true
  | _ => false

/-- mode of the instance `build_masking_function(name, …, mode = m)` returns -/
def Gen.effectiveMode (g : Gen) (m : Mode) : Mode := if g.isKt then .dynamic else m

/-- well-formedness of the table "what every `return` of `mask_func` is wrapped in" extracted from the
source: for each of the 14 generators at least two returns (the `return_acs` branch and the mask), each
`self._reshape_and_add_coil_axis(…, shape)`, and for the `center_mask_func` line generators each through
`self._broadcast_mask(…, num_rows)`.  Entries: `(wrapped, through _broadcast_mask)`. -/
def returnTableOk (tbl : List (String × List (Bool × Bool))) : Bool :=
  Gen.all.all fun g =>
    match tbl.lookup g.name with
    | some rets => decide (2 ≤ rets.length) && rets.all fun (w, b) => w && (g.family != .line || b)
    | none => false

/-- content of one frame as a boolean expression over `acs` (the frame's ACS pattern), `draw` (what is
drawn / rasterised for this frame) and `other` (anything else: a value shared between frames, another
frame, something the translator does not understand); `ite` is a choice on an unknown condition. -/
inductive BExp where
  | acs | draw | other | ff
  | or (a b : BExp)
  | ite (a b : BExp)
deriving Repr, DecidableEq

def BExp.eval (acs draw other cond : Bool) : BExp → Bool
  | .acs => acs
  | .draw => draw
  | .other => other
  | .ff => false
  | .or a b => a.eval acs draw other cond || b.eval acs draw other cond
  | .ite a b => if cond then a.eval acs draw other cond else b.eval acs draw other cond

def allBool (p : Bool → Bool) : Bool := p false && p true

/-- well-formedness of the per-generator assembly table extracted from the 14 `mask_func` bodies: the mask
branch is `draw ∨ acs` of the *same frame* and the `return_acs` branch is `acs`, whatever `other` and the
unknown conditions are. -/
def assemblyTableOk (tbl : List (String × BExp × BExp)) : Bool :=
  Gen.all.all fun g =>
    match tbl.lookup g.name with
    | some (m, a) =>
      allBool fun acs => allBool fun draw => allBool fun other => allBool fun cond =>
        (m.eval acs draw other cond == (draw || acs)) && (a.eval acs draw other cond == acs)
    | none => false

/-- the constructor-parameter table `build_masking_function` filters its keyword arguments with:
`(name, accepts center_fractions, uniform_range, mode, crop_corner)` -/
def buildTable : List (String × Bool × Bool × Bool × Bool) :=
  Gen.all.map fun g => (g.name, g.accepts.1, g.accepts.2.1, g.accepts.2.2, g.acceptsCropCorner)

/-- how the ACS region is specified to `assemble` -/
inductive AcsSpec where
  | lines (l : Int)                 -- number of centre columns (after the glue / cap)
  | disc (radius : Int)             -- `centered_disk_mask` radius
  | search (thresholds : List Int)  -- CIRCUS without centre fraction: largest sampled disc search
deriving Repr

def framesOf (m : Mode) (shape : List Nat) : Nat := if m.framed then fromEnd shape 4 else 1
def rowsOf (shape : List Nat) : Nat := fromEnd shape 3
def colsOf (shape : List Nat) : Nat := fromEnd shape 2

/-- ACS pattern of one frame (a row vector for the line families, a flattened frame otherwise);
`none` = the generator raises (ValueError) or, for `search`, does not return within the fuel. -/
def acsFrame (fam : Family) (rows cols : Nat) (spec : AcsSpec) (interior : List Bool) : Option (List Bool) :=
  match fam, spec with
  | .line, .lines l => some (centerMask cols l)
  | .ktLine, .lines l => if l < 0 then none else zeroPadRow cols l.toNat
  | .disc, .disc r => some (centeredDisk rows cols r)
  | .disc, .search thr => circusDisc rows cols interior thr
  | _, _ => none

/-- lift a per-frame row vector to a flattened frame -/
def frameData (fam : Family) (rows : Nat) (pat : List Bool) : List Bool :=
  match fam with
  | .line | .ktLine => tileRows rows pat
  | .disc => pat

/-- per-frame final assembly given the frame's ACS pattern: `return_acs` → ACS, else `pattern ∨ acs`. -/
def framePattern (returnAcs : Bool) (interior acs : List Bool) : List Bool :=
  if returnAcs then acs else orL interior acs

/-- all frames (`none` when the ACS of some frame cannot be built) -/
def assembleFrames (fam : Family) (rows cols : Nat) (spec : AcsSpec) (returnAcs : Bool)
    (interior : List (List Bool)) : Option (List (List Bool)) :=
  if interior.all (fun p => (acsFrame fam rows cols spec p).isSome) then
    some (interior.map fun p =>
      frameData fam rows (framePattern returnAcs p ((acsFrame fam rows cols spec p).getD [])))
  else none

/-- expected length of one interior pattern -/
def patLen (fam : Family) (rows cols : Nat) : Nat :=
  match fam with
  | .line | .ktLine => cols
  | .disc => rows * cols

/-- `mask_func(shape, return_acs)` of generator `g` in mode `m` through `__call__`: guards, per-frame
assembly of `frames` patterns, `_reshape_and_add_coil_axis`.  `interior` holds one pattern per frame
(used for `return_acs` only by the CIRCUS disc search). -/
def assemble (g : Gen) (m : Mode) (shape : List Nat) (spec : AcsSpec) (returnAcs : Bool)
    (interior : List (List Bool)) : Except Err (Tensor Bool) :=
  match callGuard m shape.length with
  | .error e => .error e
  | .ok () =>
  match (if g.isKt then ktGuard shape.length else .ok ()) with
  | .error e => .error e
  | .ok () =>
    let rows := rowsOf shape
    let cols := colsOf shape
    match assembleFrames g.family rows cols spec returnAcs interior with
    | none => .error .valueError
    | some frames =>
      reshapeAndAddCoil m { shape := [frames.length, rows, cols], data := (frames.flatten.map fun b => if b then 1 else 0) } shape

end DirectVerif.MaskGeom
