import DirectVerif.Model.Basic
/-!
# C01 — `roll_one_dim`, `roll`, `fftshift`, `ifftshift` (models of `direct/data/transforms.py`)
-/
namespace DirectVerif.Shift

/-- `roll_one_dim` on one axis: `shift = shift % n; if shift == 0: return data;
left = narrow(0, n - shift); right = narrow(n - shift, shift); cat((right, left))`. -/
def rollOne {α} (shift : Int) (xs : List α) : List α :=
  let n := xs.length
  if n = 0 then xs else   -- Python: `shift % 0` raises ZeroDivisionError; empty axes are rejected upstream
  let s := (Int.fmod shift n).toNat
  if s = 0 then xs else xs.drop (n - s) ++ xs.take (n - s)

/-- shift amounts: `fftshift` uses `n // 2`, `ifftshift` uses `(n + 1) // 2`. -/
def fftshiftAmount (n : Int) : Int := n / 2
def ifftshiftAmount (n : Int) : Int := (n + 1) / 2

def fftshift1 {α} (xs : List α) : List α := rollOne (fftshiftAmount xs.length) xs
def ifftshift1 {α} (xs : List α) : List α := rollOne (ifftshiftAmount xs.length) xs

/-- the reference (numpy) definition: `out[(i + shift) % n] = x[i]`, i.e. `out[j] = x[(j - shift) % n]` -/
def rollRef {α} [Inhabited α] (shift : Int) (xs : List α) : List α :=
  let n : Int := xs.length
  (List.range xs.length).map fun (j : Nat) => xs.getD (Int.fmod ((j : Int) - shift) n).toNat default

open Tensor in
/-- `roll(data, shifts, dims)`: one `roll_one_dim` after the other. -/
def roll {α} [Inhabited α] (t : Tensor α) (shifts : List Int) (dims : List Nat) : Tensor α :=
  (shifts.zip dims).foldl (fun acc (s, d) => acc.alongAxis d (rollOne s)) t

def fftshift {α} [Inhabited α] (t : Tensor α) (dims : List Nat) : Tensor α :=
  roll t (dims.map fun d => fftshiftAmount (t.shape.getD d 1)) dims

def ifftshift {α} [Inhabited α] (t : Tensor α) (dims : List Nat) : Tensor α :=
  roll t (dims.map fun d => ifftshiftAmount (t.shape.getD d 1)) dims

end DirectVerif.Shift
