import DirectVerif.Model.MaskGeom
/-!
# C06 — `crop_corner` of `VariableDensityPoissonMaskFunc.poisson` and the ACS disc

```
if self.crop_corner:
    mask *= r < 1            # r = sqrt(x² + y²), x = |i − rows/2| / max, y = |j − cols/2| / max
mask = mask | centered_disk_mask((num_rows, num_cols), center_fraction)
```
(repaired order, commit 2480376).  The pinned tree applied the crop *after* the disc had been OR-ed in, while
`return_acs=True` returns the whole disc: when the disc reaches beyond the inscribed ellipse
(radius > min(rows, cols) / 2) the ACS was not a subset of the mask
(`Props/C06.lean`: `poisson_crop_corner_pinned_violates`).  `max |i − rows/2| = rows/2` (attained at `i = 0`), hence
`r < 1  ⇔  (2i − rows)²·cols² + (2j − cols)²·rows² < rows²·cols²` — integer arithmetic (compared with the float
expression on every shape up to 80 × 80 by the harness).
-/
namespace DirectVerif.C06Crop
open DirectVerif DirectVerif.MaskGeom

/-- `r < 1` at cell `(i, j)` -/
def inEllipse (rows cols i j : Nat) : Bool :=
  decide (sq (2 * (i : Int) - rows) * sq (cols : Int) + sq (2 * (j : Int) - cols) * sq (rows : Int) < sq (rows : Int) * sq (cols : Int))

def ellipse (rows cols : Nat) : List Bool :=
  (List.range (rows * cols)).map fun k => inEllipse rows cols (k / cols) (k % cols)

/-- one frame as the pinned tree computed it: `(raster ∨ disc) ∧ ellipse` -/
def poissonFramePinned (crop : Bool) (rows cols : Nat) (radius : Int) (raster : List Bool) : List Bool :=
  let m := orL raster (centeredDisk rows cols radius)
  if crop then andL m (ellipse rows cols) else m

/-- one frame as the code computes it now: crop the rasterised pattern, then OR the disc -/
def poissonFrame (crop : Bool) (rows cols : Nat) (radius : Int) (raster : List Bool) : List Bool :=
  orL (if crop then andL raster (ellipse rows cols) else raster) (centeredDisk rows cols radius)

/-- the frame assembly selected by the order of the three steps in the bisection loop, as the translator reads it -/
def frameOfOrder (order : List String) : Bool → Nat → Nat → Int → List Bool → List Bool :=
  if order = ["raster", "crop", "disc"] then poissonFrame
  else if order = ["raster", "disc", "crop"] then poissonFramePinned
  else fun _ _ _ _ _ => []

/-- is every true entry of `a` a true entry of `b`? -/
def subsetB (a b : List Bool) : Bool := (List.range a.length).all fun k => !(a.getD k false) || b.getD k false

end DirectVerif.C06Crop
