import DirectVerif.Model.Basic
/-!
# C12 — datasets: index ↦ (volume, slice), context windows, concatenation, seeded synthetic items

Models of `direct/data/h5_data.py` (`H5SliceData.parse_filenames_data`, `get_slice_data`, `__getitem__`),
`direct/data/datasets.py` (`ConcatDataset`, `FakeMRIBlobsDataset.__getitem__`,
`SheppLoganDataset.__getitem__`), `direct/data/fake.py` (`FakeMRIData.__call__/get_kspace/make_blobs`)
and `direct/data/sens.py` (`simulate_sensitivity_maps`) as the code is **now**.

Import-free apart from `Model/Basic`.  Everything is total and executable (the driver runs exactly
these definitions).
-/
namespace DirectVerif.Dataset
open DirectVerif

/-! ## Python `slice.indices` and `range` -/

/-- a Python `slice(start, stop, step)`; `none` = `None` -/
structure PySliceT where
  start : Option Int
  stop : Option Int
  step : Option Int
deriving Repr, DecidableEq

/-- `slice(start, stop, step).indices(n)` for `step ≠ 0` (CPython `_PySlice_GetLongIndices`). -/
def sliceIndices (sl : PySliceT) (n : Int) : Int × Int × Int :=
  let step := sl.step.getD 1
  let lower : Int := if step < 0 then -1 else 0
  let upper : Int := if step < 0 then n - 1 else n
  let clip (v : Int) : Int := if v < 0 then max (v + n) lower else min v upper
  let start := match sl.start with
    | none => if step < 0 then upper else lower
    | some v => clip v
  let stop := match sl.stop with
    | none => if step < 0 then lower else upper
    | some v => clip v
  (start, stop, step)

/-- `len(range(a, b, st))` -/
def rangeLen (a b st : Int) : Nat :=
  if 0 < st then (if a < b then ((b - a - 1) / st + 1).toNat else 0)
  else if st < 0 then (if b < a then ((a - b - 1) / (-st) + 1).toNat else 0)
  else 0

/-- the elements of `range(a, b, st)`, in iteration order -/
def pyRange (a b st : Int) : List Int :=
  (List.range (rangeLen a b st)).map fun (k : Nat) => a + (k : Int) * st

/-! ## `H5SliceData.parse_filenames_data` -/

/-- the slice numbers of a readable file with `n` slices that enter `self.data`, in order:
`range(num_slices)` without a filter, `[_ for _ in range(num_slices) if _ in admissible_indices]`
with `admissible_indices = range(*filter_slice.indices(num_slices))`. -/
def sliceList (filt : Option PySliceT) (n : Nat) : List Nat :=
  match filt with
  | none => List.range n
  | some sl =>
    let (a, b, st) := sliceIndices sl n
    (List.range n).filter fun x => (pyRange a b st).contains (x : Int)

/-- the value of `num_slices` when `volume_indices[filename]` is assigned: the file's slice count
without a filter, `len(admissible_indices)` with one. -/
def numSlices (filt : Option PySliceT) (n : Nat) : Nat :=
  match filt with
  | none => n
  | some sl =>
    let (a, b, st) := sliceIndices sl n
    rangeLen a b st

/-- loop state: `self.data`, `self.volume_indices` (insertion order; `(file, start, stop)`),
`current_slice_number` -/
structure Parsed (φ : Type) where
  data : List (φ × Nat) := []
  vols : List (φ × Nat × Nat) := []
  cur : Nat := 0
deriving Repr

/-- `d[key] = value` on an insertion-ordered `dict`: an existing key keeps its position and gets the new
value, a new key is appended. -/
def dictSet {φ : Type} [DecidableEq φ] (d : List (φ × Nat × Nat)) (f : φ) (v : Nat × Nat) : List (φ × Nat × Nat) :=
  if d.any (fun x => x.1 == f) then d.map fun x => if x.1 = f then (f, v) else x else d ++ [(f, v)]

/-- one iteration of the `for idx, filename in enumerate(filenames)` loop; `file.2 = none` is a file
whose opening raises `OSError` (logged and skipped by `continue`).
`self.volume_indices[filename] = range(cur, cur + num)` is a `dict` assignment. -/
def parseStep {φ : Type} [DecidableEq φ] (filt : Option PySliceT) (st : Parsed φ) (file : φ × Option Nat) :
    Parsed φ :=
  match file.2 with
  | none => st
  | some n =>
    let num := numSlices filt n
    { data := st.data ++ (sliceList filt n).map fun s => (file.1, s)
      vols := dictSet st.vols file.1 (st.cur, st.cur + num)
      cur := st.cur + num }

def parseFilenames {φ : Type} [DecidableEq φ] (files : List (φ × Option Nat)) (filt : Option PySliceT) : Parsed φ :=
  files.foldl (parseStep filt) {}

/-- what `slice_data=` was given: nothing / falsy, a `slice`, or some other truthy object -/
inductive FilterArg where
  | none
  | slice (sl : PySliceT)
  | other
deriving Repr

inductive Err where
  | valueError | indexError | notImplemented | assertionError
deriving Repr, DecidableEq

/-- `parse_filenames_data` with the exceptions it lets escape: a non-slice truthy filter raises
`NotImplementedError`, `slice.indices` raises `ValueError` for step 0 — both only once a readable
file is reached. -/
def parseChecked {φ : Type} [DecidableEq φ] (files : List (φ × Option Nat)) (f : FilterArg) : Except Err (Parsed φ) :=
  let anyReadable := files.any fun x => x.2.isSome
  match f with
  | .none => .ok (parseFilenames files none)
  | .other => if anyReadable then .error .notImplemented else .ok (parseFilenames files none)
  | .slice sl =>
    if anyReadable && sl.step == some 0 then .error .valueError else .ok (parseFilenames files (some sl))

/-! ## `H5SliceData.get_slice_data`: the context window -/

/-- an entry of the assembled stack: slice `i` of the file, or a block of zeros -/
inductive Entry where
  | slice (i : Nat)
  | zero
deriving Repr, DecidableEq

/-- `max(0, slice_no - self.kspace_context)` -/
def windowLo (s c : Int) : Int := max 0 (s - c)
/-- `min(slice_no + self.kspace_context + 1, num_slices)` -/
def windowHi (s c n : Int) : Int := min (s + c + 1) n
/-- `curr_shape[0] < 2 * self.kspace_context + 1` -/
def windowShort (len c : Int) : Bool := len < 2 * c + 1
/-- `slice_no - self.kspace_context < 0` and the block length `self.kspace_context - slice_no` -/
def fillBeforeGuard (s c : Int) : Bool := s - c < 0
def fillBeforeLen (s c : Int) : Int := c - s
/-- `self.kspace_context + slice_no > num_slices - 1` and `slice_no + self.kspace_context - num_slices + 1` -/
def fillAfterGuard (s c n : Int) : Bool := c + s > n - 1
def fillAfterLen (s c n : Int) : Int := s + c - n + 1

/-- `data[key][lo:hi]` on a file with `n` slices (`0 ≤ lo`, `hi ≤ n`) -/
def readSlices (lo hi : Int) : List Entry := (irange lo hi).map fun i => Entry.slice i.toNat

/-- the stack `get_slice_data` assembles along the slice axis for context `c ≥ 1`, file length `n`,
slice `s` — literally the code: clipped read, then (only when the read is shorter than `2c+1`) a zero
block in front and/or behind. -/
def getSliceWindow (c n s : Nat) : List Entry :=
  let cur := readSlices (windowLo s c) (windowHi s c n)
  if windowShort cur.length c then
    let cur := if fillBeforeGuard s c then
      List.replicate (fillBeforeLen s c).toNat Entry.zero ++ cur else cur
    let cur := if fillAfterGuard s c n then
      cur ++ List.replicate (fillAfterLen s c n).toNat Entry.zero else cur
    cur
  else cur

/-- the pinned (pre-repair) tree: zero fill only when `curr_shape[0] < num_slices - 1`, with
`num_slices` the length of the volume's index range. Kept as a regression example. -/
def getSliceWindowPinned (c n s : Nat) : List Entry :=
  let cur := readSlices (windowLo s c) (windowHi s c n)
  if (cur.length : Int) < (n : Int) - 1 then
    let cur := if fillBeforeGuard s c then
      List.replicate (fillBeforeLen s c).toNat Entry.zero ++ cur else cur
    let cur := if fillAfterGuard s c n then
      cur ++ List.replicate (fillAfterLen s c n).toNat Entry.zero else cur
    cur
  else cur

/-- what `get_slice_data` returns along the slice axis: the single slice for context 0
(`data[key][slice_no]`), the window otherwise -/
def sliceStack (c n s : Nat) : List Entry :=
  if c = 0 then [Entry.slice s] else getSliceWindow c n s

/-- Python list indexing `xs[idx]` (negative indices count from the end) -/
def pyIndex {α} (xs : List α) (idx : Int) : Except Err α :=
  let i := if idx < 0 then idx + xs.length else idx
  if i < 0 then .error .indexError else
  match xs[i.toNat]? with
  | some x => .ok x
  | none => .error .indexError

/-- `H5SliceData.__getitem__`: `(filename, slice_no)` and the stack of the k-space block;
`nOf` gives the number of slices in a file (read from the file at access time). -/
def h5Item {φ : Type} (P : Parsed φ) (nOf : φ → Nat) (c : Nat) (idx : Int) :
    Except Err (φ × Nat × List Entry) :=
  match pyIndex P.data idx with
  | .error e => .error e
  | .ok (f, s) => .ok (f, s, sliceStack c (nOf f) s)

/-- `pass_h5s` / `sensitivity_maps`: the same slice (same window) of the file with the same name in
another directory; `nX f` is the number of slices of *that* file. -/
def h5ItemExtra {φ : Type} (P : Parsed φ) (nX : φ → Nat) (c : Nat) (idx : Int) : Except Err (List Entry) :=
  match pyIndex P.data idx with
  | .error e => .error e
  | .ok (f, s) => .ok (sliceStack c (nX f) s)

/-! ## which files a dataset is built from (`H5SliceData.__init__`, `CMRxReconDataset.__init__`) -/

/-- insertion sort w.r.t. `le` (stands for `sorted(...)`; only used when the code sorts the listing) -/
def insertSorted {φ : Type} (le : φ → φ → Bool) (x : φ) : List φ → List φ
  | [] => [x]
  | y :: ys => if le x y then x :: y :: ys else y :: insertSorted le x ys

def sortFiles {φ : Type} (le : φ → φ → Bool) : List φ → List φ
  | [] => []
  | x :: xs => insertSorted le x (sortFiles le xs)

/-- the constructor arguments that select files -/
structure Selection (φ : Type) where
  /-- `root.glob("*.h5")` in the order the operating system lists the directory -/
  listing : List φ
  /-- `filenames_filter` -/
  filter : Option (List φ)
  /-- `filenames_lists` (each `.lst` file read and joined with `data_root`) -/
  lists : Option (List (List φ))
  /-- `filenames_lists_root is not None` -/
  listsRootGiven : Bool
  /-- `regex_filter` given; `regexOk f` = `re.match(regex_filter, str(f))` succeeds -/
  hasRegex : Bool
  regexOk : φ → Bool

/-- `list(dict.fromkeys(xs))`: drop repeated entries, keeping the first occurrence and the order -/
def dedupFirst {φ : Type} [DecidableEq φ] : List φ → List φ
  | [] => []
  | x :: xs => x :: (dedupFirst xs).filter fun y => y ≠ x

/-- the `filenames` handed to `parse_filenames_data`: `filenames_filter` wins over `filenames_lists`
wins over the directory listing (`sorted(self.root.glob(...))`); repeated names are dropped keeping the
first (`list(dict.fromkeys(...))`); then the regex filter.
`sortListing` / `dedup`: whether the code sorts the listing / drops repeated names (the current tree does
both; the pinned tree did neither). -/
def selectFiles {φ : Type} [DecidableEq φ] (sortListing dedup : Bool) (le : φ → φ → Bool) (sel : Selection φ) :
    Except Err (List φ) :=
  let base : Except Err (List φ) :=
    match sel.filter with
    | some fs => .ok fs
    | none =>
      match sel.lists with
      | some ls => if sel.listsRootGiven then .ok ls.flatten else .error .valueError
      | none => .ok (if sortListing then sortFiles le sel.listing else sel.listing)
  match base with
  | .error e => .error e
  | .ok fs =>
    let fs := if dedup then dedupFirst fs else fs
    .ok (if sel.hasRegex then fs.filter sel.regexOk else fs)

/-- the current tree: `H5SliceData` (`*.h5`) and `CMRxReconDataset` (`*.mat`) sort the listing and drop
repeated names -/
def listingSortedCurrent : Bool := true
def cmrListingSortedCurrent : Bool := true
def dedupCurrent : Bool := true

/-! ### file names as given vs. as compared

`filenames_filter` / the `.lst` lines hold *spellings* (`str` or `Path`, `dir//f.h5`, `dir/./f.h5`, a trailing `/`);
`pathlib.Path(_)` maps them to a path object (`norm`): equal objects for spellings that differ only lexically in these
ways, different objects for anything else (relative vs absolute, `..` components, a symlinked directory, another
directory with a file of the same name) — those are different volumes even when they resolve to the same file. -/

/-- are repeated names recognised on the `Path` objects (current tree) or on the entries as given? -/
def dedupOnNormalisedCurrent : Bool := true

/-- a selection given by spellings, seen through `norm` -/
def Selection.mapNorm {ρ φ : Type} (norm : ρ → φ) (sel : Selection ρ) (regexOk : φ → Bool) : Selection φ :=
  { listing := sel.listing.map norm
    filter := sel.filter.map fun fs => fs.map norm
    lists := sel.lists.map fun ls => ls.map fun l => l.map norm
    listsRootGiven := sel.listsRootGiven
    hasRegex := sel.hasRegex
    regexOk := regexOk }

/-- file selection over the entries as given: `onNorm = true` (current tree) compares `pathlib.Path(_)` objects
(`list(dict.fromkeys(pathlib.Path(_) for _ in filenames))`); `onNorm = false` compares the raw entries and casts
afterwards (a seen-set over the entries as given). -/
def selectFilesRaw {ρ φ : Type} [DecidableEq ρ] [DecidableEq φ] (sortListing dedup onNorm : Bool) (norm : ρ → φ)
    (le : φ → φ → Bool) (sel : Selection ρ) (regexOk : φ → Bool) : Except Err (List φ) :=
  if onNorm then selectFiles sortListing dedup le (sel.mapNorm norm regexOk)
  else
    match selectFiles sortListing dedup (fun a b => le (norm a) (norm b)) { sel with hasRegex := false } with
    | .error e => .error e
    | .ok raw => .ok (if sel.hasRegex then (raw.map norm).filter regexOk else raw.map norm)

def buildH5Raw {ρ φ : Type} [DecidableEq ρ] [DecidableEq φ] (sortListing dedup onNorm : Bool) (norm : ρ → φ)
    (le : φ → φ → Bool) (sel : Selection ρ) (regexOk : φ → Bool) (nOf : φ → Option Nat) (F : FilterArg) :
    Except Err (Parsed φ) :=
  match selectFilesRaw sortListing dedup onNorm norm le sel regexOk with
  | .error e => .error e
  | .ok fs => parseChecked (fs.map fun f => (f, nOf f)) F

/-- the dataset classes built on `H5SliceData` -/
inductive H5Class where
  | h5 | fastmri | calgary
deriving Repr, DecidableEq

/-- which `slice_data` / `kspace_context` reach `H5SliceData.__init__`:
`FastMRIDataset` and `CalgaryCampinasDataset` do not hand `kspace_context` / `slice_data` keyword arguments on
(they are swallowed by `**kwargs`); `CalgaryCampinasDataset` passes `slice(50, -50) if crop_outer_slices else None`. -/
def classParams (cls : H5Class) (crop : Bool) (sliceArg : FilterArg) (ctxArg : Nat) : FilterArg × Nat :=
  match cls with
  | .h5 => (sliceArg, ctxArg)
  | .fastmri => (.none, 0)
  | .calgary => (if crop then .slice ⟨some 50, some (-50), none⟩ else .none, 0)

/-- construction of an `H5SliceData`-based dataset: select the files, look up their slice counts
(`nOf f = none`: missing / unreadable), parse. -/
def buildH5 {φ : Type} [DecidableEq φ] (sortListing dedup : Bool) (le : φ → φ → Bool) (sel : Selection φ)
    (nOf : φ → Option Nat) (F : FilterArg) : Except Err (Parsed φ) :=
  match selectFiles sortListing dedup le sel with
  | .error e => .error e
  | .ok fs => parseChecked (fs.map fun f => (f, nOf f)) F

/-! ## `CMRxReconDataset`: files of shape `(a, b, …)` (slices × time frames) -/

inductive CmrContext where
  | none | slice | time
deriving Repr, DecidableEq

/-- `num_slices`: `np.prod(kspace_shape[:2])`, `kspace_shape[0]`, `kspace_shape[1]` -/
def cmrNumSlices (ctx : CmrContext) (a b : Nat) : Nat :=
  match ctx with
  | .none => a * b
  | .slice => a
  | .time => b

/-- `[(k, l) for k in range(shape[0]) for l in range(shape[1])]` -/
def cmrPairs (a b : Nat) : List (Nat × Nat) :=
  (List.range a).flatMap fun k => (List.range b).map fun l => (k, l)

/-- the `(slice, frame)` positions of the file that make up item `s`, in the order they appear along the
context axis: `inds[slice_no]` (the `enumerate` dict), `data[key][slice_no]`, `data[key][:, slice_no]`. -/
def cmrBlock (ctx : CmrContext) (a b s : Nat) : Option (List (Nat × Nat)) :=
  match ctx with
  | .none => (cmrPairs a b)[s]?.map fun p => [p]
  | .slice => if s < a then some ((List.range b).map fun l => (s, l)) else none
  | .time => if s < b then some ((List.range a).map fun k => (k, s)) else none

/-- `CMRxReconDataset.parse_filenames_data` is the same fold without a slice filter -/
def cmrParse {φ : Type} [DecidableEq φ] (ctx : CmrContext) (files : List (φ × Option (Nat × Nat))) : Parsed φ :=
  parseFilenames (files.map fun x => (x.1, x.2.map fun ab => cmrNumSlices ctx ab.1 ab.2)) none

/-- construction of a `CMRxReconDataset`: the same file selection as `H5SliceData` (without a regex), then the fold;
`shapeOf f = none`: missing / unreadable file -/
def buildCmr {φ : Type} [DecidableEq φ] (sortListing dedup : Bool) (le : φ → φ → Bool) (sel : Selection φ)
    (ctx : CmrContext) (shapeOf : φ → Option (Nat × Nat)) : Except Err (Parsed φ) :=
  match selectFiles sortListing dedup le sel with
  | .error e => .error e
  | .ok fs => .ok (cmrParse ctx (fs.map fun f => (f, shapeOf f)))

def buildCmrRaw {ρ φ : Type} [DecidableEq ρ] [DecidableEq φ] (sortListing dedup onNorm : Bool) (norm : ρ → φ)
    (le : φ → φ → Bool) (sel : Selection ρ) (ctx : CmrContext) (shapeOf : φ → Option (Nat × Nat)) : Except Err (Parsed φ) :=
  match selectFilesRaw sortListing dedup onNorm norm le sel (fun _ => true) with
  | .error e => .error e
  | .ok fs => .ok (cmrParse ctx (fs.map fun f => (f, shapeOf f)))

def cmrItem {φ : Type} (P : Parsed φ) (ctx : CmrContext) (shapeOf : φ → Nat × Nat) (idx : Int) :
    Except Err (φ × Nat × List (Nat × Nat)) :=
  match pyIndex P.data idx with
  | .error e => .error e
  | .ok (f, s) =>
    match cmrBlock ctx (shapeOf f).1 (shapeOf f).2 s with
    | some blk => .ok (f, s, blk)
    | none => .error .indexError

/-! ## `ConcatDataset` -/

/-- `ConcatDataset.cumsum`: `out.append(length + total); total += length` -/
def cumsumFrom (total : Nat) : List Nat → List Nat
  | [] => []
  | l :: ls => (l + total) :: cumsumFrom (total + l) ls

def cumsum (sizes : List Nat) : List Nat := cumsumFrom 0 sizes

/-- specification of `bisect.bisect_right(xs, x)` on a non-decreasing list: the number of elements `≤ x`
(what the executed `bisectRightBin` is proved to return on `cumsum sizes`). -/
def bisectRight (xs : List Nat) (x : Int) : Nat := (xs.takeWhile fun (v : Nat) => decide ((v : Int) ≤ x)).length

/-- the loop of CPython's `bisect.bisect_right(a, x)` (`Lib/bisect.py`, `Modules/_bisectmodule.c`):
`while lo < hi: mid = (lo + hi) // 2; if x < a[mid]: hi = mid else: lo = mid + 1`; `fuel` bounds the number of
iterations (`hi - lo` iterations suffice, `bisectLoop_eq`). -/
def bisectLoop (xs : List Nat) (x : Int) : Nat → Nat → Nat → Nat
  | 0, lo, _ => lo
  | fuel + 1, lo, hi =>
    if lo < hi then
      let mid := (lo + hi) / 2
      if x < ((xs.getD mid 0 : Nat) : Int) then bisectLoop xs x fuel lo mid
      else bisectLoop xs x fuel (mid + 1) hi
    else lo

/-- `bisect.bisect_right(xs, x)` as CPython computes it (binary search from `lo = 0`, `hi = len(xs)`), for **any**
list, sorted or not.  On a non-decreasing list it is the number of elements `≤ x` (`bisectRightBin_eq_count`). -/
def bisectRightBin (xs : List Nat) (x : Int) : Nat := bisectLoop xs x xs.length 0 xs.length

/-- `-idx > len(self)` and `len(self) + idx` -/
def concatNegReject (idx len : Int) : Bool := -idx > len
def concatNegIdx (idx len : Int) : Int := len + idx
/-- `idx if dataset_idx == 0 else idx - self.cumulative_sizes[dataset_idx - 1]` -/
def concatSampleIdx (idx datasetIdx prevCum : Int) : Int := if datasetIdx = 0 then idx else idx - prevCum

/-- `ConcatDataset.__getitem__` up to the access of the member: which member, which local index.
`sizes` non-empty (the constructor asserts it). -/
def locate (sizes : List Nat) (idx : Int) : Except Err (Nat × Nat) :=
  let cum := cumsum sizes
  let len : Int := (cum.getLast?.getD 0 : Nat)            -- `self.cumulative_sizes[-1]`
  if idx < 0 ∧ concatNegReject idx len then .error .valueError else
  let idx := if idx < 0 then concatNegIdx idx len else idx
  let d := bisectRightBin cum idx
  let j := concatSampleIdx idx d ((cum[d - 1]?.getD 0 : Nat) : Int)
  if d < sizes.length then .ok (d, j.toNat)               -- `self.datasets[dataset_idx]`
  else .error .indexError

/-- constructor + `__getitem__` -/
def concatGet (sizes : List Nat) (idx : Int) : Except Err (Nat × Nat) :=
  if sizes.isEmpty then .error .assertionError else locate sizes idx

/-- the flat enumeration of the members' items: `[(d, j) for d, m in enumerate(members) for j in range(len(m))]` -/
def flatPairsFrom (d : Nat) : List Nat → List (Nat × Nat)
  | [] => []
  | n :: ns => ((List.range n).map fun j => (d, j)) ++ flatPairsFrom (d + 1) ns

def flatPairs (sizes : List Nat) : List (Nat × Nat) := flatPairsFrom 0 sizes

/-- `ConcatDataset([objs[p] for p in pattern])[idx]` — the same object may be listed several times (and objects of
length 0 may occur): position `d` in the concatenation, the object `pattern[d]` that sits there, the local index. -/
def concatGetRep (objSizes : List Nat) (pattern : List Nat) (idx : Int) : Except Err (Nat × Nat × Nat) :=
  match concatGet (pattern.map fun p => objSizes.getD p 0) idx with
  | .ok (d, j) => .ok (d, pattern.getD d 0, j)
  | .error e => .error e

/-! ## Synthetic datasets: which (volume, slice, seed) an index designates -/

/-- `num_slices = self.spatial_shape[0] if len(self.spatial_shape) == 3 else 1` (`FakeMRIBlobsDataset`) -/
def fakeNumSlices (ndim shape0 : Int) : Int := if ndim = 3 then shape0 else 1

/-- `FakeMRIBlobsDataset.parse_filenames_data`, the names: the given list when it has `sample_size` entries, otherwise
`filenames[0] + f"{k:05}"` for `k = 1 … sample_size` (`mk b k`); `None` → `["sample"]`, a string → `[s]` are formed by
the caller of this function. -/
def fakeNames {φ : Type} (given : List φ) (sampleSize : Nat) (mk : φ → Nat → φ) : Except Err (List φ) :=
  if given.length ≠ sampleSize then
    match given with
    | [] => .error .indexError
    | b :: _ => .ok ((List.range sampleSize).map fun k => mk b (k + 1))
  else .ok given

/-- `self.data` (`(filename, slice_no, seed)`) and `self.volume_indices` of a `FakeMRIBlobsDataset` -/
structure FakeParsed (φ : Type) where
  data : List (φ × Nat × Nat)
  vols : List (φ × Nat × Nat)
deriving Repr

/-- `self.data = [(filename, slice_no, seed) for (filename, seed) in zip(names, seeds) for slice_no in range(nz)]`;
`volume_indices[PosixPath(filename)] = range(cur, cur + nz); cur += nz` for every name (a `dict` assignment: the same
fold as `H5SliceData`, every "file" having `nz` slices). -/
def fakeBuild {φ : Type} [DecidableEq φ] (names : List φ) (seeds : List Nat) (nz : Nat) : FakeParsed φ :=
  { data := (names.zip seeds).flatMap fun x => (List.range nz).map fun s => (x.1, s, x.2)
    vols := (parseFilenames (names.map fun f => (f, some nz)) none).vols }

/-- `FakeMRIBlobsDataset.__getitem__` up to the generator call: `self.data[idx]` (Python list indexing) -/
def fakeIndex {φ : Type} (P : FakeParsed φ) (idx : Int) : Except Err (φ × Nat × Nat) := pyIndex P.data idx

/-- `SheppLoganDataset.__getitem__(idx)`: the slice `sample_image` renders (`… [idx % self.nz]`), the position of the
seed used (`self.seed[idx]`, Python list indexing — the only thing that rejects an index), and the reported
`slice_no`: `idx % self.nz` on the current tree, `idx` itself as given (`asGiven`) on the pinned tree. -/
def sheppIndexWith (asGiven : Bool) (nz : Nat) (idx : Int) : Except Err (Nat × Nat × Int) :=
  match pyIndex (List.range nz) idx with
  | .error e => .error e
  | .ok k => .ok ((Int.fmod idx nz).toNat, k, if asGiven then idx else Int.fmod idx nz)

/-- whether the reported `slice_no` is the index as given (pinned tree) or the rendered slice `idx % nz` (current tree) -/
def sheppReportsIndexAsGiven : Bool := false

def sheppIndex (nz : Nat) (idx : Int) : Except Err (Nat × Nat × Int) := sheppIndexWith sheppReportsIndexAsGiven nz idx
/-- the pinned tree: `"slice_no": idx` -/
def sheppIndexPinned (nz : Nat) (idx : Int) : Except Err (Nat × Nat × Int) := sheppIndexWith true nz idx

/-! ## Seeded synthetic items: explicit RNG streams

`G` is the state of the **global** numpy stream (`np.random.*` module functions), `V` the type of
drawn values.  `seeded s` is the state a stream has right after being seeded with `s`
(`np.random.seed(s)`, or a private `RandomState(s)`); each draw returns a value and the next
state. -/
/-- what `FakeMRIData.make_blobs` asks of `sklearn.datasets.make_blobs`: `centers=num_coils`, `n_features=self.ndim`,
`n_samples` (`blobs_n_samples` or `prod(spatial_shape) // ndim`) -/
structure BlobArgs where
  centers : Nat
  features : Nat
  samples : Nat
deriving Repr, DecidableEq

structure Rng (G V : Type) where
  seeded : Nat → G
  /-- `np.random.uniform(0, 2π, 1)` -/
  uniform : G → V × G
  /-- `np.random.randn(*shape)` with `k` elements -/
  randn : Nat → G → V × G
  /-- the draws `sklearn.datasets.make_blobs(n_samples, n_features, centers=…)` takes from the stream it is given -/
  blobs : BlobArgs → G → V × G

/-- `n_samples = self.blobs_n_samples if self.blobs_n_samples else np.prod(list(spatial_shape)) // self.ndim` -/
def blobsNSamples (given total ndim : Int) : Int := if given ≠ 0 then given else Int.fdiv total ndim

/-- the arguments of the `make_blobs` call for a volume of `shape` with `coils` coils (`given = 0`: `blobs_n_samples` unset) -/
def blobArgs (shape : List Nat) (coils given : Nat) : BlobArgs :=
  ⟨coils, shape.length, (blobsNSamples given (DirectVerif.prod shape) shape.length).toNat⟩

/-- the seed plumbing of `FakeMRIData` / `simulate_sensitivity_maps` as read off the source -/
structure SeedTable where
  /-- `__getitem__` passes `seed=sample_seed` to `self.fake_data(...)` -/
  itemPassesSeed : Bool
  /-- `__call__` passes `seed (+ idx)` on to `get_kspace` -/
  callPassesSeed : Bool
  /-- `get_kspace` passes `seed` to `self.make_blobs` -/
  kspacePassesSeedToBlobs : Bool
  /-- `make_blobs` passes it as `random_state=seed` to sklearn (a private `RandomState(seed)`) -/
  blobsRandomStateIsSeed : Bool
  /-- `get_kspace` passes `seed=seed` to `simulate_sensitivity_maps` -/
  kspacePassesSeedToSens : Bool
  /-- `simulate_sensitivity_maps` seeds on `seed is not None` (and not on truthiness: 0 is a seed) -/
  sensSeedsWhenNotNone : Bool
deriving Repr, DecidableEq

def SeedTable.allTrue (t : SeedTable) : Bool :=
  t.itemPassesSeed && t.callPassesSeed && t.kspacePassesSeedToBlobs && t.blobsRandomStateIsSeed &&
    t.kspacePassesSeedToSens && t.sensSeedsWhenNotNone

/-- the current tree -/
def fakeTableCurrent : SeedTable := ⟨true, true, true, true, true, true⟩
/-- the pinned tree: `get_kspace` called `self.make_blobs(spatial_shape, num_coils)` without the seed
and `simulate_sensitivity_maps` tested `if seed:` -/
def fakeTablePinned : SeedTable := ⟨true, true, false, true, true, false⟩

/-- `simulate_sensitivity_maps(shape, num_coils, seed=seed)`: returns the offset draw (`none` for a
single coil: early return, no RNG access) and the global state afterwards.
`seedsOnNotNone = false` models `if seed:` (seed 0 does not seed). -/
def simSens {G V} (R : Rng G V) (seedsOnNotNone : Bool) (coils : Nat) (seed : Option Nat) (g : G) :
    Option V × G :=
  if coils = 1 then (none, g) else
  let g := match seed with
    | some s => if seedsOnNotNone || s != 0 then R.seeded s else g
    | none => g
  let (u, g) := R.uniform g
  (some u, g)

/-- `FakeMRIBlobsDataset.__getitem__` → `FakeMRIData.__call__(sample_size=1, seed=sample_seed)` →
`get_kspace` → `make_blobs`, `simulate_sensitivity_maps`: the pair (blob draws, sensitivity offset)
from which the k-space volume is computed deterministically (the returned item is slice `slice_no` of
it), and the global state afterwards. -/
def fakeDraws {G V} (R : Rng G V) (t : SeedTable) (a : BlobArgs) (coils : Nat) (seed : Nat) (g : G) :
    (V × Option V) × G :=
  let sd : Option Nat := if t.itemPassesSeed && t.callPassesSeed then some seed else none
  let bs : Option Nat := if t.kspacePassesSeedToBlobs && t.blobsRandomStateIsSeed then sd else none
  let (blobs, g) := match bs with
    | some s => ((R.blobs a (R.seeded s)).1, g)       -- private stream; global untouched
    | none => R.blobs a g                             -- sklearn falls back to the global stream
  let ss : Option Nat := if t.kspacePassesSeedToSens then sd else none
  let (off, g) := simSens R t.sensSeedsWhenNotNone coils ss g
  ((blobs, off), g)

/-- the item as a function of the draws: `render` stands for the deterministic numerics
(`scale_data`, image from samples, sensitivity maps from the offset, FFT, `[slice_no]`). -/
def fakeItem {G V O} (R : Rng G V) (t : SeedTable) (render : V × Option V → Nat → O)
    (a : BlobArgs) (coils seed sliceNo : Nat) (g : G) : O × G :=
  let (d, g) := fakeDraws R t a coils seed g
  (render d sliceNo, g)

/-- seed plumbing of `SheppLoganDataset.__getitem__` -/
structure SheppTable where
  /-- `simulate_sensitivity_maps(..., seed=self.seed[idx])` -/
  passesSeedToSens : Bool
  sensSeedsWhenNotNone : Bool
  /-- the noise added to all-zero slices comes from a stream seeded with the slice's seed (and not
  from whatever state the global stream is in) -/
  noiseSeeded : Bool
deriving Repr, DecidableEq

def SheppTable.allTrue (t : SheppTable) : Bool :=
  t.passesSeedToSens && t.sensSeedsWhenNotNone && t.noiseSeeded

/-- the current tree: `image += np.random.RandomState(self.seed[idx]).randn(*image.shape) * eps` -/
def sheppTableCurrent : SheppTable := ⟨true, true, true⟩
/-- the pinned tree: `image += np.random.randn(*image.shape) * eps` on the global stream -/
def sheppTablePinned : SheppTable := ⟨true, true, false⟩

/-- `SheppLoganDataset.__getitem__`: (sensitivity offset, noise draws) and the global state
afterwards.  `zeroSlice`: the phantom slice is identically zero (outer slices), the only case in
which noise is drawn; `k` = number of noise samples. -/
def sheppDraws {G V} (R : Rng G V) (t : SheppTable) (coils seed : Nat) (zeroSlice : Bool) (k : Nat)
    (g : G) : (Option V × Option V) × G :=
  let ss : Option Nat := if t.passesSeedToSens then some seed else none
  let (off, g) := simSens R t.sensSeedsWhenNotNone coils ss g
  if zeroSlice then
    if t.noiseSeeded then
      let (z, _) := R.randn k (R.seeded seed)
      ((off, some z), g)
    else
      let (z, g) := R.randn k g
      ((off, some z), g)
  else ((off, none), g)

def sheppItem {G V O} (R : Rng G V) (t : SheppTable) (render : Option V × Option V → O)
    (coils seed : Nat) (zeroSlice : Bool) (k : Nat) (g : G) : O × G :=
  let (d, g) := sheppDraws R t coils seed zeroSlice k g
  (render d, g)

/-! ### The symbolic stream (executed by the driver, compared with the recorded numpy calls) -/

/-- operations on a stream since its last seeding; `init` = the unknown state the stream had when
the access started -/
inductive GOp where
  | init
  | seed (s : Nat)
  | uniform
  | randn (k : Nat)
  /-- `generator.uniform(lo, hi, size=…)` with `k` elements -/
  | uniformN (k : Nat)
  /-- `generator.normal(loc, scale, size=…)` with `k` elements -/
  | normalN (k : Nat)
  /-- `generator.shuffle(indices)` on `n` indices -/
  | shuffleN (n : Nat)
deriving Repr, DecidableEq

/-- `n_samples_per_center`: `[n // k] * k`, the first `n % k` incremented -/
def blobCounts (n k : Nat) : List Nat := (List.range k).map fun i => n / k + (if i < n % k then 1 else 0)

/-- the requests `sklearn.datasets.make_blobs` makes to its generator, in order: the centres
(`uniform(size=(centers, features))`), one `normal(size=(n_i, features))` per centre, the final shuffle of the
`n_samples` rows -/
def blobRequests (a : BlobArgs) : List GOp :=
  [GOp.uniformN (a.centers * a.features)] ++ (blobCounts a.samples a.centers).map (fun m => GOp.normalN (m * a.features))
    ++ [GOp.shuffleN a.samples]

/-- `image.shape = (num_coils, nx, ny)`: number of noise samples `SheppLoganDataset` draws for an all-zero slice -/
def sheppNoiseCount (coils nx ny : Nat) : Nat := coils * nx * ny

/-- free stream: the state *is* the list of operations since the last seeding, and a drawn value
is identified with the state it was drawn from -/
def symRng : Rng (List GOp) (List GOp) where
  seeded s := [GOp.seed s]
  uniform g := (g ++ [GOp.uniform], g ++ [GOp.uniform])
  randn k g := (g ++ [GOp.randn k], g ++ [GOp.randn k])
  blobs a g := (g ++ blobRequests a, g ++ blobRequests a)

/-- a tiny concrete stream used for witnesses: state = counter, draws return the counter -/
def toyRng : Rng Nat Nat where
  seeded s := 1000 * (s + 1)
  uniform g := (g, g + 1)
  randn _ g := (g, g + 1)
  blobs _ g := (g, g + 1)

end DirectVerif.Dataset
