import DirectVerif.Model.Shapes
/-!
# C17 — channel algebra of the denoisers and full `(N, C, *spatial)` shapes

`Model/Shapes.lean` follows the *spatial* axes of a tensor through a network.  This file follows the **channel axis**
with a small register machine and combines the two into the full shape `(N, C, *spatial)` that a forward hook on the
real network observes.

* `COp` — one operation per channel-relevant statement of a `forward`: a convolution `conv cin cout` (fails unless the
  running tensor has `cin` channels — this is torch's `RuntimeError: expected input … to have cin channels`), batch norm
  (`running_mean` has `c` entries), `DWT` (×4), `IWT` (÷r², floor as in `int(in_channel / r**2)`), `PixelShuffle`
  (÷r², must divide), `save` (remember the running channel count: skip connections, residuals, dense connections),
  `load d`, `drop d`, `cat ds` (`torch.cat([running, saved…], dim=1)`), `add d` (element-wise combination with a saved
  tensor: equal channel counts), `arg c` (a further tensor argument of `forward` with `c` channels: the recurrent state),
  `emit` (a hooked block returns).
* the channel programs of the denoisers, parametrised by *all* widths (`cin`, `cout`, number of filters / hidden
  channels) and depths, mirroring the spatial programs of `Model/Shapes.lean` hook for hook;
* `fullRun` — the spatial program and the channel program side by side: final full shape and the full shape at
  every hook.

The translator (`harness/translate/recipes/c17_channels.py`) reads the same kind of program off the AST of every
`forward` on instantiated modules; `Bridge/C17.lean` equates the two.
-/
namespace DirectVerif.Shapes

inductive COp where
  | conv (cin cout : Nat)
  | bnorm (c : Nat)
  | dwt
  | iwt (r : Nat)
  | shuffle (r : Nat)
  | save
  | load (d : Nat)
  | drop (d : Nat)
  | cat (ds : List Nat)
  | add (d : Nat)
  | arg (c : Nat)
  | emit
deriving Repr, DecidableEq

structure CState where
  cur : Nat
  regs : List Nat := []
  trace : List Nat := []
deriving Repr, DecidableEq

instance : DecidableEq (Except Err CState)
  | .ok a, .ok b => if h : a = b then isTrue (by rw [h]) else isFalse (by intro e; cases e; exact h rfl)
  | .error a, .error b => if h : a = b then isTrue (by rw [h]) else isFalse (by intro e; cases e; exact h rfl)
  | .ok _, .error _ => isFalse (by intro e; cases e)
  | .error _, .ok _ => isFalse (by intro e; cases e)

/-- the channel counts of the registers `ds` (0 = most recently saved); `none` when one does not exist -/
def lookups (regs : List Nat) : List Nat → Option (List Nat)
  | [] => some []
  | d :: ds =>
    match regs[d]?, lookups regs ds with
    | some c, some cs => some (c :: cs)
    | _, _ => none

def cstep (op : COp) (st : CState) : Except Err CState :=
  match op with
  | .conv cin cout => if st.cur = cin then .ok { st with cur := cout } else .error .runtime
  | .bnorm c => if st.cur = c then .ok st else .error .runtime
  | .dwt => .ok { st with cur := 4 * st.cur }
  | .iwt r => .ok { st with cur := st.cur / (r * r) }
  | .shuffle r => if r ≠ 0 ∧ st.cur % (r * r) = 0 then .ok { st with cur := st.cur / (r * r) } else .error .runtime
  | .save => .ok { st with regs := st.cur :: st.regs }
  | .load d =>
    match st.regs[d]? with
    | some c => .ok { st with cur := c }
    | none => .error .runtime
  | .drop d => if d < st.regs.length then .ok { st with regs := st.regs.eraseIdx d } else .error .runtime
  | .cat ds =>
    match lookups st.regs ds with
    | some cs => .ok { st with cur := st.cur + cs.sum }
    | none => .error .runtime
  | .add d =>
    match st.regs[d]? with
    | some c => if c = st.cur then .ok st else .error .runtime
    | none => .error .runtime
  | .arg c => .ok { st with cur := c }
  | .emit => .ok { st with trace := st.trace ++ [st.cur] }

def runC : List COp → CState → Except Err CState
  | [], st => .ok st
  | op :: ops, st =>
    match cstep op st with
    | .ok st' => runC ops st'
    | .error e => .error e

/-! ## full shapes -/

structure Full where
  final : Shape
  trace : List Shape
deriving Repr, DecidableEq

/-- the full shape `(N, C, *spatial)` after the network and at every hooked block: the spatial program and the channel
program run side by side (they emit at the same hooks); the batch axis is carried through unchanged -/
def fullRun (sp : List Op) (ch : List COp) (n c : Nat) (s : Shape) : Except Err Full :=
  match run sp { cur := s }, runC ch { cur := c } with
  | .ok a, .ok b => .ok ⟨n :: b.cur :: a.cur, List.zipWith (fun c s => n :: c :: s) b.trace a.trace⟩
  | .error e, _ => .error e
  | .ok _, .error e => .error e

/-- number of hooked blocks of a program -/
def emits (p : List Op) : Nat := (p.filter (· == .emit)).length
def cemits (p : List COp) : Nat := (p.filter (· == .emit)).length

/-! ## channel programs of the denoisers -/

/-- optional `BatchNorm2d(c)` -/
def bnC (bn : Bool) (c : Nat) : List COp := if bn then [.bnorm c] else []

/-- U-Net `ConvBlock(cin, c)`: two convolutions (instance norm, activation and dropout keep the channels) -/
def convBlockC (cin c : Nat) : List COp := [.conv cin c, .conv c c]

/-- `UnetModel2d` / `UnetModel3d` below the top: `L` pooling levels, this level's block has `c` filters
(`ch *= 2` per level in `__init__`), the transposed convolution halves them, `torch.cat` with the skip doubles them -/
def unetLvC (cin c : Nat) : Nat → List COp
  | 0 => convBlockC cin c ++ [.emit]
  | L + 1 =>
    convBlockC cin c ++ [.save, .emit] ++ unetLvC c (2 * c) L ++
      [.conv (2 * c) c, .emit, .cat [0], .drop 0] ++ convBlockC (2 * c) c ++ [.emit]

/-- the whole U-Net with `F = num_filters`: the last `up_conv` ends with the 1×1 convolution to `cout` -/
def unetC (cin cout F : Nat) : Nat → List COp
  | 0 => unetLvC cin F 0
  | L + 1 =>
    convBlockC cin F ++ [.save, .emit] ++ unetLvC F (2 * F) L ++
      [.conv (2 * F) F, .emit, .cat [0], .drop 0] ++ convBlockC (2 * F) F ++ [.conv F cout, .emit]

/-- `NormUnetModel2d` / `NormUnetModel3d`: the inner U-Net, hooked once more as a whole -/
def normUnetC (cin cout F L : Nat) : List COp := unetC cin cout F L ++ [.emit]

/-- `MultiDomainConv2d(cin, cout)` / `MultiDomainConvTranspose2d(cin, cout)` (`direct/nn/multidomainnet/multidomain.py`):
the input (already remembered by the caller: register 0) goes through `kspace_conv` (`cout // 2` filters) in the Fourier
domain — the result is remembered —, the input is taken up again for `image_conv` (`cout // 2` filters) and
`torch.cat([image, backward], dim=1)` gives `2·(cout // 2)` channels.  `keep`: the input is needed again later (it is the
skip connection of this level). -/
def mdConvC (keep : Bool) (cin cout : Nat) : List COp :=
  [.conv cin (cout / 2), .save, .load 1] ++ (if keep then [] else [.drop 1]) ++ [.conv cin (cout / 2), .cat [0], .drop 0]

/-- `MultiDomainConvBlock(cin, c)`: two multi-domain convolutions (instance norm — `affine=False`, it does not check the
channel count —, activation and dropout keep the channels) -/
def mdBlockC (keep : Bool) (cin c : Nat) : List COp := mdConvC keep cin c ++ [.save] ++ mdConvC false c c

/-- `MultiDomainUnet2d` below the top level: input remembered in register 0 (it is the pooled skip connection of the level
above when `keep`); the block's result is remembered (next level's input and skip connection / input of the transposed
convolution) -/
def mdLvC (keep : Bool) (cin c : Nat) : Nat → List COp
  | 0 => mdBlockC keep cin c ++ [.save, .emit]
  | L + 1 =>
    mdBlockC keep cin c ++ [.save, .emit] ++ mdLvC true c (2 * c) L ++
      mdConvC false (2 * c) c ++ [.emit, .cat [0], .drop 0, .save] ++ mdBlockC false (2 * c) c ++ [.save, .emit]

/-- `MultiDomainUnet2d(fwd, bwd, cin, cout, num_filters = F, num_pool_layers = L)`; `__init__` always builds the first
down-sampling block, so `L = 0` gives the same network as `L = 1` -/
def mdUnetC (cin cout F L : Nat) : List COp :=
  [.save] ++ mdBlockC false cin F ++ [.save, .emit] ++ mdLvC true F (2 * F) (L - 1) ++
    mdConvC false (2 * F) F ++ [.emit, .cat [0], .drop 0, .save] ++ mdBlockC false (2 * F) F ++ [.conv F cout, .emit]

/-- MWCNN `ConvBlock(cin, w)` + `DilatedConvBlock(w)`; the result is remembered (`res_values`) right after the last
convolution when `sv` -/
def mwDownC (bn sv : Bool) (cin w : Nat) : List COp :=
  [.conv cin w] ++ bnC bn w ++ [.conv w w] ++ bnC bn w ++ [.conv w w] ++ (if sv then [.save] else []) ++ bnC bn w
/-- `DilatedConvBlock(w)` + `ConvBlock(w, cout)` -/
def mwUpC (bn : Bool) (w cout : Nat) : List COp :=
  [.conv w w] ++ bnC bn w ++ [.conv w w] ++ bnC bn w ++ [.conv w cout] ++ bnC bn cout

/-- levels below one of width `w` (`first_conv_hidden_channels · 2^idx`): DWT quadruples, the level works at `2w`, its
`up` block returns `4w`, IWT divides by four, the sum with the remembered `w`-channel tensor -/
def mwBelowC (bn : Bool) (w : Nat) : Nat → List COp
  | 0 => [.dwt, .emit] ++ mwDownC bn false (4 * w) (2 * w) ++ [.emit] ++ mwUpC bn (2 * w) (4 * w) ++
      [.emit, .iwt 2, .emit, .add 0, .drop 0]
  | r + 1 => [.dwt, .emit] ++ mwDownC bn true (4 * w) (2 * w) ++ [.emit] ++ mwBelowC bn (2 * w) r ++
      mwUpC bn (2 * w) (4 * w) ++ [.emit, .iwt 2, .emit, .add 0, .drop 0]

/-- `MWCNN(input_channels = cin, first_conv_hidden_channels = F, num_scales = S)` -/
def mwcnnC (bn : Bool) (cin F : Nat) : Nat → List COp
  | 0 => []
  | 1 => mwDownC bn false cin F ++ [.emit] ++ mwUpC bn F cin ++ [.emit]
  | S + 2 => mwDownC bn true cin F ++ [.emit] ++ mwBelowC bn F S ++ mwUpC bn F cin ++ [.emit]

/-- `DUB(c, c)` between its input (already remembered by the caller: register 0) and its last convolution; `em` after
every child module as in `Shapes.dubWith` -/
def dubBodyC (c : Nat) (em : List COp) : List COp :=
  [.conv c c, .conv c c, .save] ++ em ++ [.add 1] ++                               -- x1 = x1 + conv1_1(x1)
  [.conv c (2 * c), .save] ++ em ++                                                -- x2 = down1(x1)
  [.conv (2 * c) (2 * c), .save] ++ em ++ [.add 1, .drop 1] ++                     -- x2 = x2 + conv2_1(x2)
  [.conv (2 * c) (4 * c), .save] ++ em ++                                          -- out = down2(x2)
  [.conv (4 * c) (4 * c)] ++ em ++ [.add 0, .drop 0] ++                            -- out = out + conv3_1(out)
  [.conv (4 * c) (8 * c), .shuffle 2] ++ em ++ [.cat [0], .drop 0] ++              -- cat([x2, crop(up1(out))])
  [.conv (4 * c) (2 * c), .save] ++ em ++                                          -- conv_agg_1
  [.conv (2 * c) (2 * c)] ++ em ++ [.add 0, .drop 0] ++                            -- out + conv2_2(out)
  [.conv (2 * c) (4 * c), .shuffle 2] ++ em ++ [.cat [0], .drop 0] ++              -- cat([x1, crop(up2(out))])
  [.conv (2 * c) c, .save] ++ em ++                                                -- conv_agg_2
  [.conv c c, .conv c c] ++ em ++ [.add 0, .drop 0] ++                             -- out + conv1_2(out)
  [.conv c c]                                                                      -- conv_out

/-- the stand-alone `DUB`: remember the input, …, `x + crop(conv_out(out))` -/
def dubC (c : Nat) (e : Bool) : List COp :=
  [.save] ++ dubBodyC c (if e then [.emit] else []) ++ (if e then [.emit] else []) ++ [.add 0, .drop 0]

/-- a `DUB` inside `DIDN`: its input is register 0 (the previous block's remembered output); its own output is remembered
(it is the next DUB's input and a `recon_block` input).  The first DUB's input (`down`) is not used again. -/
def dubInC (c : Nat) (first : Bool) : List COp :=
  dubBodyC c [] ++ [.save, .add 1] ++ (if first then [.drop 1] else []) ++ [.emit]

def dubsC (c : Nat) : Nat → List COp
  | 0 => []
  | n + 1 => dubsC c n ++ dubInC c (n == 0)

/-- `ReconBlock`: `nc` convolutions, `input + output` -/
def reconConvsC (c nc : Nat) : List COp := List.replicate nc (.conv c c)

/-- the `recon_block` applied to the first `m` of `nd` remembered DUB outputs (each result is remembered) -/
def reconsC (c nc nd : Nat) : Nat → List COp
  | 0 => []
  | m + 1 => reconsC c nc nd m ++ [.load (nd - 1)] ++ reconConvsC c nc ++ [.save, .add nd, .drop nd, .emit]

/-- registers `k−1, …, 0` -/
def downTo : Nat → List Nat
  | 0 => []
  | k + 1 => k :: downTo k

def dropsC : Nat → List COp
  | 0 => []
  | k + 1 => .drop k :: dropsC k

/-- `[self.recon_block(d) for d in dub_outs]` and `torch.cat(…, dim=1)`: every remembered DUB output is loaded, passed
through the shared `recon_block` and remembered; the last one stays the running tensor -/
def didnReconC (c nc : Nat) : Nat → List COp
  | 0 => []
  | 1 => reconConvsC c nc ++ [.add 0, .drop 0, .emit, .cat []]
  | k + 2 => reconsC c nc (k + 2) (k + 1) ++ [.load (k + 1)] ++ reconConvsC c nc ++ [.add (k + 1), .drop (k + 1), .emit] ++
      [.cat (downTo (k + 1))] ++ dropsC (k + 1)

/-- `recon_agg`, `conv`, `up2` (sub-pixel), `conv_out` -/
def didnTailC (cout c nd : Nat) : List COp :=
  [.conv (c * nd) c, .emit, .conv c c, .emit, .conv c (c * 4), .shuffle 2, .emit, .conv c cout, .emit]

/-- `DIDN(cin, cout, hidden_channels = c, num_dubs = nd, num_convs_recon = nc, skip_connection = skip)`
(`skip` = the *effective* flag `in_channels == out_channels and skip_connection`) -/
def didnC (cin cout c nd nc : Nat) (skip : Bool) : List COp :=
  (if skip then [.save] else []) ++
  [.conv cin c, .emit, .conv c c, .save, .emit] ++ dubsC c nd ++ didnReconC c nc nd ++ didnTailC cout c nd ++
  (if skip then [.add 0, .drop 0] else [])

/-- ResNet blocks: `x + scale·conv2(relu(conv1(x)))`, optional batch norm; all but the last block's result is the next
block's remembered `x` -/
def resBlocksC (h : Nat) (bn : Bool) : Nat → List COp
  | 0 => []
  | 1 => [.conv h h, .conv h h, .add 0, .drop 0] ++ bnC bn h
  | n + 2 => [.conv h h, .conv h h, .save, .add 1, .drop 1] ++ bnC bn h ++ resBlocksC h bn (n + 1)

/-- `ResNet(hidden_channels = h, in_channels = cin, out_channels = cout, num_blocks = nb + 1)`:
`conv_out(conv_in(x) + resblocks(conv_in(x)))`, `conv_out = Conv(h → cin), Conv1×1(cin → cout)` -/
def resnetC (cin cout h : Nat) (bn : Bool) (nb : Nat) : List COp :=
  [.save, .conv cin h, .save, .emit, .load 1, .drop 1, .conv cin h, .save, .emit] ++ resBlocksC h bn (nb + 1) ++
    [.emit, .add 0, .drop 0, .conv h cin, .conv cin cout, .emit]

/-- `direct.nn.conv.Conv2d(cin, cout, hidden_channels = h, n_convs = n)` -/
def convNetC (cin cout h : Nat) (bn : Bool) : Nat → List COp
  | 0 => []
  | n + 1 =>
    let o := if n = 0 then cout else h
    [.conv cin o, .emit] ++ (if bn then [.bnorm o, .emit] else []) ++ (if n = 0 then [] else [.emit]) ++
      convNetC h cout h bn n

/-- the channel counts a forward hook sees at the `conv_blocks` of a `Conv2dGRU(cin, h, cout, num_layers = layers)`:
`layers` hidden blocks and the output block -/
def gruChanTrace (h cout layers : Nat) : List Nat := List.replicate layers h ++ [cout]

/-- skeleton of the Conv2dGRU channel program (the conv blocks only; used when the `forward` cannot be read) -/
def gruChanFallback (cin h cout : Nat) : Nat → List COp
  | 0 => [.conv cin cout, .emit]
  | l + 1 => [.conv cin h, .emit] ++ gruChanFallback h h cout l

/-- the dilated-convolution chain of the learned initialisers (`LagrangeMultipliersInitializer`, `RIMInit`,
`RecurrentInit`): `cin → chs[0] → chs[1] → …`; with `multiscale_depth = ms > 1` the outputs of the last `ms` blocks are
concatenated, so all of them but the very last (the running tensor) are remembered -/
def initChainC : Nat → List Nat → Nat → List COp
  | _, [], _ => []
  | cin, [c], _ => [.conv cin c]
  | cin, c :: c' :: rest, ms =>
    [.conv cin c] ++ (if rest.length + 1 < ms then [.save] else []) ++ initChainC c (c' :: rest) ms

/-- `LagrangeMultipliersInitializer(2D/3D)(cin, cout, channels = chs, multiscale_depth = ms)`: the 1×1 output block has
`sum(channels[-ms:])` input channels -/
def lagrangeC (cin cout : Nat) (chs : List Nat) (ms : Nat) : List COp :=
  initChainC cin chs ms ++
    (if 1 < ms then [.cat (downTo (min ms chs.length - 1))] ++ dropsC (min ms chs.length - 1) else []) ++
    [.conv (chs.drop (chs.length - ms)).sum cout]

/-! ## the permute pairs around the denoiser calls of the unrolled networks -/

/-- `x.permute(*p)` followed by `.permute(*q)` is the identity on every shape of that rank: `p[q[i]] = i` -/
def permInverse (p q : List Nat) : Bool :=
  p.length == q.length && q.all (· < p.length) && (List.range q.length).all fun i => p.getD (q.getD i 0) 0 == i

/-- the permutation that moves the last axis (complex / channel) behind the first `lead` axes, keeping the others in
order: `(0, 3, 1, 2)`, `(0, 4, 1, 2, 3)` for `lead = 1`; `(0, 1, 4, 2, 3)`, `(0, 1, 5, 2, 3, 4)` for `lead = 2` -/
def toChannelsFirst (lead rank : Nat) : List Nat :=
  List.range lead ++ [rank - 1] ++ (List.range (rank - 1 - lead)).map (· + lead)

/-- one row of the table read from the `forward`s: (family, domain, permute applied to the denoiser's argument, permute
applied to its result; `[]` = the result stays channels-first).  Well-formed: the argument is brought to channels-first
(behind the batch axis for image-domain calls, behind batch and coil for per-coil calls) and the result is brought back by
the inverse permutation — except in `RIM`, whose documented output is channels-first. -/
def permRowOk (row : String × Nat × List Nat × List Nat) : Bool :=
  let (fam, dom, p, q) := row
  p == toChannelsFirst (if dom = 0 then 1 else 2) p.length && (if q.isEmpty then fam == "RIM" else permInverse p q)

/-! ## where the spatial size of a tensor may change outside a torch layer -/

/-- the functions of `direct/nn` whose functional pad / pool calls are part of the shape model (each has a translated kernel
or a forward program): any *other* site of such a call is code that can change a spatial size outside the model -/
def modelledSizeSites : List (String × String) :=
  [("unet/unet_2d.py", "UnetModel2d.forward"), ("unet/unet_2d.py", "NormUnetModel2d.pad"),
   ("unet/unet_3d.py", "UnetModel3d.forward"), ("unet/unet_3d.py", "NormUnetModel3d.pad"), ("unet/unet_3d.py", "pad_to_pow_of_2"),
   ("mwcnn/mwcnn.py", "MWCNN.pad"), ("didn/didn.py", "DUB.pad"), ("multidomainnet/multidomain.py", "MultiDomainUnet2d.forward")]

def sizeSitesOk (sites : List (String × String × String)) : Bool :=
  sites.all fun (f, q, _) => modelledSizeSites.contains (f, q)

end DirectVerif.Shapes
