import DirectVerif.Model.Basic
import DirectVerif.Model.Crop
/-!
# C10 — the k-space crop / pad *modules* as calls on a sample dictionary

`CropKspace`, `PadKspace`, `RescaleKspace` (`direct/data/mri_transforms.py`) read a tensor from the sample under a key,
run a plan on it (`Model/Crop.lean`: `runPlan`) and store the result under a key.  This file models

* **which key** is read and written (`KIO`, `moduleCall`): the key plumbing is part of the plan the translator extracts
  (following helper functions through their call-site bindings and defaults);
* **what the crop shape is** for every argument form of `CropKspace(crop=…)` (`cropShapeResolve`, mirrors the
  `if / elif / else` chain of `CropKspace.__call__`, translated);
* **call histories** on a persistent instance (`Module.run`): an instance whose call writes no state answers every
  sample as a fresh instance would;
* the decidable well-formedness predicates of the translated structural tables (`stateWritesOk`, `keyAccessOk`).
-/
namespace DirectVerif.Crop

/-! ### key plumbing -/

/-- the two k-space keys of a sample (`KspaceKey.KSPACE`, `KspaceKey.MASKED_KSPACE`) -/
inductive KKey | kspace | masked
deriving DecidableEq, Repr

/-- a key *expression* as it appears in the source -/
inductive KeyRef
  | selfKey            -- `self.kspace_key`
  | kspace             -- the literal `"kspace"`
  | masked             -- the literal `"masked_kspace"`
  | enumKspace         -- `KspaceKey.KSPACE` (e.g. the default of a helper's parameter)
  | enumMasked         -- `KspaceKey.MASKED_KSPACE`
  | other (s : String)
deriving DecidableEq, Repr

def KeyRef.ofString : String → KeyRef
  | "self.kspace_key" => .selfKey
  | "'kspace'" => .kspace
  | "'masked_kspace'" => .masked
  | "KspaceKey.KSPACE" => .enumKspace
  | "KspaceKey.MASKED_KSPACE" => .enumMasked
  | s => .other s

/-- the concrete key an expression denotes on an instance constructed with `kspace_key = cfg` -/
def KeyRef.resolve (cfg : KKey) : KeyRef → Option KKey
  | .selfKey => some cfg
  | .kspace => some .kspace
  | .enumKspace => some .kspace
  | .masked => some .masked
  | .enumMasked => some .masked
  | .other _ => none

/-- where the plan's input is read and where its output is stored -/
structure KIO where
  read : KeyRef
  write : KeyRef
deriving DecidableEq, Repr

/-- `PadKspace` / `RescaleKspace`: `kspace = sample[self.kspace_key] … sample[self.kspace_key] = …` -/
def padKspaceIO : KIO := ⟨.selfKey, .selfKey⟩
def rescaleKspaceIO : KIO := ⟨.selfKey, .selfKey⟩
/-- `CropKspace` has no key option: `kspace = sample["kspace"] … sample["kspace"] = …` -/
def cropKspaceIO : KIO := ⟨.kspace, .kspace⟩

/-- the k-space part of a sample dictionary -/
structure KSample (α : Type) where
  kspace : Option α
  masked : Option α
deriving DecidableEq, Repr

def KSample.get {α} (s : KSample α) : KKey → Option α
  | .kspace => s.kspace
  | .masked => s.masked

def KSample.set {α} (s : KSample α) (k : KKey) (x : α) : KSample α :=
  match k with
  | .kspace => { s with kspace := some x }
  | .masked => { s with masked := some x }

/-- one call of a k-space module: read under `io.read`, apply `f` (the interpreted plan), store under `io.write`;
`none` = `KeyError` (the key read is not in the sample) -/
def moduleCall {α} (io : KIO) (cfg : KKey) (f : α → α) (s : KSample α) : Option (KSample α) :=
  match io.read.resolve cfg, io.write.resolve cfg with
  | some r, some w =>
    match s.get r with
    | some x => some (s.set w (f x))
    | none => none
  | _, _ => none

/-! ### call histories on a persistent instance -/

/-- a transform instance as a state machine: `σ` = whatever the instance keeps between calls -/
structure Module (σ ι ο : Type) where
  init : σ
  step : σ → ι → σ × ο

def Module.run {σ ι ο} (m : Module σ ι ο) : σ → List ι → List ο
  | _, [] => []
  | s, x :: xs => (m.step s x).2 :: m.run (m.step s x).1 xs

/-- what a *fresh* instance answers to each sample -/
def Module.fresh {σ ι ο} (m : Module σ ι ο) (xs : List ι) : List ο := xs.map fun x => (m.step m.init x).2

/-- regression witness (seeded C10-5): a `CropKspace` that resolves a 2-element crop once and keeps
`(kspace.shape[1],) + crop` — the slice count of the *first* sample — in `self._crop_shape`.
Input = slice count of the sample, output = slice entry of the crop shape used. -/
def cachedCropShape : Module (Option Int) Int Int where
  init := none
  step := fun st slices =>
    match st with
    | none => (some slices, slices)
    | some c => (some c, c)

/-- the k-space module as a state machine without state: every call is `moduleCall` -/
def kspaceModule {α} (io : KIO) (cfg : KKey) (f : α → α) : Module Unit (KSample α) (Option (KSample α)) where
  init := ()
  step := fun _ s => ((), moduleCall io cfg f s)

/-- `torch.flip(x, dims)` (the exact operator pair used by the correspondence of the module ops) -/
def flipAxes (dims : List Nat) (t : Tensor Int) : Tensor Int :=
  dims.foldl (fun acc d => acc.alongAxis d List.reverse) t

/-- `dim = self.spatial_dims.TWO_D if kspace.ndim == 4 else self.spatial_dims.THREE_D` of a `DirectTransform` -/
def spatialDims (rank : Nat) : List Nat := if rank = 4 then [1, 2] else [2, 3]

/-! ### crop shape of `CropKspace` for every argument form -/

/-- `crop` given as a string that parses as an integer list / tuple (`IntegerListOrTupleString`), as a string naming a
sample key (`"reconstruction_size"`), or as a list / tuple of integers -/
inductive CropForm | intString | key | seq
deriving DecidableEq, Repr

/-- the chain of `CropKspace.__call__` that resolves the crop shape (repaired in f148874: a string crop is parsed first and
then takes the same branch as a list / tuple):
```
if isinstance(self.crop, str) and not isinstance(self.crop, IntegerListOrTupleString):
    crop_shape = sample[self.crop][:-1]
else:
    crop = IntegerListOrTupleString(self.crop) if isinstance(self.crop, str) else self.crop
    if kspace.ndim == 5 and len(crop) == 2:  crop_shape = (kspace.shape[1],) + tuple(crop)
    else:                                     crop_shape = tuple(crop)
```
`crop` = the integers of the option (parsed when a string), `keyVal` = `sample[self.crop]`, `slices = kspace.shape[1]`. -/
def cropShapeResolve (form : CropForm) (ndim : Int) (crop keyVal : List Int) (slices : Int) : List Int :=
  match form with
  | .key => keyVal.dropLast
  | .intString => if ndim = 5 ∧ crop.length = 2 then slices :: crop else crop
  | .seq => if ndim = 5 ∧ crop.length = 2 then slices :: crop else crop

/-- the pinned tree: `if IntegerListOrTupleString: parsed, as is / elif str: sample[key][:-1] / else: the 5-D branch` -/
def cropShapeResolvePinned (form : CropForm) (ndim : Int) (crop keyVal : List Int) (slices : Int) : List Int :=
  match form with
  | .intString => crop
  | .key => keyVal.dropLast
  | .seq => if ndim = 5 ∧ crop.length = 2 then slices :: crop else crop

/-- the documented meaning ("shape to crop the input to", last two entries = height, width): a 2-element crop leaves the
slice / time axis of 5-D k-space alone whatever the form it was written in -/
def cropShapeSpec (ndim : Int) (crop : List Int) (slices : Int) : List Int :=
  if ndim = 5 ∧ crop.length = 2 then slices :: crop else crop

/-! ### `PadCoilDimensionModule.forward` -/

/-- the branch taken by `PadCoilDimensionModule.forward` and the number of zero coils allocated, as coded:
```
if not self.num_coils: return sample                    -- (0, 0)   None and 0 are both falsy
if self.key not in sample: return sample                -- (0, 0)
if curr_num_coils > self.num_coils: raise ValueError    -- (1, 0)
if curr_num_coils == self.num_coils: return sample      -- (0, 0)
padding_data_shape[self.coil_dim] = max(self.num_coils - num_coils, 0)   -- (2, that)
```
`num` = `pad_coils` (`None` is passed as `0`), `cur` = `data.shape[coil_dim]`. -/
def padCoilDecision (num cur : Int) (hasKey : Bool) : Int × Int :=
  if num = 0 then (0, 0) else
  if hasKey = false then (0, 0) else
  if cur > num then (1, 0) else
  if cur = num then (0, 0) else
  (2, max (num - cur) 0)

/-- the operands of `torch.cat([...], dim=self.coil_dim)` in source order: the zeros come FIRST -/
def padCoilCatModel : List String := ["zeros", "data"]

/-- one fibre along the coil axis: `none` = `ValueError` (already more coils than requested) -/
def padCoils1 {α} (zero : α) (num : Int) (xs : List α) : Option (List α) :=
  let d := padCoilDecision num xs.length true
  if d.1 = 1 then none else
  if d.1 = 2 then some (fPad zero d.2.toNat 0 xs) else some xs

/-- one call on the sample dictionary: a missing key is NOT an error here (`return sample`), the other key is kept -/
def padCoilCall {α} (key : KKey) (f : α → Option α) (s : KSample α) : Option (KSample α) :=
  match s.get key with
  | none => some s
  | some x => (f x).map (s.set key)

/-- the module as a state machine without state (input: sample, output: `none` = raises) -/
def padCoilModule {α} (key : KKey) (f : α → Option α) : Module Unit (KSample α) (Option (KSample α)) where
  init := ()
  step := fun _ s => ((), padCoilCall key f s)

/-! ### predicates on the translated structural tables -/

/-- rows `(class, function, what)`: writes to instance / class / module state outside `__init__`.  None allowed. -/
def stateWritesOk (rows : List (String × String × String)) : Bool := rows.isEmpty

/-- every sample access `(class, read|write, key expression)` a module may make -/
def keyAllowed : List (String × String × String) :=
  [("CropKspace", "read", "'kspace'"), ("CropKspace", "write", "'kspace'"),
   ("CropKspace", "read", "self.crop"), ("CropKspace", "read", "'filename'"),
   ("CropKspace", "read", "'sampling_mask'"), ("CropKspace", "write", "'sampling_mask'"),
   ("CropKspace", "read", "'acs_mask'"), ("CropKspace", "write", "'acs_mask'"),
   ("RescaleKspace", "read", "self.kspace_key"), ("RescaleKspace", "write", "self.kspace_key"),
   ("PadKspace", "read", "self.kspace_key"), ("PadKspace", "write", "self.kspace_key"),
   ("PadKspace", "write", "'original_size'"),
   ("PadCoilDimensionModule", "read", "self.key"), ("PadCoilDimensionModule", "write", "self.key"),
   ("PadCoilDimensionModule", "read", "'filename'")]

/-- the accesses that make the transform do its job: read and write of the k-space under the configured key -/
def keyRequired : List (String × String × String) :=
  [("CropKspace", "read", "'kspace'"), ("CropKspace", "write", "'kspace'"),
   ("RescaleKspace", "read", "self.kspace_key"), ("RescaleKspace", "write", "self.kspace_key"),
   ("PadKspace", "read", "self.kspace_key"), ("PadKspace", "write", "self.kspace_key"),
   ("PadCoilDimensionModule", "read", "self.key"), ("PadCoilDimensionModule", "write", "self.key")]

/-- no access outside the allowed ones (in particular: no k-space key other than the configured one, no wildcard
access, no sample handed to code that could not be followed), every required one present -/
def keyAccessOk (rows : List (String × String × String)) : Bool :=
  rows.all (fun r => keyAllowed.contains r) && keyRequired.all (fun r => rows.contains r)

/-- the module whose definition is modelled (and translated) for each primitive -/
def primitiveHome (prim : String) : String :=
  if prim == "crop_to_bbox" || prim == "crop_to_largest" then "direct.data.bbox" else "direct.data.transforms"

/-- rows `(file, primitive, module the reference resolves to)`: every reference to a crop / pad primitive inside `direct/`
reaches the modelled definition.  (`direct/utils/bbox.py` is an older copy of `direct/data/bbox.py`; its own internal
call is tolerated, any *other* file reaching it is not.) -/
def callersOk (rows : List (String × String × String)) : Bool :=
  rows.all fun (file, prim, mod) =>
    mod == primitiveHome prim || (file == "direct/utils/bbox.py" && mod == "direct.utils.bbox")

/-- the call edges the model relies on: `complex_center_crop` / `complex_random_crop` build a bounding box and hand every
tensor of the list to `crop_to_bbox` (so `bbox_correct` and the driver's `opCCC` / `opRandomCrop` speak about them),
`crop_to_largest` likewise, `CropKspace` crops with the two complex crops, `PadKspace` pads with `pad_tensor`. -/
def edgesRequired : List (String × String) :=
  [("complex_center_crop", "crop_to_bbox"), ("complex_random_crop", "crop_to_bbox"), ("crop_to_largest", "crop_to_bbox"),
   ("CropKspace", "complex_center_crop"), ("CropKspace", "complex_random_crop"), ("PadKspace", "pad_tensor")]

/-- every required edge is present (a composite that stops calling its modelled primitive is no longer covered by the
primitive's theorems) -/
def edgesOk (rows : List (String × String)) : Bool := edgesRequired.all fun r => rows.contains r

/-- hand-written table = what the translator finds on the current tree (fallback when the source cannot be walked) -/
def keyAccessModel : List (String × String × String) := keyAllowed

end DirectVerif.Crop
