import DirectVerif.Model.Basic
/-!
# C03 — under-sampling never leaks or alters k-space (models of `apply_mask`, `apply_padding`,
`MRIModelEngine._forward_operator/_backward_operator`, `MRILogLikelihood.forward`,
`ConjGrad._A_star_op`)

* Values are an explicit special-value type `FVal` (NaN-free as the property quantifies) so that
  "exactly +0" and "bit-identical" are statements about constructors, not about a field.
  `fin q` stands for the finite non-zero float whose exact value is the integer `q` (the
  correspondence only uses integer-valued float32 numbers, `±3.4028235e38` included).
* Masks are tensors over any type with a comparison against an integer literal (`MaskVal`):
  `Int` for bool / uint8 / int64 masks, `FVal` for float masks (`-0.0 == 0` is true).
* Broadcasting is numpy's: shapes are aligned at the last axis; all index arithmetic is done on
  *reversed* shapes/indices (last axis first) so that alignment is at the head of the lists.
-/
namespace DirectVerif.Mask
open DirectVerif

/-- NaN-free float32 values: the two zeros, the two infinities, finite non-zero `q`. -/
inductive FVal where
  | posZero | negZero | fin (q : Int) | posInf | negInf
deriving Repr, DecidableEq, Inhabited

namespace FVal
/-- well-formed: `fin 0` is not a value (the zeros are `posZero`/`negZero`) -/
def wf : FVal → Bool
  | fin q => q != 0
  | _ => true

/-- IEEE `v == c` for an integer literal `c` (`-0.0 == 0` is true, `inf == c` is false). -/
def eqInt : FVal → Int → Bool
  | posZero, c => c == 0
  | negZero, c => c == 0
  | fin q, c => q == c
  | _, _ => false

/-- IEEE negation -/
def neg : FVal → FVal
  | posZero => negZero
  | negZero => posZero
  | fin q => fin (-q)
  | posInf => negInf
  | negInf => posInf

/-- IEEE round-to-nearest `a - b` on the exactly representable domain; `none` is NaN. -/
def sub : FVal → FVal → Option FVal
  | posZero, posZero => some posZero
  | posZero, negZero => some posZero
  | negZero, posZero => some negZero
  | negZero, negZero => some posZero
  | posZero, fin b => some (fin (-b))
  | negZero, fin b => some (fin (-b))
  | fin a, posZero => some (fin a)
  | fin a, negZero => some (fin a)
  | fin a, fin b => some (if a = b then posZero else fin (a - b))
  | posInf, posInf => none
  | negInf, negInf => none
  | posInf, _ => some posInf
  | negInf, _ => some negInf
  | _, posInf => some negInf
  | _, negInf => some posInf

/-- IEEE `s * v` for a finite integer scalar `s`; `none` is NaN (`0 * inf`). -/
def mulInt (s : Int) : FVal → Option FVal
  | posZero => some (if s < 0 then negZero else posZero)
  | negZero => some (if s < 0 then posZero else negZero)
  | fin q => some (if s = 0 then (if q < 0 then negZero else posZero) else fin (s * q))
  | posInf => if s = 0 then none else some (if s < 0 then negInf else posInf)
  | negInf => if s = 0 then none else some (if s < 0 then posInf else negInf)
end FVal

/-- element type of a mask: anything that can be compared with an integer literal -/
class MaskVal (μ : Type) where
  eqConst : μ → Int → Bool

instance : MaskVal Int := ⟨fun a c => a == c⟩
instance : MaskVal FVal := ⟨FVal.eqInt⟩

/-- elementwise kernel of `apply_mask`, `MRILogLikelihood.forward`, `ConjGrad._A_star_op`:
`torch.where(mask == 0, torch.tensor([0.0]), kspace)` -/
def whereZero {μ} [MaskVal μ] (mv : μ) (kv : FVal) : FVal :=
  if MaskVal.eqConst mv 0 then .posZero else kv

/-- elementwise kernel of `apply_padding`: `torch.where(padding == 1, torch.tensor([0.0]), data)` -/
def wherePad {μ} [MaskVal μ] (pv : μ) (dv : FVal) : FVal :=
  if MaskVal.eqConst pv 1 then .posZero else dv

/-! ## index arithmetic on reversed shapes (last axis first) -/

def prodR : List Nat → Nat
  | [] => 1
  | n :: s => n * prodR s

/-- flat row-major offset -> multi-index (reversed) -/
def unravelR : List Nat → Nat → List Nat
  | [], _ => []
  | n :: s, f => f % n :: unravelR s (f / n)

/-- multi-index (reversed) -> flat row-major offset -/
def ravelR : List Nat → List Nat → Nat
  | n :: s, i :: is => i + n * ravelR s is
  | _, _ => 0

/-- numpy broadcasting as an index map: the index into a source of (reversed) shape `s` that an
output index `i` reads — extra leading output axes are dropped, axes of length 1 read entry 0. -/
def bIdxR : List Nat → List Nat → List Nat
  | n :: s, i :: is => (if n = 1 then 0 else i) :: bIdxR s is
  | _, _ => []

/-- numpy broadcast of two (reversed) shapes; `none` when some axis pair is incompatible. -/
def bShapeR : List Nat → List Nat → Option (List Nat)
  | [], t => some t
  | a :: s, [] => some (a :: s)
  | a :: s, b :: t =>
    if a = b ∨ b = 1 then (bShapeR s t).map (a :: ·)
    else if a = 1 then (bShapeR s t).map (b :: ·)
    else none

/-- `torch.where(cond, tensor([0.0]), data)` also broadcasts against the shape-`[1]` constant: two
0-dim operands give a 1-element result. -/
def outShapeR (m k : List Nat) : Option (List Nat) :=
  match bShapeR m k with
  | some [] => some [1]
  | r => r

/-- in-range multi-index (reversed) -/
def inRangeR : List Nat → List Nat → Prop
  | [], [] => True
  | n :: s, i :: is => i < n ∧ inRangeR s is
  | _, _ => False

/-- the entry of source tensor `t` that flat output position `fl` (output shape `sR`, reversed)
reads under broadcasting -/
def srcAt {α} (t : Tensor α) (dflt : α) (sR : List Nat) (fl : Nat) : α :=
  t.data.getD (ravelR t.shape.reverse (bIdxR t.shape.reverse (unravelR sR fl))) dflt

/-- `torch.where(<pred on m>, +0, k)` with broadcasting, `f` the elementwise kernel. -/
def whereWith {μ} [Inhabited μ] (f : μ → FVal → FVal) (m : Tensor μ) (k : Tensor FVal) :
    Option (Tensor FVal) :=
  match outShapeR m.shape.reverse k.shape.reverse with
  | none => none
  | some sR =>
    some { shape := sR.reverse,
           data := (List.range (prodR sR)).map fun fl =>
             f (srcAt m default sR fl) (srcAt k .posZero sR fl) }

/-- multi-index access (row-major, indices first axis first) -/
def getIdx {α} (t : Tensor α) (dflt : α) (idx : List Nat) : α :=
  t.data.getD (ravelR t.shape.reverse idx.reverse) dflt

/-- numpy's broadcast index map, first axis first: which entry of a source of shape `shape` the
output index `idx` reads -/
def bIdx (shape idx : List Nat) : List Nat := (bIdxR shape.reverse idx.reverse).reverse

/-- in-range multi-index, first axis first -/
def inRange (shape idx : List Nat) : Prop := inRangeR shape.reverse idx.reverse

/-- two k-spaces agree wherever the (broadcast) mask is set -/
def agreeOnSupport {μ} [Inhabited μ] [MaskVal μ] (m : Tensor μ) (k k' : Tensor FVal) : Prop :=
  k.shape = k'.shape ∧
  ∀ sR, outShapeR m.shape.reverse k.shape.reverse = some sR → ∀ fl, fl < prodR sR →
    MaskVal.eqConst (srcAt m default sR fl) 0 = false →
    srcAt k .posZero sR fl = srcAt k' .posZero sR fl

/-- outcome of the real functions -/
inductive Res (α : Type) where
  | ok (a : α)
  | assertionError      -- `assert_complex(kspace, complex_last=True)` fails
  | runtimeError        -- torch: shapes do not broadcast
deriving Repr, DecidableEq

/-- `apply_mask(kspace, mask, return_mask=False)` with the mask given as a tensor. -/
def applyMask {μ} [Inhabited μ] [MaskVal μ] (m : Tensor μ) (k : Tensor FVal) : Res (Tensor FVal) :=
  if k.shape.getLast? ≠ some 2 then .assertionError
  else match whereWith whereZero m k with
    | none => .runtimeError
    | some o => .ok o

/-- `apply_mask(kspace, mask_func, seed)`: the mask is `mask_func(shape = kspace.shape[1:], seed)`
(the first axis is the coil axis), then as above; the mask is returned as well. -/
def applyMaskFunc {μ} [Inhabited μ] [MaskVal μ] (maskFunc : List Nat → Option Int → Tensor μ)
    (k : Tensor FVal) (seed : Option Int) : Res (Tensor FVal × Tensor μ) :=
  if k.shape.getLast? ≠ some 2 then .assertionError
  else
    let m := maskFunc (k.shape.drop 1) seed
    match whereWith whereZero m k with
    | none => .runtimeError
    | some o => .ok (o, m)

/-- the part of a sample dict `ApplyMaskModule.forward` can see: `sample[input_kspace_key]`,
`sample[sampling_mask_key]` (absent keys are `none`) and whatever is already stored under
`target_kspace_key` (stale content of any shape, or nothing). -/
structure Sample (μ : Type) where
  input : Option (Tensor FVal)
  mask : Option (Tensor μ)
  target : Option (Tensor FVal)

/-- outcome of `ApplyMaskModule.forward`: the new `sample[target_kspace_key]` or the error raised -/
inductive ModRes where
  | ok (target : Tensor FVal)
  | valueError          -- input or mask key missing
  | assertionError
  | runtimeError
deriving Repr, DecidableEq

def ModRes.ofRes : Res (Tensor FVal) → ModRes
  | .ok o => .ok o
  | .assertionError => .assertionError
  | .runtimeError => .runtimeError

/-- `ApplyMaskModule.forward`: two key guards, then `target = apply_mask(input, mask)[0]` stored
under the target key.  A function of (input, mask) only: `s.target` is never read. -/
def applyMaskModule {μ} [Inhabited μ] [MaskVal μ] (s : Sample μ) : ModRes :=
  match s.input with
  | none => .valueError
  | some k =>
    match s.mask with
    | none => .valueError
    | some m => ModRes.ofRes (applyMask m k)

/-- a history of applications of the module to the *same* sample dict with a new mask each time
(distinct input and target keys): the target written by one step is the stale target of the next.
Returns the outcome of every step. -/
def moduleHistory {μ} [Inhabited μ] [MaskVal μ] (k : Tensor FVal) :
    Option (Tensor FVal) → List (Tensor μ) → List ModRes
  | _, [] => []
  | t, m :: ms =>
    let r := applyMaskModule { input := some k, mask := some m, target := t }
    let t' := match r with
      | .ok o => some o
      | _ => t
    r :: moduleHistory k t' ms

/-- `apply_padding(data, padding)`; `padding = None` returns the data. -/
def applyPadding {μ} [Inhabited μ] [MaskVal μ] (p : Option (Tensor μ)) (d : Tensor FVal) :
    Res (Tensor FVal) :=
  match p with
  | none => .ok d
  | some p => match whereWith wherePad p d with
    | none => .runtimeError
    | some o => .ok o

/-! ## the masked operators: composition order over abstract `F` / expand / reduce -/

inductive Stage where
  | expand | fourier | mask | reduce
deriving Repr, DecidableEq

/-- the operations an engine composes; everything except `mask` is arbitrary -/
structure Ops (V : Type) where
  expand : V → V
  fourier : V → V
  reduce : V → V
  mask : V → Option V

/-- run a stage list (first stage first) -/
def runStages {V} (ops : Ops V) : List Stage → V → Option V
  | [], v => some v
  | .expand :: rest, v => runStages ops rest (ops.expand v)
  | .fourier :: rest, v => runStages ops rest (ops.fourier v)
  | .reduce :: rest, v => runStages ops rest (ops.reduce v)
  | .mask :: rest, v => (ops.mask v).bind (runStages ops rest)

/-- `_forward_operator`: `apply_mask(forward_operator(expand_operator(image, S)), mask)` -/
def fwdStages : List Stage := [.expand, .fourier, .mask]
/-- `_backward_operator`, `ConjGrad._A_star_op`:
`reduce_operator(backward_operator(apply_mask(kspace, mask)), S)` -/
def bwdStages : List Stage := [.mask, .fourier, .reduce]

def Res.toOption {α} : Res α → Option α
  | .ok a => some a
  | _ => none

def fwdOp {μ} [Inhabited μ] [MaskVal μ] (expand F : Tensor FVal → Tensor FVal) (m : Tensor μ)
    (x : Tensor FVal) : Option (Tensor FVal) :=
  runStages { expand := expand, fourier := F, reduce := id, mask := fun v => (applyMask m v).toOption }
    fwdStages x

def bwdOp {μ} [Inhabited μ] [MaskVal μ] (Finv reduce : Tensor FVal → Tensor FVal) (m : Tensor μ)
    (y : Tensor FVal) : Option (Tensor FVal) :=
  runStages { expand := id, fourier := Finv, reduce := reduce, mask := fun v => (applyMask m v).toOption }
    bwdStages y

/-- `ConjGrad._A_star_op`: the same composition with a bare `torch.where` (no complex assert) -/
def aStarOp {μ} [Inhabited μ] [MaskVal μ] (Finv reduce : Tensor FVal → Tensor FVal) (m : Tensor μ)
    (y : Tensor FVal) : Option (Tensor FVal) :=
  runStages { expand := id, fourier := Finv, reduce := reduce, mask := whereWith whereZero m }
    bwdStages y

/-- `MRILogLikelihood.forward`:
`post (B (sub (where(m==0, 0, F (pre x))) (scale (where(m==0, 0, y)))))` — `pre` is the scaled
coil expansion, `post` the coil reduction; `F`, `B`, `sub`, `scale`, `pre`, `post` arbitrary. -/
def loglik {μ I O} [Inhabited μ] [MaskVal μ] (pre : I → Tensor FVal) (F B : Tensor FVal → Tensor FVal)
    (sub : Tensor FVal → Tensor FVal → Tensor FVal) (scale : Tensor FVal → Tensor FVal)
    (post : Tensor FVal → O) (m : Tensor μ) (x : I) (y : Tensor FVal) : Option O :=
  match whereWith whereZero m (F (pre x)), whereWith whereZero m y with
  | some a, some b => some (post (B (sub a (scale b))))
  | _, _ => none

/-- the `error` tensor of `MRILogLikelihood.forward` with concrete IEEE arithmetic (what the
correspondence observes at the input of the backward operator): `mr_forward - s * masked_y`. -/
def loglikError {μ} [Inhabited μ] [MaskVal μ] (m : Tensor μ) (fx y : Tensor FVal) (s : Int) :
    Option (Tensor FVal) :=
  loglik (fun (_ : Unit) => fx) id id
    (fun a b => { shape := a.shape,
                  data := List.zipWith (fun u v => ((FVal.sub u v).getD (.fin 0))) a.data b.data })
    (fun b => { shape := b.shape, data := b.data.map fun v => ((FVal.mulInt s v).getD (.fin 0)) })
    id m () y

/-! ## the table of masking sites under `direct/nn` -/

inductive Branch where
  | data | const (v : FVal)
deriving Repr, DecidableEq

/-- a `torch.where(<mask> ==/!= lit, thenB, elseB)` as read from the source -/
structure WhereSite where
  predEq : Bool
  predLit : Int
  thenB : Branch
  elseB : Branch
deriving Repr, DecidableEq

def Branch.pick (b : Branch) (kv : FVal) : FVal :=
  match b with
  | .data => kv
  | .const v => v

/-- the elementwise function such a site computes -/
def WhereSite.kernel {μ} [MaskVal μ] (w : WhereSite) (mv : μ) (kv : FVal) : FVal :=
  let c := MaskVal.eqConst mv w.predLit
  if (if w.predEq then c else !c) then w.thenB.pick kv else w.elseB.pick kv

/-- the only accepted `where` form: `mask == 0 ? +0 : data` -/
def WhereSite.wf (w : WhereSite) : Bool :=
  w.predEq && w.predLit == 0 && w.thenB == .const .posZero && w.elseB == .data

inductive SiteForm where
  | whereForm (w : WhereSite)
  | applyMask (complement : Bool)       -- `apply_mask(x, mask)` / `apply_mask(x, ~mask)`: the verified function
  | operatorCall (complement : Bool)    -- call of a masked operator method (`_forward_operator(…, ~mask)` …)
  | flagged (what : String)             -- multiplication by the mask, `masked_fill`, unrecognised `where`
deriving Repr, DecidableEq

structure Site where
  file : String
  func : String
  form : SiteForm
  operand : String
  mask : String
  zeroDtypeOf : String
deriving Repr, DecidableEq

/-- well-formed site: exact `where` form with a zero constant of an explicit tensor dtype, or a call of
the verified `apply_mask` / masked operators; anything else (products, `masked_fill`) is flagged. -/
def Site.wf (s : Site) : Bool :=
  match s.form with
  | .whereForm w => w.wf && s.zeroDtypeOf != ""
  | .applyMask _ => true
  | .operatorCall _ => true
  | .flagged _ => false

/-- functions whose masking sites the oracle exercises on the real module (non-interference /
exact zeros), and functions covered structurally only (engine training iterations: their sites are
calls of the verified `apply_mask` / `_forward_operator`) -/
def oracleCovered : List String :=
  ["RIMBlock.forward", "ConjGrad._A_star_op", "ConjGrad._A_star_A_op", "CrossDomainNetwork._forward_operator",
   "CrossDomainNetwork._backward_operator", "IterDualNet._forward_operator", "IterDualNet._backward_operator",
   "JointICNet._forward_operator", "JointICNet._backward_operator", "JointICNet.forward", "KIKINet.forward",
   "LPDNet._forward_operator", "LPDNet._backward_operator", "MRIModelEngine._forward_operator",
   "MRIModelEngine._backward_operator", "RecurrentVarNetBlock.forward", "MRILogLikelihood.forward",
   "EndToEndVarNetBlock.forward", "MRIVarSplitNet.forward", "VSharpNet.forward", "VSharpNet3D.forward",
   "VSharpNetEngine.forward_function", "VSharpNet3DEngine.forward_function", "ConjGrad.B_op", "ConjGrad.cg",
   "CrossDomainNetwork.kspace_correction", "CrossDomainNetwork.image_correction", "CrossDomainNetwork.forward",
   "IterDualNet.forward", "LPDNet.forward"]

def structuralOnly : List String :=
  ["SSLMRIModelEngine._do_iteration", "JSSLMRIModelEngine._do_iteration", "VSharpNetSSLEngine._do_iteration",
   "VSharpNetJSSLEngine._do_iteration", "VSharpNetEngine._do_iteration", "VSharpNet3DEngine._do_iteration",
   "MRIModelEngine._do_iteration", "MRIModelEngine.reconstruct_volumes"]

def Site.accounted (s : Site) : Bool := oracleCovered.contains s.func || structuralOnly.contains s.func

/-- why the `where` form matters: the multiplicative variant `kspace * mask` (mask 0/1) -/
def mulMask (mv : Int) (kv : FVal) : Option FVal := FVal.mulInt mv kv

/-! ## phase 3 — hard data consistency (SSL / JSSL engines, VSharp engines), the pipeline path
`CreateSamplingMask → ApplyMask`, the multiplicative ACS sites, structural tables -/

namespace FVal
/-- forget the sign of a zero (what `x + 0.0` does to `x`) -/
def unsign : FVal → FVal
  | negZero => posZero
  | v => v

/-- not an infinity -/
def isFinite : FVal → Bool
  | posInf => false
  | negInf => false
  | _ => true

/-- IEEE round-to-nearest `a + b` on the exactly representable domain (small integers; an infinity or a
zero with anything); `none` is NaN (`inf + -inf`). -/
def add : FVal → FVal → Option FVal
  | posZero, posZero => some posZero
  | posZero, negZero => some posZero
  | negZero, posZero => some posZero
  | negZero, negZero => some negZero
  | posZero, fin b => some (fin b)
  | negZero, fin b => some (fin b)
  | fin a, posZero => some (fin a)
  | fin a, negZero => some (fin a)
  | fin a, fin b => some (if a + b = 0 then posZero else fin (a + b))
  | posInf, negInf => none
  | negInf, posInf => none
  | posInf, _ => some posInf
  | negInf, _ => some negInf
  | _, posInf => some posInf
  | _, negInf => some negInf
end FVal

/-- `~mask` of a boolean mask (entries 0 / 1) -/
def notMask (m : Tensor Int) : Tensor Int :=
  { shape := m.shape, data := m.data.map fun v => if v == 0 then 1 else 0 }

/-- elementwise sum of two tensors of equal shape; a NaN result is the ill-formed value `fin 0` -/
def addT (a b : Tensor FVal) : Option (Tensor FVal) :=
  if a.shape = b.shape then
    some { shape := a.shape, data := List.zipWith (fun u v => (FVal.add u v).getD (.fin 0)) a.data b.data }
  else none

/-- the hard data-consistency step of the SSL / JSSL / VSharp engines:
`kspace + apply_mask(prediction, ~mask)` -/
def hardDC (m : Tensor Int) (y p : Tensor FVal) : Option (Tensor FVal) :=
  match applyMask (notMask m) p with
  | .ok q => addT y q
  | _ => none

/-- `SSLMRIModelEngine._do_iteration` / `JSSLMRIModelEngine._do_iteration` up to the loss:
`apply_padding(kspace + apply_mask(prediction, ~mask), padding)` and, in SSL training, the projection
`apply_mask(·, target_sampling_mask)` -/
def sslOutput (m : Tensor Int) (y p : Tensor FVal) (pad : Option (Tensor Int)) (tgt : Option (Tensor Int)) :
    Option (Tensor FVal) :=
  match hardDC m y p with
  | none => none
  | some o =>
    match applyPadding pad o with
    | .ok o' =>
      match tgt with
      | none => some o'
      | some t => (applyMask t o').toOption
    | _ => none

/-! ### `CreateSamplingMask` → `ApplyMask` (the mask-function path of the training pipeline) -/

/-- `CreateSamplingMask.__call__`: the shape handed to the mask function.  `shape=None` (or empty): `kspace.shape[1:]`;
a shape with `None` entries: those (and zeros — the code tests truthiness) are taken from `kspace.shape[1:-1]`, then
`+ (2,)`; a complete shape: as given `+ (2,)`.  `none` = `IndexError`. -/
def createMaskShape (opt : Option (List (Option Nat))) (kshape : List Nat) : Option (List Nat) :=
  match opt with
  | none => some (kshape.drop 1)
  | some [] => some (kshape.drop 1)
  | some l =>
    if l.any Option.isNone then
      let ks := (kshape.drop 1).dropLast
      (l.zipIdx.mapM fun (oi : Option Nat × Nat) => match oi.1 with
        | some (n + 1) => some (n + 1)
        | _ => ks[oi.2]?).map (· ++ [2])
    else some (l.map (·.getD 0) ++ [2])

/-- `seed = None if not use_seed else tuple(map(ord, str(filename)))` -/
def seedOf (useSeed : Bool) (filename : List Int) : Option (List Int) :=
  if useSeed then some filename else none

/-- the sampling mask `CreateSamplingMask` stores: `mask_func(shape, seed, return_acs=False)` with the padded
positions cleared by `apply_padding` when the sample has a `padding` entry.  Boolean masks are `FVal` tensors
(`False ↦ +0`, `True ↦ fin 1`) so that `apply_padding` / `apply_mask` are the modelled functions. -/
def createSamplingMask {π} [Inhabited π] [MaskVal π] (mf : List Nat → Option (List Int) → Tensor FVal)
    (opt : Option (List (Option Nat))) (useSeed : Bool) (filename : List Int) (pad : Option (Tensor π))
    (k : Tensor FVal) : Option (Tensor FVal) :=
  match createMaskShape opt k.shape with
  | none => none
  | some shp => (applyPadding pad (mf shp (seedOf useSeed filename))).toOption

/-- … followed by `ApplyMask` -/
def pipelineMasked {π} [Inhabited π] [MaskVal π] (mf : List Nat → Option (List Int) → Tensor FVal)
    (opt : Option (List (Option Nat))) (useSeed : Bool) (filename : List Int) (pad : Option (Tensor π))
    (k : Tensor FVal) : Option (Tensor FVal × Tensor FVal) :=
  match createSamplingMask mf opt useSeed filename pad k with
  | none => none
  | some m => ((applyMask m k).toOption).map fun o => (o, m)

/-! ### the ACS sites of the data pipeline (`EstimateSensitivityMapModule.estimate_acs_image`, `EstimateBodyCoilImage`) -/

/-- the k-space those sites hand to the backward operator: `T.apply_mask(kspace, acs_mask, return_mask=False)` (as
repaired; `acsKspacePinned` is the former product form) -/
def acsKspace (m : Tensor Int) (k : Tensor FVal) : Res (Tensor FVal) := applyMask m k

/-- **pinned tree**: `kspace * acs_mask + 0.0` for a 0/1 mask entry: NaN (the ill-formed value `fin 0`) for an infinite
k-space entry under a zero mask entry -/
def mulPlusZero (mv : Int) (kv : FVal) : FVal :=
  ((FVal.mulInt mv kv).bind (FVal.add · .posZero)).getD (.fin 0)

def acsKspacePinned (m : Tensor Int) (k : Tensor FVal) : Option (Tensor FVal) := whereWith mulPlusZero m k

/-! ### call histories on a persistent operator: a memoising masked operator -/

/-- a masked operator that keeps its last result under a key computed from the arguments (what a `self._cache`
attribute or a module-level slot would do); `key` is what the cache looks at -/
structure Memo (A K R : Type) where
  slot : Option (K × R)

def Memo.call {A K R} [DecidableEq K] (key : A → K) (f : A → R) (s : Memo A K R) (a : A) : Memo A K R × R :=
  match s.slot with
  | some (k, r) => if k = key a then (s, r) else (⟨some (key a, f a)⟩, f a)
  | none => (⟨some (key a, f a)⟩, f a)

def Memo.run {A K R} [DecidableEq K] (key : A → K) (f : A → R) : Memo A K R → List A → List R
  | _, [] => []
  | s, a :: as => let (s', r) := Memo.call key f s a; r :: Memo.run key f s' as

/-- a history of `apply_mask` calls on one persistent object, as the code is now: nothing but the arguments
determines a result (the complete key) -/
def maskHistory (calls : List (Tensor Int × Tensor FVal)) : List (Res (Tensor FVal)) :=
  Memo.run (fun a => a) (fun a => applyMask a.1 a.2) ⟨none⟩ calls

/-! ### structural facts of the functions that decide the property -/

/-- what the translator reads off a function body (private helpers of the same module / class are followed; the facts are
about behaviour, not about how the body is laid out) -/
structure FuncFacts where
  name : String
  unguardedInputReturns : Nat  -- returns that hand back a tensor argument itself outside an `if <arg> is None` guard
                               -- (aliasing / skipped masking)
  stateWrites : Nat      -- `global` / `nonlocal`, writes to `self.*`, to module-level containers, to function attributes,
                         -- to mutable default arguments, caching decorators
  inplaceOnArgs : Nat    -- subscript / augmented assignments and `…_()` / `out=` calls on a tensor argument
  dataBranches : Nat     -- conditions / loop ranges that depend on a tensor's shape, dtype or values or on the
                         -- training / grad / inference mode (size thresholds, chunking, mode-dependent paths)
deriving Repr, DecidableEq

/-- no state survives a call, no argument is modified or handed back, no size- or mode-dependent path -/
def FuncFacts.pure (f : FuncFacts) : Bool :=
  f.unguardedInputReturns == 0 && f.stateWrites == 0 && f.inplaceOnArgs == 0 && f.dataBranches == 0

def cleanFacts (n : String) : FuncFacts :=
  { name := n, unguardedInputReturns := 0, stateWrites := 0, inplaceOnArgs := 0, dataBranches := 0 }

/-- the facts of the modelled code (what `applyMask`, `applyPadding`, `applyMaskModule`, `createSamplingMask`,
`fwdOp`, `bwdOp`, `aStarOp`, `loglik` presuppose): functions of their arguments only, one path for every size and
mode; the only return of an input is `apply_padding`'s documented `padding is None` case (guarded, hence not counted) -/
def expectedFacts : List FuncFacts :=
  ["apply_mask", "apply_padding", "ApplyMaskModule.forward", "ApplyZeroPadding.__call__", "CreateSamplingMask.__call__",
   "ModuleWrapper.SubWrapper.__call__", "MRIModelEngine._forward_operator", "MRIModelEngine._backward_operator",
   "MRILogLikelihood.forward", "ConjGrad._A_star_op"].map cleanFacts

/-! ### masking sites outside `direct/nn` (data pipeline, SSL transforms, datasets) -/

/-- accepted there: the verified `apply_mask` / `where` forms; products of masks with masks / comparisons (boolean
algebra on masks, no k-space involved); a weighting window applied to an operand that `apply_mask` has already masked
(`T.apply_mask(kspace, acs_mask) * gaussian_mask`).  Any product of unmasked data with a mask is rejected (the two
former `kspace * acs_mask + 0.0` sites were repaired, see `acs_mul_pinned_violates`). -/
def Site.wfData (s : Site) : Bool :=
  match s.form with
  | .whereForm w => w.wf && s.zeroDtypeOf != ""
  | .applyMask _ => true
  | .operatorCall _ => true
  | .flagged what => what == "mask algebra" || what == "weighting of an already masked operand"

/-- how many masking sites each covered function of `direct/nn` has (a site that disappears is a lost masking) -/
def expectedSiteCounts : List (String × Nat) :=
  [("RIMBlock.forward", 1), ("ConjGrad._A_star_op", 1), ("ConjGrad._A_star_A_op", 1), ("ConjGrad.B_op", 1), ("ConjGrad.cg", 1),
   ("CrossDomainNetwork.kspace_correction", 1), ("CrossDomainNetwork.image_correction", 1),
   ("CrossDomainNetwork._forward_operator", 1), ("CrossDomainNetwork._backward_operator", 1), ("CrossDomainNetwork.forward", 1),
   ("IterDualNet._forward_operator", 1), ("IterDualNet._backward_operator", 1), ("IterDualNet.forward", 2),
   ("JointICNet._forward_operator", 1), ("JointICNet._backward_operator", 1), ("JointICNet.forward", 5), ("KIKINet.forward", 2),
   ("LPDNet._forward_operator", 1), ("LPDNet._backward_operator", 1), ("LPDNet.forward", 3),
   ("MRIModelEngine._forward_operator", 1), ("MRIModelEngine._backward_operator", 1), ("RecurrentVarNetBlock.forward", 1),
   ("MRILogLikelihood.forward", 2), ("SSLMRIModelEngine._do_iteration", 3), ("JSSLMRIModelEngine._do_iteration", 3),
   ("EndToEndVarNetBlock.forward", 1), ("MRIVarSplitNet.forward", 2), ("VSharpNet.forward", 1), ("VSharpNet3D.forward", 1),
   ("VSharpNet3DEngine.forward_function", 1), ("VSharpNetEngine.forward_function", 1), ("VSharpNetSSLEngine._do_iteration", 3),
   ("VSharpNetJSSLEngine._do_iteration", 2)]

def siteCount (sites : List Site) (f : String) : Nat := (sites.filter fun s => s.func == f).length

/-- the masking sites that are legitimately conditional (per function, private helpers inlined): the image-or-k-space output
alternatives and the training-only target projection of the SSL / JSSL engines, KIKINet's re-masking between iterations.
Every other site is executed on every call: a masked operator whose `where` / `apply_mask` moves under an `if` / a flag
changes this table. -/
def expectedConditionalSites : List (String × Nat) :=
  [("JSSLMRIModelEngine._do_iteration", 3), ("KIKINet.forward", 1), ("SSLMRIModelEngine._do_iteration", 3),
   ("VSharpNetJSSLEngine._do_iteration", 2), ("VSharpNetSSLEngine._do_iteration", 3)]

end DirectVerif.Mask
