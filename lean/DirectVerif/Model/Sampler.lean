import DirectVerif.Model.Basic
/-!
# C13 — samplers (models of `direct/utils/__init__.py: chunks` and `direct/data/samplers.py`)

* `chunks` — near-equal contiguous split (`d, r = divmod(len, k)`, start index
  `(d+1)*(idx if idx<r else r) + d*(0 if idx<r else idx-r)`).
* dataset layout = list of volume sizes; `volume_indices` = consecutive ranges.
* `DistributedSequentialSampler` = indices of the volumes of chunk `rank`.
* `BatchVolumeSampler.__iter__` = generator loop with the local state `(batch, end_of_volume
  iterator, next_value)` exactly as coded; `__len__ = Σ ceil(n_v / batch_size)`.
  `iteratePinned` mirrors the pre-repair code, whose iterator / `_next_value` lived on the object.
* `ConcatDatasetBatchSampler.batch_sampler` (offsets = cumulative sizes) with the drawn member and the
  member's index stream as inputs.
* `DistributedSampler`: `islice(infinite, rank, None, world)` with the permutation stream as input.
-/
namespace DirectVerif.Sampler

/-! ## chunks -/

/-- `si` of `chunks()` for `n = len(list_to_chunk)`, `k = number_of_chunks`. -/
def chunkStart (n k idx : Nat) : Nat :=
  (n / k + 1) * (if idx < n % k then idx else n % k) + (n / k) * (if idx < n % k then 0 else idx - n % k)

/-- length of the slice `[si : si + (d + 1 if idx < r else d)]` (before clipping; it never clips). -/
def chunkLen (n k idx : Nat) : Nat := if idx < n % k then n / k + 1 else n / k

/-- the same two formulas over `Int` (what the translator emits is compared with these). -/
def chunkStartI (n k idx : Int) : Int :=
  (n / k + 1) * (if idx < n % k then idx else n % k) + (n / k) * (if idx < n % k then 0 else idx - n % k)
def chunkStopI (n k idx : Int) : Int :=
  chunkStartI n k idx + (if idx < n % k then n / k + 1 else n / k)

/-- `list(chunks(xs, k))` for `k > 0` (`k = 0` raises `ZeroDivisionError`, handled by the caller). -/
def chunks {α} (xs : List α) (k : Nat) : List (List α) :=
  (List.range k).map fun idx =>
    slice xs (chunkStart xs.length k idx) (chunkStart xs.length k idx + chunkLen xs.length k idx)

/-! ## dataset layout, `DistributedSequentialSampler` -/

/-- one volume: its position in `dataset.volume_indices` (stands for the filename) and its
`range(start, stop)`. -/
structure Vol where
  id : Nat
  start : Nat
  stop : Nat
deriving Repr, DecidableEq

/-- the dataset indices of a volume, `list(range(start, stop))` -/
def Vol.indices (v : Vol) : List Nat := List.range' v.start (v.stop - v.start)
def Vol.size (v : Vol) : Nat := v.stop - v.start

/-- `dataset.volume_indices` for volume sizes `layout`, numbering from `id`, first index `off`. -/
def volsFrom (id off : Nat) : List Nat → List Vol
  | [] => []
  | n :: ns => ⟨id, off, off + n⟩ :: volsFrom (id + 1) (off + n) ns

def volumes (layout : List Nat) : List Vol := volsFrom 0 0 layout

/-- `if limit_number_of_volumes: filenames = filenames[:limit]` (0 / None = no limit; negative limits
slice from the end as Python does). -/
def applyLimit {α} (xs : List α) (limit : Int) : List α :=
  if limit = 0 then xs else pySlice xs 0 limit

/-- `sampler.volume_indices` of rank `rank` among `world` replicas (`0 < world`, `rank < world`). -/
def rankVols (layout : List Nat) (world rank : Nat) (limit : Int) : List Vol :=
  (chunks (applyLimit (volumes layout) limit) world).getD rank []

/-- `list(DistributedSequentialSampler(dataset, world, rank, limit))` -/
def seqSampler (layout : List Nat) (world rank : Nat) (limit : Int) : List Nat :=
  (rankVols layout world rank limit).flatMap Vol.indices

/-! ## `BatchVolumeSampler` -/

/-- Python's `next(it, default)` on a list-backed iterator: value and remaining iterator. -/
def pyNext (it : List Nat) (dflt : Option Nat) : Option Nat × List Nat :=
  match it with
  | [] => (dflt, [])
  | x :: rest => (some x, rest)

/-- `idx == next_value - 1` -/
def isVolEnd (next : Option Nat) (idx : Nat) : Bool :=
  match next with
  | none => false           -- (`None - 1` raises; see `BVS.raises`)
  | some nv => (idx : Int) == (nv : Int) - 1

/-- `(len(batch) == self.batch_size) or (idx == next_value - 1)` with `len(batch)` after the append -/
def yieldCond (lenBatch bs : Nat) (next : Option Nat) (idx : Nat) : Bool :=
  lenBatch == bs || isVolEnd next idx

/-- The body of `BatchVolumeSampler.__iter__` as a generator: the yielded batches, and the state
`(next_value, iterator)` at exhaustion (used by the pinned variant only).

```
for idx in self.sampler:
    batch.append(idx)
    if len(batch) == self.batch_size or idx == next_value - 1:  yield batch; batch = []
    if idx == next_value - 1:  next_value = next(end_of_volume, next_value)
if len(batch) > 0: yield batch
``` -/
def iterLoop (bs : Nat) : List Nat → Option Nat → List Nat → List Nat → List (List Nat) × (Option Nat × List Nat)
  | batch, next, it, [] => (if batch.length > 0 then [batch] else [], (next, it))
  | batch, next, it, idx :: idxs =>
    let batch' := batch ++ [idx]
    let st := if isVolEnd next idx then pyNext it next else (next, it)
    if yieldCond batch'.length bs next idx then
      let r := iterLoop bs [] st.1 st.2 idxs
      (batch' :: r.1, r.2)
    else iterLoop bs batch' st.1 st.2 idxs

/-- integer ceiling of the true quotient, `math.ceil(a / b)` (see Bridge/C13 for the float caveat) -/
def ceilDiv (a b : Nat) : Nat := (a + b - 1) / b

/-- `math.ceil(a / b)` as the translator emits it: the exact ceiling of the rational quotient, Python
floor-division semantics.  (binary64 true division followed by `ceil` agrees with it for
|a|, |b| < 2^53 — recorded assumption, probed by the oracle.) -/
def pyCeilTrueDiv (a b : Int) : Int := -(Int.fdiv (-a) b)

/-- the `BatchVolumeSampler` object after `__init__`. -/
structure BVS where
  indices : List Nat       -- `list(self.sampler)`
  ends : List Nat          -- `self.end_of_volume`
  bs : Nat                 -- `self.batch_size`
  numBatches : Nat         -- `self.__num_batches`
deriving Repr, DecidableEq

def BVS.mk' (vols : List Vol) (bs : Nat) : BVS :=
  { indices := vols.flatMap Vol.indices, ends := vols.map Vol.stop, bs := bs,
    numBatches := (vols.map fun v => ceilDiv v.size bs).sum }

/-- one pass `list(iter(obj))` of the current code: the iterator is rebuilt from `self.end_of_volume`;
nothing on the object changes. -/
def BVS.iterate (b : BVS) : List (List Nat) :=
  let st := pyNext b.ends none
  (iterLoop b.bs [] st.1 st.2 b.indices).1

/-- `None - 1` is evaluated (TypeError) exactly when there is an index but no volume end. -/
def BVS.raises (b : BVS) : Bool := b.ends.isEmpty && !b.indices.isEmpty

/-- operations on a sampler object and what they return -/
inductive Op where
  | iter | len
deriving Repr, DecidableEq

inductive Out where
  | batches (bs : List (List Nat))
  | len (n : Nat)
deriving Repr, DecidableEq

/-- one operation: new object state and result (the current code never changes the object) -/
def BVS.step (b : BVS) : Op → BVS × Out
  | .iter => (b, .batches b.iterate)
  | .len => (b, .len b.numBatches)

/-- results of an operation history on one object -/
def BVS.run (b : BVS) : List Op → List Out
  | [] => []
  | op :: ops => (b.step op).2 :: (b.step op).1.run ops

/-- The pre-repair object: `self.end_of_volume = iter(end_of_volume)`, `self._next_value` set once in
`__init__` and **consumed** by iteration. -/
structure BVSPinned where
  indices : List Nat
  it : List Nat            -- remaining `self.end_of_volume` iterator
  next : Option Nat        -- `self._next_value`
  bs : Nat
deriving Repr, DecidableEq

def BVSPinned.mk' (vols : List Vol) (bs : Nat) : BVSPinned :=
  let st := pyNext (vols.map Vol.stop) none
  { indices := vols.flatMap Vol.indices, it := st.2, next := st.1, bs := bs }

/-- one pass of the pre-repair code: the iterator state lives on the object and is carried over -/
def BVS.iteratePinned (b : BVSPinned) : BVSPinned × List (List Nat) :=
  let r := iterLoop b.bs [] b.next b.it b.indices
  ({ b with next := r.2.1, it := r.2.2 }, r.1)

/-- `m` successive passes over the same pre-repair object -/
def BVS.iteratePinnedTimes : Nat → BVSPinned → List (List (List Nat))
  | 0, _ => []
  | m + 1, b => (BVS.iteratePinned b).2 :: BVS.iteratePinnedTimes m (BVS.iteratePinned b).1

/-- all indices of a batch lie in one volume -/
def singleVolume (vols : List Vol) (batch : List Nat) : Bool :=
  vols.any fun v => batch.all fun i => v.start ≤ i && i < v.stop

/-! ## `ConcatDatasetBatchSampler` -/

/-- `cumsum`: `r.append(curr_len + s); s += curr_len` -/
def cumsumFrom (s : Nat) : List Nat → List Nat
  | [] => []
  | e :: es => (e + s) :: cumsumFrom (s + e) es
def cumsum (sizes : List Nat) : List Nat := cumsumFrom 0 sizes

/-- `0 if idx == 0 else self.cumulative_sizes[idx - 1]` -/
def concatOffset (sizes : List Nat) (idx : Nat) : Nat :=
  if idx = 0 then 0 else (cumsum sizes).getD (idx - 1) 0

/-- `batch_sampler(sampler, offset)` run over a finite stream prefix:
```
for batch_idx in sampler:
    batch.append(batch_idx + sampler_offset)
    if len(batch) == self.batch_size: yield batch; batch = []
if len(batch) > 0: yield batch
``` -/
def batchLoop (bs offset : Nat) : List Nat → List Nat → List (List Nat)
  | batch, [] => if batch.length > 0 then [batch] else []
  | batch, i :: is =>
    let batch' := batch ++ [i + offset]
    if batch'.length == bs then batch' :: batchLoop bs offset [] is else batchLoop bs offset batch' is

def batchSampler (bs offset : Nat) (stream : List Nat) : List (List Nat) := batchLoop bs offset [] stream

/-- `__next__` repeatedly: `draws` = the members chosen by `random.choices`; member `m`'s generator is
advanced once per draw of `m`.  `streams` = (long enough prefixes of) the members' index streams.
`none` = the prefix supplied was too short. -/
def concatRunFrom (sizes : List Nat) (bs : Nat) (streams : List (List Nat)) :
    List Nat → List Nat → List (Option (List Nat))
  | _, [] => []
  | counts, m :: draws =>
    let t := counts.getD m 0
    let full := (streams.getD m []).take ((t + 1) * bs)     -- the part of the stream consumed so far
    let b := if full.length = (t + 1) * bs then (batchSampler bs (concatOffset sizes m) full)[t]? else none
    b :: concatRunFrom sizes bs streams (counts.set m (t + 1)) draws

def concatRun (sizes : List Nat) (bs : Nat) (streams : List (List Nat)) (draws : List Nat) :
    List (Option (List Nat)) :=
  concatRunFrom sizes bs streams (List.replicate sizes.length 0) draws

/-! ## `DistributedSampler` -/

/-- `itertools.islice(xs, start, None, step)` on a finite prefix (`step > 0`): walk the stream with a
countdown `skip`; emit when it reaches 0 and reset it to `step - 1`. -/
def isliceAux {α} (step : Nat) : List α → Nat → List α
  | [], _ => []
  | x :: xs, 0 => x :: isliceAux step xs (step - 1)
  | _ :: xs, s + 1 => isliceAux step xs s

def islice {α} (xs : List α) (start step : Nat) : List α := isliceAux step xs start

/-- `_infinite_indices`: concatenation of the epoch permutations (first `perms.length` epochs) -/
def infinitePrefix (perms : List (List Nat)) : List Nat := perms.flatten

/-- the first elements of `iter(DistributedSampler)` on rank `rank` of `world` -/
def distStream (perms : List (List Nat)) (rank world : Nat) : List Nat :=
  islice (infinitePrefix perms) rank world

/-! ## structure of the code as the translator reports it (compared in Bridge/C13) -/

/-- every call of `build_batch_sampler` in `direct/engine.py`: enclosing method and arguments.  No call
site passes a volume limit, so `limit = 0` (None) is the only case that reaches the sampler. -/
def expectedBatchSamplerCalls : List String :=
  ["predict: (dataset, batch_size=batch_size, sampler_type='sequential', limit_number_of_volumes=None)",
   "training_loop: (training_datasets, self.cfg.training.batch_size, 'random')",
   "validation_loop: (curr_validation_dataset, batch_size=self.cfg.validation.batch_size, sampler_type='sequential', limit_number_of_volumes=None)"]

/-- `DistributedSampler`: its methods (no `set_epoch`: one generator, seeded once, runs through all epochs)
and the body of `_infinite_indices` -/
def expectedDistStructure : List String :=
  ["methods: __init__, __iter__, _infinite_indices",
   "g=torch.Generator()",
   "g.manual_seed(self._seed)",
   "while True",
   "  if self._shuffle",
   "    yield from torch.randperm(self._size, generator=g)",
   "  else",
   "    yield from torch.arange(self._size)"]

/-- `ConcatDatasetBatchSampler`: the member is drawn with probability proportional to its length, then the
member's own batch generator is advanced -/
def expectedConcatNext : List String :=
  ["self.samplers=[DistributedSampler(len(_), shuffle=True, seed=seed) for _ in datasets]",
   "self.weights=np.asarray([len(_) for _ in datasets])",
   "self.cumulative_sizes=self.cumsum(datasets)",
   "iterator_idx=random.choices(range(len(self.weights)), weights=self.weights / self.weights.sum())[0]",
   "return next(self._batch_samplers[iterator_idx])"]

end DirectVerif.Sampler
