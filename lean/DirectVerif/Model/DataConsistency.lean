/-!
# Data-consistency blocks (import-free, executable): `MRILogLikelihood` and `ConjGrad`

Mirrors `direct/nn/rim/rim.py : MRILogLikelihood.forward` and
`direct/nn/conjgradnet/conjgrad.py : ConjGrad._A_star_op / _A_star_A_op / B_op / cg / forward`
(+ `_PRP`, `_DY`, `_BAN`) as they are in /repo **now**.

The two blocks are written once, over a record `Ops K V W` of the tensor operations the code calls
(`K` complex scalars = `(N, 2)` tensors, `V` images `(N, H, W, 2)`, `W` multi-coil k-space
`(N, C, H, W, 2)`).  The same definitions are

* executed by `Driver/C19.lean` over exact Gaussian rationals (`qOps`), and
* reasoned about in `Props/C19.lean` over Mathlib's complex inner-product spaces (`mathOps`).

A small SSA "plan" language (`Op`, `Node`, `evalPlan`) carries the operator composition that the
translator extracts from the Python AST; `Bridge/C19.lean` proves that the generated plans are the
plans below, and that the plans below evaluate to `loglik` / `cgInit` / `cgStep`.
-/
namespace DirectVerif.DataConsistency

universe u v w

/-- The tensor operations used by the two blocks. -/
structure Ops (K : Type u) (V : Type v) (W : Type w) where
  /-- `a + b` on images -/
  addV : V → V → V
  /-- `a - b` on images -/
  subV : V → V → V
  /-- `complex_multiplication(a.reshape(shape), v)` and `lambd * v` (scalar times image) -/
  smulV : K → V → V
  /-- `complex_dot_product(a, b, dim) = Σ conj(a)·b` (conjugate-linear in the FIRST argument) -/
  inner : V → V → K
  /-- `complex_division(a, b)`; `safe_divide` makes it `0` where the divisor is `0` -/
  div : K → K → K
  /-- `a - b` on k-space -/
  subW : W → W → W
  /-- `loglikelihood_scaling * w` -/
  smulW : K → W → W
  /-- `complex_multiplication(sensitivity_map, x.unsqueeze(coil_dim))` = `expand_operator` -/
  expand : V → W
  /-- `complex_multiplication(conjugate(sensitivity_map), w).sum(coil_dim)` = `reduce_operator` -/
  reduce : W → V
  /-- `self.forward_operator(·, dim=self._spatial_dims)` -/
  fwd : W → W
  /-- `self.backward_operator(·, dim=self._spatial_dims)` -/
  bwd : W → W
  /-- `torch.where(sampling_mask == 0, 0, ·)` -/
  mask : W → W

section Blocks
variable {K : Type u} {V : Type v} {W : Type w} (o : Ops K V W)

/-! ## MRILogLikelihood.forward -/

/-- `MRILogLikelihood.forward(input_image=x, masked_kspace=y, …, loglikelihood_scaling=s)` in the
code's composition order:
```
mul        = s * complex_multiplication(S, x.unsqueeze(1))
mr_forward = where(mask == 0, 0, forward_operator(mul))
error      = mr_forward - s * where(mask == 0, 0, y)
out        = complex_multiplication(conjugate(S), backward_operator(error)).sum(coil)
```
(both the model term and the data term are masked; no `1/σ²` other than `s`). -/
def loglik (s : K) (x : V) (y : W) : V :=
  let mul := o.smulW s (o.expand x)
  let mrForward := o.mask (o.fwd mul)
  let error := o.subW mrForward (o.smulW s (o.mask y))
  let mrBackward := o.bwd error
  o.reduce mrBackward

/-! ## ConjGrad -/

/-- `_A_star_op(kspace) = reduce_operator(backward_operator(where(mask == 0, 0, kspace)), S)` -/
def aStar (y : W) : V := o.reduce (o.bwd (o.mask y))

/-- `_A_star_A_op(image) = _A_star_op(forward_operator(expand_operator(image, S)))` (one mask) -/
def aStarA (x : V) : V := aStar o (o.fwd (o.expand x))

/-- `B_op(x) = _A_star_A_op(x) + lambd * x` -/
def bOp (lam : K) (x : V) : V := o.addV (aStarA o x) (o.smulV lam x)

/-- `b = _A_star_op(y) + lambd * z` -/
def rhs (lam : K) (y : W) (z : V) : V := o.addV (aStar o y) (o.smulV lam z)

/-- `bk_update_type` -/
inductive Update | FR | PRP | DY | BAN
deriving DecidableEq, Repr

/-- loop-carried variables of `cg`: `x`, `rk_old`, `pk`, `rk_norm_sq_old` -/
structure CGState (K : Type u) (V : Type v) where
  x : V
  r : V
  p : V
  rr : K

/-- the statements of `cg` before the loop -/
def cgInit (lam : K) (y : W) (z x0 : V) : CGState K V :=
  let b := rhs o lam y z
  let r := o.subV b (bOp o lam x0)
  { x := x0, r := r, p := r, rr := o.inner r r }

/-- `bk` for the four update types (`FR` inline, `_PRP`, `_DY`, `_BAN`) -/
def beta (u : Update) (rNew rOld p : V) (rrNew rrOld : K) : K :=
  match u with
  | .FR => o.div rrNew rrOld
  | .PRP => o.div (o.inner rNew (o.subV rNew rOld)) (o.inner rOld rOld)
  | .DY => o.div (o.inner rNew rNew) (o.inner p (o.subV rNew rOld))
  | .BAN => o.div (o.inner rNew (o.subV rNew rOld)) (o.inner rOld (o.subV rNew rOld))

/-- one pass through the loop body of `cg` (without the `break`), `B = B_op(·, S, mask, lambd)`:
```
Bpk = B(pk);  ak = rk_norm_sq_old / <rk_old, Bpk>
x = x + ak pk;  rk_new = rk_old - ak Bpk;  rk_norm_sq_new = <rk_new, rk_new>
bk = …;  pk = rk_new + bk pk;  rk_norm_sq_old = rk_norm_sq_new;  rk_old = rk_new
``` -/
def cgStep (u : Update) (B : V → V) (s : CGState K V) : CGState K V :=
  let Bp := B s.p
  let a := o.div s.rr (o.inner s.r Bp)
  let x' := o.addV s.x (o.smulV a s.p)
  let r' := o.subV s.r (o.smulV a Bp)
  let rr' := o.inner r' r'
  let b := beta o u r' s.r s.p rr' s.rr
  { x := x', r := r', p := o.addV r' (o.smulV b s.p), rr := rr' }

/-- `k` passes through the loop body -/
def cgIter (u : Update) (B : V → V) : Nat → CGState K V → CGState K V
  | 0, s => s
  | k + 1, s => cgIter u B k (cgStep o u B s)

/-- the loop of `cg`: `for _ in range(num_iters)` with the `break` placed **after** the update of
`x` (`stop rk_norm_sq_new` is `rk_norm_sq_new.abs().sqrt().mean() < self.tol`); returns `x`. -/
def cgLoop (u : Update) (B : V → V) (stop : K → Bool) : Nat → CGState K V → V
  | 0, s => s.x
  | n + 1, s =>
    let s' := cgStep o u B s
    if stop s'.rr then s'.x else cgLoop u B stop n s'

/-- `ConjGrad.cg(x, y, S, mask, lambd, z)` -/
def cg (u : Update) (numIters : Nat) (stop : K → Bool) (lam : K) (x0 : V) (y : W) (z : V) : V :=
  cgLoop o u (bOp o lam) stop numIters (cgInit o lam y z x0)

/-- `ConjGrad.forward(masked_kspace, S, mask, z, lambd) = cg(z, masked_kspace, S, mask, lambd, z)` -/
def conjGradForward (u : Update) (numIters : Nat) (stop : K → Bool) (lam : K) (y : W) (z : V) : V :=
  cg o u numIters stop lam z y z

/-! ### `cg` on a batch: the stopping test couples the samples

Everything in `cg` is per sample (`complex_dot_product` reduces over all axes but batch and complex) except the
`break` test `rk_norm_sq_new.abs().sqrt().mean() < self.tol`, a mean over the batch (and the (re, im) pair). -/

/-- one sample of a batch: its operators (sensitivity map, mask) and data -/
structure Sample (K : Type u) (V : Type v) (W : Type w) where
  o : Ops K V W
  x0 : V
  y : W
  z : V

/-- the loop body applied to every sample -/
def stepAll (steps : List (CGState K V → CGState K V)) (ss : List (CGState K V)) : List (CGState K V) :=
  List.zipWith (fun f s => f s) steps ss

/-- the loop of `cg` on a batch; `stopB` sees the new squared residual norms of ALL samples -/
def cgLoopBatch (steps : List (CGState K V → CGState K V)) (stopB : List K → Bool) :
    Nat → List (CGState K V) → List V
  | 0, ss => ss.map (·.x)
  | n + 1, ss =>
    let ss' := stepAll steps ss
    if stopB (ss'.map (·.rr)) then ss'.map (·.x) else cgLoopBatch steps stopB n ss'

/-- `ConjGrad.cg` on a batch (shared `lambd`, `num_iters`, `tol`, update type) -/
def cgBatch (u : Update) (numIters : Nat) (stopB : List K → Bool) (lam : K) (samples : List (Sample K V W)) :
    List V :=
  cgLoopBatch (samples.map fun s => cgStep s.o u (bOp s.o lam)) stopB numIters
    (samples.map fun s => cgInit s.o lam s.y s.z s.x0)

end Blocks

/-! ## The same physics re-implemented inside the unrolled models (phase 2)

Extra operations some sites need on top of `Ops`. -/

/-- `Ops` plus k-space addition, the complementary mask (`apply_mask(·, ~mask)`) and the coil-wise
product with the conjugate image (`complex_multiplication(w, conjugate(x).unsqueeze(coil))`). -/
structure OpsX (K : Type u) (V : Type v) (W : Type w) extends Ops K V W where
  addW : W → W → W
  maskC : W → W
  mulConjVW : V → W → W

section Sites
variable {K : Type u} {V : Type v} {W : Type w} (o : Ops K V W)

/-- `_forward_operator(image, mask, S)` of LPDNet / CrossDomainNetwork (XPDNet) / JointICNet /
IterDualNet / MRIModelEngine, and the k-space update of KIKINet: `A x = M F E x`. -/
def aOp (x : V) : W := o.mask (o.fwd (o.expand x))

/-- SENSE combination `reduce_operator(backward_operator(k), S)` (no mask): the image the regularisers
of EndToEndVarNetBlock / RecurrentVarNetBlock / CIRIM see, and the initialisation of VSharpNet /
IterDualNet (there applied to the already masked k-space). -/
def sense (k : W) : V := o.reduce (o.bwd k)

/-- `forward_operator(expand_operator(x, S))` (no mask): regulariser output back to k-space. -/
def feOp (x : V) : W := o.fwd (o.expand x)

/-- soft data consistency in k-space of EndToEndVarNetBlock, RecurrentVarNetBlock, CIRIM:
`where(mask == 0, 0, current_kspace − masked_kspace) = M (k − y)`. -/
def softDC (k y : W) : W := o.mask (o.subW k y)

/-- image-domain gradient step of IterDualNet and JointICNet:
`_backward_operator(_forward_operator(x) − masked_kspace) = R Fb M (M F E x − y)` (data term masked
by the adjoint only). -/
def dcGradTwice (x : V) (y : W) : V := aStar o (o.subW (aOp o x) y)

/-- gradient step of VSharpNet / VSharpNet3D:
`reduce(backward(apply_mask(forward(expand x) − masked_kspace))) = R Fb M (F E x − y)` (one mask,
after the subtraction). -/
def dcGradAfter (x : V) (y : W) : V := o.reduce (o.bwd (o.mask (o.subW (o.fwd (o.expand x)) y)))

/-- CIRIM's k-space output per time step: `masked_kspace − soft_dc − F E x`. -/
def cirimKspace (x : V) (k y : W) : W := o.subW (o.subW y (softDC o k y)) (o.fwd (o.expand x))

end Sites

section SitesX
variable {K : Type u} {V : Type v} {W : Type w} (ox : OpsX K V W)

/-- hard data consistency of the SSL / VSharp engines:
`kspace + _forward_operator(x, S, ~mask) = y + (1 − M) F E x`. -/
def hardDC (x : V) (y : W) : W := ox.addW y (ox.maskC (ox.fwd (ox.expand x)))

/-- JointICNet's gradient step for the sensitivity map:
`backward(where(mask == 0, 0, _forward_operator(x) − y)) · conj(x)`. -/
def sensGrad (x : V) (y : W) : W :=
  ox.mulConjVW x (ox.bwd (ox.mask (ox.subW (aOp ox.toOps x) y)))

end SitesX

/-! ## Plans: the operator composition as data (filled in by the translator) -/

/-- vocabulary of the straight-line tensor code of the two blocks -/
inductive Op
  | param (i : Nat)      -- i-th input of the plan
  | expand | reduce | fwd | bwd | mask
  | maskC                -- `apply_mask(·, ~mask)`
  | mulConjV             -- `complex_multiplication(w, conjugate(x).unsqueeze(coil))`, args `[x, w]`
  | pad                  -- `apply_padding(·, padding)`: identity for `padding = None`
  | add | sub            -- `+`, `-` (images or k-space)
  | mul                  -- `scalar * tensor` / `complex_multiplication(scalar, image)`
  | dot                  -- `complex_dot_product(a, b, dim)`
  | cdiv                 -- `complex_division(a, b)`
  | toLast | toFirst     -- `permute(0, 2, 3, 1)` / `permute(0, 3, 1, 2)`: layout only
  | unknown (tag : Nat)  -- a call the translator has no rule for
deriving DecidableEq, Repr

structure Node where
  op : Op
  args : List Nat
deriving DecidableEq, Repr

structure Plan where
  nodes : List Node
  outs : List Nat
deriving DecidableEq, Repr

inductive Val (K : Type u) (V : Type v) (W : Type w)
  | k (a : K) | v (a : V) | w (a : W)

section Eval
variable {K : Type u} {V : Type v} {W : Type w} (o : OpsX K V W)

def evalNode (ps env : List (Val K V W)) (n : Node) : Option (Val K V W) :=
  match n.op, (n.args.map (fun i => env[i]?) : List (Option (Val K V W))) with
  | .param i, [] => ps[i]?
  | .expand, [some (.v x)] => some (.w (o.expand x))
  | .reduce, [some (.w x)] => some (.v (o.reduce x))
  | .fwd, [some (.w x)] => some (.w (o.fwd x))
  | .bwd, [some (.w x)] => some (.w (o.bwd x))
  | .mask, [some (.w x)] => some (.w (o.mask x))
  | .maskC, [some (.w x)] => some (.w (o.maskC x))
  | .mulConjV, [some (.v x), some (.w y)] => some (.w (o.mulConjVW x y))
  | .pad, [some (.w x)] => some (.w x)
  | .add, [some (.w a), some (.w b)] => some (.w (o.addW a b))
  | .add, [some (.v a), some (.v b)] => some (.v (o.addV a b))
  | .sub, [some (.v a), some (.v b)] => some (.v (o.subV a b))
  | .sub, [some (.w a), some (.w b)] => some (.w (o.subW a b))
  | .mul, [some (.k a), some (.v b)] => some (.v (o.smulV a b))
  | .mul, [some (.k a), some (.w b)] => some (.w (o.smulW a b))
  | .dot, [some (.v a), some (.v b)] => some (.k (o.inner a b))
  | .cdiv, [some (.k a), some (.k b)] => some (.k (o.div a b))
  | .toLast, [some (.v x)] => some (.v x)
  | .toFirst, [some (.v x)] => some (.v x)
  | _, _ => none

def evalNodes (ps : List (Val K V W)) : List Node → List (Val K V W) → Option (List (Val K V W))
  | [], env => some env
  | n :: ns, env =>
    match evalNode o ps env n with
    | some v => evalNodes ps ns (env ++ [v])
    | none => none

def evalPlan (ps : List (Val K V W)) (p : Plan) : Option (List (Val K V W)) :=
  match evalNodes o ps p.nodes [] with
  | some env => p.outs.mapM (fun i => env[i]?)
  | none => none

end Eval

/-- `MRILogLikelihood.forward`; inputs `[input_image, masked_kspace, loglikelihood_scaling]`
(the sensitivity map and the sampling mask live inside `expand`/`reduce`/`mask`). -/
def loglikPlan : Plan :=
  { nodes := [
      ⟨.param 0, []⟩,      -- 0  input_image
      ⟨.toLast, [0]⟩,      -- 1  input_image.permute(0, 2, 3, 1)
      ⟨.param 2, []⟩,      -- 2  loglikelihood_scaling
      ⟨.expand, [1]⟩,      -- 3  complex_multiplication(S, input_image.unsqueeze(1))
      ⟨.mul, [2, 3]⟩,      -- 4  mul
      ⟨.fwd, [4]⟩,         -- 5  forward_operator(mul)
      ⟨.mask, [5]⟩,        -- 6  mr_forward
      ⟨.param 1, []⟩,      -- 7  masked_kspace
      ⟨.mask, [7]⟩,        -- 8  where(mask == 0, 0, masked_kspace)
      ⟨.mul, [2, 8]⟩,      -- 9  loglikelihood_scaling * …
      ⟨.sub, [6, 9]⟩,      -- 10 error
      ⟨.bwd, [10]⟩,        -- 11 mr_backward
      ⟨.reduce, [11]⟩,     -- 12 out
      ⟨.toFirst, [12]⟩ ],  -- 13 out.permute(0, 3, 1, 2)
    outs := [13] }

/-- `_A_star_op`; inputs `[kspace]` -/
def aStarPlan : Plan :=
  { nodes := [⟨.param 0, []⟩, ⟨.mask, [0]⟩, ⟨.bwd, [1]⟩, ⟨.reduce, [2]⟩], outs := [3] }

/-- `_A_star_A_op` with `_A_star_op` inlined; inputs `[image]` -/
def aStarAPlan : Plan :=
  { nodes := [⟨.param 0, []⟩, ⟨.expand, [0]⟩, ⟨.fwd, [1]⟩, ⟨.mask, [2]⟩, ⟨.bwd, [3]⟩, ⟨.reduce, [4]⟩],
    outs := [5] }

/-! ### plans of the phase-2 sites (used only when the translator has to skip a site) -/
def softDCPlan : Plan := { nodes := [⟨.param 0, []⟩, ⟨.param 1, []⟩, ⟨.sub, [0, 1]⟩, ⟨.mask, [2]⟩], outs := [3] }
def sensePlan : Plan := { nodes := [⟨.param 0, []⟩, ⟨.bwd, [0]⟩, ⟨.reduce, [1]⟩], outs := [2] }
def senseFirstPlan : Plan :=
  { nodes := [⟨.param 0, []⟩, ⟨.bwd, [0]⟩, ⟨.reduce, [1]⟩, ⟨.toFirst, [2]⟩], outs := [3] }
def senseYPlan : Plan := { nodes := [⟨.param 1, []⟩, ⟨.bwd, [0]⟩, ⟨.reduce, [1]⟩], outs := [2] }
def feOpPlan : Plan := { nodes := [⟨.param 0, []⟩, ⟨.expand, [0]⟩, ⟨.fwd, [1]⟩], outs := [2] }
def aOpPlan : Plan := { nodes := [⟨.param 0, []⟩, ⟨.expand, [0]⟩, ⟨.fwd, [1]⟩, ⟨.mask, [2]⟩], outs := [3] }
def dcGradAfterPlan : Plan :=
  { nodes := [⟨.param 0, []⟩, ⟨.expand, [0]⟩, ⟨.fwd, [1]⟩, ⟨.param 1, []⟩, ⟨.sub, [2, 3]⟩, ⟨.mask, [4]⟩,
              ⟨.bwd, [5]⟩, ⟨.reduce, [6]⟩], outs := [7] }
def dcGradTwicePlan : Plan :=
  { nodes := [⟨.param 0, []⟩, ⟨.expand, [0]⟩, ⟨.fwd, [1]⟩, ⟨.mask, [2]⟩, ⟨.param 1, []⟩, ⟨.sub, [3, 4]⟩,
              ⟨.mask, [5]⟩, ⟨.bwd, [6]⟩, ⟨.reduce, [7]⟩], outs := [8] }
def sensGradPlan : Plan :=
  { nodes := [⟨.param 0, []⟩, ⟨.expand, [0]⟩, ⟨.fwd, [1]⟩, ⟨.mask, [2]⟩, ⟨.param 1, []⟩, ⟨.sub, [3, 4]⟩,
              ⟨.mask, [5]⟩, ⟨.bwd, [6]⟩, ⟨.mulConjV, [0, 7]⟩], outs := [8] }
def loglikCorePlan : Plan :=
  { nodes := [⟨.param 2, []⟩, ⟨.param 0, []⟩, ⟨.expand, [1]⟩, ⟨.mul, [0, 2]⟩, ⟨.fwd, [3]⟩, ⟨.mask, [4]⟩,
              ⟨.param 1, []⟩, ⟨.mask, [6]⟩, ⟨.mul, [0, 7]⟩, ⟨.sub, [5, 8]⟩, ⟨.bwd, [9]⟩, ⟨.reduce, [10]⟩],
    outs := [11] }
def cirimKspacePlan : Plan :=
  { nodes := [⟨.param 0, []⟩, ⟨.param 1, []⟩, ⟨.sub, [0, 1]⟩, ⟨.mask, [2]⟩, ⟨.sub, [1, 3]⟩, ⟨.param 2, []⟩,
              ⟨.expand, [5]⟩, ⟨.fwd, [6]⟩, ⟨.sub, [4, 7]⟩], outs := [8] }
def hardDCPlan : Plan :=
  { nodes := [⟨.param 1, []⟩, ⟨.param 0, []⟩, ⟨.expand, [1]⟩, ⟨.fwd, [2]⟩, ⟨.maskC, [3]⟩, ⟨.add, [0, 4]⟩,
              ⟨.pad, [5]⟩], outs := [6] }
def hardDCPadPlan : Plan :=
  { nodes := [⟨.param 1, []⟩, ⟨.param 0, []⟩, ⟨.expand, [1]⟩, ⟨.fwd, [2]⟩, ⟨.pad, [3]⟩, ⟨.maskC, [4]⟩,
              ⟨.add, [0, 5]⟩], outs := [6] }

/-- `B_op` fully inlined; inputs `[x, lambd]` -/
def bOpPlan : Plan :=
  { nodes := [⟨.param 0, []⟩, ⟨.expand, [0]⟩, ⟨.fwd, [1]⟩, ⟨.mask, [2]⟩, ⟨.bwd, [3]⟩, ⟨.reduce, [4]⟩,
              ⟨.param 1, []⟩, ⟨.mul, [6, 0]⟩, ⟨.add, [5, 7]⟩],
    outs := [8] }

/-- `cg` before the loop; inputs `[x, y, lambd, z]`; outputs `[x, rk_old, pk, rk_norm_sq_old]` -/
def cgInitPlan : Plan :=
  { nodes := [
      ⟨.param 1, []⟩, ⟨.mask, [0]⟩, ⟨.bwd, [1]⟩, ⟨.reduce, [2]⟩,           -- 3  _A_star_op(y)
      ⟨.param 2, []⟩, ⟨.param 3, []⟩, ⟨.mul, [4, 5]⟩, ⟨.add, [3, 6]⟩,      -- 7  b
      ⟨.param 0, []⟩, ⟨.expand, [8]⟩, ⟨.fwd, [9]⟩, ⟨.mask, [10]⟩, ⟨.bwd, [11]⟩, ⟨.reduce, [12]⟩,
      ⟨.mul, [4, 8]⟩, ⟨.add, [13, 14]⟩,                                    -- 15 B_op(x)
      ⟨.sub, [7, 15]⟩,                                                     -- 16 rk_old (= pk)
      ⟨.dot, [16, 16]⟩ ],                                                  -- 17 rk_norm_sq_old
    outs := [8, 16, 16, 17] }

/-- the first half of the loop body of `cg` (up to the `break` test);
inputs `[x, rk_old, pk, rk_norm_sq_old, lambd]`; outputs `[Bpk(unused), x, rk_new, rk_norm_sq_new]` -/
def cgHeadNodes : List Node := [
  ⟨.param 2, []⟩, ⟨.param 4, []⟩,                                          -- 0 pk, 1 lambd
  ⟨.expand, [0]⟩, ⟨.fwd, [2]⟩, ⟨.mask, [3]⟩, ⟨.bwd, [4]⟩, ⟨.reduce, [5]⟩,
  ⟨.mul, [1, 0]⟩, ⟨.add, [6, 7]⟩,                                          -- 8  Bpk
  ⟨.param 3, []⟩, ⟨.param 1, []⟩, ⟨.dot, [10, 8]⟩, ⟨.cdiv, [9, 11]⟩,       -- 12 ak
  ⟨.param 0, []⟩, ⟨.mul, [12, 0]⟩, ⟨.add, [13, 14]⟩,                       -- 15 x
  ⟨.mul, [12, 8]⟩, ⟨.sub, [10, 16]⟩,                                       -- 17 rk_new
  ⟨.dot, [17, 17]⟩ ]                                                       -- 18 rk_norm_sq_new

/-- the `bk` expression of every branch, in terms of the nodes of `cgHeadNodes`
(0 = pk, 9 = rk_norm_sq_old, 10 = rk_old, 17 = rk_new, 18 = rk_norm_sq_new); result = last node -/
def betaNodes : Update → List Node
  | .FR => [⟨.cdiv, [18, 9]⟩]
  | .PRP => [⟨.sub, [17, 10]⟩, ⟨.dot, [17, 19]⟩, ⟨.dot, [10, 10]⟩, ⟨.cdiv, [20, 21]⟩]
  | .DY => [⟨.sub, [17, 10]⟩, ⟨.dot, [17, 17]⟩, ⟨.dot, [0, 19]⟩, ⟨.cdiv, [20, 21]⟩]
  | .BAN => [⟨.sub, [17, 10]⟩, ⟨.dot, [17, 19]⟩, ⟨.dot, [10, 19]⟩, ⟨.cdiv, [20, 21]⟩]

/-- the complete loop body for update type `u`: head, `bk`, `pk = rk_new + bk pk`;
outputs `[x, rk_old, pk, rk_norm_sq_old]` for the next pass -/
def cgBodyPlan (u : Update) : Plan :=
  let bn := betaNodes u
  let b := cgHeadNodes.length + bn.length - 1
  { nodes := cgHeadNodes ++ bn ++ [⟨.mul, [b, 0]⟩, ⟨.add, [17, b + 1]⟩],
    outs := [15, 17, b + 2, 18] }

/-- control skeleton of `cg` as the translator reports it -/
structure LoopShape where
  /-- `for _ in range(self.num_iters)` -/
  rangeNumIters : Bool
  /-- which loop-carried variables (0 = `x`, 1 = `rk_old`, 2 = `pk`, 3 = `rk_norm_sq_old`) are updated before the
  `if … : break`: only `x` -/
  carriedBeforeBreak : List Nat
  /-- the test is `<new squared residual norm>.abs().sqrt().mean() < self.tol` -/
  breakTestOnRrNew : Bool
  /-- `x` is assigned before the break and `return x` follows the loop -/
  returnsX : Bool
  /-- branch order of the `bk_update_type` chain -/
  branches : List Update
  /-- number of `break` / `continue` / `return` / `raise` statements anywhere inside the loop (the tolerance test is the
  only way out before `num_iters` passes) -/
  exits : Nat
  /-- number of loops (`for` / `while`, nested ones included) in `cg` -/
  loops : Nat
deriving DecidableEq, Repr

def cgLoopShape : LoopShape :=
  { rangeNumIters := true, carriedBeforeBreak := [0], breakTestOnRrNew := true, returnsX := true,
    branches := [.FR, .PRP, .DY, .BAN], exits := 1, loops := 1 }

/-! ## State that outlives a call (phase 3)

The blocks are modelled as pure functions of their arguments.  That is only faithful when a call leaves nothing behind on
the instance, its class or its module.  The translator lists every such write (`Gen.C19.dc_state_writes`); a block whose
calls have exactly the listed effects is history independent when the list is empty (`dc_history_independent`). -/

/-- one syntactic write to state that outlives the call (or a memoising decorator) -/
structure StateWrite where
  cls : String
  func : String
  scope : String
  target : String
  how : String
deriving DecidableEq, Repr

/-- entry points that must be among the scanned functions -/
def dcRequiredReach : List String :=
  ["MRILogLikelihood:MRILogLikelihood.forward", "RIM:RIM.forward", "ConjGrad:ConjGrad.forward", "ConjGrad:ConjGrad.cg",
   "ConjGrad:ConjGrad.B_op", "ConjGrad:ConjGrad._A_star_A_op", "ConjGrad:ConjGrad._A_star_op",
   "ConjGradNet:ConjGradNet.forward", "RIMBlock:RIMBlock.forward", "CIRIM:CIRIM.forward",
   "EndToEndVarNetBlock:EndToEndVarNetBlock.forward", "RecurrentVarNetBlock:RecurrentVarNetBlock.forward",
   "VSharpNet:VSharpNet.forward", "VSharpNet3D:VSharpNet3D.forward", "JointICNet:JointICNet.forward",
   "IterDualNet:IterDualNet.forward", "LPDNet:LPDNet.forward", "CrossDomainNetwork:CrossDomainNetwork.forward",
   "MRIVarSplitNet:MRIVarSplitNet.forward", "KIKINet:KIKINet.forward",
   "MRIModelEngine:MRIModelEngine._forward_operator", "MRIModelEngine:MRIModelEngine._backward_operator",
   "SSLMRIModelEngine:SSLMRIModelEngine._do_iteration", "JSSLMRIModelEngine:JSSLMRIModelEngine._do_iteration",
   "VSharpNetEngine:VSharpNetEngine.forward_function", "VSharpNet3DEngine:VSharpNet3DEngine.forward_function",
   "VSharpNetSSLEngine:VSharpNetSSLEngine._do_iteration", "VSharpNetJSSLEngine:VSharpNetJSSLEngine._do_iteration",
   "transforms:expand_operator", "transforms:reduce_operator", "transforms:complex_multiplication",
   "transforms:apply_mask", "transforms:fft2", "transforms:ifft2"]

/-- nothing is written, and every entry point was scanned -/
def stateWritesOk (ws : List StateWrite) (reach : List String) : Bool :=
  ws.isEmpty && dcRequiredReach.all fun r => reach.contains r

/-- every function of the two anchored blocks (and the tensor helpers under them) has exactly one `return`, its last
statement: no early exit skips part of the modelled plan -/
def dcBlockExits : List (String × Nat × Bool) :=
  [("MRILogLikelihood.forward", 1, true), ("ConjGrad.forward", 1, true), ("ConjGrad.cg", 1, true), ("ConjGrad.B_op", 1, true),
   ("ConjGrad._A_star_A_op", 1, true), ("ConjGrad._A_star_op", 1, true), ("_PRP", 1, true), ("_DY", 1, true), ("_BAN", 1, true),
   ("expand_operator", 1, true), ("reduce_operator", 1, true), ("complex_multiplication", 1, true), ("conjugate", 1, true),
   ("complex_dot_product", 1, true), ("complex_division", 1, true), ("safe_divide", 1, true)]

/-- single exit everywhere, the listed functions are exactly the expected ones, and nothing operates in place -/
def blockShapeOk (exits : List (String × Nat × Bool)) (inplace : List (String × String)) : Bool :=
  exits.map (·.1) == dcBlockExits.map (·.1) && exits.all (fun e => e.2.1 == 1 && e.2.2) && inplace.isEmpty

/-- the branches / loops / comprehensions the functions reachable from `MRILogLikelihood.forward` and `ConjGrad.forward` MAY
contain (owning class, kind, what is tested): the default handling of an optional argument, the one loop of `cg` with its
`break` and the dispatch on the update type, the layout-only comprehension.  NOT among them: a branch on `self.training`,
on a shape or a coil count, a loop over coils or chunks.  Helper extraction, either polarity of an `is None` test, a removed
no-op branch and hoisted sub-expressions leave the table inside this set. -/
def dcBlockControl : List (String × String × String) :=
  [("MRILogLikelihood", "If", "optional argument given"),
   ("ConjGrad", "For", "range(arg0.num_iters)"),
   ("ConjGrad", "If", "break"),
   ("ConjGrad", "If", "arg0.bk_update_type == 'FR'"),
   ("ConjGrad", "If", "arg0.bk_update_type == 'PRP'"),
   ("ConjGrad", "Comp", "range(len(arg1.shape[1:]) - 1)"),
   ("ConjGrad", "If", "arg0.bk_update_type == 'DY'")]

/-- the loops and the mode- / shape-dependent branches the other data-consistency classes may contain (as they are now; a new
chunked loop, a new `if self.training` / `if x.shape[...] > k` path is not among them) -/
def dcSiteControl : List (String × String × String) :=
  [("RIM", "For", "range(arg0.length)"),
   ("RIM", "If", "not arg0.training"),
   ("RIM", "If", "arg0.training or cell_idx == arg0.length - 1"),
   ("ConjGradNet", "For", "range(arg0.num_steps)"),
   ("RIMBlock", "For", "range(arg0.time_steps)"),
   ("RIMBlock", "For", "enumerate(arg0.layers)"),
   ("CIRIM", "For", "enumerate(arg0.block_list)"),
   ("EndToEndVarNetBlock", "Comp", "torch.split(regularization_term, 2, arg0._complex_dim)"),
   ("EndToEndVarNetBlock", "Comp", "torch.split(arg1, 2, arg0._complex_dim)"),
   ("EndToEndVarNet", "For", "arg0.layers_list"),
   ("RecurrentVarNet", "For", "range(arg0.num_steps)"),
   ("VSharpNet", "For", "range(arg0.num_steps)"),
   ("VSharpNet", "For", "range(arg0.num_steps_dc_gd)"),
   ("VSharpNet3D", "For", "range(arg0.num_steps)"),
   ("VSharpNet3D", "For", "range(arg0.num_steps_dc_gd)"),
   ("JointICNet", "For", "range(arg0.num_iter)"),
   ("JointICNet", "For", "range(arg2.size(arg0._coil_dim))"),
   ("IterDualNet", "For", "range(arg0.num_iter)"),
   ("IterDualNet", "For", "range(arg2.size(arg0._coil_dim))"),
   ("LPDNet", "For", "range(arg0.num_iter)"),
   ("CrossDomainNetwork", "For", "arg0.domain_sequence"),
   ("CrossDomainNetwork", "Comp", "torch.split(arg2, 2, arg0._complex_dim)"),
   ("CrossDomainNetwork", "Comp", "torch.split(arg3, 2, arg0._complex_dim)"),
   ("MRIVarSplitNet", "For", "range(arg0.num_steps_reg)"),
   ("MRIVarSplitNet", "For", "range(arg0.num_steps_dc)"),
   ("MRIVarSplitNet", "For", "range(arg2.size(arg0._coil_dim))"),
   ("KIKINet", "For", "range(arg0.num_iter)"),
   ("SSLMRIModelEngine", "If", "arg0.model.training"),
   ("MRIModelEngine", "If", "arg0.ndim == 2"),
   ("MRIModelEngine", "Comp", "range(arg1.shape[3])"),
   ("MRIModelEngine", "For", "arg1.items()"),
   ("MRIModelEngine", "For", "range(arg2.size(arg0._coil_dim))"),
   ("JSSLMRIModelEngine", "If", "is_ssl and arg0.model.training"),
   ("JSSLMRIModelEngine", "If", "arg0.model.training and is_ssl"),
   ("JSSLMRIModelEngine", "If", "arg0.model.training"),
   ("VSharpNetSSLEngine", "If", "arg0.model.training"),
   ("VSharpNetSSLEngine", "If", "len(output_images) > 1"),
   ("VSharpNetSSLEngine", "For", "enumerate(output_images)"),
   ("VSharpNetJSSLEngine", "If", "is_ssl and arg0.model.training"),
   ("VSharpNetJSSLEngine", "If", "arg0.model.training"),
   ("VSharpNetJSSLEngine", "If", "len(output_images) > 1"),
   ("VSharpNetJSSLEngine", "For", "enumerate(output_images)")]

/-- every recorded branch / loop is an allowed one (removing one is fine, a new kind is not) -/
def controlOk (blockCtl siteCtl : List (String × String × String)) : Bool :=
  blockCtl.all (fun r => dcBlockControl.contains r) && siteCtl.all (fun r => dcSiteControl.contains r)

/-- a block *instance*: `out` is what a call answers given the instance state and the arguments, `upd` what the call
leaves behind -/
structure Stateful (σ : Type u) (ι : Type v) (ο : Type w) where
  out : σ → ι → ο
  upd : σ → ι → σ

/-- the instance state after a call history -/
def Stateful.after {σ : Type u} {ι : Type v} {ο : Type w} (b : Stateful σ ι ο) (s : σ) (hist : List ι) : σ :=
  hist.foldl b.upd s

/-- the answer of a call made after a history of earlier calls on the same instance -/
def Stateful.call {σ : Type u} {ι : Type v} {ο : Type w} (b : Stateful σ ι ο) (s : σ) (hist : List ι) (i : ι) : ο :=
  b.out (b.after s hist) i

/-- the joint effect of the listed writes (`eff w` = what write `w` does to the state) -/
def applyWrites {σ : Type u} {ι : Type v} (eff : StateWrite → σ → ι → σ) (ws : List StateWrite) (s : σ) (i : ι) : σ :=
  ws.foldl (fun t w => eff w t i) s

/-! ### `ConjGradNet`, the caller of `ConjGrad` outside the anchored file -/

/-- every `self.conj_grad(…)` call of `ConjGradNet.forward`, arguments in the order of `ConjGrad.forward`'s signature
`(masked_kspace, sensitivity_map, sampling_mask, z, lambd)` -/
def conjGradNetCall : List String := ["masked_kspace", "sensitivity_map", "sampling_mask", "z", "self.mu"]
def conjGradNetCalls : List (List String) := [conjGradNetCall, conjGradNetCall]
/-- `ConjGrad.__init__(forward_operator, backward_operator, num_iters, tol, bk_update_type)` and what `ConjGradNet` passes -/
def conjGradCtorParams : List String := ["forward_operator", "backward_operator", "num_iters", "tol", "bk_update_type"]
def conjGradNetCtorArgs : List String := ["forward_operator", "backward_operator", "cg_iters", "cg_tol", "cg_param_update_type"]
/-- at least one call, and every call passes the five arguments in the right places -/
def conjGradNetCallsOk (cs : List (List String)) : Bool := !cs.isEmpty && cs.all fun c => c == conjGradNetCall

/-- a memo keyed by the *identity* of one argument (the shape of seeded regression C19-5): arguments are
`(object id, mask, data)`, the answer should be `mask * data`; the data term is cached under the object id -/
def memoBlock : Stateful (Option (Int × Int)) (Int × Int × Int) Int where
  out := fun s a => match s with
    | some (k, v) => if k = a.1 then v else a.2.1 * a.2.2
    | none => a.2.1 * a.2.2
  upd := fun s a => match s with
    | some (k, v) => if k = a.1 then some (k, v) else some (a.1, a.2.1 * a.2.2)
    | none => some (a.1, a.2.1 * a.2.2)

/-! ## Exact arithmetic: rationals and Gaussian rationals -/

/-- a rational `num / den`, `den > 0`, in lowest terms (kept so by `Q.norm`) -/
structure Q where
  num : Int
  den : Nat
deriving DecidableEq, Repr, Inhabited

namespace Q
def norm (n : Int) (d : Nat) : Q :=
  if d = 0 then ⟨0, 1⟩ else
  let g := Nat.gcd n.natAbs d
  ⟨n / (g : Int), d / g⟩
def ofInt (n : Int) : Q := ⟨n, 1⟩
def zero : Q := ⟨0, 1⟩
def add (a b : Q) : Q := norm (a.num * b.den + b.num * a.den) (a.den * b.den)
def neg (a : Q) : Q := ⟨-a.num, a.den⟩
def sub (a b : Q) : Q := norm (a.num * b.den - b.num * a.den) (a.den * b.den)
def mul (a b : Q) : Q := norm (a.num * b.num) (a.den * b.den)
/-- `a / b`, `0` when `b = 0` (`safe_divide`) -/
def div (a b : Q) : Q :=
  if b.num = 0 then zero
  else if b.num > 0 then norm (a.num * b.den) (a.den * b.num.natAbs)
  else norm (-(a.num * b.den)) (a.den * b.num.natAbs)
def lt (a b : Q) : Bool := a.num * b.den < b.num * a.den
def abs (a : Q) : Q := ⟨a.num.natAbs, a.den⟩
def isZero (a : Q) : Bool := a.num == 0
end Q

/-- a Gaussian rational, the `(re, im)` pair of the code's trailing axis of size 2 -/
structure GQ where
  re : Q
  im : Q
deriving DecidableEq, Repr, Inhabited

namespace GQ
def zero : GQ := ⟨Q.zero, Q.zero⟩
def ofInts (a b : Int) : GQ := ⟨Q.ofInt a, Q.ofInt b⟩
def add (a b : GQ) : GQ := ⟨a.re.add b.re, a.im.add b.im⟩
def sub (a b : GQ) : GQ := ⟨a.re.sub b.re, a.im.sub b.im⟩
/-- `conjugate` -/
def conj (a : GQ) : GQ := ⟨a.re, a.im.neg⟩
/-- `complex_multiplication`: `(a.re b.re - a.im b.im, a.re b.im + a.im b.re)` -/
def mul (a b : GQ) : GQ :=
  ⟨(a.re.mul b.re).sub (a.im.mul b.im), (a.re.mul b.im).add (a.im.mul b.re)⟩
/-- `complex_division`: numerator `a conj(b)` over `|b|²`, component-wise `safe_divide` -/
def div (a b : GQ) : GQ :=
  let den := (b.re.mul b.re).add (b.im.mul b.im)
  ⟨((a.re.mul b.re).add (a.im.mul b.im)).div den, ((a.im.mul b.re).sub (a.re.mul b.im)).div den⟩
/-- `q * a` for a real `q` broadcast over the complex axis -/
def scale (q : Q) (a : GQ) : GQ := ⟨q.mul a.re, q.mul a.im⟩
end GQ

abbrev Vec := Array GQ

namespace Vec
def zipWith' (f : GQ → GQ → GQ) (a b : Vec) : Vec := (Array.range a.size).map fun i => f a[i]! b[i]!
def add (a b : Vec) : Vec := zipWith' GQ.add a b
def sub (a b : Vec) : Vec := zipWith' GQ.sub a b
def smul (k : GQ) (a : Vec) : Vec := a.map (GQ.mul k)
def sum (a : Vec) : GQ := a.foldl GQ.add GQ.zero
/-- `complex_multiplication(conjugate(a), b).sum(dim)` -/
def dot (a b : Vec) : GQ := sum (zipWith' (fun x y => GQ.mul (GQ.conj x) y) a b)
end Vec

/-- a tiny dense MRI problem: `n` pixels, `c` coils; `F`, `Bw` are `n × n` row-major matrices
applied per coil (the injected `forward_operator` / `backward_operator`), `S` the `c × n`
sensitivity map, `mask` a 0/1 vector of length `n` (broadcast over coils) or `c·n`. -/
structure Problem where
  n : Nat
  c : Nat
  F : Vec
  Bw : Vec
  S : Vec
  mask : Array Int

namespace Problem
def matvecCoils (P : Problem) (M : Vec) (x : Vec) : Vec :=
  (Array.range (P.c * P.n)).map fun idx =>
    let coil := idx / P.n
    let i := idx % P.n
    (Array.range P.n).foldl (fun acc j => GQ.add acc (GQ.mul M[i * P.n + j]! x[coil * P.n + j]!)) GQ.zero

def expand (P : Problem) (x : Vec) : Vec :=
  (Array.range (P.c * P.n)).map fun idx => GQ.mul P.S[idx]! x[idx % P.n]!

def reduce (P : Problem) (y : Vec) : Vec :=
  (Array.range P.n).map fun p =>
    (Array.range P.c).foldl (fun acc coil =>
      GQ.add acc (GQ.mul (GQ.conj P.S[coil * P.n + p]!) y[coil * P.n + p]!)) GQ.zero

def applyMask (P : Problem) (y : Vec) : Vec :=
  (Array.range y.size).map fun idx =>
    if P.mask[idx % P.mask.size]! == 0 then GQ.zero else y[idx]!

/-- the operations of the real blocks on this problem, in exact arithmetic -/
def ops (P : Problem) : Ops GQ Vec Vec where
  addV := Vec.add
  subV := Vec.sub
  smulV := Vec.smul
  inner := Vec.dot
  div := GQ.div
  subW := Vec.sub
  smulW := Vec.smul
  expand := P.expand
  reduce := P.reduce
  fwd := P.matvecCoils P.F
  bwd := P.matvecCoils P.Bw
  mask := P.applyMask
def applyMaskC (P : Problem) (y : Vec) : Vec :=
  (Array.range y.size).map fun idx =>
    if P.mask[idx % P.mask.size]! == 0 then y[idx]! else GQ.zero

def mulConj (P : Problem) (x w : Vec) : Vec :=
  (Array.range w.size).map fun idx => GQ.mul w[idx]! (GQ.conj x[idx % P.n]!)

def opsX (P : Problem) : OpsX GQ Vec Vec :=
  { P.ops with addW := Vec.add, maskC := P.applyMaskC, mulConjVW := P.mulConj }
end Problem

/-- `rk_norm_sq_new.abs().sqrt().mean() < tol` for batch size 1, decided exactly:
`(√|re| + √|im|) / 2 < tol  ⟺  tol > 0 ∧ c := 4 tol² − |re| − |im| > 0 ∧ 4 |re| |im| < c²`. -/
def stopQ (tol : Q) (rr : GQ) : Bool :=
  let a := rr.re.abs
  let b := rr.im.abs
  let c := (((Q.ofInt 4).mul (tol.mul tol)).sub a).sub b
  Q.lt Q.zero tol && Q.lt Q.zero c && Q.lt ((Q.ofInt 4).mul (a.mul b)) (c.mul c)

/-- rational bounds `lo ≤ √q < hi` with `hi − lo = 1 / (q.den · 10²⁰)` (integer square root) -/
def sqrtBounds (q : Q) : Q × Q :=
  let sc : Nat := 100000000000000000000
  let n := q.num.natAbs * q.den * sc * sc
  let r := Nat.sqrt n
  (Q.norm (r : Int) (q.den * sc), Q.norm ((r : Int) + 1) (q.den * sc))

/-- `rk_norm_sq_new.abs().sqrt().mean() < tol` for a batch: `some b` when the rational enclosure of the mean
decides the test, `none` inside the enclosure's width (never met in practice; the driver reports it). -/
def stopQB (tol : Q) (rrs : List GQ) : Option Bool :=
  let comps := rrs.flatMap fun g => [g.re.abs, g.im.abs]
  let cnt := Q.ofInt comps.length
  let lo := comps.foldl (fun acc q => acc.add (sqrtBounds q).1) Q.zero
  let hi := comps.foldl (fun acc q => acc.add (if q.isZero then Q.zero else (sqrtBounds q).2)) Q.zero
  if Q.lt hi (tol.mul cnt) then some true
  else if !(Q.lt lo (tol.mul cnt)) then some false
  else none

end DirectVerif.DataConsistency
