import DirectVerif.Model.Basic
/-!
# C17 — shape algebra of the network zoo (models of `direct/nn/**`)

Only *spatial* sizes are modelled (`[H, W]` or `[Z, H, W]`); batch and channel axes are carried by the
full-shape functions at the end of the file (`permute`, `reshape`, …) which model the glue of the
unrolled networks.

* per-axis transfer functions of the torch layers (`convOut`, `poolOut`, `convTOut`, …);
* a tiny straight-line language `Op` with a stack of remembered shapes (skip connections, `res_values`,
  the input shape that `crop_to_shape` / `unpad` refer to) and a trace of emitted shapes (one per hooked
  top-level block of the real network);
* the forward **shape programs** of the denoisers, parametrised by the hyper-parameters that the
  harness reads from the instantiated modules at run time: `unet`, `normUnet`, `mwcnn`, `dub`, `didn`,
  `resnet`, `convNet`, `unet3d`, `normUnet3d`, `gru`.

Errors mirror what torch raises: `runtime` = `RuntimeError` (kernel larger than padded input, pooling
output empty, reflect padding ≥ input, size mismatch in `cat`/`+`), `value` = `ValueError`
(`InstanceNorm` on a single spatial element).
-/
namespace DirectVerif.Shapes

inductive Err where
  | runtime | value
deriving Repr, DecidableEq

abbrev Shape := List Nat

/-- Python `a | b` for `b ≥ 0` (two's complement for negative `a`: `a | b = ~(~a & ~b)`, `~a = −a − 1`). -/
def pyOr (a b : Int) : Int :=
  if 0 ≤ a then ((a.toNat ||| b.toNat : Nat) : Int)
  else -1 - ((((-a - 1).toNat - ((-a - 1).toNat &&& b.toNat) : Nat)) : Int)

/-! ## per-axis transfer functions -/

/-- `Conv{2,3}d`: `(n + 2p − d(k−1) − 1)/s + 1`, defined when the padded input covers the dilated kernel. -/
def convOk (k s p d n : Nat) : Bool := 1 ≤ s && 1 ≤ k && d * (k - 1) + 1 ≤ n + 2 * p
def convOut (k s p d n : Nat) : Nat := (n + 2 * p - d * (k - 1) - 1) / s + 1

/-- `avg_pool`/`max_pool` without padding: `(n − k)/s + 1`, output must be non-empty. -/
def poolOk (k s n : Nat) : Bool := 1 ≤ s && k ≤ n
def poolOut (k s n : Nat) : Nat := (n - k) / s + 1

/-- `ConvTranspose` (dilation 1, no output padding): `(n − 1)s − 2p + k`. -/
def convTOk (k s p n : Nat) : Bool := 1 ≤ n && 2 * p + 1 ≤ (n - 1) * s + k
def convTOut (k s p n : Nat) : Nat := (n - 1) * s + k - 2 * p

/-- reflect padding by `(l, r)` needs both amounts smaller than the axis. -/
def reflectOk (l r n : Nat) : Bool := l < n && r < n

/-- `MWCNN.pad` / `DUB.pad`: one reflected sample at the end of every odd axis. -/
def padEvenOk (n : Nat) : Bool := n % 2 == 0 || reflectOk 0 1 n
def padEvenOut (n : Nat) : Nat := n + n % 2

/-- `DWT`: `x[0::2]` (`⌈n/2⌉` samples) and `x[1::2]` (`⌊n/2⌋` samples) are *added*: equal for an even axis (result
`n / 2`); for an odd axis torch broadcasting silently accepts `n = 3` (2 + 1 ↦ 2) and `n = 1` (1 + 0 ↦ 0) and raises
otherwise.  MWCNN always pads to an even size first. -/
def dwtOk (n : Nat) : Bool := (n + 1) / 2 == n / 2 || n / 2 == 1 || (n + 1) / 2 == 1
def dwtOut (n : Nat) : Nat := if (n + 1) / 2 == n / 2 then n / 2 else if n / 2 == 1 then (n + 1) / 2 else n / 2

/-- `crop_to_shape`: `if h > shape[0]: x = x[:, :, :shape[0], :]`. -/
def cropTo (t n : Nat) : Nat := if n > t then min n t else n

/-- `UnetModel2d` up path: `padding[...] = 1 if output.shape[ax] != skip.shape[ax]` (reflect). -/
def upPad (skip n : Nat) : Nat := if n != skip then 1 else 0

/-- `NormUnetModel2d.pad`: `((n − 1) | 15) + 1` (Python: `(0 − 1) | 15 = −1`, so `0 ↦ 0`). -/
def mult16 (n : Nat) : Nat := if n = 0 then 0 else ((n - 1) ||| 15) + 1
def pad16Lo (n : Nat) : Nat := (mult16 n - n) / 2               -- `math.floor((m − n) / 2)`
def pad16Hi (n : Nat) : Nat := (mult16 n - n + 1) / 2           -- `math.ceil((m − n) / 2)`
/-- `unpad`: `x[..., lo : m − hi]` on an axis of current length `c` (Python slice clipping). -/
def unpad16 (orig c : Nat) : Nat := min (mult16 orig - pad16Hi orig) c - min (pad16Lo orig) c

/-- `pad_to_pow_of_2` (3-D U-Net): axes `≤ 2^k` are zero padded to `2^k`. -/
def padPow2 (k n : Nat) : Nat := if n ≤ 2 ^ k then 2 ^ k else n
def pow2Lo (k n : Nat) : Nat := if n ≤ 2 ^ k then (2 ^ k - n) / 2 else 0
def pow2Hi (k n : Nat) : Nat := if n ≤ 2 ^ k then (2 ^ k - n) - (2 ^ k - n) / 2 else 0
/-- `output[..., lo : c − hi]` -/
def unpadPow2 (k orig c : Nat) : Nat := (c - pow2Hi k orig) - min (pow2Lo k orig) (c - pow2Hi k orig)

/-! ## straight-line shape programs -/

structure State where
  cur : Shape
  stack : List Shape := []
  trace : List Shape := []
deriving Repr, DecidableEq

instance : DecidableEq (Except Err State)
  | .ok a, .ok b => if h : a = b then isTrue (by rw [h]) else isFalse (by intro e; cases e; exact h rfl)
  | .error a, .error b => if h : a = b then isTrue (by rw [h]) else isFalse (by intro e; cases e; exact h rfl)
  | .ok _, .error _ => isFalse (by intro e; cases e)
  | .error _, .ok _ => isFalse (by intro e; cases e)

inductive Op where
  | conv (k s p d : Nat)
  | convT (k s p : Nat)
  | avgPool (k s : Nat)
  | instNorm                 -- `InstanceNorm`: more than one spatial element
  | padEven                  -- `MWCNN.pad` / `DUB.pad`
  | replPad (p : Nat)        -- `ReplicationPad2d(p)`
  | dwt
  | scale (r : Nat)          -- `IWT` (r = 2) / `PixelShuffle(r)`
  | push                     -- remember the current shape
  | swap                     -- exchange current shape and top of the stack
  | popPadCat                -- U-Net up path: reflect-pad by one where it differs from the skip, then `cat`
  | popCrop                  -- `crop_to_shape(x, top.shape)`
  | popCropSame              -- `crop_to_shape(x, top.shape)` then `+` / `cat` with `top`
  | popSame                  -- `+` / `cat` with `top`
  | padTop                   -- reflect-pad by one where the current shape differs from `top` (keeps `top`)
  | cropTop                  -- `crop_to_shape(x, top.shape)` (keeps `top`)
  | pop                      -- forget `top`
  | pad16                    -- `NormUnetModel*.pad` (remembers the un-padded shape)
  | unpad16
  | padPow2 (k : Nat)        -- `pad_to_pow_of_2`
  | unpadPow2 (k : Nat)
  | emit                     -- a hooked block returns: record the current shape
deriving Repr, DecidableEq

def numel : Shape → Nat
  | [] => 1
  | n :: s => n * numel s

/-- apply `f` on every axis when `ok` holds on every axis -/
def axes (ok : Nat → Bool) (f : Nat → Nat) (st : State) : Except Err State :=
  if st.cur.all ok then .ok { st with cur := st.cur.map f } else .error .runtime

def step (op : Op) (st : State) : Except Err State :=
  match op with
  | .conv k s p d => axes (convOk k s p d) (convOut k s p d) st
  | .convT k s p => axes (convTOk k s p) (convTOut k s p) st
  | .avgPool k s => axes (poolOk k s) (poolOut k s) st
  | .instNorm => if 1 < numel st.cur then .ok st else .error .value
  | .padEven => axes padEvenOk padEvenOut st
  | .replPad p => axes (fun n => 1 ≤ n) (fun n => n + 2 * p) st
  | .dwt => axes dwtOk dwtOut st
  | .scale r => axes (fun _ => true) (fun n => r * n) st
  | .push => .ok { st with stack := st.cur :: st.stack }
  | .swap =>
    match st.stack with
    | [] => .error .runtime
    | t :: rest => .ok { st with cur := t, stack := st.cur :: rest }
  | .popPadCat =>
    match st.stack with
    | [] => .error .runtime
    | t :: rest =>
      let pads := List.zipWith upPad t st.cur
      if t.length = st.cur.length ∧ (List.zipWith (fun p n => reflectOk 0 p n) pads st.cur).all id then
        let c := List.zipWith (· + ·) st.cur pads
        if c = t then .ok { st with cur := c, stack := rest } else .error .runtime
      else .error .runtime
  | .popCrop =>
    match st.stack with
    | [] => .error .runtime
    | t :: rest =>
      if t.length = st.cur.length then .ok { st with cur := List.zipWith cropTo t st.cur, stack := rest }
      else .error .runtime
  | .popCropSame =>
    match st.stack with
    | [] => .error .runtime
    | t :: rest =>
      if t.length = st.cur.length ∧ List.zipWith cropTo t st.cur = t then .ok { st with cur := t, stack := rest }
      else .error .runtime
  | .padTop =>
    match st.stack with
    | [] => .error .runtime
    | t :: _ =>
      let pads := List.zipWith upPad t st.cur
      if t.length = st.cur.length ∧ (List.zipWith (fun p n => reflectOk 0 p n) pads st.cur).all id then
        .ok { st with cur := List.zipWith (· + ·) st.cur pads }
      else .error .runtime
  | .cropTop =>
    match st.stack with
    | [] => .error .runtime
    | t :: _ =>
      if t.length = st.cur.length then .ok { st with cur := List.zipWith cropTo t st.cur } else .error .runtime
  | .pop =>
    match st.stack with
    | [] => .error .runtime
    | _ :: rest => .ok { st with stack := rest }
  | .popSame =>
    match st.stack with
    | [] => .error .runtime
    | t :: rest => if st.cur = t then .ok { st with stack := rest } else .error .runtime
  | .pad16 => .ok { st with cur := st.cur.map mult16, stack := st.cur :: st.stack }
  | .unpad16 =>
    match st.stack with
    | [] => .error .runtime
    | t :: rest => .ok { st with cur := List.zipWith unpad16 t st.cur, stack := rest }
  | .padPow2 k => .ok { st with cur := st.cur.map (padPow2 k), stack := st.cur :: st.stack }
  | .unpadPow2 k =>
    match st.stack with
    | [] => .error .runtime
    | t :: rest => .ok { st with cur := List.zipWith (unpadPow2 k) t st.cur, stack := rest }
  | .emit => .ok { st with trace := st.trace ++ [st.cur] }

def run : List Op → State → Except Err State
  | [], st => .ok st
  | op :: ops, st =>
    match step op st with
    | .ok st' => run ops st'
    | .error e => .error e

/-- the composite stack operations in terms of the fine ones (this is the vocabulary the translator emits: one
operation per source statement, so that re-ordering `pad` and `cat`, or dropping a crop, changes the program) -/
def expand1 : Op → List Op
  | .popPadCat => [.padTop, .popSame]
  | .popCropSame => [.cropTop, .popSame]
  | .popCrop => [.cropTop, .pop]
  | o => [o]

def expand (p : List Op) : List Op := p.flatMap expand1

/-! ## hyper-parameters (read from the instantiated modules by the harness) -/

/-- `ConvBlock` conv `(k, p)`, pooling `(k, s)`, `ConvTranspose` `(k, s)` of the U-Nets. -/
structure UnetP where
  ck : Nat := 3
  cp : Nat := 1
  pk : Nat := 2
  ps : Nat := 2
  tk : Nat := 2
  ts : Nat := 2
deriving Repr, DecidableEq

def UnetP.std : UnetP := {}

/-- `ConvBlock`: conv, instance norm, (activation, dropout), conv, instance norm. -/
def convBlock (P : UnetP) : List Op :=
  [.conv P.ck 1 P.cp 1, .instNorm, .conv P.ck 1 P.cp 1, .instNorm]

/-- `UnetModel2d.forward` / `UnetModel3d.forward` below the top: `L` pooling levels.
hooks: `down_sample_layers[i]`, `conv`, `up_transpose_conv[i]`, `up_conv[i]`. -/
def unetLv (P : UnetP) : Nat → List Op
  | 0 => convBlock P ++ [.emit]
  | L + 1 =>
    convBlock P ++ [.emit, .push, .avgPool P.pk P.ps] ++ unetLv P L ++
      [.convT P.tk P.ts 0, .instNorm, .emit, .popPadCat] ++ convBlock P ++ [.emit]

/-- the whole U-Net: the last `up_conv` is `Sequential(ConvBlock, Conv2d(1×1))`, hooked as one block -/
def unet (P : UnetP) : Nat → List Op
  | 0 => unetLv P 0
  | L + 1 =>
    convBlock P ++ [.emit, .push, .avgPool P.pk P.ps] ++ unetLv P L ++
      [.convT P.tk P.ts 0, .instNorm, .emit, .popPadCat] ++ convBlock P ++ [.conv 1 1 0 1, .emit]

/-- `NormUnetModel2d.forward`: (norm,) pad, U-Net (hook on `unet2d`), unpad, (unnorm). -/
def normUnet (P : UnetP) (L : Nat) : List Op := [.pad16] ++ unet P L ++ [.emit, .unpad16]

/-- `UnetModel3d.forward`: `pad_to_pow_of_2(input, num_pool_layers)`, U-Net, crop back. -/
def unet3d (P : UnetP) (L : Nat) : List Op := [.padPow2 L] ++ unet P L ++ [.unpadPow2 L]

/-- `NormUnetModel3d.forward` -/
def normUnet3d (P : UnetP) (L : Nat) : List Op := [.pad16] ++ unet3d P L ++ [.emit, .unpad16]

/-- MWCNN: conv kernel `k` (`padding = k // 2`), the dilations of the `DilatedConvBlock`s
(`padding = k // 2 + dil − 1`), the IWT factor `r`. -/
structure MwP where
  k : Nat := 3
  r : Nat := 2
deriving Repr, DecidableEq

def MwP.std : MwP := {}

/-- `ConvBlock` then `DilatedConvBlock (d1, d2)` -/
def mwDown (P : MwP) (d1 d2 : Nat) : List Op :=
  [.conv P.k 1 (P.k / 2) 1, .conv P.k 1 (P.k / 2 + d1 - 1) d1, .conv P.k 1 (P.k / 2 + d2 - 1) d2]
/-- `DilatedConvBlock (d1, d2)` then `ConvBlock` -/
def mwUp (P : MwP) (d1 d2 : Nat) : List Op :=
  [.conv P.k 1 (P.k / 2 + d1 - 1) d1, .conv P.k 1 (P.k / 2 + d2 - 1) d2, .conv P.k 1 (P.k / 2) 1]

/-- levels below the first one; `r` = number of levels still below this one.
hooks: `DWT`, `down[idx]`, `up[idx]`, `IWT`. -/
def mwBelow (P : MwP) : Nat → List Op
  | 0 => [.dwt, .emit] ++ mwDown P 2 3 ++ [.emit] ++ mwUp P 3 2 ++ [.emit, .scale P.r, .emit, .popCropSame]
  | r + 1 =>
    [.dwt, .emit] ++ mwDown P 2 1 ++ [.emit, .padEven, .push] ++ mwBelow P r ++
      mwUp P 2 1 ++ [.emit, .scale P.r, .emit, .popCropSame]

/-- `MWCNN.forward` with `num_scales = S`. -/
def mwcnn (P : MwP) : Nat → List Op
  | 0 => []
  | 1 => [.push, .padEven] ++ mwDown P 2 3 ++ [.emit, .padEven] ++ mwUp P 3 2 ++ [.emit, .popCrop]
  | S + 2 =>
    [.push, .padEven] ++ mwDown P 2 1 ++ [.emit, .padEven, .push] ++ mwBelow P S ++
      mwUp P 2 1 ++ [.emit, .popCrop]

/-- DIDN / DUB: 3×3 convs (`ck`, `cp`), strided down conv (`dk`, `ds`, `dp`), sub-pixel factor `r`. -/
structure DidnP where
  ck : Nat := 3
  cp : Nat := 1
  dk : Nat := 3
  ds : Nat := 2
  dp : Nat := 1
  r : Nat := 2
deriving Repr, DecidableEq

def DidnP.std : DidnP := {}

/-- `DUB.forward`; `em` is executed after every child module (`[.emit]` for the stand-alone DUB with hooks on its
children, `[]` inside DIDN where only the DUB itself is hooked). -/
def dubWith (P : DidnP) (em : List Op) : List Op :=
  [.push, .padEven, .conv P.ck 1 P.cp 1, .conv P.ck 1 P.cp 1] ++ em ++   -- x1 = pad(x); x1 + conv1_1(x1)
  [.push, .conv P.dk P.ds P.dp 1] ++ em ++                               -- x2 = down1(x1)
  [.conv P.ck 1 P.cp 1] ++ em ++                                         -- x2 + conv2_1(x2)
  [.push, .conv P.dk P.ds P.dp 1] ++ em ++                               -- out = down2(x2)
  [.conv P.ck 1 P.cp 1] ++ em ++                                         -- out + conv3_1(out)
  [.conv 1 1 0 1, .scale P.r] ++ em ++                                   -- up1
  [.popCropSame, .conv 1 1 0 1] ++ em ++                                 -- cat([x2, crop(out)]); conv_agg_1
  [.conv P.ck 1 P.cp 1] ++ em ++                                         -- conv2_2
  [.conv 1 1 0 1, .scale P.r] ++ em ++                                   -- up2
  [.popCropSame, .conv 1 1 0 1] ++ em ++                                 -- cat([x1, crop(out)]); conv_agg_2
  [.conv P.ck 1 P.cp 1, .conv P.ck 1 P.cp 1] ++ em ++                    -- conv1_2
  [.conv P.ck 1 P.cp 1] ++ em ++                                         -- conv_out
  [.popCropSame]                                                         -- x + crop(conv_out(out), x.shape)

def dub (P : DidnP) (e : Bool) : List Op := dubWith P (if e then [.emit] else [])

def dubs (P : DidnP) : Nat → List Op
  | 0 => []
  | n + 1 => dub P false ++ [.emit] ++ dubs P n

def reconBlocks (P : DidnP) (nconv : Nat) : Nat → List Op
  | 0 => []
  | n + 1 => (List.replicate nconv (Op.conv P.ck 1 P.cp 1)) ++ [.emit] ++ reconBlocks P nconv n

/-- `DIDN.forward`; hooks: `conv_in`, `down`, `dubs[i]`, `recon_block` (once per DUB output), `recon_agg`,
`conv`, `up2`, `conv_out`. `skip` adds `x + out` after the crop (shapes must agree). -/
def didn (P : DidnP) (ndubs nconv : Nat) (skip : Bool) : List Op :=
  [.push] ++
  [.conv P.ck 1 P.cp 1, .emit, .conv P.dk P.ds P.dp 1, .emit] ++ dubs P ndubs ++ reconBlocks P nconv ndubs ++
  [.conv 1 1 0 1, .emit, .conv P.ck 1 P.cp 1, .emit, .conv 1 1 0 1, .scale P.r, .emit, .conv P.ck 1 P.cp 1, .emit,
   if skip then .popCropSame else .popCrop]

/-- `ResNet.forward`: `conv_out(conv_in(x) + resblocks(conv_in(x)))`; hooks `conv_in` (twice), `resblocks`, `conv_out`.
All convolutions are stride-1 with compensating padding, so the two summands have the input's shape by construction (the
translator tracks such offsets and emits no stack operation). -/
def resnet (k p nblocks : Nat) : List Op :=
  [.conv k 1 p 1, .emit, .conv k 1 p 1, .emit] ++
  (List.replicate (2 * nblocks) (Op.conv k 1 p 1)) ++ [.emit, .conv k 1 p 1, .conv 1 1 0 1, .emit]

/-- `direct.nn.conv.Conv2d`: `n` convolutions, hook on every child of the `Sequential` (conv, optional batch norm,
activation except after the last). -/
def convNet (k p : Nat) (bn : Bool) : Nat → List Op
  | 0 => []
  | n + 1 => [.conv k 1 p 1, .emit] ++ (if bn then [.emit] else []) ++ (if n = 0 then [] else [.emit]) ++ convNet k p bn n

/-- `Conv2dGRU.forward`, one conv block per layer + output block.  `repl = true`: `ReplicationPad2d` then an unpadded
conv; `repl = false`: the conv's own zero padding `2 if idx in (0, 1) else 1` (repaired; block 1 is dilated by 2).
Block `idx`: kernel `5 if idx == 0 else 3`, dilation `2 if idx == 1 else 1`.  The recurrent state has the input's spatial
shape (`popSame` against the remembered input at each GRU cell). -/
def gruBlock (repl : Bool) (idx : Nat) : List Op :=
  let k := if idx = 0 then 5 else 3
  let d := if idx = 1 then 2 else 1
  if repl then [.replPad (if idx = 0 ∨ idx = 1 then 2 else 1), .conv k 1 0 d]
  else [.conv k 1 (if idx = 0 ∨ idx = 1 then 2 else 1) d]

/-- the zero-padded block of the pinned tree (before the repair): `padding = 2 if idx == 0 else 1`, which ignores the
dilation of block 1 -/
def gruBlockPinned (idx : Nat) : List Op :=
  [.conv (if idx = 0 then 5 else 3) 1 (if idx = 0 then 2 else 1) (if idx = 1 then 2 else 1)]

def gruLayersPinned : Nat → List Op
  | 0 => []
  | m + 1 => gruLayersPinned m ++ gruBlockPinned m ++ [.emit, .popSame, .push]

/-- the pinned zero-padding cell (no instance norm) -/
def gruPinned (layers : Nat) : List Op := [.push] ++ gruLayersPinned layers ++ gruBlockPinned layers ++ [.emit]

/-- one GRU gate (`update_gates[idx]`, `reset_gates[idx]`, `out_gates[idx]`): optional `InstanceNorm2d`, then a
`gru_kernel_size = 1` convolution -/
def gruGate (inorm : Bool) : List Op := (if inorm then [.instNorm] else []) ++ [.conv 1 1 0 1]

/-- layers `0 … m−1`: conv block (hooked), then the three gates on `cat([cell_input, state])`.  The recurrent state has
the input's spatial shape and the blocks preserve it by construction (padding compensates the dilated kernel), so no
shape has to be remembered. -/
def gruLayers (repl inorm : Bool) : Nat → List Op
  | 0 => []
  | m + 1 => gruLayers repl inorm m ++ gruBlock repl m ++ [.emit] ++ gruGate inorm ++ gruGate inorm ++ gruGate inorm

/-- hooks: `conv_blocks[idx]` -/
def gru (repl inorm : Bool) (layers : Nat) : List Op :=
  gruLayers repl inorm layers ++ gruBlock repl layers ++ [.emit]

/-! ## full shapes: the glue of the unrolled networks -/

/-- `x.permute(*perm)` on a shape -/
def permute (perm : List Nat) (s : Shape) : Shape := perm.map fun i => s.getD i 0

/-- `(N, coil, H, W, c) → permute(0,1,4,2,3)`; `(N, H, W, c) → permute(0,3,1,2)` and their inverses -/
def toChannelsFirst5 : List Nat := [0, 1, 4, 2, 3]
def toChannelsLast5 : List Nat := [0, 1, 3, 4, 2]
def toChannelsFirst4 : List Nat := [0, 3, 1, 2]
def toChannelsLast4 : List Nat := [0, 2, 3, 1]
def toChannelsFirst3d : List Nat := [0, 4, 1, 2, 3]
def toChannelsLast3d : List Nat := [0, 2, 3, 4, 1]

/-- `MultiCoil(coil_to_batch=True)`: `(N, coil, H, W, c) → (N·coil, H, W, c)` and back with `-1` inferred -/
def coilToBatch (s : Shape) : Shape :=
  match s with
  | [n, c, h, w, ch] => [n * c, h, w, ch]
  | _ => []
def batchToCoil (n coil : Nat) (s : Shape) : Shape :=
  match s with
  | [_, h, w, ch] => [n, coil, h, w, ch]
  | _ => []

/-- `x.sum(dim)` / `select(dim, i)` -/
def dropAxis (d : Nat) (s : Shape) : Shape := s.eraseIdx d
/-- `unsqueeze(dim)` / `stack(…, dim)` with `k` items -/
def insertAxis (d k : Nat) (s : Shape) : Shape := s.take d ++ [k] ++ s.drop d
/-- `torch.cat(k tensors, dim)` of equal shapes -/
def catAxis (d k : Nat) (s : Shape) : Shape := s.set d (k * s.getD d 0)

/-- `x.reshape(b, groups, -1)` of a `(b, c, *spatial)` tensor (group normalisation of the Norm-U-Nets / NormConv2dGRU):
the `c · numel` elements of one sample must split into `groups` equal parts. -/
def groupReshapeOk (groups c : Nat) (sp : Shape) : Bool := groups != 0 && (c * numel sp) % groups == 0

/-- NumPy/torch broadcasting of two shapes (right aligned); `none` = `RuntimeError` -/
def broadcast (a b : Shape) : Option Shape :=
  let n := max a.length b.length
  let a' := List.replicate (n - a.length) 1 ++ a
  let b' := List.replicate (n - b.length) 1 ++ b
  (List.zip a' b').mapM fun (x, y) => if x = y then some x else if x = 1 then some y else if y = 1 then some x else none

/-- one call of a denoiser inside an unrolled network, as seen by a forward hook: input and output shapes -/
structure Call where
  inp : Shape
  out : Shape
deriving Repr, DecidableEq

/-- a block of an unrolled network: which tensor it acts on, its channel counts and how coils are handled -/
inductive Dom where
  | image        -- `(N, H, W, cin) → permute → D → permute → (N, H, W, cout)`: one call
  | perCoil      -- `(N, coil, H, W, cin)`: loop over `select(1, i)`: `coil` calls on `(N, cin, H, W)`
  | coilBatch    -- `coil_to_batch`: one call on `(N·coil, cin, H, W)`
deriving Repr, DecidableEq

structure Block where
  dom : Dom
  cin : Nat
  cout : Nat
deriving Repr, DecidableEq

/-- the denoiser calls one block makes (batch `n`, `coil` coils, spatial `sp`) -/
def Block.calls (b : Block) (n coil : Nat) (sp : Shape) : List Call :=
  match b.dom with
  | .image => [⟨n :: b.cin :: sp, n :: b.cout :: sp⟩]
  | .perCoil => List.replicate coil ⟨n :: b.cin :: sp, n :: b.cout :: sp⟩
  | .coilBatch => [⟨(n * coil) :: b.cin :: sp, (n * coil) :: b.cout :: sp⟩]

/-- the layout in which the surrounding network holds the block's input / output tensor -/
def Block.outer (b : Block) (ch n coil : Nat) (sp : Shape) : Shape :=
  match b.dom with
  | .image => n :: sp ++ [ch]
  | _ => n :: coil :: sp ++ [ch]

/-- an unrolled network = `iters` repetitions of a block list (+ a prologue executed once) -/
def unrolledCalls (pre : List Block) (body : List Block) (iters n coil : Nat) (sp : Shape) : List Call :=
  (pre.flatMap fun b => b.calls n coil sp) ++
    (List.replicate iters (body.flatMap fun b => b.calls n coil sp)).flatten

/-- the blocks an unrolled network executes, in order -/
def unrolledBlocks (pre body : List Block) (iters : Nat) : List Block := pre ++ (List.replicate iters body).flatten

/-! ### hand-written block schedules of the unrolled networks (compared with the schedules read from each `forward`) -/

structure Sched where
  pre : List Block := []
  body : List Block := []
deriving Repr, DecidableEq

def Sched.blocks (s : Sched) (iters : Nat) : List Block := unrolledBlocks s.pre s.body iters

/-- `Unet2d`: one image-domain call -/
def schedUnet2d : Sched := { pre := [⟨.image, 2, 2⟩] }
/-- one image-domain denoiser per iteration (VarNet, RecurrentVarNet, RIM, ConjGradNet, vSHARP) -/
def schedSingle (cin cout : Nat) : Sched := { body := [⟨.image, cin, cout⟩] }
/-- KIKINet: k-space model coil by coil, then the image model -/
def schedKiki : Sched := { body := [⟨.perCoil, 2, 2⟩, ⟨.image, 2, 2⟩] }
/-- LPDNet: dual update on `cat([h, A f, y])` coil by coil, primal update on `cat([f, A* h])` -/
def schedLpd (nd np : Nat) : Sched := { body := [⟨.perCoil, 2 * (nd + 2), 2 * nd⟩, ⟨.image, 2 * (np + 1), 2 * np⟩] }
/-- XPDNet / CrossDomainNetwork `KI…`: optional learned k-space correction, image correction -/
def schedXpd (nd np : Nat) (kspaceModel : Bool) : Sched :=
  { body := (if kspaceModel then [⟨.perCoil, 2 * (nd + np + 1), 2 * nd⟩] else []) ++ [⟨.image, 2 * (np + nd), 2 * np⟩] }
def schedIterDual (perCoil : Bool) : Sched :=
  { body := [⟨if perCoil then .perCoil else .image, 2, 2⟩, ⟨.image, 2, 2⟩] }
/-- JointICNet: sensitivity model coil by coil, image model, k-space model (on the coil-combined k-space) -/
def schedJointIC : Sched := { body := [⟨.perCoil, 2, 2⟩, ⟨.image, 2, 2⟩, ⟨.image, 2, 2⟩] }
def schedMultiDomain (standardization : Bool) : Sched := { pre := [⟨.perCoil, if standardization then 4 else 2, 2⟩] }
def schedVarSplit (kspaceModel : Bool) : Sched :=
  { body := [⟨.image, 4, 2⟩] ++ (if kspaceModel then [⟨.perCoil, 5, 2⟩] else []) }
/-- vSHARP (2-D and 3-D): the learned initialiser of the Lagrange multipliers on the SENSE image, then per ADMM step the
denoiser on `cat([z, x, u / rho])` -/
def schedVSharp : Sched := { pre := [⟨.image, 2, 2⟩], body := [⟨.image, 6, 2⟩] }
/-- CIRIM: per cascade and time step the `depth` conv-RNN stacks and the final layer -/
def schedCirim (depth hidden : Nat) : Sched :=
  { body := [⟨.image, 4, hidden⟩] ++ List.replicate (depth - 1) ⟨.image, hidden, hidden⟩ ++ [⟨.image, hidden, 2⟩] }

end DirectVerif.Shapes
