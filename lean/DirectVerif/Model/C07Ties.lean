import DirectVerif.Model.MaskBudget
/-!
# C07 — equispaced grids at exact ties

`np.around(np.arange(offset, num_cols - 1, adjusted_accel))` is computed in binary64.  When the exact adjusted
acceleration `a` is not a binary fraction, the double `a` is not `a`, and at a grid point that is **exactly** a
half-integer over ℚ (or when `(N − 1 − offset)/a` is exactly an integer) the code's rounding direction (resp. the length of
the grid) is decided by the last bit of the double.  Away from such points the exact model and the code agree.

`equiPositionsT` is the exact model with these — and only these — decisions as inputs: `ups` lists the indices of the
exact ties that the code rounded up, `extra` says whether the grid got one more point when the quotient is an exact
integer.  The harness reads both off the real mask (two candidate columns per tie) and the model must then reproduce
the real mask exactly; at all other points the inputs are ignored (`equi_ties_irrelevant`), and with the half-even
choices the model is `equiPositions` itself (`equi_ties_half_even`).
-/
namespace DirectVerif.MaskBudget

/-- grid point `j`, exactly -/
def gridPoint (a : Rat) (off : Int) (j : Nat) : Rat := (off : Rat) + (j : Rat) * a

/-- is the length quotient `(N − 1 − offset)/a` an exact integer -/
def exactLen (N : Int) (a : Rat) (off : Int) : Bool := ((((N - 1 : Int) : Rat) - (off : Rat)) / a).den = 1

/-- the rounded grid with the tie decisions as inputs -/
def equiPositionsT (N : Int) (a : Rat) (off : Int) (ups : List Int) (extra : Nat) : List Int :=
  (List.range (arangeLen off (N - 1) a + (if exactLen N a off then extra else 0))).map fun (j : Nat) =>
    if (gridPoint a off j).den = 2 then (gridPoint a off j).floor + (if ups.contains (j : Int) then 1 else 0)
    else roundHalfEven (gridPoint a off j)

/-- realised count: ACS columns plus grid points outside the ACS block -/
def equiCountT (N L : Int) (a : Rat) (off : Int) (ups : List Int) (extra : Nat) : Nat :=
  L.toNat + ((equiPositionsT N a off ups extra).filter fun p => !inAcs N L p).length

/-- the tie indices half-even rounding sends up: exact half-integers with an odd floor -/
def halfEvenUps (N : Int) (a : Rat) (off : Int) : List Int :=
  ((List.range (arangeLen off (N - 1) a)).filter fun (j : Nat) =>
    decide ((gridPoint a off j).den = 2) && decide ((gridPoint a off j).floor % 2 ≠ 0)).map fun (j : Nat) => (j : Int)

/-- indices of the exact ties -/
def tieIndices (N : Int) (a : Rat) (off : Int) : List Nat :=
  (List.range (arangeLen off (N - 1) a)).filter fun (j : Nat) => decide ((gridPoint a off j).den = 2)

end DirectVerif.MaskBudget
