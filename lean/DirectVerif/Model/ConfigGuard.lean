import DirectVerif.Model.Config
/-!
# C20 — value-level guards of constructors and of the consumers of configuration values

`Model/Config.lean` decides whether a tree *merges* into the typed schema.  This file models what happens next: the merged
value is handed to a constructor (model, masking function, dataset) or to a function (`_compute_resolution`,
`str_to_class("torch.optim", …)`) that **rejects** some values.  The rejecting statements are extracted from the source by
the translator (`harness/translate/recipes/c20_guards.py`) into a table of `GuardRow`s over a small guard language; this
file gives the language its meaning on the Python value the constructor receives:

* a YAML scalar merged into an `Enum`-typed field arrives as the enum *member* (a `DirectEnum`: `==` compares the member
  value case-insensitively with whatever is on the other side); merged into a `str` field it stays a plain string — an
  `Enum` *default* of a `str` field is stored by OmegaConf as the text `Cls.NAME`;
* an integer merged into a `float` field becomes a float (`isinstance(x, int)` is then false);
* in the untyped training / validation blocks nothing is converted and absent keys take the callee's own defaults.

Evaluation is three-valued: `some true` (passes), `some false` (the constructor raises), `none` (not decidable from the
tables: a value shape the model does not interpret).  Import-free, total, executable.
-/
namespace DirectVerif.Config

/-- a Python constant a guard compares against -/
inductive GConst where
  | none
  | bool (b : Bool)
  | int (i : Int)
  /-- `enum` = the constant is a `DirectEnum` member (its `==` is case-insensitive on the member value) -/
  | str (s : PStr) (enum : Bool)
deriving Repr, DecidableEq, Inhabited

/-- a Python scalar as a constructor receives it -/
inductive PyS where
  | none
  | bool (b : Bool)
  /-- the number `n / d`; `isInt` = it is a Python `int` -/
  | num (n : Int) (d : Nat) (isInt : Bool)
  | str (s : Str) (enum : Bool)
  | unknown
deriving Repr, DecidableEq, Inhabited

inductive PyV where
  | s (x : PyS)
  | list (xs : List PyS)
  | unknown
deriving Repr, Inhabited

inductive Guard where
  /-- `v ∈ cs` (or `not v` when `orFalsy`) -/
  | oneOf (cs : List GConst) (orFalsy : Bool)
  | allOneOf (cs : List GConst)
  /-- every element strictly between `lo` and `hi` -/
  | allBetween (lo hi : Int)
  /-- every element is an `int` and `> lo` -/
  | allIntGt (lo : Int)
  | allMultipleOf (m : Nat)
  | lenIn (ns : List Nat)
  /-- `v[0] ≤ v[1]` (`<` when strict) -/
  | pairOrdered (strict : Bool)
  /-- `v == c ∨ lo < v ≤ other` -/
  | eqOrRange (c lo : Int) (other : Sym)
  /-- every character of the string is one of `cs` -/
  | charsSubset (cs : List Nat)
  /-- a guard whose test is constant (`len([a]) != len([b])`): it never fires -/
  | vacuous
deriving Repr, Inhabited

/-- one extracted guard: `route` 0 model class, 1 masking function, 2 dataset class, 3 function consuming a config value -/
structure GuardRow where
  route : Nat
  cls : PStr × PStr
  param : Sym
  /-- conjunction under which the guard is reached: (0 truthy | 1 not None | 2 falsy, parameter) -/
  cond : List (Nat × Sym)
  guard : Guard
deriving Repr, Inhabited

/-- keyword policy of a constructor that takes `**kwargs`: `none` = anything goes; `some (names, prefixes)` = the
`for key in kwargs: if key not in … : raise` loop -/
abbrev KwPolicy := Option (List PStr × List PStr)

/-- what the translator read off one constructor / builder signature -/
structure ClassInfo where
  route : Nat
  cls : PStr × PStr
  /-- named parameters with their default (`.missing` = no default, or not a plain constant) -/
  params : List (Sym × Val)
  required : List Sym
  varkw : Bool
  kwPolicy : KwPolicy
deriving Repr, Inhabited

structure GTables where
  /-- float literal (interned repr) -> exact ratio -/
  floats : List (Sym × Int × Nat)
  /-- qualified enum member `Cls.NAME` -> member value -/
  enumValues : List (Sym × PStr)
  rows : List GuardRow
  classes : List ClassInfo

/-! ## YAML value + declared type -> Python value -/

/-- the qualified spelling `Cls.NAME` of an enum member given by name (the generated `names` list alternates
`NAME, Cls.NAME`) -/
def qualified : List Sym → Sym → Option Sym
  | n :: q :: rest, s => if s = n ∨ s = q then some q else qualified rest s
  | _, _ => none

def toPyS (T : Tables) (G : GTables) (ty : Ty) (v : Val) : PyS :=
  match v with
  | .null => .none
  | .missing => .unknown
  | .bool b =>
    match ty.core with
    | .bool => .bool b
    | .any => .bool b
    | _ => .unknown
  | .int i =>
    match ty.core with
    | .int => .num i 1 true
    | .any => .num i 1 true
    | .float => .num i 1 false
    | .bool => .bool (i != 0)
    | _ => .unknown
  | .float r =>
    match lookup r G.floats with
    | some (n, d) =>
      match ty.core with
      | .float => .num n d false
      | .any => .num n d false
      | _ => .unknown
    | none => .unknown
  | .str s k =>
    match ty.core with
    | .enum names _ =>
      match qualified names s with
      | some q =>
        match lookup q G.enumValues with
        | some val => .str (unpack val) true
        | none => .unknown
      | none => .unknown
    | .str => .str (T.strOf s) false
    | .any => .str (T.strOf s) (k / 8 % 2 == 1)      -- kind bit 8: a constructor default that is an enum member
    | _ => .unknown
  | .list _ => .unknown
  | .map _ => .unknown

def elemTy (ty : Ty) : Ty :=
  match ty.core with
  | .list e => e
  | _ => .any

def toPyV (T : Tables) (G : GTables) (ty : Ty) (v : Val) : PyV :=
  match v with
  | .list xs => .list (xs.map (toPyS T G (elemTy ty)))
  | .map _ => .unknown
  | .missing => .unknown
  | v => .s (toPyS T G ty v)

/-! ## Python semantics of the comparisons the guards use -/

/-- `a == c` -/
def pyEq (a : PyS) (c : GConst) : Option Bool :=
  match a, c with
  | .unknown, _ => none
  | .none, .none => some true
  | .bool x, .bool y => some (x == y)
  | .bool x, .int i => some ((if x then 1 else 0) == i)
  | .num n d _, .int i => some (n == i * d)
  | .num n d _, .bool b => some (n == (if b then 1 else 0) * d)
  | .str s e, .str t f => some (if e || f then lower s == lower (unpack t) else pack s == t)
  | _, _ => some false

def pyMem (a : PyS) : List GConst → Option Bool
  | [] => some false
  | c :: cs =>
    match pyEq a c with
    | none => none
    | some true => some true
    | some false => pyMem a cs

def truthyS : PyS → Option Bool
  | .none => some false
  | .bool b => some b
  | .num n _ _ => some (n != 0)
  | .str s _ => some (!s.isEmpty)
  | .unknown => none

def truthy : PyV → Option Bool
  | .s x => truthyS x
  | .list xs => some (!xs.isEmpty)
  | .unknown => none

def isNone : PyV → Option Bool
  | .s .none => some true
  | .s .unknown => none
  | .unknown => none
  | _ => some false

/-- `∀ x ∈ xs, p x` over three-valued predicates: a definite `false` wins, else an unknown makes the result unknown -/
def allO {α} (p : α → Option Bool) : List α → Option Bool
  | [] => some true
  | x :: xs =>
    match p x, allO p xs with
    | some false, _ => some false
    | _, some false => some false
    | some true, some true => some true
    | _, _ => none

def elems : PyV → Option (List PyS)
  | .list xs => some xs
  | _ => none

def evalGuard (g : Guard) (v : PyV) (other : Sym → PyV) : Option Bool :=
  match g with
  | .vacuous => some true
  | .oneOf cs orFalsy =>
    match v with
    | .s x =>
      match pyMem x cs with
      | some true => some true
      | some false => if orFalsy then (truthyS x).map (!·) else some false
      | none => none
    | .list xs => if orFalsy && xs.isEmpty then some true else if cs.isEmpty then some false else none
    | .unknown => none
  | .allOneOf cs => (elems v).bind (allO fun x => pyMem x cs)
  | .allBetween lo hi =>
    (elems v).bind (allO fun x =>
      match x with
      | .num n d _ => some (decide (lo * d < n ∧ n < hi * d))
      | .bool b => some (decide (lo < (if b then 1 else 0) ∧ (if b then 1 else 0) < hi))
      | _ => none)
  | .allIntGt lo =>
    (elems v).bind (allO fun x =>
      match x with
      | .num n d isInt => some (isInt && decide (lo * d < n))
      | .bool b => some (decide (lo < (if b then 1 else 0)))      -- `bool` is a subclass of `int`
      | _ => none)
  | .allMultipleOf m =>
    (elems v).bind (allO fun x =>
      match x with
      | .num n d _ => some (d == 1 && n % m == 0)
      | _ => none)
  | .lenIn ns =>
    match v with
    | .list xs => some (ns.contains xs.length)
    | .s (.str s _) => some (ns.contains s.length)
    | _ => none
  | .pairOrdered strict =>
    match v with
    | .list (.num a b _ :: .num c d _ :: _) => some (if strict then decide (a * d < c * b) else decide (a * d ≤ c * b))
    | _ => none
  | .eqOrRange c lo o =>
    match v, other o with
    | .s (.num n d _), .s (.num m e _) => some (decide (n = c * d) || (decide (lo * d < n) && decide (n * e ≤ m * d)))
    | .s (.num n d _), _ => if n = c * d then some true else if n ≤ lo * d then some false else none
    | _, _ => none
  | .charsSubset cs =>
    match v with
    | .s (.str s _) => some (s.all fun ch => cs.contains ch)
    | _ => none

def condHolds (other : Sym → PyV) : List (Nat × Sym) → Option Bool
  | [] => some true
  | (k, p) :: rest =>
    let here : Option Bool :=
      if k = 0 then truthy (other p) else if k = 1 then (isNone (other p)).map (!·) else (truthy (other p)).map (!·)
    match here, condHolds other rest with
    | some false, _ => some false
    | _, some false => some false
    | some true, some true => some true
    | _, _ => none

/-- a guard row in an environment: `some false` exactly when the constructor is known to raise -/
def evalRow (r : GuardRow) (env : Sym → PyV) : Option Bool :=
  match condHolds env r.cond with
  | some false => some true
  | some true => evalGuard r.guard (env r.param) env
  | none =>
    match evalGuard r.guard (env r.param) env with
    | some true => some true
    | _ => none

/-! ## environments: what each parameter of the callee is bound to -/

def classInfo (G : GTables) (route : Nat) (cls : PStr × PStr) : Option ClassInfo :=
  G.classes.find? fun c => c.route = route ∧ c.cls.1 = cls.1 ∧ c.cls.2 = cls.2

def rowsOf (G : GTables) (route : Nat) (cls : PStr × PStr) : List GuardRow :=
  G.rows.filter fun r => r.route = route ∧ r.cls.1 = cls.1 ∧ r.cls.2 = cls.2

/-- value and declared type of parameter `p`: the file's value over the schema default when `p` is a field of the typed
schema, the file's raw value in an untyped block, else the callee's own default -/
def boundValue (schema : Option Ty) (block : Val) (dflts : List (Sym × Val)) (p : Sym) : Val × Ty :=
  let own : Val × Ty := ((lookup p dflts).getD .missing, .any)
  match schema with
  | some (.struct _ fields) =>
    match lookup p fields with
    | some (ty, d) => (effective d (block.get? p) [], ty)
    | none => own
  | _ =>
    match block.get? p with
    | some v => (v, .any)
    | none => own

def envOf (T : Tables) (G : GTables) (schema : Option Ty) (block : Val) (dflts : List (Sym × Val)) (p : Sym) : PyV :=
  let b := boundValue schema block dflts p
  toPyV T G b.2 b.1

/-- no guard of the class is known to reject the block -/
def guardsPass (T : Tables) (G : GTables) (route : Nat) (cls : PStr × PStr) (schema : Option Ty) (block : Val) : Bool :=
  let dflts := ((classInfo G (if route = 4 then 0 else route) cls).map (·.params)).getD []
  (rowsOf G route cls).all fun r => evalRow r (envOf T G schema block dflts) != some false

/-- the guards that could not be decided (reported, never an alarm) -/
def guardsUndecided (T : Tables) (G : GTables) (route : Nat) (cls : PStr × PStr) (schema : Option Ty) (block : Val) : Nat :=
  let dflts := ((classInfo G route cls).map (·.params)).getD []
  ((rowsOf G route cls).filter fun r => evalRow r (envOf T G schema block dflts) == none).length

/-- 0 = some guard is known to reject, 2 = none rejects but some guard is undecided, 1 = every guard passes -/
def guardsVerdict (T : Tables) (G : GTables) (route : Nat) (cls : PStr × PStr) (schema : Option Ty) (block : Val) : Nat :=
  let dflts := ((classInfo G (if route = 4 then 0 else route) cls).map (·.params)).getD []
  let rs := (rowsOf G route cls).map fun r => evalRow r (envOf T G schema block dflts)
  if rs.any (· == some false) then 0 else if rs.any (· == none) then 2 else 1

/-! ## routes -/

def packPair (p : Str × Str) : PStr × PStr := (pack p.1, pack p.2)

/-- the class a model block is routed to (`load_model_from_name`) -/
def modelClassOf (T : Tables) (block : Val) : Option (PStr × PStr) :=
  match block.get? T.kModelName with
  | some (.str s _) => some (packPair (modelTarget (T.strOf s)))
  | _ => none

def modelBlockGuardsOk (T : Tables) (G : GTables) (block : Val) : Bool :=
  match modelClassOf T block with
  | some cls => guardsPass T G 0 cls (modelSchema T block) block
  | none => true

def modelBlocksOf (T : Tables) (file : Val) : List Val :=
  match modelBlocks T file with
  | .ok bs => bs.map (·.2)
  | .error _ => []

/-- every model block of a file (the model and the additional models) passes the guards of its class -/
def modelGuardsOk (T : Tables) (G : GTables) (file : Val) : Bool :=
  (modelBlocksOf T file).all (modelBlockGuardsOk T G)

/-- dispatches without a raising `else` (route 4): every architecture / update-rule name of the block is one the dispatch
knows — otherwise the value silently selects the fallback branch -/
def modelBlockNamesOk (T : Tables) (G : GTables) (block : Val) : Bool :=
  match modelClassOf T block with
  | some cls => guardsPass T G 4 cls (modelSchema T block) block
  | none => true

def modelNamesOk (T : Tables) (G : GTables) (file : Val) : Bool :=
  (modelBlocksOf T file).all (modelBlockNamesOk T G)

def modelDefaultNamesOk (T : Tables) (G : GTables) (m : Sym) : Bool :=
  modelBlockNamesOk T G (.map [(T.kModelName, .str m 0)])

/-- the default configuration of a registered model (nothing but `model_name` given) -/
def modelDefaultGuardsOk (T : Tables) (G : GTables) (m : Sym) : Bool :=
  modelBlockGuardsOk T G (.map [(T.kModelName, .str m 0)])

/-- masking block → class (`build_masking_function`) -/
def maskClassOf (T : Tables) (masking : Val) : Option (PStr × PStr) :=
  match masking.get? T.kName with
  | some (.str s _) => some (packPair (maskFuncTarget (T.strOf s)))
  | _ => none

def maskingOf (T : Tables) (block : Val) : Option Val :=
  (block.get? T.kTransforms).bind fun tr => tr.get? T.kMasking

/-- an untyped (training / validation) dataset block: masking function and dataset class receive what the file says -/
def rawBlockGuardsOk (T : Tables) (G : GTables) (block : Val) : Bool :=
  (match maskingOf T block with
   | some m => match maskClassOf T m with
     | some cls => guardsPass T G 1 cls none m
     | none => true
   | none => true) &&
  (match block.get? T.kName with
   | some (.str s _) => guardsPass T G 2 (packPair (datasetClassTarget (T.strOf s))) none block
   | _ => true)

/-- the typed inference block: file values over the defaults of the dataset's config class -/
def inferenceGuardsOk (T : Tables) (G : GTables) (maskSchema : Ty) (file : Val) : Bool :=
  match file.get? T.kInference with
  | none => true
  | some sec =>
    if sec.isFalsy then true else
    match sec.get? T.kDataset with
    | none => true
    | some d =>
      match datasetSchema T d with
      | .error _ => true
      | .ok dty =>
        (match d.get? T.kName with
         | some (.str s _) => guardsPass T G 2 (packPair (datasetClassTarget (T.strOf s))) (some dty) d
         | _ => true) &&
        (match effective dty.defaultVal (some d) [T.kTransforms, T.kMasking] with
         | .map dm =>
           -- `dm` is what the file (or, absent that, the default) says; typed positions are filled from `MaskingConfig`
           let fileM : Val := ((maskingOf T d).getD (.map dm))
           let nameV := effective dty.defaultVal (some d) [T.kTransforms, T.kMasking, T.kName]
           (match nameV with
            | .str s _ => guardsPass T G 1 (packPair (maskFuncTarget (T.strOf s))) (some maskSchema) fileM
            | _ => true)
         | _ => true)

def blockGuardsOk (T : Tables) (G : GTables) (maskSchema : Ty) (file : Val) : Bool :=
  (sectionBlocks T file T.kTraining).all (rawBlockGuardsOk T G) &&
  (sectionBlocks T file T.kValidation).all (rawBlockGuardsOk T G) &&
  inferenceGuardsOk T G maskSchema file

/-- default configuration of a dataset class: the typed defaults alone -/
def datasetDefaultGuardsOk (T : Tables) (G : GTables) (d : Sym) : Bool :=
  match lookupSchema T (datasetConfigTarget (T.strOf d)) with
  | some dty => guardsPass T G 2 (packPair (datasetClassTarget (T.strOf d))) (some dty) (.map [])
  | none => false

/-! ## configuration values consumed by functions (route 3): the value found at a path of the merged configuration -/

/-- a consumer: the merged value at `path` (under the typed `DefaultConfig`) is handed to parameter `param` of `cls`;
`needs` = the section that must be in use for the consumer to run (`[]` = always) -/
structure Consumer where
  path : List Sym
  cls : PStr × PStr
  param : Sym
  /-- the consumer runs only when this list-valued key of the file is non-empty (e.g. `validation.datasets`) -/
  needs : List Sym
deriving Repr, Inhabited

/-- type found at `path` below a struct type -/
def tyAt : Ty → List Sym → Ty
  | t, [] => t
  | t, k :: ks =>
    match t.core with
    | .struct _ fields =>
      match lookup k fields with
      | some (ft, _) => tyAt ft ks
      | none => .any
    | _ => .any

def fileAt : Val → List Sym → Option Val
  | v, [] => some v
  | v, k :: ks => (v.get? k).bind fun w => fileAt w ks

def sectionInUse (file : Val) (needs : List Sym) : Bool :=
  match needs with
  | [] => true
  | _ =>
    match fileAt file needs with
    | some (.list (_ :: _)) => true
    | some (.map (_ :: _)) => true
    | _ => false

/-- merged value at the consumer's path: the file's value over the default of `DefaultConfig` (with `sectionTy` standing
for the section classes that `setup_common_environment` installs) -/
def consumerValue (T : Tables) (G : GTables) (root : Ty) (file : Val) (c : Consumer) : PyV :=
  toPyV T G (tyAt root c.path) (effective root.defaultVal (some file) c.path)

def consumerOk (T : Tables) (G : GTables) (root : Ty) (file : Val) (c : Consumer) : Bool :=
  !sectionInUse file c.needs ||
  (rowsOf G 3 c.cls).all fun r =>
    r.param != c.param || evalRow r (fun p => if p = c.param then consumerValue T G root file c else .unknown) != some false

/-- `DefaultConfig` with the section classes installed (`cfg.training = TrainingConfig` …) -/
def installedRoot (T : Tables) : Ty :=
  ((T.defaultConfig.withField T.kTraining T.training).withField T.kValidation T.validation).withField T.kInference T.inference

/-! ## keyword policies: `Model(**cfg)` must not trip the `for key in kwargs` loop -/

def hasPrefix : Str → Str → Bool
  | [], _ => true
  | _ :: _, [] => false
  | a :: as, b :: bs => a == b && hasPrefix as bs

def kwAllowed (pol : KwPolicy) (name : Str) : Bool :=
  match pol with
  | none => true
  | some (names, prefixes) => names.contains (pack name) || prefixes.any fun p => hasPrefix (unpack p) name

/-- `Cls(**fields)` binds and passes the keyword loop: every field is a named parameter, or `**kwargs` exists and the
policy lets the name through; every parameter without default is a field (or supplied by the caller: `given`) -/
def ctorAccepts (T : Tables) (info : ClassInfo) (fields : List Sym) (dropped given : List Sym) : Bool :=
  (fields.all fun f => dropped.contains f || (info.params.any fun p => p.1 = f) ||
      (info.varkw && kwAllowed info.kwPolicy (T.strOf f))) &&
  (info.required.all fun p => given.contains p || fields.contains p)

/-- a registered model: `Model(**cfg)` as `initialize_models_from_config` calls it — the main (MRI) model receives the two
operators and every field but `engine_name`; a sub-network used as an additional model receives every field but the names -/
def modelCtorOk (T : Tables) (G : GTables) (m : Sym × Bool) : Bool :=
  let n := T.strOf m.1
  match classInfo G 0 (packPair (modelTarget n)), lookupSchema T (modelConfigTarget n) with
  | some info, some ty =>
    if m.2 then ctorAccepts T info ty.fieldNames [T.kEngineName] [T.kForward, T.kBackward]
    else ctorAccepts T info ty.fieldNames [T.kModelName, T.kEngineName] []
  | _, _ => false

/-- a dataset class: `build_dataset` calls `Cls(transform=…, **fields-but-name-and-transforms)` -/
def datasetCtorOk (T : Tables) (G : GTables) (kTransform : Sym) (d : Sym) : Bool :=
  match classInfo G 2 (packPair (datasetClassTarget (T.strOf d))), lookupSchema T (datasetConfigTarget (T.strOf d)) with
  | some info, some ty => ctorAccepts T info ty.fieldNames [T.kName, T.kTransforms] [kTransform]
  | _, _ => false

/-- `build_masking_function(**masking)` then `MaskFunc(**init_args)`: the constructor's parameters without default are
among the keys the block (or, for a typed block, `MaskingConfig`) supplies -/
def maskCtorBinds (T : Tables) (G : GTables) (schema : Option Ty) (masking : Val) : Bool :=
  match maskClassOf T masking with
  | none => true
  | some cls =>
    match classInfo G 1 cls with
    | none => false
    | some info =>
      let keys : List Sym :=
        (match masking with | .map kvs => kvs.map (·.1) | _ => []) ++ (match schema with | some ty => ty.fieldNames | none => [])
      info.required.all fun p => keys.contains p

def rawBlockBindsOk (T : Tables) (G : GTables) (block : Val) : Bool :=
  match maskingOf T block with
  | some (.map kvs) => maskCtorBinds T G none (.map kvs)
  | _ => true

def blocksBindOk (T : Tables) (G : GTables) (file : Val) : Bool :=
  (sectionBlocks T file T.kTraining).all (rawBlockBindsOk T G) && (sectionBlocks T file T.kValidation).all (rawBlockBindsOk T G)

/-! ## a `str` field must not default to an enum member -/

/-- no `str`-typed field of the class holds, as its default, the text `Cls.NAME` of an enum member (what OmegaConf stores for
`x: str = Cls.NAME`): such a value is neither the member (whose `==` is case-insensitive) nor its value, and every dispatch
on it silently takes the fallback branch -/
def strDefaultsPlain (G : GTables) : Ty → Bool
  | .struct _ fields =>
    fields.all fun f =>
      match f.2.1.core, f.2.2 with
      | .str, .str s _ => (lookup s G.enumValues).isNone
      | _, _ => true
  | _ => true

/-! ## attribute chains `cfg.a.b.c` against the typed schema -/

/-- the chain only names declared fields: below a dataclass every step must be a field; below `Any` / a list nothing is
known; a step taken on a scalar is a Python attribute of that scalar, not a key -/
def chainOk : Ty → List Sym → Bool
  | _, [] => true
  | t, k :: ks =>
    match t.core with
    | .struct _ fields =>
      match lookup k fields with
      | some (ft, _) => chainOk ft ks
      | none => false
    | _ => true

/-- the engine class a file selects reads `cfg.model.<field>`: the field exists in the file's model config class -/
def engineFieldsOk (T : Tables) (reads : List (PStr × PStr × Sym)) (file : Val) : Bool :=
  match file.get? T.kModel with
  | some m =>
    match m.get? T.kModelName, modelSchema T m with
    | some (.str s _), some ty =>
      let eng : Option Str :=
        match m.get? T.kEngineName with
        | some (.str e _) => if T.strOf e = [] then none else some (T.strOf e)
        | _ => none
      let target := packPair (engineTarget (T.strOf s) eng)
      reads.all fun r => !(r.1 = target.1 ∧ r.2.1 = target.2) || ty.fieldNames.contains r.2.2
    | _, _ => true
  | none => true

/-! ## `training.optimizer` → `str_to_class("torch.optim", …)` -/

def strTorchOptim : Str := [116, 111, 114, 99, 104, 46, 111, 112, 116, 105, 109]     -- "torch.optim"

def optimizerOk (T : Tables) (kOptimizer : Sym) (file : Val) : Bool :=
  match effective (installedRoot T).defaultVal (some file) [T.kTraining, kOptimizer] with
  | .str s _ => resolves T.modules (strTorchOptim, callHead (T.strOf s))
  | _ => false

/-! ## transform builder, both directions -/

def nodup : List Sym → Bool
  | [] => true
  | x :: xs => !xs.contains x && nodup xs

/-- flattened keys of an untyped block do not collide (`dict_flatten` lets the later one win silently) -/
def rawFlattenInjective (T : Tables) (block : Val) : Bool :=
  match block.get? T.kTransforms with
  | some (.map kvs) => nodup (flattenKVs (removeKey T.kMasking kvs))
  | _ => true

end DirectVerif.Config
