import DirectVerif.Model.Ckpt
/-!
# Training-loop machine, checkpoints of the trainer, LR schedules (C15, C16) — executable, no Mathlib

Mirrors `direct/engine.py` (`Engine.training_loop`, `checkpoint_model_at_interval`,
`checkpoint_and_write_to_logs`, `Engine.train` resume) and `direct/data/lr_scheduler.py` as they are
**now** in /repo.

* One iteration = the statement table `loopTable` (regenerated from the source by the translator)
  executed by the interpreter `iterT`:  `backward` adds `∇loss(θ, batch)` to `.grad`; inside the branch
  `(iter_idx + 1) % gradient_steps == 0`: `grad.div_(k)` when `k > 1`, optional clipping, optimiser
  step, scaler update, **`zero_grad`**; `lr_scheduler.step()` every iteration.
  `loopTablePinned` has the pinned tree's unconditional `zero_grad`.
* Gradients, parameters, optimiser are abstract (`Ops`): the theorems hold for every model, loss and
  optimiser; the driver instantiates them with an exact toy (`Toy`, rationals).
* A checkpoint (`Snap`) holds model, optimiser, scheduler (`last_epoch`) and scaler state — **not** the
  accumulated gradients.
-/
namespace DirectVerif.Train
open DirectVerif.Ckpt

/-- model / loss / optimiser, all abstract -/
structure Ops (P O G B L Sc : Type) where
  grad : P → B → G              -- what `backward` adds to `.grad` for parameters θ and a batch
  add : G → G → G
  zero : G                      -- `.grad` after `zero_grad()` (None / 0)
  divk : Nat → G → G            -- `parameter.grad.div_(gradient_steps)`
  clip : G → G                  -- `clip_grad_norm_`
  opt : L → P → O → G → P × O   -- `optimizer.step()` at learning rate `lr`
  supd : Sc → Sc := fun s => s  -- `scaler.update()` (the identity for the disabled scaler of a CPU run)

structure Cfg where
  k : Nat                -- `cfg.training.gradient_steps`
  clipOn : Bool := false -- `cfg.training.gradient_clipping > 0`
deriving Repr, DecidableEq

/-- trainer state -/
structure St (P O G Sc : Type) where
  theta : P
  ostate : O
  grad : G
  epoch : Nat            -- `lr_scheduler.last_epoch`; the optimiser's lr is `lrAt epoch` (closed-form schedulers)
  scaler : Sc            -- `GradScaler` state (disabled on CPU: never changes)

/-! ## the statement table of the loop body -/

inductive Ev where
  | backward | divGrad | clip | optStep | scalerUpdate | zeroGrad | schedStep
deriving DecidableEq, Repr

/-- whose gradients `div_` / `clip_grad_norm_` act on -/
inductive ParamScope where
  | mainOnly     -- `self.model.parameters()` (pinned tree)
  | allModels    -- `self.model` and every model in `self.models`
deriving DecidableEq, Repr

inductive Guard where
  | stepBranch   -- `(iter_idx + 1) % gradient_steps == 0`
  | kGt1         -- `gradient_steps > 1`
  | clipOn       -- `gradient_clipping > 0.0`
deriving DecidableEq, Repr

abbrev LoopTable := List (Ev × List Guard)

/-- the loop body as it is now -/
def loopTable : LoopTable :=
  [(.backward, []), (.divGrad, [.stepBranch, .kGt1]), (.clip, [.stepBranch, .clipOn]),
   (.optStep, [.stepBranch]), (.scalerUpdate, [.stepBranch]), (.zeroGrad, [.stepBranch]),
   (.schedStep, [])]

/-- the pinned tree: `zero_grad()` after every iteration -/
def loopTablePinned : LoopTable :=
  [(.backward, []), (.divGrad, [.stepBranch, .kGt1]), (.clip, [.stepBranch, .clipOn]),
   (.optStep, [.stepBranch]), (.scalerUpdate, [.stepBranch]), (.zeroGrad, []),
   (.schedStep, [])]

/-- "`zero_grad` occurs only inside the step branch, after the optimiser step; the division and the
clipping precede the step and are inside the branch; `backward` and `lr_scheduler.step` are
unconditional, once each" -/
def wfLoop (t : LoopTable) : Bool :=
  let evs := t.map (·.1)
  -- zero_grad only under the step branch
  t.all (fun (e, gs) => e != .zeroGrad || gs.contains .stepBranch)
  -- everything that touches the gradients for the step is in the step branch
  && t.all (fun (e, gs) => !(e == .divGrad || e == .clip || e == .optStep) || gs.contains .stepBranch)
  && t.all (fun (e, gs) => e != .divGrad || gs.contains .kGt1)
  -- order
  && evs.idxOf .backward < evs.idxOf .optStep
  && evs.idxOf .divGrad < evs.idxOf .clip && evs.idxOf .clip < evs.idxOf .optStep
  && evs.idxOf .optStep < evs.idxOf .zeroGrad
  -- each once, backward / schedStep unconditional
  && [Ev.backward, .divGrad, .clip, .optStep, .zeroGrad, .schedStep].all (fun e => evs.count e == 1)
  && t.all (fun (e, gs) => !(e == .backward || e == .schedStep) || gs.isEmpty)

/-- how an engine class handles the loss in `_do_iteration` / `forward_function` (one row per class, read from
`direct/nn/**` by the translator) -/
structure EngineRow where
  name : String
  definesDoIteration : Bool   -- else it only supplies `forward_function` to `MRIModelEngine._do_iteration`
  nBackward : Nat             -- number of `.backward(` call sites
  guarded : Bool              -- every one under `if self.model.training`
  scaled : Bool               -- every one on `self._scaler.scale(loss)`
  inLoop : Bool               -- some `.backward(` inside a `for`
  retainGraph : Bool          -- some `.backward(retain_graph=True)`
  mentionsGradSteps : Bool    -- `gradient_steps` appears (the loss must NOT be divided: the loop divides the gradients)
  touchesOptimizer : Bool     -- `zero_grad` / `optimizer.step` / `_scaler.step` / `_scaler.update` inside the engine
  detached : Bool             -- `.detach()` applied to what is back-propagated
deriving DecidableEq, Repr

/-- "`_do_iteration` only *adds* the gradient of its batch to `.grad`": back-propagates the (scaled) loss when training,
never divides by `gradient_steps`, never zeroes gradients or steps the optimiser, never detaches the loss; engines that
only give a `forward_function` do none of these things themselves -/
def wfEngine (r : EngineRow) : Bool :=
  if r.definesDoIteration then
    decide (r.nBackward ≥ 1) && r.guarded && r.scaled && !r.mentionsGradSteps && !r.touchesOptimizer && !r.detached
  else r.nBackward == 0 && !r.mentionsGradSteps && !r.touchesOptimizer

def wfEngines (rows : List EngineRow) : Bool :=
  rows.all wfEngine && rows.any (fun r => r.name == "MRIModelEngine" && r.definesDoIteration)

def evalGuard (cfg : Cfg) (it : Nat) : Guard → Bool
  | .stepBranch => (it + 1) % cfg.k == 0
  | .kGt1 => decide (cfg.k > 1)
  | .clipOn => cfg.clipOn

section machine
variable {P O G B L Sc : Type}

def applyEv (ops : Ops P O G B L Sc) (lrAt : Nat → L) (cfg : Cfg) (b : B) (s : St P O G Sc) : Ev → St P O G Sc
  | .backward => { s with grad := ops.add s.grad (ops.grad s.theta b) }
  | .divGrad => { s with grad := ops.divk cfg.k s.grad }
  | .clip => { s with grad := ops.clip s.grad }
  | .optStep =>
    let r := ops.opt (lrAt s.epoch) s.theta s.ostate s.grad
    { s with theta := r.1, ostate := r.2 }
  | .scalerUpdate => { s with scaler := ops.supd s.scaler }
  | .zeroGrad => { s with grad := ops.zero }
  | .schedStep => { s with epoch := s.epoch + 1 }

/-- one iteration of the loop body, by interpretation of the statement table -/
def iterT (t : LoopTable) (ops : Ops P O G B L Sc) (lrAt : Nat → L) (cfg : Cfg) (s : St P O G Sc) (it : Nat) (b : B) :
    St P O G Sc :=
  t.foldl (fun s eg => if eg.2.all (evalGuard cfg it) then applyEv ops lrAt cfg b s eg.1 else s) s

/-- the loop body as it is now -/
def iter (ops : Ops P O G B L Sc) (lrAt : Nat → L) (cfg : Cfg) (s : St P O G Sc) (it : Nat) (b : B) : St P O G Sc :=
  iterT loopTable ops lrAt cfg s it b

def iterPinned (ops : Ops P O G B L Sc) (lrAt : Nat → L) (cfg : Cfg) (s : St P O G Sc) (it : Nat) (b : B) :
    St P O G Sc :=
  iterT loopTablePinned ops lrAt cfg s it b

/-- iterations `a, a+1, …, a+n-1` with the batch of iteration `i` being `batch i` -/
def runRangeT (t : LoopTable) (ops : Ops P O G B L Sc) (lrAt : Nat → L) (cfg : Cfg) (batch : Nat → B)
    (s : St P O G Sc) (a : Nat) : Nat → St P O G Sc
  | 0 => s
  | n + 1 => iterT t ops lrAt cfg (runRangeT t ops lrAt cfg batch s a n) (a + n) (batch (a + n))

def runRange (ops : Ops P O G B L Sc) (lrAt : Nat → L) (cfg : Cfg) (batch : Nat → B)
    (s : St P O G Sc) (a n : Nat) : St P O G Sc :=
  runRangeT loopTable ops lrAt cfg batch s a n

/-- the OOM recovery branch of the loop (`RuntimeError("… out of memory …")` from `_do_iteration`, fewer than three in a
row): `optimizer.zero_grad(); continue` — the iteration index is consumed, but there is no optimiser step, no
`lr_scheduler.step()`, and whatever was accumulated in the current window is thrown away -/
def oomSkip (ops : Ops P O G B L Sc) (s : St P O G Sc) : St P O G Sc := { s with grad := ops.zero }

/-- a run in which the iterations `i` with `oom i` hit the OOM recovery branch -/
def runRangeO (ops : Ops P O G B L Sc) (lrAt : Nat → L) (cfg : Cfg) (batch : Nat → B) (oom : Nat → Bool)
    (s : St P O G Sc) (a : Nat) : Nat → St P O G Sc
  | 0 => s
  | n + 1 =>
    let s' := runRangeO ops lrAt cfg batch oom s a n
    if oom (a + n) then oomSkip ops s' else iter ops lrAt cfg s' (a + n) (batch (a + n))

/-- the gradient accumulated in `.grad` right after `backward` -/
def accum (ops : Ops P O G B L Sc) (s : St P O G Sc) (b : B) : G := ops.add s.grad (ops.grad s.theta b)

/-- what the optimiser is handed when the step branch is taken -/
def received (ops : Ops P O G B L Sc) (cfg : Cfg) (a : G) : G :=
  let g := if cfg.k > 1 then ops.divk cfg.k a else a
  if cfg.clipOn then ops.clip g else g

/-- the accumulated (undivided) gradients consumed by the optimiser steps of iterations `a … a+n-1`,
most recent first -/
def delivered (ops : Ops P O G B L Sc) (lrAt : Nat → L) (cfg : Cfg) (batch : Nat → B)
    (s : St P O G Sc) (a : Nat) : Nat → List G
  | 0 => []
  | n + 1 =>
    let rest := delivered ops lrAt cfg batch s a n
    if (a + n + 1) % cfg.k == 0 then accum ops (runRange ops lrAt cfg batch s a n) (batch (a + n)) :: rest else rest

/-- the gradients produced by the `backward` calls of iterations `a … a+n-1`, most recent first -/
def seen (ops : Ops P O G B L Sc) (lrAt : Nat → L) (cfg : Cfg) (batch : Nat → B)
    (s : St P O G Sc) (a : Nat) : Nat → List G
  | 0 => []
  | n + 1 => ops.grad (runRange ops lrAt cfg batch s a n).theta (batch (a + n)) :: seen ops lrAt cfg batch s a n

/-! ## checkpoints of the trainer -/

/-- what `Checkpointer.save` stores (model, optimizer, lr_scheduler, scaler `state_dict`s) -/
structure Snap (P O Sc : Type) where
  theta : P
  ostate : O
  epoch : Nat
  scaler : Sc
deriving DecidableEq, Repr

def snapshot (s : St P O G Sc) : Snap P O Sc := ⟨s.theta, s.ostate, s.epoch, s.scaler⟩
/-- fresh process + `load_state_dict`s: gradients are not part of a checkpoint -/
def restore (zero : G) (c : Snap P O Sc) : St P O G Sc := ⟨c.theta, c.ostate, zero, c.epoch, c.scaler⟩

end machine

/-- `checkpoint_model_at_interval` -/
def ckptGuard (it ckSteps total : Nat) : Bool := decide (it ≥ 5) && (it % ckSteps == 0 || it + 1 == total)
/-- `checkpoint_and_write_to_logs(iter_idx)`: `if iter_idx >= 5: save(iter_idx - 1)` -/
def killGuard (it : Int) : Bool := decide (it ≥ 5)
def killLabel (it : Int) : Int := it - 1
def killLabelPinned (it : Int) : Int := it
/-- `start_iter = checkpoint["iteration"] + 1` -/
def resumeStart (label : Int) : Int := label + 1

/-! ## processes: resume, train, checkpoint, get interrupted -/

/-- how a training process ends -/
inductive Stop where
  | finish                                      -- reaches `num_iterations`
  | vanishAfter (j : Nat)                       -- disappears (SIGKILL, power) right after iteration `j` and its checkpoint
  | killDuring (j : Nat)                        -- SIGINT inside `_do_iteration` of iteration `j` → kill path
  | crashInSave (j : Nat) (n : Nat) (m : Option Nat)  -- dies inside the checkpoint save of iteration `j` at crash point `(n, m)`
deriving DecidableEq, Repr

structure Run (P O G B L Sc : Type) where
  ops : Ops P O G B L Sc
  lrAt : Nat → L
  cfg : Cfg
  batch : Nat → B
  init : St P O G Sc                 -- freshly constructed model / optimiser / scheduler / scaler
  total : Nat                        -- `num_iterations`
  ckSteps : Nat                      -- `checkpointer.checkpoint_steps`
  encode : Snap P O Sc → List Bytes  -- the writes of `torch.save`
  decode : Bytes → Option (Snap P O Sc)
  table : LoopTable := loopTable
  killLabel : Int → Int := killLabel
  saveTbl : List Stmt := saveTable   -- the statement table of `Checkpointer.save`

section process
variable {P O G B L Sc : Type}

def Run.save (r : Run P O G B L Sc) (d : Dir) (label : Int) (c : Snap P O Sc) : Dir :=
  run d (opsOf r.saveTbl label (r.encode c))

/-- the training loop of one process from iteration `it` on -/
def Run.loop (r : Run P O G B L Sc) (stop : Stop) : Nat → Nat → St P O G Sc → Dir → St P O G Sc × Dir
  | 0, _, s, d => (s, d)
  | fuel + 1, it, s, d =>
    if it ≥ r.total then (s, d) else
    if stop = .killDuring it then
      -- `_do_iteration` raised ProcessKilledException: θ, optimiser, scheduler untouched
      (s, if killGuard it then r.save d (r.killLabel it) (snapshot s) else d)
    else
      let s' := iterT r.table r.ops r.lrAt r.cfg s it (r.batch it)
      if ckptGuard it r.ckSteps r.total then
        match stop with
        | .crashInSave j n m =>
          if j = it then (s', run d (crashAt (opsOf r.saveTbl it (r.encode (snapshot s'))) n m))
          else
            let d' := r.save d it (snapshot s')
            r.loop stop fuel (it + 1) s' d'
        | _ =>
          let d' := r.save d it (snapshot s')
          if stop = .vanishAfter it then (s', d') else r.loop stop fuel (it + 1) s' d'
      else
        if stop = .vanishAfter it then (s', d) else r.loop stop fuel (it + 1) s' d

/-- `Engine.train(resume=True)`: load 'latest', `start_iter = label + 1`, run the loop.
`none` = the load raised. -/
def Run.process (r : Run P O G B L Sc) (stop : Stop) (d : Dir) : Option (St P O G Sc × Dir) :=
  match loadLatest r.decode d with
  | .none => some (r.loop stop r.total 0 r.init d)
  | .ok label c => some (r.loop stop r.total (resumeStart label).toNat (restore r.ops.zero c) d)
  | .error _ => none

/-- a history of interrupted processes on the same experiment directory -/
def Run.history (r : Run P O G B L Sc) : List Stop → Dir → Option Dir
  | [], d => some d
  | st :: rest, d => match r.process st d with
    | none => none
    | some (_, d') => r.history rest d'

end process

/-! ## learning-rate schedules as closed forms of `last_epoch` -/
namespace Sched

/-- `bisect.bisect_right(milestones, x)` for a sorted list: the number of milestones `≤ x` -/
def bisectRight (ms : List Int) (x : Int) : Nat := (ms.filter (· ≤ x)).length

def sorted : List Int → Bool
  | a :: b :: r => decide (a ≤ b) && sorted (b :: r)
  | _ => true

inductive Warmup where
  | constant | linear | unknown
deriving DecidableEq, Repr

/-- `_get_warmup_factor_at_iter`; `none` = `ValueError("Unknown warmup method")` -/
def warmupFactorAt (method : Warmup) (cur warmupIters : Int) (wf : Rat) : Option Rat :=
  if cur ≥ warmupIters then some 1 else
  match method with
  | .constant => some wf
  | .linear =>
    let alpha : Rat := (cur : Rat) / (warmupIters : Rat)
    some (wf * (1 - alpha) + alpha)
  | .unknown => none

structure MultiStep where
  base : Rat
  gamma : Rat
  milestones : List Int
  wf : Rat
  warmupIters : Int
  method : Warmup

/-- `WarmupMultiStepLR.get_lr` as a function of `last_epoch` only -/
def MultiStep.lr (c : MultiStep) (e : Int) : Option Rat :=
  (warmupFactorAt c.method e c.warmupIters c.wf).map fun w =>
    c.base * w * c.gamma ^ bisectRight c.milestones e

structure Cosine where
  base : Rat
  maxIters : Int
  wf : Rat
  warmupIters : Int
  method : Warmup

/-- `WarmupCosineLR.get_lr`; `cosPi e m` stands for `math.cos(math.pi * e / m)` (uninterpreted) -/
def Cosine.lr (cosPi : Int → Int → Rat) (c : Cosine) (e : Int) : Option Rat :=
  (warmupFactorAt c.method e c.warmupIters c.wf).map fun w =>
    c.base * w * (1 / 2) * (1 + cosPi e c.maxIters)

/-- the scheduler object: `last_epoch` and the lr it last wrote into the optimiser -/
structure S (L : Type) where
  lastEpoch : Nat
  lr : L
deriving DecidableEq, Repr

/-- construction performs the initial step: `last_epoch = 0` -/
def S.init {L} (lrAt : Nat → L) : S L := ⟨0, lrAt 0⟩
/-- `scheduler.step()` -/
def S.step {L} (lrAt : Nat → L) (s : S L) : S L := ⟨s.lastEpoch + 1, lrAt (s.lastEpoch + 1)⟩
/-- fresh scheduler, then `load_state_dict` of a scheduler saved at `last_epoch = e` and of the optimiser
(whose `param_groups[0]["lr"]` the saved scheduler had written) -/
def S.load {L} (lrAt : Nat → L) (e : Nat) : S L := ⟨e, lrAt e⟩
def S.steps {L} (lrAt : Nat → L) (s : S L) : Nat → S L
  | 0 => s
  | n + 1 => S.step lrAt (S.steps lrAt s n)

end Sched

/-! ## exact toy instance for the driver: linear model, L1 loss with sum reduction, SGD with momentum

`loss(w, batch) = Σ_b |x_b · w − y_b|`, so `∇ = Σ_b sign(x_b · w − y_b) x_b` (integer combinations of
the data: float arithmetic of the real run is exact). -/
namespace Toy

abbrev Vec := List Rat
def vadd (a b : Vec) : Vec := List.zipWith (· + ·) a b
def vscale (c : Rat) (a : Vec) : Vec := a.map (c * ·)
def dot (a b : Vec) : Rat := (List.zipWith (· * ·) a b).foldl (· + ·) 0
def sign (r : Rat) : Rat := if r > 0 then 1 else if r < 0 then -1 else 0

/-- a batch = rows `(x, y)` -/
abbrev Batch := List (Vec × Rat)

def grad (d : Nat) (w : Vec) (b : Batch) : Vec :=
  b.foldl (fun g (x, y) => vadd g (vscale (sign (dot x w - y)) x)) (List.replicate d 0)

/-- `torch.optim.SGD(momentum = μ)`: `buf = g` on the first step, then `buf = μ·buf + g`; `p -= lr·buf`.
With `μ = 0` torch keeps no buffer. -/
def sgd (mu : Rat) (lr : Rat) (w : Vec) (buf : Option Vec) (g : Vec) : Vec × Option Vec :=
  if mu = 0 then (vadd w (vscale (-lr) g), none) else
  let nb := match buf with
    | none => g
    | some v => vadd (vscale mu v) g
  (vadd w (vscale (-lr) nb), some nb)

def ops (d : Nat) (mu : Rat) : Ops Vec (Option Vec) Vec Batch Rat Nat where
  grad := grad d
  add := vadd
  zero := List.replicate d 0
  divk k g := vscale (1 / (k : Rat)) g
  clip g := g
  opt := sgd mu
  supd n := n + 1     -- the harness' scaler counts its `update()` calls

/-- the toy with an **additional model** in `self.models`: parameters `w ++ v` (`d` each), prediction
`x·w + x·v`, so both groups get the same gradient; `training_loop` divides the gradients of `self.model` **and** of
every model in `self.models` by `gradient_steps` (`opsAuxPinned`: the pinned tree divided only the first `d`) -/
def gradAux (d : Nat) (θ : Vec) (b : Batch) : Vec :=
  let g := b.foldl (fun g (x, y) => vadd g (vscale (sign (dot x (θ.take d) + dot x (θ.drop d) - y)) x)) (List.replicate d 0)
  g ++ g

def opsAux (d : Nat) (mu : Rat) : Ops Vec (Option Vec) Vec Batch Rat Nat where
  grad := gradAux d
  add := vadd
  zero := List.replicate (2 * d) 0
  divk k g := vscale (1 / (k : Rat)) g
  clip g := g
  opt := sgd mu
  supd n := n + 1

def opsAuxPinned (d : Nat) (mu : Rat) : Ops Vec (Option Vec) Vec Batch Rat Nat where
  grad := gradAux d
  add := vadd
  zero := List.replicate (2 * d) 0
  divk k g := vscale (1 / (k : Rat)) (g.take d) ++ g.drop d
  clip g := g
  opt := sgd mu
  supd n := n + 1

/-- Int instance with a main and an additional parameter group (same gradient for both) as on the pinned tree: only
the main group is divided -/
def intOps2Pinned : Ops (Int × Int) Unit (Int × Int) Int Int Unit where
  grad _ b := (b, b)
  add a b := (a.1 + b.1, a.2 + b.2)
  zero := (0, 0)
  divk k g := (g.1 / (k : Int), g.2)
  clip g := g
  opt lr w _ g := ((w.1 - lr * g.1, w.2 - lr * g.2), ())

/-- Int instance for the kernel-evaluated regression witnesses:
`θ' = θ − lr·g`, `∇loss(θ, b) = b` (the batch is its own gradient), `div_` exact on multiples of `k` -/
def intOps : Ops Int Unit Int Int Int Unit where
  grad _ b := b
  add := (· + ·)
  zero := 0
  divk k g := g / (k : Int)
  clip g := g
  opt lr w _ g := (w - lr * g, ())

end Toy

end DirectVerif.Train
