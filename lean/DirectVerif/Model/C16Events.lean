import DirectVerif.Model.Train
/-!
# C16 — what happens *between* training iterations (executable, no Mathlib)

`Engine.training_loop` does more than the gradient statements of `Train.loopTable`: before `_do_iteration` it may log the
first example (`iter_idx == 0`) and run a validation round (`start_with_validation`), after `lr_scheduler.step()` it calls
`checkpoint_model_at_interval`, `write_to_logs_at_interval`, `validate_model_at_interval`; a SIGINT goes through
`checkpoint_and_write_to_logs`; `Engine.train` has a prologue (`optimizer.zero_grad()`, checkpoint load, the computation of
`start_iter`).  All of these run *inside accumulation windows* when `gradient_steps > 1`.

* `Table`: for each of these call sites, the statements (in the transitive closure of `self.…` calls, incl.
  `MRIModelEngine.evaluate` / `reconstruct_volumes` and `Checkpointer.save`) that touch `.grad`, the optimiser, the LR
  scheduler or the scaler — regenerated from the source by the translator.  `wfBetween` = "none, except the `zero_grad()` of
  the prologue".
* `runProc` / `history`: processes of `Engine.train` (resume, `start_with_validation`, kill path, clean stop) on the
  trainer state of `Model/Train.lean`, interpreting the table at every call site; `rs` is the translated
  `start_iter` arithmetic of the resume branch.
-/
namespace DirectVerif.C16E
open DirectVerif DirectVerif.Train

/-- what a statement can do to the trainer state -/
inductive Touch where
  | zeroGrad        -- `….zero_grad(…)`
  | optStep         -- `optimizer.step()` / `scaler.step(optimizer)`
  | schedStep       -- `lr_scheduler.step()`
  | scalerUpdate    -- `scaler.update()`
  | backward        -- `….backward(…)`
  | gradWrite       -- assignment to / in-place method on `….grad`
  | lrWrite         -- assignment into `param_groups`
  | loadState       -- `….load_state_dict(…)`
  | doIterUnguarded -- `_do_iteration` outside `torch.no_grad()` without `models_validation_mode()` before it
deriving DecidableEq, Repr

/-- the call sites -/
inductive Site where
  | prologue        -- `Engine.train` up to `training_loop`
  | logFirst        -- `log_first_training_example_and_model` (`iter_idx == 0`)
  | validationLoop  -- `validation_loop` (periodic, last iteration, `start_with_validation`)
  | checkpoint      -- `checkpoint_model_at_interval` → `Checkpointer.save`
  | writeLogs       -- `write_to_logs_at_interval` → `write_to_logs`
  | killSave        -- `checkpoint_and_write_to_logs`
deriving DecidableEq, Repr

structure Row where
  site : Site
  touch : Touch
  needsVal : Bool := false   -- the statement is after `if not validation_datasets: return`
deriving DecidableEq, Repr

abbrev Table := List Row

/-- the code as it is now: only the prologue's `optimizer.zero_grad()` -/
def table : Table := [{ site := .prologue, touch := .zeroGrad }]

/-- every row is the prologue's `zero_grad()` -/
def allPrologueZero (t : Table) : Bool := t.all fun r => r.site == .prologue && r.touch == .zeroGrad && !r.needsVal

/-- "between two iterations nothing touches gradients, optimiser, scheduler or scaler — and `Engine.train` does clear
whatever gradients the parameters carry when it is entered" (a user's backward pass before training, a previous `train()`
on the same objects that ended inside a window) -/
def wfBetween (t : Table) : Bool := allPrologueZero t && !t.isEmpty

/-- the between-iteration calls of the loop body in source order: before `_do_iteration` / after `lr_scheduler.step()` -/
def preOrder : List Site := [.logFirst, .validationLoop]
def postOrder : List Site := [.checkpoint, .writeLogs, .validationLoop]

/-- `validate_model_at_interval` / `write_to_logs_at_interval` -/
def valGuard (it valSteps total : Nat) : Bool := decide (it ≥ 5) && (it % valSteps == 0 || it + 1 == total)
def logGuard (it valSteps total : Nat) : Bool :=
  decide (it ≥ 5) && (it % 20 == 0 || it % valSteps == 0 || it + 1 == total)

/-- `start_iter` of the resume branch of `Engine.train` -/
def resumeStart (label _k : Int) : Int := label + 1
/-- seeded regression C16-6: the window is restarted, the restored scheduler is not rewound -/
def resumeStartRewind (label k : Int) : Int := (label + 1) - Int.fmod (label + 1) k

section machine
variable {P O G B L Sc : Type}

/-- effect of one touch (the uninterpretable ones are rejected by `wfBetween`; they act as the identity here) -/
def applyTouch (ops : Ops P O G B L Sc) (lrAt : Nat → L) (s : St P O G Sc) : Touch → St P O G Sc
  | .zeroGrad => { s with grad := ops.zero }
  | .optStep =>
    let r := ops.opt (lrAt s.epoch) s.theta s.ostate s.grad
    { s with theta := r.1, ostate := r.2 }
  | .schedStep => { s with epoch := s.epoch + 1 }
  | .scalerUpdate => { s with scaler := ops.supd s.scaler }
  | _ => s

/-- everything the table lists for a call site -/
def site (tbl : Table) (ops : Ops P O G B L Sc) (lrAt : Nat → L) (hasVal : Bool) (st : Site) (s : St P O G Sc) :
    St P O G Sc :=
  tbl.foldl (fun s r => if r.site == st && (!r.needsVal || hasVal) then applyTouch ops lrAt s r.touch else s) s

structure EvCfg where
  ckSteps : Nat     -- `training.checkpointer.checkpoint_steps`
  valSteps : Nat    -- `training.validation_steps`
  hasVal : Bool     -- validation datasets configured
deriving DecidableEq, Repr

/-- one process of `Engine.train` -/
structure Proc where
  total : Nat            -- `num_iterations` of this process (a "clean stop after t" is a process with `total = t + 1`)
  kill : Option Nat      -- SIGINT inside `_do_iteration` of this iteration
  swv : Bool             -- `start_with_validation`
  resume : Bool
  stale : Option Nat := none   -- the parameters already carry the gradient of this batch when `train()` is entered
deriving DecidableEq, Repr

/-- what is observed of a completed iteration -/
structure Rec (P : Type) where
  it : Nat               -- the loop's `iter_idx`
  epochBefore : Nat      -- `last_epoch` during the backward pass (the lr in effect is `lrAt` of it)
  theta : P              -- parameters at `lr_scheduler.step()`
  epochAfter : Nat       -- `last_epoch` after `lr_scheduler.step()`

structure PS (P O G Sc : Type) where
  start : Nat
  s : St P O G Sc
  latest : Option (Nat × Snap P O Sc)   -- `last_model.txt` and the file it points to
  recs : List (Rec P)
  dead : Bool

/-- iteration `it` of a process, with everything around it -/
def oneIter (tbl : Table) (ops : Ops P O G B L Sc) (lrAt : Nat → L) (cfg : Cfg) (e : EvCfg) (batch : Nat → B)
    (p : Proc) (ps : PS P O G Sc) (it : Nat) : PS P O G Sc :=
  if ps.dead then ps else
  if p.kill = some it then
    { ps with dead := true,
              latest := if killGuard it then
                  some ((killLabel it).toNat, snapshot (site tbl ops lrAt e.hasVal .killSave ps.s))
                else ps.latest }
  else
    let s0 := if it = 0 then site tbl ops lrAt e.hasVal .logFirst ps.s else ps.s
    let s0 := if p.swv && it == ps.start then site tbl ops lrAt e.hasVal .validationLoop s0 else s0
    let s1 := iter ops lrAt cfg s0 it (batch it)
    let ck := ckptGuard it e.ckSteps p.total
    let s2 := if ck then site tbl ops lrAt e.hasVal .checkpoint s1 else s1
    let latest := if ck then some (it, snapshot s2) else ps.latest
    let s3 := if logGuard it e.valSteps p.total then site tbl ops lrAt e.hasVal .writeLogs s2 else s2
    let s4 := if valGuard it e.valSteps p.total then site tbl ops lrAt e.hasVal .validationLoop s3 else s3
    { ps with s := s4, latest := latest, recs := ps.recs ++ [⟨it, s0.epoch, s1.theta, s1.epoch⟩] }

/-- gradients present on the parameters when `Engine.train` is entered (back-propagated at the freshly built parameters) -/
def addStale (ops : Ops P O G B L Sc) (batch : Nat → B) (init : St P O G Sc) (p : Proc) (s : St P O G Sc) : St P O G Sc :=
  match p.stale with
  | some j => { s with grad := ops.add s.grad (ops.grad init.theta (batch j)) }
  | none => s

/-- where a process starts: fresh objects, or the latest checkpoint and the translated `start_iter` -/
def procStart (tbl : Table) (rs : Int → Int → Int) (ops : Ops P O G B L Sc) (lrAt : Nat → L) (cfg : Cfg) (e : EvCfg)
    (batch : Nat → B) (init : St P O G Sc) (latest : Option (Nat × Snap P O Sc)) (p : Proc) : PS P O G Sc :=
  match (if p.resume then latest else none) with
  | some (label, c) =>
    ⟨(rs (label : Int) (cfg.k : Int)).toNat,
      site tbl ops lrAt e.hasVal .prologue (addStale ops batch init p (restore ops.zero c)), latest, [], false⟩
  | none => ⟨0, site tbl ops lrAt e.hasVal .prologue (addStale ops batch init p init), latest, [], false⟩

def runFrom (tbl : Table) (ops : Ops P O G B L Sc) (lrAt : Nat → L) (cfg : Cfg) (e : EvCfg) (batch : Nat → B)
    (p : Proc) (ps : PS P O G Sc) (a n : Nat) : PS P O G Sc :=
  (List.range' a n).foldl (oneIter tbl ops lrAt cfg e batch p) ps

def runProc (tbl : Table) (rs : Int → Int → Int) (ops : Ops P O G B L Sc) (lrAt : Nat → L) (cfg : Cfg) (e : EvCfg)
    (batch : Nat → B) (init : St P O G Sc) (latest : Option (Nat × Snap P O Sc)) (p : Proc) : PS P O G Sc :=
  let ps := procStart tbl rs ops lrAt cfg e batch init latest p
  runFrom tbl ops lrAt cfg e batch p ps ps.start (p.total - ps.start)

/-- processes one after the other on the same experiment directory -/
def history (tbl : Table) (rs : Int → Int → Int) (ops : Ops P O G B L Sc) (lrAt : Nat → L) (cfg : Cfg) (e : EvCfg)
    (batch : Nat → B) (init : St P O G Sc) : Option (Nat × Snap P O Sc) → List Proc → List (PS P O G Sc)
  | _, [] => []
  | latest, p :: rest =>
    let ps := runProc tbl rs ops lrAt cfg e batch init latest p
    ps :: history tbl rs ops lrAt cfg e batch init ps.latest rest

end machine

/-- the table of seeded regression C16-8: the prologue's `optimizer.zero_grad()` removed -/
def tableNoPrologue : Table := []

/-- the table of seeded regression C16-5: `optimizer.zero_grad(set_to_none=True)` at the top of a validation round -/
def tableValZero : Table := table ++ [{ site := .validationLoop, touch := .zeroGrad, needsVal := true }]

/-! ## gradient clipping over several optimised modules

`clip_grad_norm_` is called **once**, on the flat list of the parameters of `self.model` and of every model in
`self.models`: the norm is the global one.  (Executable stand-in with the L1 norm on integers.) -/

inductive ClipForm where
  | oneCallUnion   -- one call over the union of all optimised parameters
  | perModule      -- one call per module: each module against its own norm
  | mainOnly       -- `self.model.parameters()` only
deriving DecidableEq, Repr

/-- the loop as it is now -/
def clipForm : ClipForm := .oneCallUnion

def norm1 (g : List Int) : Int := g.foldl (fun a x => a + (x.natAbs : Int)) 0
def scaleTo (c n : Int) (g : List Int) : List Int := g.map fun x => x * c / n
/-- `clip_grad_norm_(g, c)` on one flat list -/
def clip1 (c : Int) (g : List Int) : List Int := if norm1 g ≤ c then g else scaleTo c (norm1 g) g

def clipModules (form : ClipForm) (c : Int) (mods : List (List Int)) : List (List Int) :=
  match form with
  | .oneCallUnion => if norm1 mods.flatten ≤ c then mods else mods.map (scaleTo c (norm1 mods.flatten))
  | .perModule => mods.map (clip1 c)
  | .mainOnly => match mods with
    | [] => []
    | m :: rest => clip1 c m :: rest

/-! ## the form of `zero_grad` in the loop body

`optimizer.zero_grad()` (torch ≥ 2: `set_to_none=True`) leaves `.grad = None`: a parameter that receives no gradient in the
next window (a conditionally used head / additional model) is then *skipped* by the optimiser.  `set_to_none=False` leaves a
zero tensor: stateful optimisers (momentum, Adam moments, weight decay) still move the parameter and advance its state. -/

inductive ZeroForm where
  | toNone     -- `zero_grad()` / `zero_grad(set_to_none=True)`
  | toZero     -- `zero_grad(set_to_none=False)`
deriving DecidableEq, Repr

/-- the `zero_grad` calls of the loop body in source order: the OOM recovery and the step branch -/
def zeroGradForms : List ZeroForm := [.toNone, .toNone]

def wfZero (l : List ZeroForm) : Bool := l.all (· == .toNone) && !l.isEmpty

/-- what the optimiser sees for a parameter that got no gradient in the window -/
def idleGrad : ZeroForm → Option Int
  | .toNone => none
  | .toZero => some 0

/-- SGD with momentum 1/2 on one parameter with an optional gradient (`None` = skipped, as `torch.optim` does) -/
def momStep (lr θ buf : Int) : Option Int → Int × Int
  | none => (θ, buf)
  | some g => (θ - lr * (buf / 2 + g), buf / 2 + g)

/-! ## the GradScaler protocol of the step branch (mixed precision)

`_do_iteration` back-propagates `scaler.scale(loss)`: `.grad` holds `S ·` the accumulated gradients.  In the step branch the
loop divides by `gradient_steps`, calls `scaler.unscale_(optimizer)` before clipping, `scaler.step(optimizer)` (which
unscales if that has not happened yet), `scaler.update()`. -/

inductive AmpEv where
  | divGrad        -- `parameter.grad.div_(gradient_steps)`
  | unscale        -- `scaler.unscale_(optimizer)`
  | clip           -- `clip_grad_norm_`
  | scalerStep     -- `scaler.step(optimizer)`
  | directStep     -- `optimizer.step()` behind the scaler's back
  | scalerUpdate   -- `scaler.update()`
deriving DecidableEq, Repr

abbrev AmpTable := List (AmpEv × List Guard)

/-- the step branch as it is now -/
def ampTable : AmpTable :=
  [(.divGrad, [.stepBranch, .kGt1]), (.unscale, [.stepBranch, .clipOn]), (.clip, [.stepBranch, .clipOn]),
   (.scalerStep, [.stepBranch]), (.scalerUpdate, [.stepBranch])]

/-- clipping sees unscaled gradients (an `unscale_` with the same guards precedes every clip), at most one `unscale_`, the
optimiser is stepped through the scaler exactly once and never directly, `update()` follows the step, all inside the step
branch -/
def wfAmp (t : AmpTable) : Bool :=
  let evs := t.map (·.1)
  evs.count .directStep == 0 && evs.count .scalerStep == 1 && evs.count .scalerUpdate == 1
  && decide (evs.count .unscale ≤ 1) && decide (evs.count .clip ≤ 1)
  && evs.idxOf .scalerStep < evs.idxOf .scalerUpdate
  && t.all (fun (_, gs) => gs.contains .stepBranch)
  && t.all (fun (e, gs) => !(e == .scalerStep || e == .scalerUpdate) || gs == [.stepBranch])
  && (evs.count .clip == 0 ||
      (evs.idxOf .unscale < evs.idxOf .clip && evs.idxOf .clip < evs.idxOf .scalerStep
       && (t.lookup .unscale) == (t.lookup .clip)))
  && (evs.count .divGrad == 0 || evs.idxOf .divGrad < evs.idxOf .scalerStep)

/-- the scaler-relevant operations on a gradient space -/
structure AmpOps (G S : Type) where
  unscale : S → G → G      -- multiply by `1 / S`
  divk : Nat → G → G
  clip : G → G
  grow : S → S             -- `update()`

structure AmpSt (G S : Type) where
  grad : G                 -- `.grad` (scaled until `unscaled`)
  scale : S
  unscaled : Bool := false
  delivered : Option G := none   -- what `optimizer.step()` saw
  error : Bool := false          -- `unscale_()` called twice since the last `update()` raises

def applyAmp {G S : Type} (o : AmpOps G S) (k : Nat) (s : AmpSt G S) : AmpEv → AmpSt G S
  | .divGrad => { s with grad := o.divk k s.grad }
  | .unscale => if s.unscaled then { s with error := true } else { s with grad := o.unscale s.scale s.grad, unscaled := true }
  | .clip => { s with grad := o.clip s.grad }
  | .scalerStep =>
    let g := if s.unscaled then s.grad else o.unscale s.scale s.grad
    { s with grad := g, unscaled := true, delivered := some g }
  | .directStep => { s with delivered := some s.grad }
  | .scalerUpdate => { s with scale := o.grow s.scale, unscaled := false }

/-- the step branch under the scaler, by interpretation of the table -/
def ampRun {G S : Type} (t : AmpTable) (o : AmpOps G S) (cfg : Cfg) (it : Nat) (s : AmpSt G S) : AmpSt G S :=
  t.foldl (fun s eg => if eg.2.all (evalGuard cfg it) then applyAmp o cfg.k s eg.1 else s) s

/-- regression tables: clipping before `unscale_`; `optimizer.step()` instead of `scaler.step(optimizer)` -/
def ampTableClipFirst : AmpTable :=
  [(.divGrad, [.stepBranch, .kGt1]), (.clip, [.stepBranch, .clipOn]), (.unscale, [.stepBranch, .clipOn]),
   (.scalerStep, [.stepBranch]), (.scalerUpdate, [.stepBranch])]
def ampTableDirect : AmpTable :=
  [(.divGrad, [.stepBranch, .kGt1]), (.unscale, [.stepBranch, .clipOn]), (.clip, [.stepBranch, .clipOn]),
   (.directStep, [.stepBranch]), (.scalerUpdate, [.stepBranch])]

/-- Int instance for kernel-evaluated witnesses: scale `S` divides exactly, clipping caps at ±4 -/
def intAmp : AmpOps Int Int where
  unscale S g := g / S
  divk k g := g / (k : Int)
  clip g := if g > 4 then 4 else if g < -4 then -4 else g
  grow S := 2 * S

end DirectVerif.C16E
