/-!
# Sampling budget of the mask generators (C07) — import-free model over core `Rat`

Mirrors `direct/common/subsample.py` (expressions as coded) and `direct/common/_gaussian.pyx`:

* `RandomMaskFunc.mask_func`:      `prob = (num_cols / acceleration - num_low_freqs) / (num_cols - num_low_freqs)`,
  `mask = acs | (rng.uniform(size=num_cols) < prob)`
* `EquispacedMaskFunc.mask_func`:  `adjusted_accel = (acceleration * (num_low_freqs - num_cols)) / (num_low_freqs * acceleration - num_cols)`,
  `offset = rng.randint(0, round(adjusted_accel))`,
  `mask[np.around(np.arange(offset, num_cols - 1, adjusted_accel)).astype(uint)] = True`
* `Gaussian1D/2DMaskFunc`:         `nonzero_count = int(np.round(N / acceleration - #ACS - 1))`, kernel loop
  `while count <= nonzero_count: draw candidate; if in range and mask[c] != 1: mask[c] = 1; count += 1`
* `VariableDensityPoissonMaskFunc.poisson`: bisection on the slope; leaves the loop when
  `abs(actual_acceleration - acceleration) < tol` or when the midpoint equals an end point; raises afterwards
  unless the tolerance is met.

Python's `round` / `np.round` / `np.around` are round-half-to-even; modelled exactly on rationals.
-/
namespace DirectVerif.MaskBudget

def absQ (x : Rat) : Rat := if x < 0 then -x else x

/-- round half to even (Python 3 `round`, `np.round`, `np.around`) -/
def roundHalfEven (q : Rat) : Int :=
  if q - q.floor < 1 / 2 then q.floor
  else if 1 / 2 < q - q.floor then q.floor + 1
  else if q.floor % 2 = 0 then q.floor else q.floor + 1

/-! ### which (centre fraction, acceleration) pair a call uses (`BaseMaskFunc.choose_acceleration`) -/

/-- `uniform_range=True` is not implemented (the call raises); otherwise the drawn index
`choice = rng.randint(0, len(accelerations))` selects the acceleration **and** the centre fraction
of the same position -/
def chooseAcceleration (uniformRange : Bool) (accs cfs : List Rat) (choice : Nat) : Except String (Rat × Rat) :=
  if uniformRange then .error "NotImplementedError" else
  match cfs[choice]?, accs[choice]? with
  | some c, some r => .ok (c, r)
  | _, _ => .error "IndexError"

/-- `num_low_freqs = int(round(num_cols * center_fraction))` -/
def numLowFreqs (N : Int) (cf : Rat) : Int := roundHalfEven ((N : Rat) * cf)

/-! ### ACS block of the line masks (`center_mask_func`) -/

/-- `pad = (num_cols - num_low_freqs + 1) // 2` -/
def acsPad (N L : Int) : Int := (N - L + 1) / 2

def inAcs (N L i : Int) : Bool := decide (acsPad N L ≤ i) && decide (i < acsPad N L + L)

def countTrue (m : List Bool) : Nat := m.countP (· = true)

/-! ### Random line masks -/

def randomProb (N R L : Rat) : Rat := (N / R - L) / (N - L)

/-- expected number of sampled columns when each non-ACS column is kept with probability `p` -/
def expectedCount (N L p : Rat) : Rat := L + (N - L) * p

/-- one frame: `acs | (u < prob)` for the recorded uniforms `us` (one per column) -/
def randomMask (N L : Int) (prob : Rat) (us : List Rat) : List Bool :=
  (List.range N.toNat).map fun (i : Nat) => inAcs N L (i : Int) || decide (us.getD i 1 < prob)

/-! ### Equispaced line masks -/

def adjAccel (N R L : Rat) : Rat := (R * (L - N)) / (L * R - N)

/-- length of `np.arange(start, stop, step)` for `step > 0`: `ceil((stop - start) / step)`, at least 0 -/
def arangeLen (start stop step : Rat) : Nat := ((stop - start) / step).ceil.toNat

/-- exclusive upper bound of the offset draw: `rng.randint(0, round(adjusted_accel))` -/
def offsetBound (a : Rat) : Int := roundHalfEven a

/-- `np.around(np.arange(offset, num_cols - 1, a))` -/
def equiPositions (N : Int) (a : Rat) (off : Int) : List Int :=
  (List.range (arangeLen off (N - 1) a)).map fun (j : Nat) => roundHalfEven ((off : Rat) + (j : Rat) * a)

def equiMask (N L : Int) (a : Rat) (off : Int) : List Bool :=
  (List.range N.toNat).map fun (i : Nat) => inAcs N L (i : Int) || (equiPositions N a off).contains (i : Int)

/-- realised number of sampled columns of one frame -/
def equiCount (N L : Int) (R : Rat) (off : Int) : Nat := countTrue (equiMask N L (adjAccel N R L) off)

/-- what the code does with an infeasible pair before any grid is built: the Python float division
raises `ZeroDivisionError` when `L·R = N`; `rng.randint(0, high)` raises `ValueError` when
`high = round(adjusted) ≤ 0` (negative or tiny adjusted acceleration) -/
def equiReject (N L : Int) (R : Rat) : Option String :=
  if (L : Rat) * R - N = 0 then some "ZeroDivisionError"
  else if offsetBound (adjAccel N R L) ≤ 0 then some "ValueError" else none

/-- the same count computed from the grid alone: ACS columns plus grid points outside the ACS block
(equal to `equiCount` whenever the grid is duplicate free and inside the row — `equi_count_decomp`) -/
def equiCountFast (N L : Int) (a : Rat) (off : Int) : Nat :=
  L.toNat + ((equiPositions N a off).filter fun p => !inAcs N L p).length

/-! ### Gaussian rejection sampling -/

/-- `nonzero_count = int(np.round(x - #ACS - 1))` with `x = N / R` (1-D) or `rows * cols / R` (2-D) -/
def gaussianRequest (x : Rat) (acs : Int) : Int := roundHalfEven (x - acs - 1)

/-- flat cell of a 2-D candidate, `-1` when it fails `0 <= indx < nrow and 0 <= indy < ncol` -/
def cell2d (nrow ncol x y : Int) : Int := if 0 ≤ x ∧ x < nrow ∧ 0 ≤ y ∧ y < ncol then x * ncol + y else -1

/-- the kernel loop over a finite prefix of the candidate stream; `none` = the loop has not returned
when the candidates are used up -/
def gaussLoop (k : Int) : List Int → Int → List Bool → Option (List Bool)
  | [], count, mask => if count ≤ k then none else some mask
  | c :: cs, count, mask =>
    if count ≤ k then
      if 0 ≤ c ∧ c < mask.length ∧ mask.getD c.toNat true = false then
        gaussLoop k cs (count + 1) (mask.set c.toNat true)
      else gaussLoop k cs count mask
    else some mask

/-! ### Variable-density Poisson: bisection on the slope -/

/-- one bisection iteration as observed: the acceleration realised by the kernel for the probed slope,
and whether the floating-point midpoint coincided with an end point of the interval -/
structure Probe where
  accel : Rat
  stalled : Bool
deriving Repr

inductive Outcome where
  | returned (accel : Rat) (iters : Nat)
  | raised (iters : Nat)
  | running (iters : Nat)
deriving Repr, DecidableEq

/-- the loop and the check after it, over any sequence of probes (the kernel is opaque) -/
def bisect (R tol : Rat) : List Probe → Nat → Outcome
  | [], n => .running n
  | p :: ps, n =>
    if absQ (p.accel - R) < tol then .returned p.accel (n + 1)
    else if p.stalled then .raised (n + 1)
    else bisect R tol ps (n + 1)

/-- a statement executed after the last evaluation of the tolerance test and before `return mask`:
does it assign / modify `mask`, and (for the semantics) what it does to the realised acceleration -/
structure PostStmt where
  modifiesMask : Bool
  effect : Rat → Rat

def applyPost (post : List PostStmt) (a : Rat) : Rat :=
  post.foldl (fun x s => if s.modifiesMask then s.effect x else x) a

/-- `poisson` as the caller sees it: the outcome of the bisection with the acceleration of the
**returned** mask, i.e. after whatever the code still does to `mask` once the tolerance was tested -/
def poisson (R tol : Rat) (ps : List Probe) (post : List PostStmt) : Outcome :=
  match bisect R tol ps 0 with
  | .returned a n => .returned (applyPost post a) n
  | o => o

/-- generated table `(statement text, modifies mask)` of the statements between the last tolerance
evaluation and `return mask`: admissible when none modifies `mask` -/
def postOk (tbl : List (String × Bool)) : Bool := tbl.all fun s => !s.2

def postOfTable (tbl : List (String × Bool)) (effect : Rat → Rat) : List PostStmt :=
  tbl.map fun s => ⟨s.2, effect⟩

/-! ### source skeletons the models above mirror (compared with the generated ones by the bridge) -/

/-- `_gaussian.pyx`: (kernel, initialisation, loop condition, acceptance test, accepted branch) — `gaussLoop` -/
def expectedGaussianLoops : List (String × String × String × String × String) := [
  ("gaussian_mask_1d", "count = 0", "while count <= nonzero_count:", "if 0 <= ind < n and mask[ind] != 1:",
   "mask[ind] = 1 ; count = count + 1"),
  ("gaussian_mask_2d", "count = 0", "while count <= nonzero_count:",
   "if 0 <= indx < nrow and 0 <= indy < ncol and mask[indx, indy] != 1:", "mask[indx, indy] = 1 ; count = count + 1")]

/-- `BaseMaskFunc.choose_acceleration` -/
def expectedChooseSkeleton : List String := [
  "if:notself.accelerations",
  "if:notself.uniform_range",
  "choice=self.rng.randint(0,len(self.accelerations))",
  "acceleration=self.accelerations[choice]",
  "if:self.center_fractionsisNone",
  "center_fraction=self.center_fractions[choice]",
  "return:(center_fraction,acceleration)",
  "raise:NotImplementedError"]

/-- `VariableDensityPoissonMaskFunc.poisson`: loop, the two `break`s, the interval update, the final check — `bisect` -/
def expectedPoissonSkeleton : List String := [
  "while:slope_min<slope_max",
  "if:self.crop_corner",
  "actual:num_rows*num_cols/mask.sum()",
  "break_if:abs(actual_acceleration-acceleration)<self.tol",
  "break_if:slopein(slope_min,slope_max)",
  "if:actual_acceleration<acceleration",
  "raise_if:abs(actual_acceleration-acceleration)>=self.tol",
  "return:mask"]

end DirectVerif.MaskBudget
