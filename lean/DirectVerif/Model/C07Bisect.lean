import DirectVerif.Model.MaskBudget
/-!
# C07 — the interval bookkeeping of `VariableDensityPoissonMaskFunc.poisson`, with the binary64 midpoint

```
slope_min, slope_max = self.slopes            # or  0, max(num_rows, num_cols)
while slope_min < slope_max:
    slope = (slope_max + slope_min) / 2
    … mask for this slope …; actual_acceleration = num_rows * num_cols / mask.sum()
    if abs(actual_acceleration - acceleration) < self.tol: break
    if slope in (slope_min, slope_max): break
    if actual_acceleration < acceleration: slope_min = slope
    else:                                  slope_max = slope
if abs(actual_acceleration - acceleration) >= self.tol: raise ValueError
return mask
```

`MaskBudget.bisect` takes the "midpoint coincides with an end point" flags as inputs; here the interval itself is
part of the model: the midpoint is a parameter `mid` (theorems hold for every midpoint function), the driver runs it
with `floatMid` — the exact value of the binary64 computation `(slope_max + slope_min) / 2` — and compares every probed
slope with the one the real code used.  The kernel (realised acceleration for a slope) stays opaque: a list of
observed accelerations.
-/
namespace DirectVerif.MaskBudget

/-- `2 ^ e` for an integer exponent -/
def pow2 (e : Int) : Rat :=
  if 0 ≤ e then ((2 ^ e.toNat : Nat) : Rat) else 1 / ((2 ^ (-e).toNat : Nat) : Rat)

/-- `⌊log₂ q⌋` for `q > 0` -/
def ilog2 (q : Rat) : Int :=
  let e0 : Int := (Nat.log2 q.num.toNat : Int) - (Nat.log2 q.den : Int)
  if pow2 e0 ≤ q then e0 else e0 - 1

/-- nearest number with a 53-bit significand, ties to even (binary64 without its exponent range: the values that
occur here lie between `2^-60` and `2^10`) -/
def rnd53 (q : Rat) : Rat :=
  if q = 0 then 0 else
  let a := absQ q
  let ulp := pow2 (ilog2 a - 52)
  let r : Rat := ((roundHalfEven (a / ulp) : Int) : Rat) * ulp
  if q < 0 then -r else r

/-- `(slope_max + slope_min) / 2` over the rationals -/
def exactMid (lo hi : Rat) : Rat := (hi + lo) / 2

/-- the same in binary64: the sum is rounded, the halving is exact -/
def floatMid (lo hi : Rat) : Rat := rnd53 (hi + lo) / 2

inductive IvOutcome where
  | returned (accel : Rat) (iters : Nat) (slope : Rat)
  | raised (iters : Nat) (slope : Rat)
  | running (iters : Nat) (lo hi : Rat)
  | notEntered                      -- `slope_min < slope_max` false at the start: `actual_acceleration` is unbound
deriving Repr, DecidableEq

/-- the loop and the check after it over the observed accelerations, for a midpoint function `mid` -/
def bisectIv (mid : Rat → Rat → Rat) (R tol : Rat) : List Rat → Rat → Rat → Nat → IvOutcome
  | [], lo, hi, n => if n = 0 ∧ ¬ lo < hi then .notEntered else .running n lo hi
  | a :: as, lo, hi, n =>
    if lo < hi then
      if absQ (a - R) < tol then .returned a (n + 1) (mid lo hi)
      else if mid lo hi = lo ∨ mid lo hi = hi then .raised (n + 1) (mid lo hi)
      else if a < R then bisectIv mid R tol as (mid lo hi) hi (n + 1)
      else bisectIv mid R tol as lo (mid lo hi) (n + 1)
    else if n = 0 then .notEntered else .raised n lo

/-- forget the interval -/
def IvOutcome.erase : IvOutcome → Outcome
  | .returned a n _ => .returned a n
  | .raised n _ => .raised n
  | .running n _ _ => .running n
  | .notEntered => .running 0

/-- the slopes the loop probes, in order -/
def probedSlopes (mid : Rat → Rat → Rat) (R tol : Rat) : List Rat → Rat → Rat → List Rat
  | [], _, _ => []
  | a :: as, lo, hi =>
    if lo < hi then
      if absQ (a - R) < tol then [mid lo hi]
      else if mid lo hi = lo ∨ mid lo hi = hi then [mid lo hi]
      else if a < R then mid lo hi :: probedSlopes mid R tol as (mid lo hi) hi
      else mid lo hi :: probedSlopes mid R tol as lo (mid lo hi)
    else []

/-- the `stalled` flags `MaskBudget.bisect` takes as inputs, computed from the interval -/
def ivProbes (mid : Rat → Rat → Rat) (R tol : Rat) : List Rat → Rat → Rat → List Probe
  | [], _, _ => []
  | a :: as, lo, hi =>
    ⟨a, decide (mid lo hi = lo ∨ mid lo hi = hi)⟩ ::
      (if a < R then ivProbes mid R tol as (mid lo hi) hi else ivProbes mid R tol as lo (mid lo hi))

/-- position of the first traced slope that differs from the model's (`-1`: all agree, same number) -/
def firstSlopeMismatch (model traced : List Rat) : Int :=
  let rec go : List Rat → List Rat → Nat → Int
    | [], [], _ => -1
    | m :: ms, t :: ts, k => if m = t then go ms ts (k + 1) else k
    | _, _, k => k
  go model traced 0

/-- `poisson` as the caller sees it, with the interval: outcome of the bisection with the acceleration of the
returned mask (after the statements of the generated post table) -/
def poissonIv (mid : Rat → Rat → Rat) (R tol : Rat) (accs : List Rat) (lo hi : Rat) (post : List PostStmt) : IvOutcome :=
  match bisectIv mid R tol accs lo hi 0 with
  | .returned a n s => .returned (applyPost post a) n s
  | o => o

/-! ### source facts the model mirrors (compared with the generated ones by the bridge) -/

/-- which end of the interval each branch of `if actual_acceleration < acceleration` moves -/
def expectedPoissonUpdate : List (String × String) :=
  [("actual_acceleration<acceleration", "slope_min=slope"), ("else", "slope_max=slope")]

/-- the initial interval: the configured `slopes`, else `0 … max(num_rows, num_cols)` -/
def expectedPoissonInit : List (String × String) :=
  [("self.slopesisnotNone", "slope_min,slope_max=self.slopes"), ("else", "slope_min,slope_max=(0,max(num_rows,num_cols))")]

/-- constructor options reach the places the model assumes: `tol` in both tolerance tests, `max_attempts` as the third
argument of the kernel, `crop_corner` guards the crop that precedes the evaluation of `actual_acceleration` -/
def expectedPoissonOptions : List (String × String) :=
  [("crop_corner", "if:self.crop_corner|mask*=r<1|before:actual_acceleration"),
   ("max_attempts", "_poisson(num_rows,num_cols,self.max_attempts,mask,radius_x,radius_y,seed)"),
   ("tol", "abs(actual_acceleration-acceleration)<self.tol"), ("tol", "abs(actual_acceleration-acceleration)>=self.tol")]

end DirectVerif.MaskBudget
