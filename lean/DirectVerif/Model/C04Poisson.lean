import DirectVerif.Model.Basic
/-!
# C04 — executable model of the Poisson-disc rasteriser `direct/common/_poisson.pyx`

The kernel is modelled statement by statement, with the C semantics of the generated code:

* **floats are exact**: a `float`/`double` value is a dyadic rational `m · 2^e` (`Dy`); `+ − ×` are computed
  exactly and then rounded to nearest-even with 24 / 53 significant bits (`round f32`, `round f64`), `/` is
  rounded directly from the exact quotient (`roundQ`).  Every intermediate of the kernel is rounded where the C
  code rounds it (`cdef float` variables, `float * float`, `float - int`, the `double` sub-expressions).
* **randomness is the recorded libc stream**: `draws` is the list of values `rand()` returns after `srand(seed)`.
* **transcendental functions are data**: the only values not computed here are `cos(t)` and `sin(t)`; they enter
  as a table `(t, cos t, sin t)` in the order of the attempts, and the model checks that the `t` of each row is
  the `t` it computed itself (`Halt.desync` otherwise).
* **memory accesses are checked**: where the compiled kernel (`boundscheck=False`) would read or write outside an
  array the model stops with a `Halt` that names the access.  Which of these can happen and which cannot is what
  `Props/C04.lean` proves.

Nothing here is specific to the Python wrapper (`VariableDensityPoissonMaskFunc.poisson`); the radius tables are
inputs (`double`s as dyadics).
-/
namespace DirectVerif.C04Poisson
open DirectVerif

/-! ## dyadic rationals and IEEE-754 rounding -/

/-- the value `m · 2^e` -/
structure Dy where
  m : Int
  e : Int
deriving Repr, DecidableEq, Inhabited

namespace Dy

def pow2 (k : Nat) : Int := ((1 <<< k : Nat) : Int)

def ofInt (n : Int) : Dy := ⟨n, 0⟩
def ofNat (n : Nat) : Dy := ⟨(n : Int), 0⟩

/-- both mantissas on the smaller of the two exponents -/
def align (x y : Dy) : Int × Int × Int :=
  if x.e ≤ y.e then (x.m, y.m * pow2 (y.e - x.e).toNat, x.e)
  else (x.m * pow2 (x.e - y.e).toNat, y.m, y.e)

/-- exact sum / difference / product -/
def add (x y : Dy) : Dy := let a := align x y; ⟨a.1 + a.2.1, a.2.2⟩
def sub (x y : Dy) : Dy := let a := align x y; ⟨a.1 - a.2.1, a.2.2⟩
def mul (x y : Dy) : Dy := ⟨x.m * y.m, x.e + y.e⟩

def lt (x y : Dy) : Bool := let a := align x y; decide (a.1 < a.2.1)
def veq (x y : Dy) : Bool := let a := align x y; a.1 == a.2.1

/-- `0 ≤ x` -/
def nonneg (x : Dy) : Bool := decide (0 ≤ x.m)

/-- `x < n` for a natural number `n` (the C comparison `float < int`: the int is converted exactly) -/
def ltNat (x : Dy) (n : Nat) : Bool :=
  if 0 ≤ x.e then decide (x.m * pow2 x.e.toNat < (n : Int)) else decide (x.m < (n : Int) * pow2 (-x.e).toNat)

/-- the C cast `(Py_ssize_t) x`: truncation toward zero -/
def trunc (x : Dy) : Int :=
  if 0 ≤ x.e then x.m * pow2 x.e.toNat else Int.tdiv x.m (pow2 (-x.e).toNat)

/-- canonical form: odd mantissa (or `0 · 2^0`) — used only to print values -/
def norm (x : Dy) : Dy :=
  if x.m = 0 then ⟨0, 0⟩ else
    let rec go (fuel : Nat) (m : Int) (e : Int) : Dy :=
      match fuel with
      | 0 => ⟨m, e⟩
      | fuel + 1 => if m % 2 = 0 then go fuel (m / 2) (e + 1) else ⟨m, e⟩
    go (x.m.natAbs.log2 + 1) x.m x.e

end Dy

/-- a binary floating-point format: `p` significant bits, `emin` = exponent of the smallest subnormal step
(overflow is not modelled: every value of the kernel is far below the largest finite number) -/
structure Fmt where
  p : Nat
  emin : Int
deriving Repr, DecidableEq

def f32 : Fmt := ⟨24, -149⟩
def f64 : Fmt := ⟨53, -1074⟩

/-- `a / 2^s` rounded to nearest, ties to even -/
def rshiftRne (a s : Nat) : Nat :=
  if s = 0 then a else
    let q := a >>> s
    let r := a % (1 <<< s)
    let h := 1 <<< (s - 1)
    if h < r ∨ (r = h ∧ q % 2 = 1) then q + 1 else q

/-- round an exact dyadic value to the format (round-to-nearest-even, gradual underflow) -/
def round (f : Fmt) (x : Dy) : Dy :=
  if x.m = 0 then ⟨0, 0⟩ else
    let a := x.m.natAbs
    let top : Int := (a.log2 : Int) + x.e          -- exponent of the leading bit
    let u : Int := max (top - ((f.p : Int) - 1)) f.emin   -- exponent of one unit in the last place
    if u ≤ x.e then x else
      let q := rshiftRne a (u - x.e).toNat
      ⟨if x.m < 0 then -(q : Int) else (q : Int), u⟩

/-- the exact quotient `n / d` (`d > 0`) rounded to the format -/
def roundQ (f : Fmt) (n : Int) (d : Nat) : Dy :=
  if n = 0 ∨ d = 0 then ⟨0, 0⟩ else
    let a := n.natAbs
    let e0 : Int := (a.log2 : Int) - (d.log2 : Int)       -- a / d ∈ (2^(e0-1), 2^(e0+1))
    let ge : Bool := if 0 ≤ e0 then decide (d <<< e0.toNat ≤ a) else decide (d ≤ a <<< (-e0).toNat)
    let top : Int := if ge then e0 else e0 - 1
    let u : Int := max (top - ((f.p : Int) - 1)) f.emin
    let num : Nat := if 0 ≤ u then a else a <<< (-u).toNat
    let den : Nat := if 0 ≤ u then d <<< u.toNat else d
    let q := num / den
    let r := num % den
    let q' := if den < 2 * r ∨ (2 * r = den ∧ q % 2 = 1) then q + 1 else q
    ⟨if n < 0 then -(q' : Int) else (q' : Int), u⟩

/-- `x / y` rounded to the format (`y ≠ 0`) -/
def fdiv (f : Fmt) (x y : Dy) : Dy :=
  let s := x.e - y.e
  let n : Int := if 0 ≤ s then x.m * Dy.pow2 s.toNat else x.m
  let d : Nat := if 0 ≤ s then y.m.natAbs else y.m.natAbs <<< (-s).toNat
  roundQ f (if y.m < 0 then -n else n) d

def fadd (f : Fmt) (x y : Dy) : Dy := round f (Dy.add x y)
def fsub (f : Fmt) (x y : Dy) : Dy := round f (Dy.sub x y)
def fmul (f : Fmt) (x y : Dy) : Dy := round f (Dy.mul x y)

/-! ## the helpers of the kernel -/

/-- `RAND_MAX` of glibc -/
def randMax : Nat := 2147483647

/-- `random_uniform()`: `r / RAND_MAX` in `double` for the drawn `r = rand()` -/
def uniform (r : Nat) : Dy := roundQ f64 (r : Int) randMax

/-- `randint(upper)`: `int(random_uniform() * upper)` -/
def randint (r upper : Nat) : Nat := (Dy.trunc (fmul f64 (uniform r) (Dy.ofNat upper))).toNat

/-- the `double` constant `2.0 * M_PI` -/
def twoPi : Dy := ⟨7074237752028440, -50⟩

/-- `v = random_uniform() + 1` stored in a `float` -/
def vOf (r : Nat) : Dy := round f32 (fadd f64 (uniform r) (Dy.ofInt 1))

/-- `t = 2 * pi * random_uniform()` stored in a `float` -/
def tOf (r : Nat) : Dy := round f32 (fmul f64 twoPi (uniform r))

/-- `q = p + v * r * cos(t)`: `v * r` is a `float` product, the rest is `double`, the result a `float` -/
def candidate (p : Nat) (v r c : Dy) : Dy :=
  round f32 (fadd f64 (Dy.ofNat p) (fmul f64 (fmul f32 v r) c))

/-- `fmax(int(q - r), 0)` -/
def winStart (q r : Dy) : Nat := (Dy.trunc (fsub f32 q r)).toNat

/-- `fmin(int(q + r + 1), n)`: `q + r` is a `float` sum, `+ 1` is done in `double` -/
def winEnd (q r : Dy) (n : Nat) : Nat := min (Dy.trunc (fadd f64 (fadd f32 q r) (Dy.ofInt 1))).toNat n

/-- `((q - x) / radius[x, y]) ** 2`: `q - x` is a `float` difference, the quotient and the square are `double` -/
def term (q : Dy) (x : Nat) (rad : Dy) : Dy :=
  let a := fdiv f64 (fsub f32 q (Dy.ofNat x)) rad
  fmul f64 a a

/-- `distance < 1` for the grid cell `(x, y)`; `distance` is a `float` variable -/
def isNear (qx qy : Dy) (x y : Nat) (radx rady : Dy) : Bool :=
  Dy.lt (round f32 (fadd f64 (term qx x radx) (term qy y rady))) (Dy.ofInt 1)

/-! ## the kernel -/

/-- the inputs of one `poisson(nx, ny, max_attempts, mask, radius_x, radius_y, seed)` call -/
structure Env where
  nx : Nat
  ny : Nat
  maxAttempts : Nat
  rx : Array Dy                   -- `radius_x`, row-major `nx × ny`
  ry : Array Dy
  draws : Array Nat               -- `rand()` values after `srand(seed)`
  trig : Array (Dy × Dy × Dy)     -- `(t, cos t, sin t)` for the attempts, in order

/-- why a run stops before `num_actives` reaches zero -/
inductive Halt where
  | overrun       -- `pxs[num_actives] = …` with `num_actives = nx·ny`: write past the end of the active lists
  | cellOutOfGrid -- `mask[int(qx), int(qy)] = 1` outside the `nx × ny` array
  | readOutOfGrid -- `radius_x[px, py]` for an active point outside the grid
  | badIndex      -- `randint(upper)` returned `upper` (`rand() = RAND_MAX`): `pxs[i]` read past the live entries
  | outOfDraws    -- the recorded `rand()` stream / trig table is too short (harness error)
  | desync        -- a trig row is not for the `t` the model computed (harness error)
  | outOfFuel     -- the outer loop is still running after `fuel` iterations
deriving Repr, DecidableEq

def Halt.name : Halt → String
  | .overrun => "IndexError"
  | .cellOutOfGrid => "CellOutOfGrid"
  | .readOutOfGrid => "ReadOutOfGrid"
  | .badIndex => "BadIndex"
  | .outOfDraws => "OutOfDraws"
  | .desync => "Desync"
  | .outOfFuel => "Timeout"

/-- one attempt as the bookkeeping sees it -/
structure Att where
  inGrid : Bool          -- `qx >= 0 and qx < nx and qy >= 0 and qy < ny`
  cx : Nat               -- `int(qx)`
  cy : Nat               -- `int(qy)`
  near : List Nat        -- flat indices `x·ny + y` of the window cells with `distance < 1`
deriving Repr

/-- `done` after the attempt: on the grid and no sampled cell of the window is near -/
def Att.ok (mask : Array Bool) (a : Att) : Bool := a.inGrid && a.near.all fun k => !(mask.getD k false)

/-- `qx >= 0 and qx < nx and qy >= 0 and qy < ny` -/
def inGridTest (qx qy : Dy) (nx ny : Nat) : Bool := qx.nonneg && qx.ltNat nx && qy.nonneg && qy.ltNat ny

/-- the float part of one attempt for the active point `(px, py)`, the draw behind `v` and the trig row of `t` -/
def attempt (env : Env) (px py r1 : Nat) (c s : Dy) : Att :=
  let rx := round f32 (env.rx.getD (px * env.ny + py) default)
  let ry := round f32 (env.ry.getD (px * env.ny + py) default)
  let v := vOf r1
  let qx := candidate px v rx c
  let qy := candidate py v ry s
  let inGrid := inGridTest qx qy env.nx env.ny
  if inGrid then
    let sx := winStart qx rx
    let ex := winEnd qx rx env.nx
    let sy := winStart qy ry
    let ey := winEnd qy ry env.ny
    let near := (List.range (ex - sx)).flatMap fun dx =>
      ((List.range (ey - sy)).filter fun dy =>
        isNear qx qy (sx + dx) (sy + dy) (env.rx.getD ((sx + dx) * env.ny + (sy + dy)) default)
          (env.ry.getD ((sx + dx) * env.ny + (sy + dy)) default)).map fun dy => (sx + dx) * env.ny + (sy + dy)
    { inGrid := true, cx := (Dy.trunc qx).toNat, cy := (Dy.trunc qy).toNat, near := near }
  else { inGrid := false, cx := 0, cy := 0, near := [] }

/-- state of the outer loop (the counters after `att` are ghost statistics) -/
structure St where
  mask : Array Bool
  acts : Array (Nat × Nat)     -- `pxs[:num_actives], pys[:num_actives]`
  pos : Nat                    -- `rand()` calls so far
  att : Nat                    -- attempts so far (= trig rows consumed)
  iters : Nat                  -- outer iterations
  accepts : Nat
  removals : Nat
  stale : Nat                  -- accepted candidates whose cell was already sampled
  maxna : Nat                  -- largest `num_actives` seen
deriving Repr

/-- the attempt loop `while not done and k < max_attempts` with `k` attempts left: the accepted cell (if any)
and the advanced `rand()` / attempt counters -/
def attempts (env : Env) (mask : Array Bool) (px py : Nat) :
    (k : Nat) → (pos att : Nat) → Except Halt (Option (Nat × Nat) × Nat × Nat)
  | 0, pos, att => .ok (none, pos, att)
  | k + 1, pos, att =>
    match env.draws[pos]?, env.draws[pos + 1]?, env.trig[att]? with
    | some r1, some r2, some (t, c, s) =>
      if !(Dy.veq t (tOf r2)) then .error .desync else
      let a := attempt env px py r1 c s
      if a.ok mask then .ok (some (a.cx, a.cy), pos + 2, att + 1)
      else attempts env mask px py k (pos + 2) (att + 1)
    | _, _, _ => .error .outOfDraws

/-- `if done: … else: …` at the end of an outer iteration for the chosen active index `i` -/
def bookkeep (env : Env) (st : St) (i : Nat) (outcome : Option (Nat × Nat)) (pos att : Nat) : Except Halt St :=
  match outcome with
  | some (cx, cy) =>
    if env.nx * env.ny ≤ st.acts.size then .error .overrun
    else if ¬ (cx < env.nx ∧ cy < env.ny) then .error .cellOutOfGrid
    else
      let k := cx * env.ny + cy
      .ok { mask := st.mask.setIfInBounds k true, acts := st.acts.push (cx, cy), pos := pos, att := att,
            iters := st.iters + 1, accepts := st.accepts + 1, removals := st.removals,
            stale := st.stale + (if st.mask.getD k false then 1 else 0),
            maxna := max st.maxna (st.acts.size + 1) }
  | none =>
    -- `num_actives -= 1; pxs[i] = pxs[num_actives]; pys[i] = pys[num_actives]`
    .ok { st with acts := (st.acts.setIfInBounds i (st.acts.getD (st.acts.size - 1) (0, 0))).pop, pos := pos, att := att,
                  iters := st.iters + 1, removals := st.removals + 1 }

/-- one iteration of `while num_actives > 0` (for `num_actives > 0`) -/
def step (env : Env) (st : St) : Except Halt St :=
  match env.draws[st.pos]? with
  | none => .error .outOfDraws
  | some r =>
    let i := randint r st.acts.size
    if st.acts.size ≤ i then .error .badIndex else
    let p := st.acts.getD i (0, 0)
    if ¬ (p.1 < env.nx ∧ p.2 < env.ny) then .error .readOutOfGrid else
    match attempts env st.mask p.1 p.2 env.maxAttempts (st.pos + 1) st.att with
    | .error h => .error h
    | .ok (outcome, pos, att) => bookkeep env st i outcome pos att

/-- how a run ended: `halt = none` when the loop ended with `num_actives = 0`; `st` is the state at that point -/
structure Outcome where
  halt : Option Halt
  st : St
deriving Repr

/-- `while num_actives > 0` with at most `fuel` iterations -/
def run (env : Env) : (fuel : Nat) → St → Outcome
  | 0, st => ⟨if st.acts.size = 0 then none else some .outOfFuel, st⟩
  | fuel + 1, st =>
    if st.acts.size = 0 then ⟨none, st⟩ else
    match step env st with
    | .error h => ⟨some h, st⟩
    | .ok st' => run env fuel st'

def blank : St :=
  { mask := #[], acts := #[], pos := 0, att := 0, iters := 0, accepts := 0, removals := 0, stale := 0, maxna := 0 }

/-- state after `pxs[0] = randint(nx); pys[0] = randint(ny); num_actives = 1` (the initial point is *not*
marked in the mask) -/
def init (env : Env) : Except Halt St :=
  match env.draws[0]?, env.draws[1]? with
  | some r0, some r1 =>
    let px := randint r0 env.nx
    let py := randint r1 env.ny
    if ¬ (px < env.nx ∧ py < env.ny) then .error .badIndex else
    .ok { mask := Array.replicate (env.nx * env.ny) false, acts := #[(px, py)], pos := 2, att := 0, iters := 0,
          accepts := 0, removals := 0, stale := 0, maxna := 1 }
  | _, _ => .error .outOfDraws

/-- the whole call: how it ended and the final state (mask, counters) -/
def kernel (env : Env) (fuel : Nat) : Outcome :=
  match init env with
  | .error h => ⟨some h, blank⟩
  | .ok st => run env fuel st

/-! ## the statements of `poisson` this file models, as located text (compared with the current `.pyx` by
`Bridge.C04.pyx_facts_eq`; `_f32(…)` marks an assignment to a `cdef float` variable) -/

def pyxFacts : List (String × String) :=
  [("srand", "srand(seed)"),
   ("capacity", "pxs=np.empty(nx*ny,dtype=int);pys=np.empty(nx*ny,dtype=int)"),
   ("init", "pxs[0]=randint(nx);pys[0]=randint(ny);num_actives=1"),
   ("select", "i=randint(num_actives);px=pxs[i];py=pys[i];rx=_f32(radius_x[px,py]);ry=_f32(radius_y[px,py]);done=False;k=0"),
   ("attempt", "v=_f32(random_uniform()+1);t=_f32(2*pi*random_uniform());qx=_f32(px+v*rx*cos(t));qy=_f32(py+v*ry*sin(t));k=k+1"),
   ("window", "startx=fmax(int(qx-rx),0);endx=fmin(int(qx+rx+1),nx);starty=fmax(int(qy-ry),0);endy=fmin(int(qy+ry+1),ny);done=True"),
   ("loops", "forxinrange(startx,endx);foryinrange(starty,endy)"),
   ("distance", "distance=_f32(((qx-x)/radius_x[x,y])**2+((qy-y)/radius_y[x,y])**2)"),
   ("conflict", "mask[x,y]==1anddistance<1=>done=False;break"),
   ("accept", "pxs[num_actives]=int(qx);pys[num_actives]=int(qy);mask[pxs[num_actives],pys[num_actives]]=1;num_actives=num_actives+1"),
   ("remove", "num_actives=num_actives-1;pxs[i]=pxs[num_actives];pys[i]=pys[num_actives]"),
   ("random_uniform", "r=float(rand());returnr/RAND_MAX"),
   ("randint", "returnint(random_uniform()*upper)")]

end DirectVerif.C04Poisson
