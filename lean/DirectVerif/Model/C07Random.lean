import DirectVerif.Model.MaskBudget
/-!
# C07 — random line masks: frames of a dynamic / multislice call, and an explicit finite-uniform draw model

`RandomMaskFunc.mask_func`:
```
for i in range(num_slc_or_time):
    prob = (num_cols / acceleration - num_low_freqs) / (num_cols - num_low_freqs)
    mask[i] = mask[i] | (self.rng.uniform(size=num_cols) < prob)
```
Every frame has the same ACS block and the same probability and its own draw vector.

The statement "in expectation over seeds" is made a theorem about the model under an explicit draw model: every draw
is uniform on the grid `{0, 1/k, …, (k−1)/k}` (numpy's `random_sample` is `j / 2^53` with `j` a 53-bit integer), the
columns are independent: the average of the realised count over **all** `k^N` draw vectors (`allDraws`).
-/
namespace DirectVerif.MaskBudget

/-- frames of a dynamic / multislice call -/
def randomFrames (N L : Int) (prob : Rat) (uss : List (List Rat)) : List (List Bool) :=
  uss.map (randomMask N L prob)

/-- number of non-ACS columns whose draw is below `prob` -/
def randomHits (N L : Int) (prob : Rat) (us : List Rat) : Nat :=
  (List.range N.toNat).countP fun (i : Nat) => !inAcs N L (i : Int) && decide (us.getD i 1 < prob)

/-- all draw vectors of length `n` over the grid indices `0 … k−1` -/
def allDraws (k : Nat) : Nat → List (List Nat)
  | 0 => [[]]
  | n + 1 => (List.range k).flatMap fun j => (allDraws k n).map (j :: ·)

/-- the uniforms of a grid vector: `j / k` -/
def gridUs (k : Nat) (v : List Nat) : List Rat := v.map fun (j : Nat) => (j : Rat) / (k : Rat)

/-- number of grid values below `p` -/
def gridBelow (k : Nat) (p : Rat) : Nat := (List.range k).countP fun (j : Nat) => decide ((j : Rat) / (k : Rat) < p)

/-- sum of the realised counts over all `k^N` draw vectors -/
def randomTotal (N L : Int) (p : Rat) (k : Nat) : Nat :=
  ((allDraws k N.toNat).map fun v => countTrue (randomMask N L p (gridUs k v))).sum

/-- the call-level glue of the line generators: which (centre fraction, acceleration) pair the call uses and what it
turns into — `ls[i]` is `num_low_freqs` of pair `i` (float glue `int(round(num_cols * cf))` / `int(cf)`, computed by the
caller) -/
def choosePair (uniformRange : Bool) (accs : List Rat) (ls : List Int) (choice : Nat) : Except String (Rat × Int) :=
  if uniformRange then .error "NotImplementedError" else
  match accs[choice]?, ls[choice]? with
  | some r, some l => .ok (r, l)
  | _, _ => .error "IndexError"

end DirectVerif.MaskBudget
