import DirectVerif.Model.MaskGeom
/-!
# C06 — the integer type the geometry helpers compute in

`centered_disk_mask` and `circular_centered_mask` compare `(X − cx)² + (Y − cy)²` with `radius²` on index grids.
`Model/MaskGeom.lean` (`inDisk`, `inDiskLe`) computes in ℤ; numpy / torch compute in the dtype of the grids.  With the
default (64-bit signed) grids the two agree for every k-space size; with a narrow or unsigned dtype the squared
distance wraps (`uint16`: modulo 65536, i.e. as soon as the half-diagonal reaches 256 samples).  The translator lists
every index-grid constructor and every explicit dtype / cast in the helpers with its class; `gridDtypesOk` is decided
on that table in `Bridge/C06.lean`.
-/
namespace DirectVerif.C06Grid
open DirectVerif DirectVerif.MaskGeom

/-- classes under which integer index arithmetic is exact for all realistic sizes (`unknown` / `inherit`: not judged) -/
def dtypeClassOk (c : String) : Bool := c != "narrow-int" && c != "narrow-float"

def gridDtypesOk (rows : List (String × String × String)) : Bool := rows.all fun r => dtypeClassOk r.2.2

/-- `centered_disk_mask` evaluated in an unsigned `bits`-bit integer type (numpy wraps every intermediate) -/
def inDiskWrapped (bits rows cols : Nat) (radius : Int) (x y : Nat) : Bool :=
  let m : Int := 2 ^ bits
  let dx := ((x : Int) - (rows / 2 : Nat)) % m
  let dy := ((y : Int) - (cols / 2 : Nat)) % m
  decide ((((dx * dx) % m + (dy * dy) % m) % m) < sq radius)

end DirectVerif.C06Grid
