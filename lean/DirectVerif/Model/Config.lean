/-!
# C20 — typed configuration schema, YAML trees, OmegaConf structured merge, name resolution

Import-free, total, executable.  Everything is over `Nat`/`Int`/`Bool`/`List` only (no `String`), so that
`decide +kernel` evaluates the checks on the generated tables quickly:

* strings are *interned*: a `Sym` is the index of the string in the generated symbol table
  (`Gen.C20.symbols`), equality of strings is equality of indices;
* where the code computes with the characters of a string (`model_name.split(".")`, `.lower()`,
  `name + "Config"`), the string is a `Str = List Nat` of code points.

`validate` mirrors what `OmegaConf.merge(OmegaConf.structured(Cls), yaml_tree)` accepts and rejects
(OmegaConf 2.3 — determined by experiment, tied on every run by the correspondence check):

  int    <- int | int-like str                      (bool, float rejected)
  float  <- int | float | float-like str             (bool rejected)
  bool   <- bool | int | int-like or bool-word str   (float rejected)
  str    <- any scalar                               (containers rejected)
  enum   <- member *name* (case-sensitive) or `Cls.NAME`, or an int that is a member value
  Any    <- anything
  List[T]<- a list; scalar elements validated against T, container elements pass unchecked (sic)
  Optional[T] <- null | T ;  non-optional <- null is rejected
  dataclass <- a map; unknown key -> ConfigKeyError; values validated recursively
  `???` (MISSING) leaves the destination untouched, always accepted
-/
namespace DirectVerif.Config

abbrev Sym := Nat
abbrev Str := List Nat

/-- A parsed YAML tree (what `OmegaConf.load` + `to_container(resolve=False)` returns). -/
inductive Val where
  | null
  | missing                                  -- the literal `???`
  | int (i : Int)
  | float (repr : Sym)
  | bool (b : Bool)
  /-- `kind` is a bit mask: 1 = `int(s)` succeeds, 2 = `float(s)` succeeds, 4 = one of OmegaConf's bool words -/
  | str (s : Sym) (kind : Nat)
  | list (xs : List Val)
  | map (kvs : List (Sym × Val))
deriving Repr, Inhabited

/-- A typed schema (generated from the dataclasses by introspection). A `struct` field carries its default value. -/
inductive Ty where
  | int | float | bool | str | any
  | enum (names : List Sym) (intVals : List Int)
  | list (elem : Ty)
  | optional (t : Ty)
  | struct (cls : Sym) (fields : List (Sym × Ty × Val))
deriving Repr, Inhabited

/-- Error classes, named after the exception the real code raises. -/
inductive Err where
  | validationError        -- omegaconf.errors.ValidationError
  | configKeyError         -- omegaconf.errors.ConfigKeyError (unknown key)
  | configTypeError        -- omegaconf.errors.ConfigTypeError (map merged into list)
  | configAttributeError   -- omegaconf.errors.ConfigAttributeError (missing key accessed on the file)
  | missingMandatoryValue  -- omegaconf.errors.MissingMandatoryValue
  | systemExit             -- `sys.exit(-1)` after a failed model / config / engine lookup
  | attributeError         -- raw AttributeError of `str_to_class`
  | valueError             -- `extract_names`: no `name`
  | typeError              -- unexpected / missing keyword argument
  | syntaxError            -- `ast.parse` of an operator string
deriving Repr, DecidableEq, Inhabited

abbrev Res := Except Err Unit

instance : DecidableEq Res := fun a b =>
  match a, b with
  | .ok (), .ok () => isTrue rfl
  | .error x, .error y => if h : x = y then isTrue (h ▸ rfl) else isFalse (fun e => h (by cases e; rfl))
  | .ok (), .error _ => isFalse (fun e => by cases e)
  | .error _, .ok () => isFalse (fun e => by cases e)

def Res.isOk : Res → Bool
  | .ok _ => true
  | .error _ => false

/-! ## association lists -/

def lookup {β} (k : Sym) : List (Sym × β) → Option β
  | [] => none
  | (k', v) :: rest => if k' = k then some v else lookup k rest

def Val.get? (v : Val) (k : Sym) : Option Val :=
  match v with
  | .map kvs => lookup k kvs
  | _ => none

def Val.isContainer : Val → Bool
  | .list _ => true
  | .map _ => true
  | _ => false

def Ty.isOptional : Ty → Bool
  | .optional _ => true
  | .any => true
  | _ => false

/-- Validation of a scalar node against a primitive type (the `_validate_and_convert` of the OmegaConf value nodes). -/
def validateScalar (ty : Ty) (v : Val) : Res :=
  match ty, v with
  | _, .missing => .ok ()
  | .any, _ => .ok ()
  | .int, .int _ => .ok ()
  | .int, .str _ k => if k % 2 = 1 then .ok () else .error .validationError
  | .float, .int _ => .ok ()
  | .float, .float _ => .ok ()
  | .float, .str _ k => if k / 2 % 2 = 1 then .ok () else .error .validationError
  | .bool, .bool _ => .ok ()
  | .bool, .int _ => .ok ()
  | .bool, .str _ k => if k % 2 = 1 ∨ k / 4 % 2 = 1 then .ok () else .error .validationError
  | .str, .int _ => .ok ()
  | .str, .float _ => .ok ()
  | .str, .bool _ => .ok ()
  | .str, .str _ _ => .ok ()
  | .enum names _, .str s _ => if names.contains s then .ok () else .error .validationError
  | .enum _ vals, .int i => if vals.contains i then .ok () else .error .validationError
  | _, _ => .error .validationError

/-- strip `Optional[...]` -/
def Ty.core : Ty → Ty
  | .optional t => t.core
  | t => t

/-- a list merged into a dataclass-typed field whose current value is `None` (an `Optional[...] = None` field) is a
`ConfigTypeError`; into a field that holds an instance it is a `ValidationError` (both are rejections) -/
def listIntoNoneStruct (t : Ty) (d : Val) (v : Val) : Bool :=
  match v, t.core, d with
  | .list _, .struct _ _, .null => true
  | _, _, _ => false

mutual
/-- `OmegaConf.merge(structured(ty), v)` succeeds?  Structural recursion on the value. -/
def validate (ty : Ty) (v : Val) : Res :=
  match v with
  | .missing => .ok ()
  | .null => if ty.isOptional then .ok () else .error .validationError
  | .map kvs =>
    match ty.core with
    | .any => .ok ()
    | .struct _ fields => validateKVs fields kvs
    | .list _ => .error .configTypeError
    | _ => .error .validationError
  | .list xs =>
    match ty.core with
    | .any => .ok ()
    | .list e => validateElems e xs
    | _ => .error .validationError
  | .int i => validateScalar ty.core (.int i)
  | .float r => validateScalar ty.core (.float r)
  | .bool b => validateScalar ty.core (.bool b)
  | .str s k => validateScalar ty.core (.str s k)
termination_by structural v

/-- every key must be a declared field; the value is validated against the field's type -/
def validateKVs (fields : List (Sym × Ty × Val)) (kvs : List (Sym × Val)) : Res :=
  match kvs with
  | [] => .ok ()
  | (k, v) :: rest =>
    match lookup k fields with
    | none => .error .configKeyError
    | some (t, d) =>
      if listIntoNoneStruct t d v then .error .configTypeError else
      match validate t v with
      | .ok () => validateKVs fields rest
      | .error e => .error e
termination_by structural kvs

/-- list elements: containers are appended unchecked by OmegaConf's list merge; `null` needs an optional element type -/
def validateElems (e : Ty) (xs : List Val) : Res :=
  match xs with
  | [] => .ok ()
  | x :: rest =>
    match x with
    | .list _ => validateElems e rest
    | .map _ => validateElems e rest
    | x =>
      match validate e x with
      | .ok () => validateElems e rest
      | .error err => .error err
termination_by structural xs
end

/-! ## effective value after the merge (file value, else the schema default) -/

/-- value found at `path` after merging `v?` (what the file gives here, if anything) over `dflt`. -/
def effective (dflt : Val) (v? : Option Val) : List Sym → Val
  | [] =>
    match v? with
    | some .missing => dflt
    | some v => v
    | none => dflt
  | k :: ks =>
    match v? with
    | some (.map kvs) => effective ((dflt.get? k).getD .missing) (lookup k kvs) ks
    | some .missing => effective ((dflt.get? k).getD .missing) none ks
    | some _ => .missing      -- a scalar / null has no children
    | none => effective ((dflt.get? k).getD .missing) none ks

/-- default value (as a tree) of a struct type: the map of its field defaults -/
def Ty.defaultVal : Ty → Val
  | .struct _ fields => .map (fields.map fun (k, _, d) => (k, d))
  | .optional t => t.defaultVal
  | _ => .missing

/-! ## `dict_flatten`: the leaf keys of a nested map (intermediate keys are dropped) -/

mutual
/-- contribution of one entry `k: v`: the leaf keys below `v` when it is a map, else `k` itself -/
def flattenEntry (k : Sym) (v : Val) : List Sym :=
  match v with
  | .map kvs => flattenKVs kvs
  | _ => [k]
termination_by structural v
def flattenKVs (kvs : List (Sym × Val)) : List Sym :=
  match kvs with
  | [] => []
  | (k, v) :: rest => flattenEntry k v ++ flattenKVs rest
termination_by structural kvs
end

def flattenKeys : Val → List Sym
  | .map kvs => flattenKVs kvs
  | _ => []

/-- the flattened keys of a *schema* (struct fields are descended into, like their default maps) -/
def schemaLeafKeys : Nat → Ty → List Sym
  | 0, _ => []
  | fuel + 1, .struct _ fields =>
    fields.flatMap fun (k, t, _) =>
      match t with
      | .struct _ _ => schemaLeafKeys fuel t
      | .optional (.struct c f) => schemaLeafKeys fuel (.struct c f)
      | _ => [k]
  | _, _ => []

def removeKey (k : Sym) : List (Sym × Val) → List (Sym × Val)
  | [] => []
  | (k', v) :: rest => if k' = k then removeKey k rest else (k', v) :: removeKey k rest

/-! ## Name resolution (string arithmetic of `load_model_from_name`, `load_model_config_from_name`, `setup_engine`) -/

def dot : Nat := 46

/-- `s.split(".")` -/
def splitDot : Str → List Str
  | [] => [[]]
  | c :: cs =>
    match splitDot cs with
    | [] => [[]]          -- unreachable
    | w :: ws => if c = dot then [] :: w :: ws else (c :: w) :: ws

/-- ASCII `.lower()` (all names in the repository are ASCII; other code points are left alone) -/
def lowerChar (c : Nat) : Nat := if 65 ≤ c ∧ c ≤ 90 then c + 32 else c
def lower (s : Str) : Str := s.map lowerChar

/-- `".".join(parts)` -/
def joinDot : List Str → Str
  | [] => []
  | [w] => w
  | w :: ws => w ++ dot :: joinDot ws

def strConfig : Str := [67, 111, 110, 102, 105, 103]                       -- "Config"
def strEngine : Str := [69, 110, 103, 105, 110, 101]                       -- "Engine"
def strEngineMod : Str := [95, 101, 110, 103, 105, 110, 101]               -- "_engine"
def strDirectNn : Str := [100, 105, 114, 101, 99, 116, 46, 110, 110, 46]   -- "direct.nn."
def strDotConfig : Str := [46, 99, 111, 110, 102, 105, 103]                -- ".config"
def strMaskFunc : Str := [77, 97, 115, 107, 70, 117, 110, 99]              -- "MaskFunc"
def strDataset : Str := [68, 97, 116, 97, 115, 101, 116]                   -- "Dataset"

/-- module / attribute of the model class: `direct.nn.<lowercased all-but-last>` , `<last>` -/
def modelTarget (modelName : Str) : Str × Str :=
  let parts := splitDot modelName
  (strDirectNn ++ joinDot (parts.dropLast.map lower), parts.getLast?.getD [])

/-- module / attribute of the model's config class, as `load_model_config_from_name` computes them:
`direct.nn.<first.lower()>.config`, and the last dotted component of `model_name + "Config"` -/
def modelConfigTarget (modelName : Str) : Str × Str :=
  (strDirectNn ++ lower ((splitDot modelName).headD []) ++ strDotConfig,
   (splitDot (modelName ++ strConfig)).getLast?.getD [])

/-- module / attribute of the engine class; `engineName = none` when the config leaves it null or empty -/
def engineTarget (modelName : Str) (engineName : Option Str) : Str × Str :=
  let short := (splitDot modelName).headD []
  (strDirectNn ++ lower short ++ dot :: lower short ++ strEngineMod,
   match engineName with
   | some e => e
   | none => (splitDot modelName).getLast?.getD [] ++ strEngine)

def strModDatasetsConfig : Str := [100, 105, 114, 101, 99, 116, 46, 100, 97, 116, 97, 46, 100, 97, 116, 97, 115, 101, 116, 115, 95, 99, 111, 110, 102, 105, 103]   -- "direct.data.datasets_config"
def strModDatasets : Str := [100, 105, 114, 101, 99, 116, 46, 100, 97, 116, 97, 46, 100, 97, 116, 97, 115, 101, 116, 115]         -- "direct.data.datasets"
def strModSubsample : Str := [100, 105, 114, 101, 99, 116, 46, 99, 111, 109, 109, 111, 110, 46, 115, 117, 98, 115, 97, 109, 112, 108, 101]        -- "direct.common.subsample"
def strModTransforms : Str := [100, 105, 114, 101, 99, 116, 46, 100, 97, 116, 97, 46, 116, 114, 97, 110, 115, 102, 111, 114, 109, 115]       -- "direct.data.transforms"
def strModFunctionals : Str := [100, 105, 114, 101, 99, 116, 46, 102, 117, 110, 99, 116, 105, 111, 110, 97, 108, 115]      -- "direct.functionals"

/-- `load_dataset_config(name)`: `direct.data.datasets_config.<name>Config` -/
def datasetConfigTarget (name : Str) : Str × Str := (strModDatasetsConfig, name ++ strConfig)
/-- `build_dataset(name)`: `direct.data.datasets.<name>Dataset` -/
def datasetClassTarget (name : Str) : Str × Str := (strModDatasets, name ++ strDataset)
/-- `build_masking_function(name)`: `direct.common.subsample.<name>MaskFunc` -/
def maskFuncTarget (name : Str) : Str × Str := (strModSubsample, name ++ strMaskFunc)
/-- `build_operators`: `str_to_class("direct.data.transforms", <operator string>)` -/
def operatorTarget (op : Str) : Str × Str := (strModTransforms, op)
/-- `Engine._build_function_class(names, "direct.functionals", …)` -/
def functionalTarget (fn : Str) : Str × Str := (strModFunctionals, fn)

/-! Strings in the generated tables are *packed* into one natural number each (code points as digits in base 2^21,
first character lowest), so that a table of a thousand names is a thousand numerals; computed names are packed before
the lookup and compared as numbers. -/
def packBase : Nat := 2097152
def pack : Str → Nat
  | [] => 0
  | c :: cs => c + packBase * pack cs
def unpackAux : Nat → Nat → Str
  | 0, _ => []
  | fuel + 1, n => if n = 0 then [] else (n % packBase) :: unpackAux fuel (n / packBase)
def unpack (n : Nat) : Str := unpackAux (n.log2 / 21 + 1) n

abbrev PStr := Nat

/-- the importable modules and their attributes (generated by importing the live package), packed -/
abbrev ModuleTable := List (PStr × List PStr)

def lookupP {β} (k : PStr) : List (PStr × β) → Option β
  | [] => none
  | (k', v) :: rest => if k' = k then some v else lookupP k rest

/-- `str_to_class(module, attr)` succeeds -/
def resolves (mods : ModuleTable) (target : Str × Str) : Bool :=
  match lookupP (pack target.1) mods with
  | none => false
  | some attrs => attrs.contains (pack target.2)

/-- operator strings such as `fft2(centered=False)`: the attribute looked up is the text before `(` -/
def callHead : Str → Str
  | [] => []
  | c :: cs => if c = 40 then [] else c :: callHead cs

/-! ## The tables the checks run against (all generated) -/

structure Tables where
  symbols : List PStr                                  -- Sym -> packed code points
  modules : ModuleTable
  /-- config classes: (module, class) -> schema -/
  schemas : List ((PStr × PStr) × Ty)
  defaultConfig : Ty                                   -- DefaultConfig
  training : Ty
  validation : Ty
  inference : Ty                                       -- InferenceConfig (dataset field = DatasetConfig)
  builderParams : List Sym                             -- parameters of build_mri_transforms
  builderVarKw : Bool                                  -- ... and whether it takes **kwargs
  maskBuilderRequired : List Sym                       -- parameters of build_masking_function without default
  /-- well-known keys -/
  kModel : Sym
  kAdditionalModels : Sym
  kModels : Sym
  kTraining : Sym
  kValidation : Sym
  kInference : Sym
  kDatasets : Sym
  kDataset : Sym
  kName : Sym
  kModelName : Sym
  kEngineName : Sym
  kTransforms : Sym
  kMasking : Sym
  kPhysics : Sym
  kForward : Sym
  kBackward : Sym

def Tables.strOf (t : Tables) (s : Sym) : Str := unpack (t.symbols.getD s 0)

def lookupSchema (t : Tables) (target : Str × Str) : Option Ty :=
  (t.schemas.find? fun e => e.1.1 = pack target.1 ∧ e.1.2 = pack target.2).map (·.2)

/-- string payload of a value, as code points (`none` for non-strings) -/
def Val.strOf? (t : Tables) : Val → Option Str
  | .str s _ => some (t.strOf s)
  | _ => none

/-! ### model blocks: `load_models_into_environment_config` -/

/-- one model block: `model_name` present, model class and config class resolve, block merges into the config class -/
def checkModelBlock (t : Tables) (block : Val) : Res :=
  match block.get? t.kModelName with
  | none => .error .systemExit
  | some nameV =>
    match nameV.strOf? t with
    | none => .error .attributeError        -- `.split` on a non-string
    | some name =>
      if !resolves t.modules (modelTarget name) then .error .systemExit else
      match lookupSchema t (modelConfigTarget name) with
      | none => .error .systemExit
      | some ty => validate ty block

def checkModelBlocks (t : Tables) : List (Sym × Val) → Res
  | [] => .ok ()
  | (_, b) :: rest =>
    match checkModelBlock t b with
    | .ok () => checkModelBlocks t rest
    | .error e => .error e

/-- schema of the model block of a file (after the block itself was accepted) -/
def modelSchema (t : Tables) (block : Val) : Option Ty :=
  match block.get? t.kModelName with
  | some (.str s _) => lookupSchema t (modelConfigTarget (t.strOf s))
  | _ => none

/-! ### the key loop of `setup_common_environment` -/

/-- `extract_names` on one dataset block + `load_dataset_config` -/
def datasetSchema (t : Tables) (block : Val) : Except Err Ty :=
  match block with
  | .map kvs =>
    match lookup t.kName kvs with
    | none => .error .valueError
    | some (.str s _) =>
      match lookupSchema t (datasetConfigTarget (t.strOf s)) with
      | some ty => .ok ty
      | none => .error .attributeError
    | some _ => .error .typeError        -- `name + "Config"` on a non-string
  | _ => .error .valueError

def datasetsResolve (t : Tables) : List Val → Res
  | [] => .ok ()
  | b :: rest =>
    match datasetSchema t b with
    | .ok _ => datasetsResolve t rest
    | .error e => .error e

/-- replace the type (and default) of field `k` of a struct type -/
def Ty.withField (ty : Ty) (k : Sym) (ft : Ty) : Ty :=
  match ty with
  | .struct c fields => .struct c (fields.map fun (k', t', d') => if k' = k then (k', ft, ft.defaultVal) else (k', t', d'))
  | t => t

def Val.isFalsy : Val → Bool
  | .null => true
  | .map [] => true
  | .list [] => true
  | _ => false

/-- `cfg[key] = OmegaConf.merge(cfg[key], file[key])`: a top-level merge of a list into a dataclass node is a
`ConfigTypeError` (nested, the same mistake is a `ValidationError`) -/
def mergeTop (ty : Ty) (v : Val) : Res :=
  match v, ty.core with
  | .list _, .struct _ _ => .error .configTypeError
  | _, _ => validate ty v

/-- one iteration of `for key in cfg_from_external_source` -/
def checkTopKey (t : Tables) (_file : Val) (k : Sym) (v : Val) : Res :=
  if k = t.kModels ∨ k = t.kAdditionalModels then .ok () else
  if k = t.kTraining ∨ k = t.kValidation then
    if v.isFalsy then .ok () else
    match v.get? t.kDatasets with
    | none => .error .configAttributeError
    | some (.list ds) =>
      match datasetsResolve t ds with
      | .error e => .error e
      | .ok () => validate (if k = t.kTraining then t.training else t.validation) v
    | some _ => .error .valueError
  else if k = t.kInference then
    if v.isFalsy then .ok () else
    match v.get? t.kDataset with
    | none => .error .configAttributeError
    | some d =>
      match datasetSchema t d with
      | .error e => .error e
      | .ok dty => validate (t.inference.withField t.kDataset dty) v
  else if k = t.kModel then
    match modelSchema t v with
    | some ty => mergeTop ty v
    | none => .error .systemExit
  else
    match t.defaultConfig with
    | .struct _ fields =>
      match lookup k fields with
      | none => .error .configKeyError
      | some (ty, _) => mergeTop ty v
    | _ => .error .configKeyError

def checkTopKeys (t : Tables) (file : Val) : List (Sym × Val) → Res
  | [] => .ok ()
  | (k, v) :: rest =>
    match checkTopKey t file k v with
    | .ok () => checkTopKeys t file rest
    | .error e => .error e

/-- the blocks handed to `load_models_into_environment_config`: `model`, then the additional models -/
def modelBlocks (t : Tables) (file : Val) : Except Err (List (Sym × Val)) :=
  match file.get? t.kModel with
  | none => .error .configAttributeError
  | some m =>
    match file.get? t.kAdditionalModels with
    | some (.map kvs) => .ok ((t.kModel, m) :: kvs)
    | _ => .ok [(t.kModel, m)]

/-- merge stage = everything `setup_common_environment` does before `build_operators` -/
def mergeCheck (t : Tables) (file : Val) : Res :=
  match file with
  | .map kvs =>
    match modelBlocks t file with
    | .error e => .error e
    | .ok blocks =>
      match checkModelBlocks t blocks with
      | .error e => .error e
      | .ok () => checkTopKeys t file kvs
  | _ => .error .configAttributeError

/-! ### operators and engine -/

def physicsDefault (t : Tables) : Val :=
  match t.defaultConfig with
  | .struct _ fields => ((lookup t.kPhysics fields).map (·.2)).getD .missing
  | _ => .missing

def operatorResolves (t : Tables) (file : Val) (k : Sym) : Res :=
  match effective (physicsDefault t) (file.get? t.kPhysics) [k] with
  | .str s _ => if resolves t.modules ((operatorTarget (t.strOf s)).1, callHead (operatorTarget (t.strOf s)).2) then .ok () else .error .attributeError
  | _ => .error .typeError

def operatorsCheck (t : Tables) (file : Val) : Res :=
  match operatorResolves t file t.kForward with
  | .ok () => operatorResolves t file t.kBackward
  | .error e => .error e

/-- `setup_engine`: the engine class must exist (instantiation is outside the model) -/
def engineCheck (t : Tables) (file : Val) : Res :=
  match file.get? t.kModel with
  | some m =>
    match m.get? t.kModelName with
    | some (.str s _) =>
      let eng : Option Str :=
        match m.get? t.kEngineName with
        | some (.str e _) => if t.strOf e = [] then none else some (t.strOf e)
        | _ => none
      if resolves t.modules (engineTarget (t.strOf s) eng) then .ok () else .error .systemExit
    | _ => .error .systemExit
  | none => .error .configAttributeError

/-! ### dataset blocks: masking function and transform builder -/

/-- `build_masking_function(**masking)` can be *called*: name filled and resolvable, required parameters present -/
def maskingCheck (t : Tables) (masking : Val) : Res :=
  match masking with
  | .null => .ok ()
  | .map kvs =>
    match lookup t.kName kvs with
    | none => .error .typeError
    | some .missing => .error .missingMandatoryValue
    | some (.str s _) =>
      if !(t.maskBuilderRequired.all fun p => (lookup p kvs).isSome) then .error .typeError else
      if resolves t.modules (maskFuncTarget (t.strOf s)) then .ok () else .error .attributeError
    | some _ => .error .typeError
  | .missing => .error .missingMandatoryValue
  | _ => .error .typeError

/-- `build_mri_transforms(**dict_flatten(remove_keys(transforms, "masking")))`: every flattened key is a parameter -/
def transformsCheck (t : Tables) (transforms : Val) : Res :=
  match transforms with
  | .map kvs =>
    if t.builderVarKw || (flattenKVs (removeKey t.kMasking kvs)).all fun k => t.builderParams.contains k then .ok ()
    else .error .typeError
  | _ => .error .attributeError

/-- an *untyped* training / validation block: what the file says is what the builders get -/
def rawBlockCheck (t : Tables) (block : Val) : Res :=
  match block.get? t.kTransforms with
  | none => .error .configAttributeError
  | some (.map kvs) =>
    match lookup t.kMasking kvs with
    | none => .error .configAttributeError
    | some m =>
      match maskingCheck t m with
      | .ok () => transformsCheck t (.map kvs)
      | .error e => .error e
  | some _ => .error .attributeError       -- `.masking` on None / a string / a list

def rawBlocksCheck (t : Tables) : List Val → Res
  | [] => .ok ()
  | b :: rest =>
    match rawBlockCheck t b with
    | .ok () => rawBlocksCheck t rest
    | .error e => .error e

def sectionBlocks (t : Tables) (file : Val) (k : Sym) : List Val :=
  match file.get? k with
  | some sec =>
    match sec.get? t.kDatasets with
    | some (.list ds) => ds
    | _ => []
  | none => []

/-- the *typed* inference block: file values over the defaults of the dataset's config class -/
def inferenceBlockCheck (t : Tables) (file : Val) : Res :=
  match file.get? t.kInference with
  | none => .ok ()
  | some sec =>
    if sec.isFalsy then .ok () else
    match sec.get? t.kDataset with
    | none => .ok ()
    | some d =>
      match datasetSchema t d with
      | .error e => .error e
      | .ok dty =>
        let dflt := dty.defaultVal
        let masking := effective dflt (some d) [t.kTransforms, t.kMasking]
        let masking' : Val :=
          match masking with
          | .map _ =>
            -- defaults of MaskingConfig fill every parameter; only `name` can stay missing
            .map ((t.kName, effective dflt (some d) [t.kTransforms, t.kMasking, t.kName]) ::
                  t.maskBuilderRequired.map fun p => (p, .null))
          | m => m
        match maskingCheck t masking' with
        | .error e => .error e
        | .ok () =>
          -- keys: those of the schema's defaults (accepted, see `transform_keys_accepted`) and those of the file (validated)
          match effective dflt none [t.kTransforms] with
          | .map kvs => transformsCheck t (.map kvs)
          | _ => .error .attributeError

def blocksCheck (t : Tables) (file : Val) : Res :=
  match rawBlocksCheck t (sectionBlocks t file t.kTraining) with
  | .error e => .error e
  | .ok () =>
    match rawBlocksCheck t (sectionBlocks t file t.kValidation) with
    | .error e => .error e
    | .ok () => inferenceBlockCheck t file

/-! ### the whole pipeline, in the order of the real code -/

/-- stage at which a configuration file is rejected: 1 merge, 2 operators, 3 engine, 4 dataset blocks -/
def checkConfig (t : Tables) (file : Val) : Except (Nat × Err) Unit :=
  match mergeCheck t file with
  | .error e => .error (1, e)
  | .ok () =>
    match operatorsCheck t file with
    | .error e => .error (2, e)
    | .ok () =>
      match engineCheck t file with
      | .error e => .error (3, e)
      | .ok () =>
        match blocksCheck t file with
        | .error e => .error (4, e)
        | .ok () => .ok ()

def configOk (t : Tables) (file : Val) : Bool :=
  match checkConfig t file with
  | .ok () => true
  | .error _ => false

/-! ## defaults -/

mutual
/-- every field default of a schema is a value of the field's type (or MISSING), recursively -/
def defaultsOk : Nat → Ty → Bool
  | 0, _ => false
  | fuel + 1, .struct _ fields => defaultsOkFields fuel fields
  | fuel + 1, .optional t => defaultsOk fuel t
  | fuel + 1, .list t => defaultsOk fuel t
  | _ + 1, _ => true
def defaultsOkFields : Nat → List (Sym × Ty × Val) → Bool
  | _, [] => true
  | fuel, (_, t, d) :: rest => (validate t d).isOk && defaultsOk fuel t && defaultsOkFields fuel rest
end

/-! ## a model class can be built from its config class -/

def Ty.fieldNames : Ty → List Sym
  | .struct _ fields => fields.map (·.1)
  | _ => []

/-- `Model(**cfg)` binds: every config field (but the two names) is a parameter or swallowed by `**kwargs`, and every
parameter without default is a config field or one of the two operators -/
def modelAccepts (t : Tables) (cfgFields : List Sym) (sig : List Sym × List Sym × Bool) : Bool :=
  (cfgFields.all fun f => f = t.kModelName || f = t.kEngineName || sig.2.2 || sig.1.contains f) &&
  (sig.2.1.all fun p => p = t.kForward || p = t.kBackward || cfgFields.contains p)

def modelInitOk (t : Tables) (e : (PStr × PStr) × (List Sym × List Sym × Bool)) : Bool :=
  match (t.schemas.find? fun s => s.1.1 = e.1.1 ∧ s.1.2 = e.1.2).map (·.2) with
  | some ty => modelAccepts t ty.fieldNames e.2
  | none => false

/-! ## registered names: everything the configuration layer can be asked for, not only what the shipped files use -/

/-- a model class with a config class: `model_name` resolves to the class and to the config class; a model that takes the
operators (an MRI model, not a sub-network) also has its default engine `<Class>Engine` -/
def modelRegistered (t : Tables) (m : Sym × Bool) : Bool :=
  let n := t.strOf m.1
  resolves t.modules (modelTarget n) && (lookupSchema t (modelConfigTarget n)).isSome &&
    (!m.2 || resolves t.modules (engineTarget n none))

/-- an engine class is reachable by `setup_engine`: it lives in `direct.nn.<pkg>.<pkg>_engine` -/
def engineReachable (t : Tables) (e : PStr × PStr) : Bool :=
  let parts := splitDot (unpack e.1)
  let pkg := (parts.drop 2).headD []
  let target := engineTarget (pkg ++ [dot]) (some (unpack e.2))
  pack target.1 == e.1 && resolves t.modules target

/-- a dataset name: `build_dataset` finds `<name>Dataset` and `load_dataset_config` finds `<name>Config` -/
def datasetRegistered (t : Tables) (d : Sym) : Bool :=
  resolves t.modules (datasetClassTarget (t.strOf d)) && (lookupSchema t (datasetConfigTarget (t.strOf d))).isSome

def maskFuncRegistered (t : Tables) (m : Sym) : Bool := resolves t.modules (maskFuncTarget (t.strOf m))

/-- a member name of `TransformsType` is accepted by the `transforms_type` field of the transform schema -/
def transformsTypeAccepted (schema : Ty) (k : Sym) (name : Sym) : Bool :=
  match schema with
  | .struct _ fields =>
    match lookup k fields with
    | some (ty, _) => (validate ty (.str name 0)).isOk
    | none => false
  | _ => false

/-- a metric / regularizer name (`"fn"` or `"fn(arg=…)"`) is a function of `direct.functionals` -/
def functionalResolves (t : Tables) (f : Sym) : Bool :=
  resolves t.modules ((functionalTarget (t.strOf f)).1, callHead (functionalTarget (t.strOf f)).2)

/-! ## edits (used by the correspondence check to send mutated trees as small messages) -/

def setKey (k : Sym) (v : Val) : List (Sym × Val) → List (Sym × Val)
  | [] => [(k, v)]
  | (k', v') :: rest => if k' = k then (k, v) :: rest else (k', v') :: setKey k v rest

/-- path step: `inl key` descends into a map, `inr idx` into a list -/
def setPath (new : Option Val) : List (Sym ⊕ Nat) → Val → Val
  | [], v => new.getD v
  | [.inl k], .map kvs =>
    match new with
    | some n => .map (setKey k n kvs)
    | none => .map (removeKey k kvs)
  | .inl k :: ps, .map kvs =>
    .map (kvs.map fun (k', v') => if k' = k then (k', setPath new ps v') else (k', v'))
  | .inr i :: ps, .list xs =>
    .list (xs.zipIdx.map fun (x, j) => if j = i then setPath new ps x else x)
  | _, v => v

end DirectVerif.Config
