import DirectVerif.Model.Basic
import DirectVerif.Model.Crop
import DirectVerif.Model.Sampler
/-!
# C14 — volume reconstruction (models of `MRIModelEngine.reconstruct_volumes`, `_process_output`
in `direct/nn/mri_models.py`, composed with the samplers of `Model/Sampler.lean` as `Engine.predict`
does)

`reconstruct` is the assembly loop with the variables `last_filename`, `curr_volume`, `slice_counter`,
`volume_size` exactly as coded:

```
for data in data_loader:
    filename = _get_filename_from_batch(data)            # ValueError unless exactly one filename
    if last_filename is None: last_filename = filename
    if last_filename != filename:
        curr_volume = None; slice_counter = 0; last_filename = filename
    output_abs = _process_output(forward(data), data["scaling_factor"], resolution)
    if curr_volume is None:
        volume_size = len(sampler.volume_indices[filename])        # KeyError if not on this rank
        curr_volume = zeros(volume_size, *output_abs.shape[1:])
    curr_volume[slice_counter : slice_counter + n] = output_abs     # torch slice assignment
    slice_counter += n
    if slice_counter == volume_size: yield (curr_volume, filename)
```
Note that `curr_volume` / `volume_size` are *not* reset after a yield — only when the filename changes.
-/
namespace DirectVerif.Recon
open DirectVerif

/-- one batch as the loop sees it: the filenames of its elements and `output_abs` (one entry per batch
element; `β` = whatever one processed slice is — an image, or a pair (output, target)). -/
structure RBatch (β : Type) where
  fnames : List Nat
  outs : List β
deriving Repr

inductive RErr where
  | valueError | keyError | runtimeError
deriving Repr, DecidableEq

/-- `last_filename`, `curr_volume`, `slice_counter`, `volume_size` -/
structure RState (β : Type) where
  last : Option Nat
  cur : Option (List β)
  counter : Nat
  volSize : Nat
deriving Repr

def RState.init {β} : RState β := ⟨none, none, 0, 0⟩

/-- `_get_filename_from_batch`: `len(set(filenames)) != 1` raises -/
def filenameOf : List Nat → Option Nat
  | [] => none
  | f :: rest => if rest.all (· == f) then some f else none

/-- `curr_volume[sc : sc + n] = outs` (torch): the slice is clipped to the volume; the assignment needs
the clipped length to equal `n`, except that a single slice broadcasts (to the — then empty — window). -/
def writeSlice {β} (cur : List β) (sc : Nat) (outs : List β) : Option (List β) :=
  let lo := min sc cur.length
  let hi := min (sc + outs.length) cur.length
  if hi - lo = outs.length then some (cur.take lo ++ outs ++ cur.drop hi)
  else match outs with
    | [_] => some cur
    | _ => none

/-- one loop iteration: new state and what is yielded, or the exception raised -/
def rstep {β} (sizeOf : Nat → Option Nat) (zero : β) (s : RState β) (b : RBatch β) :
    Except RErr (RState β × Option (List β × Nat)) :=
  match filenameOf b.fnames with
  | none => .error .valueError
  | some f =>
    let last := s.last.getD f
    let s1 : RState β :=
      if last ≠ f then { last := some f, cur := none, counter := 0, volSize := s.volSize }
      else { s with last := some last }
    let alloc : Except RErr (List β × Nat) :=
      match s1.cur with
      | some c => .ok (c, s1.volSize)
      | none =>
        match sizeOf f with
        | none => .error .keyError
        | some n => .ok (List.replicate n zero, n)
    match alloc with
    | .error e => .error e
    | .ok (cur, vsz) =>
      match writeSlice cur s1.counter b.outs with
      | none => .error .runtimeError
      | some cur' =>
        let counter := s1.counter + b.outs.length
        .ok ({ last := s1.last, cur := some cur', counter := counter, volSize := vsz },
             if counter = vsz then some (cur', f) else none)

/-- the generator: the `(volume, filename)` tuples yielded, and the exception that ended it (if any) -/
def reconstruct {β} (sizeOf : Nat → Option Nat) (zero : β) :
    RState β → List (RBatch β) → List (List β × Nat) × Option RErr
  | _, [] => ([], none)
  | s, b :: bs =>
    match rstep sizeOf zero s b with
    | .error e => ([], some e)
    | .ok (s', y) =>
      let r := reconstruct sizeOf zero s' bs
      (y.toList ++ r.1, r.2)

/-- the batches of one volume `f` whose processed slices are delivered as the consecutive pieces `ps`
(every batch element carries the volume's filename) -/
def volBatches {β} (f : Nat) (ps : List (List β)) : List (RBatch β) :=
  ps.map fun p => ⟨List.replicate p.length f, p⟩

/-! ## `_process_output` -/

/-- a 2-D image as rows -/
abbrev Img (α : Type) := List (List α)

/-- centre crop of the last two axes (C10's `center_crop`), `none` = the `ValueError` guard -/
def cropImg {α} (res : Option (Nat × Nat)) (img : Img α) : Option (Img α) :=
  match res with
  | none => some img
  | some (h, w) =>
    let W := (img.headD []).length
    if Crop.centerCropOk img.length h && Crop.centerCropOk W w then
      some ((Crop.centerCrop h img).map (Crop.centerCrop w))
    else none

/-- one batch element of a real-valued `data`: `data * scaling_factor`, channel axis, crop -/
def processSlice {α σ} (mul : α → σ → α) (res : Option (Nat × Nat)) (img : Img α) (s : σ) :
    Option (Img α) :=
  cropImg res (img.map fun row => row.map (mul · s))

/-- … of a complex `data` (last axis = (re, im)): scale both parts, then `sqrt(re² + im²)` -/
def processSliceC {α σ} (mul : α → σ → α) (modulus : α → α → α) (res : Option (Nat × Nat))
    (img : Img (α × α)) (s : σ) : Option (Img α) :=
  cropImg res (img.map fun row => row.map fun (p : α × α) => modulus (mul p.1 s) (mul p.2 s))

/-- `_process_output` on a batch: `scaling_factors.view(-1, 1, …)` pairs factor `k` with element `k` -/
def processOutput {α σ} (mul : α → σ → α) (res : Option (Nat × Nat)) (imgs : List (Img α))
    (scales : List σ) : Option (List (Img α)) :=
  (List.zipWith (processSlice mul res) imgs scales).mapM id

/-! ## structure of the code as the translator reports it (compared in Bridge/C14) -/

/-- statements of the `for data in data_loader` body of `reconstruct_volumes` that touch the assembly
state, in source order -/
def expectedLoopStages : List String :=
  ["init[curr_volume=None;last_filename=None;slice_counter=0]",
   "filename=_get_filename_from_batch(data)",
   "if last_filename is None[last_filename=filename]",
   "if last_filename != filename[curr_volume=None;last_filename=filename;slice_counter=0]",
   "scaling_factors=data['scaling_factor'].clone()",
   "forward=self._do_iteration(data)",
   "output=iteration_output.output_image",
   "output_abs=_process_output(output, scaling_factors)",
   "if curr_volume is None[curr_volume=torch.zeros(volume_size,*output_abs.shape[1:]);volume_size=len(data_loader.batch_sampler.sampler.volume_indices[filename])]",
   "write curr_volume[lo:hi]=output_abs",
   "slice_counter+=",
   "if yield_cond[yield curr_volume,filename]"]

/-- `_process_output`: scale along the batch axis, modulus, channel axis, crop -/
def expectedProcessStages : List String :=
  ["if scaling_factors is not None[data=data*scaling_factors.view(-1,ones)]",
   "data=T.modulus_if_complex(data)",
   "if len(data.shape) in [3, 4][data=data.unsqueeze(1)]",
   "if resolution is not None[data=T.center_crop(data, resolution)]"]

/-! ## `Engine.predict` = sequential sampler → batch volume sampler → loader → `reconstruct_volumes` -/

/-- `sampler.volume_indices[filename]` -/
def lookupSize (vols : List Sampler.Vol) (f : Nat) : Option Nat :=
  (vols.find? fun v => v.id == f).map Sampler.Vol.size

/-- the dataset's filename of item `i` -/
def fnameOfIndex (vols : List Sampler.Vol) (i : Nat) : Nat :=
  ((vols.find? fun v => decide (v.start ≤ i ∧ i < v.stop)).map (·.id)).getD 0

/-- The batches the data loader delivers for a batch sampler pass: dataset item `i` has filename
`fname i` and processed model output `out i` (loader workers do not reorder batches). -/
def loaderBatches {β} (fname : Nat → Nat) (out : Nat → β) (batches : List (List Nat)) : List (RBatch β) :=
  batches.map fun idxs => ⟨idxs.map fname, idxs.map out⟩

/-- what rank `rank` of `world` yields for a dataset `layout` with batch size `bs` -/
def predict {β} (layout : List Nat) (world rank bs : Nat) (out : Nat → β) (zero : β) :
    List (List β × Nat) × Option RErr :=
  let vols := Sampler.rankVols layout world rank 0
  let bvs := Sampler.BVS.mk' vols bs
  reconstruct (lookupSize vols) zero RState.init
    (loaderBatches (fnameOfIndex (Sampler.volumes layout)) out bvs.iterate)

end DirectVerif.Recon
