import DirectVerif.Model.Basic
import DirectVerif.Model.Crop
import DirectVerif.Model.Sampler
/-!
# C14 — volume reconstruction (models of `MRIModelEngine.reconstruct_volumes`, `_process_output`
in `direct/nn/mri_models.py`, composed with the samplers of `Model/Sampler.lean` as `Engine.predict`
does)

`reconstruct` is the assembly loop with the variables `last_filename`, `curr_volume`, `slice_counter`,
`volume_size` exactly as coded:

```
for data in data_loader:
    filename = _get_filename_from_batch(data)            # ValueError unless exactly one filename
    if last_filename is None: last_filename = filename
    if last_filename != filename:
        curr_volume = None; slice_counter = 0; last_filename = filename
    output_abs = _process_output(forward(data), data["scaling_factor"], resolution)
    if curr_volume is None:
        volume_size = len(sampler.volume_indices[filename])        # KeyError if not on this rank
        curr_volume = zeros(volume_size, *output_abs.shape[1:])
    curr_volume[slice_counter : slice_counter + n] = output_abs     # torch slice assignment
    slice_counter += n
    if slice_counter == volume_size: yield (curr_volume, filename)
```
Note that `curr_volume` / `volume_size` are *not* reset after a yield — only when the filename changes.
-/
namespace DirectVerif.Recon
open DirectVerif

/-- one batch as the loop sees it: the filenames of its elements and `output_abs` (one entry per batch
element; `β` = whatever one processed slice is — an image, or a pair (output, target)). -/
structure RBatch (β : Type) where
  fnames : List Nat
  outs : List β
deriving Repr

inductive RErr where
  | valueError | keyError | runtimeError | indexError
deriving Repr, DecidableEq

/-- `last_filename`, `curr_volume`, `slice_counter`, `volume_size` -/
structure RState (β : Type) where
  last : Option Nat
  cur : Option (List β)
  counter : Nat
  volSize : Nat
deriving Repr

def RState.init {β} : RState β := ⟨none, none, 0, 0⟩

/-- `_get_filename_from_batch`: `len(set(filenames)) != 1` raises -/
def filenameOf : List Nat → Option Nat
  | [] => none
  | f :: rest => if rest.all (· == f) then some f else none

/-- `curr_volume[sc : sc + n] = outs` (torch): the slice is clipped to the volume; the assignment needs
the clipped length to equal `n`, except that a single slice broadcasts (to the — then empty — window). -/
def writeSlice {β} (cur : List β) (sc : Nat) (outs : List β) : Option (List β) :=
  let lo := min sc cur.length
  let hi := min (sc + outs.length) cur.length
  if hi - lo = outs.length then some (cur.take lo ++ outs ++ cur.drop hi)
  else match outs with
    | [_] => some cur
    | _ => none

/-- one loop iteration: new state and what is yielded, or the exception raised -/
def rstep {β} (sizeOf : Nat → Option Nat) (zero : β) (s : RState β) (b : RBatch β) :
    Except RErr (RState β × Option (List β × Nat)) :=
  match filenameOf b.fnames with
  | none => .error .valueError
  | some f =>
    let last := s.last.getD f
    let s1 : RState β :=
      if last ≠ f then { last := some f, cur := none, counter := 0, volSize := s.volSize }
      else { s with last := some last }
    let alloc : Except RErr (List β × Nat) :=
      match s1.cur with
      | some c => .ok (c, s1.volSize)
      | none =>
        match sizeOf f with
        | none => .error .keyError
        | some n => .ok (List.replicate n zero, n)
    match alloc with
    | .error e => .error e
    | .ok (cur, vsz) =>
      match writeSlice cur s1.counter b.outs with
      | none => .error .runtimeError
      | some cur' =>
        let counter := s1.counter + b.outs.length
        .ok ({ last := s1.last, cur := some cur', counter := counter, volSize := vsz },
             if counter = vsz then some (cur', f) else none)

/-- the generator: the `(volume, filename)` tuples yielded, and the exception that ended it (if any) -/
def reconstruct {β} (sizeOf : Nat → Option Nat) (zero : β) :
    RState β → List (RBatch β) → List (List β × Nat) × Option RErr
  | _, [] => ([], none)
  | s, b :: bs =>
    match rstep sizeOf zero s b with
    | .error e => ([], some e)
    | .ok (s', y) =>
      let r := reconstruct sizeOf zero s' bs
      (y.toList ++ r.1, r.2)

/-- the batches of one volume `f` whose processed slices are delivered as the consecutive pieces `ps`
(every batch element carries the volume's filename) -/
def volBatches {β} (f : Nat) (ps : List (List β)) : List (RBatch β) :=
  ps.map fun p => ⟨List.replicate p.length f, p⟩

/-! ## `_process_output` -/

/-- a 2-D image as rows -/
abbrev Img (α : Type) := List (List α)

/-- centre crop of the last two axes (C10's `center_crop`), `none` = the `ValueError` guard -/
def cropImg {α} (res : Option (Nat × Nat)) (img : Img α) : Option (Img α) :=
  match res with
  | none => some img
  | some (h, w) =>
    let W := (img.headD []).length
    if Crop.centerCropOk img.length h && Crop.centerCropOk W w then
      some ((Crop.centerCrop h img).map (Crop.centerCrop w))
    else none

/-- one batch element of a real-valued `data`: `data * scaling_factor`, channel axis, crop -/
def processSlice {α σ} (mul : α → σ → α) (res : Option (Nat × Nat)) (img : Img α) (s : σ) :
    Option (Img α) :=
  cropImg res (img.map fun row => row.map (mul · s))

/-- … of a complex `data` (last axis = (re, im)): scale both parts, then `sqrt(re² + im²)` -/
def processSliceC {α σ} (mul : α → σ → α) (modulus : α → α → α) (res : Option (Nat × Nat))
    (img : Img (α × α)) (s : σ) : Option (Img α) :=
  cropImg res (img.map fun row => row.map fun (p : α × α) => modulus (mul p.1 s) (mul p.2 s))

/-- `_process_output` on a batch: `scaling_factors.view(-1, 1, …)` pairs factor `k` with element `k` -/
def processOutput {α σ} (mul : α → σ → α) (res : Option (Nat × Nat)) (imgs : List (Img α))
    (scales : List σ) : Option (List (Img α)) :=
  (List.zipWith (processSlice mul res) imgs scales).mapM id

/-! ## structure of the code as the translator reports it (compared in Bridge/C14) -/

/-- semantic facts of the `for data in data_loader` body of `reconstruct_volumes` (helpers inlined, locals
resolved, spellings canonicalised — harness/translate/recipes/c14_loop.py): initial state; what the
`last_filename` tests do for the first batch / a batch of the same file / of another file; the roles
FILENAME, ITER (`_do_iteration`), SCALE, RES, OUT (what is written); allocation; window written; counter;
yield; and the order of these parts -/
def expectedLoopStages : List String :=
  ["init[curr_volume=None;last_filename=None;slice_counter=0]",
   "guard first batch: resets[] then last_filename is the batch's filename",
   "guard same file: resets[] then last_filename is the batch's filename",
   "guard other file: resets[curr_target=None;curr_volume=None;slice_counter=0] then last_filename is the batch's filename",
   "FILENAME=_get_filename_from_batch(data)",
   "ITER=self._do_iteration(data, loss_fns=loss_fns, regularizer_fns=regularizer_fns)",
   "SCALE=data['scaling_factor'].clone()",
   "RES=_compute_resolution(key=crop, reconstruction_size=data.get('reconstruction_size', None))",
   "OUT=_process_output(ITER.output_image, scaling_factors=SCALE, resolution=RES, complex_axis=self._complex_dim)",
   "alloc volume_size=len(data_loader.batch_sampler.sampler.volume_indices[FILENAME])",
   "alloc curr_volume=torch.zeros(volume_size, *OUT.shape[1:], dtype=OUT.dtype)",
   "write curr_volume[slice_counter:slice_counter + OUT.shape[0]]=OUT.cpu()",
   "slice_counter:=slice_counter + OUT.shape[0]",
   "if slice_counter == volume_size[yield curr_volume,…,FILENAME]",
   "order guard < alloc < write < counter < yield"]

/-- `_process_output` as a decision tree over (scaling factors given?, rank 3 / 4?, resolution given?): scale
along the batch axis, modulus, channel axis, crop -/
def expectedProcessStages : List String :=
  ["when scaling_factors is None and T.modulus_if_complex(data, complex_axis=complex_axis).ndim in (3, 4) and resolution is None: return T.modulus_if_complex(data, complex_axis=complex_axis).unsqueeze(1)",
   "when scaling_factors is None and T.modulus_if_complex(data, complex_axis=complex_axis).ndim in (3, 4) and resolution is not None: return T.center_crop(T.modulus_if_complex(data, complex_axis=complex_axis).unsqueeze(1), resolution).contiguous()",
   "when scaling_factors is None and T.modulus_if_complex(data, complex_axis=complex_axis).ndim not in (3, 4) and resolution is None: return T.modulus_if_complex(data, complex_axis=complex_axis)",
   "when scaling_factors is None and T.modulus_if_complex(data, complex_axis=complex_axis).ndim not in (3, 4) and resolution is not None: return T.center_crop(T.modulus_if_complex(data, complex_axis=complex_axis), resolution).contiguous()",
   "when scaling_factors is not None and T.modulus_if_complex(data * scaling_factors.view(-1, *(1,) * (data.ndim - 1)).to(data.device), complex_axis=complex_axis).ndim in (3, 4) and resolution is None: return T.modulus_if_complex(data * scaling_factors.view(-1, *(1,) * (data.ndim - 1)).to(data.device), complex_axis=complex_axis).unsqueeze(1)",
   "when scaling_factors is not None and T.modulus_if_complex(data * scaling_factors.view(-1, *(1,) * (data.ndim - 1)).to(data.device), complex_axis=complex_axis).ndim in (3, 4) and resolution is not None: return T.center_crop(T.modulus_if_complex(data * scaling_factors.view(-1, *(1,) * (data.ndim - 1)).to(data.device), complex_axis=complex_axis).unsqueeze(1), resolution).contiguous()",
   "when scaling_factors is not None and T.modulus_if_complex(data * scaling_factors.view(-1, *(1,) * (data.ndim - 1)).to(data.device), complex_axis=complex_axis).ndim not in (3, 4) and resolution is None: return T.modulus_if_complex(data * scaling_factors.view(-1, *(1,) * (data.ndim - 1)).to(data.device), complex_axis=complex_axis)",
   "when scaling_factors is not None and T.modulus_if_complex(data * scaling_factors.view(-1, *(1,) * (data.ndim - 1)).to(data.device), complex_axis=complex_axis).ndim not in (3, 4) and resolution is not None: return T.center_crop(T.modulus_if_complex(data * scaling_factors.view(-1, *(1,) * (data.ndim - 1)).to(data.device), complex_axis=complex_axis), resolution).contiguous()"]

/-! ## `Engine.predict` = sequential sampler → batch volume sampler → loader → `reconstruct_volumes` -/

/-- `sampler.volume_indices[filename]` -/
def lookupSize (vols : List Sampler.Vol) (f : Nat) : Option Nat :=
  (vols.find? fun v => v.id == f).map Sampler.Vol.size

/-- the dataset's filename of item `i` -/
def fnameOfIndex (vols : List Sampler.Vol) (i : Nat) : Nat :=
  ((vols.find? fun v => decide (v.start ≤ i ∧ i < v.stop)).map (·.id)).getD 0

/-- The batches the data loader delivers for a batch sampler pass: dataset item `i` has filename
`fname i` and processed model output `out i` (loader workers do not reorder batches). -/
def loaderBatches {β} (fname : Nat → Nat) (out : Nat → β) (batches : List (List Nat)) : List (RBatch β) :=
  batches.map fun idxs => ⟨idxs.map fname, idxs.map out⟩

/-- what rank `rank` of `world` yields for a dataset `layout` with batch size `bs` -/
def predict {β} (layout : List Nat) (world rank bs : Nat) (out : Nat → β) (zero : β) :
    List (List β × Nat) × Option RErr :=
  let vols := Sampler.rankVols layout world rank 0
  let bvs := Sampler.BVS.mk' vols bs
  reconstruct (lookupSize vols) zero RState.init
    (loaderBatches (fnameOfIndex (Sampler.volumes layout)) out bvs.iterate)

/-! ## phase 2: the plumbing around the loop

`_compute_resolution`, the per-batch processing as `reconstruct_volumes` performs it (resolution read
from the batch's `reconstruction_size`), the data loader as an explicit component, `Engine.predict` /
`build_batch_sampler` dispatch, and `write_output_to_h5`. -/

/-- the `crop` argument: `None` / `""` (falsy), `"header"`, anything else -/
inductive CropKey where
  | none | header | other
deriving Repr, DecidableEq

/-- `_compute_resolution(key, reconstruction_size)`.  After collation `reconstruction_size` is a list over
the dimensions `(x, y, z)` of tensors over the batch; the code keeps **element 0 of the batch** for each
dimension and drops the last dimension: `[_[0] for _ in resolution][:-1]`.  `firstRecon` = the
`reconstruction_size` tuple of the first batch element.  `center_crop` then reads `shape[-2], shape[-1]`
(IndexError when fewer than two remain). -/
def computeResolution (key : CropKey) (firstRecon : List Nat) : Except RErr (Option (Nat × Nat)) :=
  match key with
  | .none => .ok none
  | .other => .error .valueError
  | .header =>
    let r := firstRecon.dropLast
    if r.length < 2 then .error .indexError
    else .ok (some (r.getD (r.length - 2) 0, r.getD (r.length - 1) 0))

/-- what the loop computes for one batch: resolution from the batch, then `_process_output` -/
def processBatch {α σ} (mul : α → σ → α) (key : CropKey) (imgs : List (Img α)) (scales : List σ)
    (recons : List (List Nat)) : Except RErr (List (Img α)) :=
  match computeResolution key (recons.headD []) with
  | .error e => .error e
  | .ok res =>
    match processOutput mul res imgs scales with
    | none => .error .valueError          -- `center_crop` guard
    | some o => .ok o

/-- the loop with the per-batch processing inside: the filename guard comes first, then the
processing (which may raise), then the assembly step -/
def reconstructP {β} (sizeOf : Nat → Option Nat) (zero : β) :
    RState β → List (List Nat × Except RErr (List β)) → List (List β × Nat) × Option RErr
  | _, [] => ([], none)
  | s, (fn, .ok outs) :: rest =>
    match rstep sizeOf zero s ⟨fn, outs⟩ with
    | .error e => ([], some e)
    | .ok (s', y) =>
      let r := reconstructP sizeOf zero s' rest
      (y.toList ++ r.1, r.2)
  | _, (fn, .error e) :: _ => ([], some (if filenameOf fn = none then .valueError else e))

/-- A data loader, as far as the loop is concerned: it turns the batch sampler's index batches into the
sequence of batches delivered.  `InOrder` is the guarantee `torch.utils.data.DataLoader` documents for
any `num_workers` / `prefetch_factor` (workers change *when* batches are ready, not their order); it
is an explicit hypothesis of the end-to-end theorem and probed on the implementation. -/
abbrev Loader := List (List Nat) → List (List Nat)
def InOrder (deliver : Loader) : Prop := ∀ b, deliver b = b

/-- `build_batch_sampler(dataset, batch_size, sampler_type, **kwargs)`: which sampler is built -/
inductive SamplerChoice where
  | concatDatasetBatchSampler            -- "random"
  | batchVolumeOverSequential            -- "sequential"
deriving Repr, DecidableEq

/-- `samplerType = none` stands for a non-string / `None` argument -/
def buildBatchSampler (samplerType : Option String) (isDatasetList : Bool) : Except RErr SamplerChoice :=
  if samplerType = some "random" then
    (if isDatasetList then .ok .concatDatasetBatchSampler else .error .valueError)
  else if samplerType = some "sequential" then .ok .batchVolumeOverSequential
  else .error .valueError

/-- `Engine.predict(dataset, …, num_workers, batch_size, crop)`:
`build_batch_sampler(dataset, batch_size=batch_size, sampler_type="sequential", limit_number_of_volumes=None)`
→ `build_loader(dataset, batch_sampler, num_workers)` → `list(reconstruct_volumes(loader, add_target=False,
crop=crop))`.  Dataset item `i` has model output `fwd i`, scaling factor `scale i` and header
`reconstruction_size` `recon i`. -/
def predictFull {α σ} (mul : α → σ → α) (layout : List Nat) (world rank bs : Nat) (key : CropKey)
    (fwd : Nat → Img α) (scale : Nat → σ) (recon : Nat → List Nat) (deliver : Loader) :
    List (List (Img α) × Nat) × Option RErr :=
  match buildBatchSampler (some "sequential") false with
  | .error e => ([], some e)
  | .ok .concatDatasetBatchSampler => ([], some .valueError)
  | .ok .batchVolumeOverSequential =>
    let vols := Sampler.rankVols layout world rank 0          -- limit_number_of_volumes=None
    let batches := deliver (Sampler.BVS.mk' vols bs).iterate
    reconstructP (lookupSize vols) [] RState.init
      (batches.map fun idxs =>
        (idxs.map (fnameOfIndex (Sampler.volumes layout)),
         processBatch mul key (idxs.map fwd) (idxs.map scale) (idxs.map recon)))

/-! ### `write_output_to_h5` -/

/-- an output directory: file name ↦ (dataset key, data), most recent first -/
abbrev Dir (γ : Type) := List (Nat × String × γ)

/-- `h5py.File(output_directory / filename, "w")` + `create_dataset(output_key, data=…)`: the file is
truncated / replaced -/
def writeFile {γ} (d : Dir γ) (name : Nat) (key : String) (data : γ) : Dir γ :=
  (name, key, data) :: d.filter fun e => e.1 != name

def readFile {γ} (d : Dir γ) (name : Nat) : Option (String × γ) :=
  (d.find? fun e => e.1 == name).map (·.2)

/-- `write_output_to_h5(output, output_directory, output_key)`: one file per tuple, named by the
**basename** of the volume's filename (`base`), holding channel 0 of the volume
(`chan0 = volume[:, 0, ...]`, as float32), in the order of `output`. -/
def writeOutput {γ δ} (base : Nat → Nat) (chan0 : δ → γ) (key : String) (d : Dir γ)
    (output : List (δ × Nat)) : Dir γ :=
  output.foldl (fun d o => writeFile d (base o.2) key (chan0 o.1)) d

/-- what the translator must report about `write_output_to_h5` (temporaries and private helpers resolved):
per tuple the file `output_directory / basename` is opened in mode "w" and channel 0 (float32) is stored
under `output_key` -/
def expectedWriterFacts : List String :=
  ["before the loop, if create_dirs_if_needed: output_directory.mkdir(exist_ok=True, parents=True)",
   "for (volume, _, filename) in output",
   "  if isinstance(filename, pathlib.PosixPath): filename=filename.name",
   "  reconstruction=volume.numpy()[:, 0, ...].astype(np.float32)",
   "  if volume_processing_func: reconstruction=volume_processing_func(reconstruction)",
   "  with h5py.File(output_directory / filename, 'w')",
   "    f.create_dataset(output_key, data=reconstruction)",
   "default output_key='reconstruction'",
   "default create_dirs_if_needed=True",
   "default volume_processing_func=None"]

/-- … about `Engine.predict` (its return value with temporaries resolved), `build_loader`,
`build_batch_sampler` and `_compute_resolution` (decision trees: if/elif/else == early returns) -/
def expectedPredictFacts : List String :=
  ["return list(self.reconstruct_volumes(self.build_loader(dataset, batch_sampler=self.build_batch_sampler(dataset, batch_size=batch_size, sampler_type='sequential', limit_number_of_volumes=None), num_workers=num_workers), add_target=False, crop=crop))"]

def expectedLoaderFacts : List String :=
  ["batch_sampler=batch_sampler",
   "batch_size=1",
   "dataset=dataset",
   "drop_last=False",
   "num_workers=num_workers",
   "pin_memory=False",
   "sampler=None",
   "shuffle=False"]

def expectedSamplerDispatch : List String :=
  ["when sampler_type != 'random' and sampler_type != 'sequential': raise ValueError",
   "when sampler_type != 'random' and sampler_type == 'sequential': return direct.data.samplers.BatchVolumeSampler(direct.data.samplers.DistributedSequentialSampler(dataset, **kwargs), batch_size=batch_size)",
   "when sampler_type == 'random' and (not (not isinstance(dataset, List) or any((not isinstance(_, Dataset) for _ in dataset)))): return ConcatDatasetBatchSampler(datasets=dataset, batch_size=batch_size)",
   "when sampler_type == 'random' and (not isinstance(dataset, List) or any((not isinstance(_, Dataset) for _ in dataset))): raise ValueError"]

def expectedResolutionFacts : List String :=
  ["when key != 'header' and key: raise ValueError",
   "when key != 'header' and not key: return None",
   "when key == 'header': return [_[0] for _ in [_.detach().cpu().numpy().tolist() for _ in reconstruction_size]][:-1]"]

end DirectVerif.Recon
