import DirectVerif.Model.Basic
import DirectVerif.Model.Shift
/-!
# C01 — `fft2` / `ifft2` (models of `direct/data/transforms.py`)

Both functions are the same *plan* — an ordered list of flag-guarded steps

    check `dim`  →  [complex_input] view_as_complex  →  [centered] ifftshift(dim)
                 →  torch.fft.(i)fftn(dim, norm = "ortho" if normalized else None)  (else: raise ValueError)
                 →  [centered] fftshift(dim)  →  [complex_input] view_as_real

The plan is *data* (`fft2Plan`, `ifft2Plan`); the translator regenerates the same table from the
Python source on every run (`Gen.C01.fft2_plan`) and `Bridge/C01.lean` proves them equal.  A plan is
interpreted twice: `runData` (what happens to the tensor, over an abstract `Backend`: the two shifts,
the per-normalisation transform pair, the two views) and `validate` (which exception the glue raises).
`torch.fft.fftn/ifftn` are *parameters* of the model (trusted base: assumed to be the per-axis DFT).

For execution the backend is instantiated on tensors of *symbolic monomials* `ω₀^e₀ · ω₁^e₁ ⋯`
(`Sym`): the DFT of a 1-sparse fibre is computed exactly, which is all that basis-tensor probing needs.
-/
namespace DirectVerif.Fft
open DirectVerif

inductive Guard | always | centered | complexInput
deriving DecidableEq, Repr

/-- torch `norm="ortho"` / `norm=None` (= `"backward"`), `"forward"` for completeness -/
inductive Norm | ortho | backward | forward
deriving DecidableEq, Repr

inductive Err | typeError | assertionError | valueError | indexError | runtimeError | zeroDivisionError
deriving DecidableEq, Repr

def Err.name : Err → String
  | .typeError => "TypeError" | .assertionError => "AssertionError" | .valueError => "ValueError"
  | .indexError => "IndexError" | .runtimeError => "RuntimeError" | .zeroDivisionError => "ZeroDivisionError"

inductive Op
  /-- `if not all((_ >= 0 and isinstance(_, int)) for _ in dim): raise TypeError` -/
  | checkDims
  /-- `assert_complex(data, complex_last=True); data = view_as_complex(data)` -/
  | viewComplex
  /-- `data = ifftshift(data, dim=dim)` -/
  | ishift
  /-- `if verify_fft_dtype_possible(data, dim): data = torch.fft.fftn / ifftn (data, dim=dim,
      norm = normT if normalized else normF)  else: raise ValueError` -/
  | transform (inverse : Bool) (normT normF : Norm)
  /-- `data = fftshift(data, dim=dim)` -/
  | fshift
  /-- `data = view_as_real(data)` -/
  | viewReal
deriving DecidableEq, Repr

structure Step where
  guard : Guard
  op : Op
deriving DecidableEq, Repr

structure Cfg where
  centered : Bool
  normalized : Bool
  complexInput : Bool
deriving DecidableEq, Repr

/-- the plan of `fft2` as it is in /repo -/
def fft2Plan : List Step :=
  [⟨.always, .checkDims⟩, ⟨.complexInput, .viewComplex⟩, ⟨.centered, .ishift⟩,
   ⟨.always, .transform false .ortho .backward⟩, ⟨.centered, .fshift⟩, ⟨.complexInput, .viewReal⟩]

/-- the plan of `ifft2` as it is in /repo -/
def ifft2Plan : List Step :=
  [⟨.always, .checkDims⟩, ⟨.complexInput, .viewComplex⟩, ⟨.centered, .ishift⟩,
   ⟨.always, .transform true .ortho .backward⟩, ⟨.centered, .fshift⟩, ⟨.complexInput, .viewReal⟩]

/-- `_ >= 0 and isinstance(_, int)` for an integer `_` -/
def dimOk (d : Int) : Bool := decide (d ≥ 0)

def Guard.holds (cfg : Cfg) : Guard → Bool
  | .always => true
  | .centered => cfg.centered
  | .complexInput => cfg.complexInput

/-- what a plan needs from the tensor library -/
structure Backend (X : Type) where
  ishift : X → X
  fshift : X → X
  transform : (inverse : Bool) → Norm → X → X
  viewComplex : X → X
  viewReal : X → X

def applyOp {X} (B : Backend X) (cfg : Cfg) : Op → X → X
  | .checkDims, x => x
  | .viewComplex, x => B.viewComplex x
  | .ishift, x => B.ishift x
  | .transform inv nT nF, x => B.transform inv (if cfg.normalized then nT else nF) x
  | .fshift, x => B.fshift x
  | .viewReal, x => B.viewReal x

/-- data flow of a plan -/
def runData {X} (B : Backend X) (cfg : Cfg) (plan : List Step) (x : X) : X :=
  plan.foldl (fun acc st => if st.guard.holds cfg then applyOp B cfg st.op acc else acc) x

def fft2 {X} (B : Backend X) (cfg : Cfg) (x : X) : X := runData B cfg fft2Plan x
def ifft2 {X} (B : Backend X) (cfg : Cfg) (x : X) : X := runData B cfg ifft2Plan x

/-! ## 1-D list backend (the per-axis view used by the theorems) -/

/-- one axis: shifts are the model's `fftshift1` / `ifftshift1`, the transform pair is a parameter -/
def listBackend {α} (F : Bool → Norm → List α → List α) : Backend (List α) where
  ishift := Shift.ifftshift1
  fshift := Shift.fftshift1
  transform := F
  viewComplex := id
  viewReal := id

/-! ## n-D backend over per-axis operators -/

/-- apply a per-axis operator along every axis listed in `dims`, in order (this is `roll`'s loop and
the per-axis factorisation of `fftn`) -/
def applyAxes {X} (op : Nat → X → X) (dims : List Nat) (x : X) : X :=
  dims.foldl (fun acc d => op d acc) x

def axesBackend {X} (sI sF : Nat → X → X) (F : Bool → Norm → Nat → X → X) (vC vR : X → X)
    (dims : List Nat) : Backend X where
  ishift := applyAxes sI dims
  fshift := applyAxes sF dims
  transform := fun inv nm => applyAxes (F inv nm) dims
  viewComplex := vC
  viewReal := vR

/-! ## Validation glue (which exception is raised, in statement order) -/

inductive DType | float16 | float32 | float64 | complex32 | complex64 | complex128 | other
deriving DecidableEq, Repr

def DType.viewComplex : DType → Option DType
  | .float16 => some .complex32 | .float32 => some .complex64 | .float64 => some .complex128
  | _ => none      -- torch: RuntimeError "view_as_complex is only supported for half, float and double"

def DType.viewReal : DType → DType
  | .complex32 => .float16 | .complex64 => .float32 | .complex128 => .float64 | d => d

/-- result dtype of `torch.fft.fftn` -/
def DType.afterFft : DType → DType
  | .float32 => .complex64 | d => d

/-- `is_power_of_two` -/
def isPow2 (n : Nat) : Bool := n != 0 && (n &&& (n - 1)) == 0

/-- `verify_fft_dtype_possible` -/
def dtypeOk (dt : DType) (lens : List Nat) : Bool :=
  dt == .complex64 || (dt == .float32 && lens.all isPow2)

structure VState where
  shape : List Nat
  dtype : DType
deriving DecidableEq, Repr

def hasDup : List Int → Bool
  | [] => false
  | d :: ds => ds.contains d || hasDup ds

/-- `roll` over `dims` of a tensor of this shape: `data.shape[dim_num]` (IndexError) then
`shift % data.size(dim)` (ZeroDivisionError on an empty axis) -/
def validateShift (dims : List Int) (s : VState) : Except Err VState :=
  if dims.any (fun d => d.toNat ≥ s.shape.length) then .error .indexError
  else if dims.any (fun d => s.shape.getD d.toNat 1 == 0) then .error .zeroDivisionError
  else .ok s

def validateOp (dims : List Int) : Op → VState → Except Err VState
  | .checkDims, s => if dims.all dimOk then .ok s else .error .typeError
  | .viewComplex, s =>
    if s.shape.getLast? ≠ some 2 then .error .assertionError else
    match s.dtype.viewComplex with
    | none => .error .runtimeError
    | some dt => .ok { shape := s.shape.dropLast, dtype := dt }
  | .ishift, s => validateShift dims s
  | .fshift, s => validateShift dims s
  | .transform _ _ _, s =>
    if s.dtype == .float32 && dims.any (fun d => d.toNat ≥ s.shape.length) then
      .error .indexError          -- `data.size(idx)` inside verify_fft_dtype_possible
    else if !(dtypeOk s.dtype (dims.map fun d => s.shape.getD d.toNat 1)) then .error .valueError
    else if dims.any (fun d => d.toNat ≥ s.shape.length) then .error .indexError
    else if hasDup dims then .error .runtimeError                     -- "FFT dims must be unique"
    else if dims.any (fun d => s.shape.getD d.toNat 1 == 0) then .error .runtimeError
    else .ok { s with dtype := s.dtype.afterFft }
  | .viewReal, s => .ok { shape := s.shape ++ [2], dtype := s.dtype.viewReal }

def validate (cfg : Cfg) (dims : List Int) (plan : List Step) (s : VState) : Except Err VState :=
  plan.foldlM (fun acc st => if st.guard.holds cfg then validateOp dims st.op acc else .ok acc) s

/-- **flat decision list** (specification of the glue, proved equal to `validate` on both plans in
`Lemmas/C01Validate.lean`): which exception `fft2` / `ifft2` raise, in priority order, else the result
shape / dtype.  `oor` = some `dim` entry is not an axis of the (complex) tensor, `empty` = some
transformed axis has length 0. -/
def validateSpec (cfg : Cfg) (dims : List Int) (s : VState) : Except Err VState :=
  if !dims.all dimOk then .error .typeError else
  if cfg.complexInput && s.shape.getLast? ≠ some 2 then .error .assertionError else
  if cfg.complexInput && s.dtype.viewComplex = none then .error .runtimeError else
  let shape := if cfg.complexInput then s.shape.dropLast else s.shape
  let dt := if cfg.complexInput then (s.dtype.viewComplex).getD .other else s.dtype
  let oor := dims.any (fun d => d.toNat ≥ shape.length)
  let empty := dims.any (fun d => shape.getD d.toNat 1 == 0)
  if cfg.centered && oor then .error .indexError else
  if cfg.centered && empty then .error .zeroDivisionError else
  if dt == .float32 && oor then .error .indexError else
  if !(dtypeOk dt (dims.map fun d => shape.getD d.toNat 1)) then .error .valueError else
  if oor then .error .indexError else
  if hasDup dims then .error .runtimeError else
  if empty then .error .runtimeError else
  .ok { shape := if cfg.complexInput then shape ++ [2] else shape,
        dtype := if cfg.complexInput then dt.afterFft.viewReal else dt.afterFft }

/-- the shape both plans have: check `dim`, optional complex view, optional `ifftshift`, the guarded
transform, optional `fftshift`, optional real view -/
def stdPlan (inv : Bool) (nT nF : Norm) : List Step :=
  [⟨.always, .checkDims⟩, ⟨.complexInput, .viewComplex⟩, ⟨.centered, .ishift⟩,
   ⟨.always, .transform inv nT nF⟩, ⟨.centered, .fshift⟩, ⟨.complexInput, .viewReal⟩]

/-! ## Re-implementations of the centred transform outside `direct/data/transforms.py`

`direct/data/fake.py: fft / ifft` and `direct/data/datasets.py: SheppLoganDataset.fft` spell the centred
transform out with numpy (`np.fft.ifftshift → np.fft.(i)fft2(norm="ortho") → np.fft.fftshift`).  The translator
reads their statement / call nesting order and the axes of every stage into a `Reimpl`; `Reimpl.ok` says
"this is the centred orthonormal plan of `fft2` / `ifft2`, every stage over the same explicit axes". -/

/-- axes argument of one numpy stage: `none` = omitted for a shift (numpy: *all* axes) -/
abbrev AxesArg := Option (List Int)

structure Reimpl where
  inverse : Bool
  steps : List Step
  axes : List AxesArg
deriving DecidableEq, Repr

/-- the centred orthonormal plan on a complex array (what `fft2`/`ifft2` do for `centered=True,
normalized=True, complex_input=False`, without the `dim` check) -/
def centredPlan (inverse : Bool) : List Step :=
  [⟨.always, .ishift⟩, ⟨.always, .transform inverse .ortho .ortho⟩, ⟨.always, .fshift⟩]

def Reimpl.ok (r : Reimpl) : Bool :=
  r.steps == centredPlan r.inverse &&
  match r.axes with
  | some a :: rest => rest.all (· == some a) && r.axes.length == 3 && a.length == 2 && !hasDup a
  | _ => false

/-- `SheppLoganDataset.fft` as it was on the pinned tree: `fftshift` (all axes) before, `ifftshift` (all axes)
after the transform over axes (1, 2) -/
def sheppPinned : Reimpl :=
  { inverse := false
    steps := [⟨.always, .fshift⟩, ⟨.always, .transform false .ortho .ortho⟩, ⟨.always, .ishift⟩]
    axes := [none, some [1, 2], none] }

/-! ## Structural facts about the functions of `transforms.py` and about their call sites -/

inductive Fn | fft2 | ifft2 | roll | rollOneDim | fftshift | ifftshift | verifyDtype | viewAsComplex | viewAsReal
deriving DecidableEq, Repr

/-- what the translator counts in the AST of one function -/
structure FnFacts where
  fn : Fn
  /-- `global` / `nonlocal` statements -/
  globals : Nat
  /-- stores to attributes, to subscripts of names that are not lists created inside the function, and to
  names of the enclosing module -/
  foreignStores : Nat
  /-- in-place operations on a tensor argument: augmented assignment, `x[...] = …`, methods ending in `_`,
  `out=` keywords -/
  inplace : Nat
  decorators : Nat
  /-- mutable default arguments (a list / dict / set / call as default) -/
  mutableDefaults : Nat
  /-- `return` statements that are not the last statement of the body and hand back something other than a Boolean
  expression (an early `return True` of a predicate is a branch of its decision tree, tied by the translated kernel) -/
  earlyReturns : Nat
  /-- reads of ambient interpreter / torch state (`torch.is_autocast_enabled`, `is_grad_enabled`, `get_default_dtype`,
  `is_inference_mode_enabled`, `are_deterministic_algorithms_enabled`, `torch.backends.*`, `os.environ`, …), in the function
  or in a private helper of the module that it (transitively) calls; `globals`, `foreignStores`, `inplace` also include
  those helpers -/
  ambient : Nat
deriving DecidableEq, Repr

/-- no state kept across calls, no in-place update of an argument, no dependence on an ambient mode (autocast, grad mode,
default dtype, backend flags), no early exit that skips the plan (the one
early `return data` of `roll_one_dim` for a zero shift is part of the model: `rollOne`) -/
def FnFacts.pure (f : FnFacts) : Bool :=
  f.globals == 0 && f.foreignStores == 0 && f.inplace == 0 && f.decorators == 0 && f.mutableDefaults == 0 &&
  Nat.ble f.earlyReturns (if f.fn == .rollOneDim then 1 else 0) && f.ambient == 0

/-- a call of `fft2` / `ifft2` (directly, or through a `forward_operator` / `backward_operator` handle) somewhere under
`direct/`: the axis tuples the `dim` argument can evaluate to (literals, or the `_spatial_dims` literals of the same
file, shifted when the call says `d - k for d in …`), and the flags it overrides -/
structure CallSite where
  /-- file index, line (for the replay) -/
  file : Nat
  line : Nat
  /-- `false` when the `dim` expression has a form the scanner does not understand -/
  understood : Bool
  dims : List (List Int)
  /-- overrides `(flag, value)`: flag 0 = centered, 1 = normalized, 2 = complex_input; any other keyword = 9 -/
  overrides : List (Nat × Bool)
deriving DecidableEq, Repr

def dimsAcceptable (d : List Int) : Bool := d.all dimOk && !hasDup d && (d.length == 2 || d.length == 3)

/-- (`understood` is informational: a `dim` expression the scanner cannot read contributes no tuple and is listed in the
evidence notes — an unreadable refactoring is not an alarm by itself) -/
def CallSite.ok (c : CallSite) : Bool :=
  c.dims.all dimsAcceptable && c.overrides.all (fun o => o.1 < 3)

/-! ## Symbolic execution on basis tensors -/

/-- `none` = 0; `some es` = the monomial `Π_a exp(-2πi·es[a] / n_a)` (one exponent per tensor axis).
`some []` marks a fibre that was not 1-sparse (the symbolic DFT does not apply). -/
abbrev Sym := Option (List Int)

def symBad : Sym := some []

/-- exact DFT (`inverse = false`: kernel `exp(-2πi jk/n)`; `true`: `exp(+2πi jk/n)`) of a fibre with
at most one non-zero entry; the scale factor is tracked separately. -/
def symDft (inverse : Bool) (axis : Nat) (xs : List Sym) : List Sym :=
  let n := xs.length
  let nz := (xs.zipIdx).filter fun (v, _) => v.isSome
  match nz with
  | [] => xs
  | [(some es, j)] =>
    if es == [] then xs.map fun _ => symBad else
    (List.range n).map fun (k : Nat) =>
      let e : Int := (j : Int) * (k : Int)
      let e := if inverse then -e else e
      some (es.set axis ((es.getD axis 0 + e) % (n : Int)))
  | _ => xs.map fun _ => symBad

/-- a symbolic tensor with the square of its real scale factor as a fraction -/
structure SymT where
  t : Tensor Sym
  num : Nat
  den : Nat

/-- square of the factor `torch.fft` applies for `N` transformed points -/
def scaleSq (inverse : Bool) (nm : Norm) (N : Nat) : Nat × Nat :=
  match nm, inverse with
  | .ortho, _ => (1, N)
  | .backward, false => (1, 1)
  | .backward, true => (1, N * N)
  | .forward, false => (1, N * N)
  | .forward, true => (1, 1)

/-- **the backend the driver runs**: shifts are the model's n-D `fftshift` / `ifftshift` over `dims`,
the transform is the per-axis lifting (`Tensor.alongAxis`) of a 1-D transform `F inverse norm axis`,
applied along every axis of `dims` in turn -/
def tensorBackend {α} [Inhabited α] (F : Bool → Norm → Nat → List α → List α) (dims : List Nat) :
    Backend (Tensor α) where
  ishift := fun t => Shift.ifftshift t dims
  fshift := fun t => Shift.fftshift t dims
  transform := fun inv nm t => applyAxes (fun d t => t.alongAxis d (F inv nm d)) dims t
  viewComplex := id
  viewReal := id

/-- the symbolic 1-D transform (the scale is tracked separately, so the norm is ignored here) -/
def symF : Bool → Norm → Nat → List Sym → List Sym := fun inv _ d => symDft inv d

/-- `tensorBackend symF` on the symbolic tensor + exact bookkeeping of the scale factor -/
def symBackend (dims : List Nat) : Backend SymT where
  ishift := fun x => { x with t := (tensorBackend symF dims).ishift x.t }
  fshift := fun x => { x with t := (tensorBackend symF dims).fshift x.t }
  transform := fun inv nm x =>
    let N := prod (dims.map fun d => x.t.shape.getD d 1)
    let (a, b) := scaleSq inv nm N
    { t := (tensorBackend symF dims).transform inv nm x.t, num := x.num * a, den := x.den * b }
  viewComplex := id
  viewReal := id

end DirectVerif.Fft
