import DirectVerif.Model.Basic
import DirectVerif.Model.Shift
/-!
# C01 — `fft2` / `ifft2` (models of `direct/data/transforms.py`)

Both functions are the same *plan* — an ordered list of flag-guarded steps

    check `dim`  →  [complex_input] view_as_complex  →  [centered] ifftshift(dim)
                 →  torch.fft.(i)fftn(dim, norm = "ortho" if normalized else None)  (else: raise ValueError)
                 →  [centered] fftshift(dim)  →  [complex_input] view_as_real

The plan is *data* (`fft2Plan`, `ifft2Plan`); the translator regenerates the same table from the
Python source on every run (`Gen.C01.fft2_plan`) and `Bridge/C01.lean` proves them equal.  A plan is
interpreted twice: `runData` (what happens to the tensor, over an abstract `Backend`: the two shifts,
the per-normalisation transform pair, the two views) and `validate` (which exception the glue raises).
`torch.fft.fftn/ifftn` are *parameters* of the model (trusted base: assumed to be the per-axis DFT).

For execution the backend is instantiated on tensors of *symbolic monomials* `ω₀^e₀ · ω₁^e₁ ⋯`
(`Sym`): the DFT of a 1-sparse fibre is computed exactly, which is all that basis-tensor probing needs.
-/
namespace DirectVerif.Fft
open DirectVerif

inductive Guard | always | centered | complexInput
deriving DecidableEq, Repr

/-- torch `norm="ortho"` / `norm=None` (= `"backward"`), `"forward"` for completeness -/
inductive Norm | ortho | backward | forward
deriving DecidableEq, Repr

inductive Err | typeError | assertionError | valueError | indexError | runtimeError | zeroDivisionError
deriving DecidableEq, Repr

def Err.name : Err → String
  | .typeError => "TypeError" | .assertionError => "AssertionError" | .valueError => "ValueError"
  | .indexError => "IndexError" | .runtimeError => "RuntimeError" | .zeroDivisionError => "ZeroDivisionError"

inductive Op
  /-- `if not all((_ >= 0 and isinstance(_, int)) for _ in dim): raise TypeError` -/
  | checkDims
  /-- `assert_complex(data, complex_last=True); data = view_as_complex(data)` -/
  | viewComplex
  /-- `data = ifftshift(data, dim=dim)` -/
  | ishift
  /-- `if verify_fft_dtype_possible(data, dim): data = torch.fft.fftn / ifftn (data, dim=dim,
      norm = normT if normalized else normF)  else: raise ValueError` -/
  | transform (inverse : Bool) (normT normF : Norm)
  /-- `data = fftshift(data, dim=dim)` -/
  | fshift
  /-- `data = view_as_real(data)` -/
  | viewReal
deriving DecidableEq, Repr

structure Step where
  guard : Guard
  op : Op
deriving DecidableEq, Repr

structure Cfg where
  centered : Bool
  normalized : Bool
  complexInput : Bool
deriving DecidableEq, Repr

/-- the plan of `fft2` as it is in /repo -/
def fft2Plan : List Step :=
  [⟨.always, .checkDims⟩, ⟨.complexInput, .viewComplex⟩, ⟨.centered, .ishift⟩,
   ⟨.always, .transform false .ortho .backward⟩, ⟨.centered, .fshift⟩, ⟨.complexInput, .viewReal⟩]

/-- the plan of `ifft2` as it is in /repo -/
def ifft2Plan : List Step :=
  [⟨.always, .checkDims⟩, ⟨.complexInput, .viewComplex⟩, ⟨.centered, .ishift⟩,
   ⟨.always, .transform true .ortho .backward⟩, ⟨.centered, .fshift⟩, ⟨.complexInput, .viewReal⟩]

/-- `_ >= 0 and isinstance(_, int)` for an integer `_` -/
def dimOk (d : Int) : Bool := decide (d ≥ 0)

def Guard.holds (cfg : Cfg) : Guard → Bool
  | .always => true
  | .centered => cfg.centered
  | .complexInput => cfg.complexInput

/-- what a plan needs from the tensor library -/
structure Backend (X : Type) where
  ishift : X → X
  fshift : X → X
  transform : (inverse : Bool) → Norm → X → X
  viewComplex : X → X
  viewReal : X → X

def applyOp {X} (B : Backend X) (cfg : Cfg) : Op → X → X
  | .checkDims, x => x
  | .viewComplex, x => B.viewComplex x
  | .ishift, x => B.ishift x
  | .transform inv nT nF, x => B.transform inv (if cfg.normalized then nT else nF) x
  | .fshift, x => B.fshift x
  | .viewReal, x => B.viewReal x

/-- data flow of a plan -/
def runData {X} (B : Backend X) (cfg : Cfg) (plan : List Step) (x : X) : X :=
  plan.foldl (fun acc st => if st.guard.holds cfg then applyOp B cfg st.op acc else acc) x

def fft2 {X} (B : Backend X) (cfg : Cfg) (x : X) : X := runData B cfg fft2Plan x
def ifft2 {X} (B : Backend X) (cfg : Cfg) (x : X) : X := runData B cfg ifft2Plan x

/-! ## 1-D list backend (the per-axis view used by the theorems) -/

/-- one axis: shifts are the model's `fftshift1` / `ifftshift1`, the transform pair is a parameter -/
def listBackend {α} (F : Bool → Norm → List α → List α) : Backend (List α) where
  ishift := Shift.ifftshift1
  fshift := Shift.fftshift1
  transform := F
  viewComplex := id
  viewReal := id

/-! ## n-D backend over per-axis operators -/

/-- apply a per-axis operator along every axis listed in `dims`, in order (this is `roll`'s loop and
the per-axis factorisation of `fftn`) -/
def applyAxes {X} (op : Nat → X → X) (dims : List Nat) (x : X) : X :=
  dims.foldl (fun acc d => op d acc) x

def axesBackend {X} (sI sF : Nat → X → X) (F : Bool → Norm → Nat → X → X) (vC vR : X → X)
    (dims : List Nat) : Backend X where
  ishift := applyAxes sI dims
  fshift := applyAxes sF dims
  transform := fun inv nm => applyAxes (F inv nm) dims
  viewComplex := vC
  viewReal := vR

/-! ## Validation glue (which exception is raised, in statement order) -/

inductive DType | float16 | float32 | float64 | complex32 | complex64 | complex128 | other
deriving DecidableEq, Repr

def DType.viewComplex : DType → Option DType
  | .float16 => some .complex32 | .float32 => some .complex64 | .float64 => some .complex128
  | _ => none      -- torch: RuntimeError "view_as_complex is only supported for half, float and double"

def DType.viewReal : DType → DType
  | .complex32 => .float16 | .complex64 => .float32 | .complex128 => .float64 | d => d

/-- result dtype of `torch.fft.fftn` -/
def DType.afterFft : DType → DType
  | .float32 => .complex64 | d => d

/-- `is_power_of_two` -/
def isPow2 (n : Nat) : Bool := n != 0 && (n &&& (n - 1)) == 0

/-- `verify_fft_dtype_possible` -/
def dtypeOk (dt : DType) (lens : List Nat) : Bool :=
  dt == .complex64 || (dt == .float32 && lens.all isPow2)

structure VState where
  shape : List Nat
  dtype : DType
deriving DecidableEq, Repr

def hasDup : List Int → Bool
  | [] => false
  | d :: ds => ds.contains d || hasDup ds

/-- `roll` over `dims` of a tensor of this shape: `data.shape[dim_num]` (IndexError) then
`shift % data.size(dim)` (ZeroDivisionError on an empty axis) -/
def validateShift (dims : List Int) (s : VState) : Except Err VState :=
  if dims.any (fun d => d.toNat ≥ s.shape.length) then .error .indexError
  else if dims.any (fun d => s.shape.getD d.toNat 1 == 0) then .error .zeroDivisionError
  else .ok s

def validateOp (dims : List Int) : Op → VState → Except Err VState
  | .checkDims, s => if dims.all dimOk then .ok s else .error .typeError
  | .viewComplex, s =>
    if s.shape.getLast? ≠ some 2 then .error .assertionError else
    match s.dtype.viewComplex with
    | none => .error .runtimeError
    | some dt => .ok { shape := s.shape.dropLast, dtype := dt }
  | .ishift, s => validateShift dims s
  | .fshift, s => validateShift dims s
  | .transform _ _ _, s =>
    if s.dtype == .float32 && dims.any (fun d => d.toNat ≥ s.shape.length) then
      .error .indexError          -- `data.size(idx)` inside verify_fft_dtype_possible
    else if !(dtypeOk s.dtype (dims.map fun d => s.shape.getD d.toNat 1)) then .error .valueError
    else if dims.any (fun d => d.toNat ≥ s.shape.length) then .error .indexError
    else if hasDup dims then .error .runtimeError                     -- "FFT dims must be unique"
    else if dims.any (fun d => s.shape.getD d.toNat 1 == 0) then .error .runtimeError
    else .ok { s with dtype := s.dtype.afterFft }
  | .viewReal, s => .ok { shape := s.shape ++ [2], dtype := s.dtype.viewReal }

def validate (cfg : Cfg) (dims : List Int) (plan : List Step) (s : VState) : Except Err VState :=
  plan.foldlM (fun acc st => if st.guard.holds cfg then validateOp dims st.op acc else .ok acc) s

/-! ## Symbolic execution on basis tensors -/

/-- `none` = 0; `some es` = the monomial `Π_a exp(-2πi·es[a] / n_a)` (one exponent per tensor axis).
`some []` marks a fibre that was not 1-sparse (the symbolic DFT does not apply). -/
abbrev Sym := Option (List Int)

def symBad : Sym := some []

/-- exact DFT (`inverse = false`: kernel `exp(-2πi jk/n)`; `true`: `exp(+2πi jk/n)`) of a fibre with
at most one non-zero entry; the scale factor is tracked separately. -/
def symDft (inverse : Bool) (axis : Nat) (xs : List Sym) : List Sym :=
  let n := xs.length
  let nz := (xs.zipIdx).filter fun (v, _) => v.isSome
  match nz with
  | [] => xs
  | [(some es, j)] =>
    if es == [] then xs.map fun _ => symBad else
    (List.range n).map fun (k : Nat) =>
      let e : Int := (j : Int) * (k : Int)
      let e := if inverse then -e else e
      some (es.set axis ((es.getD axis 0 + e) % (n : Int)))
  | _ => xs.map fun _ => symBad

/-- a symbolic tensor with the square of its real scale factor as a fraction -/
structure SymT where
  t : Tensor Sym
  num : Nat
  den : Nat

/-- square of the factor `torch.fft` applies for `N` transformed points -/
def scaleSq (inverse : Bool) (nm : Norm) (N : Nat) : Nat × Nat :=
  match nm, inverse with
  | .ortho, _ => (1, N)
  | .backward, false => (1, 1)
  | .backward, true => (1, N * N)
  | .forward, false => (1, N * N)
  | .forward, true => (1, 1)

/-- **the backend the driver runs**: shifts are the model's n-D `fftshift` / `ifftshift` over `dims`,
the transform is the per-axis lifting (`Tensor.alongAxis`) of a 1-D transform `F inverse norm axis`,
applied along every axis of `dims` in turn -/
def tensorBackend {α} [Inhabited α] (F : Bool → Norm → Nat → List α → List α) (dims : List Nat) :
    Backend (Tensor α) where
  ishift := fun t => Shift.ifftshift t dims
  fshift := fun t => Shift.fftshift t dims
  transform := fun inv nm t => applyAxes (fun d t => t.alongAxis d (F inv nm d)) dims t
  viewComplex := id
  viewReal := id

/-- the symbolic 1-D transform (the scale is tracked separately, so the norm is ignored here) -/
def symF : Bool → Norm → Nat → List Sym → List Sym := fun inv _ d => symDft inv d

/-- `tensorBackend symF` on the symbolic tensor + exact bookkeeping of the scale factor -/
def symBackend (dims : List Nat) : Backend SymT where
  ishift := fun x => { x with t := (tensorBackend symF dims).ishift x.t }
  fshift := fun x => { x with t := (tensorBackend symF dims).fshift x.t }
  transform := fun inv nm x =>
    let N := prod (dims.map fun d => x.t.shape.getD d 1)
    let (a, b) := scaleSq inv nm N
    { t := (tensorBackend symF dims).transform inv nm x.t, num := x.num * a, den := x.den * b }
  viewComplex := id
  viewReal := id

end DirectVerif.Fft
