import DirectVerif.Lemmas.C15Parse
/-!
# Crash safety of the save routine: frames, crash prefixes, the three phases — no Mathlib
-/
namespace DirectVerif.Ckpt

/-- the names an operation may modify -/
def touches : FsOp → FName → Prop
  | .openTrunc f, g => g = f
  | .write f _, g => g = f
  | .close _, _ => False
  | .replace s t, g => g = s ∨ g = t
  | .unlink f, g => g = f

theorem set_same (d : Dir) (f : FName) (v : Option Bytes) : d.set f v f = v := by simp [Dir.set]
theorem set_other (d : Dir) (f g : FName) (v : Option Bytes) (h : g ≠ f) : d.set f v g = d g := by
  simp [Dir.set, h]

theorem applyOp_frame (d : Dir) (op : FsOp) (g : FName) (h : ¬ touches op g) : applyOp d op g = d g := by
  cases op with
  | openTrunc f => exact set_other _ _ _ _ h
  | write f c =>
    simp only [applyOp]
    cases d f with
    | none => rfl
    | some b => exact set_other _ _ _ _ h
  | close f => rfl
  | replace s t =>
    simp only [applyOp]
    have h1 : g ≠ s := fun e => h (Or.inl e)
    have h2 : g ≠ t := fun e => h (Or.inr e)
    cases d s with
    | none => rfl
    | some b => show ((d.set t (some b)).set s none) g = d g; rw [set_other _ _ _ _ h1, set_other _ _ _ _ h2]
  | unlink f => exact set_other _ _ _ _ h

theorem run_nil (d : Dir) : run d [] = d := rfl
theorem run_cons (d : Dir) (o : FsOp) (ops : List FsOp) : run d (o :: ops) = run (applyOp d o) ops := rfl
theorem run_append (d : Dir) (a b : List FsOp) : run d (a ++ b) = run (run d a) b := by
  simp [run, List.foldl_append]

theorem run_frame (d : Dir) (ops : List FsOp) (g : FName) (h : ∀ o ∈ ops, ¬ touches o g) :
    run d ops g = d g := by
  induction ops generalizing d with
  | nil => rfl
  | cons o r ih =>
    rw [run_cons, ih _ (fun o' ho' => h o' (List.mem_cons_of_mem _ ho')),
      applyOp_frame _ _ _ (h o List.mem_cons_self)]

/-- `load('latest')` only looks at `last_model.txt` and the `model_<it>.pt` files -/
theorem loadLatest_congr {S} (decode : Bytes → Option S) (d d' : Dir) (hl : d' .last = d .last)
    (hm : ∀ j, d' (.model j) = d (.model j)) : loadLatest decode d' = loadLatest decode d := by
  unfold loadLatest
  rw [hl]
  cases d .last with
  | none => rfl
  | some txt =>
    simp only
    cases parseInt (readline txt) with
    | none => rfl
    | some it => simp only [hm it]

/-! ### crash prefixes -/

theorem CrashOf.refl (ops : List FsOp) : CrashOf ops ops := by
  induction ops with
  | nil => exact .nil _
  | cons o r ih => exact .cons _ _ _ ih

theorem CrashOf.append_cases {a b p : List FsOp} (h : CrashOf (a ++ b) p) :
    CrashOf a p ∨ ∃ q, p = a ++ q ∧ CrashOf b q := by
  induction a generalizing p with
  | nil => exact Or.inr ⟨p, rfl, h⟩
  | cons o a ih =>
    cases h with
    | nil => exact Or.inl (.nil _)
    | cons _ _ p' hp =>
      rcases ih hp with h1 | ⟨q, rfl, hq⟩
      · exact Or.inl (.cons _ _ _ h1)
      · exact Or.inr ⟨q, rfl, hq⟩
    | cut f c _ m => exact Or.inl (.cut _ _ _ _)

theorem CrashOf.touches {ops p : List FsOp} (h : CrashOf ops p) :
    ∀ o ∈ p, ∀ g, touches o g → ∃ o' ∈ ops, touches o' g := by
  induction h with
  | nil => intro o ho; cases ho
  | cons o ops p _ ih =>
    intro o' ho' g hg
    rcases List.mem_cons.mp ho' with rfl | hm
    · exact ⟨o', List.mem_cons_self, hg⟩
    · obtain ⟨o'', h1, h2⟩ := ih o' hm g hg
      exact ⟨o'', List.mem_cons_of_mem _ h1, h2⟩
  | cut f c ops m =>
    intro o' ho' g hg
    rw [List.mem_singleton] at ho'
    subst ho'
    exact ⟨.write f c, List.mem_cons_self, hg⟩

/-- the executable enumeration only produces crash prefixes … -/
theorem crashAt_crashOf (ops : List FsOp) (n : Nat) (m : Option Nat) : CrashOf ops (crashAt ops n m) := by
  induction ops generalizing n with
  | nil => cases m <;> simp [crashAt] <;> exact .nil _
  | cons o r ih =>
    cases n with
    | zero =>
      cases m with
      | none => simp [crashAt]; exact .nil _
      | some k =>
        cases o with
        | write f c => simp [crashAt]; exact .cut _ _ _ _
        | openTrunc f => simp [crashAt]; exact .nil _
        | close f => simp [crashAt]; exact .nil _
        | replace s t => simp [crashAt]; exact .nil _
        | unlink f => simp [crashAt]; exact .nil _
    | succ n =>
      have : crashAt (o :: r) (n + 1) m = o :: crashAt r n m := by simp [crashAt]
      rw [this]
      exact .cons _ _ _ (ih n)

/-- … and produces all of them -/
theorem crashOf_crashAt {ops p : List FsOp} (h : CrashOf ops p) : ∃ n m, p = crashAt ops n m := by
  induction h with
  | nil ops => exact ⟨0, none, by simp [crashAt]⟩
  | cons o ops p _ ih =>
    obtain ⟨n, m, rfl⟩ := ih
    exact ⟨n + 1, m, by simp [crashAt]⟩
  | cut f c ops m => exact ⟨0, some m, by simp [crashAt]⟩

end DirectVerif.Ckpt
